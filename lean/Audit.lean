import Lean
/-
  Audit: for each module named on the command line, list every theorem declared in it with the
  axioms it depends on, as JSON lines.  Run with `lake env lean --run Audit.lean <Module> …`.
  check.py refuses anything outside {propext, Classical.choice, Quot.sound} and any `sorryAx`.
-/
open Lean

def auditModule (env : Environment) (mod : Name) : IO Unit := do
  let some idx := env.getModuleIdx? mod | IO.println s!"\{\"module\":\"{mod}\",\"error\":\"not found\"}"
  let mut names : Array Name := #[]
  for (n, ci) in env.constants.toList do
    if env.getModuleIdxFor? n == some idx then
      match ci with
      | .thmInfo _ => if !n.isInternal then names := names.push n
      | _ => pure ()
  let sorted := names.qsort (fun a b => a.toString < b.toString)
  for n in sorted do
    let (axs, _) ← ((collectAxioms n : CoreM (Array Name)).toIO
      { fileName := "<audit>", fileMap := default } { env := env })
    let axs := axs.qsort (fun a b => a.toString < b.toString)
    let l := ",".intercalate (axs.toList.map fun a => s!"\"{a}\"")
    IO.println s!"\{\"module\":\"{mod}\",\"theorem\":\"{n}\",\"axioms\":[{l}]}"

def main (args : List String) : IO UInt32 := do
  initSearchPath (← findSysroot)
  let mods := args.map String.toName
  let env ← importModules (mods.toArray.map fun m => { module := m }) {}
  for m in mods do
    auditModule env m
  return 0
