import CvssVerif.Basic.F64
import CvssVerif.Basic.Bytes
import CvssVerif.Model.Common
import CvssVerif.Model.V3
import CvssVerif.Model.V2
