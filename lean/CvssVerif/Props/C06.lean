import CvssVerif.Proofs.Sev
import CvssVerif.Props.C03
import CvssVerif.Props.C05
/-
  C06 — scores lie on the 0.0–10.0 tenth grid and severity is the band of the score.
-/
namespace CvssVerif.Props.C06
open CvssVerif F64 PSev

/-- Every grid double `tenth k` (k = 1..100) is the double nearest to k/10: neither neighbouring
    double is closer. -/
theorem tenth_nearest : chkNearest = true := nearest_all

/-- Printing: a grid double is an integer-valued double exactly when 10 ∣ k; otherwise no
    integer 0..10 is that double, so the shortest decimal that parses back to it has one
    decimal digit (`dec1 k`), never more. -/
theorem tenth_prints_one_decimal : chkFmt = true := fmt_all

theorem sev3_band (k : Nat) (hk : k ≤ 100) :
    V3.severityName (V3.severityF (tenth k)) = sevName3 (Spec3.band (Int.ofNat k)) := by
  have h := sev3_all
  unfold chkSev3 at h
  rw [List.all_eq_true] at h
  have := h k (by simp; omega)
  simpa using this

theorem sev2_band (k : Nat) (hk : k ≤ 100) :
    V2.severityName (V2.severityF (tenth k)) = sevName2 (Spec2.band (Int.ofNat k)) := by
  have h := sev2_all
  unfold chkSev2 at h
  rw [List.all_eq_true] at h
  have := h k (by simp; omega)
  rw [Bool.and_eq_true] at this
  simpa using this.1

/-- v3, all three levels: the score is `tenth k` for some k ≤ 100 and the severity is k's band -/
theorem v3_base (v : Spec3.BaseVec) :
    ∃ k : Nat, k ≤ 100 ∧ P3.modelBase v = tenth k ∧
      V3.severityName (V3.severityF (P3.modelBase v)) = sevName3 (Spec3.band (Int.ofNat k)) := by
  have h := C01.base3_eq_spec v
  obtain ⟨h0, h1⟩ := C01.base3_range v
  refine ⟨(Spec3.baseTenths v).toNat, by omega, h, ?_⟩
  rw [h]; exact sev3_band _ (by omega)

theorem v3_temporal (v : Spec3.BaseVec) (t : Spec3.TempVec) :
    ∃ k : Nat, k ≤ 100 ∧ C02.modelTemporal v t = tenth k ∧
      V3.severityName (V3.severityF (C02.modelTemporal v t)) = sevName3 (Spec3.band (Int.ofNat k)) := by
  have h := C02.temporal3_eq_spec v t
  obtain ⟨h0, h1⟩ := C01.base3_range v
  have hk : Spec3.baseTenths v = Int.ofNat (Spec3.baseTenths v).toNat := by
    simp only [Int.ofNat_eq_natCast]; omega
  have g := C02.temporal3_grid (Spec3.baseTenths v).toNat (by omega) t
  rw [← hk] at g
  have hle : Spec3.temporalTenths v t ≤ 100 := by unfold Spec3.temporalTenths; omega
  have hge : 0 ≤ Spec3.temporalTenths v t := by unfold Spec3.temporalTenths; exact g.2.1
  refine ⟨(Spec3.temporalTenths v t).toNat, by omega, h, ?_⟩
  rw [h]; exact sev3_band _ (by omega)

theorem v3_environmental (v : Spec3.BaseVec) (t : Spec3.TempVec) (n : Spec3.EnvVec) :
    ∃ k : Nat, k ≤ 100 ∧ P3.modelEnv v t n = tenth k ∧
      V3.severityName (V3.severityF (P3.modelEnv v t n)) = sevName3 (Spec3.band (Int.ofNat k)) := by
  have h := C03.env3_eq_spec v t n
  obtain ⟨h0, h1⟩ := C03.env3_range v t n
  refine ⟨(Spec3.envTenths v t n).toNat, by omega, h, ?_⟩
  rw [h]; exact sev3_band _ (by omega)

/-- severity depends only on the numeric value: `-0` (which v2 produces as `negative × 0`) rates
    like 0 -/
theorem sev2_of_isTenth {f : Nat} {k : Int} (h : P2.isTenth f k = true) (h0 : 0 ≤ k) (h1 : k ≤ 100) :
    V2.severityName (V2.severityF f) = sevName2 (Spec2.band k) := by
  unfold P2.isTenth at h
  simp only [Bool.or_eq_true, Bool.and_eq_true, beq_iff_eq] at h
  have hk : k = Int.ofNat k.toNat := by simp only [Int.ofNat_eq_natCast]; omega
  rcases h with h | ⟨hz, hf⟩
  · rw [h]
    have : P2.tenthI k = tenth k.toNat := by
      unfold P2.tenthI; simp only [show ¬ k < 0 by omega, if_false]
    rw [this, hk]
    exact sev2_band _ (by omega)
  · rw [hf, hz]
    have h := sev2_all
    unfold chkSev2 at h
    rw [List.all_eq_true] at h
    have := h 0 (by simp)
    rw [Bool.and_eq_true] at this
    have h2 := this.2
    simp only [beq_iff_eq] at h2
    rw [h2]; decide

/-- v2 base and temporal: on the grid 0.0…10.0 with the band's severity -/
theorem v2_base (v : Spec2.BaseVec) :
    ∃ k : Int, 0 ≤ k ∧ k ≤ 100 ∧ P2.isTenth (P2.modelBase v) k = true ∧
      V2.severityName (V2.severityF (P2.modelBase v)) = sevName2 (Spec2.band k) := by
  obtain ⟨k, h1, h2, h3, _⟩ := C04.base2_code_semantics v
  exact ⟨k, h2, h3, h1, sev2_of_isTenth h1 h2 h3⟩

theorem v2_temporal (v : Spec2.BaseVec) (t : Option Spec2.TempVec) :
    ∃ k : Int, 0 ≤ k ∧ k ≤ 100 ∧ P2.isTenth (C04.modelTemporal v t) k = true ∧
      V2.severityName (V2.severityF (C04.modelTemporal v t)) = sevName2 (Spec2.band k) := by
  obtain ⟨kb, kt, _, h2, _, h4, h5, h6⟩ := C04.temporal2_eq v t
  exact ⟨kt, h4, by omega, h2, sev2_of_isTenth h2 h4 (by omega)⟩

/-- v2 environmental, with the exception the property states: on the grid up to 10.0, and
    non-negative with the band's severity unless the specification's adjusted base equation is
    negative (stated on the vectors outside known finding F2, where the chain of C05 holds) -/
theorem v2_environmental (v : Spec2.BaseVec) (t : Option Spec2.TempVec) (n : Spec2.EnvVec)
    (hk : (v.av, v.ac, v.au) ∉ P2.knownAdj2 v.c v.i v.a n.cr n.ir n.ar) :
    ∃ k : Int, -20 ≤ k ∧ k ≤ 100 ∧ P2.isTenth (C05.modelEnv v t (some n)) k = true ∧
      (k < 0 → Spec2.adjustedBaseRaw v n < 0) ∧
      (0 ≤ k → V2.severityName (V2.severityF (C05.modelEnv v t (some n))) = sevName2 (Spec2.band k)) := by
  obtain ⟨kb, kt, ke, h1, _, _, _, h5, h6, _, h8⟩ := C05.env2_partial v t n hk
  exact ⟨ke, h5, h6, h1, h8, fun h0 => sev2_of_isTenth h1 h0 h6⟩

end CvssVerif.Props.C06
