import CvssVerif.Proofs.Accept3
import CvssVerif.Proofs.Deleg
/-
  C07 — v3 decoders accept exactly the well-formed v3.0/v3.1 vectors of their level.

  `Spec3.wf3 L s` is the property's grammar, an executable predicate over byte strings written
  independently of the decoder; `V3.decode L Obj3.new s` is the model of `(*T).Decode(s)` on a
  constructor result (a nil receiver builds one first).  The theorem holds for every list of
  bytes — any length, any content.
-/
namespace CvssVerif.Props.C07
open CvssVerif V3

theorem ents_of_toks (L : Level) (toks : List Bytes)
    (h : ∀ t ∈ toks, ∃ e ∈ vocab L, t = e.tok) :
    ∃ es : List Ent, (∀ e ∈ es, e ∈ vocab L) ∧ toks = es.map Ent.tok := by
  induction toks with
  | nil => exact ⟨[], by simp, rfl⟩
  | cons t ts ih =>
    obtain ⟨e, he, rfl⟩ := h t List.mem_cons_self
    obtain ⟨es, hes, rfl⟩ := ih (fun t' ht' => h t' (List.mem_cons_of_mem _ ht'))
    refine ⟨e :: es, ?_, rfl⟩
    intro e' he'
    rcases List.mem_cons.mp he' with rfl | h'
    · exact he
    · exact hes _ h'

/-- **Acceptance language.** A v3 decoder of level `L` accepts a byte string if and only if the
    string is in the grammar of the property: prefix `CVSS:3.0` or `CVSS:3.1`, then
    '/'-separated `Name:Value` tokens in any order, every name a metric of the level with one of
    its upper-case codes, no name twice, all eight base metrics present. -/
theorem accept3_iff (L : Level) (s : Bytes) :
    (decode L Obj3.new s).2 = none ↔ Spec3.wf3 L s = true := by
  constructor
  · intro h
    have hd : decode L Obj3.new s = ((decode L Obj3.new s).1, none) := by rw [← h]
    obtain ⟨hd, es, hsplit, hpre, hes, hnd, hbase, _⟩ := (decode_ok_iff L s _).mp hd
    unfold Spec3.wf3
    rw [hsplit]
    simp only [Bool.and_eq_true, hpre, true_and, List.all_eq_true]
    refine ⟨⟨?_, ?_⟩, ?_⟩
    · intro t ht
      obtain ⟨e, he, rfl⟩ := List.mem_map.mp ht
      exact (tokOK_iff L _).mpr ⟨e, hes e he, rfl⟩
    · rw [nodupB_iff, nodup_names_iff]; exact hnd
    · rw [baseMetrics_eq]
      intro ms hms
      obtain ⟨m, hm, rfl⟩ := List.mem_map.mp hms
      obtain ⟨e, he, rfl⟩ := hbase m hm
      rw [List.any_eq_true]
      obtain ⟨_, hp⟩ := mem_vocab.mp (hes e he)
      exact ⟨e.tok, List.mem_map.mpr ⟨e, he, rfl⟩, (tokIs_iff e.m _).mpr ⟨(e.x, e.c), hp, rfl⟩⟩
  · intro h
    unfold Spec3.wf3 at h
    split at h
    · cases h
    · rename_i hd toks hsplit
      simp only [Bool.and_eq_true, List.all_eq_true] at h
      obtain ⟨⟨⟨hpre, hall⟩, hnd⟩, hbase⟩ := h
      obtain ⟨es, hes, rfl⟩ := ents_of_toks L toks (fun t ht => (tokOK_iff L t).mp (hall t ht))
      rw [nodupB_iff, nodup_names_iff] at hnd
      have := (decode_ok_iff L s (runEnts (start hd) es)).mpr ⟨hd, es, hsplit, hpre, hes, hnd, ?_, rfl⟩
      · rw [this]
      · intro m hm
        rw [baseMetrics_eq] at hbase
        have := hbase (specOf m) (List.mem_map.mpr ⟨m, hm, rfl⟩)
        rw [List.any_eq_true] at this
        obtain ⟨t, ht, htok⟩ := this
        obtain ⟨e, he, rfl⟩ := List.mem_map.mp ht
        obtain ⟨p, _, hp⟩ := (tokIs_iff m _).mp htok
        refine ⟨e, he, ?_⟩
        apply names_inj
        have h1 := nameOf_tok e
        rw [hp] at h1
        unfold Spec3.nameOf at h1
        rw [takeWhile_name _ _ (colon_not_mem_name m)] at h1
        exact h1.symm

/-- A rejected string leaves the caller with an error: the decoder's two outcomes are
    exclusive and exhaustive (in Go: `obj, nil` or `nil, err`; see C12 for nil receivers). -/
theorem decode3_outcome (L : Level) (s : Bytes) :
    ((decode L Obj3.new s).2 = none ∧ Spec3.wf3 L s = true) ∨
    (∃ e, (decode L Obj3.new s).2 = some e ∧ Spec3.wf3 L s = false) := by
  cases h : (decode L Obj3.new s).2 with
  | none => exact Or.inl ⟨rfl, (accept3_iff L s).mp h⟩
  | some e =>
    refine Or.inr ⟨e, rfl, ?_⟩
    cases hw : Spec3.wf3 L s
    · rfl
    · rw [(accept3_iff L s).mpr hw] at h; cases h

/-- non-vacuity: concrete members and non-members of the language -/
example : Spec3.wf3 .base b!"CVSS:3.1/AV:N/AC:L/PR:N/UI:N/S:U/C:H/I:H/A:H" = true := by decide
example : Spec3.wf3 .environmental b!"CVSS:3.0/S:U/C:H/MAV:X/I:H/A:H/AV:N/AC:L/PR:N/UI:N/E:F" = true := by decide
example : Spec3.wf3 .base b!"CVSS:3.1/AV:N/AC:L/PR:N/UI:N/S:U/C:H/I:H/A:H/E:F" = false := by decide
example : Spec3.wf3 .temporal b!"CVSS:3.1/AV:N/AC:L/PR:N/UI:N/S:U/C:H/I:H/A:H/" = false := by decide
example : Spec3.wf3 .base b!"CVSS:3.1/av:N/AC:L/PR:N/UI:N/S:U/C:H/I:H/A:H" = false := by decide

/-- **Model fidelity: delegation.** The model's `decodeOne` (one lookup among the metrics of all
    levels up to the decoder's) equals the literal structure of the Go code, where each level's
    `decodeOne` first calls the lower level's and handles the token itself only on "not supported
    metric". -/
theorem delegation (L : Level) (o : V3.Obj3) (tok : Bytes) : V3.decodeOneLit L o tok = V3.decodeOne L o tok :=
  V3.decodeOneLit_eq L o tok

end CvssVerif.Props.C07
