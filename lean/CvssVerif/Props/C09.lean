import CvssVerif.Proofs.Encode3
import CvssVerif.Proofs.Accept2
/-
  C09 — a decoded object holds exactly the metric values written in the vector.
-/
namespace CvssVerif.Props.C09
open CvssVerif

/-- **v3.** After an accepted decode the version label is the written one and every metric field
    of the level holds the value whose code is the written one, Not Defined (X) for an unwritten
    temporal / environmental metric (`Spec3.expectedCode`). -/
theorem decode3_fields {L : Level} {s : Bytes} {o : V3.Obj3} (h : V3.decode L V3.Obj3.new s = (o, none)) :
    V3.verStr o.ver = Spec3.label s ∧
    ∀ m ∈ V3.msOf L, (o.field m, Spec3.expectedCode (V3.specOf m) s) ∈ m.spec.codes :=
  V3.decode_fields h

/-- the same, read through `String()` of the field: it prints the written code -/
theorem decode3_field_codes {L : Level} {s : Bytes} {o : V3.Obj3} (h : V3.decode L V3.Obj3.new s = (o, none))
    (m : V3.M3) (hm : m ∈ V3.msOf L) : m.spec.str (o.field m) = Spec3.expectedCode (V3.specOf m) s :=
  V3.str_value ((V3.decode_fields h).2 m hm)

/-- **v3, order independence.** Token order does not matter: permuted token lists give identical
    objects (version, every field, every recorded name). -/
theorem decode3_perm {L : Level} {s s' hd : Bytes} {toks toks' : List Bytes} {o o' : V3.Obj3}
    (h : V3.decode L V3.Obj3.new s = (o, none)) (h' : V3.decode L V3.Obj3.new s' = (o', none))
    (hs : split slash s = hd :: toks) (hs' : split slash s' = hd :: toks') (hp : toks.Perm toks') :
    o.ver = o'.ver ∧ (∀ m, o.field m = o'.field m) ∧ (∀ m, o.named m = o'.named m) :=
  V3.decode_perm h h' hs hs' hp

/-- scores, severities and validity of a v3 object depend only on version and fields (not on
    which names were recorded): writing X explicitly or omitting the metric is indistinguishable -/
theorem v3_queries_depend_on_fields (L : Level) (o o' : V3.Obj3) (hv : o.ver = o'.ver)
    (hf : ∀ m, o.field m = o'.field m) :
    V3.score L o = V3.score L o' ∧ V3.severity L o = V3.severity L o' ∧ V3.getError L o = V3.getError L o' := by
  obtain ⟨v, f, n⟩ := o
  obtain ⟨v', f', n'⟩ := o'
  have h1 : v = v' := hv
  have h2 : f = f' := funext hf
  subst h1; subst h2
  cases L <;> exact ⟨rfl, rfl, rfl⟩

/-- **v3, explicit X = omitted.** Two accepted strings of one decoder that write the same code for
    every metric once "unwritten" is read as X leave the same version and fields (hence the same
    scores, severities and — C10 — encoding). -/
theorem decode3_X_omit {L : Level} {s s' : Bytes} {o o' : V3.Obj3}
    (h : V3.decode L V3.Obj3.new s = (o, none)) (h' : V3.decode L V3.Obj3.new s' = (o', none))
    (hl : Spec3.label s = Spec3.label s')
    (hc : ∀ m ∈ V3.msOf L, Spec3.expectedCode (V3.specOf m) s = Spec3.expectedCode (V3.specOf m) s') :
    o.ver = o'.ver ∧ ∀ m ∈ V3.msOf L, o.field m = o'.field m := by
  obtain ⟨l1, f1⟩ := V3.decode_fields h
  obtain ⟨l2, f2⟩ := V3.decode_fields h'
  constructor
  · obtain ⟨hd, es, _, hpre, _, _, _, ho⟩ := (V3.decode_ok_iff L s o).mp h
    obtain ⟨hd', es', _, hpre', _, _, _, ho'⟩ := (V3.decode_ok_iff L s' o').mp h'
    have hv : o.ver = 1 ∨ o.ver = 2 := by rw [ho, V3.run_ver]; exact V3.start_ver_cases hd hpre
    have hv' : o'.ver = 1 ∨ o'.ver = 2 := by rw [ho', V3.run_ver]; exact V3.start_ver_cases hd' hpre'
    have : V3.verStr o.ver = V3.verStr o'.ver := by rw [l1, l2, hl]
    rw [← V3.verGet_verStr _ hv, ← V3.verGet_verStr _ hv', this]
  · intro m hm
    have a := f1 m hm
    have b := f2 m hm
    rw [hc m hm] at a
    have := V3.nodup_map_inj (V3.codes_nodup m) a b rfl
    exact congrArg Prod.fst this

/-- **v2.** After an accepted decode the string is the token list of a group pattern, every
    written metric's field holds the written value, every other field is zero, and a group is
    reported empty exactly when it is not written. -/
theorem decode2_fields {L : Level} {s : Bytes} {o : V2.Obj2} (h : V2.decode L V2.Obj2.new s = (o, none)) :
    ∃ (t e : Bool) (es : List V2.Ent), es.map (·.m) = V2.groups t e ∧ split slash s = es.map V2.Ent.tok ∧
      (∀ x ∈ es, o.field x.m = x.x ∧ (x.x, x.c) ∈ x.m.spec.codes) ∧
      (∀ m, m ∉ V2.groups t e → o.field m = 0) ∧
      V2.tempEmpty o = !t ∧ V2.envEmpty o = !e := by
  obtain ⟨t, e, es, ht, he, hm, hcodes, hsplit, rfl⟩ := (V2.decode_ok_iff L s o).mp h
  have hes : ∀ x ∈ es, x ∈ V2.vocab L := by
    intro x hx
    refine V2.mem_vocab.mpr ⟨V2.groups_sub L t e ht he _ ?_, hcodes x hx⟩
    rw [← hm]; exact List.mem_map.mpr ⟨x, hx, rfl⟩
  have hnd : (es.map (·.m)).Nodup := by rw [hm]; exact V2.groups_nodup t e
  have hpat := V2.hasPattern_run es t e hm
  refine ⟨t, e, es, hm, hsplit, ?_, ?_, ?_, ?_⟩
  · intro x hx
    exact ⟨(V2.run_new_field es hes hnd x.m).2 x hx rfl, hcodes x hx⟩
  · intro m hmn
    have := (V2.run_new_field es hes hnd m).1
    rw [hm] at this
    cases hz : decide ((V2.runEnts V2.Obj2.new es).field m = 0)
    · exact absurd (this.mp (of_decide_eq_false hz)) hmn
    · exact of_decide_eq_true hz
  · unfold V2.tempEmpty
    have hn : (V2.runEnts V2.Obj2.new es).named = fun m => decide (m ∈ V2.groups t e) := funext hpat
    rw [hn]; cases t <;> cases e <;> decide
  · unfold V2.envEmpty
    have hn : (V2.runEnts V2.Obj2.new es).named = fun m => decide (m ∈ V2.groups t e) := funext hpat
    rw [hn]; cases t <;> cases e <;> decide

end CvssVerif.Props.C09
