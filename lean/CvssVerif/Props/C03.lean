import CvssVerif.Proofs.C03Glue
import CvssVerif.Props.C02
/-
  C03 — CVSS v3 environmental score equals the FIRST environmental equations.

  `Spec3.envTenths` is the specification (Modified metrics that are Not Defined take the base
  value, Modified Scope selects formula and PR weights, 0.915 cap, per-version polynomial,
  double round-up).  The theorem quantifies over the full record domain
  (2 × 2,592 × 2,211,840 × 100 ≈ 1.1·10¹² vectors): `modelEnv_eff`/`envTenths_eff` reduce both
  sides symbolically to the effective key, on which the stage checks were evaluated by the kernel.
-/
namespace CvssVerif.Props.C03
open CvssVerif Spec3 V3 P3

/-- For every (version, base, temporal, environmental) vector the model's environmental
    arithmetic returns the double nearest to the specification's score. -/
theorem env3_eq_spec (v : BaseVec) (t : TempVec) (n : EnvVec) :
    modelEnv v t n = tenth (envTenths v t n).toNat := by
  rw [modelEnv_eff, envTenths_eff, p7F_cls, p7F_cls, p7F_cls]
  exact (chkEnv_result v.ver (eff n.ms v.s) _ _ _ _ _ _ _ t).1

/-- The specification's environmental score is a tenth between 0.0 and 10.0. -/
theorem env3_range (v : BaseVec) (t : TempVec) (n : EnvVec) :
    0 ≤ envTenths v t n ∧ envTenths v t n ≤ 100 := by
  rw [envTenths_eff]
  exact (chkEnv_result v.ver (eff n.ms v.s) _ _ _ _ _ _ _ t).2

/-- an object whose environmental fields hold the Go enumeration values of `n` -/
def EncodesE (o : Obj3) (n : EnvVec) : Prop :=
  o.field .CR = iReq .CR n.cr ∧ o.field .IR = iReq .IR n.ir ∧ o.field .AR = iReq .AR n.ar ∧
  o.field .MAV = iMAV n.mav ∧ o.field .MAC = iMAC n.mac ∧ o.field .MPR = iMPR n.mpr ∧
  o.field .MUI = iMUI n.mui ∧ o.field .MS = iMS n.ms ∧ o.field .MC = iMCIA .MC n.mc ∧
  o.field .MI = iMCIA .MI n.mi ∧ o.field .MA = iMCIA .MA n.ma

theorem iCR_valid (x : Spec3.Req) : isValid .CR (iReq .CR x) = true := by cases x <;> decide
theorem iIR_valid (x : Spec3.Req) : isValid .IR (iReq .IR x) = true := by cases x <;> decide
theorem iAR_valid (x : Spec3.Req) : isValid .AR (iReq .AR x) = true := by cases x <;> decide
theorem iMAV_valid (x : Option Spec3.AV) : isValid .MAV (iMAV x) = true := by
  cases x with | none => decide | some y => cases y <;> decide
theorem iMAC_valid (x : Option Spec3.AC) : isValid .MAC (iMAC x) = true := by
  cases x with | none => decide | some y => cases y <;> decide
theorem iMPR_valid (x : Option Spec3.PR) : isValid .MPR (iMPR x) = true := by
  cases x with | none => decide | some y => cases y <;> decide
theorem iMUI_valid (x : Option Spec3.UI) : isValid .MUI (iMUI x) = true := by
  cases x with | none => decide | some y => cases y <;> decide
theorem iMS_valid (x : Option Spec3.Sc) : isValid .MS (iMS x) = true := by
  cases x with | none => decide | some y => cases y <;> decide
theorem iMC_valid (x : Option Spec3.CIA) : isValid .MC (iMCIA .MC x) = true := by
  cases x with | none => decide | some y => cases y <;> decide
theorem iMI_valid (x : Option Spec3.CIA) : isValid .MI (iMCIA .MI x) = true := by
  cases x with | none => decide | some y => cases y <;> decide
theorem iMA_valid (x : Option Spec3.CIA) : isValid .MA (iMCIA .MA x) = true := by
  cases x with | none => decide | some y => cases y <;> decide

/-- `(*Environmental).Score()` (validity test included) on any object holding valid base,
    temporal and environmental assignments is the specification's environmental score. -/
theorem env3_score_of_object (o : Obj3) (v : BaseVec) (t : TempVec) (n : EnvVec)
    (hb : C01.Encodes o v) (ht : C02.EncodesT o t) (he : EncodesE o n) :
    envScore o = tenth (envTenths v t n).toNat := by
  obtain ⟨hv, h1, h2, h3, h4, h5, h6, h7, h8⟩ := hb
  obtain ⟨t1, t2, t3⟩ := ht
  obtain ⟨e1, e2, e3, e4, e5, e6, e7, e8, e9, e10, e11⟩ := he
  have hge : getErrorBase o = none := by
    unfold getErrorBase baseMs
    simp [h1, h2, h3, h4, h5, h6, h7, h8, hv, iVer_ne, iAV_ne, iAC_ne, iPR_ne, iUI_ne, iS_ne,
      iC_ne, iI_ne, iA_ne]
  have hgt : getErrorTemporal o = none := by
    unfold getErrorTemporal tempMs
    simp [hge, t1, t2, t3, iE_valid, iRL_valid, iRC_valid]
  have hgv : getErrorEnv o = none := by
    unfold getErrorEnv envMs
    simp [hgt, e1, e2, e3, e4, e5, e6, e7, e8, e9, e10, e11, iCR_valid, iIR_valid, iAR_valid,
      iMAV_valid, iMAC_valid, iMPR_valid, iMUI_valid, iMS_valid, iMC_valid, iMI_valid, iMA_valid]
  have hf : envScoreF o.ver o.field = envScoreF (iVer v.ver) (fieldsOf v t n) := by
    unfold envScoreF
    simp only [fieldsOf, h1, h2, h3, h4, h5, h6, h7, h8, hv, t1, t2, t3, e1, e2, e3, e4, e5, e6, e7,
      e8, e9, e10, e11]
  unfold envScore
  rw [hgv, hf]
  exact env3_eq_spec v t n

/-- non-vacuity and the facts the statement singles out: the cap binds, the two versions differ -/
example : envTenths ⟨.v31, .N, .L, .N, .N, .C, .H, .H, .H⟩ ⟨.X, .X, .X⟩
    ⟨.H, .H, .H, none, none, none, none, none, none, none, none⟩ = 100 := by decide +kernel
example : miss ⟨.v31, .N, .L, .N, .N, .C, .H, .H, .H⟩
    ⟨.H, .H, .H, none, none, none, none, none, none, none, none⟩ = q 915 1000 := by decide +kernel
example : envTenths ⟨.v30, .N, .L, .L, .N, .C, .H, .H, .H⟩ ⟨.X, .X, .X⟩
      ⟨.X, .X, .X, none, none, none, none, none, none, none, none⟩
    ≠ envTenths ⟨.v31, .N, .L, .L, .N, .C, .H, .H, .H⟩ ⟨.X, .X, .X⟩
      ⟨.X, .X, .X, none, none, none, none, none, none, none, none⟩ := by decide +kernel

end CvssVerif.Props.C03
