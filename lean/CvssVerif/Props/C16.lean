import CvssVerif.Props.C15
/-
  C16 — concurrent use is data-race free and equals sequential use.

  PARTIAL by nature: a data race is a property of the Go memory model and runtime, which no
  executable Lean model exhibits.  What is logic is modelled and proved: objects are independent
  (no state outside the objects), queries write nothing, and therefore every interleaving of
  goroutines that write only their own objects and merely query shared ones returns to each
  goroutine exactly what sequential execution returns.  What is runtime is checked on the code:
  the harness is built with `-race`, runs the disciplined workloads on real goroutines over
  shared decoded objects, and compares every goroutine's results with the sequential run.
-/
namespace CvssVerif.Props.C16
open CvssVerif Heap Indep

/-- an operation issued by goroutine `tid` on object `k` -/
def top (tid k : Nat) (op : ObjOp) : TOp AnyObj String := { tgt := k, act := act op, tid := tid, writes := op.writes }

/-- The property's discipline, on go-cvss operations: a schedule in which every decode targets an
    object owned by the issuing goroutine and owned objects are touched only by their owner
    satisfies the generic discipline (queries, reports and exports being pure). -/
theorem cvss_disciplined (owner : Nat → Option Nat) (sched : List (Nat × Nat × ObjOp))
    (hown : ∀ p ∈ sched, p.2.2.writes = true → owner p.2.1 = some p.1)
    (hpriv : ∀ p ∈ sched, ∀ t, owner p.2.1 = some t → p.1 = t) :
    Disciplined owner (sched.map fun p => top p.1 p.2.1 p.2.2) := by
  refine ⟨?_, ?_, ?_⟩
  · intro op hop hw
    obtain ⟨p, _, rfl⟩ := List.mem_map.mp hop
    exact fun o => query_pure p.2.2 hw o
  · intro op hop hw
    obtain ⟨p, hp, rfl⟩ := List.mem_map.mp hop
    exact hown p hp hw
  · intro op hop t ht
    obtain ⟨p, hp, rfl⟩ := List.mem_map.mp hop
    exact hpriv p hp t ht

/-- **Every interleaving equals sequential use.** Whatever the schedule of decode, query,
    report-construction and export operations issued by any number of goroutines under that
    discipline, each goroutine gets back exactly the results it gets when its own operations run
    alone in their own order. -/
theorem interleaving_eq_sequential (owner : Nat → Option Nat) (sched : List (Nat × Nat × ObjOp))
    (hown : ∀ p ∈ sched, p.2.2.writes = true → owner p.2.1 = some p.1)
    (hpriv : ∀ p ∈ sched, ∀ t, owner p.2.1 = some t → p.1 = t) (t : Nat) (σ : Nat → AnyObj) :
    outsOf t σ (sched.map fun p => top p.1 p.2.1 p.2.2)
      = outsOf t σ ((sched.map fun p => top p.1 p.2.1 p.2.2).filter (·.tid = t)) :=
  interleaving_eq_seq owner t _ (cvss_disciplined owner sched hown hpriv) σ σ (fun _ _ => rfl)

/-- shared objects are never changed by any disciplined schedule -/
theorem shared_unchanged (owner : Nat → Option Nat) (sched : List (Nat × Nat × ObjOp))
    (hown : ∀ p ∈ sched, p.2.2.writes = true → owner p.2.1 = some p.1)
    (hpriv : ∀ p ∈ sched, ∀ t, owner p.2.1 = some t → p.1 = t) (σ : Nat → AnyObj) (k : Nat)
    (hk : owner k = none) :
    (run σ ((sched.map fun p => top p.1 p.2.1 p.2.2).map (·.toOp))).1 k = σ k := by
  rw [state_under_discipline owner _ (cvss_disciplined owner sched hown hpriv) σ k]
  have : ((sched.map fun p => top p.1 p.2.1 p.2.2).filter fun op => op.tgt = k ∧ op.writes = true) = [] := by
    rw [List.filter_eq_nil_iff]
    intro op hop
    obtain ⟨p, hp, rfl⟩ := List.mem_map.mp hop
    simp only [top]
    intro hk'
    have hkw := of_decide_eq_true hk'
    have := hown p hp hkw.2
    have hk' := hkw.1
    rw [hk', hk] at this
    cases this
  rw [this]
  rfl

/-- **No shared state is written.** From the write-set table regenerated from the source on every
    run: no exported function or method writes a package-level variable (or passes its address to
    code outside the library), and the only writes through parameters are `Decode` on its own
    receiver — the discipline `cvss_disciplined` assumes of the operations goroutines share. -/
theorem no_shared_state_written : Gen.Effects.exported.all Effects.rowOk = true := Effects.all_rows_ok

end CvssVerif.Props.C16
