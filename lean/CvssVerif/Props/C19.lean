import CvssVerif.Model.Report
/-
  C19 — template export renders user templates faithfully and fails cleanly.

  PARTIAL by design: Go's `text/template` is not modelled.  The engine is a parameter
  `engine : Bytes → Option Bytes` (`none` = the template does not parse or cannot be executed on
  the report); the theorems are about the glue around it (`getTempleteString`,
  `executeTemplate`, `ExportWith`, `ExportWithString`).  That the library's output is exactly
  what `text/template` yields is checked by the harness, which calls `text/template` directly on
  the same report value for every generated template.
-/
namespace CvssVerif.Props.C19
open CvssVerif Report

/-- a nil reader or a failing reader yields the invalid-template error and no output,
    whatever the report -/
theorem bad_reader (engine : Bytes → Option Bytes) (rn : Bool) :
    exportWith engine rn .nil = (none, some .invalidTemplate) ∧
    exportWith engine rn .fails = (none, some .invalidTemplate) := ⟨rfl, rfl⟩

/-- exporting from a reader is exporting from a string with the reader's full content -/
theorem reader_is_string (engine : Bytes → Option Bytes) (rn : Bool) (t : Bytes) :
    exportWith engine rn (.content t) = exportWithString engine rn t := rfl

/-- a nil report yields the null-pointer error and no output -/
theorem nil_report (engine : Bytes → Option Bytes) (t : Bytes) :
    exportWithString engine true t = (none, some .nullPointer) := rfl

/-- a template that does not parse or cannot be executed yields invalid-template and no output;
    otherwise the output is exactly the engine's text and there is no error -/
theorem engine_result (engine : Bytes → Option Bytes) (t : Bytes) :
    exportWithString engine false t =
      match engine t with
      | some out => (some out, none)
      | none => (none, some .invalidTemplate) := by
  unfold exportWithString
  simp only [Bool.false_eq_true, if_false]
  cases engine t <;> rfl

/-- never output together with an error, never neither; the only errors are the two sentinels -/
theorem clean_failure (engine : Bytes → Option Bytes) (rn : Bool) (r : Reader) :
    let res := exportWith engine rn r
    (res.1.isSome ↔ res.2 = none) ∧ (res.2 = none ∨ res.2 = some .invalidTemplate ∨ res.2 = some .nullPointer) := by
  cases r with
  | nil => simp [exportWith, templateOf]
  | fails => simp [exportWith, templateOf]
  | content t =>
    simp only [exportWith, templateOf, exportWithString]
    cases rn
    · cases engine t <;> simp
    · simp

end CvssVerif.Props.C19
