import CvssVerif.Props.C05
import CvssVerif.Props.C09
/-
  End to end, v2: from the byte string to the score.

  The theorems of C04/C05 are stated about `modelBase v`, `modelTemporal v t`, `modelEnv v t n` — the
  model's arithmetic on the Go values of specification vectors.  The theorem here connects them with
  the decoders: for **every byte string** a v2 decoder of the model accepts, the string is the
  canonical token list of specification vectors `v`, `tv`, `nv` (groups present or absent), and the
  three scores the decoded object reports are exactly those functions of them.
-/
namespace CvssVerif.Props.E2E2
open CvssVerif Spec2 V2 P2

/-- the enumeration value with a given Go integer (first of the list if there is none) -/
def inv {α : Type} (all : List α) (toInt : α → Int) (d : α) (x : Int) : α :=
  (all.find? fun a => toInt a == x).getD d

def avOf := inv [AV.L, .A, .N] iAV .L
def acOf := inv [AC.H, .M, .L] iAC .H
def auOf := inv [Au.M, .S, .N] iAu .M
def ciaOf (m : M2) := inv [CIA.N, .P, .C] (iCIA m) .N
def eOf := inv [E.U, .POC, .F, .H, .ND] iE .ND
def rlOf := inv [RL.OF, .TF, .W, .U, .ND] iRL .ND
def rcOf := inv [RC.UC, .UR, .C, .ND] iRC .ND
def cdpOf := inv [CDP.N, .L, .LM, .MH, .H, .ND] iCDP .ND
def tdOf := inv [TD.N, .L, .M, .H, .ND] iTD .ND
def reqOf (m : M2) := inv [Req.L, .M, .H, .ND] (iReq m) .ND

/-- table fact: every (value, code) pair of the model's table is a non-zero Go integer whose
    specification value has that integer and is written with that code -/
def tabOK {α : Type} (codes : List (Int × Bytes)) (of : Int → α) (toInt : α → Int) (code : α → Bytes) : Bool :=
  codes.all fun p => p.1 != 0 && toInt (of p.1) == p.1 && code (of p.1) == p.2

theorem tab_use {α : Type} {codes : List (Int × Bytes)} {of : Int → α} {toInt : α → Int} {code : α → Bytes}
    (ht : tabOK codes of toInt code = true) {x : Int} {c : Bytes} (h : (x, c) ∈ codes) :
    x ≠ 0 ∧ toInt (of x) = x ∧ code (of x) = c := by
  have := List.all_eq_true.mp ht (x, c) h
  have h3 : (x ≠ 0 ∧ toInt (of x) = x) ∧ code (of x) = c := by simpa using this
  exact ⟨h3.1.1, h3.1.2, h3.2⟩

theorem tAV : tabOK M2.AV.spec.codes avOf iAV AV.code = true := by decide
theorem tAC : tabOK M2.AC.spec.codes acOf iAC AC.code = true := by decide
theorem tAu : tabOK M2.Au.spec.codes auOf iAu Au.code = true := by decide
theorem tC : tabOK M2.C.spec.codes (ciaOf .C) (iCIA .C) CIA.code = true := by decide
theorem tI : tabOK M2.I.spec.codes (ciaOf .I) (iCIA .I) CIA.code = true := by decide
theorem tA : tabOK M2.A.spec.codes (ciaOf .A) (iCIA .A) CIA.code = true := by decide
theorem tE : tabOK M2.E.spec.codes eOf iE E.code = true := by decide
theorem tRL : tabOK M2.RL.spec.codes rlOf iRL RL.code = true := by decide
theorem tRC : tabOK M2.RC.spec.codes rcOf iRC RC.code = true := by decide
theorem tCDP : tabOK M2.CDP.spec.codes cdpOf iCDP CDP.code = true := by decide
theorem tTD : tabOK M2.TD.spec.codes tdOf iTD TD.code = true := by decide
theorem tCR : tabOK M2.CR.spec.codes (reqOf .CR) (iReq .CR) Req.code = true := by decide
theorem tIR : tabOK M2.IR.spec.codes (reqOf .IR) (iReq .IR) Req.code = true := by decide
theorem tAR : tabOK M2.AR.spec.codes (reqOf .AR) (iReq .AR) Req.code = true := by decide

/-- the vectors an object holds -/
def baseOfObj (o : Obj2) : BaseVec :=
  ⟨avOf (o.field .AV), acOf (o.field .AC), auOf (o.field .Au), ciaOf .C (o.field .C), ciaOf .I (o.field .I), ciaOf .A (o.field .A)⟩
def tempOfObj (o : Obj2) : TempVec := ⟨eOf (o.field .E), rlOf (o.field .RL), rcOf (o.field .RC)⟩
def envOfObj (o : Obj2) : EnvVec :=
  ⟨cdpOf (o.field .CDP), tdOf (o.field .TD), reqOf .CR (o.field .CR), reqOf .IR (o.field .IR), reqOf .AR (o.field .AR)⟩

/-- the code with which each metric of the vectors is written -/
def codeOf (v : BaseVec) (tv : Option TempVec) (nv : Option EnvVec) : M2 → Bytes
  | .AV => v.av.code | .AC => v.ac.code | .Au => v.au.code | .C => v.c.code | .I => v.i.code | .A => v.a.code
  | .E => (tv.map (·.e.code)).getD [] | .RL => (tv.map (·.rl.code)).getD [] | .RC => (tv.map (·.rc.code)).getD []
  | .CDP => (nv.map (·.cdp.code)).getD [] | .TD => (nv.map (·.td.code)).getD []
  | .CR => (nv.map (·.cr.code)).getD [] | .IR => (nv.map (·.ir.code)).getD [] | .AR => (nv.map (·.ar.code)).getD []

theorem ent_of {es : List Ent} {g : List M2} (hm : es.map (·.m) = g) {m : M2} (h : m ∈ g) : ∃ x ∈ es, x.m = m := by
  rw [← hm] at h
  obtain ⟨x, hx, hxm⟩ := List.mem_map.mp h
  exact ⟨x, hx, hxm⟩

/-- what an accepted decode establishes about one metric of a written group -/
theorem field_of {es : List Ent} {g : List M2} {o : Obj2} (hm : es.map (·.m) = g)
    (hf : ∀ x ∈ es, o.field x.m = x.x ∧ (x.x, x.c) ∈ x.m.spec.codes) {m : M2} (h : m ∈ g) :
    ∃ c, (o.field m, c) ∈ m.spec.codes := by
  obtain ⟨x, hx, hxm⟩ := ent_of hm h
  obtain ⟨h1, h2⟩ := hf x hx
  rw [hxm] at h1 h2
  exact ⟨x.c, by rw [h1]; exact h2⟩

theorem mem_t {t e : Bool} {m : M2} (h : m ∈ groups t e) (hm : m ∈ tempMs) : t = true := by
  cases t <;> cases e <;> revert m <;> decide
theorem mem_e {t e : Bool} {m : M2} (h : m ∈ groups t e) (hm : m ∈ envMs) : e = true := by
  cases t <;> cases e <;> revert m <;> decide

/-- **C04/C05 from the string.** For every byte string a v2 decoder accepts: the string is the canonical
    token list of the vectors the decoded object holds (temporal / environmental group present or
    absent), and the three scores the object reports are the model functions of those vectors that
    `Props/C04`, `Props/C05`, `Props/C13` are about. -/
theorem scores_of_string (L : Level) (s : Bytes) (o : Obj2) (h : V2.decode L Obj2.new s = (o, none)) :
    ∃ (es : List Ent) (tv : Option TempVec) (nv : Option EnvVec),
      split slash s = es.map Ent.tok ∧ es.map (·.m) = groups tv.isSome nv.isSome ∧
      (∀ x ∈ es, x.c = codeOf (baseOfObj o) tv nv x.m) ∧
      V2.score .base o = modelBase (baseOfObj o) ∧
      V2.score .temporal o = C04.modelTemporal (baseOfObj o) tv ∧
      V2.score .environmental o = C05.modelEnv (baseOfObj o) tv nv := by
  obtain ⟨t, e, es, hm, hsplit, hf, _, hte, hee⟩ := C09.decode2_fields h
  have hb : ∀ m ∈ baseMs, m ∈ groups t e := by cases t <;> cases e <;> decide
  obtain ⟨_, h1⟩ := field_of hm hf (hb .AV (by decide)); have a1 := tab_use tAV h1
  obtain ⟨_, h2⟩ := field_of hm hf (hb .AC (by decide)); have a2 := tab_use tAC h2
  obtain ⟨_, h3⟩ := field_of hm hf (hb .Au (by decide)); have a3 := tab_use tAu h3
  obtain ⟨_, h4⟩ := field_of hm hf (hb .C (by decide)); have a4 := tab_use tC h4
  obtain ⟨_, h5⟩ := field_of hm hf (hb .I (by decide)); have a5 := tab_use tI h5
  obtain ⟨_, h6⟩ := field_of hm hf (hb .A (by decide)); have a6 := tab_use tA h6
  have hge : getErrorBase o = none := by
    unfold getErrorBase baseMs
    simp [a1.1, a2.1, a3.1, a4.1, a5.1, a6.1]
  have hbase : V2.baseScore o = modelBase (baseOfObj o) := by
    unfold V2.baseScore modelBase baseOfObj
    rw [hge]
    simp only [a1.2.1, a2.2.1, a3.2.1, a4.2.1, a5.2.1, a6.2.1]
  -- temporal group
  have htemp : t = true → (o.field .E ≠ 0 ∧ iE (eOf (o.field .E)) = o.field .E) ∧
      (o.field .RL ≠ 0 ∧ iRL (rlOf (o.field .RL)) = o.field .RL) ∧
      (o.field .RC ≠ 0 ∧ iRC (rcOf (o.field .RC)) = o.field .RC) := by
    intro ht
    have hg : ∀ m ∈ tempMs, m ∈ groups t e := by subst ht; cases e <;> decide
    obtain ⟨_, g1⟩ := field_of hm hf (hg .E (by decide)); have b1 := tab_use tE g1
    obtain ⟨_, g2⟩ := field_of hm hf (hg .RL (by decide)); have b2 := tab_use tRL g2
    obtain ⟨_, g3⟩ := field_of hm hf (hg .RC (by decide)); have b3 := tab_use tRC g3
    exact ⟨⟨b1.1, b1.2.1⟩, ⟨b2.1, b2.2.1⟩, ⟨b3.1, b3.2.1⟩⟩
  have henv : e = true → (o.field .CDP ≠ 0 ∧ iCDP (cdpOf (o.field .CDP)) = o.field .CDP) ∧
      (o.field .TD ≠ 0 ∧ iTD (tdOf (o.field .TD)) = o.field .TD) ∧
      (o.field .CR ≠ 0 ∧ iReq .CR (reqOf .CR (o.field .CR)) = o.field .CR) ∧
      (o.field .IR ≠ 0 ∧ iReq .IR (reqOf .IR (o.field .IR)) = o.field .IR) ∧
      (o.field .AR ≠ 0 ∧ iReq .AR (reqOf .AR (o.field .AR)) = o.field .AR) := by
    intro he
    have hg : ∀ m ∈ envMs, m ∈ groups t e := by subst he; cases t <;> decide
    obtain ⟨_, g1⟩ := field_of hm hf (hg .CDP (by decide)); have b1 := tab_use tCDP g1
    obtain ⟨_, g2⟩ := field_of hm hf (hg .TD (by decide)); have b2 := tab_use tTD g2
    obtain ⟨_, g3⟩ := field_of hm hf (hg .CR (by decide)); have b3 := tab_use tCR g3
    obtain ⟨_, g4⟩ := field_of hm hf (hg .IR (by decide)); have b4 := tab_use tIR g4
    obtain ⟨_, g5⟩ := field_of hm hf (hg .AR (by decide)); have b5 := tab_use tAR g5
    exact ⟨⟨b1.1, b1.2.1⟩, ⟨b2.1, b2.2.1⟩, ⟨b3.1, b3.2.1⟩, ⟨b4.1, b4.2.1⟩, ⟨b5.1, b5.2.1⟩⟩
  have hgt : getErrorTemporal o = none := by
    unfold getErrorTemporal
    rw [hge, hte]
    cases t
    · simp
    · obtain ⟨c1, c2, c3⟩ := htemp rfl
      simp [tempMs, c1.1, c2.1, c3.1]
  have hgee : getErrorEnv o = none := by
    unfold getErrorEnv
    rw [hgt, hee]
    cases e
    · simp
    · obtain ⟨c1, c2, c3, c4, c5⟩ := henv rfl
      simp [envMs, c1.1, c2.1, c3.1, c4.1, c5.1]
  refine ⟨es, if t then some (tempOfObj o) else none, if e then some (envOfObj o) else none, hsplit, ?_, ?_, hbase, ?_, ?_⟩
  · rw [hm]; cases t <;> cases e <;> rfl
  · intro x hx
    obtain ⟨f1, f2⟩ := hf x hx
    have hxg : x.m ∈ groups t e := by rw [← hm]; exact List.mem_map.mpr ⟨x, hx, rfl⟩
    cases hmx : x.m <;> rw [hmx] at f1 f2 hxg
    · exact ((tab_use tAV f2).2.2.symm.trans (by rw [← f1]; rfl))
    · exact ((tab_use tAC f2).2.2.symm.trans (by rw [← f1]; rfl))
    · exact ((tab_use tAu f2).2.2.symm.trans (by rw [← f1]; rfl))
    · exact ((tab_use tC f2).2.2.symm.trans (by rw [← f1]; rfl))
    · exact ((tab_use tI f2).2.2.symm.trans (by rw [← f1]; rfl))
    · exact ((tab_use tA f2).2.2.symm.trans (by rw [← f1]; rfl))
    · have := mem_t hxg (by decide); subst this
      exact ((tab_use tE f2).2.2.symm.trans (by rw [← f1]; rfl))
    · have := mem_t hxg (by decide); subst this
      exact ((tab_use tRL f2).2.2.symm.trans (by rw [← f1]; rfl))
    · have := mem_t hxg (by decide); subst this
      exact ((tab_use tRC f2).2.2.symm.trans (by rw [← f1]; rfl))
    · have := mem_e hxg (by decide); subst this
      exact ((tab_use tCDP f2).2.2.symm.trans (by rw [← f1]; rfl))
    · have := mem_e hxg (by decide); subst this
      exact ((tab_use tTD f2).2.2.symm.trans (by rw [← f1]; rfl))
    · have := mem_e hxg (by decide); subst this
      exact ((tab_use tCR f2).2.2.symm.trans (by rw [← f1]; rfl))
    · have := mem_e hxg (by decide); subst this
      exact ((tab_use tIR f2).2.2.symm.trans (by rw [← f1]; rfl))
    · have := mem_e hxg (by decide); subst this
      exact ((tab_use tAR f2).2.2.symm.trans (by rw [← f1]; rfl))
  · show V2.temporalScore o = _
    unfold V2.temporalScore C04.modelTemporal
    rw [hgt, hte]
    cases t
    · simp [hbase]
    · obtain ⟨c1, c2, c3⟩ := htemp rfl
      simp only [Bool.not_true, Bool.false_eq_true, ↓reduceIte, hbase, tempOfObj, c1.2, c2.2, c3.2]
  · show V2.envScore o = _
    unfold V2.envScore C05.modelEnv C04.modelTemporal
    rw [hgee, hee, hte, hge]
    cases e
    · cases t
      · simp [hbase]
      · obtain ⟨c1, c2, c3⟩ := htemp rfl
        simp only [Bool.not_true, Bool.not_false, Bool.false_eq_true, ↓reduceIte, hbase, tempOfObj, c1.2, c2.2, c3.2]
    · obtain ⟨d1, d2, d3, d4, d5⟩ := henv rfl
      have hadj : scoreOfImpact (adjImpactF (o.field .C) (o.field .I) (o.field .A) (o.field .CR) (o.field .IR) (o.field .AR))
          (o.field .AV) (o.field .AC) (o.field .Au) = modelAdjBase (baseOfObj o) (envOfObj o) := by
        unfold modelAdjBase baseOfObj envOfObj
        simp only [a1.2.1, a2.2.1, a3.2.1, a4.2.1, a5.2.1, a6.2.1, d3.2, d4.2, d5.2]
      cases t
      · simp only [Bool.not_true, Bool.not_false, Bool.false_eq_true, ↓reduceIte, hadj, envOfObj, d1.2, d2.2]
      · obtain ⟨c1, c2, c3⟩ := htemp rfl
        simp only [Bool.not_true, Bool.false_eq_true, ↓reduceIte, hadj, tempOfObj, c1.2, c2.2, c3.2]
        simp only [envOfObj, d1.2, d2.2]

/-- **The temporal clause of C04 from the string**: for every accepted string, base and temporal score are
    tenths `kb`, `kt` with `kt` a rounding of `kb/10 × E × RL × RC` (the base score itself when the group is
    absent), `0 ≤ kt ≤ kb ≤ 100`. -/
theorem temporal_clause_of_string (L : Level) (s : Bytes) (o : Obj2) (h : V2.decode L Obj2.new s = (o, none)) :
    ∃ (tv : Option TempVec) (kb kt : Int), isTenth (V2.score .base o) kb = true ∧ isTenth (V2.score .temporal o) kt = true ∧
      okTemporal kb tv kt = true ∧ 0 ≤ kt ∧ kt ≤ kb ∧ kb ≤ 100 := by
  obtain ⟨_, tv, _, _, _, _, hb, ht, _⟩ := scores_of_string L s o h
  obtain ⟨kb, kt, h1, h2, h3, h4, h5, h6⟩ := C04.temporal2_eq (baseOfObj o) tv
  exact ⟨tv, kb, kt, by rw [hb]; exact h1, by rw [ht]; exact h2, h3, h4, h5, h6⟩

/-- non-vacuity -/
example : (V2.decode .environmental Obj2.new b!"AV:N/AC:L/Au:N/C:P/I:P/A:C/CDP:H/TD:H/CR:M/IR:M/AR:H").2 = none := by decide

end CvssVerif.Props.E2E2
