import CvssVerif.Props.C11
/-
  C12 — no input or receiver state makes the library panic or fabricate a result.

  What can panic in the Go code is (a) indexing the result of `strings.Split` (`values[0]`,
  `m[0]`, `m[1]`), (b) dereferencing a nil receiver or a nil embedded pointer, (c) writing to a nil
  map.  In the model (a) is a pattern match whose empty case would be the panic: it is shown
  unreachable; (b) is the `Option` receiver of the `…N` functions below, which follow the nil
  guards of the Go methods one by one; (c) cannot occur because every object comes from a
  constructor (`Obj3.new` / `Obj2.new` carry the three `names` maps).  The Go runtime itself is
  not modelled: the correspondence runs every operation under `recover`.
-/
namespace CvssVerif.Props.C12
open CvssVerif

/-- `strings.Split(s, "/")` never returns an empty slice: `values[0]` is safe for every string -/
theorem split_nonempty (sep : Nat) (s : Bytes) : ∃ hd rest, split sep s = hd :: rest := by
  cases h : split sep s with
  | nil => exact absurd h (List.splitOn_ne_nil sep s)
  | cons hd rest => exact ⟨hd, rest, rfl⟩

/-- decoding returns, for EVERY byte string, either an accepted object and no error or an error:
    never both, never neither (the model's result type makes the two exclusive; this states that
    the accept case is exactly the grammar, so nothing else can be "accepted") -/
theorem decode3_total (L : Level) (s : Bytes) :
    ((V3.decode L V3.Obj3.new s).2 = none ∧ Spec3.wf3 L s = true) ∨
    (∃ e, (V3.decode L V3.Obj3.new s).2 = some e ∧ Spec3.defect3 L e s = true) := by
  cases h : (V3.decode L V3.Obj3.new s).2 with
  | none => exact Or.inl ⟨rfl, (C07.accept3_iff L s).mp h⟩
  | some e =>
    refine Or.inr ⟨e, rfl, ?_⟩
    have : V3.decode L V3.Obj3.new s = ((V3.decode L V3.Obj3.new s).1, some e) := by rw [← h]
    exact C11.err3_sound L s _ e this

theorem decode2_total (L : Level) (s : Bytes) :
    ((V2.decode L V2.Obj2.new s).2 = none ∧ Spec2.canon2 L s = true) ∨
    (∃ e, (V2.decode L V2.Obj2.new s).2 = some e ∧ Spec2.defect2 L e s = true) := by
  cases h : (V2.decode L V2.Obj2.new s).2 with
  | none => exact Or.inl ⟨rfl, (C08.accept2_iff L s).mp h⟩
  | some e =>
    refine Or.inr ⟨e, rfl, ?_⟩
    have : V2.decode L V2.Obj2.new s = ((V2.decode L V2.Obj2.new s).1, some e) := by rw [← h]
    exact C11.err2_sound L s _ e this

/-! ### observers on nil receivers (the nil guards of the Go methods) -/

/-- **v3.** On any object — nil, fresh, left behind by a failed decode, or with a field reset —
    whose validity query reports an error, the score is +0 and encoding reports an error too. -/
theorem v3_invalid_scores_zero (L : Level) (o : Option V3.Obj3) (h : V3.getErrorN L o ≠ none) :
    V3.scoreN L o = 0 ∧ (V3.encodeN L o).2 ≠ none := by
  cases o with
  | none => exact ⟨rfl, by simp [V3.encodeN]⟩
  | some o =>
    simp only [V3.getErrorN, V3.scoreN, V3.encodeN] at h ⊢
    cases L
    · cases hg : V3.getErrorBase o with
      | none => exact absurd hg h
      | some e => exact ⟨by simp [V3.score, V3.baseScore, hg], by simp [V3.encode, hg]⟩
    · cases hg : V3.getErrorTemporal o with
      | none => exact absurd hg h
      | some e => exact ⟨by simp [V3.score, V3.temporalScore, hg], by simp [V3.encode, hg]⟩
    · cases hg : V3.getErrorEnv o with
      | none => exact absurd hg h
      | some e => exact ⟨by simp [V3.score, V3.envScore, hg], by simp [V3.encode, hg]⟩

theorem isValid_zero (m : V3.M3) : V3.isValid m 0 = false := by cases m <;> decide

/-- **v3.** The validity query does report an error whenever the version or a metric of the
    queried level holds its unknown / invalid value — in particular on fresh objects. -/
theorem v3_unknown_is_invalid (L : Level) (o : V3.Obj3)
    (h : o.ver = 0 ∨ ∃ m ∈ V3.msOf L, o.field m = 0) : V3.getError L o ≠ none := by
  intro hn
  have hb := (V3.getErrorBase_none_iff o).mp (V3.getError_none_base hn)
  rcases h with hv | ⟨m, hm, h0⟩
  · exact hb.1 hv
  · by_cases hbm : m ∈ V3.baseMs
    · exact hb.2 m hbm h0
    · -- a temporal / environmental metric of the level with value 0 fails IsValid
      have hiv := isValid_zero m
      cases L
      · exact hbm (by rw [V3.msOf_base] at hm; exact hm)
      · have ht : V3.getErrorTemporal o = none := hn
        unfold V3.getErrorTemporal at ht
        rw [V3.getError_none_base hn] at ht
        have hmt : m ∈ V3.tempMs := by
          rw [V3.msOf_temporal] at hm
          rcases List.mem_append.mp hm with h | h
          · exact absurd h hbm
          · exact h
        have : V3.tempMs.any (fun m => !V3.isValid m (o.field m)) = true :=
          List.any_eq_true.mpr ⟨m, hmt, by rw [h0, hiv]; rfl⟩
        simp [this] at ht
      · have he : V3.getErrorEnv o = none := hn
        unfold V3.getErrorEnv V3.getErrorTemporal at he
        rw [V3.getError_none_base hn] at he
        rw [V3.msOf_env] at hm
        rcases List.mem_append.mp hm with h | h
        · rcases List.mem_append.mp h with h | h
          · exact absurd h hbm
          · have : V3.tempMs.any (fun m => !V3.isValid m (o.field m)) = true :=
              List.any_eq_true.mpr ⟨m, h, by rw [h0, hiv]; rfl⟩
            simp [this] at he
        · have : V3.envMs.any (fun m => !V3.isValid m (o.field m)) = true :=
            List.any_eq_true.mpr ⟨m, h, by rw [h0, hiv]; rfl⟩
          by_cases ht : V3.tempMs.any (fun m => !V3.isValid m (o.field m)) = true
          · simp [ht] at he
          · simp [ht, this] at he

theorem v3_fresh_invalid (L : Level) : V3.getError L V3.Obj3.new ≠ none :=
  v3_unknown_is_invalid L _ (Or.inl rfl)

/-- **v2.** the same two facts -/
theorem v2_invalid_scores_zero (L : Level) (o : V2.Obj2) (h : V2.getError L o ≠ none) :
    V2.score L o = 0 ∧ (V2.encode L o).2 ≠ none := by
  refine ⟨?_, h⟩
  cases L
  · cases hg : V2.getErrorBase o with
    | none => exact absurd hg h
    | some e => simp [V2.score, V2.baseScore, hg]
  · cases hg : V2.getErrorTemporal o with
    | none => exact absurd hg h
    | some e => simp [V2.score, V2.temporalScore, hg]
  · cases hg : V2.getErrorEnv o with
    | none => exact absurd hg h
    | some e => simp [V2.score, V2.envScore, hg]

/-- **v2.** a base metric at its unknown value, or a metric of a *present* group of the level at
    its invalid value, makes the validity query report an error -/
theorem v2_unknown_is_invalid (L : Level) (o : V2.Obj2)
    (h : (∃ m ∈ V2.baseMs, o.field m = 0) ∨
         (Level.temporal.le L = true ∧ V2.tempEmpty o = false ∧ ∃ m ∈ V2.tempMs, o.field m = 0) ∨
         (L = .environmental ∧ V2.envEmpty o = false ∧ ∃ m ∈ V2.envMs, o.field m = 0)) :
    V2.getError L o ≠ none := by
  intro hn
  have hb : V2.getErrorBase o = none := by
    cases L
    · exact hn
    · have : V2.getErrorTemporal o = none := hn
      unfold V2.getErrorTemporal at this
      cases hb : V2.getErrorBase o with
      | none => rfl
      | some e => simp [hb] at this
    · have : V2.getErrorEnv o = none := hn
      unfold V2.getErrorEnv V2.getErrorTemporal at this
      cases hb : V2.getErrorBase o with
      | none => rfl
      | some e => simp [hb] at this
  rcases h with ⟨m, hm, h0⟩ | ⟨hl, hne, m, hm, h0⟩ | ⟨rfl, hne, m, hm, h0⟩
  · unfold V2.getErrorBase at hb
    have : V2.baseMs.any (fun m => o.field m == 0) = true := List.any_eq_true.mpr ⟨m, hm, by simp [h0]⟩
    simp [this] at hb
  · have hany : V2.tempMs.any (fun m => o.field m == 0) = true := List.any_eq_true.mpr ⟨m, hm, by simp [h0]⟩
    cases L
    · exact absurd hl (by decide)
    · have : V2.getErrorTemporal o = none := hn
      unfold V2.getErrorTemporal at this
      simp [hb, hne, hany] at this
    · have : V2.getErrorEnv o = none := hn
      unfold V2.getErrorEnv V2.getErrorTemporal at this
      simp [hb, hne, hany] at this
  · have hany : V2.envMs.any (fun m => o.field m == 0) = true := List.any_eq_true.mpr ⟨m, hm, by simp [h0]⟩
    have : V2.getErrorEnv o = none := hn
    unfold V2.getErrorEnv at this
    cases ht : V2.getErrorTemporal o with
    | some e => simp [ht] at this
    | none => simp [ht, hne, hany] at this

end CvssVerif.Props.C12
