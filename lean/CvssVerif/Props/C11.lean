import CvssVerif.Proofs.Err3
import CvssVerif.Proofs.Err2
import CvssVerif.Props.C07
import CvssVerif.Props.C08
/-
  C11 — every rejection reports a sentinel error naming a defect the input really has.

  The model's decoders return one `Err` (one of the eleven sentinels of `cvsserr`), so "exactly
  one sentinel" is structural here and is checked on the code by comparing, for every rejected
  string of the streams, the *set* of sentinels matching under `errors.Is` with the model's error.
  `Spec3.defect3` / `Spec2.defect2` are the property's defect classes as executable predicates.
-/
namespace CvssVerif.Props.C11
open CvssVerif

/-- **v3 soundness.** malformed prefix or token → invalid vector; well-formed prefix with another
    version → unsupported version; repeated metric → same metric; unknown value code → invalid
    value; name outside the level → unsupported metric; missing base metric → no base metrics:
    whatever the decoder reports, that defect is present in the string. -/
theorem err3_sound (L : Level) (s : Bytes) (o : V3.Obj3) (e : Err)
    (h : V3.decode L V3.Obj3.new s = (o, some e)) : Spec3.defect3 L e s = true :=
  V3.err_sound h

/-- **v2 soundness**, including incomplete groups and misordered vectors. -/
theorem err2_sound (L : Level) (s : Bytes) (o : V2.Obj2) (e : Err)
    (h : V2.decode L V2.Obj2.new s = (o, some e)) : Spec2.defect2 L e s = true :=
  V2.err_sound h (fun s' hc => (C08.accept2_iff L s').mpr hc)

/-- **Single defect (v3).** If a rejected string exhibits exactly one kind of defect, that kind
    is the one reported. -/
theorem single_defect3 (L : Level) (s : Bytes) (o : V3.Obj3) (e e0 : Err)
    (h : V3.decode L V3.Obj3.new s = (o, some e))
    (hone : ∀ e', Spec3.defect3 L e' s = true → e' = e0) : e = e0 :=
  hone e (err3_sound L s o e h)

/-- **Single defect (v2).** -/
theorem single_defect2 (L : Level) (s : Bytes) (o : V2.Obj2) (e e0 : Err)
    (h : V2.decode L V2.Obj2.new s = (o, some e))
    (hone : ∀ e', Spec2.defect2 L e' s = true → e' = e0) : e = e0 :=
  hone e (err2_sound L s o e h)

/-- the errors a decoder can report are the documented ones: never the null-pointer or
    invalid-template sentinels, and the v2-only sentinels never from a v3 decoder -/
theorem err3_kinds (L : Level) (s : Bytes) (o : V3.Obj3) (e : Err)
    (h : V3.decode L V3.Obj3.new s = (o, some e)) :
    e ∈ [Err.invalidVector, .notSupportVer, .sameMetric, .invalidValue, .notSupportMetric, .noBaseMetrics] := by
  have := err3_sound L s o e h
  cases e <;> first | decide | (unfold Spec3.defect3 at this; simp at this)

/-- non-vacuity: strings with exactly the named defect -/
example : Spec3.defect3 .base .sameMetric b!"CVSS:3.1/AV:N/AV:L/AC:L/PR:N/UI:N/S:U/C:H/I:H/A:H" = true := by decide
example : Spec3.defect3 .base .notSupportMetric b!"CVSS:3.1/AV:N/AC:L/PR:N/UI:N/S:U/C:H/I:H/A:H/E:F" = true := by decide
example : Spec3.defect3 .temporal .notSupportMetric b!"CVSS:3.1/AV:N/AC:L/PR:N/UI:N/S:U/C:H/I:H/A:H/E:F" = false := by decide
example : Spec2.defect2 .temporal .noTemporalMetrics b!"AV:N/AC:L/Au:N/C:P/I:P/A:P/E:F/RC:C" = true := by decide
example : Spec2.defect2 .temporal .misordered b!"AC:L/AV:N/Au:N/C:P/I:P/A:P" = true := by decide

end CvssVerif.Props.C11
