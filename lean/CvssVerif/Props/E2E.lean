import CvssVerif.Props.C03
import CvssVerif.Props.C06
import CvssVerif.Props.C09
/-
  End to end, v3: from the byte string to the score.

  C07/C09 speak about strings and objects, C01–C03 about specification vectors and the objects
  holding them.  The theorems here join them: for **every byte string** a decoder of the model
  accepts, the scores it then reports are the FIRST scores of the vector the string *denotes*
  (`Spec3.vecOf`, the function the specification oracle of the checks runs) — in any token order,
  with optional metrics written as X or omitted.
-/
namespace CvssVerif.Props.E2E
open CvssVerif Spec3 V3 P3

/-- table fact for one metric: every (value, code) pair of the model's table denotes, through the
    specification's reading of the code, an enumeration value whose Go integer is that value -/
def tabOK {α : Type} (codes : List (Int × Bytes)) (ofCode : Bytes → Option α) (toInt : α → Int) : Bool :=
  codes.all fun p => match ofCode p.2 with
    | some a => toInt a == p.1
    | none => false

theorem tab_use {α : Type} {codes : List (Int × Bytes)} {ofCode : Bytes → Option α} {toInt : α → Int}
    (ht : tabOK codes ofCode toInt = true) {x : Int} {c : Bytes} (h : (x, c) ∈ codes) :
    ∃ a, ofCode c = some a ∧ toInt a = x := by
  unfold tabOK at ht
  have := List.all_eq_true.mp ht (x, c) h
  cases ho : ofCode c with
  | none => simp [ho] at this
  | some a => exact ⟨a, rfl, by simpa [ho] using this⟩

theorem tAV : tabOK M3.AV.spec.codes AV.ofCode iAV = true := by decide
theorem tAC : tabOK M3.AC.spec.codes AC.ofCode iAC = true := by decide
theorem tPR : tabOK M3.PR.spec.codes PR.ofCode iPR = true := by decide
theorem tUI : tabOK M3.UI.spec.codes UI.ofCode iUI = true := by decide
theorem tS : tabOK M3.S.spec.codes Sc.ofCode iS = true := by decide
theorem tC : tabOK M3.C.spec.codes CIA.ofCode (iCIA .C) = true := by decide
theorem tI : tabOK M3.I.spec.codes CIA.ofCode (iCIA .I) = true := by decide
theorem tA : tabOK M3.A.spec.codes CIA.ofCode (iCIA .A) = true := by decide
theorem tE : tabOK M3.E.spec.codes E.ofCode iE = true := by decide
theorem tRL : tabOK M3.RL.spec.codes RL.ofCode iRL = true := by decide
theorem tRC : tabOK M3.RC.spec.codes RC.ofCode iRC = true := by decide
theorem tCR : tabOK M3.CR.spec.codes Req.ofCode (iReq .CR) = true := by decide
theorem tIR : tabOK M3.IR.spec.codes Req.ofCode (iReq .IR) = true := by decide
theorem tAR : tabOK M3.AR.spec.codes Req.ofCode (iReq .AR) = true := by decide
theorem tMAV : tabOK M3.MAV.spec.codes (modOf AV.ofCode) iMAV = true := by decide
theorem tMAC : tabOK M3.MAC.spec.codes (modOf AC.ofCode) iMAC = true := by decide
theorem tMPR : tabOK M3.MPR.spec.codes (modOf PR.ofCode) iMPR = true := by decide
theorem tMUI : tabOK M3.MUI.spec.codes (modOf UI.ofCode) iMUI = true := by decide
theorem tMS : tabOK M3.MS.spec.codes (modOf Sc.ofCode) iMS = true := by decide
theorem tMC : tabOK M3.MC.spec.codes (modOf CIA.ofCode) (iMCIA .MC) = true := by decide
theorem tMI : tabOK M3.MI.spec.codes (modOf CIA.ofCode) (iMCIA .MI) = true := by decide
theorem tMA : tabOK M3.MA.spec.codes (modOf CIA.ofCode) (iMCIA .MA) = true := by decide

/-- the version label: the two labels the decoders accept denote the two versions -/
theorem ver_use {v : Int} (hv : v = 1 ∨ v = 2) : ∃ a, Ver.ofLabel (verStr v) = some a ∧ iVer a = v := by
  rcases hv with rfl | rfl
  · exact ⟨.v30, by decide, by decide⟩
  · exact ⟨.v31, by decide, by decide⟩

/-- the decoder only leaves the two version values behind -/
theorem ver_cases {L : Level} {s : Bytes} {o : Obj3} (h : V3.decode L Obj3.new s = (o, none)) :
    o.ver = 1 ∨ o.ver = 2 := by
  obtain ⟨hd, es, _, hpre, _, _, _, ho⟩ := (V3.decode_ok_iff L s o).mp h
  rw [ho, V3.run_ver]; exact V3.start_ver_cases hd hpre

/-- the base part of an accepted string, at any decoder -/
theorem base_part {L : Level} {s : Bytes} {o : Obj3} (h : V3.decode L Obj3.new s = (o, none)) :
    ∃ v : BaseVec, C01.Encodes o v ∧
      Ver.ofLabel (label s) = some v.ver ∧
      AV.ofCode (expectedCode (mspec b!"AV") s) = some v.av ∧ AC.ofCode (expectedCode (mspec b!"AC") s) = some v.ac ∧
      PR.ofCode (expectedCode (mspec b!"PR") s) = some v.pr ∧ UI.ofCode (expectedCode (mspec b!"UI") s) = some v.ui ∧
      Sc.ofCode (expectedCode (mspec b!"S") s) = some v.s ∧ CIA.ofCode (expectedCode (mspec b!"C") s) = some v.c ∧
      CIA.ofCode (expectedCode (mspec b!"I") s) = some v.i ∧ CIA.ofCode (expectedCode (mspec b!"A") s) = some v.a := by
  obtain ⟨hl, hf⟩ := V3.decode_fields h
  have hb := V3.baseMs_sub L
  obtain ⟨ver, hver, hver'⟩ := ver_use (ver_cases h)
  rw [hl] at hver
  obtain ⟨av, hav, hav'⟩ : ∃ a, AV.ofCode (expectedCode (mspec b!"AV") s) = some a ∧ iAV a = o.field .AV :=
    tab_use tAV (hf .AV (hb _ (by decide)))
  obtain ⟨ac, hac, hac'⟩ : ∃ a, AC.ofCode (expectedCode (mspec b!"AC") s) = some a ∧ iAC a = o.field .AC :=
    tab_use tAC (hf .AC (hb _ (by decide)))
  obtain ⟨pr, hpr, hpr'⟩ : ∃ a, PR.ofCode (expectedCode (mspec b!"PR") s) = some a ∧ iPR a = o.field .PR :=
    tab_use tPR (hf .PR (hb _ (by decide)))
  obtain ⟨ui, hui, hui'⟩ : ∃ a, UI.ofCode (expectedCode (mspec b!"UI") s) = some a ∧ iUI a = o.field .UI :=
    tab_use tUI (hf .UI (hb _ (by decide)))
  obtain ⟨sc, hsc, hsc'⟩ : ∃ a, Sc.ofCode (expectedCode (mspec b!"S") s) = some a ∧ iS a = o.field .S :=
    tab_use tS (hf .S (hb _ (by decide)))
  obtain ⟨c, hc, hc'⟩ : ∃ a, CIA.ofCode (expectedCode (mspec b!"C") s) = some a ∧ iCIA .C a = o.field .C :=
    tab_use tC (hf .C (hb _ (by decide)))
  obtain ⟨i, hi, hi'⟩ : ∃ a, CIA.ofCode (expectedCode (mspec b!"I") s) = some a ∧ iCIA .I a = o.field .I :=
    tab_use tI (hf .I (hb _ (by decide)))
  obtain ⟨a, ha, ha'⟩ : ∃ a, CIA.ofCode (expectedCode (mspec b!"A") s) = some a ∧ iCIA .A a = o.field .A :=
    tab_use tA (hf .A (hb _ (by decide)))
  exact ⟨⟨ver, av, ac, pr, ui, sc, c, i, a⟩,
    ⟨hver'.symm, hav'.symm, hac'.symm, hpr'.symm, hui'.symm, hsc'.symm, hc'.symm, hi'.symm, ha'.symm⟩,
    hver, hav, hac, hpr, hui, hsc, hc, hi, ha⟩

/-- the temporal part, at the temporal and the environmental decoder -/
theorem temporal_part {L : Level} {s : Bytes} {o : Obj3} (h : V3.decode L Obj3.new s = (o, none))
    (hL : Level.temporal.le L = true) :
    ∃ t : TempVec, C02.EncodesT o t ∧ E.ofCode (expectedCode (mspec b!"E") s) = some t.e ∧
      RL.ofCode (expectedCode (mspec b!"RL") s) = some t.rl ∧ RC.ofCode (expectedCode (mspec b!"RC") s) = some t.rc := by
  obtain ⟨_, hf⟩ := V3.decode_fields h
  have hm : ∀ m ∈ tempMs, m ∈ msOf L := by
    cases L
    · simp [Level.le, Level.toNat] at hL
    · decide
    · decide
  obtain ⟨e, he, he'⟩ : ∃ a, E.ofCode (expectedCode (mspec b!"E") s) = some a ∧ iE a = o.field .E :=
    tab_use tE (hf .E (hm _ (by decide)))
  obtain ⟨rl, hrl, hrl'⟩ : ∃ a, RL.ofCode (expectedCode (mspec b!"RL") s) = some a ∧ iRL a = o.field .RL :=
    tab_use tRL (hf .RL (hm _ (by decide)))
  obtain ⟨rc, hrc, hrc'⟩ : ∃ a, RC.ofCode (expectedCode (mspec b!"RC") s) = some a ∧ iRC a = o.field .RC :=
    tab_use tRC (hf .RC (hm _ (by decide)))
  exact ⟨⟨e, rl, rc⟩, ⟨he'.symm, hrl'.symm, hrc'.symm⟩, he, hrl, hrc⟩

/-- **C01 from the string.** Whatever decoder accepts a byte string, the base score it then reports
    is the FIRST base score of the base vector written in the string. -/
theorem base_score_of_string (L : Level) (s : Bytes) (o : Obj3) (h : V3.decode L Obj3.new s = (o, none)) :
    ∃ v : BaseVec, Ver.ofLabel (label s) = some v.ver ∧ AV.ofCode (expectedCode (mspec b!"AV") s) = some v.av ∧
      CIA.ofCode (expectedCode (mspec b!"C") s) = some v.c ∧
      V3.score .base o = tenth (baseTenths v).toNat := by
  obtain ⟨v, hv, h0, h1, _, _, _, _, h6, _, _⟩ := base_part h
  exact ⟨v, h0, h1, h6, C01.base3_score_of_object o v hv⟩

/-- **C02 from the string.** -/
theorem temporal_score_of_string (L : Level) (s : Bytes) (o : Obj3) (h : V3.decode L Obj3.new s = (o, none))
    (hL : Level.temporal.le L = true) :
    ∃ (v : BaseVec) (t : TempVec), C01.Encodes o v ∧ C02.EncodesT o t ∧
      E.ofCode (expectedCode (mspec b!"E") s) = some t.e ∧ RL.ofCode (expectedCode (mspec b!"RL") s) = some t.rl ∧
      RC.ofCode (expectedCode (mspec b!"RC") s) = some t.rc ∧
      V3.score .base o = tenth (baseTenths v).toNat ∧
      V3.score .temporal o = tenth (temporalTenths v t).toNat := by
  obtain ⟨v, hv, _⟩ := base_part h
  obtain ⟨t, ht, h1, h2, h3⟩ := temporal_part h hL
  exact ⟨v, t, hv, ht, h1, h2, h3, C01.base3_score_of_object o v hv, C02.temporal3_score_of_object o v t hv ht⟩

/-- **C01–C03 from the string.** For every byte string the environmental decoder accepts, the string
    denotes specification vectors (`Spec3.vecOf`, what the oracle of the checks computes) and the three
    scores the object reports are the FIRST scores of those vectors. -/
theorem env_scores_of_string (s : Bytes) (o : Obj3) (h : V3.decode .environmental Obj3.new s = (o, none)) :
    ∃ v t n, vecOf s = some (v, t, n) ∧
      V3.score .base o = tenth (baseTenths v).toNat ∧
      V3.score .temporal o = tenth (temporalTenths v t).toNat ∧
      V3.score .environmental o = tenth (envTenths v t n).toNat := by
  obtain ⟨v, hv, b0, b1, b2, b3, b4, b5, b6, b7, b8⟩ := base_part h
  obtain ⟨t, ht, t1, t2, t3⟩ := temporal_part h (by decide)
  obtain ⟨_, hf⟩ := V3.decode_fields h
  obtain ⟨cr, e1, e1'⟩ : ∃ a, Req.ofCode (expectedCode (mspec b!"CR") s) = some a ∧ iReq .CR a = o.field .CR :=
    tab_use tCR (hf .CR (by decide))
  obtain ⟨ir, e2, e2'⟩ : ∃ a, Req.ofCode (expectedCode (mspec b!"IR") s) = some a ∧ iReq .IR a = o.field .IR :=
    tab_use tIR (hf .IR (by decide))
  obtain ⟨ar, e3, e3'⟩ : ∃ a, Req.ofCode (expectedCode (mspec b!"AR") s) = some a ∧ iReq .AR a = o.field .AR :=
    tab_use tAR (hf .AR (by decide))
  obtain ⟨mav, e4, e4'⟩ : ∃ a, modOf AV.ofCode (expectedCode (mspec b!"MAV") s) = some a ∧ iMAV a = o.field .MAV :=
    tab_use tMAV (hf .MAV (by decide))
  obtain ⟨mac, e5, e5'⟩ : ∃ a, modOf AC.ofCode (expectedCode (mspec b!"MAC") s) = some a ∧ iMAC a = o.field .MAC :=
    tab_use tMAC (hf .MAC (by decide))
  obtain ⟨mpr, e6, e6'⟩ : ∃ a, modOf PR.ofCode (expectedCode (mspec b!"MPR") s) = some a ∧ iMPR a = o.field .MPR :=
    tab_use tMPR (hf .MPR (by decide))
  obtain ⟨mui, e7, e7'⟩ : ∃ a, modOf UI.ofCode (expectedCode (mspec b!"MUI") s) = some a ∧ iMUI a = o.field .MUI :=
    tab_use tMUI (hf .MUI (by decide))
  obtain ⟨ms, e8, e8'⟩ : ∃ a, modOf Sc.ofCode (expectedCode (mspec b!"MS") s) = some a ∧ iMS a = o.field .MS :=
    tab_use tMS (hf .MS (by decide))
  obtain ⟨mc, e9, e9'⟩ : ∃ a, modOf CIA.ofCode (expectedCode (mspec b!"MC") s) = some a ∧ iMCIA .MC a = o.field .MC :=
    tab_use tMC (hf .MC (by decide))
  obtain ⟨mi, e10, e10'⟩ : ∃ a, modOf CIA.ofCode (expectedCode (mspec b!"MI") s) = some a ∧ iMCIA .MI a = o.field .MI :=
    tab_use tMI (hf .MI (by decide))
  obtain ⟨ma, e11, e11'⟩ : ∃ a, modOf CIA.ofCode (expectedCode (mspec b!"MA") s) = some a ∧ iMCIA .MA a = o.field .MA :=
    tab_use tMA (hf .MA (by decide))
  have he : C03.EncodesE o ⟨cr, ir, ar, mav, mac, mpr, mui, ms, mc, mi, ma⟩ :=
    ⟨e1'.symm, e2'.symm, e3'.symm, e4'.symm, e5'.symm, e6'.symm, e7'.symm, e8'.symm, e9'.symm, e10'.symm, e11'.symm⟩
  refine ⟨v, t, ⟨cr, ir, ar, mav, mac, mpr, mui, ms, mc, mi, ma⟩, ?_, C01.base3_score_of_object o v hv,
    C02.temporal3_score_of_object o v t hv ht, C03.env3_score_of_object o v t _ hv ht he⟩
  obtain ⟨ver, av, ac, pr, ui, sc, c, i, a⟩ := v
  obtain ⟨e, rl, rc⟩ := t
  simp only [vecOf, b0, b1, b2, b3, b4, b5, b6, b7, b8, t1, t2, t3, e1, e2, e3, e4, e5, e6, e7, e8, e9, e10, e11,
    Option.bind_eq_bind, Option.bind_some, Option.pure_def, bind, pure]

/-- with the severities (C06): band of the specification's score at every level -/
theorem env_severities_of_string (s : Bytes) (o : Obj3) (h : V3.decode .environmental Obj3.new s = (o, none)) :
    ∃ v t n, vecOf s = some (v, t, n) ∧
      V3.severity .base o = V3.severityF (tenth (baseTenths v).toNat) ∧
      V3.severity .temporal o = V3.severityF (tenth (temporalTenths v t).toNat) ∧
      V3.severity .environmental o = V3.severityF (tenth (envTenths v t n).toNat) := by
  obtain ⟨v, t, n, hv, h1, h2, h3⟩ := env_scores_of_string s o h
  refine ⟨v, t, n, hv, ?_, ?_, ?_⟩ <;> simp only [V3.severity, h1, h2, h3]

/-- non-vacuity: a concrete accepted string and the vectors it denotes -/
example : (V3.decode .environmental Obj3.new b!"CVSS:3.1/S:C/AV:N/AC:L/PR:N/UI:N/C:H/I:H/A:H/MPR:H/E:F").2 = none := by decide
example : (vecOf b!"CVSS:3.1/S:C/AV:N/AC:L/PR:N/UI:N/C:H/I:H/A:H/MPR:H/E:F").isSome = true := by decide

end CvssVerif.Props.E2E
