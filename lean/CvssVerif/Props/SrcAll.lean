import CvssVerif.Props.Src
import CvssVerif.Props.SrcDec
import CvssVerif.Props.SrcTab
/-
  From the byte string to the score, in terms of the translated source only.

  `Gen.D3/D2` (go/decoders) are the constructors and `Decode` as written in /repo, `Gen.F3/F2` (go/formulas) the score
  functions as written in /repo, `Gen.T3/T2` (go/tables) the per-metric functions both call.  The statements below compose the
  three ties: whatever string the *translated* decoder accepts, the *translated* score functions, applied to the object the
  translated decoder returns, give the FIRST scores of the vectors that string denotes (v3), resp. the model scores that
  C04/C05/C13 are stated about (v2: the unchanged tree deviates from FIRST on the known findings F1/F2).

  Checked by C03 and C05 when all three translations are understood and proved in the run (evidence field `end_to_end_source`).
-/
namespace CvssVerif.Props.SrcAll
open CvssVerif CvssVerif.DecoderTie

/-- v3: `NewEnvironmental().Decode(s)` as written, then `Score()` of the three levels as written -/
theorem v3_string_to_scores_source (s : Bytes) (o : V3.Obj3)
    (h : Gen.D3.Environmental_Decode Gen.D3.NewEnvironmental s = some (o, (true, none))) :
    ∃ v t n, Spec3.vecOf s = some (v, t, n) ∧
      Gen.F3.Base_Score o = tenth (Spec3.baseTenths v).toNat ∧
      Gen.F3.Temporal_Score o = tenth (Spec3.temporalTenths v t).toNat ∧
      Gen.F3.Environmental_Score o = tenth (Spec3.envTenths v t n).toNat ∧
      Gen.F3.severity (Gen.F3.Environmental_Score o) = V3.severity .environmental o := by
  rw [Environmental_Decode_3, SrcDec.newEnv3_eq] at h
  have ho : (V3.decode .environmental V3.Obj3.new s).1 = o := by
    have := congrArg (fun r => r.map (fun x => x.1)) h; simpa using this
  have he : (V3.decode .environmental V3.Obj3.new s).2 = none := by
    have := congrArg (fun r => r.map (fun x => x.2.2)) h; simpa using this
  obtain ⟨v, t, n, hv, h1, h2, h3⟩ := Src.source_scores_of_string s o (by rw [← ho, ← he])
  exact ⟨v, t, n, hv, h1, h2, h3, (Src.severity3_source o).2.2⟩

/-- v2: `NewEnvironmental().Decode(s)` as written, then the three `Score()` as written -/
theorem v2_string_to_scores_source (s : Bytes) (o : V2.Obj2)
    (h : Gen.D2.Environmental_Decode Gen.D2.NewEnvironmental s = some (o, (true, none))) :
    ∃ (tv : Option Spec2.TempVec) (nv : Option Spec2.EnvVec),
      Gen.F2.Base_Score o = P2.modelBase (E2E2.baseOfObj o) ∧
      Gen.F2.Temporal_Score o = C04.modelTemporal (E2E2.baseOfObj o) tv ∧
      Gen.F2.Environmental_Score o = C05.modelEnv (E2E2.baseOfObj o) tv nv := by
  rw [Environmental_Decode_2, SrcDec.new2_eq.1] at h
  have ho : (V2.decode .environmental V2.Obj2.new s).1 = o := by
    have := congrArg (fun r => r.map (fun x => x.1)) h; simpa using this
  have he : (V2.decode .environmental V2.Obj2.new s).2 = none := by
    have := congrArg (fun r => r.map (fun x => x.2.2)) h; simpa using this
  exact Src.source_scores_of_string2 .environmental s o (by rw [← ho, ← he])

/-- the primitives of the translated score functions are the translated per-metric functions (so nothing in the chain
    above is the hand-written model's alone): the weight of every base metric as the source computes it -/
theorem primitives_are_source (o : V3.Obj3) :
    V3.value0 .AV (o.field .AV) = Gen.T3.AttackVector_Value (o.field .AV) ∧
    V3.valuePR (o.field .PR) (o.field .S) = Gen.T3.PrivilegesRequired_Value (o.field .PR) (o.field .S) ∧
    V3.valueMPR (o.field .MPR) (o.field .MS) (o.field .S) (o.field .PR) =
      Gen.T3.ModifiedPrivilegesRequired_Value (o.field .MPR) (o.field .MS) (o.field .S) (o.field .PR) ∧
    V3.msIsChanged (o.field .MS) (o.field .S) = Gen.T3.ModifiedScope_IsChanged (o.field .MS) (o.field .S) :=
  ⟨(TableTie.AttackVector_Value_3 _).symm, (TableTie.PrivilegesRequired_Value_3 _ _).symm,
   (TableTie.ModifiedPrivilegesRequired_Value_3 _ _ _ _).symm, (TableTie.ModifiedScope_IsChanged_3 _ _).symm⟩

end CvssVerif.Props.SrcAll
