import CvssVerif.Proofs.C04Glue
/-
  C04 — CVSS v2 base and temporal scores equal the FIRST v2 equations.

  The unchanged tree does NOT satisfy the base clause on 22 of the 729 base vectors (known
  finding F1: Impact and Exploitability are rounded to two decimals before the base equation).
  Hence, beside the full statement, which is false of the code:
    * `base2_code_semantics` — what the code computes, exactly, on all 729 vectors;
    * `base2_partial`        — the property's statement on the 707 other vectors;
    * `base2_known_violate`  — each of the 22 listed vectors really violates it (witnesses);
  the temporal clause holds in full (`temporal2_grid`, `temporal2_eq`).
-/
namespace CvssVerif.Props.C04
open CvssVerif Spec2 V2 P2

/-- What the code computes: on every base vector the model's base score is a tenth in 0.0…10.0
    that is a rounding of the base equation applied to the *two-decimal-rounded* sub-scores. -/
theorem base2_code_semantics (v : BaseVec) :
    ∃ k : Int, isTenth (modelBase v) k = true ∧ 0 ≤ k ∧ k ≤ 100 ∧
      isRound1 (codeBaseRaw (r2Q (impact v.c v.i v.a)) (exploitability v.av v.ac v.au)) k = true := by
  obtain ⟨av, ac, au, c, i, a⟩ := v
  obtain ⟨t, h1, h2, h3, h4, _⟩ := base_of_chk2 (Gen.Base2.all c i a) av ac au
  exact ⟨t, h1, h3, h4, h2⟩

/-- The property's base clause, on every base vector outside the 22 of known finding F1: the
    base score is round-to-one-decimal (either neighbour at an exact half) of the base equation
    on the unrounded Impact and Exploitability. -/
theorem base2_partial (v : BaseVec) (hv : v ∉ knownBase2) :
    ∃ k : Int, isTenth (modelBase v) k = true ∧ 0 ≤ k ∧ k ≤ 100 ∧ okBase v k = true := by
  obtain ⟨av, ac, au, c, i, a⟩ := v
  obtain ⟨t, h1, _, h3, h4, h5⟩ := base_of_chk2 (Gen.Base2.all c i a) av ac au
  exact ⟨t, h1, h3, h4, h5.mpr hv⟩

/-- Each of the 22 listed vectors is a genuine violation: the tenth the model (and, by the
    exhaustive correspondence, the code) reports is not a rounding of the specification's value. -/
theorem base2_known_violate (v : BaseVec) (hv : v ∈ knownBase2) :
    ∃ k : Int, isTenth (modelBase v) k = true ∧ okBase v k = false := by
  obtain ⟨av, ac, au, c, i, a⟩ := v
  obtain ⟨t, h1, _, _, _, h5⟩ := base_of_chk2 (Gen.Base2.all c i a) av ac au
  refine ⟨t, h1, ?_⟩
  cases hok : okBase ⟨av, ac, au, c, i, a⟩ t
  · rfl
  · exact absurd hv (h5.mp hok)

/-- the full statement is false: a concrete witness (AV:L/AC:H/Au:S/C:N/I:P/A:P scores 2.5,
    the equation gives 2.448…) -/
theorem base2_violated :
    ∃ v : BaseVec, ∃ k : Int, isTenth (modelBase v) k = true ∧ okBase v k = false :=
  ⟨⟨.L, .H, .S, .N, .P, .P⟩, base2_known_violate _ (by decide)⟩

/-- The temporal stage on the whole grid −2.0 … 10.0 (and −0): `roundTo1Decimal(score×E×RL×RC)`
    is a tenth that is a rounding of the exact product, does not exceed a non-negative input
    (C13) and equals the input when E, RL, RC are all Not Defined. -/
theorem temporal2_grid (f : Nat) (k : Int) (hf : isTenth f k = true) (h1 : -20 ≤ k) (h2 : k ≤ 100)
    (t : TempVec) :
    ∃ r : Int, isTenth (temporalOf f (iE t.e) (iRL t.rl) (iRC t.rc)) r = true ∧
      okTemporal k (some t) r = true ∧ -20 ≤ r ∧ r ≤ 100 ∧ (0 ≤ k → r ≤ k ∧ 0 ≤ r) ∧
      ((t.e = .ND ∧ t.rl = .ND ∧ t.rc = .ND) → r = k) := by
  obtain ⟨j, hj, hin, hk⟩ := grid_of_isTenth hf h1 h2
  obtain ⟨r, r1, r2, r3, r4, r5, r6⟩ := temp_of_chk2 (Gen.Temp2.all j hj) t
  rw [hin, hk] at *
  exact ⟨r, r1, r2, r3, r4, r5, r6⟩

/-- the model's temporal score on specification vectors (`none`: temporal group absent) -/
def modelTemporal (v : BaseVec) (t : Option TempVec) : Nat :=
  match t with
  | none => modelBase v
  | some t => temporalOf (modelBase v) (iE t.e) (iRL t.rl) (iRC t.rc)

/-- The property's temporal clause in full, on all 729 × 101 vectors: the temporal score is
    round-to-one-decimal of the library's base score times the E, RL, RC weights — the base
    score itself when the group is absent — and never exceeds the base score (C13). -/
theorem temporal2_eq (v : BaseVec) (t : Option TempVec) :
    ∃ kb kt : Int, isTenth (modelBase v) kb = true ∧ isTenth (modelTemporal v t) kt = true ∧
      okTemporal kb t kt = true ∧ 0 ≤ kt ∧ kt ≤ kb ∧ kb ≤ 100 := by
  obtain ⟨kb, hb, h0, h1, _⟩ := base2_code_semantics v
  cases t with
  | none => exact ⟨kb, kb, hb, hb, by simp [okTemporal], h0, Int.le_refl _, h1⟩
  | some t =>
    obtain ⟨r, r1, r2, r3, _, r5, _⟩ := temporal2_grid _ kb hb (by omega) h1 t
    exact ⟨kb, r, hb, r1, r2, (r5 h0).2, (r5 h0).1, h1⟩

/-- non-vacuity: the known set is not everything, and a concrete admissible value -/
example : (⟨.N, .L, .N, .P, .P, .P⟩ : BaseVec) ∉ knownBase2 := by decide
example : okBase ⟨.N, .L, .N, .P, .P, .P⟩ 75 = true := by decide +kernel

end CvssVerif.Props.C04
