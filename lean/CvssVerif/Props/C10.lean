import CvssVerif.Props.C08
import CvssVerif.Props.C09
/-
  C10 — encoding is canonical and decode∘encode∘decode is the identity.
  (`String()` is `Encode()` with the error dropped, in Go and in the model; the harness checks
  that the two Go methods return the same text.)
-/
namespace CvssVerif.Props.C10
open CvssVerif

/-- **v3.** Encoding the object of an accepted decode succeeds and returns the canonical vector:
    `CVSS:3.x` prefix, then every metric of the object's level in specification order, X
    spelled out (`Spec3.canon3`). -/
theorem encode3_canonical {L : Level} {s : Bytes} {o : V3.Obj3} (h : V3.decode L V3.Obj3.new s = (o, none)) :
    V3.encode L o = (Spec3.canon3 L s, none) :=
  V3.encode_canonical h

/-- **v3.** Decoding the encoding gives an object with the same version, fields (hence scores)
    and encoding. -/
theorem decode3_encode_decode {L : Level} {s : Bytes} {o : V3.Obj3} (h : V3.decode L V3.Obj3.new s = (o, none)) :
    ∃ o2, V3.decode L V3.Obj3.new (V3.encode L o).1 = (o2, none) ∧ o2.ver = o.ver ∧
      (∀ m ∈ V3.msOf L, o2.field m = o.field m) ∧ V3.encode L o2 = V3.encode L o :=
  V3.decode_encode_decode h

/-- **v2.** The encoding of an accepted vector is byte-identical to the input … -/
theorem encode2_identity (L : Level) (s : Bytes) (o : V2.Obj2) (h : V2.decode L V2.Obj2.new s = (o, none)) :
    V2.encode L o = (s, none) :=
  C08.encode2_identity L s o h

/-- … so decoding the encoding is decoding the input again: same object, same encoding. -/
theorem decode2_encode_decode (L : Level) (s : Bytes) (o : V2.Obj2) (h : V2.decode L V2.Obj2.new s = (o, none)) :
    V2.decode L V2.Obj2.new (V2.encode L o).1 = (o, none) := by
  rw [C08.encode2_identity L s o h]; exact h

end CvssVerif.Props.C10
