import CvssVerif.Proofs.C01Glue
/-
  C01 — CVSS v3 base score equals the FIRST base equations (v3.0 and v3.1).

  `Spec3.baseTenths` is the specification (exact rationals, in tenths); `V3.baseScore` is the
  model of `(*Base).Score()` on the soft binary64; `tenth k` is the double nearest to k/10.
  Property theorems only; helper lemmas live in `Proofs/`.
-/
namespace CvssVerif.Props.C01
open CvssVerif Spec3 V3 P3

/-- The model's base-score arithmetic, on every one of the 2 × 2,592 base vectors, returns
    the double nearest to the specification's score. -/
theorem base3_eq_spec (v : BaseVec) : modelBase v = tenth (baseTenths v).toNat := by
  obtain ⟨ver, av, ac, pr, ui, s, c, i, a⟩ := v
  exact (base_of_chk (Gen.Base3.all s c i a) ver av ac pr ui).1

/-- The specification's base score is a tenth between 0.0 and 10.0. -/
theorem base3_range (v : BaseVec) : 0 ≤ baseTenths v ∧ baseTenths v ≤ 100 := by
  obtain ⟨ver, av, ac, pr, ui, s, c, i, a⟩ := v
  have h := base_of_chk (Gen.Base3.all s c i a) ver av ac pr ui
  exact ⟨h.2.1, h.2.2.1⟩

/-- The base score is 0 exactly when C, I and A are all None. -/
theorem base3_zero_iff (v : BaseVec) :
    baseTenths v = 0 ↔ (v.c = .N ∧ v.i = .N ∧ v.a = .N) := by
  obtain ⟨ver, av, ac, pr, ui, s, c, i, a⟩ := v
  exact (base_of_chk (Gen.Base3.all s c i a) ver av ac pr ui).2.2.2

/-- an object whose version and base fields hold the Go enumeration values of `v` -/
def Encodes (o : Obj3) (v : BaseVec) : Prop :=
  o.ver = iVer v.ver ∧ o.field .AV = iAV v.av ∧ o.field .AC = iAC v.ac ∧ o.field .PR = iPR v.pr ∧
  o.field .UI = iUI v.ui ∧ o.field .S = iS v.s ∧ o.field .C = iCIA .C v.c ∧
  o.field .I = iCIA .I v.i ∧ o.field .A = iCIA .A v.a

/-- `(*Base).Score()` (validity test included) on any object holding a valid base vector — which
    is what every v3 decoder leaves behind for an accepted string, in any token order (C09) —
    is the specification's score. -/
theorem base3_score_of_object (o : Obj3) (v : BaseVec) (h : Encodes o v) :
    baseScore o = tenth (baseTenths v).toNat := by
  obtain ⟨hv, h1, h2, h3, h4, h5, h6, h7, h8⟩ := h
  have hge : getErrorBase o = none := by
    unfold getErrorBase baseMs
    simp [h1, h2, h3, h4, h5, h6, h7, h8, hv, iVer_ne, iAV_ne, iAC_ne, iPR_ne, iUI_ne, iS_ne,
      iC_ne, iI_ne, iA_ne]
  unfold baseScore
  rw [hge, h1, h2, h3, h4, h5, h6, h7, h8]
  exact base3_eq_spec v

/-- The double reported is 0 exactly when the specification's score is 0. -/
theorem base3_model_zero_iff (v : BaseVec) :
    modelBase v = 0 ↔ (v.c = .N ∧ v.i = .N ∧ v.a = .N) := by
  rw [base3_eq_spec, ← base3_zero_iff]
  have hr := base3_range v
  generalize baseTenths v = k at hr ⊢
  have key : ∀ n : Nat, n ≤ 100 → (tenth n = 0 ↔ n = 0) := by decide +kernel
  have := key k.toNat (by omega)
  omega

/-- non-vacuity: a concrete object and vector meeting the hypothesis -/
example : Encodes { Obj3.new with ver := 2, field := fun m => match m with
    | .AV => 4 | .AC => 2 | .PR => 3 | .UI => 2 | .S => 2 | .C => 3 | .I => 3 | .A => 3 | _ => 1 }
    ⟨.v31, .N, .L, .N, .N, .C, .H, .H, .H⟩ := by unfold Encodes; decide

example : baseTenths ⟨.v31, .N, .L, .N, .N, .C, .H, .H, .H⟩ = 100 := by decide +kernel
example : baseTenths ⟨.v30, .L, .H, .H, .R, .U, .N, .L, .N⟩ = 18 := by decide +kernel

end CvssVerif.Props.C01
