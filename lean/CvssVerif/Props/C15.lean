import CvssVerif.Model.Heap
import CvssVerif.Proofs.Indep
import CvssVerif.Proofs.Effects
/-
  C15 — queries never modify a metrics object; results are deterministic and history-free.

  The model is functional, so determinism is built in and purity is short to prove; what gives
  these statements content for the code is the correspondence: whole histories (decodes, query
  bursts, views, reports, exports on a pool of objects inside one process) are run on the real
  library and on this model and compared operation by operation, together with a fresh twin
  that saw the same decodes but none of the queries.
-/
namespace CvssVerif.Props.C15
open CvssVerif Heap Indep

/-- Scoring, severity, validity, encoding, string conversion, accessor, report-construction and
    export operations leave the object exactly as it was (all exported fields, all recorded
    names, hence the result of every later query). -/
theorem queries_are_pure (op : ObjOp) (h : op.writes = false) (o : AnyObj) : (act op o).1 = o :=
  query_pure op h o

/-- Repeating a query any number of times returns identical results and still leaves the
    object unchanged. -/
theorem repeated_queries (op : ObjOp) (h : op.writes = false) (o : AnyObj) (n : Nat) :
    (runObj o (List.replicate n (act op))).1 = o ∧
    ∀ out ∈ (runObj o (List.replicate n (act op))).2, out = (act op o).2 := by
  induction n with
  | zero => exact ⟨rfl, by simp [runObj]⟩
  | succ n ih =>
    simp only [List.replicate_succ, runObj]
    rw [query_pure op h o]
    refine ⟨ih.1, ?_⟩
    intro out hout
    rcases List.mem_cons.mp hout with rfl | h'
    · rfl
    · exact ih.2 out h'

/-- an operation of a history: which object it targets and what it does to it -/
def hop (k : Nat) (op : ObjOp) : Indep.Op AnyObj String := ⟨k, act op⟩

/-- **History freedom.** In any history over any pool of objects, what is returned about object
    `k` — and the state `k` ends in — is exactly what the operations on `k` alone return and
    produce, in any process, whatever was decoded, scored or reported in between. -/
theorem history_free (k : Nat) (ops : List (Nat × ObjOp)) (σ : Nat → AnyObj) :
    let hs := ops.map fun p => hop p.1 p.2
    (run σ hs).1 k = (runObj (σ k) ((hs.filter (·.tgt = k)).map (·.act))).1 ∧
    ((run σ hs).2.filter (·.1 = k)).map (·.2) = (runObj (σ k) ((hs.filter (·.tgt = k)).map (·.act))).2 :=
  proj k _ σ

/-- Interleaving queries on an object with its decodes does not change what the decodes make of
    it: the final object equals the one of the twin history without any query. -/
theorem twin (as : List ObjOp) (o : AnyObj) :
    (runObj o (as.map act)).1 = (runObj o ((as.filter (·.writes)).map act)).1 := by
  induction as generalizing o with
  | nil => rfl
  | cons a as ih =>
    simp only [List.map_cons, runObj, List.filter_cons]
    cases hw : a.writes
    · simp only [Bool.false_eq_true, if_false]
      rw [query_pure a hw o]
      exact ih o
    · simp only [if_true, List.map_cons, runObj]
      exact ih _

/-- non-vacuity: a decode really is a writing operation and a query is not -/
example : (ObjOp.decode .base b!"CVSS:3.1/AV:N").writes = true ∧ (ObjOp.query .base).writes = false := ⟨rfl, rfl⟩

/-- **Tie of the purity assumption to the source.** The write-set table extracted from the
    library's SSA form on every run (`Generated/Effects.lean`): of all exported functions and
    methods of the five packages only the six `Decode` methods write through a parameter, and
    only through their receiver; none writes a package-level variable or lets its address escape.
    This is what `ObjOp.writes` assumes. -/
theorem code_writes_only_in_decode : Gen.Effects.exported.all Effects.rowOk = true := Effects.all_rows_ok

/-- every operation the model has (queries, accessors, constructors of reports, exports, the 52
    names functions) is a row of that table -/
theorem code_effects_cover_model :
    Effects.modelled.all (fun n => Gen.Effects.exported.any fun r => r.1 == n) = true ∧
    (Gen.Effects.exported.filter fun r => Effects.isPrefix b!"v3/report/names." r.1).length = 52 :=
  ⟨Effects.modelled_present, Effects.names_functions_present⟩

end CvssVerif.Props.C15
