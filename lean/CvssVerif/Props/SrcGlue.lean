import CvssVerif.Generated.Glue
import CvssVerif.Props.C19
/-
  The tie by translation of the template-export glue (C19): what go/glue reads off the source text of `getTempleteString`,
  `executeTemplate` and the `ExportWith` / `ExportWithString` methods of the three report types of /repo/v3/report on every
  run (`Generated/Glue.lean`) is — for every engine, every receiver (nil or not), every reader and every template text —
  the model's `exportWith` / `exportWithString` all C19 theorems are stated about, and it never panics (`some`).

  Not imported by the property modules; `check.py C19` rebuilds it and reports.
-/
namespace CvssVerif.Props.SrcGlue
open CvssVerif CvssVerif.Report CvssVerif.Gen.Glue

/-- `getTempleteString` is the model's `templateOf` (and does not hand a nil reader to `io.Copy`) -/
theorem getTempleteString_is_model (r : Reader) :
    getTempleteString r = some (match templateOf r with | .ok t => (t, none) | .error e => ([], some e)) := by
  cases r <;> simp [getTempleteString, templateOf, Reader.isNil, ioCopy]

/-- `executeTemplate` is "parse, then execute, any error is ErrInvalidTemplate" (and never executes a nil template) -/
theorem executeTemplate_is_model (E : Engine) (rn : Bool) (t : Bytes) :
    executeTemplate E rn t = some (exportWithString E.run false t) := by
  unfold executeTemplate exportWithString Engine.run
  cases hp : E.parse t with
  | none => simp
  | some tt => cases he : E.exec tt <;> simp [he]

theorem exportWithString_is_model (E : Engine) (rn : Bool) (t : Bytes) :
    BaseReport_ExportWithString E rn t = some (exportWithString E.run rn t) ∧
    TemporalReport_ExportWithString E rn t = some (exportWithString E.run rn t) ∧
    EnvironmentalReport_ExportWithString E rn t = some (exportWithString E.run rn t) := by
  refine ⟨?_, ?_, ?_⟩ <;>
  · cases rn
    · simp [BaseReport_ExportWithString, TemporalReport_ExportWithString, EnvironmentalReport_ExportWithString,
        executeTemplate_is_model]
    · simp [BaseReport_ExportWithString, TemporalReport_ExportWithString, EnvironmentalReport_ExportWithString,
        exportWithString]

theorem exportWith_is_model (E : Engine) (rn : Bool) (r : Reader) :
    BaseReport_ExportWith E rn r = some (exportWith E.run rn r) ∧
    TemporalReport_ExportWith E rn r = some (exportWith E.run rn r) ∧
    EnvironmentalReport_ExportWith E rn r = some (exportWith E.run rn r) := by
  have hs := exportWithString_is_model E rn
  refine ⟨?_, ?_, ?_⟩ <;>
  · cases r <;>
      simp [BaseReport_ExportWith, TemporalReport_ExportWith, EnvironmentalReport_ExportWith, getTempleteString_is_model,
        exportWith, templateOf, hs]

/-- the premises are not vacuous: an engine that upper-cases nothing and fails on the empty template -/
example : (BaseReport_ExportWith ⟨Bytes, fun t => if t = [] then none else some t, some⟩ false (.content [65])) =
    some (some [65], none) := by decide

end CvssVerif.Props.SrcGlue
