import CvssVerif.Generated.Glue
import CvssVerif.Props.C19
/-
  The tie by translation of the template-export glue (C19): what go/glue reads off the source text of `getTempleteString`,
  `executeTemplate` and the `ExportWith` / `ExportWithString` methods of the three report types of /repo/v3/report on every
  run (`Generated/Glue.lean`) is — for every engine, every receiver (nil or not), every reader and every template text —
  the model's `exportWith` / `exportWithString` all C19 theorems are stated about, and it never panics (`some`).

  Not imported by the property modules; `check.py C19` rebuilds it and reports.
-/
namespace CvssVerif.Props.SrcGlue
open CvssVerif CvssVerif.Report CvssVerif.Gen.Glue

/-- `getTempleteString` is the model's `templateOf` (and does not hand a nil reader to `io.Copy`) -/
theorem getTempleteString_is_model (r : Reader) :
    getTempleteString r = some (match templateOf r with | .ok t => (t, none) | .error e => ([], some e)) := by
  cases r <;> simp [getTempleteString, templateOf, Reader.isNil, ioCopy]

/-- `executeTemplate` is "parse, then execute, any error is ErrInvalidTemplate" (and never executes a nil template) -/
theorem executeTemplate_is_model (E : Engine) (rn : Bool) (t : Bytes) :
    executeTemplate E rn t = some (exportWithString E.run false t) := by
  unfold executeTemplate exportWithString Engine.run
  cases hp : E.parse t with
  | none => simp
  | some tt => cases he : E.exec tt <;> simp [he]

theorem exportWithString_is_model (E : Engine) (rn : Bool) (t : Bytes) :
    BaseReport_ExportWithString E rn t = some (exportWithString E.run rn t) ∧
    TemporalReport_ExportWithString E rn t = some (exportWithString E.run rn t) ∧
    EnvironmentalReport_ExportWithString E rn t = some (exportWithString E.run rn t) := by
  refine ⟨?_, ?_, ?_⟩ <;>
  · cases rn
    · simp [BaseReport_ExportWithString, TemporalReport_ExportWithString, EnvironmentalReport_ExportWithString,
        executeTemplate_is_model]
    · simp [BaseReport_ExportWithString, TemporalReport_ExportWithString, EnvironmentalReport_ExportWithString,
        exportWithString]

theorem exportWith_is_model (E : Engine) (rn : Bool) (r : Reader) :
    BaseReport_ExportWith E rn r = some (exportWith E.run rn r) ∧
    TemporalReport_ExportWith E rn r = some (exportWith E.run rn r) ∧
    EnvironmentalReport_ExportWith E rn r = some (exportWith E.run rn r) := by
  have hs := exportWithString_is_model E rn
  refine ⟨?_, ?_, ?_⟩ <;>
  · cases r <;>
      simp [BaseReport_ExportWith, TemporalReport_ExportWith, EnvironmentalReport_ExportWith, getTempleteString_is_model,
        exportWith, templateOf, hs]

/-- C19 restated about the translated source text: for every engine, receiver and reader, each of the three `ExportWith`
    returns (no panic) either output and no error or no output and one of the two sentinels; a nil or failing reader gives
    invalid-template whatever the report; a nil report gives null-pointer once the template text could be read; and a
    reader is its content handed to the same type's `ExportWithString` -/
theorem c19_about_source (E : Engine) (rn : Bool) (r : Reader) :
    ∀ f ∈ [BaseReport_ExportWith, TemporalReport_ExportWith, EnvironmentalReport_ExportWith],
      ∃ res, f E rn r = some res ∧ (res.1.isSome ↔ res.2 = none) ∧
        (res.2 = none ∨ res.2 = some .invalidTemplate ∨ res.2 = some .nullPointer) ∧
        ((r = .nil ∨ r = .fails) → res = (none, some .invalidTemplate)) ∧
        (∀ t, r = .content t → rn = true → res = (none, some .nullPointer)) := by
  intro f hf
  have hm := exportWith_is_model E rn r
  have hc := C19.clean_failure E.run rn r
  have hb := C19.bad_reader E.run rn
  refine ⟨exportWith E.run rn r, ?_, hc.1, hc.2, ?_, ?_⟩
  · simp only [List.mem_cons, List.mem_nil_iff, or_false] at hf
    rcases hf with rfl | rfl | rfl
    · exact hm.1
    · exact hm.2.1
    · exact hm.2.2
  · rintro (rfl | rfl)
    · exact hb.1
    · exact hb.2
  · rintro t rfl rfl
    rw [C19.reader_is_string]; exact C19.nil_report E.run t

theorem reader_is_string_source (E : Engine) (rn : Bool) (t : Bytes) :
    BaseReport_ExportWith E rn (.content t) = BaseReport_ExportWithString E rn t ∧
    TemporalReport_ExportWith E rn (.content t) = TemporalReport_ExportWithString E rn t ∧
    EnvironmentalReport_ExportWith E rn (.content t) = EnvironmentalReport_ExportWithString E rn t := by
  have h1 := exportWith_is_model E rn (.content t)
  have h2 := exportWithString_is_model E rn t
  have h3 := C19.reader_is_string E.run rn t
  refine ⟨?_, ?_, ?_⟩
  · rw [h1.1, h2.1, h3]
  · rw [h1.2.1, h2.2.1, h3]
  · rw [h1.2.2, h2.2.2, h3]

/-- the premises are not vacuous: an engine that upper-cases nothing and fails on the empty template -/
example : (BaseReport_ExportWith ⟨Bytes, fun t => if t = [] then none else some t, some⟩ false (.content [65])) =
    some (some [65], none) := by decide

end CvssVerif.Props.SrcGlue
