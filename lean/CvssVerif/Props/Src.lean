import CvssVerif.Proofs.Formulas
import CvssVerif.Props.E2E
import CvssVerif.Props.E2E2
/-
  The tie by translation for the score properties (C01–C06, C13).

  `Generated/Formulas.lean` is rewritten on every run by `go/formulas` from the *text* of
  `roundUp`, `severity`, `(*Base).Score`, `(*Temporal).Score`, `(*Environmental).Score` (v3) and
  `roundTo1Decimal`, `roundTo2Decimal`, `severity`, `(*Base).Score`, `(*Base).score`, `(*Temporal).Score`,
  `(*Temporal).score`, `(*Environmental).Score` (v2) as they are in /repo now.  The theorems below say that
  those thirteen functions are the hand-written model's, for every object and every float — so every
  theorem of `Props/C01 … C06, C13`, which is stated about the model, is a theorem about the source text,
  over the whole record domain (≈ 1.1·10¹² v3 environmental records, ≈ 1.4·10⁸ v2 ones), not only about
  the inputs the correspondence enumerates.  What stays behavioural: the per-metric methods `Value`,
  `IsChanged`, `IsEmpty`, `GetError` are primitives of the translation (tied by C20's exhaustive table
  dump and by C07/C08), and float64 arithmetic is `Basic/F64`.

  This module is not imported by the property modules: when the source changes so that these
  equalities no longer check, the property theorems still stand for the model, the correspondence
  still ties the model to the code, and the check widens its search (see DESIGN §2).
-/
namespace CvssVerif.Props.Src
open CvssVerif

/-- the v3 functions of the source are the model's, for all objects / all doubles -/
theorem v3_source_is_model :
    (∀ x, Gen.F3.roundUp x = V3.roundUp x) ∧ (∀ x, Gen.F3.severity x = V3.severityF x) ∧
    (∀ o, Gen.F3.Base_Score o = V3.score .base o) ∧ (∀ o, Gen.F3.Temporal_Score o = V3.score .temporal o) ∧
    (∀ o, Gen.F3.Environmental_Score o = V3.score .environmental o) :=
  ⟨FormulaTie.roundUp3, FormulaTie.severity3, FormulaTie.base3, FormulaTie.temporal3, FormulaTie.env3⟩

/-- the v2 functions of the source are the model's -/
theorem v2_source_is_model :
    (∀ x, Gen.F2.roundTo1Decimal x = V2.roundTo1 x) ∧ (∀ x, Gen.F2.roundTo2Decimal x = V2.roundTo2 x) ∧
    (∀ x, Gen.F2.severity x = V2.severityF x) ∧
    (∀ o, Gen.F2.Base_Score o = V2.score .base o) ∧ (∀ o, Gen.F2.Temporal_Score o = V2.score .temporal o) ∧
    (∀ o, Gen.F2.Environmental_Score o = V2.score .environmental o) ∧
    (∀ o bs, Gen.F2.Temporal_score o bs = V2.temporalOf bs (o.field .E) (o.field .RL) (o.field .RC)) ∧
    (∀ o imp, Gen.F2.Base_score o imp =
      (match V2.getErrorBase o with
       | some _ => 0
       | none => V2.scoreOfImpact imp (o.field .AV) (o.field .AC) (o.field .Au))) :=
  ⟨FormulaTie.roundTo1, FormulaTie.roundTo2, FormulaTie.severity2, FormulaTie.base2, FormulaTie.temporal2,
   FormulaTie.env2, FormulaTie.temporalOf2, FormulaTie.baseOf2⟩

/-- C01 for the source text: `(*Base).Score` as written, on any object holding a valid base vector,
    is the specification's base score. -/
theorem base3_source (o : V3.Obj3) (v : Spec3.BaseVec) (h : C01.Encodes o v) :
    Gen.F3.Base_Score o = tenth (Spec3.baseTenths v).toNat := by
  rw [FormulaTie.base3]; exact C01.base3_score_of_object o v h

/-- C02 for the source text. -/
theorem temporal3_source (o : V3.Obj3) (v : Spec3.BaseVec) (t : Spec3.TempVec)
    (hb : C01.Encodes o v) (ht : C02.EncodesT o t) :
    Gen.F3.Temporal_Score o = tenth (Spec3.temporalTenths v t).toNat := by
  rw [FormulaTie.temporal3]; exact C02.temporal3_score_of_object o v t hb ht

/-- C03 for the source text, over the whole record domain. -/
theorem env3_source (o : V3.Obj3) (v : Spec3.BaseVec) (t : Spec3.TempVec) (n : Spec3.EnvVec)
    (hb : C01.Encodes o v) (ht : C02.EncodesT o t) (he : C03.EncodesE o n) :
    Gen.F3.Environmental_Score o = tenth (Spec3.envTenths v t n).toNat := by
  rw [FormulaTie.env3]; exact C03.env3_score_of_object o v t n hb ht he

/-- From the byte string to the source text: for every byte string the environmental decoder accepts, the three score
    functions *as written in /repo* return the FIRST scores of the vectors the string denotes. -/
theorem source_scores_of_string (s : Bytes) (o : V3.Obj3) (h : V3.decode .environmental V3.Obj3.new s = (o, none)) :
    ∃ v t n, Spec3.vecOf s = some (v, t, n) ∧
      Gen.F3.Base_Score o = tenth (Spec3.baseTenths v).toNat ∧
      Gen.F3.Temporal_Score o = tenth (Spec3.temporalTenths v t).toNat ∧
      Gen.F3.Environmental_Score o = tenth (Spec3.envTenths v t n).toNat := by
  obtain ⟨v, t, n, hv, h1, h2, h3⟩ := E2E.env_scores_of_string s o h
  exact ⟨v, t, n, hv, by rw [FormulaTie.base3]; exact h1, by rw [FormulaTie.temporal3]; exact h2,
    by rw [FormulaTie.env3]; exact h3⟩

/-- v2, from the byte string to the source text: the three v2 score functions *as written in /repo*, on the object
    any v2 decoder leaves behind for an accepted string, are the model functions C04/C05/C13 are about. -/
theorem source_scores_of_string2 (L : Level) (s : Bytes) (o : V2.Obj2) (h : V2.decode L V2.Obj2.new s = (o, none)) :
    ∃ (tv : Option Spec2.TempVec) (nv : Option Spec2.EnvVec),
      Gen.F2.Base_Score o = P2.modelBase (E2E2.baseOfObj o) ∧
      Gen.F2.Temporal_Score o = C04.modelTemporal (E2E2.baseOfObj o) tv ∧
      Gen.F2.Environmental_Score o = C05.modelEnv (E2E2.baseOfObj o) tv nv := by
  obtain ⟨_, tv, nv, _, _, _, h1, h2, h3⟩ := E2E2.scores_of_string L s o h
  exact ⟨tv, nv, by rw [FormulaTie.base2]; exact h1, by rw [FormulaTie.temporal2]; exact h2,
    by rw [FormulaTie.env2]; exact h3⟩

/-- C06 for the source text: the severity the source computes is the model's at every level. -/
theorem severity3_source (o : V3.Obj3) :
    Gen.F3.severity (Gen.F3.Base_Score o) = V3.severity .base o ∧
    Gen.F3.severity (Gen.F3.Temporal_Score o) = V3.severity .temporal o ∧
    Gen.F3.severity (Gen.F3.Environmental_Score o) = V3.severity .environmental o := by
  simp only [FormulaTie.severity3, FormulaTie.base3, FormulaTie.temporal3, FormulaTie.env3]
  exact ⟨rfl, rfl, rfl⟩

theorem severity2_source (o : V2.Obj2) :
    Gen.F2.severity (Gen.F2.Base_Score o) = V2.severity .base o ∧
    Gen.F2.severity (Gen.F2.Temporal_Score o) = V2.severity .temporal o ∧
    Gen.F2.severity (Gen.F2.Environmental_Score o) = V2.severity .environmental o := by
  simp only [FormulaTie.severity2, FormulaTie.base2, FormulaTie.temporal2, FormulaTie.env2]
  exact ⟨rfl, rfl, rfl⟩

end CvssVerif.Props.Src
