import CvssVerif.Props.C10
/-
  C14 — base, temporal and environmental views of one vector agree with each other.

  In Go the lower-level views of an object are its embedded pointers (`tm.Base`, `em.Temporal`);
  in the model the view of `o` at level `l` is `o` itself queried at level `l`.  The theorems say
  that those queries give what an independent decoder of level `l` gives on the vector's own
  lower-level part (its canonical encoding at level `l`).
-/
namespace CvssVerif.Props.C14
open CvssVerif

theorem any_congr {α : Type} {l : List α} {p q : α → Bool} (h : ∀ x ∈ l, p x = q x) : l.any p = l.any q := by
  induction l with
  | nil => rfl
  | cons x xs ih =>
    rw [List.any_cons, List.any_cons, h x List.mem_cons_self, ih (fun y hy => h y (List.mem_cons_of_mem _ hy))]

/-! ### v3 -/

theorem msOf_mono3 {l L : Level} (hl : l.le L = true) : ∀ m ∈ V3.msOf l, m ∈ V3.msOf L := by
  intro m hm
  apply V3.mem_msOf
  have := V3.msOf_sub hm
  cases l <;> cases L <;> cases hlv : m.spec.level <;> simp_all [Level.le, Level.toNat]

theorem getError_le3 {l L : Level} {o : V3.Obj3} (hl : l.le L = true) (h : V3.getError L o = none) :
    V3.getError l o = none := by
  cases l <;> cases L <;> first
    | exact h
    | exact absurd hl (by decide)
    | exact V3.getError_none_base h
    | (have he : V3.getErrorEnv o = none := h
       unfold V3.getErrorEnv at he
       cases ht : V3.getErrorTemporal o with
       | none => exact ht
       | some e => simp [ht] at he)

/-- the encoding obtained through a lower-level view is the canonical vector of that level -/
theorem view3_encode {l L : Level} {s : Bytes} {o : V3.Obj3} (hl : l.le L = true)
    (h : V3.decode L V3.Obj3.new s = (o, none)) : V3.encode l o = (Spec3.canon3 l s, none) := by
  have hge := getError_le3 hl (V3.decode_getError h)
  have hb := V3.encodeBaseStr_eq h
  have hcanon : join slash ((b!"CVSS:" ++ V3.verStr o.ver) :: (V3.msOf l).map fun m => V3.tokOf m o) = Spec3.canon3 l s := by
    unfold Spec3.canon3
    rw [V3.metricsOf_eq, (V3.decode_fields h).1, List.map_map]
    congr 2
    apply List.map_congr_left
    intro m hm
    exact V3.tokOf_canon h (msOf_mono3 hl m hm)
  rw [← hcanon]
  cases l
  · unfold V3.encode
    simp only
    rw [show V3.getErrorBase o = none from hge, hb, V3.msOf_base]
  · unfold V3.encode
    simp only
    rw [show V3.getErrorTemporal o = none from hge]
    unfold V3.encodeTemporalStr
    rw [hb, V3.msOf_temporal, List.map_append, ← V3.join_append_flatten]
    simp only [List.map_map, Function.comp_def]
  · unfold V3.encode
    simp only
    rw [show V3.getErrorEnv o = none from hge]
    simp only
    unfold V3.encodeEnvStr V3.encodeTemporalStr
    rw [hb, V3.msOf_env, List.map_append, List.map_append, ← V3.join_append_flatten, ← V3.join_append_flatten]
    simp only [List.map_map, Function.comp_def, List.append_assoc]

/-- scores, severities and validity at level `l` depend only on the version and the fields of
    the metrics of level ≤ `l` -/
theorem queries_congr3 (l : Level) (o o' : V3.Obj3) (hv : o.ver = o'.ver)
    (hf : ∀ m ∈ V3.msOf l, o.field m = o'.field m) :
    V3.score l o = V3.score l o' ∧ V3.severity l o = V3.severity l o' ∧ V3.getError l o = V3.getError l o' := by
  have hb : ∀ m ∈ V3.baseMs, o.field m = o'.field m := fun m hm => hf m (V3.baseMs_sub l m hm)
  have hgb : V3.getErrorBase o = V3.getErrorBase o' := by
    unfold V3.getErrorBase
    rw [hv]
    have : V3.baseMs.any (fun m => o.field m == 0) = V3.baseMs.any (fun m => o'.field m == 0) := by
      apply any_congr
      intro m hm; rw [hb m hm]
    rw [this]
  have hbs : V3.baseScore o = V3.baseScore o' := by
    unfold V3.baseScore
    rw [hgb, hb .AV (by decide), hb .AC (by decide), hb .PR (by decide), hb .UI (by decide), hb .S (by decide),
      hb .C (by decide), hb .I (by decide), hb .A (by decide)]
  cases l
  · exact ⟨hbs, (show V3.severityF (V3.baseScore o) = V3.severityF (V3.baseScore o') by rw [hbs]), hgb⟩
  · have ht : ∀ m ∈ V3.tempMs, o.field m = o'.field m := fun m hm =>
      hf m (by rw [V3.msOf_temporal]; exact List.mem_append_right _ hm)
    have hgt : V3.getErrorTemporal o = V3.getErrorTemporal o' := by
      unfold V3.getErrorTemporal
      rw [hgb]
      have : V3.tempMs.any (fun m => !V3.isValid m (o.field m)) = V3.tempMs.any (fun m => !V3.isValid m (o'.field m)) := by
        apply any_congr
        intro m hm; rw [ht m hm]
      rw [this]
    have hts : V3.temporalScore o = V3.temporalScore o' := by
      unfold V3.temporalScore
      rw [hgt, hbs, ht .E (by decide), ht .RL (by decide), ht .RC (by decide)]
    exact ⟨hts, (show V3.severityF (V3.temporalScore o) = V3.severityF (V3.temporalScore o') by rw [hts]), hgt⟩
  · have hfun : o.field = o'.field := by
      funext m
      exact hf m (V3.mem_msOf (by cases m <;> decide))
    obtain ⟨v, f, n⟩ := o
    obtain ⟨v', f', n'⟩ := o'
    have h1 : v = v' := hv
    have h2 : f = f' := hfun
    subst h1; subst h2
    exact ⟨rfl, rfl, rfl⟩

theorem canon3_congr (l : Level) (s s2 : Bytes) (hl : Spec3.label s2 = Spec3.label s)
    (hk : ∀ ms ∈ Spec3.metricsOf l, Spec3.expectedCode ms s2 = Spec3.expectedCode ms s) :
    Spec3.canon3 l s2 = Spec3.canon3 l s := by
  unfold Spec3.canon3
  rw [hl]
  congr 2
  apply List.map_congr_left
  intro ms hms
  rw [hk ms hms]

/-- **C14 (v3).** For an accepted vector and every level `l` up to the decoder's: an independent
    level-`l` decoder applied to the vector's level-`l` part (its canonical encoding at that level,
    which is what the view's `Encode()` returns) accepts it, and the score, severity and encoding
    obtained through the view equal that decoder's. -/
theorem view3 {l L : Level} {s : Bytes} {o : V3.Obj3} (hl : l.le L = true)
    (h : V3.decode L V3.Obj3.new s = (o, none)) :
    V3.encode l o = (Spec3.canon3 l s, none) ∧
    ∃ ol, V3.decode l V3.Obj3.new (Spec3.canon3 l s) = (ol, none) ∧
      V3.score l ol = V3.score l o ∧ V3.severity l ol = V3.severity l o ∧ V3.encode l ol = V3.encode l o := by
  have henc := view3_encode hl h
  refine ⟨henc, ?_⟩
  -- re-decode at level l: the canonical entries of level l
  have hfields := V3.decode_fields h
  obtain ⟨hd, es, hsplit, hpre, hes, hnd, hbase, ho⟩ := (V3.decode_ok_iff L s o).mp h
  have hver : o.ver = 1 ∨ o.ver = 2 := by rw [ho, V3.run_ver]; exact V3.start_ver_cases hd hpre
  obtain ⟨hp1, hp2, hp3⟩ := V3.prefix_of_ver o.ver hver
  have hce : ∀ e ∈ V3.canonEnts l o, e ∈ V3.vocab l := by
    intro e he
    obtain ⟨m, hm, rfl⟩ := List.mem_map.mp he
    refine V3.mem_vocab.mpr ⟨hm, ?_⟩
    have := hfields.2 m (msOf_mono3 hl m hm)
    simp only
    rw [V3.str_value this]; exact this
  have hstr : Spec3.canon3 l s = join slash ((b!"CVSS:" ++ V3.verStr o.ver) :: (V3.canonEnts l o).map V3.Ent.tok) := by
    unfold Spec3.canon3
    rw [V3.metricsOf_eq, hfields.1, List.map_map]
    simp only [V3.canonEnts, List.map_map]
    congr 2
    apply List.map_congr_left
    intro m hm
    have := V3.tokOf_canon h (msOf_mono3 hl m hm)
    simp only [Function.comp_def, V3.Ent.tok]
    rw [← this]; simp [V3.tokOf]
  have hsp : split slash (Spec3.canon3 l s) = (b!"CVSS:" ++ V3.verStr o.ver) :: (V3.canonEnts l o).map V3.Ent.tok := by
    rw [hstr]
    unfold split join
    apply List.splitOn_intercalate
    · intro x hx
      rcases List.mem_cons.mp hx with rfl | hx
      · exact hp2
      · obtain ⟨e, he, rfl⟩ := List.mem_map.mp hx
        exact V3.slash_not_mem_tok (hce e he)
    · simp
  have hnd2 : ((V3.canonEnts l o).map (·.m)).Nodup := by
    simp only [V3.canonEnts, List.map_map, Function.comp_def, List.map_id']
    exact V3.msOf_nodup l
  have hbase2 : ∀ m ∈ V3.baseMs, ∃ e ∈ V3.canonEnts l o, e.m = m := by
    intro m hm
    exact ⟨⟨m, o.field m, m.spec.str (o.field m)⟩, List.mem_map.mpr ⟨m, V3.baseMs_sub l m hm, rfl⟩, rfl⟩
  have hdec := (V3.decode_ok_iff l (Spec3.canon3 l s) _).mpr ⟨_, V3.canonEnts l o, hsp, hp1, hce, hnd2, hbase2, rfl⟩
  refine ⟨_, hdec, ?_⟩
  have hv2 : (V3.runEnts (V3.start (b!"CVSS:" ++ V3.verStr o.ver)) (V3.canonEnts l o)).ver = o.ver := by
    rw [V3.run_ver]; unfold V3.start; simp only [hp3]; exact V3.verGet_verStr _ hver
  have hf2 : ∀ m ∈ V3.msOf l, (V3.runEnts (V3.start (b!"CVSS:" ++ V3.verStr o.ver)) (V3.canonEnts l o)).field m = o.field m := by
    intro m hm
    rw [V3.run_field _ _ hnd2]
    have : (V3.canonEnts l o).find? (fun e => decide (e.m = m)) = some ⟨m, o.field m, m.spec.str (o.field m)⟩ := by
      apply V3.find?_unique (List.mem_map.mpr ⟨m, hm, rfl⟩) (by simp)
      intro x hx hxm
      obtain ⟨m', _, rfl⟩ := List.mem_map.mp hx
      have : m' = m := by simpa using hxm
      subst this; rfl
    rw [this]
  obtain ⟨q1, q2, _⟩ := queries_congr3 l _ o hv2 hf2
  refine ⟨q1, q2, ?_⟩
  -- the re-decoded object's encoding is the canonical vector of its own input, which is canon3 l s again
  rw [henc]
  have := V3.encode_canonical hdec
  rw [this]
  congr 1
  -- canon3 l (canon3 l s) = canon3 l s : same label, same expected codes
  have hf3 := V3.decode_fields hdec
  apply canon3_congr
  · have h1 := hf3.1
    rw [hv2, hfields.1] at h1
    exact h1.symm
  · intro ms hms
    rw [V3.metricsOf_eq] at hms
    obtain ⟨m, hm, rfl⟩ := List.mem_map.mp hms
    have a := hf3.2 m hm
    have b := hfields.2 m (msOf_mono3 hl m hm)
    rw [hf2 m hm] at a
    have := V3.nodup_map_inj (V3.values_nodup m) a b rfl
    exact congrArg Prod.snd this

end CvssVerif.Props.C14

namespace CvssVerif.Props.C14
open CvssVerif

/-! ### v2 -/

/-- scores, severities, validity and encoding of a v2 object at level `l` depend only on the
    fields and recorded names of the metrics of level ≤ `l` -/
theorem queries_congr2 (l : Level) (o o' : V2.Obj2)
    (hf : ∀ m ∈ V2.msOf l, o.field m = o'.field m ∧ o.named m = o'.named m) :
    V2.score l o = V2.score l o' ∧ V2.getError l o = V2.getError l o' ∧ V2.encodeStr l o = V2.encodeStr l o' := by
  have hsub : ∀ m ∈ V2.baseMs, m ∈ V2.msOf l := by cases l <;> decide
  have hb : ∀ m ∈ V2.baseMs, o.field m = o'.field m ∧ o.named m = o'.named m := fun m hm => hf m (hsub m hm)
  have hgb : V2.getErrorBase o = V2.getErrorBase o' := by
    unfold V2.getErrorBase
    rw [any_congr (fun m hm => by rw [(hb m hm).1])]
  have hbs : V2.baseScore o = V2.baseScore o' := by
    unfold V2.baseScore
    rw [hgb, (hb .AV (by decide)).1, (hb .AC (by decide)).1, (hb .Au (by decide)).1, (hb .C (by decide)).1,
      (hb .I (by decide)).1, (hb .A (by decide)).1]
  have heb : V2.encodeBaseStr o = V2.encodeBaseStr o' := by
    unfold V2.encodeBaseStr
    have hfl : V2.baseMs.filter o.named = V2.baseMs.filter o'.named :=
      List.filter_congr (fun m hm => (hb m hm).2)
    rw [hfl]
    congr 1
    apply List.map_congr_left
    intro m hm
    have := (List.mem_filter.mp hm).1
    unfold V2.tokOf; rw [(hb m this).1]
  cases l
  · exact ⟨hbs, hgb, heb⟩
  · have ht : ∀ m ∈ V2.tempMs, o.field m = o'.field m ∧ o.named m = o'.named m := fun m hm =>
      hf m (by revert hm; cases m <;> decide)
    have hte : V2.tempEmpty o = V2.tempEmpty o' := by
      unfold V2.tempEmpty; rw [any_congr (fun m hm => (ht m hm).2)]
    have hgt : V2.getErrorTemporal o = V2.getErrorTemporal o' := by
      unfold V2.getErrorTemporal
      rw [hgb, hte, any_congr (fun m hm => by rw [(ht m hm).1])]
    have hts : V2.temporalScore o = V2.temporalScore o' := by
      unfold V2.temporalScore
      rw [hgt, hbs, hte, (ht .E (by decide)).1, (ht .RL (by decide)).1, (ht .RC (by decide)).1]
    have het : V2.encodeTemporalStr o = V2.encodeTemporalStr o' := by
      unfold V2.encodeTemporalStr
      rw [heb]
      have hfl : V2.tempMs.filter o.named = V2.tempMs.filter o'.named :=
        List.filter_congr (fun m hm => (ht m hm).2)
      rw [hfl]
      congr 2
      apply List.map_congr_left
      intro m hm
      have := (List.mem_filter.mp hm).1
      unfold V2.tokOf; rw [(ht m this).1]
    exact ⟨hts, hgt, het⟩
  · have hfun : o.field = o'.field := by
      funext m; exact (hf m (V2.mem_msOf (by cases m <;> decide))).1
    have hnun : o.named = o'.named := by
      funext m; exact (hf m (V2.mem_msOf (by cases m <;> decide))).2
    obtain ⟨f, n⟩ := o
    obtain ⟨f', n'⟩ := o'
    have h1 : f = f' := hfun
    have h2 : n = n' := hnun
    subst h1; subst h2
    exact ⟨rfl, rfl, rfl⟩

/-- **C14 (v2).** For an accepted vector and every level `l` up to the decoder's: the encoding
    obtained through the level-`l` view is accepted by an independent level-`l` decoder, and the
    score, validity and encoding obtained through the view equal that decoder's. -/
theorem view2 {l L : Level} {s : Bytes} {o : V2.Obj2} (hl : l.le L = true)
    (h : V2.decode L V2.Obj2.new s = (o, none)) :
    ∃ ol, V2.decode l V2.Obj2.new (V2.encodeStr l o) = (ol, none) ∧
      V2.score l ol = V2.score l o ∧ V2.encode l ol = V2.encode l o := by
  obtain ⟨t, e, es, ht, he, hm, hcodes, hsplit, rfl⟩ := (V2.decode_ok_iff L s o).mp h
  -- the pattern visible at level l
  let t' : Bool := t && Level.temporal.le l
  let e' : Bool := e && Level.environmental.le l
  let es' : List V2.Ent := es.filter fun x => decide (x.m ∈ V2.groups t' e')
  have hes : ∀ x ∈ es, x ∈ V2.vocab L := by
    intro x hx
    refine V2.mem_vocab.mpr ⟨V2.groups_sub L t e ht he _ ?_, hcodes x hx⟩
    rw [← hm]; exact List.mem_map.mpr ⟨x, hx, rfl⟩
  have hnd : (es.map (·.m)).Nodup := by rw [hm]; exact V2.groups_nodup t e
  have hm' : es'.map (·.m) = V2.groups t' e' := by
    have : es'.map (·.m) = (es.map (·.m)).filter (fun m => decide (m ∈ V2.groups t' e')) := by
      simp only [es', List.filter_map, Function.comp_def]
    rw [this, hm]
    cases t <;> cases e <;> cases l <;> decide
  have ht' : t' = true → Level.temporal.le l = true := by
    intro h1; simp only [t', Bool.and_eq_true] at h1; exact h1.2
  have he' : e' = true → Level.environmental.le l = true := by
    intro h1; simp only [e', Bool.and_eq_true] at h1; exact h1.2
  have hcodes' : ∀ x ∈ es', (x.x, x.c) ∈ x.m.spec.codes := fun x hx => hcodes x (List.mem_filter.mp hx).1
  have hes' : ∀ x ∈ es', x ∈ V2.vocab l := by
    intro x hx
    refine V2.mem_vocab.mpr ⟨V2.groups_sub l t' e' ht' he' _ ?_, hcodes' x hx⟩
    rw [← hm']; exact List.mem_map.mpr ⟨x, hx, rfl⟩
  have hnd' : (es'.map (·.m)).Nodup := by rw [hm']; exact V2.groups_nodup t' e'
  -- the two objects agree on the metrics of level ≤ l
  have hagree : ∀ m ∈ V2.msOf l, (V2.runEnts V2.Obj2.new es').field m = (V2.runEnts V2.Obj2.new es).field m ∧
      (V2.runEnts V2.Obj2.new es').named m = (V2.runEnts V2.Obj2.new es).named m := by
    intro m hml
    have hmem : m ∈ es'.map (·.m) ↔ m ∈ es.map (·.m) := by
      rw [hm', hm]
      revert hml
      cases t <;> cases e <;> cases l <;> cases m <;> decide
    constructor
    · by_cases hin : m ∈ es.map (·.m)
      · obtain ⟨x, hx, rfl⟩ := List.mem_map.mp hin
        have hx' : x ∈ es' := by
          obtain ⟨y, hy, hym⟩ := List.mem_map.mp (hmem.mpr hin)
          have : y = x := V2.nodup_map_inj hnd (List.mem_filter.mp hy).1 hx hym
          rw [← this]; exact hy
        rw [(V2.run_new_field es' hes' hnd' x.m).2 x hx' rfl, (V2.run_new_field es hes hnd x.m).2 x hx rfl]
      · have h1 : (V2.runEnts V2.Obj2.new es).field m = 0 := by
          cases hz : decide ((V2.runEnts V2.Obj2.new es).field m = 0)
          · exact absurd ((V2.run_new_field es hes hnd m).1.mp (of_decide_eq_false hz)) hin
          · exact of_decide_eq_true hz
        have h2 : (V2.runEnts V2.Obj2.new es').field m = 0 := by
          cases hz : decide ((V2.runEnts V2.Obj2.new es').field m = 0)
          · exact absurd (hmem.mp ((V2.run_new_field es' hes' hnd' m).1.mp (of_decide_eq_false hz))) hin
          · exact of_decide_eq_true hz
        rw [h1, h2]
    · rw [V2.run_new_named, V2.run_new_named]
      exact decide_eq_decide.mpr hmem
  obtain ⟨q1, q2, q3⟩ := queries_congr2 l _ _ hagree
  -- the view's encoding is the token list of es'
  have hpat' := V2.hasPattern_run es' t' e' hm'
  have hstr : V2.encodeStr l (V2.runEnts V2.Obj2.new es) = join slash (es'.map V2.Ent.tok) := by
    rw [← q3, V2.encodeStr_pattern hpat' ht' he', ← hm', List.map_map]
    congr 1
    apply List.map_congr_left
    intro x hx
    exact V2.tokOf_run es' hes' hnd' x hx
  have hsp : split slash (V2.encodeStr l (V2.runEnts V2.Obj2.new es)) = es'.map V2.Ent.tok := by
    rw [hstr]
    unfold split join
    apply List.splitOn_intercalate
    · intro x hx
      obtain ⟨y, hy, rfl⟩ := List.mem_map.mp hx
      exact V2.slash_not_mem_tok (hes' y hy)
    · intro hnil
      have : es'.map (·.m) = [] := by
        have := congrArg List.length hnil
        simp only [List.length_map, List.length_nil] at this
        simp [List.eq_nil_of_length_eq_zero this]
      rw [hm'] at this
      revert this
      cases t' <;> cases e' <;> decide
  have hdec := (V2.decode_ok_iff l _ _).mpr ⟨t', e', es', ht', he', hm', hcodes', hsp, rfl⟩
  refine ⟨_, hdec, q1, ?_⟩
  unfold V2.encode
  rw [q2, q3]

end CvssVerif.Props.C14
