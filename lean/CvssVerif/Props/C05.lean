import CvssVerif.Props.C04
/-
  C05 — CVSS v2 environmental score equals the FIRST v2 environmental equations.

  As for C04 the unchanged tree violates the full statement on the adjusted-base stage for
  1,194 of the 46,656 (base, CR, IR, AR) tuples (known finding F2, same cause as F1), so:
    * `env2_partial`       — the full chain of the property on every vector whose tuple is not listed;
    * `env2_known_violate` — each listed tuple really is off at the adjusted-base stage;
    * `env2_absent`        — without the environmental group the score is the temporal score;
  the later stages (temporal on the adjusted base, CDP/TD combination) hold on the whole grid.
-/
namespace CvssVerif.Props.C05
open CvssVerif Spec2 V2 P2 F64

/-- the model's environmental score on specification vectors (`none`: group absent) -/
def modelEnv (v : BaseVec) (t : Option TempVec) (n : Option EnvVec) : Nat :=
  match n with
  | none => C04.modelTemporal v t
  | some n =>
    let at' := match t with
      | none => modelAdjBase v n
      | some t => temporalOf (modelAdjBase v n) (iE t.e) (iRL t.rl) (iRC t.rc)
    roundTo1 (mul (add at' (mul (sub ten at') (value .CDP (iCDP n.cdp)))) (value .TD (iTD n.td)))

/-- When the environmental group is absent the environmental score is the temporal score. -/
theorem env2_absent (v : BaseVec) (t : Option TempVec) : modelEnv v t none = C04.modelTemporal v t := rfl

/-- The environmental stage on the whole grid: `roundTo1Decimal((AT + (10−AT)·CDP)·TD)` is a
    tenth that is a rounding of the exact value; 0 when Target Distribution is None (C13). -/
theorem env2_grid (f : Nat) (k : Int) (hf : isTenth f k = true) (h1 : -20 ≤ k) (h2 : k ≤ 100)
    (n : EnvVec) :
    ∃ r : Int, isTenth (roundTo1 (mul (add f (mul (sub ten f) (value .CDP (iCDP n.cdp)))) (value .TD (iTD n.td)))) r = true ∧
      isRound1 (envRaw k n) r = true ∧ -20 ≤ r ∧ r ≤ 100 ∧ (n.td = .N → r = 0) ∧ (0 ≤ k → 0 ≤ r) := by
  obtain ⟨j, hj, hin, hk⟩ := grid_of_isTenth hf h1 h2
  obtain ⟨r, r1, r2, r3, r4, r5, r6⟩ := env_of_chk2 (Gen.Env2.all j hj) n
  rw [hin, hk] at *
  exact ⟨r, r1, r2, r3, r4, r5, r6⟩

/-- The property's chain on every vector with an environmental group whose (base, CR, IR, AR)
    tuple is not one of known finding F2: there are admissible roundings `kb` of the adjusted base
    equation (0 allowed where that equation is negative) and `kt` of the temporal equation on it
    such that the score is a rounding of `(kt + (10 − kt)·CDP)·TD`; it lies on the tenth grid up
    to 10.0, is non-negative unless the specification's own adjusted base equation is negative
    (C06), and is 0 when TD is None (C13). -/
theorem env2_partial (v : BaseVec) (t : Option TempVec) (n : EnvVec)
    (hk : (v.av, v.ac, v.au) ∉ knownAdj2 v.c v.i v.a n.cr n.ir n.ar) :
    ∃ kb kt ke : Int, isTenth (modelEnv v t (some n)) ke = true ∧
      okAdjBase v n kb = true ∧ okTemporal kb t kt = true ∧ isRound1 (envRaw kt n) ke = true ∧
      -20 ≤ ke ∧ ke ≤ 100 ∧ (n.td = .N → ke = 0) ∧ (ke < 0 → adjustedBaseRaw v n < 0) := by
  obtain ⟨av, ac, au, c, i, a⟩ := v
  obtain ⟨kb, b1, b2, b3, b4, b5⟩ := adj_of_chk2 c i a n.cr n.ir n.ar av ac au n rfl rfl rfl
  have hok := b4.mpr hk
  cases t with
  | none =>
    obtain ⟨r, r1, r2, r3, r4, r5, r6⟩ := env2_grid _ kb b1 b2 b3 n
    refine ⟨kb, kb, r, r1, hok, by simp [okTemporal], r2, r3, r4, r5, ?_⟩
    intro hr
    apply b5
    by_cases h0 : 0 ≤ kb
    · have := r6 h0; omega
    · omega
  | some t =>
    obtain ⟨kt, t1, t2, t3, t4, t5, _⟩ := C04.temporal2_grid _ kb b1 b2 b3 t
    obtain ⟨r, r1, r2, r3, r4, r5, r6⟩ := env2_grid _ kt t1 t3 t4 n
    refine ⟨kb, kt, r, r1, hok, t2, r2, r3, r4, r5, ?_⟩
    intro hr
    apply b5
    by_cases h0 : 0 ≤ kb
    · have h1 := (t5 h0).2
      have := r6 h1; omega
    · omega

/-- Each listed tuple is a genuine violation at the adjusted-base stage: the tenth the model
    computes there is neither a rounding of the specification's adjusted base equation nor the
    0 allowed for a negative equation. -/
theorem env2_known_violate (v : BaseVec) (n : EnvVec)
    (hk : (v.av, v.ac, v.au) ∈ knownAdj2 v.c v.i v.a n.cr n.ir n.ar) :
    ∃ kb : Int, isTenth (modelAdjBase v n) kb = true ∧ okAdjBase v n kb = false := by
  obtain ⟨av, ac, au, c, i, a⟩ := v
  obtain ⟨kb, b1, _, _, b4, _⟩ := adj_of_chk2 c i a n.cr n.ir n.ar av ac au n rfl rfl rfl
  refine ⟨kb, b1, ?_⟩
  cases hok : okAdjBase ⟨av, ac, au, c, i, a⟩ n kb
  · rfl
  · exact absurd hk (b4.mp hok)

/-- the full statement is false: a concrete witness
    (AV:A/AC:L/Au:N/C:N/I:P/A:C with CR:ND/IR:ND/AR:L) -/
theorem env2_violated : ∃ (v : BaseVec) (n : EnvVec) (kb : Int),
    isTenth (modelAdjBase v n) kb = true ∧ okAdjBase v n kb = false :=
  let ⟨kb, h⟩ := env2_known_violate ⟨.A, .L, .N, .N, .P, .C⟩ ⟨.ND, .ND, .ND, .ND, .L⟩ (by decide)
  ⟨_, _, kb, h⟩

/-- non-vacuity of `env2_partial` -/
example : ((.N, .L, .N) : Spec2.AV × Spec2.AC × Spec2.Au) ∉ knownAdj2 .N .N .C .M .M .H := by decide

end CvssVerif.Props.C05
