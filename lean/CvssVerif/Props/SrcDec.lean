import CvssVerif.Proofs.Decoders
import CvssVerif.Props.SrcTab
import CvssVerif.Proofs.Agree3
import CvssVerif.Props.C07
import CvssVerif.Props.C08
import CvssVerif.Props.C10
import CvssVerif.Props.C11
import CvssVerif.Props.C09
/-
  The tie by translation of the decoders, encoders and validity checks: what `Generated/Decoders.lean` (rewritten from
  the source text of /repo/v3/metric and /repo/v2/metric on every run by go/decoders) computes is what the model
  computes — for every object and every byte string.  In the translation `none` stands for a run-time panic (index or
  slice out of range, use of the nil receiver), so every equality `… = some (…)` also says that the source does not
  panic there.

  Not imported by the property modules: a source that is no longer provably the model must not stop them from building;
  `check.py` rebuilds this module for C07–C12 and C14 and reports per function.
-/
namespace CvssVerif.Props.SrcDec
open CvssVerif CvssVerif.DecoderTie

/-- v3: each of the translated functions of the three Go types is the model's, on every object and every string -/
theorem v3_functions_are_source :
    (∀ s, Gen.D3.GetVersion s = some (match V3.getVersion s with | .ok v => (v, none) | .error e => (0, some e))) ∧
    (∀ o, Gen.D3.Base_GetError o = some (o, V3.getErrorBase o)) ∧ (∀ o, Gen.D3.Temporal_GetError o = some (o, V3.getErrorTemporal o)) ∧
    (∀ o, Gen.D3.Environmental_GetError o = some (o, V3.getErrorEnv o)) ∧
    (∀ o, Gen.D3.Base_Encode o = some (o, V3.encode .base o)) ∧ (∀ o, Gen.D3.Temporal_Encode o = some (o, V3.encode .temporal o)) ∧
    (∀ o, Gen.D3.Environmental_Encode o = some (o, V3.encode .environmental o)) ∧
    (∀ o t, Gen.D3.Base_decodeOne o t = some (V3.decodeOneLit .base o t)) ∧
    (∀ o t, Gen.D3.Temporal_decodeOne o t = some (V3.decodeOneLit .temporal o t)) ∧
    (∀ o t, Gen.D3.Environmental_decodeOne o t = some (V3.decodeOneLit .environmental o t)) ∧
    (∀ o v, Gen.D3.Base_Decode o v = some ((V3.decode .base o v).1, ((V3.decode .base o v).2.isNone, (V3.decode .base o v).2))) ∧
    (∀ o v, Gen.D3.Temporal_Decode o v = some ((V3.decode .temporal o v).1, ((V3.decode .temporal o v).2.isNone, (V3.decode .temporal o v).2))) ∧
    (∀ o v, Gen.D3.Environmental_Decode o v =
      some ((V3.decode .environmental o v).1, ((V3.decode .environmental o v).2.isNone, (V3.decode .environmental o v).2))) :=
  ⟨GetVersion_3, Base_GetError_3, Temporal_GetError_3, Environmental_GetError_3, Base_Encode_3, Temporal_Encode_3,
   Environmental_Encode_3, Base_decodeOne_3, Temporal_decodeOne_3, Environmental_decodeOne_3, Base_Decode_3, Temporal_Decode_3,
   Environmental_Decode_3⟩

/-- v2 likewise (the decoders re-encode the object and compare it with the input) -/
theorem v2_functions_are_source :
    (∀ o, Gen.D2.Base_GetError o = some (o, V2.getErrorBase o)) ∧ (∀ o, Gen.D2.Temporal_GetError o = some (o, V2.getErrorTemporal o)) ∧
    (∀ o, Gen.D2.Environmental_GetError o = some (o, V2.getErrorEnv o)) ∧
    (∀ o, Gen.D2.Temporal_IsEmpty o = some (o, V2.tempEmpty o)) ∧ (∀ o, Gen.D2.Environmental_IsEmpty o = some (o, V2.envEmpty o)) ∧
    (∀ o, Gen.D2.Base_Encode o = some (o, V2.encode .base o)) ∧ (∀ o, Gen.D2.Temporal_Encode o = some (o, V2.encode .temporal o)) ∧
    (∀ o, Gen.D2.Environmental_Encode o = some (o, V2.encode .environmental o)) ∧
    (∀ o t, Gen.D2.Base_decodeOne o t = some (V2.decodeOneLit .base o t)) ∧
    (∀ o t, Gen.D2.Temporal_decodeOne o t = some (V2.decodeOneLit .temporal o t)) ∧
    (∀ o t, Gen.D2.Environmental_decodeOne o t = some (V2.decodeOneLit .environmental o t)) ∧
    (∀ o v, Gen.D2.Base_Decode o v = some ((V2.decode .base o v).1, ((V2.decode .base o v).2.isNone, (V2.decode .base o v).2))) ∧
    (∀ o v, Gen.D2.Temporal_Decode o v = some ((V2.decode .temporal o v).1, ((V2.decode .temporal o v).2.isNone, (V2.decode .temporal o v).2))) ∧
    (∀ o v, Gen.D2.Environmental_Decode o v =
      some ((V2.decode .environmental o v).1, ((V2.decode .environmental o v).2.isNone, (V2.decode .environmental o v).2))) :=
  ⟨Base_GetError_2, Temporal_GetError_2, Environmental_GetError_2, fun o => (IsEmpty_2 o).1, fun o => (IsEmpty_2 o).2,
   Base_Encode_2, Temporal_Encode_2, Environmental_Encode_2, Base_decodeOne_2, Temporal_decodeOne_2, Environmental_decodeOne_2,
   Base_Decode_2, Temporal_Decode_2, Environmental_Decode_2⟩

/-- the constructors of the source build the model's fresh objects (v3: on the fields of their own level and below) -/
theorem constructors_are_source :
    (Gen.D3.NewEnvironmental.ver = V3.Obj3.new.ver ∧ (∀ m, Gen.D3.NewEnvironmental.field m = V3.Obj3.new.field m) ∧
      (∀ m, Gen.D3.NewEnvironmental.named m = V3.Obj3.new.named m)) ∧
    (∀ m ∈ V3.baseMs ++ V3.tempMs, Gen.D3.NewTemporal.field m = V3.Obj3.new.field m) ∧
    (∀ m ∈ V3.baseMs, Gen.D3.NewBase.field m = V3.Obj3.new.field m) ∧
    (∀ m, Gen.D2.NewEnvironmental.field m = V2.Obj2.new.field m) ∧ (∀ m, Gen.D2.NewTemporal.field m = V2.Obj2.new.field m) ∧
    (∀ m, Gen.D2.NewBase.field m = V2.Obj2.new.field m) :=
  ⟨⟨constructors_3.1, constructors_3.2.1, constructors_3.2.2.1⟩, constructors_3.2.2.2.2.1, constructors_3.2.2.2.2.2.2.2.1,
   constructors_2.1, constructors_2.2.2.1, constructors_2.2.2.2.2.1⟩

/-- nil receivers: what the nil guards of the source return is what the model's `…N` functions return; `Decode` on a nil
    receiver decodes into the object its constructor builds -/
theorem nil_receivers_are_source :
    (Gen.D3.Base_GetError_nil = some (none, V3.getErrorN .base none) ∧ Gen.D3.Temporal_GetError_nil = some (none, V3.getErrorN .temporal none) ∧
      Gen.D3.Environmental_GetError_nil = some (none, V3.getErrorN .environmental none) ∧
      Gen.D3.Base_Encode_nil = some (none, V3.encodeN .base none) ∧ Gen.D3.Temporal_Encode_nil = some (none, V3.encodeN .temporal none) ∧
      Gen.D3.Environmental_Encode_nil = some (none, V3.encodeN .environmental none)) ∧
    (Gen.D2.Base_GetError_nil = some (none, V2.getErrorN .base none) ∧ Gen.D2.Temporal_GetError_nil = some (none, V2.getErrorN .temporal none) ∧
      Gen.D2.Environmental_GetError_nil = some (none, V2.getErrorN .environmental none) ∧
      Gen.D2.Base_Encode_nil = some (none, V2.encodeN .base none) ∧ Gen.D2.Temporal_Encode_nil = some (none, V2.encodeN .temporal none) ∧
      Gen.D2.Environmental_Encode_nil = some (none, V2.encodeN .environmental none)) ∧
    (∀ v, Gen.D3.Environmental_Decode_nil v = some (some (V3.decode .environmental Gen.D3.NewEnvironmental v).1,
      ((V3.decode .environmental Gen.D3.NewEnvironmental v).2.isNone, (V3.decode .environmental Gen.D3.NewEnvironmental v).2))) ∧
    (∀ v, Gen.D2.Environmental_Decode_nil v = some (some (V2.decode .environmental Gen.D2.NewEnvironmental v).1,
      ((V2.decode .environmental Gen.D2.NewEnvironmental v).2.isNone, (V2.decode .environmental Gen.D2.NewEnvironmental v).2))) :=
  ⟨⟨nil_receivers_3.1, nil_receivers_3.2.1, nil_receivers_3.2.2.1, nil_receivers_3.2.2.2.1, nil_receivers_3.2.2.2.2.1, nil_receivers_3.2.2.2.2.2.1⟩,
   ⟨nil_receivers_2.1, nil_receivers_2.2.1, nil_receivers_2.2.2.1, nil_receivers_2.2.2.2.1, nil_receivers_2.2.2.2.2.1, nil_receivers_2.2.2.2.2.2.1⟩,
   Environmental_Decode_nil_3, Environmental_Decode_nil_2⟩

/-- the accessors `BaseMetrics()` / `TemporalMetrics()` of the source: a view of the receiver itself for a non-nil receiver, nil — and
    no dereference — for the nil receiver (C12 lists them among the operations that must not panic; C14 is about what they return) -/
theorem accessors_are_source (o3 : V3.Obj3) (o2 : V2.Obj2) :
    (Gen.D3.Base_BaseMetrics o3 = some (o3, true) ∧ Gen.D3.Temporal_BaseMetrics o3 = some (o3, true) ∧
      Gen.D3.Environmental_BaseMetrics o3 = some (o3, true) ∧ Gen.D3.Environmental_TemporalMetrics o3 = some (o3, true) ∧
      Gen.D3.Base_BaseMetrics_nil = some (none, false) ∧ Gen.D3.Temporal_BaseMetrics_nil = some (none, false) ∧
      Gen.D3.Environmental_BaseMetrics_nil = some (none, false) ∧ Gen.D3.Environmental_TemporalMetrics_nil = some (none, false)) ∧
    (Gen.D2.Temporal_BaseMetrics o2 = some (o2, true) ∧ Gen.D2.Environmental_BaseMetrics o2 = some (o2, true) ∧
      Gen.D2.Environmental_TemporalMetrics o2 = some (o2, true) ∧
      Gen.D2.Temporal_BaseMetrics_nil = some (none, false) ∧ Gen.D2.Environmental_BaseMetrics_nil = some (none, false) ∧
      Gen.D2.Environmental_TemporalMetrics_nil = some (none, false)) :=
  ⟨accessors_3 o3, accessors_2 o2⟩

/-- C12 at these sites, from the source text: no index or slice expression of the decoders, encoders and validity checks
    can panic, whatever the object and the input -/
theorem no_index_panic (o3 : V3.Obj3) (o2 : V2.Obj2) (s : Bytes) :
    (Gen.D3.Base_Decode o3 s).isSome ∧ (Gen.D3.Temporal_Decode o3 s).isSome ∧ (Gen.D3.Environmental_Decode o3 s).isSome ∧
    (Gen.D3.Base_Encode o3).isSome ∧ (Gen.D3.Temporal_Encode o3).isSome ∧ (Gen.D3.Environmental_Encode o3).isSome ∧
    (Gen.D2.Base_Decode o2 s).isSome ∧ (Gen.D2.Temporal_Decode o2 s).isSome ∧ (Gen.D2.Environmental_Decode o2 s).isSome ∧
    (Gen.D2.Base_Encode o2).isSome ∧ (Gen.D2.Temporal_Encode o2).isSome ∧ (Gen.D2.Environmental_Encode o2).isSome ∧
    (Gen.D3.GetVersion s).isSome := by
  simp [Base_Decode_3, Temporal_Decode_3, Environmental_Decode_3, Base_Encode_3, Temporal_Encode_3, Environmental_Encode_3,
    Base_Decode_2, Temporal_Decode_2, Environmental_Decode_2, Base_Encode_2, Temporal_Encode_2, Environmental_Encode_2, GetVersion_3]

theorem newEnv3_eq : Gen.D3.NewEnvironmental = V3.Obj3.new := by
  have h := constructors_3
  show (⟨Gen.D3.NewEnvironmental.ver, Gen.D3.NewEnvironmental.field, Gen.D3.NewEnvironmental.named⟩ : V3.Obj3) = ⟨_, _, _⟩
  congr 1 <;> first | exact funext h.2.1 | exact funext h.2.2.1 | rfl

theorem new2_eq : Gen.D2.NewEnvironmental = V2.Obj2.new ∧ Gen.D2.NewTemporal = V2.Obj2.new ∧ Gen.D2.NewBase = V2.Obj2.new := by
  have h := constructors_2
  refine ⟨?_, ?_, ?_⟩
  · show (⟨Gen.D2.NewEnvironmental.field, Gen.D2.NewEnvironmental.named⟩ : V2.Obj2) = ⟨_, _⟩
    congr 1 <;> first | exact funext h.1 | exact funext h.2.1
  · show (⟨Gen.D2.NewTemporal.field, Gen.D2.NewTemporal.named⟩ : V2.Obj2) = ⟨_, _⟩
    congr 1 <;> first | exact funext h.2.2.1 | exact funext h.2.2.2.1
  · show (⟨Gen.D2.NewBase.field, Gen.D2.NewBase.named⟩ : V2.Obj2) = ⟨_, _⟩
    congr 1 <;> first | exact funext h.2.2.2.2.1 | exact funext h.2.2.2.2.2

/-- **C07 carried to the source text** (environmental decoder): the translated `NewEnvironmental().Decode(s)` returns the
    object and no error exactly for the well-formed v3 vectors, and never panics -/
theorem v3_env_accepts_iff_source (s : Bytes) :
    (∃ o, Gen.D3.Environmental_Decode Gen.D3.NewEnvironmental s = some (o, (true, none))) ↔ Spec3.wf3 .environmental s = true := by
  rw [Environmental_Decode_3, newEnv3_eq, ← C07.accept3_iff]
  constructor
  · rintro ⟨o, h⟩
    have := congrArg (fun r => r.map (fun x => x.2.2)) h
    simpa using this
  · intro h
    exact ⟨(V3.decode Level.environmental V3.Obj3.new s).1, by simp [h]⟩

/-- the objects the v3 constructors of the source build agree with the model's fresh object on everything their level reads -/
theorem constructors_agree :
    V3.AgreeOn .base Gen.D3.NewBase V3.Obj3.new ∧ V3.AgreeOn .temporal Gen.D3.NewTemporal V3.Obj3.new := by
  have h := constructors_3
  refine ⟨⟨h.2.2.2.2.2.2.1, fun m hm => ⟨h.2.2.2.2.2.2.2.1 m (by rw [← V3.msOf_base]; exact hm), h.2.2.2.2.2.2.2.2 m⟩⟩,
          ⟨h.2.2.2.1, fun m hm => ⟨h.2.2.2.2.1 m (by rw [← V3.msOf_temporal]; exact hm), h.2.2.2.2.2.1 m⟩⟩⟩

/-- **C07 carried to the source text, all three decoders**: the translated `NewX().Decode(s)` returns the object and no error
    exactly for the well-formed v3 vectors of its level, and never panics -/
theorem v3_accepts_iff_source (s : Bytes) :
    ((∃ o, Gen.D3.Base_Decode Gen.D3.NewBase s = some (o, (true, none))) ↔ Spec3.wf3 .base s = true) ∧
    ((∃ o, Gen.D3.Temporal_Decode Gen.D3.NewTemporal s = some (o, (true, none))) ↔ Spec3.wf3 .temporal s = true) ∧
    ((∃ o, Gen.D3.Environmental_Decode Gen.D3.NewEnvironmental s = some (o, (true, none))) ↔ Spec3.wf3 .environmental s = true) := by
  refine ⟨?_, ?_, v3_env_accepts_iff_source s⟩
  · rw [Base_Decode_3, ← C07.accept3_iff, ← V3.decode_agree constructors_agree.1 s]
    constructor
    · rintro ⟨o, h⟩
      have := congrArg (fun r => r.map (fun x => x.2.2)) h
      simpa using this
    · intro h
      exact ⟨_, by simp only [h]; rfl⟩
  · rw [Temporal_Decode_3, ← C07.accept3_iff, ← V3.decode_agree constructors_agree.2 s]
    constructor
    · rintro ⟨o, h⟩
      have := congrArg (fun r => r.map (fun x => x.2.2)) h
      simpa using this
    · intro h
      exact ⟨_, by simp only [h]; rfl⟩

/-- **C08 carried to the source text** (all three v2 decoders) -/
theorem v2_accepts_iff_source (s : Bytes) :
    ((∃ o, Gen.D2.Base_Decode Gen.D2.NewBase s = some (o, (true, none))) ↔ Spec2.canon2 .base s = true) ∧
    ((∃ o, Gen.D2.Temporal_Decode Gen.D2.NewTemporal s = some (o, (true, none))) ↔ Spec2.canon2 .temporal s = true) ∧
    ((∃ o, Gen.D2.Environmental_Decode Gen.D2.NewEnvironmental s = some (o, (true, none))) ↔ Spec2.canon2 .environmental s = true) := by
  rw [Base_Decode_2, Temporal_Decode_2, Environmental_Decode_2, new2_eq.1, new2_eq.2.1, new2_eq.2.2,
    ← C08.accept2_iff, ← C08.accept2_iff, ← C08.accept2_iff]
  refine ⟨?_, ?_, ?_⟩ <;>
  · constructor
    · rintro ⟨o, h⟩
      have := congrArg (fun r => r.map (fun x => x.2.2)) h
      simpa using this
    · intro h
      exact ⟨_, by simp only [h]; rfl⟩

/-- **C11 carried to the source text** (v3, all three decoders): whatever sentinel the translated `NewX().Decode(s)` reports, the
    input has that defect -/
theorem v3_errors_sound_source (s : Bytes) (e : Err) :
    ((∃ o ok, Gen.D3.Base_Decode Gen.D3.NewBase s = some (o, (ok, some e))) → Spec3.defect3 .base e s = true) ∧
    ((∃ o ok, Gen.D3.Temporal_Decode Gen.D3.NewTemporal s = some (o, (ok, some e))) → Spec3.defect3 .temporal e s = true) ∧
    ((∃ o ok, Gen.D3.Environmental_Decode Gen.D3.NewEnvironmental s = some (o, (ok, some e))) → Spec3.defect3 .environmental e s = true) := by
  refine ⟨?_, ?_, ?_⟩
  · rintro ⟨o, ok, h⟩
    rw [Base_Decode_3] at h
    have h2 : (V3.decode .base Gen.D3.NewBase s).2 = some e := by
      have := congrArg (fun r => r.map (fun x => x.2.2)) h; simpa using this
    rw [V3.decode_agree constructors_agree.1 s] at h2
    exact C11.err3_sound .base s (V3.decode .base V3.Obj3.new s).1 e (by rw [← h2])
  · rintro ⟨o, ok, h⟩
    rw [Temporal_Decode_3] at h
    have h2 : (V3.decode .temporal Gen.D3.NewTemporal s).2 = some e := by
      have := congrArg (fun r => r.map (fun x => x.2.2)) h; simpa using this
    rw [V3.decode_agree constructors_agree.2 s] at h2
    exact C11.err3_sound .temporal s (V3.decode .temporal V3.Obj3.new s).1 e (by rw [← h2])
  · rintro ⟨o, ok, h⟩
    rw [Environmental_Decode_3, newEnv3_eq] at h
    have h2 : (V3.decode .environmental V3.Obj3.new s).2 = some e := by
      have := congrArg (fun r => r.map (fun x => x.2.2)) h; simpa using this
    exact C11.err3_sound .environmental s (V3.decode .environmental V3.Obj3.new s).1 e (by rw [← h2])

/-- **C11 carried to the source text** (v2, all three decoders; includes incomplete groups and misordered vectors) -/
theorem v2_errors_sound_source (s : Bytes) (e : Err) :
    ((∃ o ok, Gen.D2.Base_Decode Gen.D2.NewBase s = some (o, (ok, some e))) → Spec2.defect2 .base e s = true) ∧
    ((∃ o ok, Gen.D2.Temporal_Decode Gen.D2.NewTemporal s = some (o, (ok, some e))) → Spec2.defect2 .temporal e s = true) ∧
    ((∃ o ok, Gen.D2.Environmental_Decode Gen.D2.NewEnvironmental s = some (o, (ok, some e))) → Spec2.defect2 .environmental e s = true) := by
  refine ⟨?_, ?_, ?_⟩
  · rintro ⟨o, ok, h⟩
    rw [Base_Decode_2, new2_eq.2.2] at h
    have h2 : (V2.decode .base V2.Obj2.new s).2 = some e := by
      have := congrArg (fun r => r.map (fun x => x.2.2)) h; simpa using this
    exact C11.err2_sound .base s (V2.decode .base V2.Obj2.new s).1 e (by rw [← h2])
  · rintro ⟨o, ok, h⟩
    rw [Temporal_Decode_2, new2_eq.2.1] at h
    have h2 : (V2.decode .temporal V2.Obj2.new s).2 = some e := by
      have := congrArg (fun r => r.map (fun x => x.2.2)) h; simpa using this
    exact C11.err2_sound .temporal s (V2.decode .temporal V2.Obj2.new s).1 e (by rw [← h2])
  · rintro ⟨o, ok, h⟩
    rw [Environmental_Decode_2, new2_eq.1] at h
    have h2 : (V2.decode .environmental V2.Obj2.new s).2 = some e := by
      have := congrArg (fun r => r.map (fun x => x.2.2)) h; simpa using this
    exact C11.err2_sound .environmental s (V2.decode .environmental V2.Obj2.new s).1 e (by rw [← h2])

/-- **C10 carried to the source text** (v2, all three decoders; v3 environmental): for every string the translated decoder accepts,
    the translated `Encode()` of the object it returns succeeds with — v2 — the input itself, byte for byte, resp. — v3 — the
    specification's canonical vector -/
theorem encode_of_accepted_source (s : Bytes) :
    (∀ o, Gen.D2.Base_Decode Gen.D2.NewBase s = some (o, (true, none)) → Gen.D2.Base_Encode o = some (o, (s, none))) ∧
    (∀ o, Gen.D2.Temporal_Decode Gen.D2.NewTemporal s = some (o, (true, none)) → Gen.D2.Temporal_Encode o = some (o, (s, none))) ∧
    (∀ o, Gen.D2.Environmental_Decode Gen.D2.NewEnvironmental s = some (o, (true, none)) → Gen.D2.Environmental_Encode o = some (o, (s, none))) ∧
    (∀ o, Gen.D3.Environmental_Decode Gen.D3.NewEnvironmental s = some (o, (true, none)) →
      Gen.D3.Environmental_Encode o = some (o, (Spec3.canon3 .environmental s, none))) := by
  refine ⟨?_, ?_, ?_, ?_⟩
  · intro o h
    rw [Base_Decode_2, new2_eq.2.2] at h
    have ho : (V2.decode .base V2.Obj2.new s).1 = o := by
      have := congrArg (fun r => r.map (fun x => x.1)) h; simpa using this
    have he : (V2.decode .base V2.Obj2.new s).2 = none := by
      have := congrArg (fun r => r.map (fun x => x.2.2)) h; simpa using this
    rw [Base_Encode_2, C10.encode2_identity .base s o (by rw [← ho, ← he])]
  · intro o h
    rw [Temporal_Decode_2, new2_eq.2.1] at h
    have ho : (V2.decode .temporal V2.Obj2.new s).1 = o := by
      have := congrArg (fun r => r.map (fun x => x.1)) h; simpa using this
    have he : (V2.decode .temporal V2.Obj2.new s).2 = none := by
      have := congrArg (fun r => r.map (fun x => x.2.2)) h; simpa using this
    rw [Temporal_Encode_2, C10.encode2_identity .temporal s o (by rw [← ho, ← he])]
  · intro o h
    rw [Environmental_Decode_2, new2_eq.1] at h
    have ho : (V2.decode .environmental V2.Obj2.new s).1 = o := by
      have := congrArg (fun r => r.map (fun x => x.1)) h; simpa using this
    have he : (V2.decode .environmental V2.Obj2.new s).2 = none := by
      have := congrArg (fun r => r.map (fun x => x.2.2)) h; simpa using this
    rw [Environmental_Encode_2, C10.encode2_identity .environmental s o (by rw [← ho, ← he])]
  · intro o h
    rw [Environmental_Decode_3, newEnv3_eq] at h
    have ho : (V3.decode .environmental V3.Obj3.new s).1 = o := by
      have := congrArg (fun r => r.map (fun x => x.1)) h; simpa using this
    have he : (V3.decode .environmental V3.Obj3.new s).2 = none := by
      have := congrArg (fun r => r.map (fun x => x.2.2)) h; simpa using this
    rw [Environmental_Encode_3, C10.encode3_canonical (L := .environmental) (s := s) (o := o) (by rw [← ho, ← he])]

/-- **Transfer.** What the translated `NewEnvironmental().Decode(s)` (v3) and the three translated v2 `NewX().Decode(s)` answer is exactly
    what the model's `decode L new s` answers, object included: every theorem of C07–C14 with a hypothesis `decode L new s = (o, e)` is, by
    this, a theorem about the translated source. -/
theorem decode_source_iff (s : Bytes) :
    (∀ o e, Gen.D3.Environmental_Decode Gen.D3.NewEnvironmental s = some (o, (e.isNone, e)) ↔ V3.decode .environmental V3.Obj3.new s = (o, e)) ∧
    (∀ o e, Gen.D2.Base_Decode Gen.D2.NewBase s = some (o, (e.isNone, e)) ↔ V2.decode .base V2.Obj2.new s = (o, e)) ∧
    (∀ o e, Gen.D2.Temporal_Decode Gen.D2.NewTemporal s = some (o, (e.isNone, e)) ↔ V2.decode .temporal V2.Obj2.new s = (o, e)) ∧
    (∀ o e, Gen.D2.Environmental_Decode Gen.D2.NewEnvironmental s = some (o, (e.isNone, e)) ↔ V2.decode .environmental V2.Obj2.new s = (o, e)) := by
  refine ⟨?_, ?_, ?_, ?_⟩
  · intro o e
    rw [Environmental_Decode_3, newEnv3_eq]
    constructor
    · intro h
      have h1 := congrArg (fun r => r.map (fun x => x.1)) h
      have h2 := congrArg (fun r => r.map (fun x => x.2.2)) h
      simp only [Option.map_some, Option.some.injEq] at h1 h2
      exact Prod.ext h1 h2
    · intro h; rw [h]
  · intro o e
    rw [Base_Decode_2, new2_eq.2.2]
    constructor
    · intro h
      have h1 := congrArg (fun r => r.map (fun x => x.1)) h
      have h2 := congrArg (fun r => r.map (fun x => x.2.2)) h
      simp only [Option.map_some, Option.some.injEq] at h1 h2
      exact Prod.ext h1 h2
    · intro h; rw [h]
  · intro o e
    rw [Temporal_Decode_2, new2_eq.2.1]
    constructor
    · intro h
      have h1 := congrArg (fun r => r.map (fun x => x.1)) h
      have h2 := congrArg (fun r => r.map (fun x => x.2.2)) h
      simp only [Option.map_some, Option.some.injEq] at h1 h2
      exact Prod.ext h1 h2
    · intro h; rw [h]
  · intro o e
    rw [Environmental_Decode_2, new2_eq.1]
    constructor
    · intro h
      have h1 := congrArg (fun r => r.map (fun x => x.1)) h
      have h2 := congrArg (fun r => r.map (fun x => x.2.2)) h
      simp only [Option.map_some, Option.some.injEq] at h1 h2
      exact Prod.ext h1 h2
    · intro h; rw [h]

/-- **C09 carried to the source text** (v3 environmental decoder): after the translated decoder accepted `s`, the version label is the
    written one and every metric field holds the value whose code is the written one — Not Defined for an unwritten optional metric —
    and the translated `String()` of the field's type prints that code -/
theorem v3_fields_source (s : Bytes) (o : V3.Obj3)
    (h : Gen.D3.Environmental_Decode Gen.D3.NewEnvironmental s = some (o, (true, none))) :
    Gen.T3.Version_String o.ver = Spec3.label s ∧
    ∀ m ∈ V3.msOf .environmental, (o.field m, Spec3.expectedCode (V3.specOf m) s) ∈ m.spec.codes ∧
      SrcTab.srcStr3 m (o.field m) = Spec3.expectedCode (V3.specOf m) s := by
  have hd := ((decode_source_iff s).1 o none).mp h
  have hf := C09.decode3_fields hd
  refine ⟨by rw [TableTie.Version_String_3]; exact hf.1, fun m hm => ⟨hf.2 m hm, ?_⟩⟩
  rw [SrcTab.v3_string_is_source]
  exact C09.decode3_field_codes hd m hm

/-- non-vacuity of the transfer: an accepted and a rejected string -/
example : (V3.decode .environmental V3.Obj3.new b!"CVSS:3.1/AV:N/AC:L/PR:N/UI:N/S:U/C:H/I:H/A:H/E:F").2 = none ∧
    (V2.decode .base V2.Obj2.new b!"AV:N/AC:L/Au:N/C:P/I:P").2 = some .noBaseMetrics := by
  constructor <;> decide

/-- the obligation under which the three string-keyed `names` maps of the source are the model's metric-keyed `named` -/
theorem names_abstraction_ok :
    (∀ p ∈ Gen.D3.markSites, ((V3.lvlMs p.1).find? (fun m => m.spec.name == p.2)).isSome = true) ∧
    (∀ p ∈ Gen.D2.markSites, ((V2.lvlMs p.1).find? (fun m => m.spec.name == p.2)).isSome = true) := markSites_ok

/-- the obligation under which `errs.Wrap(cvsserr.ErrX, …)` is the constructor `.x` of `Err` and `errs.Is` is equality of
    constructors: each of the model's eleven sentinels is a package-level variable of /repo/cvsserr initialised by its own
    `errors.New(<literal>)` call (so no two of them are one value and none is defined in terms of another); further variables
    in that package are harmless (a function that returned one would be outside the translators' vocabulary) -/
theorem sentinels_are_distinct_values :
    (∀ e : Err, e ∈ Err.all) ∧
    (∀ e ∈ Err.all, ("Err" ++ e.tag, "new") ∈ Gen.Errs.sentinels.map (fun s => (s.1, s.2.1))) ∧
    (Gen.Errs.sentinels.map (·.1)).Nodup := by
  refine ⟨fun e => by cases e <;> decide, ?_, ?_⟩ <;> decide

/-- non-vacuity: the translated decoder really decodes -/
example : (Gen.D3.Base_Decode Gen.D3.NewBase b!"CVSS:3.1/AV:N/AC:L/PR:N/UI:N/S:U/C:H/I:H/A:H").map (fun r => r.2) = some (true, none) ∧
    (Gen.D3.Base_Decode Gen.D3.NewBase b!"CVSS:3.1/AV:N/AC:L/PR:N/UI:N/S:U/C:H/I:H").map (fun r => r.2) = some (false, some .noBaseMetrics) ∧
    (Gen.D2.Base_Decode Gen.D2.NewBase b!"AV:N/AC:L/Au:N/C:P/I:P/A:P").map (fun r => r.2) = some (true, none) ∧
    (Gen.D2.Base_Decode Gen.D2.NewBase b!"AC:L/AV:N/Au:N/C:P/I:P/A:P").map (fun r => r.2) = some (false, some .misordered) := by
  decide

end CvssVerif.Props.SrcDec
