import CvssVerif.Proofs.Tables
/-
  The tie by translation of the per-metric types: what `Generated/Tables.lean` (rewritten from the source text of
  /repo/v3/metric and /repo/v2/metric on every run by go/tables) says is what the model says — for every metric, every
  string and every integer.  The model's `Metric.get` / `Metric.str` / `value…` / `isValid` / `msIsChanged` are the
  functions all decoder, encoder and score theorems (C01–C14, C20) are stated about, and the primitives of the
  translated score functions (`Props/Src.lean`).

  Not imported by the property modules: a source that is no longer provably the model must not stop them from building;
  `check.py C20` rebuilds this module and reports per function.
-/
namespace CvssVerif.Props.SrcTab
open CvssVerif CvssVerif.TableTie

/-! ### v3 -/
open CvssVerif.V3 in
/-- the Go parser `GetXxx` of each v3 metric, as translated from the source -/
def srcGet3 : M3 → Bytes → Int
  | .AV => Gen.T3.GetAttackVector | .AC => Gen.T3.GetAttackComplexity | .PR => Gen.T3.GetPrivilegesRequired
  | .UI => Gen.T3.GetUserInteraction | .S => Gen.T3.GetScope | .C => Gen.T3.GetConfidentialityImpact
  | .I => Gen.T3.GetIntegrityImpact | .A => Gen.T3.GetAvailabilityImpact | .E => Gen.T3.GetExploitability
  | .RL => Gen.T3.GetRemediationLevel | .RC => Gen.T3.GetReportConfidence | .CR => Gen.T3.GetConfidentialityRequirement
  | .IR => Gen.T3.GetIntegrityRequirement | .AR => Gen.T3.GetAvailabilityRequirement | .MAV => Gen.T3.GetModifiedAttackVector
  | .MAC => Gen.T3.GetModifiedAttackComplexity | .MPR => Gen.T3.GetModifiedPrivilegesRequired
  | .MUI => Gen.T3.GetModifiedUserInteraction | .MS => Gen.T3.GetModifiedScope | .MC => Gen.T3.GetModifiedConfidentialityImpact
  | .MI => Gen.T3.GetModifiedIntegrityImpact | .MA => Gen.T3.GetModifiedAvailabilityImpact

open CvssVerif.V3 in
/-- the Go printer `Xxx.String()` of each v3 metric, as translated from the source -/
def srcStr3 : M3 → Int → Bytes
  | .AV => Gen.T3.AttackVector_String | .AC => Gen.T3.AttackComplexity_String | .PR => Gen.T3.PrivilegesRequired_String
  | .UI => Gen.T3.UserInteraction_String | .S => Gen.T3.Scope_String | .C => Gen.T3.ConfidentialityImpact_String
  | .I => Gen.T3.IntegrityImpact_String | .A => Gen.T3.AvailabilityImpact_String | .E => Gen.T3.Exploitability_String
  | .RL => Gen.T3.RemediationLevel_String | .RC => Gen.T3.ReportConfidence_String | .CR => Gen.T3.ConfidentialityRequirement_String
  | .IR => Gen.T3.IntegrityRequirement_String | .AR => Gen.T3.AvailabilityRequirement_String | .MAV => Gen.T3.ModifiedAttackVector_String
  | .MAC => Gen.T3.ModifiedAttackComplexity_String | .MPR => Gen.T3.ModifiedPrivilegesRequired_String
  | .MUI => Gen.T3.ModifiedUserInteraction_String | .MS => Gen.T3.ModifiedScope_String | .MC => Gen.T3.ModifiedConfidentialityImpact_String
  | .MI => Gen.T3.ModifiedIntegrityImpact_String | .MA => Gen.T3.ModifiedAvailabilityImpact_String

open CvssVerif.V3 in
/-- the validity test `GetError()` applies to each v3 metric: `!IsUnknown()` for base metrics, `IsValid()` for the others -/
def srcValid3 : M3 → Int → Bool
  | .AV => fun v => !Gen.T3.AttackVector_IsUnknown v | .AC => fun v => !Gen.T3.AttackComplexity_IsUnknown v
  | .PR => fun v => !Gen.T3.PrivilegesRequired_IsUnknown v | .UI => fun v => !Gen.T3.UserInteraction_IsUnknown v
  | .S => fun v => !Gen.T3.Scope_IsUnknown v | .C => fun v => !Gen.T3.ConfidentialityImpact_IsUnknown v
  | .I => fun v => !Gen.T3.IntegrityImpact_IsUnknown v | .A => fun v => !Gen.T3.AvailabilityImpact_IsUnknown v
  | .E => Gen.T3.Exploitability_IsValid | .RL => Gen.T3.RemediationLevel_IsValid | .RC => Gen.T3.ReportConfidence_IsValid
  | .CR => Gen.T3.ConfidentialityRequirement_IsValid | .IR => Gen.T3.IntegrityRequirement_IsValid
  | .AR => Gen.T3.AvailabilityRequirement_IsValid | .MAV => Gen.T3.ModifiedAttackVector_IsValid
  | .MAC => Gen.T3.ModifiedAttackComplexity_IsValid | .MPR => Gen.T3.ModifiedPrivilegesRequired_IsValid
  | .MUI => Gen.T3.ModifiedUserInteraction_IsValid | .MS => Gen.T3.ModifiedScope_IsValid
  | .MC => Gen.T3.ModifiedConfidentialityImpact_IsValid | .MI => Gen.T3.ModifiedIntegrityImpact_IsValid
  | .MA => Gen.T3.ModifiedAvailabilityImpact_IsValid

/-- `GetXxx(s)` of the source is the model's parser, for every v3 metric and every string -/
theorem v3_get_is_source (m : V3.M3) (s : Bytes) : srcGet3 m s = m.spec.get s := by
  cases m
  · exact GetAttackVector_3 s
  · exact GetAttackComplexity_3 s
  · exact GetPrivilegesRequired_3 s
  · exact GetUserInteraction_3 s
  · exact GetScope_3 s
  · exact GetConfidentialityImpact_3 s
  · exact GetIntegrityImpact_3 s
  · exact GetAvailabilityImpact_3 s
  · exact GetExploitability_3 s
  · exact GetRemediationLevel_3 s
  · exact GetReportConfidence_3 s
  · exact GetConfidentialityRequirement_3 s
  · exact GetIntegrityRequirement_3 s
  · exact GetAvailabilityRequirement_3 s
  · exact GetModifiedAttackVector_3 s
  · exact GetModifiedAttackComplexity_3 s
  · exact GetModifiedPrivilegesRequired_3 s
  · exact GetModifiedUserInteraction_3 s
  · exact GetModifiedScope_3 s
  · exact GetModifiedConfidentialityImpact_3 s
  · exact GetModifiedIntegrityImpact_3 s
  · exact GetModifiedAvailabilityImpact_3 s

/-- `Xxx.String()` of the source is the model's printer, for every v3 metric and every integer -/
theorem v3_string_is_source (m : V3.M3) (v : Int) : srcStr3 m v = m.spec.str v := by
  cases m
  · exact AttackVector_String_3 v
  · exact AttackComplexity_String_3 v
  · exact PrivilegesRequired_String_3 v
  · exact UserInteraction_String_3 v
  · exact Scope_String_3 v
  · exact ConfidentialityImpact_String_3 v
  · exact IntegrityImpact_String_3 v
  · exact AvailabilityImpact_String_3 v
  · exact Exploitability_String_3 v
  · exact RemediationLevel_String_3 v
  · exact ReportConfidence_String_3 v
  · exact ConfidentialityRequirement_String_3 v
  · exact IntegrityRequirement_String_3 v
  · exact AvailabilityRequirement_String_3 v
  · exact ModifiedAttackVector_String_3 v
  · exact ModifiedAttackComplexity_String_3 v
  · exact ModifiedPrivilegesRequired_String_3 v
  · exact ModifiedUserInteraction_String_3 v
  · exact ModifiedScope_String_3 v
  · exact ModifiedConfidentialityImpact_String_3 v
  · exact ModifiedIntegrityImpact_String_3 v
  · exact ModifiedAvailabilityImpact_String_3 v

/-- the validity tests of the source are the ones the model's `getError…` apply -/
theorem v3_validity_is_source (m : V3.M3) (v : Int) : srcValid3 m v = V3.isValid m v := by
  cases m <;> simp only [srcValid3, AttackVector_IsUnknown_3, AttackComplexity_IsUnknown_3, PrivilegesRequired_IsUnknown_3,
    UserInteraction_IsUnknown_3, Scope_IsUnknown_3, ConfidentialityImpact_IsUnknown_3, IntegrityImpact_IsUnknown_3,
    AvailabilityImpact_IsUnknown_3, Exploitability_IsValid_3, RemediationLevel_IsValid_3, ReportConfidence_IsValid_3,
    ConfidentialityRequirement_IsValid_3, IntegrityRequirement_IsValid_3, AvailabilityRequirement_IsValid_3,
    ModifiedAttackVector_IsValid_3, ModifiedAttackComplexity_IsValid_3, ModifiedPrivilegesRequired_IsValid_3,
    ModifiedUserInteraction_IsValid_3, ModifiedScope_IsValid_3, ModifiedConfidentialityImpact_IsValid_3,
    ModifiedIntegrityImpact_IsValid_3, ModifiedAvailabilityImpact_IsValid_3, V3.isValid] <;> rfl

/-- every `Value(…)` method of the source is the weight function the score theorems are stated about -/
theorem v3_values_are_source :
    (∀ v, Gen.T3.AttackVector_Value v = V3.value0 .AV v) ∧ (∀ v, Gen.T3.AttackComplexity_Value v = V3.value0 .AC v) ∧
    (∀ v, Gen.T3.UserInteraction_Value v = V3.value0 .UI v) ∧ (∀ v, Gen.T3.ConfidentialityImpact_Value v = V3.value0 .C v) ∧
    (∀ v, Gen.T3.IntegrityImpact_Value v = V3.value0 .I v) ∧ (∀ v, Gen.T3.AvailabilityImpact_Value v = V3.value0 .A v) ∧
    (∀ v, Gen.T3.Exploitability_Value v = V3.value0 .E v) ∧ (∀ v, Gen.T3.RemediationLevel_Value v = V3.value0 .RL v) ∧
    (∀ v, Gen.T3.ReportConfidence_Value v = V3.value0 .RC v) ∧ (∀ v, Gen.T3.ConfidentialityRequirement_Value v = V3.value0 .CR v) ∧
    (∀ v, Gen.T3.IntegrityRequirement_Value v = V3.value0 .IR v) ∧ (∀ v, Gen.T3.AvailabilityRequirement_Value v = V3.value0 .AR v) ∧
    (∀ pr s, Gen.T3.PrivilegesRequired_Value pr s = V3.valuePR pr s) ∧
    (∀ m b, Gen.T3.ModifiedAttackVector_Value m b = V3.valueMAV m b) ∧
    (∀ m b, Gen.T3.ModifiedAttackComplexity_Value m b = V3.valueMAC m b) ∧
    (∀ m b, Gen.T3.ModifiedUserInteraction_Value m b = V3.valueMUI m b) ∧
    (∀ mpr ms s pr, Gen.T3.ModifiedPrivilegesRequired_Value mpr ms s pr = V3.valueMPR mpr ms s pr) ∧
    (∀ m b, Gen.T3.ModifiedConfidentialityImpact_Value m b = V3.valueMCIA .MC m b) ∧
    (∀ m b, Gen.T3.ModifiedIntegrityImpact_Value m b = V3.valueMCIA .MI m b) ∧
    (∀ m b, Gen.T3.ModifiedAvailabilityImpact_Value m b = V3.valueMCIA .MA m b) ∧
    (∀ s, Gen.T3.Scope_IsChanged s = (s == 2)) ∧ (∀ ms s, Gen.T3.ModifiedScope_IsChanged ms s = V3.msIsChanged ms s) :=
  ⟨AttackVector_Value_3, AttackComplexity_Value_3, UserInteraction_Value_3, ConfidentialityImpact_Value_3, IntegrityImpact_Value_3,
   AvailabilityImpact_Value_3, Exploitability_Value_3, RemediationLevel_Value_3, ReportConfidence_Value_3,
   ConfidentialityRequirement_Value_3, IntegrityRequirement_Value_3, AvailabilityRequirement_Value_3, PrivilegesRequired_Value_3,
   ModifiedAttackVector_Value_3, ModifiedAttackComplexity_Value_3, ModifiedUserInteraction_Value_3,
   ModifiedPrivilegesRequired_Value_3, ModifiedConfidentialityImpact_Value_3, ModifiedIntegrityImpact_Value_3,
   ModifiedAvailabilityImpact_Value_3, Scope_IsChanged_3, ModifiedScope_IsChanged_3⟩

/-- version labels and severity names of the source -/
theorem v3_labels_are_source :
    (∀ v, Gen.T3.Version_String v = V3.verStr v) ∧ (∀ s, Gen.T3.get s = V3.verGet s) ∧
    (∀ v, Gen.T3.Severity_String v = V3.severityName v) :=
  ⟨Version_String_3, get_3, Severity_String_3⟩

/-! ### v2 -/
open CvssVerif.V2 in
def srcGet2 : M2 → Bytes → Int
  | .AV => Gen.T2.GetAccessVector | .AC => Gen.T2.GetAccessComplexity | .Au => Gen.T2.GetAuthentication
  | .C => Gen.T2.GetConfidentialityImpact | .I => Gen.T2.GetIntegrityImpact | .A => Gen.T2.GetAvailabilityImpact
  | .E => Gen.T2.GetExploitability | .RL => Gen.T2.GetRemediationLevel | .RC => Gen.T2.GetReportConfidence
  | .CDP => Gen.T2.GetCollateralDamagePotential | .TD => Gen.T2.GetTargetDistribution
  | .CR => Gen.T2.GetConfidentialityRequirement | .IR => Gen.T2.GetIntegrityRequirement | .AR => Gen.T2.GetAvailabilityRequirement

open CvssVerif.V2 in
def srcStr2 : M2 → Int → Bytes
  | .AV => Gen.T2.AccessVector_String | .AC => Gen.T2.AccessComplexity_String | .Au => Gen.T2.Authentication_String
  | .C => Gen.T2.ConfidentialityImpact_String | .I => Gen.T2.IntegrityImpact_String | .A => Gen.T2.AvailabilityImpact_String
  | .E => Gen.T2.Exploitability_String | .RL => Gen.T2.RemediationLevel_String | .RC => Gen.T2.ReportConfidence_String
  | .CDP => Gen.T2.CollateralDamagePotential_String | .TD => Gen.T2.TargetDistribution_String
  | .CR => Gen.T2.ConfidentialityRequirement_String | .IR => Gen.T2.IntegrityRequirement_String | .AR => Gen.T2.AvailabilityRequirement_String

open CvssVerif.V2 in
def srcValue2 : M2 → Int → Nat
  | .AV => Gen.T2.AccessVector_Value | .AC => Gen.T2.AccessComplexity_Value | .Au => Gen.T2.Authentication_Value
  | .C => Gen.T2.ConfidentialityImpact_Value | .I => Gen.T2.IntegrityImpact_Value | .A => Gen.T2.AvailabilityImpact_Value
  | .E => Gen.T2.Exploitability_Value | .RL => Gen.T2.RemediationLevel_Value | .RC => Gen.T2.ReportConfidence_Value
  | .CDP => Gen.T2.CollateralDamagePotential_Value | .TD => Gen.T2.TargetDistribution_Value
  | .CR => Gen.T2.ConfidentialityRequirement_Value | .IR => Gen.T2.IntegrityRequirement_Value | .AR => Gen.T2.AvailabilityRequirement_Value

open CvssVerif.V2 in
/-- what `GetError()` tests per metric: (sic) `IsUnknown()` of the v2 base metrics is "is not the unknown value" -/
def srcValid2 : M2 → Int → Bool
  | .AV => Gen.T2.AccessVector_IsUnknown | .AC => Gen.T2.AccessComplexity_IsUnknown | .Au => Gen.T2.Authentication_IsUnknown
  | .C => Gen.T2.ConfidentialityImpact_IsUnknown | .I => Gen.T2.IntegrityImpact_IsUnknown | .A => Gen.T2.AvailabilityImpact_IsUnknown
  | .E => Gen.T2.Exploitability_IsValid | .RL => Gen.T2.RemediationLevel_IsValid | .RC => Gen.T2.ReportConfidence_IsValid
  | .CDP => Gen.T2.CollateralDamagePotential_IsValid | .TD => Gen.T2.TargetDistribution_IsValid
  | .CR => Gen.T2.ConfidentialityRequirement_IsValid | .IR => Gen.T2.IntegrityRequirement_IsValid | .AR => Gen.T2.AvailabilityRequirement_IsValid

theorem v2_get_is_source (m : V2.M2) (s : Bytes) : srcGet2 m s = m.spec.get s := by
  cases m
  · exact GetAccessVector_2 s
  · exact GetAccessComplexity_2 s
  · exact GetAuthentication_2 s
  · exact GetConfidentialityImpact_2 s
  · exact GetIntegrityImpact_2 s
  · exact GetAvailabilityImpact_2 s
  · exact GetExploitability_2 s
  · exact GetRemediationLevel_2 s
  · exact GetReportConfidence_2 s
  · exact GetCollateralDamagePotential_2 s
  · exact GetTargetDistribution_2 s
  · exact GetConfidentialityRequirement_2 s
  · exact GetIntegrityRequirement_2 s
  · exact GetAvailabilityRequirement_2 s

theorem v2_string_is_source (m : V2.M2) (v : Int) : srcStr2 m v = m.spec.str v := by
  cases m
  · exact AccessVector_String_2 v
  · exact AccessComplexity_String_2 v
  · exact Authentication_String_2 v
  · exact ConfidentialityImpact_String_2 v
  · exact IntegrityImpact_String_2 v
  · exact AvailabilityImpact_String_2 v
  · exact Exploitability_String_2 v
  · exact RemediationLevel_String_2 v
  · exact ReportConfidence_String_2 v
  · exact CollateralDamagePotential_String_2 v
  · exact TargetDistribution_String_2 v
  · exact ConfidentialityRequirement_String_2 v
  · exact IntegrityRequirement_String_2 v
  · exact AvailabilityRequirement_String_2 v

theorem v2_value_is_source (m : V2.M2) (v : Int) : srcValue2 m v = V2.value m v := by
  cases m
  · exact AccessVector_Value_2 v
  · exact AccessComplexity_Value_2 v
  · exact Authentication_Value_2 v
  · exact ConfidentialityImpact_Value_2 v
  · exact IntegrityImpact_Value_2 v
  · exact AvailabilityImpact_Value_2 v
  · exact Exploitability_Value_2 v
  · exact RemediationLevel_Value_2 v
  · exact ReportConfidence_Value_2 v
  · exact CollateralDamagePotential_Value_2 v
  · exact TargetDistribution_Value_2 v
  · exact ConfidentialityRequirement_Value_2 v
  · exact IntegrityRequirement_Value_2 v
  · exact AvailabilityRequirement_Value_2 v

/-- the validity test of the source is "the field is not the zero value", which is what the model's `getError…` test -/
theorem v2_validity_is_source (m : V2.M2) (v : Int) : srcValid2 m v = (v != 0) := by
  cases m
  · exact AccessVector_IsUnknown_2 v
  · exact AccessComplexity_IsUnknown_2 v
  · exact Authentication_IsUnknown_2 v
  · exact ConfidentialityImpact_IsUnknown_2 v
  · exact IntegrityImpact_IsUnknown_2 v
  · exact AvailabilityImpact_IsUnknown_2 v
  · exact Exploitability_IsValid_2 v
  · exact RemediationLevel_IsValid_2 v
  · exact ReportConfidence_IsValid_2 v
  · exact CollateralDamagePotential_IsValid_2 v
  · exact TargetDistribution_IsValid_2 v
  · exact ConfidentialityRequirement_IsValid_2 v
  · exact IntegrityRequirement_IsValid_2 v
  · exact AvailabilityRequirement_IsValid_2 v

theorem v2_labels_are_source : ∀ v, Gen.T2.Severity_String v = V2.severityName v := Severity_String_2

/-- the side condition of every reverse look-up loop: codes pairwise different per table (both versions) -/
theorem reverse_lookups_are_deterministic :
    (∀ t ∈ Gen.T3.revTables, (t.2.map (·.2)).Nodup) ∧ (∀ t ∈ Gen.T2.revTables, (t.2.map (·.2)).Nodup) :=
  ⟨revTables_nodup_3, revTables_nodup_2⟩

/-- non-vacuity: the translated parser really parses, the translated weight is the FIRST weight's double -/
example : Gen.T3.GetAttackVector b!"N" = 4 ∧ Gen.T3.GetAttackVector b!"n" = 0 ∧ Gen.T3.AttackVector_Value 4 = 0x3FEB333333333333 ∧
    Gen.T2.GetExploitability b!"POC" = 3 ∧ Gen.T3.ModifiedPrivilegesRequired_Value 1 3 1 2 = 0x3FE5C28F5C28F5C3 := by decide

end CvssVerif.Props.SrcTab
