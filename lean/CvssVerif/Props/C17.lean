import CvssVerif.Model.Report
import CvssVerif.Props.C18
/-
  C17 — every report field shows its own metric, in the requested language.

  `Report.schema` is the declarative statement of the property (field path ↦ what it shows);
  `Report.mkReport` evaluates it on an object.  The tie to the three Go constructors is the
  exhaustive-values correspondence (every field of every report, embedded reports included).
-/
namespace CvssVerif.Props.C17
open CvssVerif Report V3

/-- every field of the model report is the evaluation of its schema entry, in the one requested
    language (the language is forwarded to the embedded reports because there is only one) -/
theorem report_field (L : Level) (o : Obj3) (lang : Nat) (path : String) (src : Src)
    (h : (path, src) ∈ schema L) : (path, eval o lang src) ∈ mkReport L o lang :=
  List.mem_map.mpr ⟨(path, src), h, rfl⟩

/-- prefix of the report that holds metric `m`'s fields, seen from a report of level `L` -/
def pathOf (L : Level) (lm : Level) : Option String :=
  match L, lm with
  | .base, .base => some ""
  | .temporal, .base => some "BaseReport."
  | .temporal, .temporal => some ""
  | .environmental, .base => some "TemporalReport.BaseReport."
  | .environmental, .temporal => some "TemporalReport."
  | .environmental, .environmental => some ""
  | _, _ => none

instance : DecidableEq Src := by
  intro a b
  cases a <;> cases b <;> first
    | exact isTrue rfl
    | (rename_i x y; exact if h : x = y then isTrue (by rw [h]) else isFalse (by intro hh; cases hh; exact h rfl))
    | exact isFalse (by intro hh; cases hh)

/-- **wiring**: for every metric of a level ≤ L, the field `<Metric>Name` of the right (embedded)
    report shows that metric's title and `<Metric>Value` shows that metric's value name — and no
    other metric's -/
def wiringOK : Bool :=
  Level.all.all fun L => M3.all.all fun m =>
    match pathOf L m.spec.level with
    | none => true
    | some pre =>
      let n := bytesToStr m.spec.name
      (schema L).contains (pre ++ n ++ "Name", .title m) && (schema L).contains (pre ++ n ++ "Value", .value m) &&
      ((schema L).filter fun p => p.1 == pre ++ n ++ "Name" || p.1 == pre ++ n ++ "Value").length == 2
theorem wiring : wiringOK = true := by decide +kernel

/-- **levels**: the version, vector, score and severity fields of each (embedded) report refer to
    that report's own level: a higher level shadows `Vector`, `SeverityName`, `SeverityValue`, and
    the lower ones stay reachable through the embedded reports -/
def levelsOK : Bool :=
  Level.all.all fun L => (Level.all.filter fun l => l.le L).all fun l =>
    match pathOf L l with
    | none => false
    | some pre =>
      (schema L).contains (pre ++ "Vector", .vector l) &&
      (schema L).contains (pre ++ "SeverityName", .sevTitle) &&
      (schema L).contains (pre ++ "SeverityValue", .sevValue l) &&
      (schema L).contains (pre ++ (match l with
        | .base => "BaseScore" | .temporal => "TemporalScore" | .environmental => "EnvironmentalScore"), .score l) &&
      ((schema L).filter fun p => p.1 == pre ++ "Vector" || p.1 == pre ++ "SeverityValue").length == 2
theorem levels : levelsOK = true := by decide +kernel

theorem version_field : ∀ L, (match pathOf L .base with
    | some pre => (schema L).contains (pre ++ "Version", .version) | none => false) = true := by
  intro L; cases L <;> decide +kernel

/-- no two fields of a report share a path -/
theorem paths_unique : ∀ L, ((schema L).map (·.1)).Nodup := by
  intro L; cases L <;> decide +kernel

/-- **scores print with at most one decimal**: the rendering of a grid double is the integer part,
    followed by '.' and one digit exactly when the tenth is not a whole number -/
def fmtOK : Bool :=
  (List.range 101).all fun k =>
    fmtScore (F64.ofDec k 1) == (if k % 10 = 0 then digits (k / 10) else digits (k / 10) ++ [46, 48 + k % 10])
set_option maxRecDepth 100000 in
theorem score_rendering : fmtOK = true := by decide +kernel

/-- **What the correspondence check evaluates.** The check feeds the schema with the scores and
    severities the implementation itself reports for the decoded object (`evalWith`); on the model
    that is the schema itself: every field, evaluated with the object's own (rendered) scores and
    severities, is the field of the report. -/
theorem schema_on_own_scores (o : V3.Obj3) (lang : Nat) (src : Src) :
    eval o lang src = evalWith (fun l => fmtScore (V3.score l o)) (fun l => V3.severity l o) o lang src :=
  eval_eq_evalWith o lang src

end CvssVerif.Props.C17
