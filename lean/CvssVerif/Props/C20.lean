import CvssVerif.Model.V3
import CvssVerif.Model.V2
import CvssVerif.Spec.V3
import CvssVerif.Spec.V2
import CvssVerif.Spec.Grammar3
import CvssVerif.Spec.Grammar2
/-
  C20 — value codes, enumeration values and weights form the specification's tables.

  On the model: `Metric.get` / `Metric.str` are `GetXxx` / `Xxx.String()`, `isValid` is the
  metric's validity predicate, `value0`/`valuePR`/… are `Value()`.  The specification's tables
  are `Spec3.metrics` / `Spec2.metrics` (codes) and `Spec3.w…` / `Spec2.w…` (weights, exact).
-/
namespace CvssVerif.Props.C20
open CvssVerif F64

/-- the double the Go compiler produces for an exact non-negative decimal weight -/
def ofRat (x : Rat) : Nat := rndRat 0 x.num.toNat x.den BIAS

/-! ### generic facts about a code table -/

/-- parsing a string that is no code of the metric gives the unknown value 0 (all strings) -/
theorem get_other (m : Metric) (s : Bytes) (h : ∀ p ∈ m.codes, p.2 ≠ s) : m.get s = 0 := by
  unfold Metric.get
  have : m.codes.find? (fun p => p.2 == s) = none := by
    rw [List.find?_eq_none]
    intro p hp
    simpa using h p hp
  rw [this]

/-- printing a value that is not in the table gives the empty text (all integers) -/
theorem str_other (m : Metric) (v : Int) (h : ∀ p ∈ m.codes, p.1 ≠ v) : m.str v = [] := by
  unfold Metric.str
  have : m.codes.find? (fun p => p.1 == v) = none := by
    rw [List.find?_eq_none]
    intro p hp
    simpa using h p hp
  rw [this]

/-- a table is well formed: values and codes are pairwise different, no value is 0, no code is
    empty -/
def TableOK (m : Metric) : Bool :=
  (m.codes.map (·.1)).Nodup && (m.codes.map (·.2)).Nodup &&
  m.codes.all (fun p => p.1 != 0 && p.2 != [])

/-- on a well-formed table parsing and printing are inverse on every table entry -/
def RoundTrip (m : Metric) : Bool :=
  m.codes.all fun p => m.get p.2 == p.1 && m.str p.1 == p.2

/-! ### v3 -/

/-- every v3 metric table is well formed, and Get/String are inverse on its codes -/
theorem v3_tables_ok : ∀ m ∈ V3.M3.all, TableOK m.spec = true ∧ RoundTrip m.spec = true := by
  decide

/-- the v3 model's code lists are the specification's, metric by metric, same names, same levels -/
theorem v3_codes_are_spec :
    V3.M3.all.map (fun m => (m.spec.name, m.spec.level, (m.spec.codes.map (·.2)).mergeSort (fun a b => decide (a ≤ b))))
      = Spec3.metrics.map (fun m => (m.name, m.level, m.codes.mergeSort (fun a b => decide (a ≤ b)))) := by
  decide

/-- unknown (0) prints as empty text and fails every v3 validity predicate; every table value
    passes it -/
theorem v3_validity : ∀ m ∈ V3.M3.all,
    m.spec.str 0 = [] ∧ V3.isValid m 0 = false ∧ (m.spec.codes.all fun p => V3.isValid m p.1) = true := by
  decide

/-- v3 weights are the specification's table, value by value (exact decimal → nearest double) -/
theorem v3_weights :
    (∀ x, P.fAV x = ofRat (Spec3.wAV x)) ∧ (∀ x, P.fAC x = ofRat (Spec3.wAC x)) ∧
    (∀ s x, P.fPR s x = ofRat (Spec3.wPR s x)) ∧ (∀ x, P.fUI x = ofRat (Spec3.wUI x)) ∧
    (∀ x, P.fCIA x = ofRat (Spec3.wCIA x)) ∧ (∀ x, P.fE x = ofRat (Spec3.wE x)) ∧
    (∀ x, P.fRL x = ofRat (Spec3.wRL x)) ∧ (∀ x, P.fRC x = ofRat (Spec3.wRC x)) ∧
    (∀ x, P.fReq x = ofRat (Spec3.wReq x)) := by
  refine ⟨?_, ?_, ?_, ?_, ?_, ?_, ?_, ?_, ?_⟩ <;> intros <;> rename_i x <;> revert x <;> decide +kernel

/-- the version label parser and printer are inverse on {3.0, 3.1}; everything else is unknown -/
theorem version_labels :
    V3.verGet b!"3.0" = 1 ∧ V3.verGet b!"3.1" = 2 ∧ V3.verStr 1 = b!"3.0" ∧ V3.verStr 2 = b!"3.1" ∧
    (∀ s, s ≠ b!"3.0" → s ≠ b!"3.1" → V3.verGet s = 0) ∧
    (∀ v : Int, v ≠ 1 → v ≠ 2 → V3.verStr v = b!"unknown") := by
  refine ⟨by decide, by decide, by decide, by decide, ?_, ?_⟩
  · intro s h0 h1
    unfold V3.verGet V3.verLabels
    simp [List.find?, h0.symm, h1.symm, Ne.symm h0, Ne.symm h1]
  · intro v h1 h2
    unfold V3.verStr V3.verLabels
    simp [List.find?, Ne.symm h1, Ne.symm h2]

/-! ### v2 -/

theorem v2_tables_ok : ∀ m ∈ V2.M2.all, TableOK m.spec = true ∧ RoundTrip m.spec = true := by
  decide

theorem v2_codes_are_spec :
    V2.M2.all.map (fun m => (m.spec.name, m.spec.level, (m.spec.codes.map (·.2)).mergeSort (fun a b => decide (a ≤ b))))
      = Spec2.metrics.map (fun m => (m.name, m.level, m.codes.mergeSort (fun a b => decide (a ≤ b)))) := by
  decide

theorem v2_unknown_prints_empty : ∀ m ∈ V2.M2.all, m.spec.str 0 = [] := by decide

end CvssVerif.Props.C20
