import CvssVerif.Model.V3
import CvssVerif.Model.V2
import CvssVerif.Spec.V3
import CvssVerif.Spec.V2
import CvssVerif.Spec.Grammar3
import CvssVerif.Spec.Grammar2
import CvssVerif.Proofs.Score3Defs
import CvssVerif.Proofs.Score2Defs
import CvssVerif.Proofs.Consts
import CvssVerif.Proofs.C03Glue
/-
  C20 — value codes, enumeration values and weights form the specification's tables.

  On the model: `Metric.get` / `Metric.str` are `GetXxx` / `Xxx.String()`, `isValid` is the
  metric's validity predicate, `value0`/`valuePR`/… are `Value()`.  The specification's tables
  are `Spec3.metrics` / `Spec2.metrics` (codes) and `Spec3.w…` / `Spec2.w…` (weights, exact).
-/
namespace CvssVerif.Props.C20
open CvssVerif F64

/-- the double the Go compiler produces for an exact non-negative decimal weight -/
def ofRat (x : Rat) : Nat := rndRat 0 x.num.toNat x.den BIAS

/-! ### generic facts about a code table -/

/-- parsing a string that is no code of the metric gives the unknown value 0 (all strings) -/
theorem get_other (m : Metric) (s : Bytes) (h : ∀ p ∈ m.codes, p.2 ≠ s) : m.get s = 0 := by
  unfold Metric.get
  have : m.codes.find? (fun p => p.2 == s) = none := by
    rw [List.find?_eq_none]
    intro p hp
    simpa using h p hp
  rw [this]

/-- printing a value that is not in the table gives the empty text (all integers) -/
theorem str_other (m : Metric) (v : Int) (h : ∀ p ∈ m.codes, p.1 ≠ v) : m.str v = [] := by
  unfold Metric.str
  have : m.codes.find? (fun p => p.1 == v) = none := by
    rw [List.find?_eq_none]
    intro p hp
    simpa using h p hp
  rw [this]

/-- a table is well formed: values and codes are pairwise different, no value is 0, no code is
    empty -/
def TableOK (m : Metric) : Bool :=
  (m.codes.map (·.1)).Nodup && (m.codes.map (·.2)).Nodup &&
  m.codes.all (fun p => p.1 != 0 && p.2 != [])

/-- on a well-formed table parsing and printing are inverse on every table entry -/
def RoundTrip (m : Metric) : Bool :=
  m.codes.all fun p => m.get p.2 == p.1 && m.str p.1 == p.2

/-! ### v3 -/

/-- every v3 metric table is well formed, and Get/String are inverse on its codes -/
theorem v3_tables_ok : ∀ m ∈ V3.M3.all, TableOK m.spec = true ∧ RoundTrip m.spec = true := by
  decide

/-- same set of codes -/
def sameCodes (a b : List Bytes) : Bool :=
  a.length == b.length && a.all (fun c => b.contains c) && b.all (fun c => a.contains c)

/-- the v3 model's code lists are the specification's, metric by metric: same names, same
    levels, same code sets, in the same (specification) order of metrics -/
theorem v3_codes_are_spec :
    (V3.M3.all.length == Spec3.metrics.length &&
      (V3.M3.all.zip Spec3.metrics).all fun p =>
        p.1.spec.name == p.2.name && p.1.spec.level == p.2.level &&
        sameCodes (p.1.spec.codes.map (·.2)) p.2.codes) = true := by
  decide +kernel

/-- unknown (0) prints as empty text and fails every v3 validity predicate; every table value
    passes it -/
theorem v3_validity : ∀ m ∈ V3.M3.all,
    m.spec.str 0 = [] ∧ V3.isValid m 0 = false ∧ (m.spec.codes.all fun p => V3.isValid m p.1) = true := by
  decide

/-- v3 weights are the specification's table, value by value (exact decimal → nearest double) -/
theorem v3_weights :
    (∀ x, P3.fAV x = ofRat (Spec3.wAV x)) ∧ (∀ x, P3.fAC x = ofRat (Spec3.wAC x)) ∧
    (∀ s x, P3.fPR s x = ofRat (Spec3.wPR s x)) ∧ (∀ x, P3.fUI x = ofRat (Spec3.wUI x)) ∧
    (∀ x, P3.fCIA x = ofRat (Spec3.wCIA x)) ∧ (∀ x, P3.fE x = ofRat (Spec3.wE x)) ∧
    (∀ x, P3.fRL x = ofRat (Spec3.wRL x)) ∧ (∀ x, P3.fRC x = ofRat (Spec3.wRC x)) ∧
    (∀ x, P3.fReq x = ofRat (Spec3.wReq x)) := by
  refine ⟨?_, ?_, ?_, ?_, ?_, ?_, ?_, ?_, ?_⟩
  · intro x; cases x <;> decide +kernel
  · intro x; cases x <;> decide +kernel
  · intro s x; cases s <;> cases x <;> decide +kernel
  · intro x; cases x <;> decide +kernel
  · intro x; cases x <;> decide +kernel
  · intro x; cases x <;> decide +kernel
  · intro x; cases x <;> decide +kernel
  · intro x; cases x <;> decide +kernel
  · intro x; cases x <;> decide +kernel

/-- the version label parser and printer are inverse on {3.0, 3.1}; everything else is unknown -/
theorem version_labels :
    V3.verGet b!"3.0" = 1 ∧ V3.verGet b!"3.1" = 2 ∧ V3.verStr 1 = b!"3.0" ∧ V3.verStr 2 = b!"3.1" ∧
    (∀ s, s ≠ b!"3.0" → s ≠ b!"3.1" → V3.verGet s = 0) ∧
    (∀ v : Int, v ≠ 1 → v ≠ 2 → V3.verStr v = b!"unknown") := by
  refine ⟨by decide, by decide, by decide, by decide, ?_, ?_⟩
  · intro s h0 h1
    have e0 : (b!"3.0" == s) = false := by simpa using Ne.symm h0
    have e1 : (b!"3.1" == s) = false := by simpa using Ne.symm h1
    unfold V3.verGet V3.verLabels
    simp only [List.find?, e0, e1]
  · intro v h1 h2
    have e1 : ((1 : Int) == v) = false := by simpa using Ne.symm h1
    have e2 : ((2 : Int) == v) = false := by simpa using Ne.symm h2
    unfold V3.verStr V3.verLabels
    simp only [List.find?, e1, e2]

/-! ### v2 -/

theorem v2_tables_ok : ∀ m ∈ V2.M2.all, TableOK m.spec = true ∧ RoundTrip m.spec = true := by
  decide

theorem v2_codes_are_spec :
    (V2.M2.all.length == Spec2.metrics.length &&
      (V2.M2.all.zip Spec2.metrics).all fun p =>
        p.1.spec.name == p.2.name && p.1.spec.level == p.2.level &&
        sameCodes (p.1.spec.codes.map (·.2)) p.2.codes) = true := by
  decide +kernel

theorem v2_unknown_prints_empty : ∀ m ∈ V2.M2.all, m.spec.str 0 = [] := by decide

/-- v2 weights are the specification's table, value by value -/
theorem v2_weights :
    (∀ x, V2.value .AV (P2.iAV x) = ofRat (Spec2.wAV x)) ∧ (∀ x, V2.value .AC (P2.iAC x) = ofRat (Spec2.wAC x)) ∧
    (∀ x, V2.value .Au (P2.iAu x) = ofRat (Spec2.wAu x)) ∧
    (∀ x, V2.value .C (P2.iCIA .C x) = ofRat (Spec2.wCIA x)) ∧ (∀ x, V2.value .I (P2.iCIA .I x) = ofRat (Spec2.wCIA x)) ∧
    (∀ x, V2.value .A (P2.iCIA .A x) = ofRat (Spec2.wCIA x)) ∧
    (∀ x, V2.value .E (P2.iE x) = ofRat (Spec2.wE x)) ∧ (∀ x, V2.value .RL (P2.iRL x) = ofRat (Spec2.wRL x)) ∧
    (∀ x, V2.value .RC (P2.iRC x) = ofRat (Spec2.wRC x)) ∧ (∀ x, V2.value .CDP (P2.iCDP x) = ofRat (Spec2.wCDP x)) ∧
    (∀ x, V2.value .TD (P2.iTD x) = ofRat (Spec2.wTD x)) ∧
    (∀ x, V2.value .CR (P2.iReq .CR x) = ofRat (Spec2.wReq x)) ∧ (∀ x, V2.value .IR (P2.iReq .IR x) = ofRat (Spec2.wReq x)) ∧
    (∀ x, V2.value .AR (P2.iReq .AR x) = ofRat (Spec2.wReq x)) := by
  refine ⟨?_, ?_, ?_, ?_, ?_, ?_, ?_, ?_, ?_, ?_, ?_, ?_, ?_, ?_⟩ <;> intro x <;> cases x <;> decide +kernel

/-- the Modified metrics' weights: Not Defined takes the base metric's weight, Modified Scope
    selects the Privileges Required table (these are the reduction lemmas C03 rests on) -/
theorem v3_modified_weights :
    (∀ m b, V3.valueMAV (P3.iMAV m) (P3.iAV b) = P3.fAV (Spec3.eff m b)) ∧
    (∀ m b, V3.valueMAC (P3.iMAC m) (P3.iAC b) = P3.fAC (Spec3.eff m b)) ∧
    (∀ m b, V3.valueMUI (P3.iMUI m) (P3.iUI b) = P3.fUI (Spec3.eff m b)) ∧
    (∀ m ms s b, V3.valueMPR (P3.iMPR m) (P3.iMS ms) (P3.iS s) (P3.iPR b) = P3.fPR (Spec3.eff ms s) (Spec3.eff m b)) ∧
    (∀ m b, V3.valueMCIA .MC (P3.iMCIA .MC m) (P3.iCIA .C b) = P3.fCIA (Spec3.eff m b)) ∧
    (∀ m b, V3.valueMCIA .MI (P3.iMCIA .MI m) (P3.iCIA .I b) = P3.fCIA (Spec3.eff m b)) ∧
    (∀ m b, V3.valueMCIA .MA (P3.iMCIA .MA m) (P3.iCIA .A b) = P3.fCIA (Spec3.eff m b)) :=
  ⟨P3.valueMAV_eff, P3.valueMAC_eff, P3.valueMUI_eff, P3.valueMPR_eff, P3.valueMC_eff, P3.valueMI_eff, P3.valueMA_eff⟩

/-- the literal bit patterns in the model files are the Go compiler's conversions of the decimal
    constants in the source -/
theorem literals_are_decimals :
    V3.wAV = [(1, ofDec 20 2), (2, ofDec 55 2), (3, ofDec 62 2), (4, ofDec 85 2)] ∧
    V2.wAV = [(1, ofDec 395 3), (2, ofDec 646 3), (3, ofNat 1)] ∧
    V3.c642 = ofDec 642 2 ∧ V2.c1041 = ofDec 1041 2 :=
  ⟨Consts.v3_weights.1, Consts.v2_weights.1, Consts.v3_consts.1, Consts.v2_consts.1⟩

end CvssVerif.Props.C20
