import CvssVerif.Model.Names
/-
  C18 — localised names are total, unambiguous and fall back to English.

  The tables are regenerated from /repo's source on every run (`Generated/Names.lean`), so these
  theorems are re-checked against what the code says now; the functions' behaviour over the
  tables (`Model/Names.lean`) is compared with the real functions exhaustively by the harness.
-/
namespace CvssVerif.Props.C18
open CvssVerif Names Gen.Names

/-- the extractor understood every table and every exported function of the package -/
theorem extractor_complete : problems = [] ∧ funcs.length = 52 ∧
    (funcs.filter (fun f => f.2.1)).length = 23 := by decide +kernel

/-- every table has entries only for English and Japanese (so any other tag falls through) -/
def onlyEnJa : Bool :=
  titleTabs.all (fun t => t.2.all fun p => p.1 == 0 || p.1 == 1) &&
  valueTabs.all (fun t => t.2.all fun v => v.2.all fun p => p.1 == 0 || p.1 == 1)
theorem tables_only_en_ja : onlyEnJa = true := by decide +kernel

/-- all 26 titles and 3 column headers have a non-empty English and a non-empty Japanese name -/
def titlesOK : Bool :=
  funcs.all fun f => f.2.1 || (title f.2.2.1 0 != [] && title f.2.2.1 1 != [] && title f.2.2.1 0 != title f.2.2.1 1)
theorem titles_nonempty : titlesOK = true := by decide +kernel

/-- every metric has a title function and a value-name function in the package -/
def fnsPresent : Bool :=
  V3.M3.all.all fun m => (call (valueFn m) 0 0).isSome && (call (titleFn m) 0 0).isSome &&
    (funcs.any fun f => f.1 == valueFn m && f.2.1) && (funcs.any fun f => f.1 == titleFn m && !f.2.1)
theorem functions_present : fnsPresent = true := by decide +kernel

/-- every defined value of every metric (Not Defined included) has a non-empty English and
    Japanese name, and different values of one metric have different names within each language
    (Report Confidence legitimately has a defined value *called* "Unknown") -/
def valuesOK : Bool :=
  V3.M3.all.all fun m =>
    let names (lang : Nat) : List Bytes := m.spec.codes.map fun p => (call (valueFn m) p.1 lang).getD []
    (names 0).all (fun n => n != []) && (names 1).all (fun n => n != []) &&
    (names 0).Nodup && (names 1).Nodup
theorem values_named_unambiguously : valuesOK = true := by decide +kernel

/-- the five severities likewise -/
def severityOK : Bool :=
  let names (lang : Nat) : List Bytes := [1, 2, 3, 4, 5].map fun v => (call "SeverityValueOf" v lang).getD []
  (names 0).all (· != []) && (names 1).all (· != []) && (names 0).Nodup && (names 1).Nodup &&
  names 0 == [b!"None", b!"Low", b!"Medium", b!"High", b!"Critical"]
theorem severity_named : severityOK = true := by decide +kernel

/-- a Modified metric's value carries the same name as the corresponding base metric value -/
def modifiedPairs : List (V3.M3 × V3.M3) :=
  [(.MAV, .AV), (.MAC, .AC), (.MPR, .PR), (.MUI, .UI), (.MS, .S), (.MC, .C), (.MI, .I), (.MA, .A)]
def modifiedOK : Bool :=
  modifiedPairs.all fun p => p.2.spec.codes.all fun bc => [0, 1, 2].all fun lang =>
    call (valueFn p.1) (p.1.spec.get bc.2) lang == call (valueFn p.2) bc.1 lang
theorem modified_same_names : modifiedOK = true := by decide +kernel

/-- the keys of each value table are exactly the metric's defined enumeration values -/
def keysOK : Bool :=
  V3.M3.all.all fun m =>
    match funcs.find? (fun f => f.1 == valueFn m) with
    | some (_, _, tab, _) =>
      let keys := (valueTab tab).map (·.1)
      keys.all (fun k => m.spec.codes.any fun p => p.1 == k) && m.spec.codes.all (fun p => keys.contains p.1)
    | none => false
theorem keys_are_defined_values : keysOK = true := by decide +kernel

/-- **Out of range ⇒ Unknown**, for ALL integers: a value that is not a key of the table is named
    by the fall-back table (Unknown / 未定義) -/
theorem out_of_range_unknown (tab fb : String) (v : Int) (lang : Nat)
    (h : ∀ p ∈ valueTab tab, p.1 ≠ v) : valueName tab fb v lang = title fb lang := by
  unfold valueName
  have : (valueTab tab).find? (fun p => p.1 == v) = none := by
    rw [List.find?_eq_none]
    intro p hp
    simpa using h p hp
  rw [this]; rfl

theorem unknown_names : title "unknownValueNameMap" 0 = b!"Unknown" ∧ title "unknownValueNameMap" 1 = b!"未定義" := by
  decide +kernel

/-- **Other languages ⇒ English**, for ALL tags that are neither the English nor the Japanese tag:
    a table with entries only for English and Japanese yields its English entry -/
theorem other_lang_is_english (ln : LangTab) (lang : Nat) (hl : lang ≠ 0 ∧ lang ≠ 1)
    (h : ∀ p ∈ ln, p.1 = 0 ∨ p.1 = 1) : getName ln lang = getName ln 0 := by
  unfold getName
  have : ln.find? (fun p => p.1 == lang) = none := by
    rw [List.find?_eq_none]
    intro p hp
    rcases h p hp with h0 | h1
    · simp [h0]; exact fun hh => hl.1 hh.symm
    · simp [h1]; exact fun hh => hl.2 hh.symm
  rw [this]
  cases h0 : ln.find? (fun p => p.1 == 0) with
  | some p => simp
  | none => simp

end CvssVerif.Props.C18
