import CvssVerif.Props.C06
/-
  C13 — Not Defined metrics are score-neutral and temporal never exceeds base.
-/
namespace CvssVerif.Props.C13
open CvssVerif Spec3 F64

def tX : TempVec := ⟨.X, .X, .X⟩
def nX : EnvVec := ⟨.X, .X, .X, none, none, none, none, none, none, none, none⟩

/-- v3: a temporal score whose E, RL, RC are all Not Defined equals the base score -/
theorem v3_temporal_allX (v : BaseVec) : C02.modelTemporal v tX = P3.modelBase v := by
  rw [C02.temporal3_eq_spec, C01.base3_eq_spec]
  obtain ⟨h0, h1⟩ := C01.base3_range v
  have hk : baseTenths v = Int.ofNat (baseTenths v).toNat := by
    simp only [Int.ofNat_eq_natCast]; omega
  have g := (C02.temporal3_grid (baseTenths v).toNat (by omega) tX).2.2.2.1 ⟨rfl, rfl, rfl⟩
  unfold temporalTenths
  rw [hk, g]

/-- v3: the temporal score never exceeds the base score (in tenths) -/
theorem v3_temporal_le_base (v : BaseVec) (t : TempVec) : temporalTenths v t ≤ baseTenths v := by
  obtain ⟨h0, h1⟩ := C01.base3_range v
  have hk : baseTenths v = Int.ofNat (baseTenths v).toNat := by
    simp only [Int.ofNat_eq_natCast]; omega
  have g := (C02.temporal3_grid (baseTenths v).toNat (by omega) t).2.2.1
  unfold temporalTenths
  rw [hk]; exact g

/-- the impact sub-score never reaches the 0.915 cap on base values -/
theorem iss_below_cap (c i a : CIA) : min (iss c i a) (q 915 1000) = iss c i a := by
  cases c <;> cases i <;> cases a <;> decide +kernel

theorem missX_eq (c i a : CIA) :
    min (1 - (1 - wReq .X * wCIA c) * (1 - wReq .X * wCIA i) * (1 - wReq .X * wCIA a)) (q 915 1000)
      = iss c i a := by
  cases c <;> cases i <;> cases a <;> decide +kernel

/-- v3: with every environmental metric Not Defined the environmental score equals the temporal
    score — except for scope-changed v3.1 vectors, where the specification prescribes another
    polynomial for the modified impact -/
theorem v3_env_allX (v : BaseVec) (t : TempVec) (h : ¬ (v.ver = .v31 ∧ v.s = .C)) :
    envTenths v t nX = temporalTenths v t := by
  have hm : miss v nX = iss v.c v.i v.a := missX_eq v.c v.i v.a
  have hmi : modifiedImpact v.ver v.s (iss v.c v.i v.a) = impactBase v.s (iss v.c v.i v.a) := by
    obtain ⟨ver, av, ac, pr, ui, s, c, i, a⟩ := v
    cases ver <;> cases s <;> first | rfl | (exfalso; exact h ⟨rfl, rfl⟩)
  unfold envTenths temporalTenths baseTenths
  rw [hm]
  have e1 : eff nX.ms v.s = v.s := rfl
  have e2 : eff nX.mav v.av = v.av := rfl
  have e3 : eff nX.mac v.ac = v.ac := rfl
  have e4 : eff nX.mpr v.pr = v.pr := rfl
  have e5 : eff nX.mui v.ui = v.ui := rfl
  simp only [e1, e2, e3, e4, e5, hmi]
  by_cases hz : impactBase v.s (iss v.c v.i v.a) ≤ 0
  · simp only [hz, if_true]
    have g := C02.temporal3_grid 0 (by omega) t
    have h1 := g.2.1
    have h2 := g.2.2.1
    simp only [Int.ofNat_eq_natCast, Int.natCast_zero] at h1 h2
    omega
  · simp only [hz, if_false]

/-- the exception is real -/
theorem v3_env_allX_exception :
    ∃ v : BaseVec, ∃ t : TempVec, v.ver = .v31 ∧ v.s = .C ∧ envTenths v t nX ≠ temporalTenths v t :=
  ⟨⟨.v31, .N, .L, .L, .N, .C, .H, .H, .H⟩, tX, rfl, rfl, by decide +kernel⟩

/-- the same on the model's doubles -/
theorem v3_env_allX_model (v : BaseVec) (t : TempVec) (h : ¬ (v.ver = .v31 ∧ v.s = .C)) :
    P3.modelEnv v t nX = C02.modelTemporal v t := by
  rw [C03.env3_eq_spec, C02.temporal3_eq_spec, v3_env_allX v t h]

/-- v2: all Not Defined temporal metrics leave the base score; temporal never exceeds base -/
theorem v2_temporal (v : Spec2.BaseVec) (t : Option Spec2.TempVec) :
    ∃ kb kt : Int, P2.isTenth (P2.modelBase v) kb = true ∧ P2.isTenth (C04.modelTemporal v t) kt = true ∧
      kt ≤ kb ∧ (t = some ⟨.ND, .ND, .ND⟩ → kt = kb) := by
  obtain ⟨kb, hb, h0, h1, _⟩ := C04.base2_code_semantics v
  cases t with
  | none => exact ⟨kb, kb, hb, hb, Int.le_refl _, fun h => by cases h⟩
  | some t =>
    obtain ⟨r, r1, _, _, _, r5, r6⟩ := C04.temporal2_grid _ kb hb (by omega) h1 t
    refine ⟨kb, r, hb, r1, (r5 h0).1, ?_⟩
    intro ht
    cases ht
    exact r6 ⟨rfl, rfl, rfl⟩

/-- v2: an environmental score with Target Distribution None is 0 (on every vector, listed in
    F2 or not: the later stages do not depend on the finding) -/
theorem v2_env_TDN (v : Spec2.BaseVec) (t : Option Spec2.TempVec) (n : Spec2.EnvVec) (h : n.td = .N) :
    P2.isTenth (C05.modelEnv v t (some n)) 0 = true := by
  obtain ⟨av, ac, au, c, i, a⟩ := v
  obtain ⟨kb, b1, b2, b3, _, _⟩ := P2.adj_of_chk2 c i a n.cr n.ir n.ar av ac au n rfl rfl rfl
  cases t with
  | none =>
    obtain ⟨r, r1, _, _, _, r5, _⟩ := C05.env2_grid _ kb b1 b2 b3 n
    have := r5 h; subst this; exact r1
  | some t =>
    obtain ⟨kt, t1, _, t3, t4, _, _⟩ := C04.temporal2_grid _ kb b1 b2 b3 t
    obtain ⟨r, r1, _, _, _, r5, _⟩ := C05.env2_grid _ kt t1 t3 t4 n
    have := r5 h; subst this; exact r1

end CvssVerif.Props.C13
