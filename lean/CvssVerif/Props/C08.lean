import CvssVerif.Proofs.Accept2
import CvssVerif.Proofs.Deleg
/-
  C08 — v2 decoders accept exactly the canonical v2 vectors of their level.
  `Spec2.canon2 L s` is the property's grammar (executable, independent of the decoder).
  The theorem holds for every list of bytes.
-/
namespace CvssVerif.Props.C08
open CvssVerif V2

/-- **Acceptance language.** A v2 decoder of level `L` accepts a byte string iff it is the six base
    metrics in order, optionally the complete temporal group, optionally the complete
    environmental group, '/'-joined, each with one of its codes, each group only at a level that
    includes it. -/
theorem accept2_iff (L : Level) (s : Bytes) :
    (decode L Obj2.new s).2 = none ↔ Spec2.canon2 L s = true := by
  rw [canon2_iff]
  constructor
  · intro h
    have hd : decode L Obj2.new s = ((decode L Obj2.new s).1, none) := by rw [← h]
    obtain ⟨t, e, es, ht, he, hm, hcodes, hsplit, _⟩ := (decode_ok_iff L s _).mp hd
    exact ⟨t, e, ht, he, (shapeIs_iff _ _).mpr ⟨es, hm, hcodes, hsplit⟩⟩
  · rintro ⟨t, e, ht, he, hshape⟩
    obtain ⟨es, hm, hcodes, hsplit⟩ := (shapeIs_iff _ _).mp hshape
    rw [(decode_ok_iff L s _).mpr ⟨t, e, es, ht, he, hm, hcodes, hsplit, rfl⟩]

/-- **C10 (v2).** For an accepted vector the encoding succeeds and is byte-identical to the input. -/
theorem encode2_identity (L : Level) (s : Bytes) (o : Obj2) (h : decode L Obj2.new s = (o, none)) :
    encode L o = (s, none) := by
  unfold decode at h
  split at h
  · cases h
  · rename_i o1 _
    split at h
    · cases h
    · rename_i enc henc
      split at h
      · cases h
      · rename_i heq
        have ho : o1 = o := by have := congrArg Prod.fst h; simpa using this
        have hseq : s = enc := by
          cases hd : decide (s = enc)
          · exact absurd (of_decide_eq_false hd) (by simpa using heq)
          · exact of_decide_eq_true hd
        rw [← ho, henc, hseq]

example : Spec2.canon2 .base b!"AV:N/AC:L/Au:N/C:P/I:P/A:P" = true := by decide
example : Spec2.canon2 .environmental b!"AV:N/AC:L/Au:N/C:P/I:P/A:P/CDP:H/TD:H/CR:M/IR:M/AR:H" = true := by decide
example : Spec2.canon2 .temporal b!"AV:N/AC:L/Au:N/C:P/I:P/A:P/CDP:H/TD:H/CR:M/IR:M/AR:H" = false := by decide
example : Spec2.canon2 .temporal b!"AV:N/AC:L/Au:N/C:P/I:P/A:P/E:F/RC:C" = false := by decide
example : Spec2.canon2 .temporal b!"AC:L/AV:N/Au:N/C:P/I:P/A:P" = false := by decide

/-- **Model fidelity: delegation.** The model's `decodeOne` (one lookup among the metrics of all
    levels up to the decoder's) equals the literal structure of the Go code, where each level's
    `decodeOne` first calls the lower level's and handles the token itself only on "not supported
    metric". -/
theorem delegation (L : Level) (o : V2.Obj2) (tok : Bytes) : V2.decodeOneLit L o tok = V2.decodeOne L o tok :=
  V2.decodeOneLit_eq L o tok

end CvssVerif.Props.C08
