import CvssVerif.Proofs.C02Glue
import CvssVerif.Props.C01
/-
  C02 — CVSS v3 temporal score equals Roundup(BaseScore × E × RL × RC), evaluated exactly on
  the already rounded base score.
-/
namespace CvssVerif.Props.C02
open CvssVerif Spec3 V3 P3

/-- The temporal stage on the whole grid: for every rounded score k/10 (k = 0..100) and every
    one of the 100 temporal combinations the model returns the double nearest to the
    specification's Roundup, which lies between 0 and k (C13) and equals k when E, RL and RC
    are all Not Defined. -/
theorem temporal3_grid (k : Nat) (hk : k ≤ 100) (t : TempVec) :
    temporalF (tenth k) (fE t.e) (fRL t.rl) (fRC t.rc) = tenth (temporalOfTenths (Int.ofNat k) t).toNat ∧
    0 ≤ temporalOfTenths (Int.ofNat k) t ∧ temporalOfTenths (Int.ofNat k) t ≤ Int.ofNat k ∧
    ((t.e = .X ∧ t.rl = .X ∧ t.rc = .X) → temporalOfTenths (Int.ofNat k) t = Int.ofNat k) ∧
    (k ≠ 0 → 1 ≤ temporalOfTenths (Int.ofNat k) t) :=
  temp_of_chk (Gen.Temp3.all k (by omega)) t

/-- the model's temporal arithmetic on specification vectors -/
def modelTemporal (v : BaseVec) (t : TempVec) : Nat :=
  temporalF (modelBase v) (fE t.e) (fRL t.rl) (fRC t.rc)

/-- For all 518,400 (version, base, temporal) vectors the model's temporal score is the double
    nearest to the specification's. -/
theorem temporal3_eq_spec (v : BaseVec) (t : TempVec) :
    modelTemporal v t = tenth (temporalTenths v t).toNat := by
  unfold modelTemporal temporalTenths
  rw [C01.base3_eq_spec]
  obtain ⟨h0, h1⟩ := C01.base3_range v
  have hk : baseTenths v = Int.ofNat (baseTenths v).toNat := by
    simp only [Int.ofNat_eq_natCast]; omega
  have := (temporal3_grid (baseTenths v).toNat (by omega) t).1
  rw [← hk] at this
  exact this

/-- an object whose temporal fields hold the Go enumeration values of `t` -/
def EncodesT (o : Obj3) (t : TempVec) : Prop :=
  o.field .E = iE t.e ∧ o.field .RL = iRL t.rl ∧ o.field .RC = iRC t.rc

/-- `(*Temporal).Score()` (validity test included) on any object holding a valid base and
    temporal assignment is the specification's temporal score. -/
theorem temporal3_score_of_object (o : Obj3) (v : BaseVec) (t : TempVec)
    (hb : C01.Encodes o v) (ht : EncodesT o t) :
    temporalScore o = tenth (temporalTenths v t).toNat := by
  have hbs := C01.base3_score_of_object o v hb
  obtain ⟨hv, h1, h2, h3, h4, h5, h6, h7, h8⟩ := hb
  obtain ⟨t1, t2, t3⟩ := ht
  have hge : getErrorBase o = none := by
    unfold getErrorBase baseMs
    simp [h1, h2, h3, h4, h5, h6, h7, h8, hv, iVer_ne, iAV_ne, iAC_ne, iPR_ne, iUI_ne, iS_ne,
      iC_ne, iI_ne, iA_ne]
  have hgt : getErrorTemporal o = none := by
    unfold getErrorTemporal tempMs
    simp [hge, t1, t2, t3, iE_valid, iRL_valid, iRC_valid]
  unfold temporalScore
  rw [hgt, hbs, t1, t2, t3, ← C01.base3_eq_spec]
  exact temporal3_eq_spec v t

/-- non-vacuity -/
example : temporalTenths ⟨.v31, .N, .L, .N, .N, .C, .H, .H, .H⟩ ⟨.U, .O, .U⟩ = 80 := by decide +kernel

end CvssVerif.Props.C02
