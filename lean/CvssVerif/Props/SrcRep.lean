import CvssVerif.Generated.Wiring
import CvssVerif.Props.C17
/-
  The tie by translation of the report constructors (C17): what go/wiring reads off the source text of `NewBase`,
  `NewTemporal`, `NewEnvironmental` and of the options glue of /repo/v3/report on every run (`Generated/Wiring.lean`) is the
  declarative schema `Report.schema` all C17 theorems are stated about: every field of every constructor is initialised
  from the names function / metric / level the schema prescribes, each constructor embeds the report of the next lower
  level built from the accessor's view with the same options, and the default language is English.

  Not imported by the property modules; `check.py C17` rebuilds it and reports.
-/
namespace CvssVerif.Props.SrcRep
open CvssVerif CvssVerif.Report

/-- every field of each constructor's literal is what the schema says (as sets of (field, initialiser); the literal's order is free) -/
theorem constructors_are_schema :
    sameFields Gen.Wiring.NewBase (baseSchema.map fun p => (p.1, p.2.toG)) = true ∧
    sameFields Gen.Wiring.NewTemporal (temporalSchema.map fun p => (p.1, p.2.toG)) = true ∧
    sameFields Gen.Wiring.NewEnvironmental (envSchema.map fun p => (p.1, p.2.toG)) = true := by
  refine ⟨?_, ?_, ?_⟩ <;> decide

/-- no field is initialised twice with different things -/
theorem fields_unique :
    (Gen.Wiring.NewBase.map (·.1)).Nodup ∧ (Gen.Wiring.NewTemporal.map (·.1)).Nodup ∧ (Gen.Wiring.NewEnvironmental.map (·.1)).Nodup := by
  refine ⟨?_, ?_, ?_⟩ <;> decide

/-- the embedding that `Report.schema` flattens: `TemporalReport.BaseReport` is `NewBase` of the temporal object's base view,
    `EnvironmentalReport.TemporalReport` is `NewTemporal` of its temporal view, both with the caller's options -/
theorem embedding_is_schema :
    Gen.Wiring.embeds = [("NewTemporal", "BaseReport", "NewBase", "BaseMetrics"),
                         ("NewEnvironmental", "TemporalReport", "NewTemporal", "TemporalMetrics")] := by
  decide

/-- the report of a constructor called without a language option is the English one; `WithOptionsLanguage` stores its argument -/
theorem options_default_english : Gen.Wiring.optionsGlue = ("English", "lang := argument") := by decide

end CvssVerif.Props.SrcRep
