import CvssVerif.Basic.F64
/-! Self-test of the soft-float against the hardware `Float` (not part of the library build). -/
open CvssVerif.F64

def lcg (s : UInt64) : UInt64 := s * 6364136223846793005 + 1442695040888963407

def mkF (r : UInt64) (span : UInt64) : UInt64 :=
  let sign := (r >>> 63) <<< 63
  let e : UInt64 := (1023 : UInt64) - span + ((r >>> 40) % (2*span+1))
  let fr := (lcg r) &&& 0xFFFFFFFFFFFFF
  let fr := if (r >>> 20) % 7 == 0 then 0 else if (r >>> 20) % 7 == 1 then fr &&& 0xFFFFF00000000 else fr
  sign ||| (e <<< 52) ||| fr

def hb (f : Float) : Nat := f.toBits.toNat
def fb (n : Nat) : Float := Float.ofBits n.toUInt64

def check (name : String) (a b : Nat) (got want : Nat) (bad : IO.Ref Nat) : IO Unit := do
  if got != want then
    bad.modify (· + 1)
    if (← bad.get) < 20 then
      IO.println s!"MISMATCH {name} a={a} b={b} got={got} want={want}"

def main (args : List String) : IO UInt32 := do
  let n := (args.head? >>= String.toNat?).getD 200000
  let bad ← IO.mkRef 0
  let mut s : UInt64 := 88172645463325252
  for _ in [0:n] do
    s := lcg s
    let a := (mkF s 40).toNat
    s := lcg s
    let b := (mkF s 40).toNat
    let fa := fb a; let fb' := fb b
    check "mul" a b (mul a b) (hb (fa * fb')) bad
    check "add" a b (add a b) (hb (fa + fb')) bad
    check "sub" a b (sub a b) (hb (fa - fb')) bad
    check "div" a b (div a b) (hb (fa / fb')) bad
    check "round" a 0 (round a) (hb fa.round) bad
    check "floor" a 0 (floor a) (hb fa.floor) bad
    check "lt" a b (if lt a b then 1 else 0) (if fa < fb' then 1 else 0) bad
    check "le" a b (if le a b then 1 else 0) (if fa ≤ fb' then 1 else 0) bad
    -- nearby exponents: cancellation
    s := lcg s
    let c := (mkF s 2).toNat
    s := lcg s
    let d := (mkF s 2).toNat
    let fc := fb c; let fd := fb d
    check "add2" c d (add c d) (hb (fc + fd)) bad
    check "sub2" c d (sub c d) (hb (fc - fd)) bad
    check "mul2" c d (mul c d) (hb (fc * fd)) bad
    check "div2" c d (div c d) (hb (fc / fd)) bad
    check "round2" c 0 (round (mul c (ofNat 100000))) (hb (fc * 100000.0).round) bad
    check "floor2" c 0 (floor (mul c (ofNat 1000))) (hb (fc * 1000.0).floor) bad
    let ti := toInt (mul c (ofNat 1000))
    let hi := (fc * 1000.0).toInt64.toInt
    if ti != hi then
      bad.modify (· + 1); IO.println s!"MISMATCH toInt c={c} got={ti} want={hi}"
  -- decimal constants
  for k in [0:4] do
    for m in [0:2000] do
      let got := ofDec m k
      let want := hb (Float.ofScientific m true k)
      check "ofDec" m k got want bad
  for m in [0:200001] do
    check "ofNat" m 0 (ofNat m) (hb (Float.ofNat m)) bad
  -- subnormal / tiny products
  for i in [0:2000] do
    s := lcg s
    let a := ((s >>> 12) ||| 1).toNat % two52 + (((s % 40) + 1).toNat <<< 52)
    s := lcg s
    let b := (mkF s 3).toNat
    check "mul-sub" a b (mul a b) (hb (fb a * fb b)) bad
    check "add-sub" a b (add a (mul a b)) (hb (fb a + fb a * fb b)) bad
    let _ := i
  let nb ← bad.get
  IO.println s!"f64 self-test: {n} rounds, mismatches={nb}"
  return (if nb == 0 then 0 else 1)
