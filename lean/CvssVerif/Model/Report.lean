import CvssVerif.Model.Names
/-
  Model of package `v3/report`: the three report constructors (as a declarative schema: which
  report field shows what) and the template-export glue with the template engine as a parameter.
-/
namespace CvssVerif.Report
open CvssVerif V3

/-- what a report field shows -/
inductive Src
  | version                 -- the object's version label
  | vector (l : Level)      -- the canonical encoding at the report's level
  | header (fn : String)    -- a column header / group title function of the names package
  | title (m : M3)          -- localised title of metric m
  | value (m : M3)          -- localised name of the object's value of metric m
  | score (l : Level)       -- decimal rendering of the level's score
  | sevTitle                -- localised "Severity"
  | sevValue (l : Level)    -- localised name of the level's severity

/-- `BaseReport`, field by field, in declaration order -/
def baseSchema : List (String × Src) := [
  ("Version", .version), ("Vector", .vector .base),
  ("BaseMetrics", .header "BaseMetrics"), ("BaseMetricValue", .header "BaseMetricsValueOf"),
  ("AVName", .title .AV), ("AVValue", .value .AV), ("ACName", .title .AC), ("ACValue", .value .AC),
  ("PRName", .title .PR), ("PRValue", .value .PR), ("UIName", .title .UI), ("UIValue", .value .UI),
  ("SName", .title .S), ("SValue", .value .S), ("CName", .title .C), ("CValue", .value .C),
  ("IName", .title .I), ("IValue", .value .I), ("AName", .title .A), ("AValue", .value .A),
  ("BaseScore", .score .base), ("SeverityName", .sevTitle), ("SeverityValue", .sevValue .base)]

/-- the fields `TemporalReport` adds to its embedded `*BaseReport` (shadowing Vector and the
    two Severity fields) -/
def temporalSchema : List (String × Src) := [
  ("Vector", .vector .temporal),
  ("TemporalMetrics", .header "TemporalMetrics"), ("TemporalMetricValue", .header "TemporalMetricsValueOf"),
  ("EName", .title .E), ("EValue", .value .E), ("RLName", .title .RL), ("RLValue", .value .RL),
  ("RCName", .title .RC), ("RCValue", .value .RC),
  ("TemporalScore", .score .temporal), ("SeverityName", .sevTitle), ("SeverityValue", .sevValue .temporal)]

def envSchema : List (String × Src) := [
  ("Vector", .vector .environmental),
  ("EnvironmentalMetrics", .header "EnvironmentalMetrics"), ("EnvironmentalMetricValue", .header "EnvironmentalMetricsValueOf"),
  ("CRName", .title .CR), ("CRValue", .value .CR), ("IRName", .title .IR), ("IRValue", .value .IR),
  ("ARName", .title .AR), ("ARValue", .value .AR),
  ("MAVName", .title .MAV), ("MAVValue", .value .MAV), ("MACName", .title .MAC), ("MACValue", .value .MAC),
  ("MPRName", .title .MPR), ("MPRValue", .value .MPR), ("MUIName", .title .MUI), ("MUIValue", .value .MUI),
  ("MSName", .title .MS), ("MSValue", .value .MS), ("MCName", .title .MC), ("MCValue", .value .MC),
  ("MIName", .title .MI), ("MIValue", .value .MI), ("MAName", .title .MA), ("MAValue", .value .MA),
  ("EnvironmentalScore", .score .environmental), ("SeverityName", .sevTitle), ("SeverityValue", .sevValue .environmental)]

/-- all field paths of a report of level `L`, embedded reports included (`TemporalReport.BaseReport.X`) -/
def schema : Level → List (String × Src)
  | .base => baseSchema
  | .temporal => temporalSchema ++ baseSchema.map fun p => ("BaseReport." ++ p.1, p.2)
  | .environmental => envSchema ++ (temporalSchema.map fun p => ("TemporalReport." ++ p.1, p.2))
      ++ baseSchema.map fun p => ("TemporalReport.BaseReport." ++ p.1, p.2)

/-- the tenths a grid double stands for (search; v3 scores are never negative) -/
def tenthsOfBits (b : Nat) : Option Nat := (List.range 101).find? fun k => F64.ofDec k 1 == b

def digits (n : Nat) : Bytes := if n ≥ 10 then [48 + n / 10, 48 + n % 10] else [48 + n]
/-- `strconv.FormatFloat(x, 'f', -1, 64)` on the tenth grid -/
def fmtScore (b : Nat) : Bytes :=
  match tenthsOfBits b with
  | some k => if k % 10 = 0 then digits (k / 10) else digits (k / 10) ++ [46, 48 + k % 10]
  | none => b!"?"

def eval (o : Obj3) (lang : Nat) : Src → Bytes
  | .version => verStr o.ver
  | .vector l => (encode l o).1
  | .header fn => (Names.call fn 0 lang).getD []
  | .title m => (Names.call (Names.titleFn m) 0 lang).getD []
  | .value m => (Names.call (Names.valueFn m) (o.field m) lang).getD []
  | .score l => fmtScore (score l o)
  | .sevTitle => (Names.call "Severity" 0 lang).getD []
  | .sevValue l => (Names.call "SeverityValueOf" (severity l o) lang).getD []

/-- the same schema evaluated with the scores and severities given from outside (what the
    correspondence check feeds with the implementation's own `Score()` / `Severity()` results, so
    that C17 is compared on "each score field renders *that object's* score" and not on the value
    of the score, which is C01–C03's business) -/
def evalWith (sc : Level → Bytes) (sv : Level → Int) (o : Obj3) (lang : Nat) : Src → Bytes
  | .score l => sc l
  | .sevValue l => (Names.call "SeverityValueOf" (sv l) lang).getD []
  | src => eval o lang src

theorem eval_eq_evalWith (o : Obj3) (lang : Nat) (src : Src) :
    eval o lang src = evalWith (fun l => fmtScore (score l o)) (fun l => severity l o) o lang src := by
  cases src <;> rfl

def mkReportWith (sc : Level → Bytes) (sv : Level → Int) (L : Level) (o : Obj3) (lang : Nat) : List (String × Bytes) :=
  (schema L).map fun p => (p.1, evalWith sc sv o lang p.2)

/-- `NewBase` / `NewTemporal` / `NewEnvironmental`: every exported string field by path -/
def mkReport (L : Level) (o : Obj3) (lang : Nat) : List (String × Bytes) :=
  (schema L).map fun p => (p.1, eval o lang p.2)

/-! ### template export -/

/-- the `io.Reader` argument: the nil interface, a reader that fails, or one that delivers `t` -/
inductive Reader | nil | fails | content (t : Bytes)

/-- `getTempleteString` -/
def templateOf : Reader → Except Err Bytes
  | .nil => .error .invalidTemplate
  | .fails => .error .invalidTemplate
  | .content t => .ok t

/-- `ExportWithString` with the engine (`template.New(..).Parse(t)` then `Execute`) as parameter -/
def exportWithString (engine : Bytes → Option Bytes) (reportNil : Bool) (t : Bytes) : Option Bytes × Option Err :=
  if reportNil then (none, some .nullPointer)
  else match engine t with
    | some out => (some out, none)
    | none => (none, some .invalidTemplate)

/-- `ExportWith` -/
def exportWith (engine : Bytes → Option Bytes) (reportNil : Bool) (r : Reader) : Option Bytes × Option Err :=
  match templateOf r with
  | .error e => (none, some e)
  | .ok t => exportWithString engine reportNil t

end CvssVerif.Report
