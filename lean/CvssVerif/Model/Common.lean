import CvssVerif.Basic.Bytes
import CvssVerif.Basic.Vocab
import CvssVerif.Basic.F64
/-
  Shared vocabulary of the models of `v3/metric` and `v2/metric`.
-/
namespace CvssVerif

/-- A metric as the decoder sees it: its name, the level whose `decodeOne` handles it, the
    value ↔ code table (`map[T]string` in Go) and the value the constructor stores. The
    unknown / invalid value of every metric type is 0 (the `iota` zero). -/
structure Metric where
  name  : Bytes
  level : Level
  codes : List (Int × Bytes)
  init  : Int

/-- `GetXxx(s)`: the value whose code is `s`, else 0 -/
def Metric.get (m : Metric) (s : Bytes) : Int :=
  match m.codes.find? (fun p => p.2 == s) with
  | some p => p.1
  | none => 0

/-- `Xxx.String()`: the code of the value, else "" -/
def Metric.str (m : Metric) (v : Int) : Bytes :=
  match m.codes.find? (fun p => p.1 == v) with
  | some p => p.2
  | none => []

/-- lookup in a `map[T]float64` with a default (`Value()` methods) -/
def wlookup (tbl : List (Int × Nat)) (dflt : Nat) (v : Int) : Nat :=
  match tbl.find? (fun p => p.1 == v) with
  | some p => p.2
  | none => dflt

def wmem (tbl : List (Int × Nat)) (v : Int) : Bool := tbl.any (fun p => p.1 == v)

end CvssVerif
