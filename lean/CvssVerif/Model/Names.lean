import CvssVerif.Generated.Names
import CvssVerif.Model.V3
/-
  Model of package `v3/report/names` over the tables regenerated from its source
  (`Generated/Names.lean`).  A language tag is modelled by what the tables can distinguish:
  0 = exactly `language.English`, 1 = exactly `language.Japanese`, anything else = another tag
  (regional variants such as `en-US` or `ja-JP` are other tags: the maps are keyed by `Tag`).
-/
namespace CvssVerif.Names
open CvssVerif Gen.Names

/-- `langNameMap.getNameInLang`: the entry of the language, else the English entry, else "" -/
def getName (ln : LangTab) (lang : Nat) : Bytes :=
  match ln.find? (fun p => p.1 == lang) with
  | some p => p.2
  | none =>
    match ln.find? (fun p => p.1 == 0) with
    | some p => p.2
    | none => []

def titleTab (name : String) : LangTab := ((titleTabs.find? (fun p => p.1 == name)).map (·.2)).getD []
def valueTab (name : String) : List (Int × LangTab) := ((valueTabs.find? (fun p => p.1 == name)).map (·.2)).getD []

/-- a title / header function: `XxxTitleMap.getNameInLang(lang)` -/
def title (tab : String) (lang : Nat) : Bytes := getName (titleTab tab) lang

/-- a value-name function: the value's names if the value is in the table, else the fall-back
    table ("Unknown") -/
def valueName (tab fallback : String) (v : Int) (lang : Nat) : Bytes :=
  match (valueTab tab).find? (fun p => p.1 == v) with
  | some p => getName p.2 lang
  | none => getName (titleTab fallback) lang

/-- call an exported function of the package by name (`v` is ignored by title functions) -/
def call (fname : String) (v : Int) (lang : Nat) : Option Bytes :=
  match funcs.find? (fun f => f.1 == fname) with
  | some (_, true, tab, fb) => some (valueName tab fb v lang)
  | some (_, false, tab, _) => some (title tab lang)
  | none => none

/-- the value-name function and title function of each metric, by the package's naming scheme -/
def valueFn (m : V3.M3) : String := bytesToStr m.spec.name ++ "ValueOf"
def titleFn : V3.M3 → String
  | .AV => "AttackVector" | .AC => "AttackComplexity" | .PR => "PrivilegesRequired" | .UI => "UserInteraction"
  | .S => "Scope" | .C => "ConfidentialityImpact" | .I => "IntegrityImpact" | .A => "AvailabilityImpact"
  | .E => "Exploitability" | .RL => "RemediationLevel" | .RC => "ReportConfidence"
  | .CR => "ConfidentialityRequirement" | .IR => "IntegrityRequirement" | .AR => "AvailabilityRequirement"
  | .MAV => "ModifiedAttackVector" | .MAC => "ModifiedAttackComplexity" | .MPR => "ModifiedPrivilegesRequired"
  | .MUI => "ModifiedUserInteraction" | .MS => "ModifiedScope" | .MC => "ModifiedConfidentialityImpact"
  | .MI => "ModifiedIntegrityImpact" | .MA => "ModifiedAvailabilityImpact"

/-- language code of a tag string as the harness passes it -/
def langOf (tag : String) : Nat :=
  if tag == "en" || tag == "-" then 0      -- "-": no language option given, the default is English
  else if tag == "ja" then 1 else 2

end CvssVerif.Names
