import CvssVerif.Driver.Dump
import CvssVerif.Model.Report
/-
  The stateful core: a pool of metrics objects (what one process holds), operations on them, and
  the history interpreter used by the correspondence (`H` operation of the driver).

  A pool slot is (object id, level): the level-`l` view of an object (`BaseMetrics()`,
  `TemporalMetrics()`) is the same object id at the lower level — in Go it is the embedded
  pointer, so the view aliases the object.
-/
namespace CvssVerif.Heap
open CvssVerif

inductive AnyObj
  | v3 (o : V3.Obj3)
  | v2 (o : V2.Obj2)

/-- operations on one object at a level -/
inductive ObjOp
  | decode (L : Level) (s : Bytes)      -- mutates the receiver
  | query (L : Level)                   -- every observer of the object at the level
  | report (L : Level) (lang : Nat)     -- report construction (v3)
  | export (L : Level) (k : Nat)        -- report construction + export with the k-th of a few fixed templates

def amp (s : String) : String := s.replace " " "&"

/-- a template made of literal text and `{{.Field}}` actions only -/
inductive Seg
  | lit (b : Bytes)
  | fld (name : String)

/-- the templates of the history operations `X<i>,<k>` (the Go harness holds the same texts);
    `none`: a template that does not parse or cannot be executed -/
def templates : List (Option (List Seg)) := [
  some [.fld "Vector", .lit b!"|", .fld "SeverityValue", .lit b!"|", .fld "BaseScore"],
  some [.lit b!"B ", .fld "BaseScore", .lit b!" S ", .fld "SeverityName", .lit b!"=", .fld "SeverityValue"],
  some [.fld "Version", .lit b!":", .fld "AVName", .lit b!"=", .fld "AVValue"],
  some [.fld "BaseMetrics", .lit b!"/", .fld "Vector", .lit b!"/", .fld "Version"],
  none,
  none,
  -- texts that define a named sub-template "cell" (a different body in each) and apply it: what the engine renders
  some [.lit b!"<1:", .fld "SeverityValue", .lit b!"> <1:", .fld "Vector", .lit b!">"],
  some [.lit b!"<2:", .fld "SeverityValue", .lit b!"> <2:", .fld "Vector", .lit b!">"],
  some [.lit b!"[3:", .fld "Version", .lit b!"]-[3:", .fld "SeverityName", .lit b!"]"],
  some [.lit b!"(4)", .fld "Vector"]]

def depth (path : String) : Nat := (path.splitOn ".").length

/-- Go field promotion: `.Name` on a report is the shallowest field of that name -/
def lookupField (fs : List (String × Bytes)) (name : String) : Option Bytes :=
  let cands := fs.filter fun p => (p.1.splitOn ".").getLast? == some name
  (cands.foldl (fun (best : Option (String × Bytes)) p =>
    match best with
    | none => some p
    | some b => if depth p.1 < depth b.1 then some p else some b) none).map (·.2)

def render (fs : List (String × Bytes)) : List Seg → Option Bytes
  | [] => some []
  | .lit b :: rest => (render fs rest).map (b ++ ·)
  | .fld n :: rest => do let v ← lookupField fs n; let r ← render fs rest; pure (v ++ r)

/-- export of the level-`L` report (English) with template `k` -/
def exportK (L : Level) (o : V3.Obj3) (k : Nat) : String :=
  match templates[k]? with
  | some (some segs) =>
    match render (Report.mkReport L o 0) segs with
    | some out => s!"out:{toHex out}|-"
    | none => "noout|" ++ Drv.errTag (some Err.invalidTemplate)
  | _ => "noout|" ++ Drv.errTag (some Err.invalidTemplate)

def insertSorted (x : String) : List String → List String
  | [] => [x]
  | y :: ys => if x ≤ y then x :: y :: ys else y :: insertSorted x ys

/-- the action of an operation on an object: new object and output line -/
def act : ObjOp → AnyObj → AnyObj × String
  | .decode L s, .v3 o =>
    let r := V3.decode L o s
    (.v3 r.1, s!"r={if r.2.isNone then "1" else "0"} e={Drv.errTag r.2}")
  | .decode L s, .v2 o =>
    let r := V2.decode L o s
    (.v2 r.1, s!"r={if r.2.isNone then "1" else "0"} e={Drv.errTag r.2}")
  | .query L, .v3 o => (.v3 o, amp (Drv.dump3 L o))
  | .query L, .v2 o => (.v2 o, amp (Drv.dump2 L o))
  | .report L lang, .v3 o =>
    let fields := (Report.mkReport L o lang).map fun p => s!"{p.1}={toHex p.2}"
    (.v3 o, "&".intercalate (fields.foldl (fun acc x => insertSorted x acc) []))
  | .report _ _, .v2 o => (.v2 o, "noreport")
  | .export L k, .v3 o => (.v3 o, exportK L o k)
  | .export _ _, .v2 o => (.v2 o, "noreport")

/-- which operations may change the object -/
def ObjOp.writes : ObjOp → Bool
  | .decode _ _ => true
  | _ => false

/-- **Queries are pure**: scoring, severity, validity, encoding, string conversion, accessors,
    report construction and export leave the object exactly as it was. -/
theorem query_pure (op : ObjOp) (h : op.writes = false) (o : AnyObj) : (act op o).1 = o := by
  cases op <;> cases o <;> first | rfl | cases h

/-! ### the pool (driver side) -/

structure Pool where
  objs  : List AnyObj
  slots : List (Nat × Nat × Level)      -- slot ↦ (object id, version, level)

def lvl (s : String) : Option Level :=
  if s == "B" then some .base else if s == "T" then some .temporal else if s == "E" then some .environmental else none

def setAt (l : List AnyObj) (i : Nat) (o : AnyObj) : List AnyObj := l.set i o

/-- one textual history operation (same syntax as the Go harness) -/
def hstep (p : Pool) (op : String) : Pool × String :=
  let c := op.get 0
  let rest := (op.drop 1).toString
  let slotOf (s : String) : Option (Nat × Nat × Level) := s.toNat? >>= fun i => p.slots[i]?
  let onObj (s : String) (mk : Level → ObjOp) : Pool × String :=
    match slotOf s with
    | some (id, _, L) =>
      match p.objs[id]? with
      | some o => let r := act (mk L) o; ({ p with objs := setAt p.objs id r.1 }, r.2)
      | none => (p, "bad")
    | none => (p, "bad")
  if c == 'N' then
    match lvl (rest.drop 1).toString with
    | some L =>
      let ver := if rest.get 0 == '3' then 3 else 2
      let o := if ver == 3 then AnyObj.v3 V3.Obj3.new else AnyObj.v2 V2.Obj2.new
      ({ objs := p.objs ++ [o], slots := p.slots ++ [(p.objs.length, ver, L)] }, "ok")
    | none => (p, "bad")
  else if c == 'D' then
    match rest.splitOn "," with
    | [i, h] => (match ofHex h with
        | some s => onObj i (fun L => .decode L s)
        | none => (p, "bad"))
    | _ => (p, "bad")
  else if c == 'Q' then onObj rest (fun L => .query L)
  else if c == 'V' then
    match rest.splitOn "," with
    | [i, l] =>
      match slotOf i, lvl l with
      | some (id, ver, L), some l' =>
        if l'.toNat < L.toNat then ({ p with slots := p.slots ++ [(id, ver, l')] }, "ok") else (p, "noview")
      | _, _ => (p, "bad")
    | _ => (p, "bad")
  else if c == 'R' then
    match rest.splitOn "," with
    | [i, tag] => onObj i (fun L => .report L (Names.langOf tag))
    | _ => (p, "bad")
  else if c == 'X' then
    match rest.splitOn "," with
    | [i] => onObj i (fun L => .export L 0)
    | [i, k] => onObj i (fun L => .export L (k.toNat?.getD 0))
    | _ => (p, "bad")
  else (p, "bad")

def runHistory (h : String) : String :=
  let ops := (h.splitOn ";").filter (· ≠ "")
  let r := ops.foldl (fun (acc : Pool × List String) op => let s := hstep acc.1 op; (s.1, s.2 :: acc.2)) (⟨[], []⟩, [])
  ";".intercalate r.2.reverse

end CvssVerif.Heap
