import CvssVerif.Model.Common
/-
  Model of package `v2/metric` as it is written.  Same conventions as `Model/V3.lean`.
  The v2 decoders accept only the canonical spelling: after the token loop the object is
  re-encoded and compared with the input.
-/
namespace CvssVerif.V2
open CvssVerif F64

inductive M2
  | AV | AC | Au | C | I | A
  | E | RL | RC
  | CDP | TD | CR | IR | AR
  deriving DecidableEq, Repr, Inhabited

open M2

def M2.all : List M2 := [AV, AC, Au, C, I, A, E, RL, RC, CDP, TD, CR, IR, AR]
def baseMs : List M2 := [AV, AC, Au, C, I, A]
def tempMs : List M2 := [E, RL, RC]
def envMs : List M2 := [CDP, TD, CR, IR, AR]

def M2.spec : M2 → Metric
  | AV  => ⟨b!"AV", .base, [(1, b!"L"), (2, b!"A"), (3, b!"N")], 0⟩
  | AC  => ⟨b!"AC", .base, [(1, b!"H"), (2, b!"M"), (3, b!"L")], 0⟩
  | Au  => ⟨b!"Au", .base, [(1, b!"N"), (2, b!"S"), (3, b!"M")], 0⟩
  | C   => ⟨b!"C", .base, [(1, b!"N"), (2, b!"P"), (3, b!"C")], 0⟩
  | I   => ⟨b!"I", .base, [(1, b!"N"), (2, b!"P"), (3, b!"C")], 0⟩
  | A   => ⟨b!"A", .base, [(1, b!"N"), (2, b!"P"), (3, b!"C")], 0⟩
  | E   => ⟨b!"E", .temporal, [(1, b!"ND"), (2, b!"U"), (3, b!"POC"), (4, b!"F"), (5, b!"H")], 0⟩
  | RL  => ⟨b!"RL", .temporal, [(1, b!"ND"), (2, b!"OF"), (3, b!"TF"), (4, b!"W"), (5, b!"U")], 0⟩
  | RC  => ⟨b!"RC", .temporal, [(1, b!"ND"), (2, b!"UC"), (3, b!"UR"), (4, b!"C")], 0⟩
  | CDP => ⟨b!"CDP", .environmental,
            [(1, b!"ND"), (2, b!"N"), (3, b!"L"), (4, b!"LM"), (5, b!"MH"), (6, b!"H")], 0⟩
  | TD  => ⟨b!"TD", .environmental, [(1, b!"ND"), (2, b!"N"), (3, b!"L"), (4, b!"M"), (5, b!"H")], 0⟩
  | CR  => ⟨b!"CR", .environmental, [(1, b!"ND"), (2, b!"L"), (3, b!"M"), (4, b!"H")], 0⟩
  | IR  => ⟨b!"IR", .environmental, [(1, b!"ND"), (2, b!"L"), (3, b!"M"), (4, b!"H")], 0⟩
  | AR  => ⟨b!"AR", .environmental, [(1, b!"ND"), (2, b!"L"), (3, b!"M"), (4, b!"H")], 0⟩

def d (n k : Nat) : Nat := ofDec n k

def wAV  : List (Int × Nat) := [(1, 0x3FD947AE147AE148 /-395e-3-/), (2, 0x3FE4AC083126E979 /-646e-3-/), (3, one)]
def wAC  : List (Int × Nat) := [(1, 0x3FD6666666666666 /-35e-2-/), (2, 0x3FE3851EB851EB85 /-61e-2-/), (3, 0x3FE6B851EB851EB8 /-71e-2-/)]
def wAu  : List (Int × Nat) := [(1, 0x3FE6872B020C49BA /-704e-3-/), (2, 0x3FE1EB851EB851EC /-56e-2-/), (3, 0x3FDCCCCCCCCCCCCD /-45e-2-/)]
def wCIA : List (Int × Nat) := [(1, 0), (2, 0x3FD199999999999A /-275e-3-/), (3, 0x3FE51EB851EB851F /-66e-2-/)]
def wE   : List (Int × Nat) := [(1, one), (2, 0x3FEB333333333333 /-85e-2-/), (3, 0x3FECCCCCCCCCCCCD /-9e-1-/), (4, 0x3FEE666666666666 /-95e-2-/), (5, one)]
def wRL  : List (Int × Nat) := [(1, one), (2, 0x3FEBD70A3D70A3D7 /-87e-2-/), (3, 0x3FECCCCCCCCCCCCD /-9e-1-/), (4, 0x3FEE666666666666 /-95e-2-/), (5, one)]
def wRC  : List (Int × Nat) := [(1, one), (2, 0x3FECCCCCCCCCCCCD /-9e-1-/), (3, 0x3FEE666666666666 /-95e-2-/), (4, one)]
def wCDP : List (Int × Nat) := [(1, 0), (2, 0), (3, 0x3FB999999999999A /-1e-1-/), (4, 0x3FD3333333333333 /-3e-1-/), (5, 0x3FD999999999999A /-4e-1-/), (6, 0x3FE0000000000000 /-5e-1-/)]
def wTD  : List (Int × Nat) := [(1, one), (2, 0), (3, 0x3FD0000000000000 /-25e-2-/), (4, 0x3FE8000000000000 /-75e-2-/), (5, one)]
def wReq : List (Int × Nat) := [(1, one), (2, 0x3FE0000000000000 /-5e-1-/), (3, one), (4, 0x3FF828F5C28F5C29 /-151e-2-/)]

/-- `Value()` -/
def value : M2 → Int → Nat
  | AV, v => wlookup wAV 0 v
  | AC, v => wlookup wAC 0 v
  | Au, v => wlookup wAu 0 v
  | C, v | I, v | A, v => wlookup wCIA 0 v
  | E, v => wlookup wE one v
  | RL, v => wlookup wRL one v
  | RC, v => wlookup wRC one v
  | CDP, v => wlookup wCDP 0 v
  | TD, v => wlookup wTD 0 v
  | CR, v | IR, v | AR, v => wlookup wReq 0 v

structure Obj2 where
  field : M2 → Int
  named : M2 → Bool

def Obj2.new : Obj2 := ⟨fun _ => 0, fun _ => false⟩
def Obj2.set (o : Obj2) (m : M2) (v : Int) : Obj2 :=
  { o with field := fun m' => if m' = m then v else o.field m' }
def Obj2.mark (o : Obj2) (m : M2) : Obj2 :=
  { o with named := fun m' => if m' = m then true else o.named m' }

def msOf (L : Level) : List M2 := M2.all.filter fun m => m.spec.level.le L

/-- `Temporal.IsEmpty()` / `Environmental.IsEmpty()` -/
def tempEmpty (o : Obj2) : Bool := !tempMs.any o.named
def envEmpty (o : Obj2) : Bool := !envMs.any o.named

def getErrorBase (o : Obj2) : Option Err :=
  if baseMs.any (fun m => o.field m == 0) then some .noBaseMetrics else none

def getErrorTemporal (o : Obj2) : Option Err :=
  match getErrorBase o with
  | some e => some e
  | none =>
    if tempEmpty o then none
    else if tempMs.any (fun m => o.field m == 0) then some .noTemporalMetrics else none

def getErrorEnv (o : Obj2) : Option Err :=
  match getErrorTemporal o with
  | some e => some e
  | none =>
    if envEmpty o then none
    else if envMs.any (fun m => o.field m == 0) then some .noEnvironmentalMetrics else none

def getError : Level → Obj2 → Option Err
  | .base => getErrorBase
  | .temporal => getErrorTemporal
  | .environmental => getErrorEnv

def tokOf (m : M2) (o : Obj2) : Bytes := m.spec.name ++ [colon] ++ m.spec.str (o.field m)

def encodeBaseStr (o : Obj2) : Bytes :=
  join slash ((baseMs.filter o.named).map fun m => tokOf m o)
def encodeTemporalStr (o : Obj2) : Bytes :=
  encodeBaseStr o ++ ((tempMs.filter o.named).map fun m => [slash] ++ tokOf m o).flatten
def encodeEnvStr (o : Obj2) : Bytes :=
  encodeTemporalStr o ++ ((envMs.filter o.named).map fun m => [slash] ++ tokOf m o).flatten

def encodeStr : Level → Obj2 → Bytes
  | .base => encodeBaseStr
  | .temporal => encodeTemporalStr
  | .environmental => encodeEnvStr

/-- `Encode()` on a non-nil receiver -/
def encode (L : Level) (o : Obj2) : Bytes × Option Err := (encodeStr L o, getError L o)

def findMetric (L : Level) (name : Bytes) : Option M2 :=
  (msOf L).find? fun m => m.spec.name == name

/-- `decodeOne`, delegation flattened (see `Model/V3.lean`) -/
def decodeOne (L : Level) (o : Obj2) (tok : Bytes) : Obj2 × Option Err :=
  match split colon tok with
  | [n, v] =>
    if n = [] ∨ v = [] then (o, some .invalidVector) else
    match findMetric L n with
    | none => (o, some .notSupportMetric)
    | some m =>
      if o.named m then (o, some .sameMetric) else
      let x := m.spec.get v
      let o1 := o.set m x
      if x = 0 then (o1, some .invalidValue) else (o1.mark m, none)
  | _ => (o, some .invalidVector)

def decodeLoop (L : Level) : Obj2 → Option Err → List Bytes → Obj2 × Option Err
  | o, last, [] => (o, last)
  | o, last, t :: ts =>
    match decodeOne L o t with
    | (o', none) => decodeLoop L o' last ts
    | (o', some .notSupportMetric) => decodeLoop L o' (some .notSupportMetric) ts
    | (o', some e) => (o', some e)

/-- `(*T).Decode(vector)` on a non-nil receiver -/
def decode (L : Level) (o : Obj2) (vector : Bytes) : Obj2 × Option Err :=
  match decodeLoop L o none (split slash vector) with
  | (o', some e) => (o', some e)
  | (o', none) =>
    match encode L o' with
    | (_, some e) => (o', some e)
    | (enc, none) => if vector ≠ enc then (o', some .misordered) else (o', none)

/-! ### scores -/

def roundTo1 (x : Nat) : Nat := div (round (mul x ten)) ten
def roundTo2 (x : Nat) : Nat := div (round (mul x hundred)) hundred

def c1041 : Nat := 0x4024D1EB851EB852 /-1041e-2-/
def c20 : Nat := 0x4034000000000000 /-20-/
def c1176 : Nat := 0x3FF2D0E560418937 /-1176e-3-/
def c06 : Nat := 0x3FE3333333333333 /-6e-1-/
def c04 : Nat := 0x3FD999999999999A /-4e-1-/
def c15 : Nat := 0x3FF8000000000000 /-15e-1-/

/-- `Base.score(impact)` after the validity test -/
def scoreOfImpact (impact : Nat) (av ac au : Int) : Nat :=
  cbv (roundTo2 (mul (mul (mul c20 (value AV av)) (value AC ac)) (value Au au))) fun ex =>
  let fimpact := if eq impact 0 then 0 else c1176
  roundTo1 (mul (sub (add (mul c06 impact) (mul c04 ex)) c15) fimpact)

def impactF (c i a : Int) : Nat :=
  roundTo2 (mul c1041 (sub one (mul (mul (sub one (value C c)) (sub one (value I i))) (sub one (value A a)))))

def baseScore (o : Obj2) : Nat :=
  match getErrorBase o with
  | some _ => 0
  | none => scoreOfImpact (impactF (o.field C) (o.field I) (o.field A)) (o.field AV) (o.field AC) (o.field Au)

/-- `Temporal.score(baseScore)` -/
def temporalOf (bs : Nat) (e rl rc : Int) : Nat :=
  roundTo1 (mul (mul (mul bs (value E e)) (value RL rl)) (value RC rc))

def temporalScore (o : Obj2) : Nat :=
  match getErrorTemporal o with
  | some _ => 0
  | none =>
    let bs := baseScore o
    if tempEmpty o then bs else temporalOf bs (o.field E) (o.field RL) (o.field RC)

def adjImpactF (c i a cr ir ar : Int) : Nat :=
  fmin ten (roundTo2 (mul c1041 (sub one (mul (mul
    (sub one (mul (value C c) (value CR cr)))
    (sub one (mul (value I i) (value IR ir))))
    (sub one (mul (value A a) (value AR ar)))))))

def envScore (o : Obj2) : Nat :=
  match getErrorEnv o with
  | some _ => 0
  | none =>
    let f := o.field
    let bs := if envEmpty o then baseScore o
              else (match getErrorBase o with
                    | some _ => 0
                    | none => scoreOfImpact (adjImpactF (f C) (f I) (f A) (f CR) (f IR) (f AR)) (f AV) (f AC) (f Au))
    let at' := if tempEmpty o then bs else temporalOf bs (f E) (f RL) (f RC)
    if envEmpty o then at'
    else roundTo1 (mul (add at' (mul (sub ten at') (value CDP (f CDP)))) (value TD (f TD)))

def score : Level → Obj2 → Nat
  | .base => baseScore
  | .temporal => temporalScore
  | .environmental => envScore

/-- `severity(score)`: 0 Unknown, 1 Low, 2 Medium, 3 High -/
def severityF (x : Nat) : Int :=
  if le 0 x && lt x four then 1
  else if le four x && lt x seven then 2
  else if le seven x then 3
  else 0

def severity (L : Level) (o : Obj2) : Int := severityF (score L o)

def severityName : Int → Bytes
  | 1 => b!"Low" | 2 => b!"Medium" | 3 => b!"High" | _ => b!"Unknown"

/-! ### nil receivers -/

/-- `GetError()` of a nil receiver -/
def nilGetErr : Level → Err
  | .base => .noBaseMetrics | .temporal => .noTemporalMetrics | .environmental => .noEnvironmentalMetrics
/-- `Encode()` of a nil receiver reports "no Base metrics" at every level (sic) -/
def nilEncErr : Level → Err := fun _ => .noBaseMetrics

def getErrorN (L : Level) : Option Obj2 → Option Err
  | none => some (nilGetErr L)
  | some o => getError L o
def scoreN (L : Level) : Option Obj2 → Nat
  | none => 0
  | some o => score L o
def encodeN (L : Level) : Option Obj2 → Bytes × Option Err
  | none => ([], some (nilEncErr L))
  | some o => encode L o

end CvssVerif.V2
