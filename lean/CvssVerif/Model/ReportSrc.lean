import CvssVerif.Model.Report
/-
  What a field initialiser of a report constructor is, as go/wiring reads it off the source text, and the translation of
  the model's schema (`Report.Src`) into that vocabulary.
-/
namespace CvssVerif.Report
open CvssVerif V3

/-- a field initialiser of `NewBase` / `NewTemporal` / `NewEnvironmental` in /repo/v3/report -/
inductive GSrc
  | version                          -- x.Ver.String()
  | vector (l : Level)               -- vec, where vec, _ := x.Encode() and x is the level-l parameter
  | names0 (fn : String)             -- names.fn(opts.lang)
  | names1 (fn : String) (m : M3)    -- names.fn(x.m, opts.lang)
  | score (l : Level)                -- strconv.FormatFloat(x.Score(), 'f', -1, 64)
  | sevValue (l : Level)             -- names.SeverityValueOf(x.Severity(), opts.lang)
  deriving DecidableEq

/-- the initialiser the schema prescribes for a field -/
def Src.toG : Src → GSrc
  | .version => .version
  | .vector l => .vector l
  | .header fn => .names0 fn
  | .title m => .names0 (Names.titleFn m)
  | .value m => .names1 (Names.valueFn m) m
  | .score l => .score l
  | .sevTitle => .names0 "Severity"
  | .sevValue l => .sevValue l

/-- same fields with the same initialisers, whatever the order in the literal -/
def sameFields (a b : List (String × GSrc)) : Bool :=
  a.length == b.length && a.all (fun p => b.contains p) && b.all (fun p => a.contains p)

end CvssVerif.Report
