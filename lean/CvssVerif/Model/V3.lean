import CvssVerif.Model.Common
/-
  Model of package `v3/metric` as it is written (not as it should be).

  * metric types are Go `int`s: fields are `Int`, 0 is the unknown / invalid value;
  * an object is table-driven: `field : M3 → Int` (exported fields) and `named : M3 → Bool`
    (the three unexported `names` maps; their key sets are disjoint, so one function);
  * the Go type of the object (`*Base`, `*Temporal`, `*Environmental`) is the `Level`
    argument of every operation;
  * a failed `Decode` returns `nil, err` in Go but has already mutated its receiver: the
    model returns the receiver state left behind together with the error.
-/
namespace CvssVerif.V3
open CvssVerif F64

inductive M3
  | AV | AC | PR | UI | S | C | I | A
  | E | RL | RC
  | CR | IR | AR | MAV | MAC | MPR | MUI | MS | MC | MI | MA
  deriving DecidableEq, Repr, Inhabited

open M3

/-- specification order = order of the fields in the encoders -/
def M3.all : List M3 :=
  [AV, AC, PR, UI, S, C, I, A, E, RL, RC, CR, IR, AR, MAV, MAC, MPR, MUI, MS, MC, MI, MA]

def baseMs : List M3 := [AV, AC, PR, UI, S, C, I, A]
def tempMs : List M3 := [E, RL, RC]
def envMs : List M3 := [CR, IR, AR, MAV, MAC, MPR, MUI, MS, MC, MI, MA]

def M3.spec : M3 → Metric
  | AV  => ⟨b!"AV", .base, [(1, b!"P"), (2, b!"L"), (3, b!"A"), (4, b!"N")], 0⟩
  | AC  => ⟨b!"AC", .base, [(1, b!"H"), (2, b!"L")], 0⟩
  | PR  => ⟨b!"PR", .base, [(1, b!"H"), (2, b!"L"), (3, b!"N")], 0⟩
  | UI  => ⟨b!"UI", .base, [(1, b!"R"), (2, b!"N")], 0⟩
  | S   => ⟨b!"S", .base, [(1, b!"U"), (2, b!"C")], 0⟩
  | C   => ⟨b!"C", .base, [(1, b!"N"), (2, b!"L"), (3, b!"H")], 0⟩
  | I   => ⟨b!"I", .base, [(1, b!"N"), (2, b!"L"), (3, b!"H")], 0⟩
  | A   => ⟨b!"A", .base, [(1, b!"N"), (2, b!"L"), (3, b!"H")], 0⟩
  | E   => ⟨b!"E", .temporal, [(1, b!"X"), (2, b!"U"), (3, b!"P"), (4, b!"F"), (5, b!"H")], 1⟩
  | RL  => ⟨b!"RL", .temporal, [(1, b!"X"), (2, b!"O"), (3, b!"T"), (4, b!"W"), (5, b!"U")], 1⟩
  | RC  => ⟨b!"RC", .temporal, [(1, b!"X"), (2, b!"U"), (3, b!"R"), (4, b!"C")], 1⟩
  | CR  => ⟨b!"CR", .environmental, [(1, b!"X"), (2, b!"L"), (3, b!"M"), (4, b!"H")], 1⟩
  | IR  => ⟨b!"IR", .environmental, [(1, b!"X"), (2, b!"L"), (3, b!"M"), (4, b!"H")], 1⟩
  | AR  => ⟨b!"AR", .environmental, [(1, b!"X"), (2, b!"L"), (3, b!"M"), (4, b!"H")], 1⟩
  | MAV => ⟨b!"MAV", .environmental, [(1, b!"X"), (2, b!"P"), (3, b!"L"), (4, b!"A"), (5, b!"N")], 1⟩
  | MAC => ⟨b!"MAC", .environmental, [(1, b!"X"), (2, b!"H"), (3, b!"L")], 1⟩
  | MPR => ⟨b!"MPR", .environmental, [(1, b!"X"), (2, b!"H"), (3, b!"L"), (4, b!"N")], 1⟩
  | MUI => ⟨b!"MUI", .environmental, [(1, b!"X"), (2, b!"R"), (3, b!"N")], 1⟩
  | MS  => ⟨b!"MS", .environmental, [(1, b!"X"), (2, b!"U"), (3, b!"C")], 1⟩
  | MC  => ⟨b!"MC", .environmental, [(1, b!"X"), (2, b!"N"), (3, b!"L"), (4, b!"H")], 1⟩
  | MI  => ⟨b!"MI", .environmental, [(1, b!"X"), (2, b!"N"), (3, b!"L"), (4, b!"H")], 1⟩
  | MA  => ⟨b!"MA", .environmental, [(1, b!"X"), (2, b!"N"), (3, b!"L"), (4, b!"H")], 1⟩

/-! ### weight tables (`map[T]float64` literals; decimal constants as the Go compiler rounds them) -/

def d (n k : Nat) : Nat := ofDec n k

def wAV  : List (Int × Nat) := [(1, 0x3FC999999999999A /-20e-2-/), (2, 0x3FE199999999999A /-55e-2-/), (3, 0x3FE3D70A3D70A3D7 /-62e-2-/), (4, 0x3FEB333333333333 /-85e-2-/)]
def wAC  : List (Int × Nat) := [(1, 0x3FDC28F5C28F5C29 /-44e-2-/), (2, 0x3FE8A3D70A3D70A4 /-77e-2-/)]
def wPRU : List (Int × Nat) := [(1, 0x3FD147AE147AE148 /-27e-2-/), (2, 0x3FE3D70A3D70A3D7 /-62e-2-/), (3, 0x3FEB333333333333 /-85e-2-/)]
def wPRC : List (Int × Nat) := [(1, 0x3FE0000000000000 /-50e-2-/), (2, 0x3FE5C28F5C28F5C3 /-68e-2-/), (3, 0x3FEB333333333333 /-85e-2-/)]
def wUI  : List (Int × Nat) := [(1, 0x3FE3D70A3D70A3D7 /-62e-2-/), (2, 0x3FEB333333333333 /-85e-2-/)]
def wCIA : List (Int × Nat) := [(1, 0x0000000000000000 /-0e-2-/), (2, 0x3FCC28F5C28F5C29 /-22e-2-/), (3, 0x3FE1EB851EB851EC /-56e-2-/)]
def wE   : List (Int × Nat) := [(1, one), (2, 0x3FED1EB851EB851F /-91e-2-/), (3, 0x3FEE147AE147AE14 /-94e-2-/), (4, 0x3FEF0A3D70A3D70A /-97e-2-/), (5, one)]
def wRL  : List (Int × Nat) := [(1, one), (2, 0x3FEE666666666666 /-95e-2-/), (3, 0x3FEEB851EB851EB8 /-96e-2-/), (4, 0x3FEF0A3D70A3D70A /-97e-2-/), (5, one)]
def wRC  : List (Int × Nat) := [(1, one), (2, 0x3FED70A3D70A3D71 /-92e-2-/), (3, 0x3FEEB851EB851EB8 /-96e-2-/), (4, one)]
def wReq : List (Int × Nat) := [(1, one), (2, 0x3FE0000000000000 /-5e-1-/), (3, one), (4, 0x3FF8000000000000 /-15e-1-/)]
def wMAV : List (Int × Nat) := [(1, 0), (2, 0x3FC999999999999A /-20e-2-/), (3, 0x3FE199999999999A /-55e-2-/), (4, 0x3FE3D70A3D70A3D7 /-62e-2-/), (5, 0x3FEB333333333333 /-85e-2-/)]
def wMAC : List (Int × Nat) := [(1, 0), (2, 0x3FDC28F5C28F5C29 /-44e-2-/), (3, 0x3FE8A3D70A3D70A4 /-77e-2-/)]
def wMPRU : List (Int × Nat) := [(1, 0), (2, 0x3FD147AE147AE148 /-27e-2-/), (3, 0x3FE3D70A3D70A3D7 /-62e-2-/), (4, 0x3FEB333333333333 /-85e-2-/)]
def wMPRC : List (Int × Nat) := [(1, 0), (2, 0x3FE0000000000000 /-50e-2-/), (3, 0x3FE5C28F5C28F5C3 /-68e-2-/), (4, 0x3FEB333333333333 /-85e-2-/)]
def wMUI : List (Int × Nat) := [(1, 0), (2, 0x3FE3D70A3D70A3D7 /-62e-2-/), (3, 0x3FEB333333333333 /-85e-2-/)]
def wMCIA : List (Int × Nat) := [(1, 0), (2, 0), (3, 0x3FCC28F5C28F5C29 /-22e-2-/), (4, 0x3FE1EB851EB851EC /-56e-2-/)]

/-- `Value()` of the metrics whose weight depends on nothing else -/
def value0 : M3 → Int → Nat
  | AV, v => wlookup wAV 0 v
  | AC, v => wlookup wAC 0 v
  | UI, v => wlookup wUI 0 v
  | C, v | I, v | A, v => wlookup wCIA 0 v
  | E, v => wlookup wE one v
  | RL, v => wlookup wRL one v
  | RC, v => wlookup wRC one v
  | CR, v | IR, v | AR, v => wlookup wReq 0 v
  | _, _ => 0

/-- `PrivilegesRequired.Value(s Scope)` -/
def valuePR (pr s : Int) : Nat :=
  if s = 1 then wlookup wPRU 0 pr
  else if s = 2 then wlookup wPRC 0 pr
  else 0

/-- `ModifiedScope.IsChanged(sc Scope)` -/
def msIsChanged (ms s : Int) : Bool :=
  if ms = 1 then s == 2 else ms == 3

/-- `ModifiedPrivilegesRequired.Value(ms, s, pr)` -/
def valueMPR (mpr ms s pr : Int) : Nat :=
  if mpr = 1 then valuePR pr (if msIsChanged ms s then 2 else 1)
  else if msIsChanged ms s then wlookup wMPRC 0 mpr else wlookup wMPRU 0 mpr

def valueMAV (mav av : Int) : Nat :=
  if mav = 1 then wlookup wAV 0 av else wlookup wMAV 0 mav
def valueMAC (mac ac : Int) : Nat :=
  if mac = 1 then wlookup wAC 0 ac else wlookup wMAC 0 mac
def valueMUI (mui ui : Int) : Nat :=
  if mui = 1 then wlookup wUI 0 ui else wlookup wMUI 0 mui
/-- `ModifiedConfidentialityImpact.Value(ci)`: the Go code compares `mci.String()` with the
    code of a Not Defined value ("X") instead of comparing the value -/
def valueMCIA (m : M3) (mv bv : Int) : Nat :=
  if m.spec.str mv == MAC.spec.str 1 then wlookup wCIA 0 bv else wlookup wMCIA 0 mv

/-- `IsValid()` of temporal / environmental metrics: membership in the metric's value map -/
def isValid : M3 → Int → Bool
  | E, v => wmem wE v
  | RL, v => wmem wRL v
  | RC, v => wmem wRC v
  | CR, v | IR, v | AR, v => wmem wReq v
  | MAV, v => wmem wMAV v
  | MAC, v => wmem wMAC v
  | MPR, v => wmem wMPRC v
  | MUI, v => wmem wMUI v
  | MS, v => MS.spec.codes.any (fun p => p.1 == v)
  | MC, v | MI, v | MA, v => wmem wMCIA v
  | _, v => v != 0

/-! ### objects -/

structure Obj3 where
  ver   : Int
  field : M3 → Int
  named : M3 → Bool

/-- what `NewBase` / `NewTemporal` / `NewEnvironmental` build -/
def Obj3.new : Obj3 := ⟨0, fun m => m.spec.init, fun _ => false⟩

def Obj3.set (o : Obj3) (m : M3) (v : Int) : Obj3 :=
  { o with field := fun m' => if m' = m then v else o.field m' }
def Obj3.mark (o : Obj3) (m : M3) : Obj3 :=
  { o with named := fun m' => if m' = m then true else o.named m' }

/-- the metrics handled by a decoder of level `L` -/
def msOf (L : Level) : List M3 := M3.all.filter fun m => m.spec.level.le L

/-! ### version -/

def verLabels : List (Int × Bytes) := [(1, b!"3.0"), (2, b!"3.1")]
def verStr (v : Int) : Bytes :=
  match verLabels.find? (fun p => p.1 == v) with
  | some p => p.2
  | none => b!"unknown"
def verGet (s : Bytes) : Int :=
  match verLabels.find? (fun p => p.2 == s) with
  | some p => p.1
  | none => 0
/-- `GetVersion(vec)` -/
def getVersion (vec : Bytes) : Except Err Int :=
  match split colon vec with
  | [n, v] => if n == b!"CVSS" then .ok (verGet v) else .error .invalidVector
  | _ => .error .invalidVector

/-! ### validity -/

def getErrorBase (o : Obj3) : Option Err :=
  if o.ver = 0 then some .notSupportVer
  else if baseMs.any (fun m => o.field m == 0) then some .noBaseMetrics
  else none

def getErrorTemporal (o : Obj3) : Option Err :=
  match getErrorBase o with
  | some e => some e
  | none => if tempMs.any (fun m => !isValid m (o.field m)) then some .invalidValue else none

def getErrorEnv (o : Obj3) : Option Err :=
  match getErrorTemporal o with
  | some e => some e
  | none => if envMs.any (fun m => !isValid m (o.field m)) then some .invalidValue else none

def getError : Level → Obj3 → Option Err
  | .base => getErrorBase
  | .temporal => getErrorTemporal
  | .environmental => getErrorEnv

/-! ### decoding -/

def findMetric (L : Level) (name : Bytes) : Option M3 :=
  (msOf L).find? fun m => m.spec.name == name

/-- `decodeOne` of the level-`L` type, with its delegation to the lower levels flattened:
    the three `names` maps are keyed by disjoint name sets, and every level repeats the same
    shape test, so the first level that knows the name decides. (`Proofs/Deleg.lean` proves the
    literal three-level delegation equal to this.) -/
def decodeOne (L : Level) (o : Obj3) (tok : Bytes) : Obj3 × Option Err :=
  match split colon tok with
  | [n, v] =>
    if n = [] ∨ v = [] then (o, some .invalidVector) else
    match findMetric L n with
    | none => (o, some .notSupportMetric)
    | some m =>
      if o.named m then (o, some .sameMetric) else
      let x := m.spec.get v
      let o1 := o.set m x
      if x = 0 then (o1, some .invalidValue) else (o1.mark m, none)
  | _ => (o, some .invalidVector)

/-- the token loop of `Decode`: stops at the first error other than not-supported-metric,
    remembers the last not-supported-metric -/
def decodeLoop (L : Level) : Obj3 → Option Err → List Bytes → Obj3 × Option Err
  | o, last, [] => (o, last)
  | o, last, t :: ts =>
    match decodeOne L o t with
    | (o', none) => decodeLoop L o' last ts
    | (o', some .notSupportMetric) => decodeLoop L o' (some .notSupportMetric) ts
    | (o', some e) => (o', some e)

/-- `(*T).Decode(vector)` on a non-nil receiver `o`; returns the receiver state afterwards -/
def decode (L : Level) (o : Obj3) (vector : Bytes) : Obj3 × Option Err :=
  match split slash vector with
  | [] => (o, some .invalidVector)   -- unreachable: split never returns []
  | hd :: rest =>
    match getVersion hd with
    | .error e => (o, some e)
    | .ok ver =>
      if ver = 0 then (o, some .notSupportVer) else
      match decodeLoop L { o with ver := ver } none rest with
      | (o', some e) => (o', some e)
      | (o', none) => (o', getError L o')

/-! ### encoding -/

def tokOf (m : M3) (o : Obj3) : Bytes := m.spec.name ++ [colon] ++ m.spec.str (o.field m)

def encodeBaseStr (o : Obj3) : Bytes :=
  join slash ((if o.ver ≠ 0 then [b!"CVSS:" ++ verStr o.ver] else [])
    ++ (baseMs.filter o.named).map fun m => tokOf m o)

def encodeTemporalStr (o : Obj3) : Bytes :=
  encodeBaseStr o ++ (tempMs.map fun m => [slash] ++ tokOf m o).flatten

def encodeEnvStr (o : Obj3) : Bytes :=
  encodeTemporalStr o ++ (envMs.map fun m => [slash] ++ tokOf m o).flatten

/-- `Encode()` on a non-nil receiver: the string and the error (Go returns both) -/
def encode : Level → Obj3 → Bytes × Option Err
  | .base, o => (encodeBaseStr o, getErrorBase o)
  | .temporal, o => (encodeTemporalStr o, getErrorTemporal o)
  | .environmental, o =>
    match getErrorEnv o with
    | some e => ([], some e)
    | none => (encodeEnvStr o, none)

/-! ### scores -/

/-- `roundUp` of `misc.go` -/
def roundUp (x : Nat) : Nat :=
  cbv (round (mul x c1e5)) fun i =>
  if (toInt i).tmod 10000 = 0 then div i c1e5
  else div (add (floor (div i c1e4)) one) ten

def c642 : Nat := 0x4019AE147AE147AE /-642e-2-/
def c752 : Nat := 0x401E147AE147AE14 /-752e-2-/
def c0029 : Nat := 0x3F9DB22D0E560419 /-29e-3-/
def c325 : Nat := 0x400A000000000000 /-325e-2-/
def c002 : Nat := 0x3F947AE147AE147B /-2e-2-/
def c822 : Nat := 0x402070A3D70A3D71 /-822e-2-/
def c108 : Nat := 0x3FF147AE147AE148 /-108e-2-/
def c0915 : Nat := 0x3FED47AE147AE148 /-915e-3-/
def c09731 : Nat := 0x3FEF23A29C779A6B /-9731e-4-/

/-! The score arithmetic is written as a composition of small "core" functions over the
    looked-up weights, so that the proofs can evaluate it stage by stage. -/

/-- `1 - (1-c)(1-i)(1-a)` -/
def issF (c i a : Nat) : Nat := sub one (mul (mul (sub one c) (sub one i)) (sub one a))

/-- base impact from the impact sub-score -/
def impactBaseF (changed : Bool) (iss : Nat) : Nat :=
  if changed then sub (mul c752 (sub iss c0029)) (mul c325 (powInt (sub iss c002) 15))
  else mul iss c642

/-- `8.22 × AV × AC × PR × UI` -/
def easeF (av ac pr ui : Nat) : Nat := mul (mul (mul (mul c822 av) ac) pr) ui

/-- `roundUp(min(1.08 × (impact + ease), 10))` resp. without the factor -/
def combine (changed : Bool) (impact ease : Nat) : Nat :=
  if changed then roundUp (fmin (mul c108 (add impact ease)) ten)
  else roundUp (fmin (add impact ease) ten)

def baseCore (changed : Bool) (wc wi wa wav wac wpr wui : Nat) : Nat :=
  cbv (impactBaseF changed (issF wc wi wa)) fun impact =>
  if le impact 0 then 0 else combine changed impact (easeF wav wac wpr wui)

/-- the arithmetic of `Base.Score` after the validity test -/
def baseScoreF (av ac pr ui s c i a : Int) : Nat :=
  baseCore (s == 2) (value0 C c) (value0 I i) (value0 A a)
    (value0 AV av) (value0 AC ac) (valuePR pr s) (value0 UI ui)

def baseScore (o : Obj3) : Nat :=
  match getErrorBase o with
  | some _ => 0
  | none => baseScoreF (o.field AV) (o.field AC) (o.field PR) (o.field UI) (o.field S)
              (o.field C) (o.field I) (o.field A)

/-- `roundUp(x × E × RL × RC)` -/
def temporalF (x e rl rc : Nat) : Nat := roundUp (mul (mul (mul x e) rl) rc)

def temporalScore (o : Obj3) : Nat :=
  match getErrorTemporal o with
  | some _ => 0
  | none => temporalF (baseScore o) (value0 E (o.field E)) (value0 RL (o.field RL)) (value0 RC (o.field RC))

/-- `min(1 - (1-CR·MC)(1-IR·MI)(1-AR·MA), 0.915)` from the three products -/
def missF (pc pi pa : Nat) : Nat :=
  fmin (sub one (mul (mul (sub one pc) (sub one pi)) (sub one pa))) c0915

/-- modified impact from the modified impact sub-score; the polynomial depends on the version -/
def modImpactF (changed : Bool) (ver : Int) (miss : Nat) : Nat :=
  if changed then
    (if ver = 2 then sub (mul c752 (sub miss c0029)) (mul c325 (powInt (sub (mul miss c09731) c002) 13))
     else sub (mul c752 (sub miss c0029)) (mul c325 (powInt (sub miss c002) 15)))
  else mul c642 miss

def envCore (changed : Bool) (ver : Int) (pc pi pa wav wac wpr wui e rl rc : Nat) : Nat :=
  cbv (modImpactF changed ver (missF pc pi pa)) fun mi =>
  if le mi 0 then 0 else temporalF (combine changed mi (easeF wav wac wpr wui)) e rl rc

/-- the arithmetic of `Environmental.Score` after the validity test -/
def envScoreF (ver : Int) (f : M3 → Int) : Nat :=
  envCore (msIsChanged (f MS) (f S)) ver
    (mul (value0 CR (f CR)) (valueMCIA MC (f MC) (f C)))
    (mul (value0 IR (f IR)) (valueMCIA MI (f MI) (f I)))
    (mul (value0 AR (f AR)) (valueMCIA MA (f MA) (f A)))
    (valueMAV (f MAV) (f AV)) (valueMAC (f MAC) (f AC))
    (valueMPR (f MPR) (f MS) (f S) (f PR)) (valueMUI (f MUI) (f UI))
    (value0 E (f E)) (value0 RL (f RL)) (value0 RC (f RC))

def envScore (o : Obj3) : Nat :=
  match getErrorEnv o with
  | some _ => 0
  | none => envScoreF o.ver o.field

def score : Level → Obj3 → Nat
  | .base => baseScore
  | .temporal => temporalScore
  | .environmental => envScore

/-- `severity(score)` of `misc.go`: 0 Unknown, 1 None, 2 Low, 3 Medium, 4 High, 5 Critical -/
def severityF (x : Nat) : Int :=
  if le x 0 then 1
  else if lt 0 x && lt x four then 2
  else if le four x && lt x seven then 3
  else if le seven x && lt x nine then 4
  else if le nine x then 5
  else 0

def severity (L : Level) (o : Obj3) : Int := severityF (score L o)

def severityName : Int → Bytes
  | 1 => b!"None" | 2 => b!"Low" | 3 => b!"Medium" | 4 => b!"High" | 5 => b!"Critical"
  | _ => b!"Unknown"

/-! ### nil receivers: the nil guards of the Go methods -/

/-- the error a nil receiver of each type reports -/
def nilErr : Level → Err
  | .base => .noBaseMetrics | .temporal => .noTemporalMetrics | .environmental => .noEnvironmentalMetrics

/-- `GetError()` on a possibly-nil receiver -/
def getErrorN (L : Level) : Option Obj3 → Option Err
  | none => some (nilErr L)
  | some o => getError L o
/-- `Score()` on a possibly-nil receiver: every `Score` starts with `GetError()` -/
def scoreN (L : Level) : Option Obj3 → Nat
  | none => 0
  | some o => score L o
/-- `Encode()` on a possibly-nil receiver -/
def encodeN (L : Level) : Option Obj3 → Bytes × Option Err
  | none => ([], some (nilErr L))
  | some o => encode L o

end CvssVerif.V3
