import CvssVerif.Model.Report
/-
  Run-time vocabulary of the translated template-export glue (go/glue → Generated/Glue.lean).

  The three calls that leave the repository are parameters; what is assumed about them (trusted base):
  * `io.Copy(buf, r)` appends what the reader delivers to the buffer and returns a nil error, or returns a non-nil error
    (what the buffer then holds is not used by the glue); on a nil `io.Reader` it panics (`none`);
  * `template.New(name).Parse(text)` returns a template or a non-nil error and a template that must not be used (`none`);
  * `t.Execute(buf, data)` appends the rendering to the buffer and returns nil, or returns a non-nil error; on a nil
    template the call is a run-time panic (`none` in the translation).
-/
namespace CvssVerif.Report
open CvssVerif

/-- `text/template` as far as the glue sees it -/
structure Engine where
  T : Type
  /-- `template.New(..).Parse(text)`: `none` = an error was returned -/
  parse : Bytes → Option T
  /-- `t.Execute(buf, report)` into an empty buffer: `none` = an error was returned -/
  exec : T → Option Bytes

/-- the engine as the model's `exportWith` takes it: parse, then execute -/
def Engine.run (E : Engine) (t : Bytes) : Option Bytes := (E.parse t).bind E.exec

def Reader.isNil : Reader → Bool
  | .nil => true
  | _ => false

/-- `io.Copy(buf, r)`: `none` = run-time panic; otherwise the buffer afterwards and whether an error was returned -/
def ioCopy (buf : Bytes) : Reader → Option (Bytes × Bool)
  | .nil => none
  | .fails => some (buf, true)
  | .content t => some (buf ++ t, false)

end CvssVerif.Report
