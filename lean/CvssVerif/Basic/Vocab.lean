/-
  Vocabulary shared by the model and the specification: decoder levels and the eleven
  sentinel errors of `cvsserr/errors.go`.
-/
namespace CvssVerif

/-- Which Go type an object is: `*Base`, `*Temporal`, `*Environmental`. -/
inductive Level | base | temporal | environmental
  deriving DecidableEq, Repr, Inhabited

def Level.toNat : Level → Nat
  | .base => 0 | .temporal => 1 | .environmental => 2
def Level.le (a b : Level) : Bool := a.toNat ≤ b.toNat
def Level.all : List Level := [.base, .temporal, .environmental]
def Level.tag : Level → String
  | .base => "B" | .temporal => "T" | .environmental => "E"

/-- The eleven sentinels of `cvsserr/errors.go`. -/
inductive Err
  | nullPointer | invalidVector | notSupportVer | notSupportMetric | invalidTemplate
  | sameMetric | invalidValue | noBaseMetrics | noTemporalMetrics | noEnvironmentalMetrics
  | misordered
  deriving DecidableEq, Repr, Inhabited

def Err.tag : Err → String
  | .nullPointer => "NullPointer" | .invalidVector => "InvalidVector"
  | .notSupportVer => "NotSupportVer" | .notSupportMetric => "NotSupportMetric"
  | .invalidTemplate => "InvalidTemplate" | .sameMetric => "SameMetric"
  | .invalidValue => "InvalidValue" | .noBaseMetrics => "NoBaseMetrics"
  | .noTemporalMetrics => "NoTemporalMetrics"
  | .noEnvironmentalMetrics => "NoEnvironmentalMetrics" | .misordered => "Misordered"

def Err.all : List Err :=
  [.nullPointer, .invalidVector, .notSupportVer, .notSupportMetric, .invalidTemplate, .sameMetric,
   .invalidValue, .noBaseMetrics, .noTemporalMetrics, .noEnvironmentalMetrics, .misordered]

end CvssVerif
