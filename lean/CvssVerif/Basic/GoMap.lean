import CvssVerif.Basic.Bytes
import CvssVerif.Basic.GoMapAttr
/-
  Go map literals over an enumeration type, as association lists sorted by key (a Go map literal cannot repeat a constant
  key, so the first match is the only one), and the four ways the metric packages read them.
-/
namespace CvssVerif.GoMap
open CvssVerif

/-- `v, ok := m[k]` -/
def mapGet {α : Type} (t : List (Int × α)) (k : Int) : Option α :=
  match t.find? (fun p => p.1 == k) with
  | some p => some p.2
  | none => none

/-- `m[k]` (zero value `d` when absent) -/
def mapGetD {α : Type} (t : List (Int × α)) (k : Int) (d : α) : α :=
  match mapGet t k with
  | some v => v
  | none => d

/-- `_, ok := m[k]` -/
def mapMem {α : Type} (t : List (Int × α)) (k : Int) : Bool := t.any (fun p => p.1 == k)

/-- `for k, v := range m { if s == v { return k } }`: the key of an entry whose value is `s`.  Go iterates in an
    unspecified order; when the values are pairwise different (obligation `revTables_nodup`) there is at most one such
    entry and the first match of the sorted list is it. -/
def mapRev (t : List (Int × Bytes)) (s : Bytes) : Option Int :=
  match t.find? (fun p => p.2 == s) with
  | some p => some p.1
  | none => none

end CvssVerif.GoMap
