/-
  Software model of IEEE-754 binary64 (finite values only), on `Nat` bit patterns.

  A value is the 64-bit pattern of the Go `float64`, held in a `Nat`.  All
  operations compute the exact dyadic / rational result and round it to
  nearest-even with the single function `rnd`.  The plumbing is call-by-value
  (`cbv`) so that the Lean *kernel* can evaluate these definitions on numerals
  without re-evaluating shared sub-terms; compiled code is unaffected.

  This file is a *definition* of the arithmetic go-cvss runs on (amd64, unfused,
  Go's pure-Go `math.Pow`, `math.Round`, `math.Floor`, `math.Min`); it is
  validated, not verified: bit-exact agreement with Go on the complete finite
  score domains on every run, and with the hardware `Float` in `Test/F64Test.lean`.
  Core Lean only.
-/
namespace CvssVerif.F64

/-- Force `n` to a numeral (kernel: one evaluation), then continue. -/
@[inline] def cbv {α : Type} (n : Nat) (k : Nat → α) : α :=
  match n with
  | 0 => k 0
  | m+1 => k (m+1)

/-- Dyadic exponents are kept in `Nat` with this offset: value = m · 2^(e - BIAS). -/
def BIAS : Nat := 4000
def two52 : Nat := 4503599627370496
def two63 : Nat := 9223372036854775808
def two64 : Nat := 18446744073709551616

def sgn (b : Nat) : Nat := b >>> 63
def bexp (b : Nat) : Nat := (b >>> 52) &&& 2047
def frac (b : Nat) : Nat := b &&& 4503599627370495
/-- integer significand -/
def man (b : Nat) : Nat := cbv (bexp b) fun e => if e = 0 then frac b else frac b + two52
/-- offset exponent of the unit in the last place: value = man · 2^(eb - BIAS) -/
def eb (b : Nat) : Nat := cbv (bexp b) fun e => if e = 0 then 2926 else 2925 + e

def isZero (b : Nat) : Bool := b % two63 == 0
def neg (b : Nat) : Nat := if b < two63 then b + two63 else b - two63
def abs (b : Nat) : Nat := b % two63

/-- assemble; a carry of the significand to 2^53 (or of a subnormal to 2^52) propagates into
    the exponent field by plain addition -/
def pack (s t q : Nat) : Nat :=
  if q < two52 then (s <<< 63) + q
  else (s <<< 63) + ((t + 1075 - BIAS) <<< 52) + (q - two52)

/-- round `m · 2^(e-BIAS)` (m an integer) to the nearest double, ties to even.
    Gradual underflow; no overflow case (never reached in this library). -/
def rnd (s m e : Nat) : Nat :=
  cbv m fun m => if m = 0 then s <<< 63 else
  cbv (Nat.log2 m) fun L => cbv (e + L) fun t0 =>
  cbv (if t0 < 2978 then 2926 else t0 - 52) fun t =>
  if t ≤ e then pack s t (m <<< (e - t)) else
  cbv (t - e) fun k => cbv (m >>> k) fun q => cbv (m &&& ((1 <<< k) - 1)) fun r =>
  cbv (1 <<< (k - 1)) fun half =>
  cbv (if r > half then 1 else if r = half then q % 2 else 0) fun up =>
  pack s t (q + up)

def mul (a b : Nat) : Nat := cbv a fun a => cbv b fun b =>
  rnd ((sgn a + sgn b) % 2) (man a * man b) (eb a + eb b - BIAS)

def add (a b : Nat) : Nat := cbv a fun a => cbv b fun b =>
  cbv (eb a) fun ea => cbv (eb b) fun eb' => cbv (if ea ≤ eb' then ea else eb') fun e =>
  cbv (man a <<< (ea - e)) fun ma => cbv (man b <<< (eb' - e)) fun mb =>
  if sgn a = sgn b then (if ma + mb = 0 then sgn a <<< 63 else rnd (sgn a) (ma + mb) e)
  else if ma = mb then 0
  else if ma > mb then rnd (sgn a) (ma - mb) e else rnd (sgn b) (mb - ma) e

def sub (a b : Nat) : Nat := add a (neg b)

/-- correctly rounded `n/d · 2^(e-BIAS)`; the lowest bit of the 64+-bit quotient is the sticky bit -/
def rndRat (s n d e : Nat) : Nat := cbv n fun n => cbv d fun d =>
  if n = 0 then s <<< 63 else
  cbv ((Nat.log2 d + 64) - Nat.log2 n) fun k => cbv (n <<< k) fun n' => cbv (n' / d) fun q =>
  rnd s (2 * q + (if n' % d = 0 then 0 else 1)) (e - k - 1)

/-- division by a non-zero value -/
def div (a b : Nat) : Nat := cbv a fun a => cbv b fun b =>
  rndRat ((sgn a + sgn b) % 2) (man a) (man b) (BIAS + eb a - eb b)

/-- The Go compiler's conversion of the decimal constant `n·10^-k` -/
def ofDec (n k : Nat) : Nat := rndRat 0 n (10 ^ k) BIAS
/-- small non-negative integer as a double -/
def ofNat (n : Nat) : Nat := rnd 0 n BIAS

def zero : Nat := 0
def one : Nat := 4607182418800017408
def half : Nat := 4602678819172646912
def ten : Nat := 4621819117588971520
def hundred : Nat := 0x4059000000000000
def c1e4 : Nat := 0x40C3880000000000
def c1e5 : Nat := 0x40F86A0000000000
def four : Nat := 0x4010000000000000
def seven : Nat := 0x401C000000000000
def nine : Nat := 0x4022000000000000

/-- `a < b` on finite values -/
def lt (a b : Nat) : Bool := cbv a fun a => cbv b fun b =>
  if isZero a && isZero b then false
  else if a < two63 then (if b < two63 then a < b else false)
  else (if b < two63 then true else b < a)

def eq (a b : Nat) : Bool := (isZero a && isZero b) || a == b
def le (a b : Nat) : Bool := lt a b || eq a b

/-- Go `math.Min` on finite values (`Min(-0, ±0) = -0`) -/
def fmin (x y : Nat) : Nat := cbv x fun x => cbv y fun y =>
  if isZero x && isZero y then (if x ≥ two63 then x else y)
  else if lt x y then x else y

/-- Go `math.Round` (half away from zero), transcribed from its bit manipulation -/
def round (b : Nat) : Nat := cbv b fun b => cbv (bexp b) fun e =>
  if e < 1023 then
    (if e = 1022 then (sgn b <<< 63) + one else sgn b <<< 63)
  else if e < 1075 then
    cbv (e - 1023) fun e' =>
    cbv (b + ((1 <<< 51) >>> e')) fun b' =>
    cbv (4503599627370495 >>> e') fun msk =>
    b' - (b' &&& msk)
  else b

/-- truncation toward zero (the integral part as a double) -/
def trunc (b : Nat) : Nat := cbv b fun b => cbv (bexp b) fun e =>
  if e < 1023 then sgn b <<< 63
  else if e < 1075 then
    cbv (4503599627370495 >>> (e - 1023)) fun msk => b - (b &&& msk)
  else b

/-- Go `math.Floor` on finite values -/
def floor (b : Nat) : Nat := cbv b fun b => cbv (trunc b) fun t =>
  if b < two63 then t
  else if t = b then b
  else sub t one

/-- Go `int(x)` for |x| < 2^63: truncation toward zero -/
def toInt (b : Nat) : Int := cbv b fun b => cbv (eb b) fun e =>
  let mag : Nat := if e ≥ BIAS then man b <<< (e - BIAS) else man b >>> (BIAS - e)
  if b < two63 then Int.ofNat mag else - Int.ofNat mag

/-- `Frexp`: fraction in [½,1) with the sign of `b`, for normal non-zero `b` -/
def frexpF (b : Nat) : Nat := cbv b fun b =>
  if isZero b then b else (sgn b <<< 63) + (1022 <<< 52) + frac b
/-- `Frexp` exponent, offset by BIAS (normal non-zero `b`) -/
def frexpE (b : Nat) : Nat := cbv b fun b =>
  if isZero b then BIAS else BIAS + bexp b - 1022

/-- `Ldexp(a, e - BIAS)`: exact scaling, rounded once if the result is subnormal -/
def ldexp (a e : Nat) : Nat := cbv a fun a => cbv e fun e =>
  rnd (sgn a) (man a) (eb a + e - BIAS)

/-- the square-and-multiply loop of Go's `math.pow` for a positive integer exponent `i`;
    `xe`, `ae` are offset by BIAS -/
def powLoop : Nat → Nat → Nat → Nat → Nat → Nat → Nat
  | 0, _, _, _, a1, ae => ldexp a1 ae
  | f+1, i, x1, xe, a1, ae =>
    cbv i fun i => cbv x1 fun x1 => cbv xe fun xe => cbv a1 fun a1 => cbv ae fun ae =>
    if i = 0 then ldexp a1 ae else
    cbv (if i % 2 = 1 then mul a1 x1 else a1) fun a1' =>
    cbv (if i % 2 = 1 then ae + xe - BIAS else ae) fun ae' =>
    cbv (mul x1 x1) fun x2 =>
    if lt x2 half then powLoop f (i / 2) (add x2 x2) (2 * xe - BIAS - 1) a1' ae'
    else powLoop f (i / 2) x2 (2 * xe - BIAS) a1' ae'

/-- Go `math.Pow(x, y)` for finite `x` and an integer `y ≥ 2` given as a `Nat` -/
def powInt (x y : Nat) : Nat := cbv x fun x =>
  if x = one then one
  else if isZero x then (if x ≥ two63 && y % 2 = 1 then x else 0)
  else powLoop 64 y (frexpF x) (frexpE x) one BIAS

end CvssVerif.F64
