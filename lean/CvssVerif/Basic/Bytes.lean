/-
  Go strings are byte strings.  The model represents them as `List Nat` (one element per
  byte; the harness only ever sends values < 256, the theorems hold for every list).
  `b!"AV"` expands a literal to its UTF-8 bytes at elaboration time.
-/
namespace CvssVerif

abbrev Bytes := List Nat

open Lean in
macro:max "b!" s:str : term => do
  let bytes := s.getString.toUTF8.toList.map (·.toNat)
  let elems ← bytes.toArray.mapM fun n => `($(quote n))
  `(([$elems,*] : List Nat))

def slash : Nat := 47
def colon : Nat := 58

/-- Go `strings.Split(s, sep)` for a one-byte separator -/
abbrev split (sep : Nat) (s : Bytes) : List Bytes := s.splitOn sep
/-- Go `strings.Join(xs, sep)` for a one-byte separator -/
abbrev join (sep : Nat) (xs : List Bytes) : Bytes := [sep].intercalate xs

def hexDigit (n : Nat) : Char :=
  if n < 10 then Char.ofNat (48 + n) else Char.ofNat (87 + n)
def toHex (b : Bytes) : String :=
  if b.isEmpty then "-" else
  String.ofList (b.flatMap fun x => [hexDigit (x / 16 % 16), hexDigit (x % 16)])
def hexVal (c : Char) : Option Nat :=
  if '0' ≤ c ∧ c ≤ '9' then some (c.toNat - 48)
  else if 'a' ≤ c ∧ c ≤ 'f' then some (c.toNat - 87)
  else if 'A' ≤ c ∧ c ≤ 'F' then some (c.toNat - 55) else none
/-- "-" stands for the empty string in operation lines -/
def ofHex (s : String) : Option Bytes :=
  if s == "-" then some [] else
  let rec go : List Char → Option Bytes
    | [] => some []
    | a :: b :: rest => do
        let x ← hexVal a; let y ← hexVal b; let r ← go rest; pure ((x * 16 + y) :: r)
    | _ => none
  go s.toList
def bytesToStr (b : Bytes) : String := String.ofList (b.map Char.ofNat)

end CvssVerif
