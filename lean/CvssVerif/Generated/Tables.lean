/- GENERATED on every run by go/tables from the source text of the per-metric types of /repo/v3/metric and
   /repo/v2/metric — do not edit.  Tables are the map literals (sorted by key), float values are the bits of the
   correctly rounded literal, functions are the statement-by-statement translation of the Go bodies. -/
import CvssVerif.Basic.GoMap
set_option linter.unusedVariables false

namespace CvssVerif.Gen.T3
open CvssVerif CvssVerif.GoMap

-- @def tbl_AvailabilityRequirementMap
@[gtab] def tbl_AvailabilityRequirementMap : List (Int × Bytes) := [(1, [88]), (2, [76]), (3, [77]), (4, [72])]

-- @def tbl_AvailabilityRequirementValueMap
@[gtab] def tbl_AvailabilityRequirementValueMap : List (Int × Nat) := [(1, 0x3FF0000000000000), (2, 0x3FE0000000000000), (3, 0x3FF0000000000000), (4, 0x3FF8000000000000)]

-- @def tbl_ConfidentialityRequirementMap
@[gtab] def tbl_ConfidentialityRequirementMap : List (Int × Bytes) := [(1, [88]), (2, [76]), (3, [77]), (4, [72])]

-- @def tbl_ConfidentialityRequirementValueMap
@[gtab] def tbl_ConfidentialityRequirementValueMap : List (Int × Nat) := [(1, 0x3FF0000000000000), (2, 0x3FE0000000000000), (3, 0x3FF0000000000000), (4, 0x3FF8000000000000)]

-- @def tbl_IntegrityRequirementMap
@[gtab] def tbl_IntegrityRequirementMap : List (Int × Bytes) := [(1, [88]), (2, [76]), (3, [77]), (4, [72])]

-- @def tbl_IntegrityRequirementValueMap
@[gtab] def tbl_IntegrityRequirementValueMap : List (Int × Nat) := [(1, 0x3FF0000000000000), (2, 0x3FE0000000000000), (3, 0x3FF0000000000000), (4, 0x3FF8000000000000)]

-- @def tbl_ModifiedAttackComplexityMap
@[gtab] def tbl_ModifiedAttackComplexityMap : List (Int × Bytes) := [(1, [88]), (2, [72]), (3, [76])]

-- @def tbl_ModifiedAttackComplexityValueMap
@[gtab] def tbl_ModifiedAttackComplexityValueMap : List (Int × Nat) := [(1, 0x0000000000000000), (2, 0x3FDC28F5C28F5C29), (3, 0x3FE8A3D70A3D70A4)]

-- @def tbl_ModifiedAttackVectorMap
@[gtab] def tbl_ModifiedAttackVectorMap : List (Int × Bytes) := [(1, [88]), (2, [80]), (3, [76]), (4, [65]), (5, [78])]

-- @def tbl_ModifiedAttackVectorValueMap
@[gtab] def tbl_ModifiedAttackVectorValueMap : List (Int × Nat) := [(1, 0x0000000000000000), (2, 0x3FC999999999999A), (3, 0x3FE199999999999A), (4, 0x3FE3D70A3D70A3D7), (5, 0x3FEB333333333333)]

-- @def tbl_ModifiedAvailabilityImpactMap
@[gtab] def tbl_ModifiedAvailabilityImpactMap : List (Int × Bytes) := [(1, [88]), (2, [78]), (3, [76]), (4, [72])]

-- @def tbl_ModifiedAvailabilityImpactValueMap
@[gtab] def tbl_ModifiedAvailabilityImpactValueMap : List (Int × Nat) := [(1, 0x0000000000000000), (2, 0x0000000000000000), (3, 0x3FCC28F5C28F5C29), (4, 0x3FE1EB851EB851EC)]

-- @def tbl_ModifiedConfidentialityImpactMap
@[gtab] def tbl_ModifiedConfidentialityImpactMap : List (Int × Bytes) := [(1, [88]), (2, [78]), (3, [76]), (4, [72])]

-- @def tbl_ModifiedConfidentialityImpactValueMap
@[gtab] def tbl_ModifiedConfidentialityImpactValueMap : List (Int × Nat) := [(1, 0x0000000000000000), (2, 0x0000000000000000), (3, 0x3FCC28F5C28F5C29), (4, 0x3FE1EB851EB851EC)]

-- @def tbl_ModifiedIntegrityImpactMap
@[gtab] def tbl_ModifiedIntegrityImpactMap : List (Int × Bytes) := [(1, [88]), (2, [78]), (3, [76]), (4, [72])]

-- @def tbl_ModifiedIntegrityImpactValueMap
@[gtab] def tbl_ModifiedIntegrityImpactValueMap : List (Int × Nat) := [(1, 0x0000000000000000), (2, 0x0000000000000000), (3, 0x3FCC28F5C28F5C29), (4, 0x3FE1EB851EB851EC)]

-- @def tbl_ModifiedPrivilegesRequiredMap
@[gtab] def tbl_ModifiedPrivilegesRequiredMap : List (Int × Bytes) := [(1, [88]), (2, [72]), (3, [76]), (4, [78])]

-- @def tbl_ModifiedPrivilegesRequiredWithCValueMap
@[gtab] def tbl_ModifiedPrivilegesRequiredWithCValueMap : List (Int × Nat) := [(1, 0x0000000000000000), (2, 0x3FE0000000000000), (3, 0x3FE5C28F5C28F5C3), (4, 0x3FEB333333333333)]

-- @def tbl_ModifiedPrivilegesRequiredWithUValueMap
@[gtab] def tbl_ModifiedPrivilegesRequiredWithUValueMap : List (Int × Nat) := [(1, 0x0000000000000000), (2, 0x3FD147AE147AE148), (3, 0x3FE3D70A3D70A3D7), (4, 0x3FEB333333333333)]

-- @def tbl_ModifiedScopeValueMap
@[gtab] def tbl_ModifiedScopeValueMap : List (Int × Bytes) := [(1, [88]), (2, [85]), (3, [67])]

-- @def tbl_ModifiedUserInteractionMap
@[gtab] def tbl_ModifiedUserInteractionMap : List (Int × Bytes) := [(1, [88]), (2, [82]), (3, [78])]

-- @def tbl_ModifiedUserInteractionValueMap
@[gtab] def tbl_ModifiedUserInteractionValueMap : List (Int × Nat) := [(1, 0x0000000000000000), (2, 0x3FE3D70A3D70A3D7), (3, 0x3FEB333333333333)]

-- @def tbl_attackComplexityMap
@[gtab] def tbl_attackComplexityMap : List (Int × Bytes) := [(1, [72]), (2, [76])]

-- @def tbl_attackComplexityValueMap
@[gtab] def tbl_attackComplexityValueMap : List (Int × Nat) := [(1, 0x3FDC28F5C28F5C29), (2, 0x3FE8A3D70A3D70A4)]

-- @def tbl_attackVectorMap
@[gtab] def tbl_attackVectorMap : List (Int × Bytes) := [(1, [80]), (2, [76]), (3, [65]), (4, [78])]

-- @def tbl_attackVectorValueMap
@[gtab] def tbl_attackVectorValueMap : List (Int × Nat) := [(1, 0x3FC999999999999A), (2, 0x3FE199999999999A), (3, 0x3FE3D70A3D70A3D7), (4, 0x3FEB333333333333)]

-- @def tbl_availabilityImpactMap
@[gtab] def tbl_availabilityImpactMap : List (Int × Bytes) := [(1, [78]), (2, [76]), (3, [72])]

-- @def tbl_availabilityImpactValueMap
@[gtab] def tbl_availabilityImpactValueMap : List (Int × Nat) := [(1, 0x0000000000000000), (2, 0x3FCC28F5C28F5C29), (3, 0x3FE1EB851EB851EC)]

-- @def tbl_confidentialityImpactMap
@[gtab] def tbl_confidentialityImpactMap : List (Int × Bytes) := [(1, [78]), (2, [76]), (3, [72])]

-- @def tbl_confidentialityImpactValueMap
@[gtab] def tbl_confidentialityImpactValueMap : List (Int × Nat) := [(1, 0x0000000000000000), (2, 0x3FCC28F5C28F5C29), (3, 0x3FE1EB851EB851EC)]

-- @def tbl_exploitabilityMap
@[gtab] def tbl_exploitabilityMap : List (Int × Bytes) := [(1, [88]), (2, [85]), (3, [80]), (4, [70]), (5, [72])]

-- @def tbl_exploitabilityValueMap
@[gtab] def tbl_exploitabilityValueMap : List (Int × Nat) := [(1, 0x3FF0000000000000), (2, 0x3FED1EB851EB851F), (3, 0x3FEE147AE147AE14), (4, 0x3FEF0A3D70A3D70A), (5, 0x3FF0000000000000)]

-- @def tbl_integrityImpactMap
@[gtab] def tbl_integrityImpactMap : List (Int × Bytes) := [(1, [78]), (2, [76]), (3, [72])]

-- @def tbl_integrityImpactValueMap
@[gtab] def tbl_integrityImpactValueMap : List (Int × Nat) := [(1, 0x0000000000000000), (2, 0x3FCC28F5C28F5C29), (3, 0x3FE1EB851EB851EC)]

-- @def tbl_privilegesRequiredMap
@[gtab] def tbl_privilegesRequiredMap : List (Int × Bytes) := [(1, [72]), (2, [76]), (3, [78])]

-- @def tbl_privilegesRequiredWithCValueMap
@[gtab] def tbl_privilegesRequiredWithCValueMap : List (Int × Nat) := [(1, 0x3FE0000000000000), (2, 0x3FE5C28F5C28F5C3), (3, 0x3FEB333333333333)]

-- @def tbl_privilegesRequiredWithUValueMap
@[gtab] def tbl_privilegesRequiredWithUValueMap : List (Int × Nat) := [(1, 0x3FD147AE147AE148), (2, 0x3FE3D70A3D70A3D7), (3, 0x3FEB333333333333)]

-- @def tbl_remediationLevelMap
@[gtab] def tbl_remediationLevelMap : List (Int × Bytes) := [(1, [88]), (2, [79]), (3, [84]), (4, [87]), (5, [85])]

-- @def tbl_remediationLevelValueMap
@[gtab] def tbl_remediationLevelValueMap : List (Int × Nat) := [(1, 0x3FF0000000000000), (2, 0x3FEE666666666666), (3, 0x3FEEB851EB851EB8), (4, 0x3FEF0A3D70A3D70A), (5, 0x3FF0000000000000)]

-- @def tbl_reportConfidenceMap
@[gtab] def tbl_reportConfidenceMap : List (Int × Bytes) := [(1, [88]), (2, [85]), (3, [82]), (4, [67])]

-- @def tbl_reportConfidenceValueMap
@[gtab] def tbl_reportConfidenceValueMap : List (Int × Nat) := [(1, 0x3FF0000000000000), (2, 0x3FED70A3D70A3D71), (3, 0x3FEEB851EB851EB8), (4, 0x3FF0000000000000)]

-- @def tbl_scopeMap
@[gtab] def tbl_scopeMap : List (Int × Bytes) := [(1, [85]), (2, [67])]

-- @def tbl_severityMap
@[gtab] def tbl_severityMap : List (Int × Bytes) := [(1, [78, 111, 110, 101]), (2, [76, 111, 119]), (3, [77, 101, 100, 105, 117, 109]), (4, [72, 105, 103, 104]), (5, [67, 114, 105, 116, 105, 99, 97, 108])]

-- @def tbl_userInteractionMap
@[gtab] def tbl_userInteractionMap : List (Int × Bytes) := [(1, [82]), (2, [78])]

-- @def tbl_userInteractionValueMap
@[gtab] def tbl_userInteractionValueMap : List (Int × Nat) := [(1, 0x3FE3D70A3D70A3D7), (2, 0x3FEB333333333333)]

-- @def tbl_verStrings
@[gtab] def tbl_verStrings : List (Int × Bytes) := [(1, [51, 46, 48]), (2, [51, 46, 49])]

-- @def AttackComplexity_IsUnknown
@[gtab] def AttackComplexity_IsUnknown (ac_ : Int) : Bool :=
  (ac_ == (0 : Int))

-- @def AttackComplexity_String
@[gtab] def AttackComplexity_String (ac_ : Int) : Bytes :=
  match mapGet tbl_attackComplexityMap ac_ with
    | some s_ =>
      let ok_ : Bool := true
      s_
    | none =>
      ([] : Bytes)

-- @def AttackComplexity_Value
@[gtab] def AttackComplexity_Value (ac_ : Int) : Nat :=
  match mapGet tbl_attackComplexityValueMap ac_ with
    | some v_ =>
      let ok_ : Bool := true
      v_
    | none =>
      (0x0000000000000000 : Nat)

-- @def AttackVector_IsUnknown
@[gtab] def AttackVector_IsUnknown (av_ : Int) : Bool :=
  (av_ == (0 : Int))

-- @def AttackVector_String
@[gtab] def AttackVector_String (av_ : Int) : Bytes :=
  match mapGet tbl_attackVectorMap av_ with
    | some s_ =>
      let ok_ : Bool := true
      s_
    | none =>
      ([] : Bytes)

-- @def AttackVector_Value
@[gtab] def AttackVector_Value (av_ : Int) : Nat :=
  match mapGet tbl_attackVectorValueMap av_ with
    | some v_ =>
      let ok_ : Bool := true
      v_
    | none =>
      (0x0000000000000000 : Nat)

-- @def AvailabilityImpact_IsUnknown
@[gtab] def AvailabilityImpact_IsUnknown (ai_ : Int) : Bool :=
  (ai_ == (0 : Int))

-- @def AvailabilityImpact_String
@[gtab] def AvailabilityImpact_String (ai_ : Int) : Bytes :=
  match mapGet tbl_availabilityImpactMap ai_ with
    | some s_ =>
      let ok_ : Bool := true
      s_
    | none =>
      ([] : Bytes)

-- @def AvailabilityImpact_Value
@[gtab] def AvailabilityImpact_Value (ai_ : Int) : Nat :=
  match mapGet tbl_availabilityImpactValueMap ai_ with
    | some v_ =>
      let ok_ : Bool := true
      v_
    | none =>
      (0x0000000000000000 : Nat)

-- @def AvailabilityRequirement_IsValid
@[gtab] def AvailabilityRequirement_IsValid (ar_ : Int) : Bool :=
  let ok_ : Bool := mapMem tbl_AvailabilityRequirementValueMap ar_
  ok_

-- @def AvailabilityRequirement_String
@[gtab] def AvailabilityRequirement_String (ar_ : Int) : Bytes :=
  match mapGet tbl_AvailabilityRequirementMap ar_ with
    | some s_ =>
      let ok_ : Bool := true
      s_
    | none =>
      ([] : Bytes)

-- @def AvailabilityRequirement_Value
@[gtab] def AvailabilityRequirement_Value (ar_ : Int) : Nat :=
  match mapGet tbl_AvailabilityRequirementValueMap ar_ with
    | some v_ =>
      let ok_ : Bool := true
      v_
    | none =>
      (0x0000000000000000 : Nat)

-- @def ConfidentialityImpact_IsUnknown
@[gtab] def ConfidentialityImpact_IsUnknown (ci_ : Int) : Bool :=
  (ci_ == (0 : Int))

-- @def ConfidentialityImpact_String
@[gtab] def ConfidentialityImpact_String (ci_ : Int) : Bytes :=
  match mapGet tbl_confidentialityImpactMap ci_ with
    | some s_ =>
      let ok_ : Bool := true
      s_
    | none =>
      ([] : Bytes)

-- @def ConfidentialityImpact_Value
@[gtab] def ConfidentialityImpact_Value (ci_ : Int) : Nat :=
  match mapGet tbl_confidentialityImpactValueMap ci_ with
    | some v_ =>
      let ok_ : Bool := true
      v_
    | none =>
      (0x0000000000000000 : Nat)

-- @def ConfidentialityRequirement_IsValid
@[gtab] def ConfidentialityRequirement_IsValid (cr_ : Int) : Bool :=
  let ok_ : Bool := mapMem tbl_ConfidentialityRequirementValueMap cr_
  ok_

-- @def ConfidentialityRequirement_String
@[gtab] def ConfidentialityRequirement_String (cr_ : Int) : Bytes :=
  match mapGet tbl_ConfidentialityRequirementMap cr_ with
    | some s_ =>
      let ok_ : Bool := true
      s_
    | none =>
      ([] : Bytes)

-- @def ConfidentialityRequirement_Value
@[gtab] def ConfidentialityRequirement_Value (cr_ : Int) : Nat :=
  match mapGet tbl_ConfidentialityRequirementValueMap cr_ with
    | some v_ =>
      let ok_ : Bool := true
      v_
    | none =>
      (0x0000000000000000 : Nat)

-- @def Exploitability_IsValid
@[gtab] def Exploitability_IsValid (ex_ : Int) : Bool :=
  let ok_ : Bool := mapMem tbl_exploitabilityValueMap ex_
  ok_

-- @def Exploitability_String
@[gtab] def Exploitability_String (ex_ : Int) : Bytes :=
  match mapGet tbl_exploitabilityMap ex_ with
    | some s_ =>
      let ok_ : Bool := true
      s_
    | none =>
      ([] : Bytes)

-- @def Exploitability_Value
@[gtab] def Exploitability_Value (ex_ : Int) : Nat :=
  match mapGet tbl_exploitabilityValueMap ex_ with
    | some v_ =>
      let ok_ : Bool := true
      v_
    | none =>
      (0x3FF0000000000000 : Nat)

-- @def GetAttackComplexity
@[gtab] def GetAttackComplexity (s_ : Bytes) : Int :=
  match mapRev tbl_attackComplexityMap s_ with
    | some k_ => k_
    | none =>
      (0 : Int)

-- @def GetAttackVector
@[gtab] def GetAttackVector (s_ : Bytes) : Int :=
  match mapRev tbl_attackVectorMap s_ with
    | some k_ => k_
    | none =>
      (0 : Int)

-- @def GetAvailabilityImpact
@[gtab] def GetAvailabilityImpact (s_ : Bytes) : Int :=
  match mapRev tbl_availabilityImpactMap s_ with
    | some k_ => k_
    | none =>
      (0 : Int)

-- @def GetAvailabilityRequirement
@[gtab] def GetAvailabilityRequirement (s_ : Bytes) : Int :=
  match mapRev tbl_AvailabilityRequirementMap s_ with
    | some k_ => k_
    | none =>
      (0 : Int)

-- @def GetConfidentialityImpact
@[gtab] def GetConfidentialityImpact (s_ : Bytes) : Int :=
  match mapRev tbl_confidentialityImpactMap s_ with
    | some k_ => k_
    | none =>
      (0 : Int)

-- @def GetConfidentialityRequirement
@[gtab] def GetConfidentialityRequirement (s_ : Bytes) : Int :=
  match mapRev tbl_ConfidentialityRequirementMap s_ with
    | some k_ => k_
    | none =>
      (0 : Int)

-- @def GetExploitability
@[gtab] def GetExploitability (s_ : Bytes) : Int :=
  match mapRev tbl_exploitabilityMap s_ with
    | some k_ => k_
    | none =>
      (0 : Int)

-- @def GetIntegrityImpact
@[gtab] def GetIntegrityImpact (s_ : Bytes) : Int :=
  match mapRev tbl_integrityImpactMap s_ with
    | some k_ => k_
    | none =>
      (0 : Int)

-- @def GetIntegrityRequirement
@[gtab] def GetIntegrityRequirement (s_ : Bytes) : Int :=
  match mapRev tbl_IntegrityRequirementMap s_ with
    | some k_ => k_
    | none =>
      (0 : Int)

-- @def GetModifiedAttackComplexity
@[gtab] def GetModifiedAttackComplexity (s_ : Bytes) : Int :=
  match mapRev tbl_ModifiedAttackComplexityMap s_ with
    | some k_ => k_
    | none =>
      (0 : Int)

-- @def GetModifiedAttackVector
@[gtab] def GetModifiedAttackVector (s_ : Bytes) : Int :=
  match mapRev tbl_ModifiedAttackVectorMap s_ with
    | some k_ => k_
    | none =>
      (0 : Int)

-- @def GetModifiedAvailabilityImpact
@[gtab] def GetModifiedAvailabilityImpact (s_ : Bytes) : Int :=
  match mapRev tbl_ModifiedAvailabilityImpactMap s_ with
    | some k_ => k_
    | none =>
      (0 : Int)

-- @def GetModifiedConfidentialityImpact
@[gtab] def GetModifiedConfidentialityImpact (s_ : Bytes) : Int :=
  match mapRev tbl_ModifiedConfidentialityImpactMap s_ with
    | some k_ => k_
    | none =>
      (0 : Int)

-- @def GetModifiedIntegrityImpact
@[gtab] def GetModifiedIntegrityImpact (s_ : Bytes) : Int :=
  match mapRev tbl_ModifiedIntegrityImpactMap s_ with
    | some k_ => k_
    | none =>
      (0 : Int)

-- @def GetModifiedPrivilegesRequired
@[gtab] def GetModifiedPrivilegesRequired (s_ : Bytes) : Int :=
  match mapRev tbl_ModifiedPrivilegesRequiredMap s_ with
    | some k_ => k_
    | none =>
      (0 : Int)

-- @def GetModifiedScope
@[gtab] def GetModifiedScope (s_ : Bytes) : Int :=
  match mapRev tbl_ModifiedScopeValueMap s_ with
    | some k_ => k_
    | none =>
      (0 : Int)

-- @def GetModifiedUserInteraction
@[gtab] def GetModifiedUserInteraction (s_ : Bytes) : Int :=
  match mapRev tbl_ModifiedUserInteractionMap s_ with
    | some k_ => k_
    | none =>
      (0 : Int)

-- @def GetPrivilegesRequired
@[gtab] def GetPrivilegesRequired (s_ : Bytes) : Int :=
  match mapRev tbl_privilegesRequiredMap s_ with
    | some k_ => k_
    | none =>
      (0 : Int)

-- @def GetRemediationLevel
@[gtab] def GetRemediationLevel (s_ : Bytes) : Int :=
  match mapRev tbl_remediationLevelMap s_ with
    | some k_ => k_
    | none =>
      (0 : Int)

-- @def GetReportConfidence
@[gtab] def GetReportConfidence (s_ : Bytes) : Int :=
  match mapRev tbl_reportConfidenceMap s_ with
    | some k_ => k_
    | none =>
      (0 : Int)

-- @def GetScope
@[gtab] def GetScope (s_ : Bytes) : Int :=
  match mapRev tbl_scopeMap s_ with
    | some k_ => k_
    | none =>
      (0 : Int)

-- @def GetUserInteraction
@[gtab] def GetUserInteraction (s_ : Bytes) : Int :=
  match mapRev tbl_userInteractionMap s_ with
    | some k_ => k_
    | none =>
      (0 : Int)

-- @def IntegrityImpact_IsUnknown
@[gtab] def IntegrityImpact_IsUnknown (ii_ : Int) : Bool :=
  (ii_ == (0 : Int))

-- @def IntegrityImpact_String
@[gtab] def IntegrityImpact_String (ii_ : Int) : Bytes :=
  match mapGet tbl_integrityImpactMap ii_ with
    | some s_ =>
      let ok_ : Bool := true
      s_
    | none =>
      ([] : Bytes)

-- @def IntegrityImpact_Value
@[gtab] def IntegrityImpact_Value (ii_ : Int) : Nat :=
  match mapGet tbl_integrityImpactValueMap ii_ with
    | some v_ =>
      let ok_ : Bool := true
      v_
    | none =>
      (0x0000000000000000 : Nat)

-- @def IntegrityRequirement_IsValid
@[gtab] def IntegrityRequirement_IsValid (ir_ : Int) : Bool :=
  let ok_ : Bool := mapMem tbl_IntegrityRequirementValueMap ir_
  ok_

-- @def IntegrityRequirement_String
@[gtab] def IntegrityRequirement_String (ir_ : Int) : Bytes :=
  match mapGet tbl_IntegrityRequirementMap ir_ with
    | some s_ =>
      let ok_ : Bool := true
      s_
    | none =>
      ([] : Bytes)

-- @def IntegrityRequirement_Value
@[gtab] def IntegrityRequirement_Value (ir_ : Int) : Nat :=
  match mapGet tbl_IntegrityRequirementValueMap ir_ with
    | some v_ =>
      let ok_ : Bool := true
      v_
    | none =>
      (0x0000000000000000 : Nat)

-- @def ModifiedAttackComplexity_IsValid
@[gtab] def ModifiedAttackComplexity_IsValid (mac_ : Int) : Bool :=
  let ok_ : Bool := mapMem tbl_ModifiedAttackComplexityValueMap mac_
  ok_

-- @def ModifiedAttackComplexity_String
@[gtab] def ModifiedAttackComplexity_String (mac_ : Int) : Bytes :=
  match mapGet tbl_ModifiedAttackComplexityMap mac_ with
    | some s_ =>
      let ok_ : Bool := true
      s_
    | none =>
      ([] : Bytes)

-- @def ModifiedAttackComplexity_Value
@[gtab] def ModifiedAttackComplexity_Value (mac_ : Int) (ac_ : Int) : Nat :=
  if (mac_ == (1 : Int)) then
    match mapGet tbl_attackComplexityValueMap ac_ with
      | some v_ =>
        let ok_ : Bool := true
        v_
      | none =>
        (0x0000000000000000 : Nat)
  else
    match mapGet tbl_ModifiedAttackComplexityValueMap mac_ with
      | some v_ =>
        let ok_ : Bool := true
        v_
      | none =>
        (0x0000000000000000 : Nat)

-- @def ModifiedAttackVector_IsValid
@[gtab] def ModifiedAttackVector_IsValid (mav_ : Int) : Bool :=
  let ok_ : Bool := mapMem tbl_ModifiedAttackVectorValueMap mav_
  ok_

-- @def ModifiedAttackVector_String
@[gtab] def ModifiedAttackVector_String (mav_ : Int) : Bytes :=
  match mapGet tbl_ModifiedAttackVectorMap mav_ with
    | some s_ =>
      let ok_ : Bool := true
      s_
    | none =>
      ([] : Bytes)

-- @def ModifiedAttackVector_Value
@[gtab] def ModifiedAttackVector_Value (mav_ : Int) (av_ : Int) : Nat :=
  if (mav_ == (1 : Int)) then
    match mapGet tbl_attackVectorValueMap av_ with
      | some v_ =>
        let ok_ : Bool := true
        v_
      | none =>
        (0x0000000000000000 : Nat)
  else
    match mapGet tbl_ModifiedAttackVectorValueMap mav_ with
      | some v_ =>
        let ok_ : Bool := true
        v_
      | none =>
        (0x0000000000000000 : Nat)

-- @def ModifiedAvailabilityImpact_IsValid
@[gtab] def ModifiedAvailabilityImpact_IsValid (mai_ : Int) : Bool :=
  let ok_ : Bool := mapMem tbl_ModifiedAvailabilityImpactValueMap mai_
  ok_

-- @def ModifiedAvailabilityImpact_String
@[gtab] def ModifiedAvailabilityImpact_String (mai_ : Int) : Bytes :=
  match mapGet tbl_ModifiedAvailabilityImpactMap mai_ with
    | some s_ =>
      let ok_ : Bool := true
      s_
    | none =>
      ([] : Bytes)

-- @def ModifiedAvailabilityImpact_Value
@[gtab] def ModifiedAvailabilityImpact_Value (mai_ : Int) (ai_ : Int) : Nat :=
  if ((ModifiedAvailabilityImpact_String mai_) == (ModifiedAvailabilityImpact_String (1 : Int))) then
    match mapGet tbl_availabilityImpactValueMap ai_ with
      | some v_ =>
        let ok_ : Bool := true
        v_
      | none =>
        (0x0000000000000000 : Nat)
  else
    match mapGet tbl_ModifiedAvailabilityImpactValueMap mai_ with
      | some v_ =>
        let ok_ : Bool := true
        v_
      | none =>
        (0x0000000000000000 : Nat)

-- @def ModifiedConfidentialityImpact_IsValid
@[gtab] def ModifiedConfidentialityImpact_IsValid (mci_ : Int) : Bool :=
  let ok_ : Bool := mapMem tbl_ModifiedConfidentialityImpactValueMap mci_
  ok_

-- @def ModifiedConfidentialityImpact_String
@[gtab] def ModifiedConfidentialityImpact_String (mci_ : Int) : Bytes :=
  match mapGet tbl_ModifiedConfidentialityImpactMap mci_ with
    | some s_ =>
      let ok_ : Bool := true
      s_
    | none =>
      ([] : Bytes)

-- @def ModifiedConfidentialityImpact_Value
@[gtab] def ModifiedConfidentialityImpact_Value (mci_ : Int) (ci_ : Int) : Nat :=
  if ((ModifiedConfidentialityImpact_String mci_) == (ModifiedAttackComplexity_String (1 : Int))) then
    match mapGet tbl_confidentialityImpactValueMap ci_ with
      | some v_ =>
        let ok_ : Bool := true
        v_
      | none =>
        (0x0000000000000000 : Nat)
  else
    match mapGet tbl_ModifiedConfidentialityImpactValueMap mci_ with
      | some v_ =>
        let ok_ : Bool := true
        v_
      | none =>
        (0x0000000000000000 : Nat)

-- @def ModifiedIntegrityImpact_IsValid
@[gtab] def ModifiedIntegrityImpact_IsValid (mii_ : Int) : Bool :=
  let ok_ : Bool := mapMem tbl_ModifiedIntegrityImpactValueMap mii_
  ok_

-- @def ModifiedIntegrityImpact_String
@[gtab] def ModifiedIntegrityImpact_String (mii_ : Int) : Bytes :=
  match mapGet tbl_ModifiedIntegrityImpactMap mii_ with
    | some s_ =>
      let ok_ : Bool := true
      s_
    | none =>
      ([] : Bytes)

-- @def ModifiedIntegrityImpact_Value
@[gtab] def ModifiedIntegrityImpact_Value (mii_ : Int) (ii_ : Int) : Nat :=
  if ((ModifiedIntegrityImpact_String mii_) == (ModifiedAttackComplexity_String (1 : Int))) then
    match mapGet tbl_integrityImpactValueMap ii_ with
      | some v_ =>
        let ok_ : Bool := true
        v_
      | none =>
        (0x0000000000000000 : Nat)
  else
    match mapGet tbl_ModifiedIntegrityImpactValueMap mii_ with
      | some v_ =>
        let ok_ : Bool := true
        v_
      | none =>
        (0x0000000000000000 : Nat)

-- @def ModifiedPrivilegesRequired_IsValid
@[gtab] def ModifiedPrivilegesRequired_IsValid (mpr_ : Int) : Bool :=
  let ok_ : Bool := mapMem tbl_ModifiedPrivilegesRequiredWithCValueMap mpr_
  ok_

-- @def ModifiedPrivilegesRequired_String
@[gtab] def ModifiedPrivilegesRequired_String (mpr_ : Int) : Bytes :=
  match mapGet tbl_ModifiedPrivilegesRequiredMap mpr_ with
    | some s_ =>
      let ok_ : Bool := true
      s_
    | none =>
      ([] : Bytes)

-- @def Scope_IsChanged
@[gtab] def Scope_IsChanged (sc_ : Int) : Bool :=
  (sc_ == (2 : Int))

-- @def ModifiedScope_IsChanged
@[gtab] def ModifiedScope_IsChanged (msc_ : Int) (sc_ : Int) : Bool :=
  if (msc_ == (1 : Int)) then
    (Scope_IsChanged sc_)
  else
    (msc_ == (3 : Int))

-- @def PrivilegesRequired_Value
@[gtab] def PrivilegesRequired_Value (pr_ : Int) (s_ : Int) : Nat :=
  let m_ : List (Int × Nat) := ([] : List (Int × Nat))
  if (s_ == (1 : Int)) then
    let m_ : List (Int × Nat) := tbl_privilegesRequiredWithUValueMap
    match mapGet m_ pr_ with
      | some v_ =>
        let ok_ : Bool := true
        v_
      | none =>
        (0x0000000000000000 : Nat)
  else
    if (s_ == (2 : Int)) then
      let m_ : List (Int × Nat) := tbl_privilegesRequiredWithCValueMap
      match mapGet m_ pr_ with
        | some v_ =>
          let ok_ : Bool := true
          v_
        | none =>
          (0x0000000000000000 : Nat)
    else
      (0x0000000000000000 : Nat)

-- @def ModifiedPrivilegesRequired_Value
@[gtab] def ModifiedPrivilegesRequired_Value (mpr_ : Int) (ms_ : Int) (s_ : Int) (pr_ : Int) : Nat :=
  if (mpr_ == (1 : Int)) then
    if (ModifiedScope_IsChanged ms_ s_) then
      let s_ : Int := (2 : Int)
      (PrivilegesRequired_Value pr_ s_)
    else
      let s_ : Int := (1 : Int)
      (PrivilegesRequired_Value pr_ s_)
  else
    let m_ : List (Int × Nat) := ([] : List (Int × Nat))
    if (ModifiedScope_IsChanged ms_ s_) then
      let m_ : List (Int × Nat) := tbl_ModifiedPrivilegesRequiredWithCValueMap
      match mapGet m_ mpr_ with
        | some v_ =>
          let ok_ : Bool := true
          v_
        | none =>
          (0x0000000000000000 : Nat)
    else
      let m_ : List (Int × Nat) := tbl_ModifiedPrivilegesRequiredWithUValueMap
      match mapGet m_ mpr_ with
        | some v_ =>
          let ok_ : Bool := true
          v_
        | none =>
          (0x0000000000000000 : Nat)

-- @def ModifiedScope_IsValid
@[gtab] def ModifiedScope_IsValid (msc_ : Int) : Bool :=
  let ok_ : Bool := mapMem tbl_ModifiedScopeValueMap msc_
  ok_

-- @def ModifiedScope_String
@[gtab] def ModifiedScope_String (msc_ : Int) : Bytes :=
  match mapGet tbl_ModifiedScopeValueMap msc_ with
    | some s_ =>
      let ok_ : Bool := true
      s_
    | none =>
      ([] : Bytes)

-- @def ModifiedUserInteraction_IsValid
@[gtab] def ModifiedUserInteraction_IsValid (mui_ : Int) : Bool :=
  let ok_ : Bool := mapMem tbl_ModifiedUserInteractionValueMap mui_
  ok_

-- @def ModifiedUserInteraction_String
@[gtab] def ModifiedUserInteraction_String (mui_ : Int) : Bytes :=
  match mapGet tbl_ModifiedUserInteractionMap mui_ with
    | some s_ =>
      let ok_ : Bool := true
      s_
    | none =>
      ([] : Bytes)

-- @def ModifiedUserInteraction_Value
@[gtab] def ModifiedUserInteraction_Value (mui_ : Int) (ui_ : Int) : Nat :=
  if (mui_ == (1 : Int)) then
    match mapGet tbl_userInteractionValueMap ui_ with
      | some v_ =>
        let ok_ : Bool := true
        v_
      | none =>
        (0x0000000000000000 : Nat)
  else
    match mapGet tbl_ModifiedUserInteractionValueMap mui_ with
      | some v_ =>
        let ok_ : Bool := true
        v_
      | none =>
        (0x0000000000000000 : Nat)

-- @def PrivilegesRequired_IsUnknown
@[gtab] def PrivilegesRequired_IsUnknown (pr_ : Int) : Bool :=
  (pr_ == (0 : Int))

-- @def PrivilegesRequired_String
@[gtab] def PrivilegesRequired_String (pr_ : Int) : Bytes :=
  match mapGet tbl_privilegesRequiredMap pr_ with
    | some s_ =>
      let ok_ : Bool := true
      s_
    | none =>
      ([] : Bytes)

-- @def RemediationLevel_IsValid
@[gtab] def RemediationLevel_IsValid (rl_ : Int) : Bool :=
  let ok_ : Bool := mapMem tbl_remediationLevelValueMap rl_
  ok_

-- @def RemediationLevel_String
@[gtab] def RemediationLevel_String (rl_ : Int) : Bytes :=
  match mapGet tbl_remediationLevelMap rl_ with
    | some s_ =>
      let ok_ : Bool := true
      s_
    | none =>
      ([] : Bytes)

-- @def RemediationLevel_Value
@[gtab] def RemediationLevel_Value (rl_ : Int) : Nat :=
  match mapGet tbl_remediationLevelValueMap rl_ with
    | some v_ =>
      let ok_ : Bool := true
      v_
    | none =>
      (0x3FF0000000000000 : Nat)

-- @def ReportConfidence_IsValid
@[gtab] def ReportConfidence_IsValid (rc_ : Int) : Bool :=
  let ok_ : Bool := mapMem tbl_reportConfidenceValueMap rc_
  ok_

-- @def ReportConfidence_String
@[gtab] def ReportConfidence_String (rc_ : Int) : Bytes :=
  match mapGet tbl_reportConfidenceMap rc_ with
    | some s_ =>
      let ok_ : Bool := true
      s_
    | none =>
      ([] : Bytes)

-- @def ReportConfidence_Value
@[gtab] def ReportConfidence_Value (rc_ : Int) : Nat :=
  match mapGet tbl_reportConfidenceValueMap rc_ with
    | some v_ =>
      let ok_ : Bool := true
      v_
    | none =>
      (0x3FF0000000000000 : Nat)

-- @def Scope_IsUnknown
@[gtab] def Scope_IsUnknown (sc_ : Int) : Bool :=
  (sc_ == (0 : Int))

-- @def Scope_String
@[gtab] def Scope_String (sc_ : Int) : Bytes :=
  match mapGet tbl_scopeMap sc_ with
    | some s_ =>
      let ok_ : Bool := true
      s_
    | none =>
      ([] : Bytes)

-- @def Severity_String
@[gtab] def Severity_String (sv_ : Int) : Bytes :=
  match mapGet tbl_severityMap sv_ with
    | some s_ =>
      let ok_ : Bool := true
      s_
    | none =>
      ([85, 110, 107, 110, 111, 119, 110] : Bytes)

-- @def UserInteraction_IsUnknown
@[gtab] def UserInteraction_IsUnknown (ui_ : Int) : Bool :=
  (ui_ == (0 : Int))

-- @def UserInteraction_String
@[gtab] def UserInteraction_String (ui_ : Int) : Bytes :=
  match mapGet tbl_userInteractionMap ui_ with
    | some s_ =>
      let ok_ : Bool := true
      s_
    | none =>
      ([] : Bytes)

-- @def UserInteraction_Value
@[gtab] def UserInteraction_Value (ui_ : Int) : Nat :=
  match mapGet tbl_userInteractionValueMap ui_ with
    | some v_ =>
      let ok_ : Bool := true
      v_
    | none =>
      (0x0000000000000000 : Nat)

-- @def Version_String
@[gtab] def Version_String (n_ : Int) : Bytes :=
  match mapGet tbl_verStrings n_ with
    | some s_ =>
      let ok_ : Bool := true
      s_
    | none =>
      ([117, 110, 107, 110, 111, 119, 110] : Bytes)

-- @def get
@[gtab] def get (s_ : Bytes) : Int :=
  match mapRev tbl_verStrings s_ with
    | some k_ => k_
    | none =>
      (0 : Int)

-- @def revTables
/-- the code tables searched by a `for k, v := range` loop: their values must be pairwise different -/
def revTables : List (String × List (Int × Bytes)) := [("AvailabilityRequirementMap", tbl_AvailabilityRequirementMap), ("ConfidentialityRequirementMap", tbl_ConfidentialityRequirementMap), ("IntegrityRequirementMap", tbl_IntegrityRequirementMap), ("ModifiedAttackComplexityMap", tbl_ModifiedAttackComplexityMap), ("ModifiedAttackVectorMap", tbl_ModifiedAttackVectorMap), ("ModifiedAvailabilityImpactMap", tbl_ModifiedAvailabilityImpactMap), ("ModifiedConfidentialityImpactMap", tbl_ModifiedConfidentialityImpactMap), ("ModifiedIntegrityImpactMap", tbl_ModifiedIntegrityImpactMap), ("ModifiedPrivilegesRequiredMap", tbl_ModifiedPrivilegesRequiredMap), ("ModifiedScopeValueMap", tbl_ModifiedScopeValueMap), ("ModifiedUserInteractionMap", tbl_ModifiedUserInteractionMap), ("attackComplexityMap", tbl_attackComplexityMap), ("attackVectorMap", tbl_attackVectorMap), ("availabilityImpactMap", tbl_availabilityImpactMap), ("confidentialityImpactMap", tbl_confidentialityImpactMap), ("exploitabilityMap", tbl_exploitabilityMap), ("integrityImpactMap", tbl_integrityImpactMap), ("privilegesRequiredMap", tbl_privilegesRequiredMap), ("remediationLevelMap", tbl_remediationLevelMap), ("reportConfidenceMap", tbl_reportConfidenceMap), ("scopeMap", tbl_scopeMap), ("userInteractionMap", tbl_userInteractionMap), ("verStrings", tbl_verStrings)]

-- @def consts
def consts : List (String × Int) := [("AttackComplexityHigh", 1), ("AttackComplexityLow", 2), ("AttackComplexityUnknown", 0), ("AttackVectorAdjacent", 3), ("AttackVectorLocal", 2), ("AttackVectorNetwork", 4), ("AttackVectorPhysical", 1), ("AttackVectorUnknown", 0), ("AvailabilityImpactHigh", 3), ("AvailabilityImpactLow", 2), ("AvailabilityImpactNone", 1), ("AvailabilityImpactUnknown", 0), ("AvailabilityRequirementHigh", 4), ("AvailabilityRequirementInvalid", 0), ("AvailabilityRequirementLow", 2), ("AvailabilityRequirementMedium", 3), ("AvailabilityRequirementNotDefined", 1), ("ConfidentialityImpactHigh", 3), ("ConfidentialityImpactLow", 2), ("ConfidentialityImpactNone", 1), ("ConfidentialityImpactUnknown", 0), ("ConfidentialityRequirementHigh", 4), ("ConfidentialityRequirementInvalid", 0), ("ConfidentialityRequirementLow", 2), ("ConfidentialityRequirementMedium", 3), ("ConfidentialityRequirementNotDefined", 1), ("ExploitabilityFunctional", 4), ("ExploitabilityHigh", 5), ("ExploitabilityInvalid", 0), ("ExploitabilityNotDefined", 1), ("ExploitabilityProofOfConcept", 3), ("ExploitabilityUnproven", 2), ("IntegrityImpactHigh", 3), ("IntegrityImpactLow", 2), ("IntegrityImpactNone", 1), ("IntegrityImpactUnknown", 0), ("IntegrityRequirementHigh", 4), ("IntegrityRequirementInvalid", 0), ("IntegrityRequirementLow", 2), ("IntegrityRequirementMedium", 3), ("IntegrityRequirementNotDefined", 1), ("ModifiedAttackComplexityHigh", 2), ("ModifiedAttackComplexityInvalid", 0), ("ModifiedAttackComplexityLow", 3), ("ModifiedAttackComplexityNotDefined", 1), ("ModifiedAttackVectorAdjacent", 4), ("ModifiedAttackVectorInvalid", 0), ("ModifiedAttackVectorLocal", 3), ("ModifiedAttackVectorNetwork", 5), ("ModifiedAttackVectorNotDefined", 1), ("ModifiedAttackVectorPhysical", 2), ("ModifiedAvailabilityImpactHigh", 4), ("ModifiedAvailabilityImpactLow", 3), ("ModifiedAvailabilityImpactNone", 2), ("ModifiedAvailabilityImpactNotDefined", 1), ("ModifiedAvailabilityInvalid", 0), ("ModifiedConfidentialityImpactHigh", 4), ("ModifiedConfidentialityImpactInvalid", 0), ("ModifiedConfidentialityImpactLow", 3), ("ModifiedConfidentialityImpactNone", 2), ("ModifiedConfidentialityImpactNotDefined", 1), ("ModifiedIntegrityImpactHigh", 4), ("ModifiedIntegrityImpactInvalid", 0), ("ModifiedIntegrityImpactLow", 3), ("ModifiedIntegrityImpactNone", 2), ("ModifiedIntegrityImpactNotDefined", 1), ("ModifiedPrivilegesRequiredHigh", 2), ("ModifiedPrivilegesRequiredInvalid", 0), ("ModifiedPrivilegesRequiredLow", 3), ("ModifiedPrivilegesRequiredNone", 4), ("ModifiedPrivilegesRequiredNotDefined", 1), ("ModifiedScopeChanged", 3), ("ModifiedScopeInvalid", 0), ("ModifiedScopeNotDefined", 1), ("ModifiedScopeUnchanged", 2), ("ModifiedUserInteractionInvalid", 0), ("ModifiedUserInteractionNone", 3), ("ModifiedUserInteractionNotDefined", 1), ("ModifiedUserInteractionRequired", 2), ("PrivilegesRequiredHigh", 1), ("PrivilegesRequiredLow", 2), ("PrivilegesRequiredNone", 3), ("PrivilegesRequiredUnknown", 0), ("RemediationLevelInvalid", 0), ("RemediationLevelNotDefined", 1), ("RemediationLevelOfficialFix", 2), ("RemediationLevelTemporaryFix", 3), ("RemediationLevelUnavailable", 5), ("RemediationLevelWorkaround", 4), ("ReportConfidenceConfirmed", 4), ("ReportConfidenceInvalid", 0), ("ReportConfidenceNotDefined", 1), ("ReportConfidenceReasonable", 3), ("ReportConfidenceUnknown", 2), ("ScopeChanged", 2), ("ScopeUnchanged", 1), ("ScopeUnknown", 0), ("SeverityCritical", 5), ("SeverityHigh", 4), ("SeverityLow", 2), ("SeverityMedium", 3), ("SeverityNone", 1), ("SeverityUnknown", 0), ("UserInteractionNone", 2), ("UserInteractionRequired", 1), ("UserInteractionUnknown", 0), ("V3_0", 1), ("V3_1", 2), ("VUnknown", 0)]

end CvssVerif.Gen.T3

namespace CvssVerif.Gen.T2
open CvssVerif CvssVerif.GoMap

-- @def tbl_accessComplexityMap
@[gtab] def tbl_accessComplexityMap : List (Int × Bytes) := [(1, [72]), (2, [77]), (3, [76])]

-- @def tbl_accessComplexityValueMap
@[gtab] def tbl_accessComplexityValueMap : List (Int × Nat) := [(1, 0x3FD6666666666666), (2, 0x3FE3851EB851EB85), (3, 0x3FE6B851EB851EB8)]

-- @def tbl_accessVectorMap
@[gtab] def tbl_accessVectorMap : List (Int × Bytes) := [(1, [76]), (2, [65]), (3, [78])]

-- @def tbl_accessVectorValueMap
@[gtab] def tbl_accessVectorValueMap : List (Int × Nat) := [(1, 0x3FD947AE147AE148), (2, 0x3FE4AC083126E979), (3, 0x3FF0000000000000)]

-- @def tbl_authenticationMap
@[gtab] def tbl_authenticationMap : List (Int × Bytes) := [(1, [78]), (2, [83]), (3, [77])]

-- @def tbl_authenticationValueMap
@[gtab] def tbl_authenticationValueMap : List (Int × Nat) := [(1, 0x3FE6872B020C49BA), (2, 0x3FE1EB851EB851EC), (3, 0x3FDCCCCCCCCCCCCD)]

-- @def tbl_availabilityImpactMap
@[gtab] def tbl_availabilityImpactMap : List (Int × Bytes) := [(1, [78]), (2, [80]), (3, [67])]

-- @def tbl_availabilityImpactValueMap
@[gtab] def tbl_availabilityImpactValueMap : List (Int × Nat) := [(1, 0x0000000000000000), (2, 0x3FD199999999999A), (3, 0x3FE51EB851EB851F)]

-- @def tbl_availabilityRequirementMap
@[gtab] def tbl_availabilityRequirementMap : List (Int × Bytes) := [(1, [78, 68]), (2, [76]), (3, [77]), (4, [72])]

-- @def tbl_availabilityRequirementValueMap
@[gtab] def tbl_availabilityRequirementValueMap : List (Int × Nat) := [(1, 0x3FF0000000000000), (2, 0x3FE0000000000000), (3, 0x3FF0000000000000), (4, 0x3FF828F5C28F5C29)]

-- @def tbl_collateralDamagePotentialMap
@[gtab] def tbl_collateralDamagePotentialMap : List (Int × Bytes) := [(1, [78, 68]), (2, [78]), (3, [76]), (4, [76, 77]), (5, [77, 72]), (6, [72])]

-- @def tbl_collateralDamagePotentialValueMap
@[gtab] def tbl_collateralDamagePotentialValueMap : List (Int × Nat) := [(1, 0x0000000000000000), (2, 0x0000000000000000), (3, 0x3FB999999999999A), (4, 0x3FD3333333333333), (5, 0x3FD999999999999A), (6, 0x3FE0000000000000)]

-- @def tbl_confidentialityImpactMap
@[gtab] def tbl_confidentialityImpactMap : List (Int × Bytes) := [(1, [78]), (2, [80]), (3, [67])]

-- @def tbl_confidentialityImpactValueMap
@[gtab] def tbl_confidentialityImpactValueMap : List (Int × Nat) := [(1, 0x0000000000000000), (2, 0x3FD199999999999A), (3, 0x3FE51EB851EB851F)]

-- @def tbl_confidentialityRequirementMap
@[gtab] def tbl_confidentialityRequirementMap : List (Int × Bytes) := [(1, [78, 68]), (2, [76]), (3, [77]), (4, [72])]

-- @def tbl_confidentialityRequirementValueMap
@[gtab] def tbl_confidentialityRequirementValueMap : List (Int × Nat) := [(1, 0x3FF0000000000000), (2, 0x3FE0000000000000), (3, 0x3FF0000000000000), (4, 0x3FF828F5C28F5C29)]

-- @def tbl_exploitabilityMap
@[gtab] def tbl_exploitabilityMap : List (Int × Bytes) := [(1, [78, 68]), (2, [85]), (3, [80, 79, 67]), (4, [70]), (5, [72])]

-- @def tbl_exploitabilityValueMap
@[gtab] def tbl_exploitabilityValueMap : List (Int × Nat) := [(1, 0x3FF0000000000000), (2, 0x3FEB333333333333), (3, 0x3FECCCCCCCCCCCCD), (4, 0x3FEE666666666666), (5, 0x3FF0000000000000)]

-- @def tbl_integrityImpactMap
@[gtab] def tbl_integrityImpactMap : List (Int × Bytes) := [(1, [78]), (2, [80]), (3, [67])]

-- @def tbl_integrityImpactValueMap
@[gtab] def tbl_integrityImpactValueMap : List (Int × Nat) := [(1, 0x0000000000000000), (2, 0x3FD199999999999A), (3, 0x3FE51EB851EB851F)]

-- @def tbl_integrityRequirementMap
@[gtab] def tbl_integrityRequirementMap : List (Int × Bytes) := [(1, [78, 68]), (2, [76]), (3, [77]), (4, [72])]

-- @def tbl_integrityRequirementValueMap
@[gtab] def tbl_integrityRequirementValueMap : List (Int × Nat) := [(1, 0x3FF0000000000000), (2, 0x3FE0000000000000), (3, 0x3FF0000000000000), (4, 0x3FF828F5C28F5C29)]

-- @def tbl_remediationLevelMap
@[gtab] def tbl_remediationLevelMap : List (Int × Bytes) := [(1, [78, 68]), (2, [79, 70]), (3, [84, 70]), (4, [87]), (5, [85])]

-- @def tbl_remediationLevelValueMap
@[gtab] def tbl_remediationLevelValueMap : List (Int × Nat) := [(1, 0x3FF0000000000000), (2, 0x3FEBD70A3D70A3D7), (3, 0x3FECCCCCCCCCCCCD), (4, 0x3FEE666666666666), (5, 0x3FF0000000000000)]

-- @def tbl_reportConfidenceMap
@[gtab] def tbl_reportConfidenceMap : List (Int × Bytes) := [(1, [78, 68]), (2, [85, 67]), (3, [85, 82]), (4, [67])]

-- @def tbl_reportConfidenceValueMap
@[gtab] def tbl_reportConfidenceValueMap : List (Int × Nat) := [(1, 0x3FF0000000000000), (2, 0x3FECCCCCCCCCCCCD), (3, 0x3FEE666666666666), (4, 0x3FF0000000000000)]

-- @def tbl_severityMap
@[gtab] def tbl_severityMap : List (Int × Bytes) := [(1, [76, 111, 119]), (2, [77, 101, 100, 105, 117, 109]), (3, [72, 105, 103, 104])]

-- @def tbl_targetDistributionMap
@[gtab] def tbl_targetDistributionMap : List (Int × Bytes) := [(1, [78, 68]), (2, [78]), (3, [76]), (4, [77]), (5, [72])]

-- @def tbl_targetDistributionValueMap
@[gtab] def tbl_targetDistributionValueMap : List (Int × Nat) := [(1, 0x3FF0000000000000), (2, 0x0000000000000000), (3, 0x3FD0000000000000), (4, 0x3FE8000000000000), (5, 0x3FF0000000000000)]

-- @def AccessComplexity_IsUnknown
@[gtab] def AccessComplexity_IsUnknown (ac_ : Int) : Bool :=
  (ac_ != (0 : Int))

-- @def AccessComplexity_String
@[gtab] def AccessComplexity_String (ac_ : Int) : Bytes :=
  match mapGet tbl_accessComplexityMap ac_ with
    | some s_ =>
      let ok_ : Bool := true
      s_
    | none =>
      ([] : Bytes)

-- @def AccessComplexity_Value
@[gtab] def AccessComplexity_Value (ac_ : Int) : Nat :=
  match mapGet tbl_accessComplexityValueMap ac_ with
    | some v_ =>
      let ok_ : Bool := true
      v_
    | none =>
      (0x0000000000000000 : Nat)

-- @def AccessVector_IsUnknown
@[gtab] def AccessVector_IsUnknown (av_ : Int) : Bool :=
  (av_ != (0 : Int))

-- @def AccessVector_String
@[gtab] def AccessVector_String (av_ : Int) : Bytes :=
  match mapGet tbl_accessVectorMap av_ with
    | some s_ =>
      let ok_ : Bool := true
      s_
    | none =>
      ([] : Bytes)

-- @def AccessVector_Value
@[gtab] def AccessVector_Value (av_ : Int) : Nat :=
  match mapGet tbl_accessVectorValueMap av_ with
    | some v_ =>
      let ok_ : Bool := true
      v_
    | none =>
      (0x0000000000000000 : Nat)

-- @def Authentication_IsUnknown
@[gtab] def Authentication_IsUnknown (av_ : Int) : Bool :=
  (av_ != (0 : Int))

-- @def Authentication_String
@[gtab] def Authentication_String (av_ : Int) : Bytes :=
  match mapGet tbl_authenticationMap av_ with
    | some s_ =>
      let ok_ : Bool := true
      s_
    | none =>
      ([] : Bytes)

-- @def Authentication_Value
@[gtab] def Authentication_Value (av_ : Int) : Nat :=
  match mapGet tbl_authenticationValueMap av_ with
    | some v_ =>
      let ok_ : Bool := true
      v_
    | none =>
      (0x0000000000000000 : Nat)

-- @def AvailabilityImpact_IsUnknown
@[gtab] def AvailabilityImpact_IsUnknown (ai_ : Int) : Bool :=
  (ai_ != (0 : Int))

-- @def AvailabilityImpact_String
@[gtab] def AvailabilityImpact_String (ai_ : Int) : Bytes :=
  match mapGet tbl_availabilityImpactMap ai_ with
    | some s_ =>
      let ok_ : Bool := true
      s_
    | none =>
      ([] : Bytes)

-- @def AvailabilityImpact_Value
@[gtab] def AvailabilityImpact_Value (ai_ : Int) : Nat :=
  match mapGet tbl_availabilityImpactValueMap ai_ with
    | some v_ =>
      let ok_ : Bool := true
      v_
    | none =>
      (0x0000000000000000 : Nat)

-- @def AvailabilityRequirement_IsValid
@[gtab] def AvailabilityRequirement_IsValid (ar_ : Int) : Bool :=
  (ar_ != (0 : Int))

-- @def AvailabilityRequirement_IsDefined
@[gtab] def AvailabilityRequirement_IsDefined (ar_ : Int) : Bool :=
  ((AvailabilityRequirement_IsValid ar_) && (ar_ != (1 : Int)))

-- @def AvailabilityRequirement_String
@[gtab] def AvailabilityRequirement_String (ar_ : Int) : Bytes :=
  match mapGet tbl_availabilityRequirementMap ar_ with
    | some s_ =>
      let ok_ : Bool := true
      s_
    | none =>
      ([] : Bytes)

-- @def AvailabilityRequirement_Value
@[gtab] def AvailabilityRequirement_Value (ar_ : Int) : Nat :=
  match mapGet tbl_availabilityRequirementValueMap ar_ with
    | some v_ =>
      let ok_ : Bool := true
      v_
    | none =>
      (0x0000000000000000 : Nat)

-- @def CollateralDamagePotential_IsValid
@[gtab] def CollateralDamagePotential_IsValid (cdp_ : Int) : Bool :=
  (cdp_ != (0 : Int))

-- @def CollateralDamagePotential_IsDefined
@[gtab] def CollateralDamagePotential_IsDefined (cdp_ : Int) : Bool :=
  ((CollateralDamagePotential_IsValid cdp_) && (cdp_ != (1 : Int)))

-- @def CollateralDamagePotential_String
@[gtab] def CollateralDamagePotential_String (cdp_ : Int) : Bytes :=
  match mapGet tbl_collateralDamagePotentialMap cdp_ with
    | some s_ =>
      let ok_ : Bool := true
      s_
    | none =>
      ([] : Bytes)

-- @def CollateralDamagePotential_Value
@[gtab] def CollateralDamagePotential_Value (cdp_ : Int) : Nat :=
  match mapGet tbl_collateralDamagePotentialValueMap cdp_ with
    | some v_ =>
      let ok_ : Bool := true
      v_
    | none =>
      (0x0000000000000000 : Nat)

-- @def ConfidentialityImpact_IsUnknown
@[gtab] def ConfidentialityImpact_IsUnknown (ci_ : Int) : Bool :=
  (ci_ != (0 : Int))

-- @def ConfidentialityImpact_String
@[gtab] def ConfidentialityImpact_String (ci_ : Int) : Bytes :=
  match mapGet tbl_confidentialityImpactMap ci_ with
    | some s_ =>
      let ok_ : Bool := true
      s_
    | none =>
      ([] : Bytes)

-- @def ConfidentialityImpact_Value
@[gtab] def ConfidentialityImpact_Value (ci_ : Int) : Nat :=
  match mapGet tbl_confidentialityImpactValueMap ci_ with
    | some v_ =>
      let ok_ : Bool := true
      v_
    | none =>
      (0x0000000000000000 : Nat)

-- @def ConfidentialityRequirement_IsValid
@[gtab] def ConfidentialityRequirement_IsValid (cr_ : Int) : Bool :=
  (cr_ != (0 : Int))

-- @def ConfidentialityRequirement_IsDefined
@[gtab] def ConfidentialityRequirement_IsDefined (cr_ : Int) : Bool :=
  ((ConfidentialityRequirement_IsValid cr_) && (cr_ != (1 : Int)))

-- @def ConfidentialityRequirement_String
@[gtab] def ConfidentialityRequirement_String (cr_ : Int) : Bytes :=
  match mapGet tbl_confidentialityRequirementMap cr_ with
    | some s_ =>
      let ok_ : Bool := true
      s_
    | none =>
      ([] : Bytes)

-- @def ConfidentialityRequirement_Value
@[gtab] def ConfidentialityRequirement_Value (cr_ : Int) : Nat :=
  match mapGet tbl_confidentialityRequirementValueMap cr_ with
    | some v_ =>
      let ok_ : Bool := true
      v_
    | none =>
      (0x0000000000000000 : Nat)

-- @def Exploitability_IsValid
@[gtab] def Exploitability_IsValid (ai_ : Int) : Bool :=
  (ai_ != (0 : Int))

-- @def Exploitability_IsDefined
@[gtab] def Exploitability_IsDefined (ai_ : Int) : Bool :=
  ((Exploitability_IsValid ai_) && (ai_ != (1 : Int)))

-- @def Exploitability_String
@[gtab] def Exploitability_String (ai_ : Int) : Bytes :=
  match mapGet tbl_exploitabilityMap ai_ with
    | some s_ =>
      let ok_ : Bool := true
      s_
    | none =>
      ([] : Bytes)

-- @def Exploitability_Value
@[gtab] def Exploitability_Value (ai_ : Int) : Nat :=
  match mapGet tbl_exploitabilityValueMap ai_ with
    | some v_ =>
      let ok_ : Bool := true
      v_
    | none =>
      (0x3FF0000000000000 : Nat)

-- @def GetAccessComplexity
@[gtab] def GetAccessComplexity (s_ : Bytes) : Int :=
  match mapRev tbl_accessComplexityMap s_ with
    | some k_ => k_
    | none =>
      (0 : Int)

-- @def GetAccessVector
@[gtab] def GetAccessVector (s_ : Bytes) : Int :=
  match mapRev tbl_accessVectorMap s_ with
    | some k_ => k_
    | none =>
      (0 : Int)

-- @def GetAuthentication
@[gtab] def GetAuthentication (s_ : Bytes) : Int :=
  match mapRev tbl_authenticationMap s_ with
    | some k_ => k_
    | none =>
      (0 : Int)

-- @def GetAvailabilityImpact
@[gtab] def GetAvailabilityImpact (s_ : Bytes) : Int :=
  match mapRev tbl_availabilityImpactMap s_ with
    | some k_ => k_
    | none =>
      (0 : Int)

-- @def GetAvailabilityRequirement
@[gtab] def GetAvailabilityRequirement (s_ : Bytes) : Int :=
  match mapRev tbl_availabilityRequirementMap s_ with
    | some k_ => k_
    | none =>
      (0 : Int)

-- @def GetCollateralDamagePotential
@[gtab] def GetCollateralDamagePotential (s_ : Bytes) : Int :=
  match mapRev tbl_collateralDamagePotentialMap s_ with
    | some k_ => k_
    | none =>
      (0 : Int)

-- @def GetConfidentialityImpact
@[gtab] def GetConfidentialityImpact (s_ : Bytes) : Int :=
  match mapRev tbl_confidentialityImpactMap s_ with
    | some k_ => k_
    | none =>
      (0 : Int)

-- @def GetConfidentialityRequirement
@[gtab] def GetConfidentialityRequirement (s_ : Bytes) : Int :=
  match mapRev tbl_confidentialityRequirementMap s_ with
    | some k_ => k_
    | none =>
      (0 : Int)

-- @def GetExploitability
@[gtab] def GetExploitability (s_ : Bytes) : Int :=
  match mapRev tbl_exploitabilityMap s_ with
    | some k_ => k_
    | none =>
      (0 : Int)

-- @def GetIntegrityImpact
@[gtab] def GetIntegrityImpact (s_ : Bytes) : Int :=
  match mapRev tbl_integrityImpactMap s_ with
    | some k_ => k_
    | none =>
      (0 : Int)

-- @def GetIntegrityRequirement
@[gtab] def GetIntegrityRequirement (s_ : Bytes) : Int :=
  match mapRev tbl_integrityRequirementMap s_ with
    | some k_ => k_
    | none =>
      (0 : Int)

-- @def GetRemediationLevel
@[gtab] def GetRemediationLevel (s_ : Bytes) : Int :=
  match mapRev tbl_remediationLevelMap s_ with
    | some k_ => k_
    | none =>
      (0 : Int)

-- @def GetReportConfidence
@[gtab] def GetReportConfidence (s_ : Bytes) : Int :=
  match mapRev tbl_reportConfidenceMap s_ with
    | some k_ => k_
    | none =>
      (0 : Int)

-- @def GetTargetDistribution
@[gtab] def GetTargetDistribution (s_ : Bytes) : Int :=
  match mapRev tbl_targetDistributionMap s_ with
    | some k_ => k_
    | none =>
      (0 : Int)

-- @def IntegrityImpact_IsUnknown
@[gtab] def IntegrityImpact_IsUnknown (ii_ : Int) : Bool :=
  (ii_ != (0 : Int))

-- @def IntegrityImpact_String
@[gtab] def IntegrityImpact_String (ii_ : Int) : Bytes :=
  match mapGet tbl_integrityImpactMap ii_ with
    | some s_ =>
      let ok_ : Bool := true
      s_
    | none =>
      ([] : Bytes)

-- @def IntegrityImpact_Value
@[gtab] def IntegrityImpact_Value (ii_ : Int) : Nat :=
  match mapGet tbl_integrityImpactValueMap ii_ with
    | some v_ =>
      let ok_ : Bool := true
      v_
    | none =>
      (0x0000000000000000 : Nat)

-- @def IntegrityRequirement_IsValid
@[gtab] def IntegrityRequirement_IsValid (ir_ : Int) : Bool :=
  (ir_ != (0 : Int))

-- @def IntegrityRequirement_IsDefined
@[gtab] def IntegrityRequirement_IsDefined (ir_ : Int) : Bool :=
  ((IntegrityRequirement_IsValid ir_) && (ir_ != (1 : Int)))

-- @def IntegrityRequirement_String
@[gtab] def IntegrityRequirement_String (ir_ : Int) : Bytes :=
  match mapGet tbl_integrityRequirementMap ir_ with
    | some s_ =>
      let ok_ : Bool := true
      s_
    | none =>
      ([] : Bytes)

-- @def IntegrityRequirement_Value
@[gtab] def IntegrityRequirement_Value (ir_ : Int) : Nat :=
  match mapGet tbl_integrityRequirementValueMap ir_ with
    | some v_ =>
      let ok_ : Bool := true
      v_
    | none =>
      (0x0000000000000000 : Nat)

-- @def RemediationLevel_IsValid
@[gtab] def RemediationLevel_IsValid (ai_ : Int) : Bool :=
  (ai_ != (0 : Int))

-- @def RemediationLevel_IsDefined
@[gtab] def RemediationLevel_IsDefined (ai_ : Int) : Bool :=
  ((RemediationLevel_IsValid ai_) && (ai_ != (1 : Int)))

-- @def RemediationLevel_String
@[gtab] def RemediationLevel_String (ai_ : Int) : Bytes :=
  match mapGet tbl_remediationLevelMap ai_ with
    | some s_ =>
      let ok_ : Bool := true
      s_
    | none =>
      ([] : Bytes)

-- @def RemediationLevel_Value
@[gtab] def RemediationLevel_Value (ai_ : Int) : Nat :=
  match mapGet tbl_remediationLevelValueMap ai_ with
    | some v_ =>
      let ok_ : Bool := true
      v_
    | none =>
      (0x3FF0000000000000 : Nat)

-- @def ReportConfidence_IsValid
@[gtab] def ReportConfidence_IsValid (ai_ : Int) : Bool :=
  (ai_ != (0 : Int))

-- @def ReportConfidence_IsDefined
@[gtab] def ReportConfidence_IsDefined (ai_ : Int) : Bool :=
  ((ReportConfidence_IsValid ai_) && (ai_ != (1 : Int)))

-- @def ReportConfidence_String
@[gtab] def ReportConfidence_String (ai_ : Int) : Bytes :=
  match mapGet tbl_reportConfidenceMap ai_ with
    | some s_ =>
      let ok_ : Bool := true
      s_
    | none =>
      ([] : Bytes)

-- @def ReportConfidence_Value
@[gtab] def ReportConfidence_Value (ai_ : Int) : Nat :=
  match mapGet tbl_reportConfidenceValueMap ai_ with
    | some v_ =>
      let ok_ : Bool := true
      v_
    | none =>
      (0x3FF0000000000000 : Nat)

-- @def Severity_String
@[gtab] def Severity_String (sv_ : Int) : Bytes :=
  match mapGet tbl_severityMap sv_ with
    | some s_ =>
      let ok_ : Bool := true
      s_
    | none =>
      ([85, 110, 107, 110, 111, 119, 110] : Bytes)

-- @def TargetDistribution_IsValid
@[gtab] def TargetDistribution_IsValid (td_ : Int) : Bool :=
  (td_ != (0 : Int))

-- @def TargetDistribution_IsDefined
@[gtab] def TargetDistribution_IsDefined (td_ : Int) : Bool :=
  ((TargetDistribution_IsValid td_) && (td_ != (1 : Int)))

-- @def TargetDistribution_String
@[gtab] def TargetDistribution_String (td_ : Int) : Bytes :=
  match mapGet tbl_targetDistributionMap td_ with
    | some s_ =>
      let ok_ : Bool := true
      s_
    | none =>
      ([] : Bytes)

-- @def TargetDistribution_Value
@[gtab] def TargetDistribution_Value (td_ : Int) : Nat :=
  match mapGet tbl_targetDistributionValueMap td_ with
    | some v_ =>
      let ok_ : Bool := true
      v_
    | none =>
      (0x0000000000000000 : Nat)

-- @def revTables
/-- the code tables searched by a `for k, v := range` loop: their values must be pairwise different -/
def revTables : List (String × List (Int × Bytes)) := [("accessComplexityMap", tbl_accessComplexityMap), ("accessVectorMap", tbl_accessVectorMap), ("authenticationMap", tbl_authenticationMap), ("availabilityImpactMap", tbl_availabilityImpactMap), ("availabilityRequirementMap", tbl_availabilityRequirementMap), ("collateralDamagePotentialMap", tbl_collateralDamagePotentialMap), ("confidentialityImpactMap", tbl_confidentialityImpactMap), ("confidentialityRequirementMap", tbl_confidentialityRequirementMap), ("exploitabilityMap", tbl_exploitabilityMap), ("integrityImpactMap", tbl_integrityImpactMap), ("integrityRequirementMap", tbl_integrityRequirementMap), ("remediationLevelMap", tbl_remediationLevelMap), ("reportConfidenceMap", tbl_reportConfidenceMap), ("targetDistributionMap", tbl_targetDistributionMap)]

-- @def consts
def consts : List (String × Int) := [("AccessComplexityHigh", 1), ("AccessComplexityLow", 3), ("AccessComplexityMedium", 2), ("AccessComplexityUnknown", 0), ("AccessVectorAdjacent", 2), ("AccessVectorLocal", 1), ("AccessVectorNetwork", 3), ("AccessVectorUnknown", 0), ("AuthenticationMultiple", 3), ("AuthenticationNone", 1), ("AuthenticationSingle", 2), ("AuthenticationUnknown", 0), ("AvailabilityImpactComplete", 3), ("AvailabilityImpactNone", 1), ("AvailabilityImpactPartial", 2), ("AvailabilityImpactUnknown", 0), ("AvailabilityRequirementHigh", 4), ("AvailabilityRequirementInvalid", 0), ("AvailabilityRequirementLow", 2), ("AvailabilityRequirementMedium", 3), ("AvailabilityRequirementNotDefined", 1), ("CollateralDamagePotentialHigh", 6), ("CollateralDamagePotentialInvalid", 0), ("CollateralDamagePotentialLow", 3), ("CollateralDamagePotentialLowMedium", 4), ("CollateralDamagePotentialMediumHigh", 5), ("CollateralDamagePotentialNon", 2), ("CollateralDamagePotentialNotDefined", 1), ("ConfidentialityImpactComplete", 3), ("ConfidentialityImpactNone", 1), ("ConfidentialityImpactPartial", 2), ("ConfidentialityImpactUnknown", 0), ("ConfidentialityRequirementHigh", 4), ("ConfidentialityRequirementInvalid", 0), ("ConfidentialityRequirementLow", 2), ("ConfidentialityRequirementMedium", 3), ("ConfidentialityRequirementNotDefined", 1), ("ExploitabilityFunctional", 4), ("ExploitabilityHigh", 5), ("ExploitabilityInvalid", 0), ("ExploitabilityNotDefined", 1), ("ExploitabilityProofOfConcept", 3), ("ExploitabilityUnproven", 2), ("IntegrityImpactComplete", 3), ("IntegrityImpactNone", 1), ("IntegrityImpactPartial", 2), ("IntegrityImpactUnknown", 0), ("IntegrityRequirementHigh", 4), ("IntegrityRequirementInvalid", 0), ("IntegrityRequirementLow", 2), ("IntegrityRequirementMedium", 3), ("IntegrityRequirementNotDefined", 1), ("RemediationLevelInvalid", 0), ("RemediationLevelNotDefined", 1), ("RemediationLevelOfficialFix", 2), ("RemediationLevelTemporaryFix", 3), ("RemediationLevelUnavailable", 5), ("RemediationLevelWorkaround", 4), ("ReportConfidenceConfirmed", 4), ("ReportConfidenceInvalid", 0), ("ReportConfidenceNotDefined", 1), ("ReportConfidenceUnconfirmed", 2), ("ReportConfidenceUncorroborated", 3), ("SeverityHigh", 3), ("SeverityLow", 1), ("SeverityMedium", 2), ("SeverityUnknown", 0), ("TargetDistributionHigh", 5), ("TargetDistributionInvalid", 0), ("TargetDistributionLow", 3), ("TargetDistributionMedium", 4), ("TargetDistributionNon", 2), ("TargetDistributionNotDefined", 1)]

end CvssVerif.Gen.T2

