/- GENERATED on every run by go/wiring from the source text of the report constructors of /repo/v3/report — do not edit. -/
import CvssVerif.Model.ReportSrc

namespace CvssVerif.Gen.Wiring
open CvssVerif CvssVerif.Report CvssVerif.Report.GSrc CvssVerif.V3

-- @def NewBase
def NewBase : List (String × GSrc) := [
  ("ACName", .names0 "AttackComplexity"),
  ("ACValue", .names1 "ACValueOf" .AC),
  ("AName", .names0 "AvailabilityImpact"),
  ("AVName", .names0 "AttackVector"),
  ("AVValue", .names1 "AVValueOf" .AV),
  ("AValue", .names1 "AValueOf" .A),
  ("BaseMetricValue", .names0 "BaseMetricsValueOf"),
  ("BaseMetrics", .names0 "BaseMetrics"),
  ("BaseScore", .score .base),
  ("CName", .names0 "ConfidentialityImpact"),
  ("CValue", .names1 "CValueOf" .C),
  ("IName", .names0 "IntegrityImpact"),
  ("IValue", .names1 "IValueOf" .I),
  ("PRName", .names0 "PrivilegesRequired"),
  ("PRValue", .names1 "PRValueOf" .PR),
  ("SName", .names0 "Scope"),
  ("SValue", .names1 "SValueOf" .S),
  ("SeverityName", .names0 "Severity"),
  ("SeverityValue", .sevValue .base),
  ("UIName", .names0 "UserInteraction"),
  ("UIValue", .names1 "UIValueOf" .UI),
  ("Vector", .vector .base),
  ("Version", .version)]

-- @def NewTemporal
def NewTemporal : List (String × GSrc) := [
  ("EName", .names0 "Exploitability"),
  ("EValue", .names1 "EValueOf" .E),
  ("RCName", .names0 "ReportConfidence"),
  ("RCValue", .names1 "RCValueOf" .RC),
  ("RLName", .names0 "RemediationLevel"),
  ("RLValue", .names1 "RLValueOf" .RL),
  ("SeverityName", .names0 "Severity"),
  ("SeverityValue", .sevValue .temporal),
  ("TemporalMetricValue", .names0 "TemporalMetricsValueOf"),
  ("TemporalMetrics", .names0 "TemporalMetrics"),
  ("TemporalScore", .score .temporal),
  ("Vector", .vector .temporal)]

-- @def NewEnvironmental
def NewEnvironmental : List (String × GSrc) := [
  ("ARName", .names0 "AvailabilityRequirement"),
  ("ARValue", .names1 "ARValueOf" .AR),
  ("CRName", .names0 "ConfidentialityRequirement"),
  ("CRValue", .names1 "CRValueOf" .CR),
  ("EnvironmentalMetricValue", .names0 "EnvironmentalMetricsValueOf"),
  ("EnvironmentalMetrics", .names0 "EnvironmentalMetrics"),
  ("EnvironmentalScore", .score .environmental),
  ("IRName", .names0 "IntegrityRequirement"),
  ("IRValue", .names1 "IRValueOf" .IR),
  ("MACName", .names0 "ModifiedAttackComplexity"),
  ("MACValue", .names1 "MACValueOf" .MAC),
  ("MAName", .names0 "ModifiedAvailabilityImpact"),
  ("MAVName", .names0 "ModifiedAttackVector"),
  ("MAVValue", .names1 "MAVValueOf" .MAV),
  ("MAValue", .names1 "MAValueOf" .MA),
  ("MCName", .names0 "ModifiedConfidentialityImpact"),
  ("MCValue", .names1 "MCValueOf" .MC),
  ("MIName", .names0 "ModifiedIntegrityImpact"),
  ("MIValue", .names1 "MIValueOf" .MI),
  ("MPRName", .names0 "ModifiedPrivilegesRequired"),
  ("MPRValue", .names1 "MPRValueOf" .MPR),
  ("MSName", .names0 "ModifiedScope"),
  ("MSValue", .names1 "MSValueOf" .MS),
  ("MUIName", .names0 "ModifiedUserInteraction"),
  ("MUIValue", .names1 "MUIValueOf" .MUI),
  ("SeverityName", .names0 "Severity"),
  ("SeverityValue", .sevValue .environmental),
  ("Vector", .vector .environmental)]

-- @def embeds
def embeds : List (String × String × String × String) := [("NewTemporal", "BaseReport", "NewBase", "BaseMetrics"), ("NewEnvironmental", "TemporalReport", "NewTemporal", "TemporalMetrics")]

-- @def optionsGlue
def optionsGlue : String × String := ("English", "lang := argument")

end CvssVerif.Gen.Wiring
