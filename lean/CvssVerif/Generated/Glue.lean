/- GENERATED on every run by go/glue from the source text of the template-export glue of /repo/v3/report — do not edit. -/
import CvssVerif.Model.GlueRt

namespace CvssVerif.Gen.Glue
open CvssVerif CvssVerif.Report

-- @def getTempleteString
def getTempleteString (r_ : Reader) : Option (Bytes × Option Err) :=
  if r_.isNil then some (([] : Bytes), (some Err.invalidTemplate)) else
  let tmpdata_ : Bytes := []
  match ioCopy tmpdata_ r_ with
  | none => none
  | some (tmpdata_, err_) =>
    if err_ then some (([] : Bytes), (some Err.invalidTemplate)) else
    some (tmpdata_, none)

-- @def executeTemplate
def executeTemplate (E : Engine) (_repNil : Bool) (tempStr_ : Bytes) : Option (Option Bytes × Option Err) :=
  let t_ := E.parse tempStr_
  let err_ : Bool := t_.isNone
  if err_ then some ((none : Option Bytes), (some Err.invalidTemplate)) else
  let buf_ : Bytes := []
  match t_ with
  | none => none
  | some tt_ =>
    match E.exec tt_ with
    | none => some ((none : Option Bytes), (some Err.invalidTemplate))
    | some out_ =>
      let buf_ : Bytes := buf_ ++ out_
      some ((some buf_), none)

-- @def BaseReport_ExportWithString
def BaseReport_ExportWithString (E : Engine) (repNil : Bool) (str_ : Bytes) : Option (Option Bytes × Option Err) :=
  if repNil then some ((none : Option Bytes), (some Err.nullPointer)) else
  executeTemplate E repNil str_

-- @def BaseReport_ExportWith
def BaseReport_ExportWith (E : Engine) (repNil : Bool) (r_ : Reader) : Option (Option Bytes × Option Err) :=
  match getTempleteString r_ with
  | none => none
  | some (str_, err_) =>
    if err_.isSome then some ((none : Option Bytes), err_) else
    BaseReport_ExportWithString E repNil str_

-- @def TemporalReport_ExportWithString
def TemporalReport_ExportWithString (E : Engine) (repNil : Bool) (str_ : Bytes) : Option (Option Bytes × Option Err) :=
  if repNil then some ((none : Option Bytes), (some Err.nullPointer)) else
  executeTemplate E repNil str_

-- @def TemporalReport_ExportWith
def TemporalReport_ExportWith (E : Engine) (repNil : Bool) (r_ : Reader) : Option (Option Bytes × Option Err) :=
  match getTempleteString r_ with
  | none => none
  | some (str_, err_) =>
    if err_.isSome then some ((none : Option Bytes), err_) else
    TemporalReport_ExportWithString E repNil str_

-- @def EnvironmentalReport_ExportWithString
def EnvironmentalReport_ExportWithString (E : Engine) (repNil : Bool) (str_ : Bytes) : Option (Option Bytes × Option Err) :=
  if repNil then some ((none : Option Bytes), (some Err.nullPointer)) else
  executeTemplate E repNil str_

-- @def EnvironmentalReport_ExportWith
def EnvironmentalReport_ExportWith (E : Engine) (repNil : Bool) (r_ : Reader) : Option (Option Bytes × Option Err) :=
  match getTempleteString r_ with
  | none => none
  | some (str_, err_) =>
    if err_.isSome then some ((none : Option Bytes), err_) else
    EnvironmentalReport_ExportWithString E repNil str_

end CvssVerif.Gen.Glue
