import CvssVerif.Basic.F64
/-
  Helper lemmas shared by the score proofs: the call-by-value combinators are the identity,
  a `Rat` can be forced the same way, finite enumerations lift `List.all` to `∀`.
-/
namespace CvssVerif
open F64

theorem cbv_eq {α : Type} (n : Nat) (k : Nat → α) : cbv n k = k n := by
  cases n <;> rfl

/-- force a rational to a normalised literal (kernel: evaluated once), then continue -/
def cbvRat {α : Type} (x : Rat) (k : Rat → α) : α :=
  match x.num with
  | .ofNat n => cbv n fun n => cbv x.den fun d => k (mkRat (Int.ofNat n) d)
  | .negSucc n => cbv n fun n => cbv x.den fun d => k (mkRat (Int.negSucc n) d)

theorem cbvRat_eq {α : Type} (x : Rat) (k : Rat → α) : cbvRat x k = k x := by
  unfold cbvRat
  split <;> rename_i n h <;> simp only [cbv_eq] <;> rw [← h, Rat.mkRat_self]

/-- a finite type with an explicit complete list of its elements -/
class Enum (α : Type) where
  all : List α
  complete : ∀ a : α, a ∈ all

theorem forall_of_all {α : Type} [Enum α] (p : α → Bool)
    (h : (Enum.all (α := α)).all p = true) : ∀ a, p a = true :=
  fun a => List.all_eq_true.mp h a (Enum.complete a)

instance {α β : Type} [Enum α] [Enum β] : Enum (α × β) where
  all := (Enum.all (α := α)).flatMap fun a => (Enum.all (α := β)).map fun b => (a, b)
  complete := by
    intro ⟨a, b⟩
    simp only [List.mem_flatMap, List.mem_map]
    exact ⟨a, Enum.complete a, b, Enum.complete b, rfl⟩

/-- the double nearest to `k/10`: what "the score is k/10" means for a `float64` -/
def tenth (k : Nat) : Nat := ofDec k 1

end CvssVerif
