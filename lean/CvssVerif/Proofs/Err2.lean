import CvssVerif.Proofs.Accept2
/-
  v2: every error the decoder reports names a defect the input has (C11).
-/
namespace CvssVerif.V2
open CvssVerif

/-- `decodeOne` failing: which error, and why -/
theorem decodeOne_err {L : Level} {o o1 : Obj2} {t : Bytes} {e : Err} (h : decodeOne L o t = (o1, some e)) :
    (e = .invalidVector ∧ Spec2.shaped t = false) ∨
    (e = .notSupportMetric ∧ Spec2.shaped t = true ∧ findMetric L (Spec2.tokName t) = none ∧ o1 = o) ∨
    (e = .sameMetric ∧ Spec2.shaped t = true ∧ ∃ m, findMetric L (Spec2.tokName t) = some m ∧ o.named m = true) ∨
    (e = .invalidValue ∧ Spec2.shaped t = true ∧
      ∃ m, findMetric L (Spec2.tokName t) = some m ∧ m.spec.get (Spec2.tokValue t) = 0) := by
  unfold decodeOne at h
  unfold Spec2.shaped Spec2.tokName Spec2.tokValue
  split at h
  · rename_i n v hs
    rw [show split colon t = [n, v] from hs]
    simp only [List.headD_cons, List.tail_cons]
    split at h
    · rename_i hnv
      cases h
      left
      refine ⟨rfl, ?_⟩
      rcases hnv with rfl | rfl <;> simp
    · rename_i hnv
      have hn : n ≠ [] := fun hh => hnv (Or.inl hh)
      have hv : v ≠ [] := fun hh => hnv (Or.inr hh)
      have hsh : (n != [] && v != []) = true := by simp [hn, hv]
      split at h
      · rename_i hf
        have h1 := congrArg Prod.fst h; have h2 := congrArg Prod.snd h
        simp only at h1 h2
        right; left
        exact ⟨(Option.some.inj h2).symm, hsh, hf, h1.symm⟩
      · rename_i m hf
        split at h
        · rename_i hnamed
          have h2 := congrArg Prod.snd h
          simp only at h2
          right; right; left
          exact ⟨(Option.some.inj h2).symm, hsh, m, hf, hnamed⟩
        · simp only at h
          split at h
          · rename_i hx
            have h2 := congrArg Prod.snd h
            simp only at h2
            right; right; right
            exact ⟨(Option.some.inj h2).symm, hsh, m, hf, hx⟩
          · cases h
  · rename_i hns
    cases h
    left
    refine ⟨rfl, ?_⟩
    split
    · rename_i n v hs; exact absurd hs (hns n v)
    · rfl

/-- the defect a token-level error names, over the list of all tokens -/
def DefTok (L : Level) (e : Err) (all : List Bytes) : Prop :=
  match e with
  | .invalidVector => ∃ t ∈ all, Spec2.shaped t = false
  | .notSupportMetric => ∃ t ∈ all, Spec2.shaped t = true ∧ findMetric L (Spec2.tokName t) = none
  | .sameMetric => ∃ m ∈ msOf L,
      2 ≤ (all.filter fun t => Spec2.shaped t && Spec2.tokName t == m.spec.name).length
  | .invalidValue => ∃ t ∈ all, ∃ m ∈ msOf L, Spec2.shaped t = true ∧ Spec2.tokName t = m.spec.name ∧
      m.spec.get (Spec2.tokValue t) = 0
  | _ => False

theorem shaped_tok (e : Ent) {L : Level} (he : e ∈ vocab L) :
    Spec2.shaped e.tok = true ∧ Spec2.tokName e.tok = e.m.spec.name ∧ Spec2.tokValue e.tok = e.c := by
  obtain ⟨_, hp⟩ := mem_vocab.mp he
  obtain ⟨_, hc, hcc, _⟩ := code_facts e.m _ hp
  unfold Spec2.shaped Spec2.tokName Spec2.tokValue Ent.tok
  rw [split_pair (colon_not_mem_name e.m) hcc]
  simp [name_ne_nil e.m, hc]

theorem two_le_filter {α : Type} (p : α → Bool) (l1 l2 : List α) {a b : α} (ha : a ∈ l1) (hb : b ∈ l2)
    (pa : p a = true) (pb : p b = true) : 2 ≤ ((l1 ++ l2).filter p).length := by
  rw [List.filter_append, List.length_append]
  have h1 : 0 < (l1.filter p).length := List.length_pos_of_mem (List.mem_filter.mpr ⟨ha, pa⟩)
  have h2 : 0 < (l2.filter p).length := List.length_pos_of_mem (List.mem_filter.mpr ⟨hb, pb⟩)
  omega

/-- the loop's error is a defect of the tokens seen (`pre` already processed, `toks` to come) -/
theorem loop_err (L : Level) (toks : List Bytes) :
    ∀ (o : Obj2) (last : Option Err) (pre : List Bytes) (o' : Obj2) (e : Err),
      (∀ m ∈ msOf L, o.named m = true → ∃ t' ∈ pre, Spec2.shaped t' = true ∧ Spec2.tokName t' = m.spec.name) →
      (last = none ∨ (last = some .notSupportMetric ∧
          ∃ t ∈ pre, Spec2.shaped t = true ∧ findMetric L (Spec2.tokName t) = none)) →
      decodeLoop L o last toks = (o', some e) → DefTok L e (pre ++ toks) := by
  induction toks with
  | nil =>
    intro o last pre o' e _ hlast h
    simp only [decodeLoop, Prod.mk.injEq] at h
    rcases hlast with hl | ⟨hl, t, ht, h1, h2⟩
    · rw [hl] at h; cases h.2
    · rw [hl] at h
      have := Option.some.inj h.2
      subst this
      exact ⟨t, by simpa using ht, h1, h2⟩
  | cons t ts ih =>
    intro o last pre o' e hinv hlast h
    unfold decodeLoop at h
    have happ : pre ++ t :: ts = (pre ++ [t]) ++ ts := by simp
    split at h
    · rename_i o1 h1
      obtain ⟨x, hx, rfl, _, rfl⟩ := decodeOne_ok h1
      rw [happ]
      apply ih _ _ _ _ _ ?_ ?_ h
      · intro m hm hn
        rw [apply_named] at hn
        by_cases hme : m = x.m
        · subst hme
          obtain ⟨s1, s2, _⟩ := shaped_tok x hx
          exact ⟨x.tok, by simp, s1, s2⟩
        · simp only [hme, decide_false, Bool.false_or] at hn
          obtain ⟨t', ht', r⟩ := hinv m hm hn
          exact ⟨t', by simp [ht'], r⟩
      · rcases hlast with hl | ⟨hl, t', ht', r⟩
        · exact Or.inl hl
        · exact Or.inr ⟨hl, t', by simp [ht'], r⟩
    · rename_i o1 h1
      rcases decodeOne_err h1 with ⟨h0, _⟩ | ⟨_, hs, hf, rfl⟩ | ⟨h0, _⟩ | ⟨h0, _⟩
      · cases h0
      · rw [happ]
        apply ih _ _ _ _ _ ?_ ?_ h
        · intro m hm hn
          obtain ⟨t', ht', r⟩ := hinv m hm hn
          exact ⟨t', by simp [ht'], r⟩
        · exact Or.inr ⟨rfl, t, by simp, hs, hf⟩
      · cases h0
      · cases h0
    · rename_i o1 e1 hne h1
      have he : e1 = e := by have := congrArg Prod.snd h; simpa using this
      subst he
      rcases decodeOne_err h1 with ⟨rfl, hs⟩ | ⟨rfl, _⟩ | ⟨rfl, hs, m, hf, hn⟩ | ⟨rfl, hs, m, hf, hg⟩
      · exact ⟨t, by simp, hs⟩
      · exact absurd rfl hne
      · obtain ⟨hm, hname⟩ := findMetric_some hf
        obtain ⟨t', ht', s1, s2⟩ := hinv m hm hn
        refine ⟨m, hm, ?_⟩
        apply two_le_filter _ pre (t :: ts) ht' List.mem_cons_self
        · simp [s1, s2]
        · simp [hs, hname]
      · obtain ⟨hm, hname⟩ := findMetric_some hf
        exact ⟨t, by simp, m, hm, hs, hname.symm, hg⟩

end CvssVerif.V2


namespace CvssVerif.V2
open CvssVerif

theorem findMetric_none {L : Level} {n : Bytes} (h : findMetric L n = none) :
    ∀ m ∈ msOf L, m.spec.name ≠ n := by
  unfold findMetric at h
  intro m hm hn
  have := List.find?_eq_none.mp h m hm
  simp [hn] at this

theorem metricsOf_eq (L : Level) : Spec2.metricsOf L = (msOf L).map specOf := by cases L <;> decide
theorem baseG_eq : Spec2.baseG = baseMs.map specOf := by decide
theorem tempG_eq : Spec2.tempG = tempMs.map specOf := by decide
theorem envG_eq : Spec2.envG = envMs.map specOf := by decide

theorem defTok_defect {L : Level} {e : Err} {s : Bytes} (h : DefTok L e (split slash s)) :
    Spec2.defect2 L e s = true := by
  cases e with
  | invalidVector =>
    obtain ⟨t, ht, hs⟩ := h
    unfold Spec2.defect2
    simp only [List.any_eq_true]
    exact ⟨t, ht, by simp [hs]⟩
  | notSupportMetric =>
    obtain ⟨t, ht, hs, hf⟩ := h
    unfold Spec2.defect2
    simp only
    rw [List.any_eq_true]
    refine ⟨t, ht, ?_⟩
    simp only [hs, Bool.true_and, Bool.not_eq_true']
    rw [List.any_eq_false, metricsOf_eq]
    intro ms hms
    obtain ⟨m, hm, rfl⟩ := List.mem_map.mp hms
    rw [specOf_name]
    have := findMetric_none hf m hm
    simp only [beq_iff_eq]
    exact fun hh => this hh.symm
  | sameMetric =>
    obtain ⟨m, hm, hc⟩ := h
    unfold Spec2.defect2
    simp only
    rw [List.any_eq_true, metricsOf_eq]
    refine ⟨specOf m, List.mem_map.mpr ⟨m, hm, rfl⟩, ?_⟩
    rw [specOf_name]
    exact decide_eq_true hc
  | invalidValue =>
    obtain ⟨t, ht, m, hm, hs, hn, hg⟩ := h
    unfold Spec2.defect2
    simp only
    rw [List.any_eq_true]
    refine ⟨t, ht, ?_⟩
    simp only [hs, Bool.true_and]
    rw [List.any_eq_true, metricsOf_eq]
    refine ⟨specOf m, List.mem_map.mpr ⟨m, hm, rfl⟩, ?_⟩
    rw [specOf_name]
    simp only [hn, beq_self_eq_true, Bool.true_and, Bool.not_eq_true']
    cases hcont : (specOf m).codes.contains (Spec2.tokValue t)
    · rfl
    · exfalso
      have hmem : Spec2.tokValue t ∈ (specOf m).codes := by simpa using hcont
      obtain ⟨p, hp, hpv⟩ := List.mem_map.mp ((specOf_codes m _).mp hmem)
      have hgc : m.spec.get (Spec2.tokValue t) = p.1 := by
        rw [← hpv]; exact get_code (show (p.1, p.2) ∈ m.spec.codes from hp)
      rw [hg] at hgc
      exact (code_facts m p hp).1 hgc.symm
  | nullPointer => exact absurd h id
  | notSupportVer => exact absurd h id
  | invalidTemplate => exact absurd h id
  | noBaseMetrics => exact absurd h id
  | noTemporalMetrics => exact absurd h id
  | noEnvironmentalMetrics => exact absurd h id
  | misordered => exact absurd h id

/-- presence of a metric among the tokens of a successful run, in the specification's terms -/
theorem present_iff {L : Level} (es : List Ent) (hes : ∀ x ∈ es, x ∈ vocab L) (m : M2) :
    ((es.map Ent.tok).any fun t => Spec2.shaped t && Spec2.tokName t == (specOf m).name) = decide (m ∈ es.map (·.m)) := by
  rw [Bool.eq_iff_iff]
  simp only [List.any_eq_true, Bool.and_eq_true, beq_iff_eq, decide_eq_true_eq, specOf_name]
  constructor
  · rintro ⟨t, ht, _, hn⟩
    obtain ⟨x, hx, rfl⟩ := List.mem_map.mp ht
    obtain ⟨_, s2, _⟩ := shaped_tok x (hes x hx)
    rw [s2] at hn
    exact List.mem_map.mpr ⟨x, hx, names_inj hn⟩
  · intro hm
    obtain ⟨x, hx, rfl⟩ := List.mem_map.mp hm
    obtain ⟨s1, s2, _⟩ := shaped_tok x (hes x hx)
    exact ⟨x.tok, List.mem_map.mpr ⟨x, hx, rfl⟩, s1, s2⟩

/-- **C11 (v2).** Whenever a fresh level-`L` v2 decoder rejects a string, the sentinel it reports
    names a defect the string really has (`Spec2.defect2`). -/
theorem err_sound {L : Level} {s : Bytes} {o : Obj2} {e : Err} (h : decode L Obj2.new s = (o, some e))
    (hacc : ∀ s', Spec2.canon2 L s' = true → (decode L Obj2.new s').2 = none) :
    Spec2.defect2 L e s = true := by
  have h0 := h
  unfold decode at h
  split at h
  · rename_i o1 e1 hloop
    have he : e1 = e := by have := congrArg Prod.snd h; simpa using this
    subst he
    apply defTok_defect
    have := loop_err L (split slash s) _ none [] o1 e1 (by intro m _ hn; cases hn) (Or.inl rfl) hloop
    simpa using this
  · rename_i o1 hloop
    obtain ⟨es, hes, hts, ⟨hnd, _⟩, hrun⟩ := (loop_ok_iff L _ _ o1).mp hloop
    have hf : ∀ m, o1.field m ≠ 0 ↔ o1.named m = true := by
      intro m
      rw [hrun, run_new_named, (run_new_field es hes hnd m).1]
      simp
    have hz : ∀ m, (o1.field m == 0) = !o1.named m := by
      intro m
      by_cases h0 : o1.field m = 0
      · have : o1.named m = false := by
          cases hn : o1.named m
          · rfl
          · exact absurd h0 ((hf m).mpr hn)
        simp [h0, this]
      · have : o1.named m = true := (hf m).mp h0
        simp [h0, this]
    have hnamed : ∀ m, o1.named m = decide (m ∈ es.map (·.m)) := by
      intro m; rw [hrun, run_new_named]
    have hpres : ∀ m, ((split slash s).any fun t => Spec2.shaped t && Spec2.tokName t == (specOf m).name) = o1.named m := by
      intro m; rw [hts, present_iff es hes m, hnamed]
    split at h
    · rename_i enc e1 henc
      have he : e1 = e := by have := congrArg Prod.snd h; simpa using this
      subst he
      unfold encode at henc
      have hge : getError L o1 = some e1 := congrArg Prod.snd henc
      -- which validity error
      unfold Spec2.defect2
      have hbase : getErrorBase o1 = none ∨ getErrorBase o1 = some .noBaseMetrics := by
        unfold getErrorBase; split <;> simp
      rcases hbase with hb | hb
      · -- base complete: temporal or environmental group partial
        have htemp : getErrorTemporal o1 = none ∨
            (getErrorTemporal o1 = some .noTemporalMetrics ∧ tempEmpty o1 = false ∧
              (tempMs.any fun m => o1.field m == 0) = true) := by
          unfold getErrorTemporal; rw [hb]; simp only
          by_cases h1 : tempEmpty o1 = true
          · simp [h1]
          · by_cases h2 : (tempMs.any fun m => o1.field m == 0) = true
            · right; simp [h1, h2]
            · left; simp [h1, h2]
        cases L
        · have : getErrorBase o1 = some e1 := hge
          rw [hb] at this; cases this
        · have hge' : getErrorTemporal o1 = some e1 := hge
          rcases htemp with ht | ⟨ht, hne, hany⟩
          · rw [ht] at hge'; cases hge'
          · rw [ht] at hge'
            have := Option.some.inj hge'; subst this
            simp only [Bool.and_eq_true]
            refine ⟨by decide, ?_⟩
            unfold Spec2.groupPartial
            rw [tempG_eq]
            simp only [List.any_map, List.all_map, Function.comp_def, hpres, Bool.and_eq_true,
              Bool.not_eq_true']
            unfold tempEmpty at hne
            simp only [hz] at hany
            constructor
            · simpa using hne
            · rw [List.all_eq_false]
              obtain ⟨m, hm, hmn⟩ := List.any_eq_true.mp hany
              exact ⟨m, hm, by simpa using hmn⟩
        · have hge' : getErrorEnv o1 = some e1 := hge
          rcases htemp with ht | ⟨ht, hne, hany⟩
          · unfold getErrorEnv at hge'
            rw [ht] at hge'
            simp only at hge'
            by_cases h1 : envEmpty o1 = true
            · simp [h1] at hge'
            · by_cases h2 : (envMs.any fun m => o1.field m == 0) = true
              · simp only [h1, h2, Bool.false_eq_true, if_false, if_true] at hge'
                have := Option.some.inj hge'; subst this
                simp only [Bool.and_eq_true]
                refine ⟨by decide, ?_⟩
                unfold Spec2.groupPartial
                rw [envG_eq]
                simp only [List.any_map, List.all_map, Function.comp_def, hpres, Bool.and_eq_true,
                  Bool.not_eq_true']
                unfold envEmpty at h1
                simp only [hz] at h2
                constructor
                · simpa using h1
                · rw [List.all_eq_false]
                  obtain ⟨m, hm, hmn⟩ := List.any_eq_true.mp h2
                  exact ⟨m, hm, by simpa using hmn⟩
              · simp [h1, h2] at hge'
          · unfold getErrorEnv at hge'
            rw [ht] at hge'
            have := Option.some.inj hge'; subst this
            simp only [Bool.and_eq_true]
            refine ⟨by decide, ?_⟩
            unfold Spec2.groupPartial
            rw [tempG_eq]
            simp only [List.any_map, List.all_map, Function.comp_def, hpres, Bool.and_eq_true,
              Bool.not_eq_true']
            unfold tempEmpty at hne
            simp only [hz] at hany
            constructor
            · simpa using hne
            · rw [List.all_eq_false]
              obtain ⟨m, hm, hmn⟩ := List.any_eq_true.mp hany
              exact ⟨m, hm, by simpa using hmn⟩
      · -- a base metric is missing
        have hee : e1 = .noBaseMetrics := by
          have : getError L o1 = some .noBaseMetrics := by
            cases L
            · exact hb
            · show getErrorTemporal o1 = _
              unfold getErrorTemporal; rw [hb]
            · show getErrorEnv o1 = _
              unfold getErrorEnv getErrorTemporal; rw [hb]
          rw [this] at hge
          exact (Option.some.inj hge).symm
        subst hee
        simp only
        rw [baseG_eq]
        simp only [List.any_map, Function.comp_def, hpres]
        unfold getErrorBase at hb
        by_cases hany : (baseMs.any fun m => o1.field m == 0) = true
        · simp only [hz] at hany
          exact hany
        · simp [hany] at hb
    · rename_i enc henc
      split at h
      · rename_i hne
        have he : Err.misordered = e := by have := congrArg Prod.snd h; simpa using this
        subst he
        unfold Spec2.defect2
        simp only [Bool.and_eq_true, Bool.not_eq_true', List.all_eq_true]
        constructor
        · intro t ht
          rw [hts] at ht
          obtain ⟨x, hx, rfl⟩ := List.mem_map.mp ht
          rw [List.any_eq_true, metricsOf_eq]
          obtain ⟨hm, hp⟩ := mem_vocab.mp (hes x hx)
          exact ⟨specOf x.m, List.mem_map.mpr ⟨x.m, hm, rfl⟩, (tokIs_iff x.m _).mpr ⟨(x.x, x.c), hp, rfl⟩⟩
        · cases hc : Spec2.canon2 L s
          · rfl
          · have := hacc s hc
            rw [h0] at this; cases this
      · cases h

end CvssVerif.V2
