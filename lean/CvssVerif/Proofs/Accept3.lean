import CvssVerif.Proofs.Parse3
/-
  v3: the model's decoder against the specification's grammar `Spec3.wf3`.
-/
namespace CvssVerif.V3
open CvssVerif

/-! ### the specification's tables are the model's -/

/-- the specification's entry for a model metric (looked up by name) -/
def specOf (m : M3) : Spec3.MSpec := Spec3.mspec m.spec.name

theorem specOf_name (m : M3) : (specOf m).name = m.spec.name := by cases m <;> decide
theorem specOf_codes (m : M3) (c : Bytes) : c ∈ (specOf m).codes ↔ c ∈ m.spec.codes.map (·.2) := by
  have h : ((specOf m).codes.all fun c => (m.spec.codes.map (·.2)).contains c) = true ∧
      ((m.spec.codes.map (·.2)).all fun c => (specOf m).codes.contains c) = true := by
    cases m <;> decide
  simp only [List.all_eq_true, List.contains_iff_mem] at h
  exact ⟨h.1 c, h.2 c⟩
theorem metricsOf_eq (L : Level) : Spec3.metricsOf L = (msOf L).map specOf := by
  cases L <;> decide
theorem baseMetrics_eq : Spec3.baseMetrics = baseMs.map specOf := by decide
theorem baseMs_sub (L : Level) : ∀ m ∈ baseMs, m ∈ msOf L := by cases L <;> decide
theorem baseMs_iff (m : M3) : m ∈ baseMs ↔ m.spec.level = .base := by cases m <;> decide

/-- `tokIs` of the specification entry = a vocabulary token of that metric -/
theorem tokIs_iff (m : M3) (t : Bytes) :
    Spec3.tokIs (specOf m) t = true ↔ ∃ p ∈ m.spec.codes, t = m.spec.name ++ colon :: p.2 := by
  unfold Spec3.tokIs
  simp only [List.any_eq_true, beq_iff_eq, specOf_name]
  constructor
  · rintro ⟨c, hc, rfl⟩
    obtain ⟨p, hp, rfl⟩ := List.mem_map.mp ((specOf_codes m c).mp hc)
    exact ⟨p, hp, by simp⟩
  · rintro ⟨p, hp, rfl⟩
    exact ⟨p.2, (specOf_codes m p.2).mpr (List.mem_map.mpr ⟨p, hp, rfl⟩), by simp⟩

theorem tokOK_iff (L : Level) (t : Bytes) :
    Spec3.tokOK L t = true ↔ ∃ e ∈ vocab L, t = e.tok := by
  unfold Spec3.tokOK
  rw [metricsOf_eq]
  simp only [List.any_map, List.any_eq_true, Function.comp]
  constructor
  · rintro ⟨m, hm, ht⟩
    obtain ⟨p, hp, rfl⟩ := (tokIs_iff m t).mp ht
    exact ⟨⟨m, p.1, p.2⟩, mem_vocab.mpr ⟨hm, hp⟩, rfl⟩
  · rintro ⟨e, he, rfl⟩
    obtain ⟨hm, hp⟩ := mem_vocab.mp he
    exact ⟨e.m, hm, (tokIs_iff e.m _).mpr ⟨(e.x, e.c), hp, rfl⟩⟩

/-! ### names of tokens -/

theorem takeWhile_name (a b : Bytes) (ha : colon ∉ a) :
    (a ++ colon :: b).takeWhile (· != colon) = a := by
  induction a with
  | nil => simp
  | cons x xs ih =>
    have hx : x ≠ colon := fun h => ha (h ▸ List.mem_cons_self)
    have hxs : colon ∉ xs := fun h => ha (List.mem_cons_of_mem _ h)
    simp [List.takeWhile_cons, hx, ih hxs]

theorem nameOf_tok (e : Ent) : Spec3.nameOf e.tok = e.m.spec.name :=
  takeWhile_name _ _ (colon_not_mem_name e.m)

theorem nodupB_iff (l : List Bytes) : Spec3.nodupB l = true ↔ l.Nodup := by
  induction l with
  | nil => simp [Spec3.nodupB]
  | cons x xs ih =>
    simp only [Spec3.nodupB, Bool.and_eq_true, Bool.not_eq_true', List.nodup_cons, ih]
    constructor
    · rintro ⟨h1, h2⟩
      exact ⟨by simpa using h1, h2⟩
    · rintro ⟨h1, h2⟩
      exact ⟨by simpa using h1, h2⟩

theorem nodup_of_map {α β : Type} {f : α → β} {l : List α} (h : (l.map f).Nodup) : l.Nodup := by
  induction l with
  | nil => exact List.nodup_nil
  | cons x xs ih =>
    rw [List.map_cons, List.nodup_cons] at h
    rw [List.nodup_cons]
    exact ⟨fun hx => h.1 (List.mem_map.mpr ⟨x, hx, rfl⟩), ih h.2⟩

theorem nodup_map_of_inj {α β : Type} {f : α → β} (hf : ∀ a b, f a = f b → a = b) {l : List α}
    (h : l.Nodup) : (l.map f).Nodup := by
  induction l with
  | nil => exact List.nodup_nil
  | cons x xs ih =>
    rw [List.nodup_cons] at h
    rw [List.map_cons, List.nodup_cons]
    refine ⟨?_, ih h.2⟩
    intro hx
    obtain ⟨y, hy, hxy⟩ := List.mem_map.mp hx
    exact h.1 (hf _ _ hxy ▸ hy)

/-- names of a sequence of vocabulary tokens are pairwise different iff their metrics are -/
theorem nodup_names_iff (es : List Ent) :
    ((es.map Ent.tok).map Spec3.nameOf).Nodup ↔ (es.map (·.m)).Nodup := by
  have : (es.map Ent.tok).map Spec3.nameOf = (es.map (·.m)).map (·.spec.name) := by
    simp only [List.map_map]
    apply List.map_congr_left
    intro e _
    exact nameOf_tok e
  rw [this]
  constructor
  · exact nodup_of_map
  · exact nodup_map_of_inj (fun a b hab => names_inj hab)

/-! ### the version prefix -/

theorem verGet_ne_zero {v : Bytes} (h : verGet v ≠ 0) : v = b!"3.0" ∨ v = b!"3.1" := by
  unfold verGet verLabels at h
  simp only [List.find?] at h
  by_cases h0 : (b!"3.0" == v) = true
  · left; exact (beq_iff_eq.mp h0).symm
  · by_cases h1 : (b!"3.1" == v) = true
    · right; exact (beq_iff_eq.mp h1).symm
    · simp [h0, h1] at h

theorem getVersion_ok_iff (hd : Bytes) :
    (∃ ver, getVersion hd = .ok ver ∧ ver ≠ 0) ↔ Spec3.prefixOK hd = true := by
  constructor
  · rintro ⟨ver, h, hv⟩
    unfold getVersion at h
    split at h
    · rename_i n v hs
      split at h
      · rename_i hn
        cases h
        have hn' : n = b!"CVSS" := by simpa using hn
        have := tok_of_split hs
        rcases verGet_ne_zero hv with rfl | rfl <;> subst hn' <;> subst this <;> decide
      · cases h
    · cases h
  · intro h
    unfold Spec3.prefixOK at h
    simp only [Bool.or_eq_true, beq_iff_eq] at h
    rcases h with rfl | rfl
    · exact ⟨1, rfl, by decide⟩
    · exact ⟨2, rfl, by decide⟩

theorem getVersion_label {hd : Bytes} (h : Spec3.prefixOK hd = true) :
    getVersion hd = .ok (verGet (hd.drop 5)) ∧ verGet (hd.drop 5) ≠ 0 ∧ verStr (verGet (hd.drop 5)) = hd.drop 5 := by
  unfold Spec3.prefixOK at h
  simp only [Bool.or_eq_true, beq_iff_eq] at h
  rcases h with rfl | rfl
  · exact ⟨rfl, by decide, by decide⟩
  · exact ⟨rfl, by decide, by decide⟩

/-! ### validity -/

theorem getErrorBase_none_iff (o : Obj3) :
    getErrorBase o = none ↔ o.ver ≠ 0 ∧ ∀ m ∈ baseMs, o.field m ≠ 0 := by
  unfold getErrorBase
  by_cases hv : o.ver = 0
  · simp [hv]
  · simp only [hv, if_false, ne_eq, not_false_eq_true, true_and]
    by_cases hb : baseMs.any (fun m => o.field m == 0) = true
    · simp only [hb, if_true]
      constructor
      · intro h; cases h
      · intro h
        obtain ⟨m, hm, h0⟩ := List.any_eq_true.mp hb
        exact absurd (by simpa using h0) (h m hm)
    · simp only [hb]
      constructor
      · intro _ m hm h0
        apply hb
        exact List.any_eq_true.mpr ⟨m, hm, by simpa using h0⟩
      · intro _; rfl

theorem getError_none_base {L : Level} {o : Obj3} (h : getError L o = none) : getErrorBase o = none := by
  cases L
  · exact h
  · unfold getError getErrorTemporal at h
    cases hb : getErrorBase o with
    | none => rfl
    | some e => simp [hb] at h
  · unfold getError getErrorEnv getErrorTemporal at h
    cases hb : getErrorBase o with
    | none => rfl
    | some e => simp [hb] at h

theorem tempMs_level : ∀ m ∈ tempMs, m.spec.level ≠ .base := by decide
theorem envMs_level : ∀ m ∈ envMs, m.spec.level ≠ .base := by decide

theorem getError_none_of {L : Level} {o : Obj3} (hb : getErrorBase o = none)
    (hv : ∀ m : M3, m.spec.level ≠ .base → isValid m (o.field m) = true) : getError L o = none := by
  have ht : getErrorTemporal o = none := by
    unfold getErrorTemporal
    rw [hb]
    have : tempMs.any (fun m => !isValid m (o.field m)) = false := by
      rw [List.any_eq_false]
      intro m hm
      simp [hv m (tempMs_level m hm)]
    simp [this]
  have he : getErrorEnv o = none := by
    unfold getErrorEnv
    rw [ht]
    have : envMs.any (fun m => !isValid m (o.field m)) = false := by
      rw [List.any_eq_false]
      intro m hm
      simp [hv m (envMs_level m hm)]
    simp [this]
  cases L
  · exact hb
  · exact ht
  · exact he

/-! ### acceptance -/

/-- the object a decoder starts the token loop with -/
def start (hd : Bytes) : Obj3 := { Obj3.new with ver := verGet (hd.drop 5) }

/-- Acceptance, with the object left behind: a fresh level-`L` decoder accepts `s` exactly when
    `s` splits at '/' into a `CVSS:3.0`/`CVSS:3.1` prefix and vocabulary tokens of the level
    with pairwise different metrics that include every base metric; the object is then the
    fold of the tokens' assignments over a fresh object. -/
theorem decode_ok_iff (L : Level) (s : Bytes) (o' : Obj3) :
    decode L Obj3.new s = (o', none) ↔
      ∃ hd es, split slash s = hd :: es.map Ent.tok ∧ Spec3.prefixOK hd = true ∧
        (∀ e ∈ es, e ∈ vocab L) ∧ (es.map (·.m)).Nodup ∧ (∀ m ∈ baseMs, ∃ e ∈ es, e.m = m) ∧
        o' = runEnts (start hd) es := by
  constructor
  · intro h
    unfold decode at h
    split at h
    · cases h
    · rename_i hd rest hsplit
      split at h
      · cases h
      · rename_i ver hver
        split at h
        · cases h
        · rename_i hv0
          have hpre : Spec3.prefixOK hd = true := (getVersion_ok_iff hd).mp ⟨ver, hver, hv0⟩
          obtain ⟨hgl, _, _⟩ := getVersion_label hpre
          have hvv : ver = verGet (hd.drop 5) := by
            rw [hver] at hgl; exact Except.ok.inj hgl
          split at h
          · cases h
          · rename_i o1 hloop
            have hge : getError L o1 = none := by
              have := congrArg Prod.snd h; simpa using this
            have ho : o1 = o' := by
              have := congrArg Prod.fst h; simpa using this
            obtain ⟨es, hes, hts, ⟨hnd, _⟩, hrun⟩ := (loop_ok_iff L rest _ o1).mp hloop
            subst hvv
            refine ⟨hd, es, by rw [hsplit, hts], hpre, hes, hnd, ?_, ?_⟩
            · intro m hm
              have hb := (getErrorBase_none_iff o1).mp (getError_none_base hge)
              have hf := hb.2 m hm
              rw [hrun, run_field _ _ hnd] at hf
              cases hfind : es.find? (fun e => decide (e.m = m)) with
              | some e =>
                exact ⟨e, List.mem_of_find?_eq_some hfind, by simpa using List.find?_some hfind⟩
              | none =>
                rw [hfind] at hf
                exact absurd (base_init_zero m ((baseMs_iff m).mp hm)) hf
            · rw [← ho, hrun]; rfl
  · rintro ⟨hd, es, hsplit, hpre, hes, hnd, hbase, rfl⟩
    obtain ⟨hgl, hv0, _⟩ := getVersion_label hpre
    unfold decode
    rw [hsplit]
    simp only [hgl, hv0, if_false]
    have hloop : decodeLoop L (start hd) none (es.map Ent.tok) = (runEnts (start hd) es, none) :=
      (loop_ok_iff L _ _ _).mpr ⟨es, hes, rfl, ⟨hnd, fun _ _ => rfl⟩, rfl⟩
    have hstart : ({ Obj3.new with ver := verGet (hd.drop 5) } : Obj3) = start hd := rfl
    rw [hstart, hloop]
    simp only
    have hb : getErrorBase (runEnts (start hd) es) = none := by
      rw [getErrorBase_none_iff, run_ver]
      refine ⟨hv0, ?_⟩
      intro m hm
      obtain ⟨e, he, hem⟩ := hbase m hm
      rw [run_field _ _ hnd]
      cases hfind : es.find? (fun e => decide (e.m = m)) with
      | some e' =>
        have hmem := List.mem_of_find?_eq_some hfind
        obtain ⟨_, hp⟩ := mem_vocab.mp (hes e' hmem)
        exact (code_facts e'.m _ hp).1
      | none =>
        have := List.find?_eq_none.mp hfind e he
        simp [hem] at this
    have hvalid : ∀ m : M3, m.spec.level ≠ .base → isValid m ((runEnts (start hd) es).field m) = true := by
      intro m hm
      rw [run_field _ _ hnd]
      cases hfind : es.find? (fun e => decide (e.m = m)) with
      | some e' =>
        have hmem := List.mem_of_find?_eq_some hfind
        have hem : e'.m = m := by simpa using List.find?_some hfind
        obtain ⟨_, hp⟩ := mem_vocab.mp (hes e' hmem)
        have := (code_facts e'.m _ hp).2.2.2.2
        rw [hem] at this; exact this
      | none => exact init_valid m hm
    rw [getError_none_of hb hvalid]

end CvssVerif.V3
