import CvssVerif.Basic.F64
/-
  The rounding core of the software binary64 (`Basic/F64.lean`) is verified, not only validated: `rnd s m e`, the single
  function through which `mul`, `add`, `sub`, `div`, `ldexp`, `ofDec` and `ofNat` produce their results, is
  round-to-nearest, ties-to-even, to 53 significant bits — IEEE-754 binary64's default rounding — for every integer
  significand `m ≠ 0` and exponent `e` whose result is a normal number (`rnd_normal`).  The statement is about integers only:
  the value of a pattern `b` is `man b · 2^(eb b − BIAS)` with sign `sgn b` (the standard decoding of the three fields, `fields_of_sum`,
  `pack_norm`, `pack_carry`); `mul` and `add` call `rnd` on the exact integer product resp. aligned sum (`mul_eq_rnd`, `add_same_sign`,
  `add_opposite_sign`, by unfolding), so on normal results they are the correctly rounded product, sum and difference; `div` and the
  decimal constants go through `rndRat`, whose sticky bit is proved to decide exactly as the discarded fraction of the exact quotient
  would (`sticky_core`, `rndRat_normal`).  What remains a description validated by tests rather than proved: `round`, `floor`, `toInt`,
  `powInt` as transcriptions of Go's `math` package, gradual underflow (never reached by a score), and that amd64 Go evaluates
  `float64` expressions operation by operation in binary64 (no fused multiply-add, no extended precision).
-/
namespace CvssVerif.F64

theorem cbv_eq' {α : Type} (n : Nat) (k : Nat → α) : cbv n k = k n := by
  unfold cbv; cases n <;> rfl

/-- the fields of an assembled pattern: sign, biased exponent, fraction -/
theorem fields_of_sum (s E f : Nat) (hs : s ≤ 1) (hE : E < 2048) (hf : f < two52) :
    sgn ((s <<< 63) + (E <<< 52) + f) = s ∧ bexp ((s <<< 63) + (E <<< 52) + f) = E ∧ frac ((s <<< 63) + (E <<< 52) + f) = f := by
  unfold sgn bexp frac two52 at *
  simp only [Nat.shiftLeft_eq, Nat.shiftRight_eq_div_pow]
  have h1 : (2047 : Nat) = 2 ^ 11 - 1 := by decide
  have h2 : (4503599627370495 : Nat) = 2 ^ 52 - 1 := by decide
  rw [h1, h2, Nat.and_two_pow_sub_one_eq_mod, Nat.and_two_pow_sub_one_eq_mod]
  refine ⟨?_, ?_, ?_⟩ <;> omega
end CvssVerif.F64
namespace CvssVerif.F64

theorem pack_sub (s q : Nat) (hs : s ≤ 1) (hq : q < two52) :
    sgn (pack s 2926 q) = s ∧ man (pack s 2926 q) = q ∧ eb (pack s 2926 q) = 2926 := by
  have h := fields_of_sum s 0 q hs (by omega) hq
  have hp : pack s 2926 q = (s <<< 63) + (0 <<< 52) + q := by simp [pack, hq]
  rw [hp]
  unfold man eb
  simp only [cbv_eq', h.2.1, h.2.2, h.1]
  simp

/-- a normal significand (2^52 ≤ q < 2^53) at unit exponent t assembles to the pattern with that significand and exponent -/
theorem pack_norm (s t q : Nat) (hs : s ≤ 1) (hq : two52 ≤ q) (hq2 : q < 2 * two52) (ht : 2926 ≤ t) (ht2 : t < 4971) :
    sgn (pack s t q) = s ∧ man (pack s t q) = q ∧ eb (pack s t q) = t := by
  have hE : t + 1075 - BIAS < 2048 := by unfold BIAS; omega
  have h := fields_of_sum s (t + 1075 - BIAS) (q - two52) hs hE (by unfold two52 at *; omega)
  have hp : pack s t q = (s <<< 63) + ((t + 1075 - BIAS) <<< 52) + (q - two52) := by
    unfold pack; simp [Nat.not_lt.mpr hq]
  rw [hp]
  unfold man eb
  simp only [cbv_eq', h.2.1, h.2.2, h.1]
  have : t + 1075 - BIAS ≠ 0 := by unfold BIAS; omega
  simp [this]
  unfold BIAS two52 at *; omega

/-- the carry case: significand 2^53 at exponent t is significand 2^52 at exponent t+1 -/
theorem pack_carry (s t : Nat) (hs : s ≤ 1) (ht : 2926 ≤ t) (ht2 : t < 4970) :
    sgn (pack s t (2 * two52)) = s ∧ man (pack s t (2 * two52)) = two52 ∧ eb (pack s t (2 * two52)) = t + 1 := by
  have hp : pack s t (2 * two52) = (s <<< 63) + ((t + 1 + 1075 - BIAS) <<< 52) + 0 := by
    unfold pack
    have hlt : ¬ (2 * two52 < two52) := by unfold two52; omega
    rw [if_neg hlt]
    simp only [Nat.shiftLeft_eq]
    unfold two52 BIAS at *; omega
  have hE : t + 1 + 1075 - BIAS < 2048 := by unfold BIAS; omega
  have h := fields_of_sum s (t + 1 + 1075 - BIAS) 0 hs hE (by unfold two52; omega)
  rw [hp]
  unfold man eb
  simp only [cbv_eq', h.2.1, h.2.2, h.1]
  have : t + 1 + 1075 - BIAS ≠ 0 := by unfold BIAS; omega
  simp [this]
  unfold BIAS; omega
end CvssVerif.F64
namespace CvssVerif.F64

/-- round-half-even of `m / P` (P = 2·H): the chosen quotient is within half a unit of m/P, and on a tie it is even -/
theorem rne_core (m P H q0 r : Nat) (hP : P = 2 * H) (hm : m = q0 * P + r) (hr : r < P) :
    let up := if r > H then 1 else if r = H then q0 % 2 else 0
    2 * m ≤ 2 * ((q0 + up) * P) + P ∧ 2 * ((q0 + up) * P) ≤ 2 * m + P ∧
      ((2 * m = 2 * ((q0 + up) * P) + P ∨ 2 * m + P = 2 * ((q0 + up) * P)) → (q0 + up) % 2 = 0) := by
  intro up
  generalize hA : q0 * P = A at hm
  by_cases h1 : r > H
  · have hup : up = 1 := by simp [up, h1]
    have : (q0 + up) * P = A + P := by rw [hup, Nat.add_mul, hA]; omega
    rw [this]; omega
  · by_cases h2 : r = H
    · rcases Nat.mod_two_eq_zero_or_one q0 with h0 | h0
      · have hup : up = 0 := by simp [up, h1, h2, h0]
        have : (q0 + up) * P = A := by rw [hup]; simpa using hA
        rw [this, hup]; omega
      · have hup : up = 1 := by simp [up, h1, h2, h0]
        have : (q0 + up) * P = A + P := by rw [hup, Nat.add_mul, hA]; omega
        rw [this, hup]; omega
    · have hup : up = 0 := by simp [up, h1, h2]
      have : (q0 + up) * P = A := by rw [hup]; simpa using hA
      rw [this, hup]; omega
end CvssVerif.F64
namespace CvssVerif.F64

theorem log2_bounds (m : Nat) (hm : m ≠ 0) : 2 ^ Nat.log2 m ≤ m ∧ m < 2 ^ (Nat.log2 m + 1) :=
  ⟨Nat.log2_self_le hm, Nat.lt_log2_self⟩

/-- **`rnd` is round-to-nearest-even to 53 significant bits (normal range).**  For an integer `m ≠ 0` and an exponent `e`
    whose result is a normal double, `rnd s m e` is the pattern with sign `s` whose value `man · 2^eb` equals `q · 2^t`
    where `t = e + ⌊log₂ m⌋ − 52` is the exponent that gives 53 significant bits and `q` is: `m · 2^(e−t)` exactly when no bit is
    lost (`t ≤ e`), else the integer nearest to `m / 2^(t−e)`, the even one on a tie. -/
theorem rnd_normal (s m e : Nat) (hs : s ≤ 1) (hm : m ≠ 0) (hn : 2978 ≤ e + Nat.log2 m) (hub : e + Nat.log2 m < 5022) :
    ∃ q, sgn (rnd s m e) = s ∧
      man (rnd s m e) * 2 ^ eb (rnd s m e) = q * 2 ^ (e + Nat.log2 m - 52) ∧ two52 ≤ q ∧ q ≤ 2 * two52 ∧
      (e + Nat.log2 m - 52 ≤ e → q = m * 2 ^ (e - (e + Nat.log2 m - 52))) ∧
      (e < e + Nat.log2 m - 52 →
        2 * m ≤ 2 * (q * 2 ^ (Nat.log2 m - 52)) + 2 ^ (Nat.log2 m - 52) ∧
        2 * (q * 2 ^ (Nat.log2 m - 52)) ≤ 2 * m + 2 ^ (Nat.log2 m - 52) ∧
        ((2 * m = 2 * (q * 2 ^ (Nat.log2 m - 52)) + 2 ^ (Nat.log2 m - 52) ∨
          2 * m + 2 ^ (Nat.log2 m - 52) = 2 * (q * 2 ^ (Nat.log2 m - 52))) → q % 2 = 0)) := by
  obtain ⟨hlo, hhi⟩ := log2_bounds m hm
  generalize hL : Nat.log2 m = L at *
  have ht0 : ¬ (e + L < 2978) := by omega
  unfold rnd
  simp only [cbv_eq', hL, if_neg hm, if_neg ht0]
  by_cases hte : e + L - 52 ≤ e
  · -- no bit is lost
    have hL52 : L ≤ 52 := by omega
    have hsh : e - (e + L - 52) = 52 - L := by omega
    simp only [if_pos hte, hsh, Nat.shiftLeft_eq]
    have hp : 2 ^ L * 2 ^ (52 - L) = two52 := by
      rw [← Nat.pow_add]
      have : L + (52 - L) = 52 := by omega
      rw [this]; rfl
    have hq1 : two52 ≤ m * 2 ^ (52 - L) := by
      rw [← hp]; exact Nat.mul_le_mul_right _ hlo
    have hq2 : m * 2 ^ (52 - L) < 2 * two52 := by
      have : 2 ^ (L + 1) * 2 ^ (52 - L) = 2 * two52 := by
        rw [Nat.pow_succ, Nat.mul_comm (2 ^ L) 2, Nat.mul_assoc, hp]
      rw [← this]; exact Nat.mul_lt_mul_of_pos_right hhi (Nat.two_pow_pos _)
    obtain ⟨h1, h2, h3⟩ := pack_norm s (e + L - 52) (m * 2 ^ (52 - L)) hs hq1 hq2 (by omega) (by omega)
    exact ⟨_, h1, by rw [h2, h3], hq1, Nat.le_of_lt hq2, fun _ => rfl, fun h => absurd hte (by omega)⟩
  · -- bits are lost: round half to even
    have hk : e + L - 52 - e = L - 52 := by omega
    have hk1 : 1 ≤ L - 52 := by omega
    simp only [if_neg hte, hk, Nat.shiftRight_eq_div_pow, Nat.shiftLeft_eq, Nat.one_mul]
    have hand : m &&& (2 ^ (L - 52) - 1) = m % 2 ^ (L - 52) := Nat.and_two_pow_sub_one_eq_mod m _
    rw [hand]
    have hPH : 2 ^ (L - 52) = 2 * 2 ^ (L - 52 - 1) := by
      have : L - 52 = (L - 52 - 1) + 1 := by omega
      conv => lhs; rw [this, Nat.pow_succ]
      omega
    have hdm : m = m / 2 ^ (L - 52) * 2 ^ (L - 52) + m % 2 ^ (L - 52) := by
      rw [Nat.mul_comm]; exact (Nat.div_add_mod m _).symm
    have hr : m % 2 ^ (L - 52) < 2 ^ (L - 52) := Nat.mod_lt _ (Nat.two_pow_pos _)
    have core := rne_core m (2 ^ (L - 52)) (2 ^ (L - 52 - 1)) (m / 2 ^ (L - 52)) (m % 2 ^ (L - 52)) hPH hdm hr
    simp only at core
    generalize hup : (if m % 2 ^ (L - 52) > 2 ^ (L - 52 - 1) then 1
        else if m % 2 ^ (L - 52) = 2 ^ (L - 52 - 1) then m / 2 ^ (L - 52) % 2 else 0) = up at core ⊢
    have hup1 : up ≤ 1 := by
      rw [← hup]; split
      · omega
      · split
        · exact Nat.le_of_lt_succ (Nat.mod_lt _ (by decide))
        · omega
    -- the truncated quotient has exactly 53 bits
    have hsplit : 2 ^ L = two52 * 2 ^ (L - 52) := by
      unfold two52
      have : (4503599627370496 : Nat) = 2 ^ 52 := by decide
      rw [this, ← Nat.pow_add]; congr 1; omega
    have hq0lo : two52 ≤ m / 2 ^ (L - 52) := by
      rw [Nat.le_div_iff_mul_le (Nat.two_pow_pos _), ← hsplit]; exact hlo
    have hq0hi : m / 2 ^ (L - 52) < 2 * two52 := by
      rw [Nat.div_lt_iff_lt_mul (Nat.two_pow_pos _)]
      have : 2 ^ (L + 1) = 2 * two52 * 2 ^ (L - 52) := by
        rw [Nat.pow_succ, hsplit]; ac_rfl
      rw [← this]; exact hhi
    by_cases hc : m / 2 ^ (L - 52) + up < 2 * two52
    · obtain ⟨h1, h2, h3⟩ := pack_norm s (e + L - 52) (m / 2 ^ (L - 52) + up) hs (by omega) hc (by omega) (by omega)
      exact ⟨_, h1, by rw [h2, h3], by omega, Nat.le_of_lt hc, fun h => absurd h hte, fun _ => core⟩
    · have hq : m / 2 ^ (L - 52) + up = 2 * two52 := by omega
      obtain ⟨h1, h2, h3⟩ := pack_carry s (e + L - 52) hs (by omega) (by omega)
      rw [hq] at core ⊢
      refine ⟨2 * two52, h1, ?_, by unfold two52; omega, Nat.le_refl _, fun h => absurd h hte, fun _ => core⟩
      rw [h2, h3, Nat.pow_succ]; ac_rfl
end CvssVerif.F64

namespace CvssVerif.F64

/-- `mul` rounds the exact product: significands multiplied, unit exponents added -/
theorem mul_eq_rnd (a b : Nat) : mul a b = rnd ((sgn a + sgn b) % 2) (man a * man b) (eb a + eb b - BIAS) := by
  unfold mul; simp only [cbv_eq']

/-- `add` of two values of the same sign rounds the exact sum of the significands aligned at the smaller unit exponent -/
theorem add_same_sign (a b : Nat) (h : sgn a = sgn b)
    (hnz : man a <<< (eb a - min (eb a) (eb b)) + man b <<< (eb b - min (eb a) (eb b)) ≠ 0) :
    add a b = rnd (sgn a) (man a <<< (eb a - min (eb a) (eb b)) + man b <<< (eb b - min (eb a) (eb b))) (min (eb a) (eb b)) := by
  unfold add
  simp only [cbv_eq']
  have hmin : (if eb a ≤ eb b then eb a else eb b) = min (eb a) (eb b) := by
    by_cases hle : eb a ≤ eb b <;> simp [hle, Nat.min_def]
  simp only [hmin, h, if_true, if_neg hnz]

/-- non-vacuity: 0.85 × 0.77 (two CVSS weights) is a normal product; `rnd_normal` applies to it -/
example : 2978 ≤ (eb 0x3FEB333333333333 + eb 0x3FE8A3D70A3D70A4 - BIAS) + Nat.log2 (man 0x3FEB333333333333 * man 0x3FE8A3D70A3D70A4) ∧
    man 0x3FEB333333333333 * man 0x3FE8A3D70A3D70A4 ≠ 0 := by decide

end CvssVerif.F64
namespace CvssVerif.F64

/-- **Sticky bit.**  Let `N/d` be a positive rational, `y = 2·⌊N/d⌋ + (1 if d ∤ N else 0)` its doubled floor with the sticky bit, and let
    `q` be a round-half-even of `y / P` for an even `P = 2·H` with `H` even (at least two bits are dropped).  Then `q` is also a
    round-half-even of the exact `2N/d / P`: the sticky bit decides exactly as the discarded fraction would. -/
theorem sticky_core (N d y q P H : Nat) (hd : 0 < d) (hP : P = 2 * H) (hH : H % 2 = 0)
    (hy : y = 2 * (N / d) + (if N % d = 0 then 0 else 1))
    (h1 : 2 * y ≤ 2 * (q * P) + P) (h2 : 2 * (q * P) ≤ 2 * y + P)
    (h3 : (2 * y = 2 * (q * P) + P ∨ 2 * y + P = 2 * (q * P)) → q % 2 = 0) :
    2 * (2 * N) ≤ (2 * (q * P) + P) * d ∧ (2 * (q * P)) * d ≤ (2 * (2 * N) + P * d) ∧
      ((2 * (2 * N) = (2 * (q * P) + P) * d ∨ 2 * (2 * N) + P * d = (2 * (q * P)) * d) → q % 2 = 0) := by
  generalize hA : q * P = A at *
  have hdm : N = d * (N / d) + N % d := (Nat.div_add_mod N d).symm
  have hr : N % d < d := Nat.mod_lt _ hd
  generalize hQ : N / d = Q at *
  generalize hR : N % d = R at *
  -- everything is linear in the atoms A, H, Q, R once the products with d are expanded
  by_cases hR0 : R = 0
  · subst hR0
    simp only [if_true, Nat.add_zero] at hy hdm
    subst hy
    have e1 : (2 * A + P) * d = 2 * (A * d) + P * d := by rw [Nat.add_mul, Nat.mul_assoc]
    have e2 : 2 * A * d = 2 * (A * d) := Nat.mul_assoc _ _ _
    rw [e1, e2, hdm]
    -- 2y ≤ 2A + P, scaled by d
    have s1 : 2 * (2 * Q) * d ≤ (2 * A + P) * d := Nat.mul_le_mul_right d h1
    have s2 : 2 * A * d ≤ (2 * (2 * Q) + P) * d := Nat.mul_le_mul_right d h2
    rw [e1] at s1; rw [e2, Nat.add_mul] at s2
    have e3 : 2 * (2 * Q) * d = 2 * (2 * (d * Q)) := by
      rw [Nat.mul_assoc, Nat.mul_assoc, Nat.mul_comm Q d]
    rw [e3] at s1 s2
    refine ⟨s1, by omega, ?_⟩
    intro h
    apply h3
    rcases h with h | h
    · left
      have : (2 * (2 * Q)) * d = (2 * A + P) * d := by rw [e1, e3]; exact h
      exact Nat.eq_of_mul_eq_mul_right hd this
    · right
      have : (2 * (2 * Q) + P) * d = (2 * A) * d := by rw [Nat.add_mul, e3, e2]; exact h
      exact Nat.eq_of_mul_eq_mul_right hd this
  · -- d ∤ N: y is odd, 2A and P are multiples of 4, so the two bounds on y have a unit of slack and there is no tie
    simp only [if_neg hR0] at hy
    subst hy
    obtain ⟨H', hH'⟩ : ∃ H', H = 2 * H' := ⟨H / 2, by omega⟩
    have hA4 : A = 4 * (q * H') := by rw [← hA, hP, hH']; ac_rfl
    generalize q * H' = B at hA4
    have l1 : 4 * Q + 4 ≤ 2 * A + P := by omega
    have l2 : 2 * A ≤ 4 * Q + P := by omega
    have m1 : (4 * Q + 4) * d ≤ (2 * A + P) * d := Nat.mul_le_mul_right d l1
    have m2 : 2 * A * d ≤ (4 * Q + P) * d := Nat.mul_le_mul_right d l2
    have x1 : (4 * Q + 4) * d = 4 * (d * Q) + 4 * d := by rw [Nat.add_mul, Nat.mul_assoc, Nat.mul_comm Q d]
    have x2 : (4 * Q + P) * d = 4 * (d * Q) + P * d := by rw [Nat.add_mul, Nat.mul_assoc, Nat.mul_comm Q d]
    rw [x1] at m1; rw [x2] at m2
    have hR1 : 0 < R := Nat.pos_of_ne_zero hR0
    generalize (2 * A + P) * d = U at *
    generalize 2 * A * d = W at *
    generalize P * d = Pd at *
    generalize d * Q = dQ at *
    refine ⟨by omega, by omega, ?_⟩
    intro h
    exfalso; omega
end CvssVerif.F64
namespace CvssVerif.F64

/-- **`rndRat` (hence `div` and the decimal constants `ofDec`) is round-to-nearest-even of the exact quotient.**  For `n, d ≠ 0` (with
    `n` not absurdly longer than `d`) and a normal result, `rndRat s n d e` has sign `s` and value `q · 2^t` where, with
    `N = n · 2^k` the numerator scaled so that the integer quotient has at least 64 bits and `P = 2^(L−52)` the weight of the bits
    dropped from the doubled quotient, `q` is the integer nearest to `(2N/d) / P` — the exact quotient, not its floor — and the even
    one on a tie. -/
theorem rndRat_normal (s n d e : Nat) (hs : s ≤ 1) (hn : n ≠ 0) (hd : d ≠ 0) (hnd : Nat.log2 n ≤ Nat.log2 d + 64) :
    let k := (Nat.log2 d + 64) - Nat.log2 n
    let N := n <<< k
    let y := 2 * (N / d) + (if N % d = 0 then 0 else 1)
    let L := Nat.log2 y
    2978 ≤ (e - k - 1) + L → (e - k - 1) + L < 5022 →
    ∃ q, sgn (rndRat s n d e) = s ∧
      man (rndRat s n d e) * 2 ^ eb (rndRat s n d e) = q * 2 ^ ((e - k - 1) + L - 52) ∧ two52 ≤ q ∧ q ≤ 2 * two52 ∧
      2 * (2 * N) ≤ (2 * (q * 2 ^ (L - 52)) + 2 ^ (L - 52)) * d ∧
      (2 * (q * 2 ^ (L - 52))) * d ≤ 2 * (2 * N) + 2 ^ (L - 52) * d ∧
      ((2 * (2 * N) = (2 * (q * 2 ^ (L - 52)) + 2 ^ (L - 52)) * d ∨
        2 * (2 * N) + 2 ^ (L - 52) * d = (2 * (q * 2 ^ (L - 52))) * d) → q % 2 = 0) := by
  intro k N y L hlo hhi
  -- the doubled quotient has at least 65 bits
  obtain ⟨hnlo, _⟩ := log2_bounds n hn
  obtain ⟨_, hdhi⟩ := log2_bounds d hd
  have hN : 2 ^ (Nat.log2 d + 64) ≤ N := by
    show 2 ^ (Nat.log2 d + 64) ≤ n <<< k
    rw [Nat.shiftLeft_eq]
    have : Nat.log2 d + 64 = Nat.log2 n + k := by omega
    rw [this, Nat.pow_add]
    exact Nat.mul_le_mul_right _ hnlo
  have hq63 : 2 ^ 63 ≤ N / d := by
    rw [Nat.le_div_iff_mul_le (Nat.pos_of_ne_zero hd)]
    have : 2 ^ 63 * 2 ^ (Nat.log2 d + 1) = 2 ^ (Nat.log2 d + 64) := by rw [← Nat.pow_add]; congr 1; omega
    calc 2 ^ 63 * d ≤ 2 ^ 63 * 2 ^ (Nat.log2 d + 1) := Nat.mul_le_mul_left _ (Nat.le_of_lt hdhi)
      _ = 2 ^ (Nat.log2 d + 64) := this
      _ ≤ N := hN
  have hy64 : 2 ^ 64 ≤ y := by
    show 2 ^ 64 ≤ 2 * (N / d) + _
    have : (2:Nat) ^ 64 = 2 * 2 ^ 63 := by decide
    omega
  have hy0 : y ≠ 0 := by
    have : 0 < 2 ^ 64 := Nat.two_pow_pos _
    omega
  have hL : 64 ≤ L := (Nat.le_log2 hy0).mpr hy64
  -- rndRat is rnd of y at exponent e - k - 1
  have hr : rndRat s n d e = rnd s y (e - k - 1) := by
    unfold rndRat
    simp only [cbv_eq', if_neg hn]
    rfl
  rw [hr]
  obtain ⟨q, h1, h2, h3, h4, _, h6⟩ := rnd_normal s y (e - k - 1) hs hy0 hlo hhi
  have hlt : e - k - 1 < e - k - 1 + L - 52 := by omega
  obtain ⟨r1, r2, r3⟩ := h6 hlt
  have hPH : 2 ^ (L - 52) = 2 * 2 ^ (L - 52 - 1) := by
    have : L - 52 = (L - 52 - 1) + 1 := by omega
    conv => lhs; rw [this, Nat.pow_succ]
    omega
  have hHe : 2 ^ (L - 52 - 1) % 2 = 0 := by
    have : L - 52 - 1 = (L - 52 - 2) + 1 := by omega
    rw [this, Nat.pow_succ]; omega
  have := sticky_core N d y q (2 ^ (L - 52)) (2 ^ (L - 52 - 1)) (Nat.pos_of_ne_zero hd) hPH hHe rfl r1 r2 r3
  exact ⟨q, h1, h2, h3, h4, this.1, this.2.1, this.2.2⟩

/-- `div` rounds the exact quotient of the significands -/
theorem div_eq_rndRat (a b : Nat) : div a b = rndRat ((sgn a + sgn b) % 2) (man a) (man b) (BIAS + eb a - eb b) := by
  unfold div; simp only [cbv_eq']

end CvssVerif.F64

namespace CvssVerif.F64

/-- `add` of two values of opposite sign (a subtraction) rounds the exact difference of the aligned significands, with the sign of the larger -/
theorem add_opposite_sign (a b : Nat) (h : sgn a ≠ sgn b) :
    let e := min (eb a) (eb b)
    let ma := man a <<< (eb a - e)
    let mb := man b <<< (eb b - e)
    add a b = (if ma = mb then 0 else if ma > mb then rnd (sgn a) (ma - mb) e else rnd (sgn b) (mb - ma) e) := by
  intro e ma mb
  unfold add
  simp only [cbv_eq']
  have hmin : (if eb a ≤ eb b then eb a else eb b) = min (eb a) (eb b) := by
    by_cases hle : eb a ≤ eb b <;> simp [hle, Nat.min_def]
  simp only [hmin, if_neg h]
  rfl

/-- `sub` is `add` of the negated second operand -/
theorem sub_eq_add_neg (a b : Nat) : sub a b = add a (neg b) := rfl

end CvssVerif.F64

namespace CvssVerif.F64

/-- binary64 multiplication is commutative, bit for bit -/
theorem mul_comm' (a b : Nat) : mul a b = mul b a := by
  rw [mul_eq_rnd, mul_eq_rnd, Nat.add_comm (sgn a) (sgn b), Nat.mul_comm (man a) (man b), Nat.add_comm (eb a) (eb b)]

/-- binary64 addition is commutative, bit for bit (including the sign of an exact zero) -/
theorem add_comm' (a b : Nat) : add a b = add b a := by
  unfold add
  simp only [cbv_eq']
  have he : (if eb a ≤ eb b then eb a else eb b) = (if eb b ≤ eb a then eb b else eb a) := by
    split <;> split <;> omega
  rw [he]
  generalize (if eb b ≤ eb a then eb b else eb a) = e
  generalize man a <<< (eb a - e) = ma
  generalize man b <<< (eb b - e) = mb
  generalize sgn a = sa
  generalize sgn b = sb
  by_cases hs : sa = sb
  · subst hs; simp [Nat.add_comm]
  · have hs' : ¬ sb = sa := fun h => hs h.symm
    simp only [hs, hs', if_false]
    by_cases hm : ma = mb
    · subst hm; simp
    · have hm' : ¬ mb = ma := fun h => hm h.symm
      simp only [hm, hm', if_false]
      by_cases hg : ma > mb
      · have : ¬ mb > ma := by omega
        simp [hg, this]
      · have : mb > ma := by omega
        simp [hg, this]
end CvssVerif.F64
