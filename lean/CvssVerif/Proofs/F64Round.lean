import CvssVerif.Basic.F64
/-
  The rounding core of the software binary64 (`Basic/F64.lean`) is verified, not only validated: `rnd s m e`, the single
  function through which `mul`, `add`, `sub`, `div`, `ldexp`, `ofDec` and `ofNat` produce their results, is
  round-to-nearest, ties-to-even, to 53 significant bits — IEEE-754 binary64's default rounding — for every integer
  significand `m ≠ 0` and exponent `e` whose result is a normal number (`rnd_normal`).  The statement is about integers only:
  the value of a pattern `b` is `man b · 2^(eb b − BIAS)` with sign `sgn b` (the standard decoding of the three fields, `fields_of_sum`,
  `pack_norm`, `pack_carry`); `mul` and `add` call `rnd` on the exact integer product resp. aligned sum (`mul_eq_rnd`, `add_same_sign`,
  by unfolding), so on normal results they are the correctly rounded product and sum.  What remains a description validated by tests
  rather than proved: the sticky-bit step of `div`/`ofDec` (`rndRat`), gradual underflow (never reached by a score), and that
  amd64 Go evaluates `float64` expressions operation by operation in binary64 (no fused multiply-add, no extended precision).
-/
namespace CvssVerif.F64

theorem cbv_eq' {α : Type} (n : Nat) (k : Nat → α) : cbv n k = k n := by
  unfold cbv; cases n <;> rfl

/-- the fields of an assembled pattern: sign, biased exponent, fraction -/
theorem fields_of_sum (s E f : Nat) (hs : s ≤ 1) (hE : E < 2048) (hf : f < two52) :
    sgn ((s <<< 63) + (E <<< 52) + f) = s ∧ bexp ((s <<< 63) + (E <<< 52) + f) = E ∧ frac ((s <<< 63) + (E <<< 52) + f) = f := by
  unfold sgn bexp frac two52 at *
  simp only [Nat.shiftLeft_eq, Nat.shiftRight_eq_div_pow]
  have h1 : (2047 : Nat) = 2 ^ 11 - 1 := by decide
  have h2 : (4503599627370495 : Nat) = 2 ^ 52 - 1 := by decide
  rw [h1, h2, Nat.and_two_pow_sub_one_eq_mod, Nat.and_two_pow_sub_one_eq_mod]
  refine ⟨?_, ?_, ?_⟩ <;> omega
end CvssVerif.F64
namespace CvssVerif.F64

theorem pack_sub (s q : Nat) (hs : s ≤ 1) (hq : q < two52) :
    sgn (pack s 2926 q) = s ∧ man (pack s 2926 q) = q ∧ eb (pack s 2926 q) = 2926 := by
  have h := fields_of_sum s 0 q hs (by omega) hq
  have hp : pack s 2926 q = (s <<< 63) + (0 <<< 52) + q := by simp [pack, hq]
  rw [hp]
  unfold man eb
  simp only [cbv_eq', h.2.1, h.2.2, h.1]
  simp

/-- a normal significand (2^52 ≤ q < 2^53) at unit exponent t assembles to the pattern with that significand and exponent -/
theorem pack_norm (s t q : Nat) (hs : s ≤ 1) (hq : two52 ≤ q) (hq2 : q < 2 * two52) (ht : 2926 ≤ t) (ht2 : t < 4971) :
    sgn (pack s t q) = s ∧ man (pack s t q) = q ∧ eb (pack s t q) = t := by
  have hE : t + 1075 - BIAS < 2048 := by unfold BIAS; omega
  have h := fields_of_sum s (t + 1075 - BIAS) (q - two52) hs hE (by unfold two52 at *; omega)
  have hp : pack s t q = (s <<< 63) + ((t + 1075 - BIAS) <<< 52) + (q - two52) := by
    unfold pack; simp [Nat.not_lt.mpr hq]
  rw [hp]
  unfold man eb
  simp only [cbv_eq', h.2.1, h.2.2, h.1]
  have : t + 1075 - BIAS ≠ 0 := by unfold BIAS; omega
  simp [this]
  unfold BIAS two52 at *; omega

/-- the carry case: significand 2^53 at exponent t is significand 2^52 at exponent t+1 -/
theorem pack_carry (s t : Nat) (hs : s ≤ 1) (ht : 2926 ≤ t) (ht2 : t < 4970) :
    sgn (pack s t (2 * two52)) = s ∧ man (pack s t (2 * two52)) = two52 ∧ eb (pack s t (2 * two52)) = t + 1 := by
  have hp : pack s t (2 * two52) = (s <<< 63) + ((t + 1 + 1075 - BIAS) <<< 52) + 0 := by
    unfold pack
    have hlt : ¬ (2 * two52 < two52) := by unfold two52; omega
    rw [if_neg hlt]
    simp only [Nat.shiftLeft_eq]
    unfold two52 BIAS at *; omega
  have hE : t + 1 + 1075 - BIAS < 2048 := by unfold BIAS; omega
  have h := fields_of_sum s (t + 1 + 1075 - BIAS) 0 hs hE (by unfold two52; omega)
  rw [hp]
  unfold man eb
  simp only [cbv_eq', h.2.1, h.2.2, h.1]
  have : t + 1 + 1075 - BIAS ≠ 0 := by unfold BIAS; omega
  simp [this]
  unfold BIAS; omega
end CvssVerif.F64
namespace CvssVerif.F64

/-- round-half-even of `m / P` (P = 2·H): the chosen quotient is within half a unit of m/P, and on a tie it is even -/
theorem rne_core (m P H q0 r : Nat) (hP : P = 2 * H) (hm : m = q0 * P + r) (hr : r < P) :
    let up := if r > H then 1 else if r = H then q0 % 2 else 0
    2 * m ≤ 2 * ((q0 + up) * P) + P ∧ 2 * ((q0 + up) * P) ≤ 2 * m + P ∧
      ((2 * m = 2 * ((q0 + up) * P) + P ∨ 2 * m + P = 2 * ((q0 + up) * P)) → (q0 + up) % 2 = 0) := by
  intro up
  generalize hA : q0 * P = A at hm
  by_cases h1 : r > H
  · have hup : up = 1 := by simp [up, h1]
    have : (q0 + up) * P = A + P := by rw [hup, Nat.add_mul, hA]; omega
    rw [this]; omega
  · by_cases h2 : r = H
    · rcases Nat.mod_two_eq_zero_or_one q0 with h0 | h0
      · have hup : up = 0 := by simp [up, h1, h2, h0]
        have : (q0 + up) * P = A := by rw [hup]; simpa using hA
        rw [this, hup]; omega
      · have hup : up = 1 := by simp [up, h1, h2, h0]
        have : (q0 + up) * P = A + P := by rw [hup, Nat.add_mul, hA]; omega
        rw [this, hup]; omega
    · have hup : up = 0 := by simp [up, h1, h2]
      have : (q0 + up) * P = A := by rw [hup]; simpa using hA
      rw [this, hup]; omega
end CvssVerif.F64
namespace CvssVerif.F64

theorem log2_bounds (m : Nat) (hm : m ≠ 0) : 2 ^ Nat.log2 m ≤ m ∧ m < 2 ^ (Nat.log2 m + 1) :=
  ⟨Nat.log2_self_le hm, Nat.lt_log2_self⟩

/-- **`rnd` is round-to-nearest-even to 53 significant bits (normal range).**  For an integer `m ≠ 0` and an exponent `e`
    whose result is a normal double, `rnd s m e` is the pattern with sign `s` whose value `man · 2^eb` equals `q · 2^t`
    where `t = e + ⌊log₂ m⌋ − 52` is the exponent that gives 53 significant bits and `q` is: `m · 2^(e−t)` exactly when no bit is
    lost (`t ≤ e`), else the integer nearest to `m / 2^(t−e)`, the even one on a tie. -/
theorem rnd_normal (s m e : Nat) (hs : s ≤ 1) (hm : m ≠ 0) (hn : 2978 ≤ e + Nat.log2 m) (hub : e + Nat.log2 m < 5022) :
    ∃ q, sgn (rnd s m e) = s ∧
      man (rnd s m e) * 2 ^ eb (rnd s m e) = q * 2 ^ (e + Nat.log2 m - 52) ∧ two52 ≤ q ∧ q ≤ 2 * two52 ∧
      (e + Nat.log2 m - 52 ≤ e → q = m * 2 ^ (e - (e + Nat.log2 m - 52))) ∧
      (e < e + Nat.log2 m - 52 →
        2 * m ≤ 2 * (q * 2 ^ (Nat.log2 m - 52)) + 2 ^ (Nat.log2 m - 52) ∧
        2 * (q * 2 ^ (Nat.log2 m - 52)) ≤ 2 * m + 2 ^ (Nat.log2 m - 52) ∧
        ((2 * m = 2 * (q * 2 ^ (Nat.log2 m - 52)) + 2 ^ (Nat.log2 m - 52) ∨
          2 * m + 2 ^ (Nat.log2 m - 52) = 2 * (q * 2 ^ (Nat.log2 m - 52))) → q % 2 = 0)) := by
  obtain ⟨hlo, hhi⟩ := log2_bounds m hm
  generalize hL : Nat.log2 m = L at *
  have ht0 : ¬ (e + L < 2978) := by omega
  unfold rnd
  simp only [cbv_eq', hL, if_neg hm, if_neg ht0]
  by_cases hte : e + L - 52 ≤ e
  · -- no bit is lost
    have hL52 : L ≤ 52 := by omega
    have hsh : e - (e + L - 52) = 52 - L := by omega
    simp only [if_pos hte, hsh, Nat.shiftLeft_eq]
    have hp : 2 ^ L * 2 ^ (52 - L) = two52 := by
      rw [← Nat.pow_add]
      have : L + (52 - L) = 52 := by omega
      rw [this]; rfl
    have hq1 : two52 ≤ m * 2 ^ (52 - L) := by
      rw [← hp]; exact Nat.mul_le_mul_right _ hlo
    have hq2 : m * 2 ^ (52 - L) < 2 * two52 := by
      have : 2 ^ (L + 1) * 2 ^ (52 - L) = 2 * two52 := by
        rw [Nat.pow_succ, Nat.mul_comm (2 ^ L) 2, Nat.mul_assoc, hp]
      rw [← this]; exact Nat.mul_lt_mul_of_pos_right hhi (Nat.two_pow_pos _)
    obtain ⟨h1, h2, h3⟩ := pack_norm s (e + L - 52) (m * 2 ^ (52 - L)) hs hq1 hq2 (by omega) (by omega)
    exact ⟨_, h1, by rw [h2, h3], hq1, Nat.le_of_lt hq2, fun _ => rfl, fun h => absurd hte (by omega)⟩
  · -- bits are lost: round half to even
    have hk : e + L - 52 - e = L - 52 := by omega
    have hk1 : 1 ≤ L - 52 := by omega
    simp only [if_neg hte, hk, Nat.shiftRight_eq_div_pow, Nat.shiftLeft_eq, Nat.one_mul]
    have hand : m &&& (2 ^ (L - 52) - 1) = m % 2 ^ (L - 52) := Nat.and_two_pow_sub_one_eq_mod m _
    rw [hand]
    have hPH : 2 ^ (L - 52) = 2 * 2 ^ (L - 52 - 1) := by
      have : L - 52 = (L - 52 - 1) + 1 := by omega
      conv => lhs; rw [this, Nat.pow_succ]
      omega
    have hdm : m = m / 2 ^ (L - 52) * 2 ^ (L - 52) + m % 2 ^ (L - 52) := by
      rw [Nat.mul_comm]; exact (Nat.div_add_mod m _).symm
    have hr : m % 2 ^ (L - 52) < 2 ^ (L - 52) := Nat.mod_lt _ (Nat.two_pow_pos _)
    have core := rne_core m (2 ^ (L - 52)) (2 ^ (L - 52 - 1)) (m / 2 ^ (L - 52)) (m % 2 ^ (L - 52)) hPH hdm hr
    simp only at core
    generalize hup : (if m % 2 ^ (L - 52) > 2 ^ (L - 52 - 1) then 1
        else if m % 2 ^ (L - 52) = 2 ^ (L - 52 - 1) then m / 2 ^ (L - 52) % 2 else 0) = up at core ⊢
    have hup1 : up ≤ 1 := by
      rw [← hup]; split
      · omega
      · split
        · exact Nat.le_of_lt_succ (Nat.mod_lt _ (by decide))
        · omega
    -- the truncated quotient has exactly 53 bits
    have hsplit : 2 ^ L = two52 * 2 ^ (L - 52) := by
      unfold two52
      have : (4503599627370496 : Nat) = 2 ^ 52 := by decide
      rw [this, ← Nat.pow_add]; congr 1; omega
    have hq0lo : two52 ≤ m / 2 ^ (L - 52) := by
      rw [Nat.le_div_iff_mul_le (Nat.two_pow_pos _), ← hsplit]; exact hlo
    have hq0hi : m / 2 ^ (L - 52) < 2 * two52 := by
      rw [Nat.div_lt_iff_lt_mul (Nat.two_pow_pos _)]
      have : 2 ^ (L + 1) = 2 * two52 * 2 ^ (L - 52) := by
        rw [Nat.pow_succ, hsplit]; ac_rfl
      rw [← this]; exact hhi
    by_cases hc : m / 2 ^ (L - 52) + up < 2 * two52
    · obtain ⟨h1, h2, h3⟩ := pack_norm s (e + L - 52) (m / 2 ^ (L - 52) + up) hs (by omega) hc (by omega) (by omega)
      exact ⟨_, h1, by rw [h2, h3], by omega, Nat.le_of_lt hc, fun h => absurd h hte, fun _ => core⟩
    · have hq : m / 2 ^ (L - 52) + up = 2 * two52 := by omega
      obtain ⟨h1, h2, h3⟩ := pack_carry s (e + L - 52) hs (by omega) (by omega)
      rw [hq] at core ⊢
      refine ⟨2 * two52, h1, ?_, by unfold two52; omega, Nat.le_refl _, fun h => absurd h hte, fun _ => core⟩
      rw [h2, h3, Nat.pow_succ]; ac_rfl
end CvssVerif.F64

namespace CvssVerif.F64

/-- `mul` rounds the exact product: significands multiplied, unit exponents added -/
theorem mul_eq_rnd (a b : Nat) : mul a b = rnd ((sgn a + sgn b) % 2) (man a * man b) (eb a + eb b - BIAS) := by
  unfold mul; simp only [cbv_eq']

/-- `add` of two values of the same sign rounds the exact sum of the significands aligned at the smaller unit exponent -/
theorem add_same_sign (a b : Nat) (h : sgn a = sgn b)
    (hnz : man a <<< (eb a - min (eb a) (eb b)) + man b <<< (eb b - min (eb a) (eb b)) ≠ 0) :
    add a b = rnd (sgn a) (man a <<< (eb a - min (eb a) (eb b)) + man b <<< (eb b - min (eb a) (eb b))) (min (eb a) (eb b)) := by
  unfold add
  simp only [cbv_eq']
  have hmin : (if eb a ≤ eb b then eb a else eb b) = min (eb a) (eb b) := by
    by_cases hle : eb a ≤ eb b <;> simp [hle, Nat.min_def]
  simp only [hmin, h, if_true, if_neg hnz]

/-- non-vacuity: 0.85 × 0.77 (two CVSS weights) is a normal product; `rnd_normal` applies to it -/
example : 2978 ≤ (eb 0x3FEB333333333333 + eb 0x3FE8A3D70A3D70A4 - BIAS) + Nat.log2 (man 0x3FEB333333333333 * man 0x3FE8A3D70A3D70A4) ∧
    man 0x3FEB333333333333 * man 0x3FE8A3D70A3D70A4 ≠ 0 := by decide

end CvssVerif.F64
