import CvssVerif.Proofs.Parse2
/-
  v2: the model's decoder against the specification's canonical grammar `Spec2.canon2`.
-/
namespace CvssVerif.V2
open CvssVerif

def specOf (m : M2) : Spec2.MSpec := Spec2.mspec m.spec.name

theorem specOf_name (m : M2) : (specOf m).name = m.spec.name := by cases m <;> decide
theorem specOf_codes (m : M2) (c : Bytes) : c ∈ (specOf m).codes ↔ c ∈ m.spec.codes.map (·.2) := by
  have h : ((specOf m).codes.all fun c => (m.spec.codes.map (·.2)).contains c) = true ∧
      ((m.spec.codes.map (·.2)).all fun c => (specOf m).codes.contains c) = true := by
    cases m <;> decide
  simp only [List.all_eq_true, List.contains_iff_mem] at h
  exact ⟨h.1 c, h.2 c⟩

theorem tokIs_iff (m : M2) (t : Bytes) :
    Spec2.tokIs (specOf m) t = true ↔ ∃ p ∈ m.spec.codes, t = m.spec.name ++ colon :: p.2 := by
  unfold Spec2.tokIs
  simp only [List.any_eq_true, beq_iff_eq, specOf_name]
  constructor
  · rintro ⟨c, hc, rfl⟩
    obtain ⟨p, hp, rfl⟩ := List.mem_map.mp ((specOf_codes m c).mp hc)
    exact ⟨p, hp, by simp⟩
  · rintro ⟨p, hp, rfl⟩
    exact ⟨p.2, (specOf_codes m p.2).mpr (List.mem_map.mpr ⟨p, hp, rfl⟩), by simp⟩

/-- the metrics of a canonical vector: base, optionally temporal, optionally environmental -/
def groups (t e : Bool) : List M2 :=
  baseMs ++ (if t then tempMs else []) ++ (if e then envMs else [])

theorem groupsG_eq (t e : Bool) :
    Spec2.baseG ++ (if t then Spec2.tempG else []) ++ (if e then Spec2.envG else []) = (groups t e).map specOf := by
  cases t <;> cases e <;> decide

theorem groups_nodup (t e : Bool) : (groups t e).Nodup := by cases t <;> cases e <;> decide

theorem groups_sub (L : Level) (t e : Bool) (ht : t = true → Level.temporal.le L = true)
    (he : e = true → Level.environmental.le L = true) : ∀ m ∈ groups t e, m ∈ msOf L := by
  cases L <;> cases t <;> cases e <;>
    first
    | decide
    | exact absurd (ht rfl) (by decide)
    | exact absurd (he rfl) (by decide)

/-- the specification's grammar, in terms of the group pattern -/
theorem canon2_iff (L : Level) (s : Bytes) :
    Spec2.canon2 L s = true ↔ ∃ t e : Bool, (t = true → Level.temporal.le L = true) ∧
      (e = true → Level.environmental.le L = true) ∧
      Spec2.shapeIs ((groups t e).map specOf) (split slash s) = true := by
  unfold Spec2.canon2
  simp only [Bool.or_eq_true, Bool.and_eq_true]
  constructor
  · rintro (((h | ⟨hl, h⟩) | ⟨hl, h⟩) | ⟨hl, h⟩)
    · exact ⟨false, false, by simp, by simp, by rw [← groupsG_eq]; simpa using h⟩
    · exact ⟨true, false, fun _ => hl, by simp, by rw [← groupsG_eq]; simpa using h⟩
    · exact ⟨false, true, by simp, fun _ => hl, by rw [← groupsG_eq]; simpa using h⟩
    · refine ⟨true, true, fun _ => ?_, fun _ => hl, by rw [← groupsG_eq]; simpa using h⟩
      cases L <;> simp_all [Level.le, Level.toNat]
  · rintro ⟨t, e, ht, he, h⟩
    rw [← groupsG_eq] at h
    cases t <;> cases e
    · left; left; left; simpa using h
    · left; right; exact ⟨he rfl, by simpa using h⟩
    · left; left; right; exact ⟨ht rfl, by simpa using h⟩
    · right; exact ⟨he rfl, by simpa using h⟩

/-- tokens of the given shape are exactly sequences of table entries for the metrics, in order -/
theorem shapeIs_iff (G : List M2) (toks : List Bytes) :
    Spec2.shapeIs (G.map specOf) toks = true ↔
      ∃ es : List Ent, es.map (·.m) = G ∧ (∀ e ∈ es, (e.x, e.c) ∈ e.m.spec.codes) ∧ toks = es.map Ent.tok := by
  induction G generalizing toks with
  | nil =>
    cases toks with
    | nil => simp [Spec2.shapeIs]
    | cons t ts =>
      simp only [List.map_nil, Spec2.shapeIs, Bool.false_eq_true, false_iff, not_exists, not_and]
      intro es h1 _ h3
      have : es = [] := by simpa using h1
      subst this; cases h3
  | cons m G ih =>
    cases toks with
    | nil =>
      simp only [List.map_cons, Spec2.shapeIs, Bool.false_eq_true, false_iff, not_exists, not_and]
      intro es h1 _ h3
      have : es = [] := by simpa using h3.symm
      subst this; cases h1
    | cons t ts =>
      simp only [List.map_cons, Spec2.shapeIs, Bool.and_eq_true, ih, tokIs_iff]
      constructor
      · rintro ⟨⟨p, hp, rfl⟩, es, rfl, hes, rfl⟩
        refine ⟨⟨m, p.1, p.2⟩ :: es, rfl, ?_, rfl⟩
        intro e he
        rcases List.mem_cons.mp he with rfl | h'
        · exact hp
        · exact hes e h'
      · rintro ⟨es, h1, hes, h3⟩
        cases es with
        | nil => cases h1
        | cons e es =>
          simp only [List.map_cons, List.cons.injEq] at h1 h3
          obtain ⟨rfl, rfl⟩ := h1
          obtain ⟨rfl, rfl⟩ := h3
          exact ⟨⟨(e.x, e.c), hes e List.mem_cons_self, rfl⟩, es, rfl,
            fun e' he' => hes e' (List.mem_cons_of_mem _ he'), rfl⟩

end CvssVerif.V2

namespace CvssVerif.V2
open CvssVerif

theorem slash_not_mem_tok {L : Level} {e : Ent} (he : e ∈ vocab L) : slash ∉ e.tok := by
  obtain ⟨_, hp⟩ := mem_vocab.mp he
  have hc := (code_facts e.m _ hp).2.2.2
  unfold Ent.tok
  intro h
  rcases List.mem_append.mp h with h | h
  · exact slash_not_mem_name e.m h
  · rcases List.mem_cons.mp h with h | h
    · exact absurd h (by decide)
    · exact hc h

theorem intercalate_cons_eq (sep a : Bytes) (l : List Bytes) :
    sep.intercalate (a :: l) = a ++ (l.map fun y => sep ++ y).flatten := by
  induction l generalizing a with
  | nil => simp [List.intercalate]
  | cons b bs ih =>
    rw [List.intercalate_cons_cons, ih b]
    simp [List.append_assoc]

theorem join_append_flatten (x : Bytes) (xs ys : List Bytes) :
    join slash (x :: xs) ++ (ys.map fun y => [slash] ++ y).flatten = join slash (x :: (xs ++ ys)) := by
  unfold join
  rw [intercalate_cons_eq, intercalate_cons_eq, List.map_append, List.flatten_append, List.append_assoc]

theorem join_map_append (f : M2 → Bytes) (x : M2) (xs ys : List M2) :
    join slash (f x :: xs.map f) ++ (ys.map fun m => [slash] ++ f m).flatten
      = join slash ((x :: xs ++ ys).map f) := by
  have := join_append_flatten (f x) (xs.map f) (ys.map f)
  simp only [List.map_map, Function.comp_def] at this
  rw [this]
  simp [List.map_append]

/-- an object all of whose names are exactly the metrics of a group pattern -/
def HasPattern (o : Obj2) (t e : Bool) : Prop := ∀ m, o.named m = decide (m ∈ groups t e)

theorem filter_pattern {o : Obj2} {t e : Bool} (h : HasPattern o t e) :
    baseMs.filter o.named = baseMs ∧
    tempMs.filter o.named = (if t then tempMs else []) ∧
    envMs.filter o.named = (if e then envMs else []) := by
  have hn : o.named = fun m => decide (m ∈ groups t e) := funext h
  rw [hn]
  cases t <;> cases e <;> decide

/-- the encoder on an object with a group pattern (levels permitting) writes exactly the
    pattern's tokens -/
theorem encodeStr_pattern {L : Level} {o : Obj2} {t e : Bool} (h : HasPattern o t e)
    (ht : t = true → Level.temporal.le L = true) (he : e = true → Level.environmental.le L = true) :
    encodeStr L o = join slash ((groups t e).map fun m => tokOf m o) := by
  obtain ⟨f1, f2, f3⟩ := filter_pattern h
  have hb : encodeBaseStr o = join slash (baseMs.map fun m => tokOf m o) := by
    unfold encodeBaseStr; rw [f1]
  cases L
  · have ht' : t = false := by cases t; rfl; exact absurd (ht rfl) (by decide)
    have he' : e = false := by cases e; rfl; exact absurd (he rfl) (by decide)
    subst ht'; subst he'
    unfold encodeStr groups; simp only [hb, Bool.false_eq_true, if_false, List.append_nil]
  · have he' : e = false := by cases e; rfl; exact absurd (he rfl) (by decide)
    subst he'
    unfold encodeStr encodeTemporalStr groups
    simp only
    rw [hb, f2]
    have := join_map_append (fun m => tokOf m o) .AV [M2.AC, .Au, .C, .I, .A] (if t then tempMs else [])
    cases t <;> exact this
  · unfold encodeStr encodeEnvStr encodeTemporalStr groups
    simp only
    rw [hb, f2, f3]
    have h1 := join_map_append (fun m => tokOf m o) .AV [M2.AC, .Au, .C, .I, .A] (if t then tempMs else [])
    have h2 := join_map_append (fun m => tokOf m o) .AV ([M2.AC, .Au, .C, .I, .A] ++ (if t then tempMs else []))
      (if e then envMs else [])
    cases t <;> cases e <;> (first | exact (congrArg (· ++ _) h1).trans h2 | (rw [show ∀ x : Bytes, x ++ [] = x from List.append_nil]; exact h1))

/-- facts about the object a successful run from a fresh object leaves -/
theorem run_new_named (es : List Ent) (m : M2) :
    (runEnts Obj2.new es).named m = decide (m ∈ es.map (·.m)) := by
  rw [run_named]
  simp only [Obj2.new, Bool.false_or]
  rw [Bool.eq_iff_iff]
  simp only [List.any_eq_true, decide_eq_true_eq, List.mem_map]
  constructor
  · rintro ⟨e, he, rfl⟩; exact ⟨e, he, rfl⟩
  · rintro ⟨e, he, rfl⟩; exact ⟨e, he, rfl⟩

theorem run_new_field {L : Level} (es : List Ent) (hes : ∀ e ∈ es, e ∈ vocab L) (hnd : (es.map (·.m)).Nodup) (m : M2) :
    ((runEnts Obj2.new es).field m ≠ 0 ↔ m ∈ es.map (·.m)) ∧
    (∀ e ∈ es, e.m = m → (runEnts Obj2.new es).field m = e.x) := by
  rw [run_field _ _ hnd]
  cases hfind : es.find? (fun e => decide (e.m = m)) with
  | some e' =>
    have hmem := List.mem_of_find?_eq_some hfind
    have hem : e'.m = m := by simpa using List.find?_some hfind
    obtain ⟨_, hp⟩ := mem_vocab.mp (hes e' hmem)
    refine ⟨⟨fun _ => List.mem_map.mpr ⟨e', hmem, hem⟩, fun _ => (code_facts e'.m _ hp).1⟩, ?_⟩
    intro e he hm
    have : e = e' := nodup_map_inj hnd he hmem (hm.trans hem.symm)
    rw [this]
  | none =>
    refine ⟨⟨fun h => absurd rfl h, ?_⟩, ?_⟩
    · intro hm
      obtain ⟨e, he, hem⟩ := List.mem_map.mp hm
      have := List.find?_eq_none.mp hfind e he
      simp [hem] at this
    · intro e he hm
      have := List.find?_eq_none.mp hfind e he
      simp [hm] at this

theorem tokOf_run {L : Level} (es : List Ent) (hes : ∀ e ∈ es, e ∈ vocab L) (hnd : (es.map (·.m)).Nodup)
    (e : Ent) (he : e ∈ es) : tokOf e.m (runEnts Obj2.new es) = e.tok := by
  unfold tokOf Ent.tok
  rw [(run_new_field es hes hnd e.m).2 e he rfl]
  obtain ⟨_, hp⟩ := mem_vocab.mp (hes e he)
  rw [str_value hp]
  simp

end CvssVerif.V2

namespace CvssVerif.V2
open CvssVerif

theorem getErrorBase_none_iff' (o : Obj2) (hz : ∀ m, (o.field m == 0) = !o.named m) :
    getErrorBase o = none ↔ (baseMs.any fun m => !o.named m) = false := by
  unfold getErrorBase
  simp only [hz]
  cases h : (baseMs.any fun m => !o.named m) <;> simp

theorem hasPattern_run (es : List Ent) (t e : Bool) (h : es.map (·.m) = groups t e) :
    HasPattern (runEnts Obj2.new es) t e := by
  intro m; rw [run_new_named, h]

/-- validity of an object whose names form a group pattern and whose named fields are non-zero -/
theorem getError_pattern {L : Level} {o : Obj2} {t e : Bool} (h : HasPattern o t e)
    (hf : ∀ m, o.field m ≠ 0 ↔ o.named m = true) : getError L o = none := by
  have hz : ∀ m, (o.field m == 0) = !o.named m := by
    intro m
    by_cases h0 : o.field m = 0
    · have : o.named m = false := by
        cases hn : o.named m
        · rfl
        · exact absurd h0 ((hf m).mpr hn)
      simp [h0, this]
    · have : o.named m = true := (hf m).mp h0
      simp [h0, this]
  have hn : o.named = fun m => decide (m ∈ groups t e) := funext h
  have hb : getErrorBase o = none := by
    unfold getErrorBase
    simp only [hz, hn]
    cases t <;> cases e <;> decide
  have ht : getErrorTemporal o = none := by
    unfold getErrorTemporal tempEmpty
    rw [hb]
    simp only [hz, hn]
    cases t <;> cases e <;> decide
  have he : getErrorEnv o = none := by
    unfold getErrorEnv envEmpty
    rw [ht]
    simp only [hz, hn]
    cases t <;> cases e <;> decide
  cases L
  · exact hb
  · exact ht
  · exact he

/-- conversely: a valid object whose names lie within the level and whose named fields are
    exactly the non-zero ones has a group pattern -/
theorem pattern_of_getError {L : Level} {o : Obj2} (hge : getError L o = none)
    (hsub : ∀ m, o.named m = true → m ∈ msOf L)
    (hf : ∀ m, o.field m ≠ 0 ↔ o.named m = true) :
    HasPattern o (o.named .E) (o.named .CDP) ∧
      (o.named .E = true → Level.temporal.le L = true) ∧ (o.named .CDP = true → Level.environmental.le L = true) := by
  have hz : ∀ m, (o.field m == 0) = !o.named m := by
    intro m
    by_cases h0 : o.field m = 0
    · have : o.named m = false := by
        cases hn : o.named m
        · rfl
        · exact absurd h0 ((hf m).mpr hn)
      simp [h0, this]
    · have : o.named m = true := (hf m).mp h0
      simp [h0, this]
  -- express everything through the 14 name bits and decide
  have key : ∀ (nm : M2 → Bool),
      (match L with
        | .base => (baseMs.any fun m => !nm m) = false
        | .temporal => (baseMs.any fun m => !nm m) = false ∧
            ((!tempMs.any nm) = true ∨ (tempMs.any fun m => !nm m) = false)
        | .environmental => (baseMs.any fun m => !nm m) = false ∧
            ((!tempMs.any nm) = true ∨ (tempMs.any fun m => !nm m) = false) ∧
            ((!envMs.any nm) = true ∨ (envMs.any fun m => !nm m) = false)) →
      (∀ m, nm m = true → m ∈ msOf L) →
      (∀ m, nm m = decide (m ∈ groups (nm .E) (nm .CDP))) ∧
        (nm .E = true → Level.temporal.le L = true) ∧ (nm .CDP = true → Level.environmental.le L = true) := by
    intro nm hcond hs
    have b : ∀ m ∈ baseMs, nm m = true := by
      intro m hm
      have : (baseMs.any fun m => !nm m) = false := by cases L <;> first | exact hcond | exact hcond.1
      rw [List.any_eq_false] at this
      have := this m hm
      simpa using this
    have tsame : ∀ m ∈ tempMs, nm m = nm .E := by
      intro m hm
      cases L
      · have h1 : nm m = false := by
          cases hv : nm m
          · rfl
          · exact absurd (hs m hv) (by revert hm; cases m <;> decide)
        have h2 : nm .E = false := by
          cases hv : nm .E
          · rfl
          · exact absurd (hs _ hv) (by decide)
        rw [h1, h2]
      all_goals
        have hc : (!tempMs.any nm) = true ∨ (tempMs.any fun m => !nm m) = false := by
          first | exact hcond.2 | exact hcond.2.1
        rcases hc with hc | hc
        · have : tempMs.any nm = false := by simpa using hc
          rw [List.any_eq_false] at this
          have h1 := this m hm
          have h2 := this .E (by decide)
          simp only [Bool.not_eq_true] at h1 h2
          rw [h1, h2]
        · rw [List.any_eq_false] at hc
          have h1 := hc m hm
          have h2 := hc .E (by decide)
          simp only [Bool.not_eq_true', Bool.not_eq_false] at h1 h2
          rw [h1, h2]
    have esame : ∀ m ∈ envMs, nm m = nm .CDP := by
      intro m hm
      cases L
      case environmental =>
        rcases hcond.2.2 with hc | hc
        · have : envMs.any nm = false := by simpa using hc
          rw [List.any_eq_false] at this
          have h1 := this m hm
          have h2 := this .CDP (by decide)
          simp only [Bool.not_eq_true] at h1 h2
          rw [h1, h2]
        · rw [List.any_eq_false] at hc
          have h1 := hc m hm
          have h2 := hc .CDP (by decide)
          simp only [Bool.not_eq_true', Bool.not_eq_false] at h1 h2
          rw [h1, h2]
      all_goals
        have h1 : nm m = false := by
          cases hv : nm m
          · rfl
          · exact absurd (hs m hv) (by revert hm; cases m <;> decide)
        have h2 : nm .CDP = false := by
          cases hv : nm .CDP
          · rfl
          · exact absurd (hs _ hv) (by decide)
        rw [h1, h2]
    refine ⟨?_, ?_, ?_⟩
    · intro m
      by_cases h1 : m ∈ baseMs
      · rw [b m h1]
        cases nm .E <;> cases nm .CDP <;> revert h1 <;> cases m <;> decide
      · by_cases h2 : m ∈ tempMs
        · rw [tsame m h2]
          cases nm .E <;> cases nm .CDP <;> revert h2 <;> cases m <;> decide
        · have h3 : m ∈ envMs := by revert h1 h2; cases m <;> decide
          rw [esame m h3]
          cases nm .E <;> cases nm .CDP <;> revert h3 <;> cases m <;> decide
    · intro h
      have := hs _ h
      cases L <;> first | decide | exact absurd this (by decide)
    · intro h
      have := hs _ h
      cases L <;> first | decide | exact absurd this (by decide)
  apply key o.named ?_ hsub
  cases L
  · have := getErrorBase_none_iff' o hz
    exact this.mp hge
  · have hge : getErrorTemporal o = none := hge
    unfold getErrorTemporal at hge
    cases hb : getErrorBase o with
    | some x => simp [hb] at hge
    | none =>
      rw [hb] at hge
      refine ⟨(getErrorBase_none_iff' o hz).mp hb, ?_⟩
      simp only at hge
      unfold tempEmpty at hge
      by_cases h1 : (!tempMs.any o.named) = true
      · exact Or.inl h1
      · right
        simp only [h1, Bool.false_eq_true, if_false] at hge
        simp only [hz] at hge
        by_cases h2 : (tempMs.any fun m => !o.named m) = true
        · simp [h2] at hge
        · simpa using h2
  · have hge : getErrorEnv o = none := hge
    unfold getErrorEnv getErrorTemporal at hge
    cases hb : getErrorBase o with
    | some x => simp [hb] at hge
    | none =>
      rw [hb] at hge
      simp only at hge
      unfold tempEmpty envEmpty at hge
      simp only [hz] at hge
      refine ⟨(getErrorBase_none_iff' o hz).mp hb, ?_, ?_⟩
      · by_cases h1 : (!tempMs.any o.named) = true
        · exact Or.inl h1
        · right
          by_cases h2 : (tempMs.any fun m => !o.named m) = true
          · simp [h1, h2] at hge
          · simpa using h2
      · by_cases h0 : ((!tempMs.any o.named) = true ∨ (tempMs.any fun m => !o.named m) = false)
        · have ht : (if (!tempMs.any o.named) = true then none
              else if (tempMs.any fun m => !o.named m) = true then some Err.noTemporalMetrics else none) = none := by
            rcases h0 with h0 | h0
            · simp [h0]
            · by_cases h9 : (!tempMs.any o.named) = true
              · simp [h9]
              · simp [h9, h0]
          rw [ht] at hge
          simp only at hge
          by_cases h1 : (!envMs.any o.named) = true
          · exact Or.inl h1
          · right
            by_cases h2 : (envMs.any fun m => !o.named m) = true
            · simp [h1, h2] at hge
            · simpa using h2
        · exfalso
          have h1 : ¬ (!tempMs.any o.named) = true := fun h => h0 (Or.inl h)
          have h2 : (tempMs.any fun m => !o.named m) = true := by
            cases hh : (tempMs.any fun m => !o.named m)
            · exact absurd (Or.inr hh) h0
            · rfl
          simp [h1, h2] at hge

end CvssVerif.V2

namespace CvssVerif.V2
open CvssVerif

/-- Acceptance, with the object left behind: a fresh level-`L` v2 decoder accepts `s` exactly when
    `s` splits at '/' into table entries for a group pattern the level allows; the object is the
    fold of the entries over a fresh object. -/
theorem decode_ok_iff (L : Level) (s : Bytes) (o' : Obj2) :
    decode L Obj2.new s = (o', none) ↔
      ∃ (t e : Bool) (es : List Ent), (t = true → Level.temporal.le L = true) ∧
        (e = true → Level.environmental.le L = true) ∧ es.map (·.m) = groups t e ∧
        (∀ x ∈ es, (x.x, x.c) ∈ x.m.spec.codes) ∧ split slash s = es.map Ent.tok ∧
        o' = runEnts Obj2.new es := by
  constructor
  · intro h
    unfold decode at h
    split at h
    · cases h
    · rename_i o1 hloop
      obtain ⟨es, hes, hts, ⟨hnd, _⟩, rfl⟩ := (loop_ok_iff L _ _ o1).mp hloop
      split at h
      · cases h
      · rename_i enc henc
        split at h
        · cases h
        · rename_i heq
          have ho : runEnts Obj2.new es = o' := by
            have := congrArg Prod.fst h; simpa using this
          have hseq : s = enc := by
            cases hd : decide (s = enc)
            · exact absurd (of_decide_eq_false hd) (by simpa using heq)
            · exact of_decide_eq_true hd
          unfold encode at henc
          have hge : getError L (runEnts Obj2.new es) = none := congrArg Prod.snd henc
          have hstr : encodeStr L (runEnts Obj2.new es) = enc := congrArg Prod.fst henc
          have hf : ∀ m, (runEnts Obj2.new es).field m ≠ 0 ↔ (runEnts Obj2.new es).named m = true := by
            intro m
            rw [run_new_named, (run_new_field es hes hnd m).1]
            simp
          have hsub : ∀ m, (runEnts Obj2.new es).named m = true → m ∈ msOf L := by
            intro m hm
            rw [run_new_named] at hm
            obtain ⟨x, hx, rfl⟩ := List.mem_map.mp (of_decide_eq_true hm)
            exact (mem_vocab.mp (hes x hx)).1
          obtain ⟨hpat, ht, he⟩ := pattern_of_getError hge hsub hf
          generalize ht0 : (runEnts Obj2.new es).named .E = t at hpat ht
          generalize he0 : (runEnts Obj2.new es).named .CDP = e at hpat he
          -- the canonical entries in group order
          let ces : List Ent := (groups t e).map fun m =>
            ⟨m, (runEnts Obj2.new es).field m, m.spec.str ((runEnts Obj2.new es).field m)⟩
          have hmem : ∀ m ∈ groups t e, ∃ x ∈ es, x.m = m := by
            intro m hm
            have := hpat m
            rw [run_new_named] at this
            have hm' : m ∈ es.map (·.m) := by
              have h2 : decide (m ∈ es.map (·.m)) = true := by rw [this]; exact decide_eq_true hm
              exact of_decide_eq_true h2
            obtain ⟨x, hx, hxm⟩ := List.mem_map.mp hm'
            exact ⟨x, hx, hxm⟩
          have hces_tok : ces.map Ent.tok = (groups t e).map fun m => tokOf m (runEnts Obj2.new es) := by
            simp only [ces, List.map_map]
            apply List.map_congr_left
            intro m _
            simp [Ent.tok, tokOf]
          have hces_codes : ∀ x ∈ ces, (x.x, x.c) ∈ x.m.spec.codes := by
            intro x hx
            obtain ⟨m, hm, rfl⟩ := List.mem_map.mp hx
            obtain ⟨y, hy, hym⟩ := hmem m hm
            obtain ⟨_, hp⟩ := mem_vocab.mp (hes y hy)
            simp only
            rw [(run_new_field es hes hnd m).2 y hy hym, ← hym, str_value hp]
            exact hp
          have hces_vocab : ∀ x ∈ ces, x ∈ vocab L := by
            intro x hx
            refine mem_vocab.mpr ⟨?_, hces_codes x hx⟩
            obtain ⟨m, hm, rfl⟩ := List.mem_map.mp hx
            exact groups_sub L t e ht he m hm
          have hsplit : split slash s = ces.map Ent.tok := by
            rw [hseq, ← hstr, encodeStr_pattern hpat ht he, ← hces_tok]
            unfold split join
            apply List.splitOn_intercalate
            · intro l hl
              obtain ⟨x, hx, rfl⟩ := List.mem_map.mp hl
              exact slash_not_mem_tok (hces_vocab x hx)
            · cases t <;> cases e <;> simp [ces, groups, baseMs]
          have hcm : ces.map (·.m) = groups t e := by
            simp only [ces, List.map_map, Function.comp_def, List.map_id']
          refine ⟨t, e, ces, ht, he, hcm, hces_codes, hsplit, ?_⟩
          -- the two runs agree: same names, same fields
          rw [← ho]
          have hnd2 : (ces.map (·.m)).Nodup := by rw [hcm]; exact groups_nodup t e
          have hnamed : ∀ m, (runEnts Obj2.new es).named m = (runEnts Obj2.new ces).named m := by
            intro m; rw [hpat m, run_new_named, hcm]
          have hfield : ∀ m, (runEnts Obj2.new es).field m = (runEnts Obj2.new ces).field m := by
            intro m
            by_cases hm : m ∈ groups t e
            · have hx : (⟨m, (runEnts Obj2.new es).field m, m.spec.str ((runEnts Obj2.new es).field m)⟩ : Ent) ∈ ces :=
                List.mem_map.mpr ⟨m, hm, rfl⟩
              rw [(run_new_field ces hces_vocab hnd2 m).2 _ hx rfl]
            · have h1 : (runEnts Obj2.new es).field m = 0 := by
                have := (hf m)
                have hn : (runEnts Obj2.new es).named m = false := by rw [hpat m]; exact decide_eq_false hm
                cases hz : decide ((runEnts Obj2.new es).field m = 0)
                · exact absurd (this.mp (of_decide_eq_false hz)) (by simp [hn])
                · exact of_decide_eq_true hz
              have h2 : (runEnts Obj2.new ces).field m = 0 := by
                have := (run_new_field ces hces_vocab hnd2 m).1
                rw [hcm] at this
                cases hz : decide ((runEnts Obj2.new ces).field m = 0)
                · exact absurd (this.mp (of_decide_eq_false hz)) hm
                · exact of_decide_eq_true hz
              rw [h1, h2]
          have : ∀ a b : Obj2, (∀ m, a.named m = b.named m) → (∀ m, a.field m = b.field m) → a = b := by
            intro a b h1 h2
            cases a; cases b
            simp only [Obj2.mk.injEq]
            exact ⟨funext h2, funext h1⟩
          exact this _ _ hnamed hfield
  · rintro ⟨t, e, es, ht, he, hm, hcodes, hsplit, rfl⟩
    have hes : ∀ x ∈ es, x ∈ vocab L := by
      intro x hx
      refine mem_vocab.mpr ⟨groups_sub L t e ht he _ ?_, hcodes x hx⟩
      rw [← hm]; exact List.mem_map.mpr ⟨x, hx, rfl⟩
    have hnd : (es.map (·.m)).Nodup := by rw [hm]; exact groups_nodup t e
    have hloop : decodeLoop L Obj2.new none (split slash s) = (runEnts Obj2.new es, none) := by
      rw [hsplit]
      exact (loop_ok_iff L _ _ _).mpr ⟨es, hes, rfl, ⟨hnd, fun _ _ => rfl⟩, rfl⟩
    have hpat := hasPattern_run es t e hm
    have hf : ∀ m, (runEnts Obj2.new es).field m ≠ 0 ↔ (runEnts Obj2.new es).named m = true := by
      intro m
      rw [run_new_named, (run_new_field es hes hnd m).1]
      simp
    have hge := getError_pattern (L := L) hpat hf
    have hstr : encodeStr L (runEnts Obj2.new es) = s := by
      rw [encodeStr_pattern hpat ht he, ← hm, List.map_map]
      have : es.map ((fun m => tokOf m (runEnts Obj2.new es)) ∘ fun x => x.m) = es.map Ent.tok := by
        apply List.map_congr_left
        intro x hx
        exact tokOf_run es hes hnd x hx
      rw [this, ← hsplit]
      exact List.intercalate_splitOn slash
    unfold decode
    rw [hloop]
    simp only
    unfold encode
    rw [hge, hstr]
    simp

end CvssVerif.V2
