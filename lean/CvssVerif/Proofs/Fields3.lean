import CvssVerif.Proofs.Accept3
/-
  v3: what an accepted string leaves in the object (C09) and how it encodes (C10).
-/
namespace CvssVerif.V3
open CvssVerif

/-! ### which token names a metric -/

theorem prefix_name {a b c : Bytes} (ha : colon ∉ a) (hb : colon ∉ b)
    (h : (a ++ [colon]).isPrefixOf (b ++ colon :: c) = true) : a = b := by
  induction a generalizing b with
  | nil =>
    cases b with
    | nil => rfl
    | cons y ys =>
      simp only [List.nil_append, List.cons_append, List.isPrefixOf, Bool.and_eq_true, beq_iff_eq] at h
      exact absurd (h.1 ▸ List.mem_cons_self) hb
  | cons x xs ih =>
    cases b with
    | nil =>
      simp only [List.cons_append, List.nil_append, List.isPrefixOf, Bool.and_eq_true, beq_iff_eq] at h
      exact absurd (h.1 ▸ List.mem_cons_self) ha
    | cons y ys =>
      simp only [List.cons_append, List.isPrefixOf, Bool.and_eq_true, beq_iff_eq] at h
      rw [h.1, ih (fun hx => ha (List.mem_cons_of_mem _ hx)) (fun hy => hb (List.mem_cons_of_mem _ hy)) h.2]

theorem prefix_self (a c : Bytes) : (a ++ [colon]).isPrefixOf (a ++ colon :: c) = true := by
  induction a with
  | nil => simp [List.isPrefixOf]
  | cons x xs ih => simp [List.isPrefixOf, ih]

theorem named_tok (m : M3) (e : Ent) : Spec3.named (specOf m) e.tok = decide (e.m = m) := by
  unfold Spec3.named Ent.tok
  rw [specOf_name]
  by_cases h : e.m = m
  · subst h; simp [prefix_self]
  · simp only [h, decide_false]
    cases hp : (m.spec.name ++ [colon]).isPrefixOf (e.m.spec.name ++ colon :: e.c)
    · rfl
    · exact absurd (names_inj (prefix_name (colon_not_mem_name m) (colon_not_mem_name e.m) hp)).symm h

theorem drop_name (e : Ent) : e.tok.drop (e.m.spec.name.length + 1) = e.c := by
  unfold Ent.tok
  induction e.m.spec.name with
  | nil => simp
  | cons x xs ih => simpa using ih

/-- the specification's "written code" of a metric in a string made of vocabulary tokens -/
theorem written_eq (m : M3) (s hd : Bytes) (es : List Ent) (h : split slash s = hd :: es.map Ent.tok) :
    Spec3.written (specOf m) s = (es.find? (fun e => decide (e.m = m))).map (·.c) := by
  unfold Spec3.written
  rw [h, List.tail_cons]
  clear h
  induction es with
  | nil => simp
  | cons e es ih =>
    rw [List.map_cons, List.find?_cons, List.find?_cons, named_tok]
    by_cases hm : e.m = m
    · simp only [hm, decide_true, Option.map_some, specOf_name]
      rw [← hm, drop_name]
    · simp only [hm, decide_false]
      exact ih

theorem init_code (m : M3) (h : m.spec.level ≠ .base) : m.spec.str m.spec.init = b!"X" := by
  cases m <;> first | rfl | exact absurd rfl h
theorem init_in_codes (m : M3) (h : m.spec.level ≠ .base) : (m.spec.init, b!"X") ∈ m.spec.codes := by
  cases m <;> first | decide | exact absurd rfl h

/-- **C09 (v3).** After an accepted decode, the object's version label is the one written in the
    prefix and every metric field of the decoder's level holds the value whose code is the one
    written for that metric — Not Defined (X) for an unwritten temporal/environmental metric. -/
theorem decode_fields {L : Level} {s : Bytes} {o : Obj3} (h : decode L Obj3.new s = (o, none)) :
    verStr o.ver = Spec3.label s ∧
    ∀ m ∈ msOf L, (o.field m, Spec3.expectedCode (specOf m) s) ∈ m.spec.codes := by
  obtain ⟨hd, es, hsplit, hpre, hes, hnd, hbase, rfl⟩ := (decode_ok_iff L s o).mp h
  constructor
  · rw [run_ver]
    unfold Spec3.label
    rw [hsplit]
    exact (getVersion_label hpre).2.2
  · intro m hm
    unfold Spec3.expectedCode
    rw [written_eq m s hd es hsplit, run_field _ _ hnd]
    cases hfind : es.find? (fun e => decide (e.m = m)) with
    | some e =>
      have hmem := List.mem_of_find?_eq_some hfind
      have hem : e.m = m := by simpa using List.find?_some hfind
      obtain ⟨_, hp⟩ := mem_vocab.mp (hes e hmem)
      simp only [Option.map_some, Option.getD_some]
      rw [← hem]; exact hp
    | none =>
      simp only [Option.map_none, Option.getD_none]
      have hlev : m.spec.level ≠ .base := by
        intro hb
        obtain ⟨e, he, hem⟩ := hbase m ((baseMs_iff m).mpr hb)
        have := List.find?_eq_none.mp hfind e he
        simp [hem] at this
      exact init_in_codes m hlev

/-- order independence: two accepted strings with the same prefix whose token lists are
    permutations of each other leave identical objects (version, every field, every name) -/
theorem decode_perm {L : Level} {s s' hd : Bytes} {toks toks' : List Bytes} {o o' : Obj3}
    (h : decode L Obj3.new s = (o, none)) (h' : decode L Obj3.new s' = (o', none))
    (hs : split slash s = hd :: toks) (hs' : split slash s' = hd :: toks') (hp : toks.Perm toks') :
    o.ver = o'.ver ∧ (∀ m, o.field m = o'.field m) ∧ (∀ m, o.named m = o'.named m) := by
  obtain ⟨hd1, es, hsplit, _, hes, hnd, _, rfl⟩ := (decode_ok_iff L s o).mp h
  obtain ⟨hd2, es', hsplit', _, hes', hnd', _, rfl⟩ := (decode_ok_iff L s' o').mp h'
  rw [hs] at hsplit; rw [hs'] at hsplit'
  obtain ⟨rfl, rfl⟩ := List.cons.inj hsplit
  obtain ⟨rfl, rfl⟩ := List.cons.inj hsplit'
  -- membership in es and es' coincide for entries (tokens determine entries)
  have tok_inj : ∀ e e' : Ent, e ∈ vocab L → e' ∈ vocab L → e.tok = e'.tok → e = e' := by
    intro e e' he he' ht
    have hn : e.m = e'.m := names_inj (by rw [← nameOf_tok e, ← nameOf_tok e', ht])
    have hc : e.c = e'.c := by rw [← drop_name e, ← drop_name e', ht, hn]
    obtain ⟨_, hp1⟩ := mem_vocab.mp he
    obtain ⟨_, hp2⟩ := mem_vocab.mp he'
    have hx : e.x = e'.x := by
      have := get_code hp1; have := get_code hp2
      rw [← get_code hp1, ← get_code hp2, hn, hc]
    cases e; cases e'; simp_all
  have mem_iff : ∀ e ∈ vocab L, e ∈ es ↔ e ∈ es' := by
    intro e he
    constructor
    · intro h1
      have : e.tok ∈ es'.map Ent.tok := hp.mem_iff.mp (List.mem_map.mpr ⟨e, h1, rfl⟩)
      obtain ⟨e', he', ht⟩ := List.mem_map.mp this
      rw [← tok_inj e' e (hes' e' he') he ht]; exact he'
    · intro h1
      have : e.tok ∈ es.map Ent.tok := hp.mem_iff.mpr (List.mem_map.mpr ⟨e, h1, rfl⟩)
      obtain ⟨e', he', ht⟩ := List.mem_map.mp this
      rw [← tok_inj e' e (hes e' he') he ht]; exact he'
  refine ⟨by rw [run_ver, run_ver], ?_, ?_⟩
  · intro m
    rw [run_field _ _ hnd, run_field _ _ hnd']
    cases h1 : es.find? (fun e => decide (e.m = m)) with
    | some e =>
      have he := List.mem_of_find?_eq_some h1
      have hem : e.m = m := by simpa using List.find?_some h1
      have he' := (mem_iff e (hes e he)).mp he
      have : es'.find? (fun e => decide (e.m = m)) = some e := by
        apply find?_unique he' (by simp [hem])
        intro x hx hxm
        exact nodup_map_inj hnd' hx he' (by simpa [hem] using hxm)
      rw [this]
    | none =>
      cases h2 : es'.find? (fun e => decide (e.m = m)) with
      | some e' =>
        have he' := List.mem_of_find?_eq_some h2
        have hem : e'.m = m := by simpa using List.find?_some h2
        have := List.find?_eq_none.mp h1 e' ((mem_iff e' (hes' e' he')).mpr he')
        simp [hem] at this
      | none => rfl
  · intro m
    rw [run_named, run_named]
    congr 1
    rw [Bool.eq_iff_iff]
    simp only [List.any_eq_true, decide_eq_true_eq]
    constructor
    · rintro ⟨e, he, rfl⟩; exact ⟨e, (mem_iff e (hes e he)).mp he, rfl⟩
    · rintro ⟨e, he, rfl⟩; exact ⟨e, (mem_iff e (hes' e he)).mpr he, rfl⟩

end CvssVerif.V3
