import CvssVerif.Proofs.Gen.MissCls
/-
  The 343 ordered triples of requirement×impact products fall into few classes with the same
  modified impact sub-score (same double *and* same exact value); the stage checks run once per
  class representative.  `missCls` / `missRep` are generated certificates; `missCls_ok`
  re-derives every entry in the kernel.
-/
namespace CvssVerif.P3
open CvssVerif Spec3 V3 F64

def missClsCheck (a b c : P7) : Bool :=
  let r := missRep (missCls a b c)
  decide (missCls a b c < nMissCls) &&
  missF (p7F a) (p7F b) (p7F c) == missF (p7F r.1) (p7F r.2.1) (p7F r.2.2) &&
  decide (missQ a b c = missQ r.1 r.2.1 r.2.2)

set_option maxRecDepth 1000000 in
theorem missCls_all : (Enum.all (α := P7 × P7 × P7)).all (fun k => missClsCheck k.1 k.2.1 k.2.2) = true := by
  decide +kernel

theorem missCls_ok (a b c : P7) :
    missCls a b c < nMissCls ∧
    missF (p7F a) (p7F b) (p7F c)
      = missF (p7F (missRep (missCls a b c)).1) (p7F (missRep (missCls a b c)).2.1) (p7F (missRep (missCls a b c)).2.2) ∧
    missQ a b c = missQ (missRep (missCls a b c)).1 (missRep (missCls a b c)).2.1 (missRep (missCls a b c)).2.2 := by
  have h := forall_of_all _ missCls_all (a, b, c)
  simp only [missClsCheck, Bool.and_eq_true, beq_iff_eq, decide_eq_true_eq] at h
  exact ⟨h.1.1, h.1.2, h.2⟩

/-- the stage check of class `i` for a (version, scope) -/
def chkEnvI (ver : Spec3.Ver) (sc : Spec3.Sc) (i : Nat) : Bool :=
  chkEnv ver sc (missRep i).1 (missRep i).2.1 (missRep i).2.2

end CvssVerif.P3
