import CvssVerif.Model.V3
import CvssVerif.Model.V2
/-
  The model files carry the `float64` constants and weight tables as literal bit patterns (so
  that the kernel does not re-convert a decimal at every use).  Every literal is the correctly
  rounded value of the decimal constant in the Go source — which is what the Go compiler
  produces for an untyped constant.
-/
namespace CvssVerif.Consts
open CvssVerif F64

theorem f64_consts :
    one = ofNat 1 ∧ half = ofDec 5 1 ∧ ten = ofNat 10 ∧ hundred = ofNat 100 ∧ c1e4 = ofNat 10000 ∧
    c1e5 = ofNat 100000 ∧ four = ofNat 4 ∧ seven = ofNat 7 ∧ nine = ofNat 9 := by decide +kernel

theorem v3_consts :
    V3.c642 = ofDec 642 2 ∧ V3.c752 = ofDec 752 2 ∧ V3.c0029 = ofDec 29 3 ∧ V3.c325 = ofDec 325 2 ∧
    V3.c002 = ofDec 2 2 ∧ V3.c822 = ofDec 822 2 ∧ V3.c108 = ofDec 108 2 ∧ V3.c0915 = ofDec 915 3 ∧
    V3.c09731 = ofDec 9731 4 := by decide +kernel

theorem v3_weights :
    V3.wAV = [(1, ofDec 20 2), (2, ofDec 55 2), (3, ofDec 62 2), (4, ofDec 85 2)] ∧
    V3.wAC = [(1, ofDec 44 2), (2, ofDec 77 2)] ∧
    V3.wPRU = [(1, ofDec 27 2), (2, ofDec 62 2), (3, ofDec 85 2)] ∧
    V3.wPRC = [(1, ofDec 50 2), (2, ofDec 68 2), (3, ofDec 85 2)] ∧
    V3.wUI = [(1, ofDec 62 2), (2, ofDec 85 2)] ∧
    V3.wCIA = [(1, ofDec 0 2), (2, ofDec 22 2), (3, ofDec 56 2)] ∧
    V3.wE = [(1, ofNat 1), (2, ofDec 91 2), (3, ofDec 94 2), (4, ofDec 97 2), (5, ofNat 1)] ∧
    V3.wRL = [(1, ofNat 1), (2, ofDec 95 2), (3, ofDec 96 2), (4, ofDec 97 2), (5, ofNat 1)] ∧
    V3.wRC = [(1, ofNat 1), (2, ofDec 92 2), (3, ofDec 96 2), (4, ofNat 1)] ∧
    V3.wReq = [(1, ofNat 1), (2, ofDec 5 1), (3, ofNat 1), (4, ofDec 15 1)] ∧
    V3.wMAV = [(1, 0), (2, ofDec 20 2), (3, ofDec 55 2), (4, ofDec 62 2), (5, ofDec 85 2)] ∧
    V3.wMAC = [(1, 0), (2, ofDec 44 2), (3, ofDec 77 2)] ∧
    V3.wMPRU = [(1, 0), (2, ofDec 27 2), (3, ofDec 62 2), (4, ofDec 85 2)] ∧
    V3.wMPRC = [(1, 0), (2, ofDec 50 2), (3, ofDec 68 2), (4, ofDec 85 2)] ∧
    V3.wMUI = [(1, 0), (2, ofDec 62 2), (3, ofDec 85 2)] ∧
    V3.wMCIA = [(1, 0), (2, 0), (3, ofDec 22 2), (4, ofDec 56 2)] := by decide +kernel

theorem v2_consts :
    V2.c1041 = ofDec 1041 2 ∧ V2.c20 = ofNat 20 ∧ V2.c1176 = ofDec 1176 3 ∧ V2.c06 = ofDec 6 1 ∧
    V2.c04 = ofDec 4 1 ∧ V2.c15 = ofDec 15 1 := by decide +kernel

theorem v2_weights :
    V2.wAV = [(1, ofDec 395 3), (2, ofDec 646 3), (3, ofNat 1)] ∧
    V2.wAC = [(1, ofDec 35 2), (2, ofDec 61 2), (3, ofDec 71 2)] ∧
    V2.wAu = [(1, ofDec 704 3), (2, ofDec 56 2), (3, ofDec 45 2)] ∧
    V2.wCIA = [(1, 0), (2, ofDec 275 3), (3, ofDec 66 2)] ∧
    V2.wE = [(1, ofNat 1), (2, ofDec 85 2), (3, ofDec 9 1), (4, ofDec 95 2), (5, ofNat 1)] ∧
    V2.wRL = [(1, ofNat 1), (2, ofDec 87 2), (3, ofDec 9 1), (4, ofDec 95 2), (5, ofNat 1)] ∧
    V2.wRC = [(1, ofNat 1), (2, ofDec 9 1), (3, ofDec 95 2), (4, ofNat 1)] ∧
    V2.wCDP = [(1, 0), (2, 0), (3, ofDec 1 1), (4, ofDec 3 1), (5, ofDec 4 1), (6, ofDec 5 1)] ∧
    V2.wTD = [(1, ofNat 1), (2, 0), (3, ofDec 25 2), (4, ofDec 75 2), (5, ofNat 1)] ∧
    V2.wReq = [(1, ofNat 1), (2, ofDec 5 1), (3, ofNat 1), (4, ofDec 151 2)] := by decide +kernel

end CvssVerif.Consts
