/- The source-translated score and severity functions (`Generated/Formulas.lean`, rewritten from /repo on every run by
   go/formulas) are the model's.  Every theorem of C01–C06 and C13 is stated about the model's functions; these
   equalities carry them over to the text of the Go functions as it is now. -/
import CvssVerif.Generated.Formulas

namespace CvssVerif.FormulaTie
open CvssVerif CvssVerif.F64

theorem cbv_eq {α : Type} (n : Nat) (k : Nat → α) : cbv n k = k n := by
  unfold cbv; cases n <;> rfl

/-! ### v3 -/
section v3
open CvssVerif.V3

theorem roundUp3 (x : Nat) : Gen.F3.roundUp x = V3.roundUp x := by
  unfold Gen.F3.roundUp V3.roundUp
  simp only [cbv_eq, decide_eq_true_eq]
  rfl

theorem severity3 (x : Nat) : Gen.F3.severity x = V3.severityF x := by
  unfold Gen.F3.severity V3.severityF
  rfl

theorem base3 (o : Obj3) : Gen.F3.Base_Score o = V3.baseScore o := by
  unfold Gen.F3.Base_Score V3.baseScore
  cases h : getErrorBase o with
  | some e => simp
  | none =>
    simp only [Option.isSome_none, Bool.false_eq_true, ↓reduceIte]
    unfold baseScoreF baseCore impactBaseF combine easeF issF
    simp only [cbv_eq, roundUp3]
    cases hs : (o.field M3.S == 2) <;> simp <;> rfl

theorem temporal3 (o : Obj3) : Gen.F3.Temporal_Score o = V3.temporalScore o := by
  unfold Gen.F3.Temporal_Score V3.temporalScore
  cases h : getErrorTemporal o with
  | some e => simp
  | none =>
    simp only [Option.isSome_none, Bool.false_eq_true, ↓reduceIte, base3, roundUp3]
    rfl

theorem env3 (o : Obj3) : Gen.F3.Environmental_Score o = V3.envScore o := by
  unfold Gen.F3.Environmental_Score V3.envScore
  cases h : getErrorEnv o with
  | some e => simp
  | none =>
    simp only [Option.isSome_none, Bool.false_eq_true, ↓reduceIte]
    unfold envScoreF envCore modImpactF combine easeF missF temporalF
    simp only [cbv_eq, roundUp3]
    cases hs : msIsChanged (o.field M3.MS) (o.field M3.S) <;> simp
    · rfl
    · by_cases hv : o.ver = 2 <;> simp [hv] <;> rfl

end v3

/-! ### v2 -/
section v2
open CvssVerif.V2

theorem roundTo1 (x : Nat) : Gen.F2.roundTo1Decimal x = V2.roundTo1 x := rfl
theorem roundTo2 (x : Nat) : Gen.F2.roundTo2Decimal x = V2.roundTo2 x := rfl

theorem severity2 (x : Nat) : Gen.F2.severity x = V2.severityF x := by
  unfold Gen.F2.severity V2.severityF
  rfl

/-- `(*Base).score(impact)`: the validity test and the equation -/
theorem baseOf2 (o : Obj2) (impact : Nat) :
    Gen.F2.Base_score o impact =
      (match getErrorBase o with
       | some _ => 0
       | none => scoreOfImpact impact (o.field M2.AV) (o.field M2.AC) (o.field M2.Au)) := by
  unfold Gen.F2.Base_score
  cases h : getErrorBase o with
  | some e => simp
  | none =>
    simp only [Option.isSome_none, Bool.false_eq_true, ↓reduceIte]
    unfold scoreOfImpact
    simp only [cbv_eq, roundTo1, roundTo2]
    cases hi : F64.eq impact 0 <;> simp <;> rfl

theorem base2 (o : Obj2) : Gen.F2.Base_Score o = V2.baseScore o := by
  unfold Gen.F2.Base_Score V2.baseScore
  cases h : getErrorBase o with
  | some e => simp
  | none =>
    simp only [Option.isSome_none, Bool.false_eq_true, ↓reduceIte, baseOf2, h, roundTo2]
    rfl

theorem temporalOf2 (o : Obj2) (bs : Nat) :
    Gen.F2.Temporal_score o bs = temporalOf bs (o.field M2.E) (o.field M2.RL) (o.field M2.RC) := by
  unfold Gen.F2.Temporal_score temporalOf
  simp only [roundTo1]

theorem temporal2 (o : Obj2) : Gen.F2.Temporal_Score o = V2.temporalScore o := by
  unfold Gen.F2.Temporal_Score V2.temporalScore
  cases h : getErrorTemporal o with
  | some e => simp
  | none => simp only [Option.isSome_none, Bool.false_eq_true, ↓reduceIte, base2, temporalOf2]

theorem env2 (o : Obj2) : Gen.F2.Environmental_Score o = V2.envScore o := by
  unfold Gen.F2.Environmental_Score V2.envScore
  cases h : getErrorEnv o with
  | some e => simp
  | none =>
    simp only [Option.isSome_none, Bool.false_eq_true, ↓reduceIte, base2, temporalOf2, baseOf2, roundTo1, roundTo2]
    unfold adjImpactF
    cases he : envEmpty o <;> cases ht : tempEmpty o <;> simp <;> rfl

end v2
end CvssVerif.FormulaTie
