/- The source-translated score and severity functions (`Generated/Formulas.lean`, rewritten from /repo on every run by
   go/formulas) are the model's.  Every theorem of C01–C06 and C13 is stated about the model's functions; these
   equalities carry them over to the text of the Go functions as it is now.

   Each proof tries the script written for the pinned tree first and then a generic one (`tie_leaves`) that does not
   depend on the shape of the control flow on the source side: a rewrite of the Go code that keeps every floating-point
   operation and its operands (helpers extracted, branches merged or split, early returns, switches) still checks. -/
import CvssVerif.Generated.Formulas
import CvssVerif.Proofs.F64Round

namespace CvssVerif.FormulaTie
open CvssVerif CvssVerif.F64

theorem cbv_eq {α : Type} (n : Nat) (k : Nat → α) : cbv n k = k n := by
  unfold cbv; cases n <;> rfl

/-- closes `source function = model function` after both sides have been unfolded, whatever the shape of the control
    flow on the source side: every `if`/`match` of either side is split and each leaf is closed by reflexivity or by the
    contradiction between the branch conditions -/
macro "tie_leaves_plain" : tactic => `(tactic|
  (try simp only [cbv_eq, decide_eq_true_eq]
   try simp only [V3.c642, V3.c752, V3.c0029, V3.c325, V3.c002, V3.c822, V3.c108, V3.c0915, V3.c09731,
     V2.c1041, V2.c20, V2.c1176, V2.c06, V2.c04, V2.c15,
     F64.one, F64.ten, F64.hundred, F64.c1e4, F64.c1e5, F64.four, F64.seven, F64.nine, F64.zero]
   repeat' split
   all_goals first
     | rfl
     | (simp_all; done)
     | (simp_all <;> rfl)))

/-- the same after both sides have been brought into a normal form for the commutativity of binary64 multiplication and addition
    (`Proofs/F64Round.lean`: `mul a b = mul b a`, `add a b = add b a`, bit for bit): `6.42 * x` written for `x * 6.42` is no change -/
macro "tie_leaves_comm" : tactic => `(tactic|
  (try simp only [cbv_eq, decide_eq_true_eq]
   try simp only [V3.c642, V3.c752, V3.c0029, V3.c325, V3.c002, V3.c822, V3.c108, V3.c0915, V3.c09731,
     V2.c1041, V2.c20, V2.c1176, V2.c06, V2.c04, V2.c15,
     F64.one, F64.ten, F64.hundred, F64.c1e4, F64.c1e5, F64.four, F64.seven, F64.nine, F64.zero]
   try simp only [F64.mul_comm', F64.add_comm']
   repeat' split
   all_goals first
     | rfl
     | (simp only [F64.mul_comm', F64.add_comm']; done)
     | (simp_all; done)
     | (simp_all only [F64.mul_comm', F64.add_comm']; done)
     | (simp_all <;> rfl)))

macro "tie_leaves" : tactic => `(tactic| first | tie_leaves_plain | tie_leaves_comm)

/-! ### v3 -/
section v3
open CvssVerif.V3

theorem roundUp3 (x : Nat) : Gen.F3.roundUp x = V3.roundUp x := by
  unfold Gen.F3.roundUp V3.roundUp
  first
    | (simp only [cbv_eq, decide_eq_true_eq]; rfl)
    | tie_leaves

theorem severity3 (x : Nat) : Gen.F3.severity x = V3.severityF x := by
  unfold Gen.F3.severity V3.severityF
  first
    | rfl
    | tie_leaves

theorem base3 (o : Obj3) : Gen.F3.Base_Score o = V3.baseScore o := by
  unfold Gen.F3.Base_Score V3.baseScore baseScoreF baseCore impactBaseF combine easeF issF
  try simp only [roundUp3]
  cases h : getErrorBase o <;> simp only [Option.isSome_none, Option.isSome_some] <;> tie_leaves

theorem temporal3 (o : Obj3) : Gen.F3.Temporal_Score o = V3.temporalScore o := by
  unfold Gen.F3.Temporal_Score V3.temporalScore temporalF
  try simp only [base3, roundUp3]
  cases h : getErrorTemporal o <;> simp only [Option.isSome_none, Option.isSome_some] <;> tie_leaves

theorem env3 (o : Obj3) : Gen.F3.Environmental_Score o = V3.envScore o := by
  unfold Gen.F3.Environmental_Score V3.envScore envScoreF envCore modImpactF combine easeF missF temporalF
  try simp only [base3, temporal3, roundUp3]
  cases h : getErrorEnv o <;> simp only [Option.isSome_none, Option.isSome_some] <;> tie_leaves

end v3

/-! ### v2 -/
section v2
open CvssVerif.V2

theorem roundTo1 (x : Nat) : Gen.F2.roundTo1Decimal x = V2.roundTo1 x := by
  unfold Gen.F2.roundTo1Decimal V2.roundTo1
  first | rfl | tie_leaves
theorem roundTo2 (x : Nat) : Gen.F2.roundTo2Decimal x = V2.roundTo2 x := by
  unfold Gen.F2.roundTo2Decimal V2.roundTo2
  first | rfl | tie_leaves

theorem severity2 (x : Nat) : Gen.F2.severity x = V2.severityF x := by
  unfold Gen.F2.severity V2.severityF
  first | rfl | tie_leaves

/-- `(*Base).score(impact)`: the validity test and the equation -/
theorem baseOf2 (o : Obj2) (impact : Nat) :
    Gen.F2.Base_score o impact =
      (match getErrorBase o with
       | some _ => 0
       | none => scoreOfImpact impact (o.field M2.AV) (o.field M2.AC) (o.field M2.Au)) := by
  unfold Gen.F2.Base_score scoreOfImpact
  try simp only [roundTo1, roundTo2]
  cases h : getErrorBase o <;> simp only [Option.isSome_none, Option.isSome_some] <;> tie_leaves

theorem base2 (o : Obj2) : Gen.F2.Base_Score o = V2.baseScore o := by
  unfold Gen.F2.Base_Score V2.baseScore impactF
  try simp only [baseOf2, roundTo1, roundTo2]
  cases h : getErrorBase o <;> simp only [Option.isSome_none, Option.isSome_some] <;> tie_leaves

theorem temporalOf2 (o : Obj2) (bs : Nat) :
    Gen.F2.Temporal_score o bs = temporalOf bs (o.field M2.E) (o.field M2.RL) (o.field M2.RC) := by
  unfold Gen.F2.Temporal_score temporalOf
  try simp only [roundTo1, roundTo2]
  try tie_leaves

theorem temporal2 (o : Obj2) : Gen.F2.Temporal_Score o = V2.temporalScore o := by
  unfold Gen.F2.Temporal_Score V2.temporalScore
  try simp only [base2, temporalOf2, roundTo1, roundTo2]
  cases h : getErrorTemporal o <;> simp only [Option.isSome_none, Option.isSome_some] <;> tie_leaves

set_option maxRecDepth 8000 in
theorem env2 (o : Obj2) : Gen.F2.Environmental_Score o = V2.envScore o := by
  unfold Gen.F2.Environmental_Score V2.envScore adjImpactF
  try simp only [base2, temporalOf2, baseOf2, roundTo1, roundTo2]
  cases h : getErrorEnv o <;> simp only [Option.isSome_none, Option.isSome_some] <;>
    cases he : envEmpty o <;> cases ht : tempEmpty o <;>
    (try simp only [Bool.false_eq_true, ↓reduceIte]) <;> tie_leaves

end v2
end CvssVerif.FormulaTie
