/-
  A heap of independent objects: generic non-interference facts used for C15 (history freedom)
  and C16 (any interleaving of disciplined threads equals sequential use).  Core Lean only.

  `σ : Nat → Obj` is the heap, an operation has a target object and an action on that object
  returning the new object and an output.  Nothing else is shared: that this describes go-cvss
  (no package-level state written after init, queries write nothing) is what the behavioural
  correspondence and the race detector runs check on the code.
-/
namespace CvssVerif.Indep

structure Op (Obj Out : Type) where
  tgt : Nat
  act : Obj → Obj × Out

variable {Obj Out : Type}

def upd (σ : Nat → Obj) (k : Nat) (o : Obj) : Nat → Obj := fun j => if j = k then o else σ j

def step (σ : Nat → Obj) (op : Op Obj Out) : (Nat → Obj) × Out :=
  let r := op.act (σ op.tgt)
  (upd σ op.tgt r.1, r.2)

/-- run a history; outputs are tagged with the target object -/
def run : (Nat → Obj) → List (Op Obj Out) → (Nat → Obj) × List (Nat × Out)
  | σ, [] => (σ, [])
  | σ, op :: ops =>
    let r := step σ op
    let rest := run r.1 ops
    (rest.1, (op.tgt, r.2) :: rest.2)

/-- run a list of actions on one object -/
def runObj : Obj → List (Obj → Obj × Out) → Obj × List Out
  | o, [] => (o, [])
  | o, a :: as =>
    let r := a o
    let rest := runObj r.1 as
    (rest.1, r.2 :: rest.2)

/-- **History freedom.** What a history does to object `k` and what it outputs about `k` is
    what the sub-history of the operations targeting `k` does to `k` alone, whatever else the
    process decoded, scored or reported in between. -/
theorem proj (k : Nat) (ops : List (Op Obj Out)) (σ : Nat → Obj) :
    (run σ ops).1 k = (runObj (σ k) ((ops.filter (·.tgt = k)).map (·.act))).1 ∧
    ((run σ ops).2.filter (·.1 = k)).map (·.2) = (runObj (σ k) ((ops.filter (·.tgt = k)).map (·.act))).2 := by
  induction ops generalizing σ with
  | nil => exact ⟨rfl, rfl⟩
  | cons op ops ih =>
    simp only [run, step]
    by_cases h : op.tgt = k
    · subst h
      have hk : upd σ op.tgt (op.act (σ op.tgt)).1 op.tgt = (op.act (σ op.tgt)).1 := by
        simp [upd]
      have := ih (upd σ op.tgt (op.act (σ op.tgt)).1)
      rw [hk] at this
      simp only [List.filter_cons, decide_true, if_true, List.map_cons, runObj]
      refine ⟨this.1, ?_⟩
      rw [this.2]
    · have hk : upd σ op.tgt (op.act (σ op.tgt)).1 k = σ k := by
        simp [upd, Ne.symm h]
      have := ih (upd σ op.tgt (op.act (σ op.tgt)).1)
      rw [hk] at this
      simp only [List.filter_cons, h, decide_false, if_false]
      simp only [Bool.false_eq_true, if_false]
      exact this

/-- an action that leaves the object as it found it -/
def Pure (a : Obj → Obj × Out) : Prop := ∀ o, (a o).1 = o

/-- pure actions can be removed from, added to, or repeated in a history of one object without
    changing the final object -/
theorem runObj_drop_pure (as : List (Obj → Obj × Out)) (p : (Obj → Obj × Out) → Bool)
    (hp : ∀ a ∈ as, p a = false → Pure a) (o : Obj) :
    (runObj o as).1 = (runObj o (as.filter p)).1 := by
  induction as generalizing o with
  | nil => rfl
  | cons a as ih =>
    have ih' := fun o => ih (fun b hb => hp b (List.mem_cons_of_mem _ hb)) o
    simp only [runObj, List.filter_cons]
    cases hpa : p a
    · simp only [Bool.false_eq_true, if_false]
      rw [hp a List.mem_cons_self hpa o]
      exact ih' o
    · simp only [if_true, runObj]
      exact ih' _

/-! ### threads -/

/-- an operation issued by a thread; `writes = false` promises the action is pure -/
structure TOp (Obj Out : Type) extends Op Obj Out where
  tid : Nat
  writes : Bool

/-- the discipline of the property: a mutating operation targets an object owned by the issuing
    thread; every other operation is pure (a query, a report construction, an export); objects
    owned by a thread are touched by that thread only -/
structure Disciplined (owner : Nat → Option Nat) (sched : List (TOp Obj Out)) : Prop where
  pure_of_query : ∀ op ∈ sched, op.writes = false → Pure op.act
  owned : ∀ op ∈ sched, op.writes = true → owner op.tgt = some op.tid
  private_ : ∀ op ∈ sched, ∀ t, owner op.tgt = some t → op.tid = t

/-- the object `k` after any schedule is what the mutating operations of its owner (none, if it
    is shared) make of it -/
theorem state_under_discipline (owner : Nat → Option Nat) (sched : List (TOp Obj Out))
    (hd : Disciplined owner sched) (σ : Nat → Obj) (k : Nat) :
    (run σ (sched.map (·.toOp))).1 k =
      (runObj (σ k) (((sched.filter fun op => op.tgt = k ∧ op.writes = true).map (·.toOp)).map (·.act))).1 := by
  rw [(proj k _ σ).1]
  have h1 : ((sched.map (·.toOp)).filter (·.tgt = k)).map (·.act) = ((sched.filter (·.tgt = k)).map (·.act)) := by
    simp [List.filter_map, List.map_map, Function.comp_def]
  rw [h1]
  have h2 : (((sched.filter fun op => op.tgt = k ∧ op.writes = true).map (·.toOp)).map (·.act))
      = ((sched.filter (·.tgt = k)).filter (·.writes)).map (·.act) := by
    simp [List.filter_filter, List.map_map, Function.comp_def, Bool.and_comm]
  rw [h2]
  -- drop the pure (non-mutating) actions
  generalize hl : sched.filter (·.tgt = k) = l
  have hl' : ∀ op ∈ l, op ∈ sched := by
    intro op hop; rw [← hl] at hop; exact (List.mem_filter.mp hop).1
  clear hl h1 h2
  induction l generalizing σ with
  | nil => rfl
  | cons op l ih =>
    simp only [List.map_cons, runObj, List.filter_cons]
    cases hm : op.writes
    · simp only [Bool.false_eq_true, if_false]
      have hp := hd.pure_of_query op (hl' op List.mem_cons_self) hm (σ k)
      have := ih (upd σ k (op.act (σ k)).1) (fun o ho => hl' o (List.mem_cons_of_mem _ ho))
      simp only [upd, if_true] at this
      rw [hp] at this ⊢
      have e : (upd σ k (σ k)) k = σ k := by simp [upd]
      simpa [upd] using this
    · simp only [if_true, List.map_cons, runObj]
      have := ih (upd σ k (op.act (σ k)).1) (fun o ho => hl' o (List.mem_cons_of_mem _ ho))
      simpa [upd] using this

/-- outputs of thread `t`, in order, when the whole schedule runs from `σ` -/
def outsOf (t : Nat) : (Nat → Obj) → List (TOp Obj Out) → List Out
  | _, [] => []
  | σ, op :: ops =>
    let r := step σ op.toOp
    if op.tid = t then r.2 :: outsOf t r.1 ops else outsOf t r.1 ops

/-- **Any interleaving equals sequential use.** Under the discipline, what thread `t` gets back
    from its operations in an arbitrary schedule is what it gets when its operations run alone,
    in their own order, from the same initial heap. -/
theorem interleaving_eq_seq (owner : Nat → Option Nat) (t : Nat) (sched : List (TOp Obj Out))
    (hd : Disciplined owner sched) (σ1 σ2 : Nat → Obj)
    (hR : ∀ k, (owner k = some t ∨ owner k = none) → σ1 k = σ2 k) :
    outsOf t σ1 sched = outsOf t σ2 (sched.filter (·.tid = t)) := by
  induction sched generalizing σ1 σ2 with
  | nil => rfl
  | cons op ops ih =>
    have hd' : Disciplined owner ops :=
      ⟨fun o ho => hd.pure_of_query o (List.mem_cons_of_mem _ ho),
       fun o ho => hd.owned o (List.mem_cons_of_mem _ ho),
       fun o ho => hd.private_ o (List.mem_cons_of_mem _ ho)⟩
    by_cases ht : op.tid = t
    · -- an operation of thread t: its target is t's own or shared, so both runs see the same object
      have hk : owner op.tgt = some t ∨ owner op.tgt = none := by
        cases ho : owner op.tgt with
        | none => exact Or.inr rfl
        | some t' =>
          have := hd.private_ op List.mem_cons_self t' ho
          left; rw [← this, ht]
      have heq : σ1 op.tgt = σ2 op.tgt := hR _ hk
      simp only [List.filter_cons, ht, decide_true, if_true, outsOf, step]
      rw [heq]
      congr 1
      apply ih hd'
      intro k hkk
      simp only [upd]
      by_cases hkt : k = op.tgt
      · simp [hkt]
      · simp only [hkt, if_false]; exact hR k hkk
    · -- an operation of another thread: it cannot change anything thread t can see
      simp only [List.filter_cons, ht, decide_false, outsOf, step]
      simp only [Bool.false_eq_true, if_false]
      apply ih hd'
      intro k hkk
      simp only [upd]
      by_cases hkt : k = op.tgt
      · subst hkt
        simp only [if_true]
        cases hw : op.writes
        · rw [hd.pure_of_query op List.mem_cons_self hw]; exact hR _ hkk
        · have ho := hd.owned op List.mem_cons_self hw
          rcases hkk with h1 | h1
          · rw [ho] at h1; exact absurd (Option.some.inj h1) ht
          · rw [ho] at h1; cases h1
      · simp only [hkt, if_false]; exact hR k hkk

end CvssVerif.Indep
