/- GENERATED ONCE by tools/gen_tabproofs.py (committed; re-running the script reproduces it).

   The per-metric functions of v3/metric and v2/metric as translated from the source text on every run
   (`Generated/Tables.lean`, go/tables) are the model's: `GetXxx` is `Metric.get` on the model's code table, `String()` is
   `Metric.str`, `Value(…)` is `value0`/`valuePR`/`valueMPR`/`valueMAV`/…/`V2.value`, the validity predicates are what
   `getError…` tests, `IsChanged` is `msIsChanged`.  Every equality holds for ALL strings and ALL integers (also outside
   the enumerations).  These are the primitives of the tie by translation of the score functions (`Proofs/Formulas.lean`)
   and the tables C20 is about.

   Each proof tries the script written for the pinned tree first and then a generic one that does not depend on the shape
   of the Go body: unfold everything down to the table literals, split an integer argument into the enumeration values
   0..6 and "none of them" (a string argument into every code of the two specifications and "none of them"), and
   evaluate. -/
import CvssVerif.Generated.Tables
import CvssVerif.Model.V3
import CvssVerif.Model.V2

namespace CvssVerif.TableTie
open CvssVerif CvssVerif.GoMap

theorem get_tie (m : Metric) (t : List (Int × Bytes)) (h : t = m.codes) (s : Bytes) :
    (match mapRev t s with | some k => k | none => (0 : Int)) = m.get s := by
  subst h; unfold mapRev Metric.get; cases List.find? (fun p => p.2 == s) m.codes <;> rfl

theorem str_tie (m : Metric) (t : List (Int × Bytes)) (h : t = m.codes) (v : Int) :
    (match mapGet t v with | some s => s | none => ([] : Bytes)) = m.str v := by
  subst h; unfold mapGet Metric.str; cases List.find? (fun p => p.1 == v) m.codes <;> rfl

theorem val_tie (t : List (Int × Nat)) (d : Nat) (v : Int) :
    (match mapGet t v with | some s => s | none => d) = wlookup t d v := by
  unfold mapGet wlookup; cases List.find? (fun p => p.1 == v) t <;> rfl

theorem mem_tie (t : List (Int × Nat)) (v : Int) : mapMem t v = wmem t v := rfl

/-- unfold everything down to `List.find?`/`List.any` over literal tables -/
macro "tab_unfold" : tactic => `(tactic|
  simp only [gtab, GoMap.mapGet, GoMap.mapGetD, GoMap.mapMem, GoMap.mapRev, Metric.get, Metric.str, wlookup, wmem,
     V3.M3.spec, V3.value0, V3.valuePR, V3.valueMPR, V3.valueMAV, V3.valueMAC, V3.valueMUI, V3.valueMCIA, V3.msIsChanged, V3.isValid,
     V3.wAV, V3.wAC, V3.wPRU, V3.wPRC, V3.wUI, V3.wCIA, V3.wE, V3.wRL, V3.wRC, V3.wReq, V3.wMAV, V3.wMAC, V3.wMPRU, V3.wMPRC, V3.wMUI, V3.wMCIA,
     V3.verStr, V3.verGet, V3.verLabels, V3.severityName,
     V2.M2.spec, V2.value, V2.wAV, V2.wAC, V2.wAu, V2.wCIA, V2.wE, V2.wRL, V2.wRC, V2.wCDP, V2.wTD, V2.wReq, V2.severityName,
     F64.one])

/-- an integer argument is one of the enumeration values 0..6 or none of them; in the last case every comparison with
    an enumeration constant is false -/
macro "key_cases" v:ident : tactic => `(tactic|
  (rcases (by omega : $v = 0 ∨ $v = 1 ∨ $v = 2 ∨ $v = 3 ∨ $v = 4 ∨ $v = 5 ∨ $v = 6 ∨ ($v < 0 ∨ 6 < $v)) with
      rfl | rfl | rfl | rfl | rfl | rfl | rfl | h
   all_goals try (
     have : ((0:Int) == $v) = false := by simp; omega
     have : ($v == (0:Int)) = false := by simp; omega
     have : ¬ ($v = (0:Int)) := by omega
     have : ¬ ((0:Int) = $v) := by omega
     have : ((1:Int) == $v) = false := by simp; omega
     have : ($v == (1:Int)) = false := by simp; omega
     have : ¬ ($v = (1:Int)) := by omega
     have : ¬ ((1:Int) = $v) := by omega
     have : ((2:Int) == $v) = false := by simp; omega
     have : ($v == (2:Int)) = false := by simp; omega
     have : ¬ ($v = (2:Int)) := by omega
     have : ¬ ((2:Int) = $v) := by omega
     have : ((3:Int) == $v) = false := by simp; omega
     have : ($v == (3:Int)) = false := by simp; omega
     have : ¬ ($v = (3:Int)) := by omega
     have : ¬ ((3:Int) = $v) := by omega
     have : ((4:Int) == $v) = false := by simp; omega
     have : ($v == (4:Int)) = false := by simp; omega
     have : ¬ ($v = (4:Int)) := by omega
     have : ¬ ((4:Int) = $v) := by omega
     have : ((5:Int) == $v) = false := by simp; omega
     have : ($v == (5:Int)) = false := by simp; omega
     have : ¬ ($v = (5:Int)) := by omega
     have : ¬ ((5:Int) = $v) := by omega
     have : ((6:Int) == $v) = false := by simp; omega
     have : ($v == (6:Int)) = false := by simp; omega
     have : ¬ ($v = (6:Int)) := by omega
     have : ¬ ((6:Int) = $v) := by omega)))

/-- a string argument is one of the value codes / version labels of the two specifications or none of them -/
macro "str_cases" s:ident : tactic => `(tactic|
  (by_cases h0 : $s = ([88] : Bytes)
   · subst h0; first | rfl | decide
   have : (([88] : Bytes) == $s) = false := by rw [beq_eq_false_iff_ne]; exact fun e => h0 e.symm
   have : ($s == ([88] : Bytes)) = false := by rw [beq_eq_false_iff_ne]; exact h0
   by_cases h1 : $s = ([78] : Bytes)
   · subst h1; first | rfl | decide
   have : (([78] : Bytes) == $s) = false := by rw [beq_eq_false_iff_ne]; exact fun e => h1 e.symm
   have : ($s == ([78] : Bytes)) = false := by rw [beq_eq_false_iff_ne]; exact h1
   by_cases h2 : $s = ([76] : Bytes)
   · subst h2; first | rfl | decide
   have : (([76] : Bytes) == $s) = false := by rw [beq_eq_false_iff_ne]; exact fun e => h2 e.symm
   have : ($s == ([76] : Bytes)) = false := by rw [beq_eq_false_iff_ne]; exact h2
   by_cases h3 : $s = ([72] : Bytes)
   · subst h3; first | rfl | decide
   have : (([72] : Bytes) == $s) = false := by rw [beq_eq_false_iff_ne]; exact fun e => h3 e.symm
   have : ($s == ([72] : Bytes)) = false := by rw [beq_eq_false_iff_ne]; exact h3
   by_cases h4 : $s = ([80] : Bytes)
   · subst h4; first | rfl | decide
   have : (([80] : Bytes) == $s) = false := by rw [beq_eq_false_iff_ne]; exact fun e => h4 e.symm
   have : ($s == ([80] : Bytes)) = false := by rw [beq_eq_false_iff_ne]; exact h4
   by_cases h5 : $s = ([65] : Bytes)
   · subst h5; first | rfl | decide
   have : (([65] : Bytes) == $s) = false := by rw [beq_eq_false_iff_ne]; exact fun e => h5 e.symm
   have : ($s == ([65] : Bytes)) = false := by rw [beq_eq_false_iff_ne]; exact h5
   by_cases h6 : $s = ([82] : Bytes)
   · subst h6; first | rfl | decide
   have : (([82] : Bytes) == $s) = false := by rw [beq_eq_false_iff_ne]; exact fun e => h6 e.symm
   have : ($s == ([82] : Bytes)) = false := by rw [beq_eq_false_iff_ne]; exact h6
   by_cases h7 : $s = ([85] : Bytes)
   · subst h7; first | rfl | decide
   have : (([85] : Bytes) == $s) = false := by rw [beq_eq_false_iff_ne]; exact fun e => h7 e.symm
   have : ($s == ([85] : Bytes)) = false := by rw [beq_eq_false_iff_ne]; exact h7
   by_cases h8 : $s = ([67] : Bytes)
   · subst h8; first | rfl | decide
   have : (([67] : Bytes) == $s) = false := by rw [beq_eq_false_iff_ne]; exact fun e => h8 e.symm
   have : ($s == ([67] : Bytes)) = false := by rw [beq_eq_false_iff_ne]; exact h8
   by_cases h9 : $s = ([79] : Bytes)
   · subst h9; first | rfl | decide
   have : (([79] : Bytes) == $s) = false := by rw [beq_eq_false_iff_ne]; exact fun e => h9 e.symm
   have : ($s == ([79] : Bytes)) = false := by rw [beq_eq_false_iff_ne]; exact h9
   by_cases h10 : $s = ([84] : Bytes)
   · subst h10; first | rfl | decide
   have : (([84] : Bytes) == $s) = false := by rw [beq_eq_false_iff_ne]; exact fun e => h10 e.symm
   have : ($s == ([84] : Bytes)) = false := by rw [beq_eq_false_iff_ne]; exact h10
   by_cases h11 : $s = ([87] : Bytes)
   · subst h11; first | rfl | decide
   have : (([87] : Bytes) == $s) = false := by rw [beq_eq_false_iff_ne]; exact fun e => h11 e.symm
   have : ($s == ([87] : Bytes)) = false := by rw [beq_eq_false_iff_ne]; exact h11
   by_cases h12 : $s = ([70] : Bytes)
   · subst h12; first | rfl | decide
   have : (([70] : Bytes) == $s) = false := by rw [beq_eq_false_iff_ne]; exact fun e => h12 e.symm
   have : ($s == ([70] : Bytes)) = false := by rw [beq_eq_false_iff_ne]; exact h12
   by_cases h13 : $s = ([77] : Bytes)
   · subst h13; first | rfl | decide
   have : (([77] : Bytes) == $s) = false := by rw [beq_eq_false_iff_ne]; exact fun e => h13 e.symm
   have : ($s == ([77] : Bytes)) = false := by rw [beq_eq_false_iff_ne]; exact h13
   by_cases h14 : $s = ([78, 68] : Bytes)
   · subst h14; first | rfl | decide
   have : (([78, 68] : Bytes) == $s) = false := by rw [beq_eq_false_iff_ne]; exact fun e => h14 e.symm
   have : ($s == ([78, 68] : Bytes)) = false := by rw [beq_eq_false_iff_ne]; exact h14
   by_cases h15 : $s = ([80, 79, 67] : Bytes)
   · subst h15; first | rfl | decide
   have : (([80, 79, 67] : Bytes) == $s) = false := by rw [beq_eq_false_iff_ne]; exact fun e => h15 e.symm
   have : ($s == ([80, 79, 67] : Bytes)) = false := by rw [beq_eq_false_iff_ne]; exact h15
   by_cases h16 : $s = ([79, 70] : Bytes)
   · subst h16; first | rfl | decide
   have : (([79, 70] : Bytes) == $s) = false := by rw [beq_eq_false_iff_ne]; exact fun e => h16 e.symm
   have : ($s == ([79, 70] : Bytes)) = false := by rw [beq_eq_false_iff_ne]; exact h16
   by_cases h17 : $s = ([84, 70] : Bytes)
   · subst h17; first | rfl | decide
   have : (([84, 70] : Bytes) == $s) = false := by rw [beq_eq_false_iff_ne]; exact fun e => h17 e.symm
   have : ($s == ([84, 70] : Bytes)) = false := by rw [beq_eq_false_iff_ne]; exact h17
   by_cases h18 : $s = ([85, 67] : Bytes)
   · subst h18; first | rfl | decide
   have : (([85, 67] : Bytes) == $s) = false := by rw [beq_eq_false_iff_ne]; exact fun e => h18 e.symm
   have : ($s == ([85, 67] : Bytes)) = false := by rw [beq_eq_false_iff_ne]; exact h18
   by_cases h19 : $s = ([85, 82] : Bytes)
   · subst h19; first | rfl | decide
   have : (([85, 82] : Bytes) == $s) = false := by rw [beq_eq_false_iff_ne]; exact fun e => h19 e.symm
   have : ($s == ([85, 82] : Bytes)) = false := by rw [beq_eq_false_iff_ne]; exact h19
   by_cases h20 : $s = ([76, 77] : Bytes)
   · subst h20; first | rfl | decide
   have : (([76, 77] : Bytes) == $s) = false := by rw [beq_eq_false_iff_ne]; exact fun e => h20 e.symm
   have : ($s == ([76, 77] : Bytes)) = false := by rw [beq_eq_false_iff_ne]; exact h20
   by_cases h21 : $s = ([77, 72] : Bytes)
   · subst h21; first | rfl | decide
   have : (([77, 72] : Bytes) == $s) = false := by rw [beq_eq_false_iff_ne]; exact fun e => h21 e.symm
   have : ($s == ([77, 72] : Bytes)) = false := by rw [beq_eq_false_iff_ne]; exact h21
   by_cases h22 : $s = ([83] : Bytes)
   · subst h22; first | rfl | decide
   have : (([83] : Bytes) == $s) = false := by rw [beq_eq_false_iff_ne]; exact fun e => h22 e.symm
   have : ($s == ([83] : Bytes)) = false := by rw [beq_eq_false_iff_ne]; exact h22
   by_cases h23 : $s = ([51, 46, 48] : Bytes)
   · subst h23; first | rfl | decide
   have : (([51, 46, 48] : Bytes) == $s) = false := by rw [beq_eq_false_iff_ne]; exact fun e => h23 e.symm
   have : ($s == ([51, 46, 48] : Bytes)) = false := by rw [beq_eq_false_iff_ne]; exact h23
   by_cases h24 : $s = ([51, 46, 49] : Bytes)
   · subst h24; first | rfl | decide
   have : (([51, 46, 49] : Bytes) == $s) = false := by rw [beq_eq_false_iff_ne]; exact fun e => h24 e.symm
   have : ($s == ([51, 46, 49] : Bytes)) = false := by rw [beq_eq_false_iff_ne]; exact h24
   simp [*]))

macro "tab_close" : tactic => `(tactic| all_goals first | rfl | decide | (simp_all; done))

/-! ### v3 -/
section v3
open CvssVerif.V3

theorem GetAttackVector_3 (s : Bytes) : Gen.T3.GetAttackVector s = (V3.M3.spec .AV).get s := by
  first
    | (unfold Gen.T3.GetAttackVector; exact get_tie _ _ (by decide) s; done)
    | (tab_unfold; done)
    | (tab_unfold; str_cases s; done)

theorem AttackVector_String_3 (v : Int) : Gen.T3.AttackVector_String v = (V3.M3.spec .AV).str v := by
  first
    | (unfold Gen.T3.AttackVector_String; exact str_tie _ _ (by decide) v; done)
    | (tab_unfold; done)
    | (tab_unfold; key_cases v <;> tab_close; done)

theorem AttackVector_IsUnknown_3 (v : Int) : Gen.T3.AttackVector_IsUnknown v = (v == 0) := by
  first
    | (rfl; done)
    | (tab_unfold; done)
    | (tab_unfold; key_cases v <;> tab_close; done)

theorem AttackVector_Value_3 (v : Int) : Gen.T3.AttackVector_Value v = V3.value0 .AV v := by
  first
    | (unfold Gen.T3.AttackVector_Value V3.value0; exact val_tie _ _ v; done)
    | (tab_unfold; done)
    | (tab_unfold; key_cases v <;> tab_close; done)

theorem GetAttackComplexity_3 (s : Bytes) : Gen.T3.GetAttackComplexity s = (V3.M3.spec .AC).get s := by
  first
    | (unfold Gen.T3.GetAttackComplexity; exact get_tie _ _ (by decide) s; done)
    | (tab_unfold; done)
    | (tab_unfold; str_cases s; done)

theorem AttackComplexity_String_3 (v : Int) : Gen.T3.AttackComplexity_String v = (V3.M3.spec .AC).str v := by
  first
    | (unfold Gen.T3.AttackComplexity_String; exact str_tie _ _ (by decide) v; done)
    | (tab_unfold; done)
    | (tab_unfold; key_cases v <;> tab_close; done)

theorem AttackComplexity_IsUnknown_3 (v : Int) : Gen.T3.AttackComplexity_IsUnknown v = (v == 0) := by
  first
    | (rfl; done)
    | (tab_unfold; done)
    | (tab_unfold; key_cases v <;> tab_close; done)

theorem AttackComplexity_Value_3 (v : Int) : Gen.T3.AttackComplexity_Value v = V3.value0 .AC v := by
  first
    | (unfold Gen.T3.AttackComplexity_Value V3.value0; exact val_tie _ _ v; done)
    | (tab_unfold; done)
    | (tab_unfold; key_cases v <;> tab_close; done)

theorem GetPrivilegesRequired_3 (s : Bytes) : Gen.T3.GetPrivilegesRequired s = (V3.M3.spec .PR).get s := by
  first
    | (unfold Gen.T3.GetPrivilegesRequired; exact get_tie _ _ (by decide) s; done)
    | (tab_unfold; done)
    | (tab_unfold; str_cases s; done)

theorem PrivilegesRequired_String_3 (v : Int) : Gen.T3.PrivilegesRequired_String v = (V3.M3.spec .PR).str v := by
  first
    | (unfold Gen.T3.PrivilegesRequired_String; exact str_tie _ _ (by decide) v; done)
    | (tab_unfold; done)
    | (tab_unfold; key_cases v <;> tab_close; done)

theorem PrivilegesRequired_IsUnknown_3 (v : Int) : Gen.T3.PrivilegesRequired_IsUnknown v = (v == 0) := by
  first
    | (rfl; done)
    | (tab_unfold; done)
    | (tab_unfold; key_cases v <;> tab_close; done)

theorem GetUserInteraction_3 (s : Bytes) : Gen.T3.GetUserInteraction s = (V3.M3.spec .UI).get s := by
  first
    | (unfold Gen.T3.GetUserInteraction; exact get_tie _ _ (by decide) s; done)
    | (tab_unfold; done)
    | (tab_unfold; str_cases s; done)

theorem UserInteraction_String_3 (v : Int) : Gen.T3.UserInteraction_String v = (V3.M3.spec .UI).str v := by
  first
    | (unfold Gen.T3.UserInteraction_String; exact str_tie _ _ (by decide) v; done)
    | (tab_unfold; done)
    | (tab_unfold; key_cases v <;> tab_close; done)

theorem UserInteraction_IsUnknown_3 (v : Int) : Gen.T3.UserInteraction_IsUnknown v = (v == 0) := by
  first
    | (rfl; done)
    | (tab_unfold; done)
    | (tab_unfold; key_cases v <;> tab_close; done)

theorem UserInteraction_Value_3 (v : Int) : Gen.T3.UserInteraction_Value v = V3.value0 .UI v := by
  first
    | (unfold Gen.T3.UserInteraction_Value V3.value0; exact val_tie _ _ v; done)
    | (tab_unfold; done)
    | (tab_unfold; key_cases v <;> tab_close; done)

theorem GetScope_3 (s : Bytes) : Gen.T3.GetScope s = (V3.M3.spec .S).get s := by
  first
    | (unfold Gen.T3.GetScope; exact get_tie _ _ (by decide) s; done)
    | (tab_unfold; done)
    | (tab_unfold; str_cases s; done)

theorem Scope_String_3 (v : Int) : Gen.T3.Scope_String v = (V3.M3.spec .S).str v := by
  first
    | (unfold Gen.T3.Scope_String; exact str_tie _ _ (by decide) v; done)
    | (tab_unfold; done)
    | (tab_unfold; key_cases v <;> tab_close; done)

theorem Scope_IsUnknown_3 (v : Int) : Gen.T3.Scope_IsUnknown v = (v == 0) := by
  first
    | (rfl; done)
    | (tab_unfold; done)
    | (tab_unfold; key_cases v <;> tab_close; done)

theorem GetConfidentialityImpact_3 (s : Bytes) : Gen.T3.GetConfidentialityImpact s = (V3.M3.spec .C).get s := by
  first
    | (unfold Gen.T3.GetConfidentialityImpact; exact get_tie _ _ (by decide) s; done)
    | (tab_unfold; done)
    | (tab_unfold; str_cases s; done)

theorem ConfidentialityImpact_String_3 (v : Int) : Gen.T3.ConfidentialityImpact_String v = (V3.M3.spec .C).str v := by
  first
    | (unfold Gen.T3.ConfidentialityImpact_String; exact str_tie _ _ (by decide) v; done)
    | (tab_unfold; done)
    | (tab_unfold; key_cases v <;> tab_close; done)

theorem ConfidentialityImpact_IsUnknown_3 (v : Int) : Gen.T3.ConfidentialityImpact_IsUnknown v = (v == 0) := by
  first
    | (rfl; done)
    | (tab_unfold; done)
    | (tab_unfold; key_cases v <;> tab_close; done)

theorem ConfidentialityImpact_Value_3 (v : Int) : Gen.T3.ConfidentialityImpact_Value v = V3.value0 .C v := by
  first
    | (unfold Gen.T3.ConfidentialityImpact_Value V3.value0; exact val_tie _ _ v; done)
    | (tab_unfold; done)
    | (tab_unfold; key_cases v <;> tab_close; done)

theorem GetIntegrityImpact_3 (s : Bytes) : Gen.T3.GetIntegrityImpact s = (V3.M3.spec .I).get s := by
  first
    | (unfold Gen.T3.GetIntegrityImpact; exact get_tie _ _ (by decide) s; done)
    | (tab_unfold; done)
    | (tab_unfold; str_cases s; done)

theorem IntegrityImpact_String_3 (v : Int) : Gen.T3.IntegrityImpact_String v = (V3.M3.spec .I).str v := by
  first
    | (unfold Gen.T3.IntegrityImpact_String; exact str_tie _ _ (by decide) v; done)
    | (tab_unfold; done)
    | (tab_unfold; key_cases v <;> tab_close; done)

theorem IntegrityImpact_IsUnknown_3 (v : Int) : Gen.T3.IntegrityImpact_IsUnknown v = (v == 0) := by
  first
    | (rfl; done)
    | (tab_unfold; done)
    | (tab_unfold; key_cases v <;> tab_close; done)

theorem IntegrityImpact_Value_3 (v : Int) : Gen.T3.IntegrityImpact_Value v = V3.value0 .I v := by
  first
    | (unfold Gen.T3.IntegrityImpact_Value V3.value0; exact val_tie _ _ v; done)
    | (tab_unfold; done)
    | (tab_unfold; key_cases v <;> tab_close; done)

theorem GetAvailabilityImpact_3 (s : Bytes) : Gen.T3.GetAvailabilityImpact s = (V3.M3.spec .A).get s := by
  first
    | (unfold Gen.T3.GetAvailabilityImpact; exact get_tie _ _ (by decide) s; done)
    | (tab_unfold; done)
    | (tab_unfold; str_cases s; done)

theorem AvailabilityImpact_String_3 (v : Int) : Gen.T3.AvailabilityImpact_String v = (V3.M3.spec .A).str v := by
  first
    | (unfold Gen.T3.AvailabilityImpact_String; exact str_tie _ _ (by decide) v; done)
    | (tab_unfold; done)
    | (tab_unfold; key_cases v <;> tab_close; done)

theorem AvailabilityImpact_IsUnknown_3 (v : Int) : Gen.T3.AvailabilityImpact_IsUnknown v = (v == 0) := by
  first
    | (rfl; done)
    | (tab_unfold; done)
    | (tab_unfold; key_cases v <;> tab_close; done)

theorem AvailabilityImpact_Value_3 (v : Int) : Gen.T3.AvailabilityImpact_Value v = V3.value0 .A v := by
  first
    | (unfold Gen.T3.AvailabilityImpact_Value V3.value0; exact val_tie _ _ v; done)
    | (tab_unfold; done)
    | (tab_unfold; key_cases v <;> tab_close; done)

theorem GetExploitability_3 (s : Bytes) : Gen.T3.GetExploitability s = (V3.M3.spec .E).get s := by
  first
    | (unfold Gen.T3.GetExploitability; exact get_tie _ _ (by decide) s; done)
    | (tab_unfold; done)
    | (tab_unfold; str_cases s; done)

theorem Exploitability_String_3 (v : Int) : Gen.T3.Exploitability_String v = (V3.M3.spec .E).str v := by
  first
    | (unfold Gen.T3.Exploitability_String; exact str_tie _ _ (by decide) v; done)
    | (tab_unfold; done)
    | (tab_unfold; key_cases v <;> tab_close; done)

theorem Exploitability_IsValid_3 (v : Int) : Gen.T3.Exploitability_IsValid v = V3.isValid .E v := by
  first
    | (unfold Gen.T3.Exploitability_IsValid V3.isValid; first | rfl | exact mem_tie _ _; done)
    | (tab_unfold; done)
    | (tab_unfold; key_cases v <;> tab_close; done)

theorem Exploitability_Value_3 (v : Int) : Gen.T3.Exploitability_Value v = V3.value0 .E v := by
  first
    | (unfold Gen.T3.Exploitability_Value V3.value0; exact val_tie _ _ v; done)
    | (tab_unfold; done)
    | (tab_unfold; key_cases v <;> tab_close; done)

theorem GetRemediationLevel_3 (s : Bytes) : Gen.T3.GetRemediationLevel s = (V3.M3.spec .RL).get s := by
  first
    | (unfold Gen.T3.GetRemediationLevel; exact get_tie _ _ (by decide) s; done)
    | (tab_unfold; done)
    | (tab_unfold; str_cases s; done)

theorem RemediationLevel_String_3 (v : Int) : Gen.T3.RemediationLevel_String v = (V3.M3.spec .RL).str v := by
  first
    | (unfold Gen.T3.RemediationLevel_String; exact str_tie _ _ (by decide) v; done)
    | (tab_unfold; done)
    | (tab_unfold; key_cases v <;> tab_close; done)

theorem RemediationLevel_IsValid_3 (v : Int) : Gen.T3.RemediationLevel_IsValid v = V3.isValid .RL v := by
  first
    | (unfold Gen.T3.RemediationLevel_IsValid V3.isValid; first | rfl | exact mem_tie _ _; done)
    | (tab_unfold; done)
    | (tab_unfold; key_cases v <;> tab_close; done)

theorem RemediationLevel_Value_3 (v : Int) : Gen.T3.RemediationLevel_Value v = V3.value0 .RL v := by
  first
    | (unfold Gen.T3.RemediationLevel_Value V3.value0; exact val_tie _ _ v; done)
    | (tab_unfold; done)
    | (tab_unfold; key_cases v <;> tab_close; done)

theorem GetReportConfidence_3 (s : Bytes) : Gen.T3.GetReportConfidence s = (V3.M3.spec .RC).get s := by
  first
    | (unfold Gen.T3.GetReportConfidence; exact get_tie _ _ (by decide) s; done)
    | (tab_unfold; done)
    | (tab_unfold; str_cases s; done)

theorem ReportConfidence_String_3 (v : Int) : Gen.T3.ReportConfidence_String v = (V3.M3.spec .RC).str v := by
  first
    | (unfold Gen.T3.ReportConfidence_String; exact str_tie _ _ (by decide) v; done)
    | (tab_unfold; done)
    | (tab_unfold; key_cases v <;> tab_close; done)

theorem ReportConfidence_IsValid_3 (v : Int) : Gen.T3.ReportConfidence_IsValid v = V3.isValid .RC v := by
  first
    | (unfold Gen.T3.ReportConfidence_IsValid V3.isValid; first | rfl | exact mem_tie _ _; done)
    | (tab_unfold; done)
    | (tab_unfold; key_cases v <;> tab_close; done)

theorem ReportConfidence_Value_3 (v : Int) : Gen.T3.ReportConfidence_Value v = V3.value0 .RC v := by
  first
    | (unfold Gen.T3.ReportConfidence_Value V3.value0; exact val_tie _ _ v; done)
    | (tab_unfold; done)
    | (tab_unfold; key_cases v <;> tab_close; done)

theorem GetConfidentialityRequirement_3 (s : Bytes) : Gen.T3.GetConfidentialityRequirement s = (V3.M3.spec .CR).get s := by
  first
    | (unfold Gen.T3.GetConfidentialityRequirement; exact get_tie _ _ (by decide) s; done)
    | (tab_unfold; done)
    | (tab_unfold; str_cases s; done)

theorem ConfidentialityRequirement_String_3 (v : Int) : Gen.T3.ConfidentialityRequirement_String v = (V3.M3.spec .CR).str v := by
  first
    | (unfold Gen.T3.ConfidentialityRequirement_String; exact str_tie _ _ (by decide) v; done)
    | (tab_unfold; done)
    | (tab_unfold; key_cases v <;> tab_close; done)

theorem ConfidentialityRequirement_IsValid_3 (v : Int) : Gen.T3.ConfidentialityRequirement_IsValid v = V3.isValid .CR v := by
  first
    | (unfold Gen.T3.ConfidentialityRequirement_IsValid V3.isValid; first | rfl | exact mem_tie _ _; done)
    | (tab_unfold; done)
    | (tab_unfold; key_cases v <;> tab_close; done)

theorem ConfidentialityRequirement_Value_3 (v : Int) : Gen.T3.ConfidentialityRequirement_Value v = V3.value0 .CR v := by
  first
    | (unfold Gen.T3.ConfidentialityRequirement_Value V3.value0; exact val_tie _ _ v; done)
    | (tab_unfold; done)
    | (tab_unfold; key_cases v <;> tab_close; done)

theorem GetIntegrityRequirement_3 (s : Bytes) : Gen.T3.GetIntegrityRequirement s = (V3.M3.spec .IR).get s := by
  first
    | (unfold Gen.T3.GetIntegrityRequirement; exact get_tie _ _ (by decide) s; done)
    | (tab_unfold; done)
    | (tab_unfold; str_cases s; done)

theorem IntegrityRequirement_String_3 (v : Int) : Gen.T3.IntegrityRequirement_String v = (V3.M3.spec .IR).str v := by
  first
    | (unfold Gen.T3.IntegrityRequirement_String; exact str_tie _ _ (by decide) v; done)
    | (tab_unfold; done)
    | (tab_unfold; key_cases v <;> tab_close; done)

theorem IntegrityRequirement_IsValid_3 (v : Int) : Gen.T3.IntegrityRequirement_IsValid v = V3.isValid .IR v := by
  first
    | (unfold Gen.T3.IntegrityRequirement_IsValid V3.isValid; first | rfl | exact mem_tie _ _; done)
    | (tab_unfold; done)
    | (tab_unfold; key_cases v <;> tab_close; done)

theorem IntegrityRequirement_Value_3 (v : Int) : Gen.T3.IntegrityRequirement_Value v = V3.value0 .IR v := by
  first
    | (unfold Gen.T3.IntegrityRequirement_Value V3.value0; exact val_tie _ _ v; done)
    | (tab_unfold; done)
    | (tab_unfold; key_cases v <;> tab_close; done)

theorem GetAvailabilityRequirement_3 (s : Bytes) : Gen.T3.GetAvailabilityRequirement s = (V3.M3.spec .AR).get s := by
  first
    | (unfold Gen.T3.GetAvailabilityRequirement; exact get_tie _ _ (by decide) s; done)
    | (tab_unfold; done)
    | (tab_unfold; str_cases s; done)

theorem AvailabilityRequirement_String_3 (v : Int) : Gen.T3.AvailabilityRequirement_String v = (V3.M3.spec .AR).str v := by
  first
    | (unfold Gen.T3.AvailabilityRequirement_String; exact str_tie _ _ (by decide) v; done)
    | (tab_unfold; done)
    | (tab_unfold; key_cases v <;> tab_close; done)

theorem AvailabilityRequirement_IsValid_3 (v : Int) : Gen.T3.AvailabilityRequirement_IsValid v = V3.isValid .AR v := by
  first
    | (unfold Gen.T3.AvailabilityRequirement_IsValid V3.isValid; first | rfl | exact mem_tie _ _; done)
    | (tab_unfold; done)
    | (tab_unfold; key_cases v <;> tab_close; done)

theorem AvailabilityRequirement_Value_3 (v : Int) : Gen.T3.AvailabilityRequirement_Value v = V3.value0 .AR v := by
  first
    | (unfold Gen.T3.AvailabilityRequirement_Value V3.value0; exact val_tie _ _ v; done)
    | (tab_unfold; done)
    | (tab_unfold; key_cases v <;> tab_close; done)

theorem GetModifiedAttackVector_3 (s : Bytes) : Gen.T3.GetModifiedAttackVector s = (V3.M3.spec .MAV).get s := by
  first
    | (unfold Gen.T3.GetModifiedAttackVector; exact get_tie _ _ (by decide) s; done)
    | (tab_unfold; done)
    | (tab_unfold; str_cases s; done)

theorem ModifiedAttackVector_String_3 (v : Int) : Gen.T3.ModifiedAttackVector_String v = (V3.M3.spec .MAV).str v := by
  first
    | (unfold Gen.T3.ModifiedAttackVector_String; exact str_tie _ _ (by decide) v; done)
    | (tab_unfold; done)
    | (tab_unfold; key_cases v <;> tab_close; done)

theorem ModifiedAttackVector_IsValid_3 (v : Int) : Gen.T3.ModifiedAttackVector_IsValid v = V3.isValid .MAV v := by
  first
    | (unfold Gen.T3.ModifiedAttackVector_IsValid V3.isValid; first | rfl | exact mem_tie _ _; done)
    | (tab_unfold; done)
    | (tab_unfold; key_cases v <;> tab_close; done)

theorem GetModifiedAttackComplexity_3 (s : Bytes) : Gen.T3.GetModifiedAttackComplexity s = (V3.M3.spec .MAC).get s := by
  first
    | (unfold Gen.T3.GetModifiedAttackComplexity; exact get_tie _ _ (by decide) s; done)
    | (tab_unfold; done)
    | (tab_unfold; str_cases s; done)

theorem ModifiedAttackComplexity_String_3 (v : Int) : Gen.T3.ModifiedAttackComplexity_String v = (V3.M3.spec .MAC).str v := by
  first
    | (unfold Gen.T3.ModifiedAttackComplexity_String; exact str_tie _ _ (by decide) v; done)
    | (tab_unfold; done)
    | (tab_unfold; key_cases v <;> tab_close; done)

theorem ModifiedAttackComplexity_IsValid_3 (v : Int) : Gen.T3.ModifiedAttackComplexity_IsValid v = V3.isValid .MAC v := by
  first
    | (unfold Gen.T3.ModifiedAttackComplexity_IsValid V3.isValid; first | rfl | exact mem_tie _ _; done)
    | (tab_unfold; done)
    | (tab_unfold; key_cases v <;> tab_close; done)

theorem GetModifiedPrivilegesRequired_3 (s : Bytes) : Gen.T3.GetModifiedPrivilegesRequired s = (V3.M3.spec .MPR).get s := by
  first
    | (unfold Gen.T3.GetModifiedPrivilegesRequired; exact get_tie _ _ (by decide) s; done)
    | (tab_unfold; done)
    | (tab_unfold; str_cases s; done)

theorem ModifiedPrivilegesRequired_String_3 (v : Int) : Gen.T3.ModifiedPrivilegesRequired_String v = (V3.M3.spec .MPR).str v := by
  first
    | (unfold Gen.T3.ModifiedPrivilegesRequired_String; exact str_tie _ _ (by decide) v; done)
    | (tab_unfold; done)
    | (tab_unfold; key_cases v <;> tab_close; done)

theorem ModifiedPrivilegesRequired_IsValid_3 (v : Int) : Gen.T3.ModifiedPrivilegesRequired_IsValid v = V3.isValid .MPR v := by
  first
    | (unfold Gen.T3.ModifiedPrivilegesRequired_IsValid V3.isValid; first | rfl | exact mem_tie _ _; done)
    | (tab_unfold; done)
    | (tab_unfold; key_cases v <;> tab_close; done)

theorem GetModifiedUserInteraction_3 (s : Bytes) : Gen.T3.GetModifiedUserInteraction s = (V3.M3.spec .MUI).get s := by
  first
    | (unfold Gen.T3.GetModifiedUserInteraction; exact get_tie _ _ (by decide) s; done)
    | (tab_unfold; done)
    | (tab_unfold; str_cases s; done)

theorem ModifiedUserInteraction_String_3 (v : Int) : Gen.T3.ModifiedUserInteraction_String v = (V3.M3.spec .MUI).str v := by
  first
    | (unfold Gen.T3.ModifiedUserInteraction_String; exact str_tie _ _ (by decide) v; done)
    | (tab_unfold; done)
    | (tab_unfold; key_cases v <;> tab_close; done)

theorem ModifiedUserInteraction_IsValid_3 (v : Int) : Gen.T3.ModifiedUserInteraction_IsValid v = V3.isValid .MUI v := by
  first
    | (unfold Gen.T3.ModifiedUserInteraction_IsValid V3.isValid; first | rfl | exact mem_tie _ _; done)
    | (tab_unfold; done)
    | (tab_unfold; key_cases v <;> tab_close; done)

theorem GetModifiedScope_3 (s : Bytes) : Gen.T3.GetModifiedScope s = (V3.M3.spec .MS).get s := by
  first
    | (unfold Gen.T3.GetModifiedScope; exact get_tie _ _ (by decide) s; done)
    | (tab_unfold; done)
    | (tab_unfold; str_cases s; done)

theorem ModifiedScope_String_3 (v : Int) : Gen.T3.ModifiedScope_String v = (V3.M3.spec .MS).str v := by
  first
    | (unfold Gen.T3.ModifiedScope_String; exact str_tie _ _ (by decide) v; done)
    | (tab_unfold; done)
    | (tab_unfold; key_cases v <;> tab_close; done)

theorem ModifiedScope_IsValid_3 (v : Int) : Gen.T3.ModifiedScope_IsValid v = V3.isValid .MS v := by
  first
    | (unfold Gen.T3.ModifiedScope_IsValid V3.isValid; first | rfl | exact mem_tie _ _; done)
    | (tab_unfold; done)
    | (tab_unfold; key_cases v <;> tab_close; done)

theorem GetModifiedConfidentialityImpact_3 (s : Bytes) : Gen.T3.GetModifiedConfidentialityImpact s = (V3.M3.spec .MC).get s := by
  first
    | (unfold Gen.T3.GetModifiedConfidentialityImpact; exact get_tie _ _ (by decide) s; done)
    | (tab_unfold; done)
    | (tab_unfold; str_cases s; done)

theorem ModifiedConfidentialityImpact_String_3 (v : Int) : Gen.T3.ModifiedConfidentialityImpact_String v = (V3.M3.spec .MC).str v := by
  first
    | (unfold Gen.T3.ModifiedConfidentialityImpact_String; exact str_tie _ _ (by decide) v; done)
    | (tab_unfold; done)
    | (tab_unfold; key_cases v <;> tab_close; done)

theorem ModifiedConfidentialityImpact_IsValid_3 (v : Int) : Gen.T3.ModifiedConfidentialityImpact_IsValid v = V3.isValid .MC v := by
  first
    | (unfold Gen.T3.ModifiedConfidentialityImpact_IsValid V3.isValid; first | rfl | exact mem_tie _ _; done)
    | (tab_unfold; done)
    | (tab_unfold; key_cases v <;> tab_close; done)

theorem GetModifiedIntegrityImpact_3 (s : Bytes) : Gen.T3.GetModifiedIntegrityImpact s = (V3.M3.spec .MI).get s := by
  first
    | (unfold Gen.T3.GetModifiedIntegrityImpact; exact get_tie _ _ (by decide) s; done)
    | (tab_unfold; done)
    | (tab_unfold; str_cases s; done)

theorem ModifiedIntegrityImpact_String_3 (v : Int) : Gen.T3.ModifiedIntegrityImpact_String v = (V3.M3.spec .MI).str v := by
  first
    | (unfold Gen.T3.ModifiedIntegrityImpact_String; exact str_tie _ _ (by decide) v; done)
    | (tab_unfold; done)
    | (tab_unfold; key_cases v <;> tab_close; done)

theorem ModifiedIntegrityImpact_IsValid_3 (v : Int) : Gen.T3.ModifiedIntegrityImpact_IsValid v = V3.isValid .MI v := by
  first
    | (unfold Gen.T3.ModifiedIntegrityImpact_IsValid V3.isValid; first | rfl | exact mem_tie _ _; done)
    | (tab_unfold; done)
    | (tab_unfold; key_cases v <;> tab_close; done)

theorem GetModifiedAvailabilityImpact_3 (s : Bytes) : Gen.T3.GetModifiedAvailabilityImpact s = (V3.M3.spec .MA).get s := by
  first
    | (unfold Gen.T3.GetModifiedAvailabilityImpact; exact get_tie _ _ (by decide) s; done)
    | (tab_unfold; done)
    | (tab_unfold; str_cases s; done)

theorem ModifiedAvailabilityImpact_String_3 (v : Int) : Gen.T3.ModifiedAvailabilityImpact_String v = (V3.M3.spec .MA).str v := by
  first
    | (unfold Gen.T3.ModifiedAvailabilityImpact_String; exact str_tie _ _ (by decide) v; done)
    | (tab_unfold; done)
    | (tab_unfold; key_cases v <;> tab_close; done)

theorem ModifiedAvailabilityImpact_IsValid_3 (v : Int) : Gen.T3.ModifiedAvailabilityImpact_IsValid v = V3.isValid .MA v := by
  first
    | (unfold Gen.T3.ModifiedAvailabilityImpact_IsValid V3.isValid; first | rfl | exact mem_tie _ _; done)
    | (tab_unfold; done)
    | (tab_unfold; key_cases v <;> tab_close; done)

theorem Scope_IsChanged_3 (s : Int) : Gen.T3.Scope_IsChanged s = (s == 2) := by
  first
    | (rfl; done)
    | (tab_unfold; done)
    | (tab_unfold; key_cases s <;> tab_close; done)

theorem ModifiedScope_IsChanged_3 (ms : Int) (s : Int) : Gen.T3.ModifiedScope_IsChanged ms s = V3.msIsChanged ms s := by
  first
    | (unfold Gen.T3.ModifiedScope_IsChanged V3.msIsChanged; simp only [Scope_IsChanged_3]; split <;> simp_all; done)
    | (tab_unfold; done)
    | (tab_unfold; key_cases ms <;> key_cases s <;> tab_close; done)

theorem PrivilegesRequired_Value_3 (pr : Int) (s : Int) : Gen.T3.PrivilegesRequired_Value pr s = V3.valuePR pr s := by
  first
    | (unfold Gen.T3.PrivilegesRequired_Value V3.valuePR; simp only [val_tie]; split <;> (try split) <;> simp_all; done)
    | (tab_unfold; done)
    | (tab_unfold; key_cases pr <;> key_cases s <;> tab_close; done)

theorem ModifiedAttackVector_Value_3 (mv : Int) (bv : Int) : Gen.T3.ModifiedAttackVector_Value mv bv = V3.valueMAV mv bv := by
  first
    | (unfold Gen.T3.ModifiedAttackVector_Value V3.valueMAV; simp only [val_tie]; split <;> simp_all <;> rfl; done)
    | (tab_unfold; done)
    | (tab_unfold; key_cases mv <;> key_cases bv <;> tab_close; done)

theorem ModifiedAttackComplexity_Value_3 (mv : Int) (bv : Int) : Gen.T3.ModifiedAttackComplexity_Value mv bv = V3.valueMAC mv bv := by
  first
    | (unfold Gen.T3.ModifiedAttackComplexity_Value V3.valueMAC; simp only [val_tie]; split <;> simp_all <;> rfl; done)
    | (tab_unfold; done)
    | (tab_unfold; key_cases mv <;> key_cases bv <;> tab_close; done)

theorem ModifiedUserInteraction_Value_3 (mv : Int) (bv : Int) : Gen.T3.ModifiedUserInteraction_Value mv bv = V3.valueMUI mv bv := by
  first
    | (unfold Gen.T3.ModifiedUserInteraction_Value V3.valueMUI; simp only [val_tie]; split <;> simp_all <;> rfl; done)
    | (tab_unfold; done)
    | (tab_unfold; key_cases mv <;> key_cases bv <;> tab_close; done)

theorem ModifiedConfidentialityImpact_Value_3 (mv : Int) (bv : Int) : Gen.T3.ModifiedConfidentialityImpact_Value mv bv = V3.valueMCIA .MC mv bv := by
  first
    | (unfold Gen.T3.ModifiedConfidentialityImpact_Value V3.valueMCIA; simp only [val_tie, ModifiedConfidentialityImpact_String_3, ModifiedAttackComplexity_String_3]; split <;> split <;> simp_all <;> rfl; done)
    | (tab_unfold; done)
    | (tab_unfold; key_cases mv <;> key_cases bv <;> tab_close; done)

theorem ModifiedIntegrityImpact_Value_3 (mv : Int) (bv : Int) : Gen.T3.ModifiedIntegrityImpact_Value mv bv = V3.valueMCIA .MI mv bv := by
  first
    | (unfold Gen.T3.ModifiedIntegrityImpact_Value V3.valueMCIA; simp only [val_tie, ModifiedIntegrityImpact_String_3, ModifiedAttackComplexity_String_3]; split <;> split <;> simp_all <;> rfl; done)
    | (tab_unfold; done)
    | (tab_unfold; key_cases mv <;> key_cases bv <;> tab_close; done)

theorem ModifiedAvailabilityImpact_Value_3 (mv : Int) (bv : Int) : Gen.T3.ModifiedAvailabilityImpact_Value mv bv = V3.valueMCIA .MA mv bv := by
  first
    | (unfold Gen.T3.ModifiedAvailabilityImpact_Value V3.valueMCIA; simp only [val_tie, ModifiedAvailabilityImpact_String_3, ModifiedAttackComplexity_String_3]; split <;> split <;> simp_all <;> rfl; done)
    | (tab_unfold; done)
    | (tab_unfold; key_cases mv <;> key_cases bv <;> tab_close; done)

theorem ModifiedPrivilegesRequired_Value_3 (mpr ms s pr : Int) :
    Gen.T3.ModifiedPrivilegesRequired_Value mpr ms s pr = V3.valueMPR mpr ms s pr := by
  unfold Gen.T3.ModifiedPrivilegesRequired_Value V3.valueMPR
  simp only [ModifiedScope_IsChanged_3, PrivilegesRequired_Value_3]
  generalize V3.msIsChanged ms s = ch
  cases ch <;> (try tab_unfold) <;> key_cases mpr <;> tab_close

theorem Version_String_3 (v : Int) : Gen.T3.Version_String v = V3.verStr v := by
  first
    | (tab_unfold; done)
    | (tab_unfold; key_cases v <;> tab_close; done)

theorem get_3 (s : Bytes) : Gen.T3.get s = V3.verGet s := by
  first
    | (tab_unfold; done)
    | (tab_unfold; str_cases s; done)

theorem Severity_String_3 (v : Int) : Gen.T3.Severity_String v = V3.severityName v := by
  first
    | (tab_unfold; done)
    | (tab_unfold; key_cases v <;> tab_close; done)

/-- the obligation of the reverse look-ups: in every code table searched by a `for k, v := range` loop the codes are
    pairwise different, so the Go loop (unspecified iteration order) finds the entry the first-match search finds -/
theorem revTables_nodup_3 : ∀ t ∈ Gen.T3.revTables, (t.2.map (·.2)).Nodup := by decide

end v3

/-! ### v2 -/
section v2
open CvssVerif.V2

theorem GetAccessVector_2 (s : Bytes) : Gen.T2.GetAccessVector s = (V2.M2.spec .AV).get s := by
  first
    | (unfold Gen.T2.GetAccessVector; exact get_tie _ _ (by decide) s; done)
    | (tab_unfold; done)
    | (tab_unfold; str_cases s; done)

theorem AccessVector_String_2 (v : Int) : Gen.T2.AccessVector_String v = (V2.M2.spec .AV).str v := by
  first
    | (unfold Gen.T2.AccessVector_String; exact str_tie _ _ (by decide) v; done)
    | (tab_unfold; done)
    | (tab_unfold; key_cases v <;> tab_close; done)

theorem AccessVector_IsUnknown_2 (v : Int) : Gen.T2.AccessVector_IsUnknown v = (v != 0) := by
  first
    | (rfl; done)
    | (tab_unfold; done)
    | (tab_unfold; key_cases v <;> tab_close; done)

theorem AccessVector_Value_2 (v : Int) : Gen.T2.AccessVector_Value v = V2.value .AV v := by
  first
    | (unfold Gen.T2.AccessVector_Value V2.value; exact val_tie _ _ v; done)
    | (tab_unfold; done)
    | (tab_unfold; key_cases v <;> tab_close; done)

theorem GetAccessComplexity_2 (s : Bytes) : Gen.T2.GetAccessComplexity s = (V2.M2.spec .AC).get s := by
  first
    | (unfold Gen.T2.GetAccessComplexity; exact get_tie _ _ (by decide) s; done)
    | (tab_unfold; done)
    | (tab_unfold; str_cases s; done)

theorem AccessComplexity_String_2 (v : Int) : Gen.T2.AccessComplexity_String v = (V2.M2.spec .AC).str v := by
  first
    | (unfold Gen.T2.AccessComplexity_String; exact str_tie _ _ (by decide) v; done)
    | (tab_unfold; done)
    | (tab_unfold; key_cases v <;> tab_close; done)

theorem AccessComplexity_IsUnknown_2 (v : Int) : Gen.T2.AccessComplexity_IsUnknown v = (v != 0) := by
  first
    | (rfl; done)
    | (tab_unfold; done)
    | (tab_unfold; key_cases v <;> tab_close; done)

theorem AccessComplexity_Value_2 (v : Int) : Gen.T2.AccessComplexity_Value v = V2.value .AC v := by
  first
    | (unfold Gen.T2.AccessComplexity_Value V2.value; exact val_tie _ _ v; done)
    | (tab_unfold; done)
    | (tab_unfold; key_cases v <;> tab_close; done)

theorem GetAuthentication_2 (s : Bytes) : Gen.T2.GetAuthentication s = (V2.M2.spec .Au).get s := by
  first
    | (unfold Gen.T2.GetAuthentication; exact get_tie _ _ (by decide) s; done)
    | (tab_unfold; done)
    | (tab_unfold; str_cases s; done)

theorem Authentication_String_2 (v : Int) : Gen.T2.Authentication_String v = (V2.M2.spec .Au).str v := by
  first
    | (unfold Gen.T2.Authentication_String; exact str_tie _ _ (by decide) v; done)
    | (tab_unfold; done)
    | (tab_unfold; key_cases v <;> tab_close; done)

theorem Authentication_IsUnknown_2 (v : Int) : Gen.T2.Authentication_IsUnknown v = (v != 0) := by
  first
    | (rfl; done)
    | (tab_unfold; done)
    | (tab_unfold; key_cases v <;> tab_close; done)

theorem Authentication_Value_2 (v : Int) : Gen.T2.Authentication_Value v = V2.value .Au v := by
  first
    | (unfold Gen.T2.Authentication_Value V2.value; exact val_tie _ _ v; done)
    | (tab_unfold; done)
    | (tab_unfold; key_cases v <;> tab_close; done)

theorem GetConfidentialityImpact_2 (s : Bytes) : Gen.T2.GetConfidentialityImpact s = (V2.M2.spec .C).get s := by
  first
    | (unfold Gen.T2.GetConfidentialityImpact; exact get_tie _ _ (by decide) s; done)
    | (tab_unfold; done)
    | (tab_unfold; str_cases s; done)

theorem ConfidentialityImpact_String_2 (v : Int) : Gen.T2.ConfidentialityImpact_String v = (V2.M2.spec .C).str v := by
  first
    | (unfold Gen.T2.ConfidentialityImpact_String; exact str_tie _ _ (by decide) v; done)
    | (tab_unfold; done)
    | (tab_unfold; key_cases v <;> tab_close; done)

theorem ConfidentialityImpact_IsUnknown_2 (v : Int) : Gen.T2.ConfidentialityImpact_IsUnknown v = (v != 0) := by
  first
    | (rfl; done)
    | (tab_unfold; done)
    | (tab_unfold; key_cases v <;> tab_close; done)

theorem ConfidentialityImpact_Value_2 (v : Int) : Gen.T2.ConfidentialityImpact_Value v = V2.value .C v := by
  first
    | (unfold Gen.T2.ConfidentialityImpact_Value V2.value; exact val_tie _ _ v; done)
    | (tab_unfold; done)
    | (tab_unfold; key_cases v <;> tab_close; done)

theorem GetIntegrityImpact_2 (s : Bytes) : Gen.T2.GetIntegrityImpact s = (V2.M2.spec .I).get s := by
  first
    | (unfold Gen.T2.GetIntegrityImpact; exact get_tie _ _ (by decide) s; done)
    | (tab_unfold; done)
    | (tab_unfold; str_cases s; done)

theorem IntegrityImpact_String_2 (v : Int) : Gen.T2.IntegrityImpact_String v = (V2.M2.spec .I).str v := by
  first
    | (unfold Gen.T2.IntegrityImpact_String; exact str_tie _ _ (by decide) v; done)
    | (tab_unfold; done)
    | (tab_unfold; key_cases v <;> tab_close; done)

theorem IntegrityImpact_IsUnknown_2 (v : Int) : Gen.T2.IntegrityImpact_IsUnknown v = (v != 0) := by
  first
    | (rfl; done)
    | (tab_unfold; done)
    | (tab_unfold; key_cases v <;> tab_close; done)

theorem IntegrityImpact_Value_2 (v : Int) : Gen.T2.IntegrityImpact_Value v = V2.value .I v := by
  first
    | (unfold Gen.T2.IntegrityImpact_Value V2.value; exact val_tie _ _ v; done)
    | (tab_unfold; done)
    | (tab_unfold; key_cases v <;> tab_close; done)

theorem GetAvailabilityImpact_2 (s : Bytes) : Gen.T2.GetAvailabilityImpact s = (V2.M2.spec .A).get s := by
  first
    | (unfold Gen.T2.GetAvailabilityImpact; exact get_tie _ _ (by decide) s; done)
    | (tab_unfold; done)
    | (tab_unfold; str_cases s; done)

theorem AvailabilityImpact_String_2 (v : Int) : Gen.T2.AvailabilityImpact_String v = (V2.M2.spec .A).str v := by
  first
    | (unfold Gen.T2.AvailabilityImpact_String; exact str_tie _ _ (by decide) v; done)
    | (tab_unfold; done)
    | (tab_unfold; key_cases v <;> tab_close; done)

theorem AvailabilityImpact_IsUnknown_2 (v : Int) : Gen.T2.AvailabilityImpact_IsUnknown v = (v != 0) := by
  first
    | (rfl; done)
    | (tab_unfold; done)
    | (tab_unfold; key_cases v <;> tab_close; done)

theorem AvailabilityImpact_Value_2 (v : Int) : Gen.T2.AvailabilityImpact_Value v = V2.value .A v := by
  first
    | (unfold Gen.T2.AvailabilityImpact_Value V2.value; exact val_tie _ _ v; done)
    | (tab_unfold; done)
    | (tab_unfold; key_cases v <;> tab_close; done)

theorem GetExploitability_2 (s : Bytes) : Gen.T2.GetExploitability s = (V2.M2.spec .E).get s := by
  first
    | (unfold Gen.T2.GetExploitability; exact get_tie _ _ (by decide) s; done)
    | (tab_unfold; done)
    | (tab_unfold; str_cases s; done)

theorem Exploitability_String_2 (v : Int) : Gen.T2.Exploitability_String v = (V2.M2.spec .E).str v := by
  first
    | (unfold Gen.T2.Exploitability_String; exact str_tie _ _ (by decide) v; done)
    | (tab_unfold; done)
    | (tab_unfold; key_cases v <;> tab_close; done)

theorem Exploitability_IsValid_2 (v : Int) : Gen.T2.Exploitability_IsValid v = (v != 0) := by
  first
    | (rfl; done)
    | (tab_unfold; done)
    | (tab_unfold; key_cases v <;> tab_close; done)

theorem Exploitability_IsDefined_2 (v : Int) : Gen.T2.Exploitability_IsDefined v = (v != 0 && v != 1) := by
  first
    | (rfl; done)
    | (tab_unfold; done)
    | (tab_unfold; key_cases v <;> tab_close; done)

theorem Exploitability_Value_2 (v : Int) : Gen.T2.Exploitability_Value v = V2.value .E v := by
  first
    | (unfold Gen.T2.Exploitability_Value V2.value; exact val_tie _ _ v; done)
    | (tab_unfold; done)
    | (tab_unfold; key_cases v <;> tab_close; done)

theorem GetRemediationLevel_2 (s : Bytes) : Gen.T2.GetRemediationLevel s = (V2.M2.spec .RL).get s := by
  first
    | (unfold Gen.T2.GetRemediationLevel; exact get_tie _ _ (by decide) s; done)
    | (tab_unfold; done)
    | (tab_unfold; str_cases s; done)

theorem RemediationLevel_String_2 (v : Int) : Gen.T2.RemediationLevel_String v = (V2.M2.spec .RL).str v := by
  first
    | (unfold Gen.T2.RemediationLevel_String; exact str_tie _ _ (by decide) v; done)
    | (tab_unfold; done)
    | (tab_unfold; key_cases v <;> tab_close; done)

theorem RemediationLevel_IsValid_2 (v : Int) : Gen.T2.RemediationLevel_IsValid v = (v != 0) := by
  first
    | (rfl; done)
    | (tab_unfold; done)
    | (tab_unfold; key_cases v <;> tab_close; done)

theorem RemediationLevel_IsDefined_2 (v : Int) : Gen.T2.RemediationLevel_IsDefined v = (v != 0 && v != 1) := by
  first
    | (rfl; done)
    | (tab_unfold; done)
    | (tab_unfold; key_cases v <;> tab_close; done)

theorem RemediationLevel_Value_2 (v : Int) : Gen.T2.RemediationLevel_Value v = V2.value .RL v := by
  first
    | (unfold Gen.T2.RemediationLevel_Value V2.value; exact val_tie _ _ v; done)
    | (tab_unfold; done)
    | (tab_unfold; key_cases v <;> tab_close; done)

theorem GetReportConfidence_2 (s : Bytes) : Gen.T2.GetReportConfidence s = (V2.M2.spec .RC).get s := by
  first
    | (unfold Gen.T2.GetReportConfidence; exact get_tie _ _ (by decide) s; done)
    | (tab_unfold; done)
    | (tab_unfold; str_cases s; done)

theorem ReportConfidence_String_2 (v : Int) : Gen.T2.ReportConfidence_String v = (V2.M2.spec .RC).str v := by
  first
    | (unfold Gen.T2.ReportConfidence_String; exact str_tie _ _ (by decide) v; done)
    | (tab_unfold; done)
    | (tab_unfold; key_cases v <;> tab_close; done)

theorem ReportConfidence_IsValid_2 (v : Int) : Gen.T2.ReportConfidence_IsValid v = (v != 0) := by
  first
    | (rfl; done)
    | (tab_unfold; done)
    | (tab_unfold; key_cases v <;> tab_close; done)

theorem ReportConfidence_IsDefined_2 (v : Int) : Gen.T2.ReportConfidence_IsDefined v = (v != 0 && v != 1) := by
  first
    | (rfl; done)
    | (tab_unfold; done)
    | (tab_unfold; key_cases v <;> tab_close; done)

theorem ReportConfidence_Value_2 (v : Int) : Gen.T2.ReportConfidence_Value v = V2.value .RC v := by
  first
    | (unfold Gen.T2.ReportConfidence_Value V2.value; exact val_tie _ _ v; done)
    | (tab_unfold; done)
    | (tab_unfold; key_cases v <;> tab_close; done)

theorem GetCollateralDamagePotential_2 (s : Bytes) : Gen.T2.GetCollateralDamagePotential s = (V2.M2.spec .CDP).get s := by
  first
    | (unfold Gen.T2.GetCollateralDamagePotential; exact get_tie _ _ (by decide) s; done)
    | (tab_unfold; done)
    | (tab_unfold; str_cases s; done)

theorem CollateralDamagePotential_String_2 (v : Int) : Gen.T2.CollateralDamagePotential_String v = (V2.M2.spec .CDP).str v := by
  first
    | (unfold Gen.T2.CollateralDamagePotential_String; exact str_tie _ _ (by decide) v; done)
    | (tab_unfold; done)
    | (tab_unfold; key_cases v <;> tab_close; done)

theorem CollateralDamagePotential_IsValid_2 (v : Int) : Gen.T2.CollateralDamagePotential_IsValid v = (v != 0) := by
  first
    | (rfl; done)
    | (tab_unfold; done)
    | (tab_unfold; key_cases v <;> tab_close; done)

theorem CollateralDamagePotential_IsDefined_2 (v : Int) : Gen.T2.CollateralDamagePotential_IsDefined v = (v != 0 && v != 1) := by
  first
    | (rfl; done)
    | (tab_unfold; done)
    | (tab_unfold; key_cases v <;> tab_close; done)

theorem CollateralDamagePotential_Value_2 (v : Int) : Gen.T2.CollateralDamagePotential_Value v = V2.value .CDP v := by
  first
    | (unfold Gen.T2.CollateralDamagePotential_Value V2.value; exact val_tie _ _ v; done)
    | (tab_unfold; done)
    | (tab_unfold; key_cases v <;> tab_close; done)

theorem GetTargetDistribution_2 (s : Bytes) : Gen.T2.GetTargetDistribution s = (V2.M2.spec .TD).get s := by
  first
    | (unfold Gen.T2.GetTargetDistribution; exact get_tie _ _ (by decide) s; done)
    | (tab_unfold; done)
    | (tab_unfold; str_cases s; done)

theorem TargetDistribution_String_2 (v : Int) : Gen.T2.TargetDistribution_String v = (V2.M2.spec .TD).str v := by
  first
    | (unfold Gen.T2.TargetDistribution_String; exact str_tie _ _ (by decide) v; done)
    | (tab_unfold; done)
    | (tab_unfold; key_cases v <;> tab_close; done)

theorem TargetDistribution_IsValid_2 (v : Int) : Gen.T2.TargetDistribution_IsValid v = (v != 0) := by
  first
    | (rfl; done)
    | (tab_unfold; done)
    | (tab_unfold; key_cases v <;> tab_close; done)

theorem TargetDistribution_IsDefined_2 (v : Int) : Gen.T2.TargetDistribution_IsDefined v = (v != 0 && v != 1) := by
  first
    | (rfl; done)
    | (tab_unfold; done)
    | (tab_unfold; key_cases v <;> tab_close; done)

theorem TargetDistribution_Value_2 (v : Int) : Gen.T2.TargetDistribution_Value v = V2.value .TD v := by
  first
    | (unfold Gen.T2.TargetDistribution_Value V2.value; exact val_tie _ _ v; done)
    | (tab_unfold; done)
    | (tab_unfold; key_cases v <;> tab_close; done)

theorem GetConfidentialityRequirement_2 (s : Bytes) : Gen.T2.GetConfidentialityRequirement s = (V2.M2.spec .CR).get s := by
  first
    | (unfold Gen.T2.GetConfidentialityRequirement; exact get_tie _ _ (by decide) s; done)
    | (tab_unfold; done)
    | (tab_unfold; str_cases s; done)

theorem ConfidentialityRequirement_String_2 (v : Int) : Gen.T2.ConfidentialityRequirement_String v = (V2.M2.spec .CR).str v := by
  first
    | (unfold Gen.T2.ConfidentialityRequirement_String; exact str_tie _ _ (by decide) v; done)
    | (tab_unfold; done)
    | (tab_unfold; key_cases v <;> tab_close; done)

theorem ConfidentialityRequirement_IsValid_2 (v : Int) : Gen.T2.ConfidentialityRequirement_IsValid v = (v != 0) := by
  first
    | (rfl; done)
    | (tab_unfold; done)
    | (tab_unfold; key_cases v <;> tab_close; done)

theorem ConfidentialityRequirement_IsDefined_2 (v : Int) : Gen.T2.ConfidentialityRequirement_IsDefined v = (v != 0 && v != 1) := by
  first
    | (rfl; done)
    | (tab_unfold; done)
    | (tab_unfold; key_cases v <;> tab_close; done)

theorem ConfidentialityRequirement_Value_2 (v : Int) : Gen.T2.ConfidentialityRequirement_Value v = V2.value .CR v := by
  first
    | (unfold Gen.T2.ConfidentialityRequirement_Value V2.value; exact val_tie _ _ v; done)
    | (tab_unfold; done)
    | (tab_unfold; key_cases v <;> tab_close; done)

theorem GetIntegrityRequirement_2 (s : Bytes) : Gen.T2.GetIntegrityRequirement s = (V2.M2.spec .IR).get s := by
  first
    | (unfold Gen.T2.GetIntegrityRequirement; exact get_tie _ _ (by decide) s; done)
    | (tab_unfold; done)
    | (tab_unfold; str_cases s; done)

theorem IntegrityRequirement_String_2 (v : Int) : Gen.T2.IntegrityRequirement_String v = (V2.M2.spec .IR).str v := by
  first
    | (unfold Gen.T2.IntegrityRequirement_String; exact str_tie _ _ (by decide) v; done)
    | (tab_unfold; done)
    | (tab_unfold; key_cases v <;> tab_close; done)

theorem IntegrityRequirement_IsValid_2 (v : Int) : Gen.T2.IntegrityRequirement_IsValid v = (v != 0) := by
  first
    | (rfl; done)
    | (tab_unfold; done)
    | (tab_unfold; key_cases v <;> tab_close; done)

theorem IntegrityRequirement_IsDefined_2 (v : Int) : Gen.T2.IntegrityRequirement_IsDefined v = (v != 0 && v != 1) := by
  first
    | (rfl; done)
    | (tab_unfold; done)
    | (tab_unfold; key_cases v <;> tab_close; done)

theorem IntegrityRequirement_Value_2 (v : Int) : Gen.T2.IntegrityRequirement_Value v = V2.value .IR v := by
  first
    | (unfold Gen.T2.IntegrityRequirement_Value V2.value; exact val_tie _ _ v; done)
    | (tab_unfold; done)
    | (tab_unfold; key_cases v <;> tab_close; done)

theorem GetAvailabilityRequirement_2 (s : Bytes) : Gen.T2.GetAvailabilityRequirement s = (V2.M2.spec .AR).get s := by
  first
    | (unfold Gen.T2.GetAvailabilityRequirement; exact get_tie _ _ (by decide) s; done)
    | (tab_unfold; done)
    | (tab_unfold; str_cases s; done)

theorem AvailabilityRequirement_String_2 (v : Int) : Gen.T2.AvailabilityRequirement_String v = (V2.M2.spec .AR).str v := by
  first
    | (unfold Gen.T2.AvailabilityRequirement_String; exact str_tie _ _ (by decide) v; done)
    | (tab_unfold; done)
    | (tab_unfold; key_cases v <;> tab_close; done)

theorem AvailabilityRequirement_IsValid_2 (v : Int) : Gen.T2.AvailabilityRequirement_IsValid v = (v != 0) := by
  first
    | (rfl; done)
    | (tab_unfold; done)
    | (tab_unfold; key_cases v <;> tab_close; done)

theorem AvailabilityRequirement_IsDefined_2 (v : Int) : Gen.T2.AvailabilityRequirement_IsDefined v = (v != 0 && v != 1) := by
  first
    | (rfl; done)
    | (tab_unfold; done)
    | (tab_unfold; key_cases v <;> tab_close; done)

theorem AvailabilityRequirement_Value_2 (v : Int) : Gen.T2.AvailabilityRequirement_Value v = V2.value .AR v := by
  first
    | (unfold Gen.T2.AvailabilityRequirement_Value V2.value; exact val_tie _ _ v; done)
    | (tab_unfold; done)
    | (tab_unfold; key_cases v <;> tab_close; done)

theorem Severity_String_2 (v : Int) : Gen.T2.Severity_String v = V2.severityName v := by
  first
    | (tab_unfold; done)
    | (tab_unfold; key_cases v <;> tab_close; done)

/-- the obligation of the reverse look-ups: in every code table searched by a `for k, v := range` loop the codes are
    pairwise different, so the Go loop (unspecified iteration order) finds the entry the first-match search finds -/
theorem revTables_nodup_2 : ∀ t ∈ Gen.T2.revTables, (t.2.map (·.2)).Nodup := by decide

end v2

end CvssVerif.TableTie
