/- The constructors, `Decode`, `decodeOne`, `GetError`, `Encode`, `String`, `IsEmpty` and `GetVersion` of v3/metric and
   v2/metric as translated from the source text on every run (`Generated/Decoders.lean`, go/decoders) are the model's:
   for EVERY object and EVERY byte string the translated function returns `some` of what the model's function returns —
   so the source does not panic at an index or slice expression either (`none` is a panic in the translation).  The
   per-metric functions the decoders call are the ones of go/tables (`Proofs/Tables.lean`).

   The model's functions are the ones all theorems of C07–C12 and C14 are stated about (`decode`, `decodeOne` through
   `Proofs/Deleg.lean`, `getError…`, `encode`). -/
import CvssVerif.Generated.Decoders
import CvssVerif.Proofs.Tables
import CvssVerif.Proofs.Deleg
namespace CvssVerif.DecoderTie
open CvssVerif CvssVerif.GoRt CvssVerif.TableTie

/-- a metric name is one of the names of the two specifications or none of them; `t` closes each case -/
macro "name_cases" s:ident " with " t:tactic : tactic => `(tactic|
  (by_cases h0 : $s = ([65, 86] : Bytes)
   · subst h0; $t
   have : (([65, 86] : Bytes) == $s) = false := by rw [beq_eq_false_iff_ne]; exact fun e => h0 e.symm
   have : ($s == ([65, 86] : Bytes)) = false := by rw [beq_eq_false_iff_ne]; exact h0
   by_cases h1 : $s = ([65, 67] : Bytes)
   · subst h1; $t
   have : (([65, 67] : Bytes) == $s) = false := by rw [beq_eq_false_iff_ne]; exact fun e => h1 e.symm
   have : ($s == ([65, 67] : Bytes)) = false := by rw [beq_eq_false_iff_ne]; exact h1
   by_cases h2 : $s = ([80, 82] : Bytes)
   · subst h2; $t
   have : (([80, 82] : Bytes) == $s) = false := by rw [beq_eq_false_iff_ne]; exact fun e => h2 e.symm
   have : ($s == ([80, 82] : Bytes)) = false := by rw [beq_eq_false_iff_ne]; exact h2
   by_cases h3 : $s = ([85, 73] : Bytes)
   · subst h3; $t
   have : (([85, 73] : Bytes) == $s) = false := by rw [beq_eq_false_iff_ne]; exact fun e => h3 e.symm
   have : ($s == ([85, 73] : Bytes)) = false := by rw [beq_eq_false_iff_ne]; exact h3
   by_cases h4 : $s = ([83] : Bytes)
   · subst h4; $t
   have : (([83] : Bytes) == $s) = false := by rw [beq_eq_false_iff_ne]; exact fun e => h4 e.symm
   have : ($s == ([83] : Bytes)) = false := by rw [beq_eq_false_iff_ne]; exact h4
   by_cases h5 : $s = ([67] : Bytes)
   · subst h5; $t
   have : (([67] : Bytes) == $s) = false := by rw [beq_eq_false_iff_ne]; exact fun e => h5 e.symm
   have : ($s == ([67] : Bytes)) = false := by rw [beq_eq_false_iff_ne]; exact h5
   by_cases h6 : $s = ([73] : Bytes)
   · subst h6; $t
   have : (([73] : Bytes) == $s) = false := by rw [beq_eq_false_iff_ne]; exact fun e => h6 e.symm
   have : ($s == ([73] : Bytes)) = false := by rw [beq_eq_false_iff_ne]; exact h6
   by_cases h7 : $s = ([65] : Bytes)
   · subst h7; $t
   have : (([65] : Bytes) == $s) = false := by rw [beq_eq_false_iff_ne]; exact fun e => h7 e.symm
   have : ($s == ([65] : Bytes)) = false := by rw [beq_eq_false_iff_ne]; exact h7
   by_cases h8 : $s = ([69] : Bytes)
   · subst h8; $t
   have : (([69] : Bytes) == $s) = false := by rw [beq_eq_false_iff_ne]; exact fun e => h8 e.symm
   have : ($s == ([69] : Bytes)) = false := by rw [beq_eq_false_iff_ne]; exact h8
   by_cases h9 : $s = ([82, 76] : Bytes)
   · subst h9; $t
   have : (([82, 76] : Bytes) == $s) = false := by rw [beq_eq_false_iff_ne]; exact fun e => h9 e.symm
   have : ($s == ([82, 76] : Bytes)) = false := by rw [beq_eq_false_iff_ne]; exact h9
   by_cases h10 : $s = ([82, 67] : Bytes)
   · subst h10; $t
   have : (([82, 67] : Bytes) == $s) = false := by rw [beq_eq_false_iff_ne]; exact fun e => h10 e.symm
   have : ($s == ([82, 67] : Bytes)) = false := by rw [beq_eq_false_iff_ne]; exact h10
   by_cases h11 : $s = ([67, 82] : Bytes)
   · subst h11; $t
   have : (([67, 82] : Bytes) == $s) = false := by rw [beq_eq_false_iff_ne]; exact fun e => h11 e.symm
   have : ($s == ([67, 82] : Bytes)) = false := by rw [beq_eq_false_iff_ne]; exact h11
   by_cases h12 : $s = ([73, 82] : Bytes)
   · subst h12; $t
   have : (([73, 82] : Bytes) == $s) = false := by rw [beq_eq_false_iff_ne]; exact fun e => h12 e.symm
   have : ($s == ([73, 82] : Bytes)) = false := by rw [beq_eq_false_iff_ne]; exact h12
   by_cases h13 : $s = ([65, 82] : Bytes)
   · subst h13; $t
   have : (([65, 82] : Bytes) == $s) = false := by rw [beq_eq_false_iff_ne]; exact fun e => h13 e.symm
   have : ($s == ([65, 82] : Bytes)) = false := by rw [beq_eq_false_iff_ne]; exact h13
   by_cases h14 : $s = ([77, 65, 86] : Bytes)
   · subst h14; $t
   have : (([77, 65, 86] : Bytes) == $s) = false := by rw [beq_eq_false_iff_ne]; exact fun e => h14 e.symm
   have : ($s == ([77, 65, 86] : Bytes)) = false := by rw [beq_eq_false_iff_ne]; exact h14
   by_cases h15 : $s = ([77, 65, 67] : Bytes)
   · subst h15; $t
   have : (([77, 65, 67] : Bytes) == $s) = false := by rw [beq_eq_false_iff_ne]; exact fun e => h15 e.symm
   have : ($s == ([77, 65, 67] : Bytes)) = false := by rw [beq_eq_false_iff_ne]; exact h15
   by_cases h16 : $s = ([77, 80, 82] : Bytes)
   · subst h16; $t
   have : (([77, 80, 82] : Bytes) == $s) = false := by rw [beq_eq_false_iff_ne]; exact fun e => h16 e.symm
   have : ($s == ([77, 80, 82] : Bytes)) = false := by rw [beq_eq_false_iff_ne]; exact h16
   by_cases h17 : $s = ([77, 85, 73] : Bytes)
   · subst h17; $t
   have : (([77, 85, 73] : Bytes) == $s) = false := by rw [beq_eq_false_iff_ne]; exact fun e => h17 e.symm
   have : ($s == ([77, 85, 73] : Bytes)) = false := by rw [beq_eq_false_iff_ne]; exact h17
   by_cases h18 : $s = ([77, 83] : Bytes)
   · subst h18; $t
   have : (([77, 83] : Bytes) == $s) = false := by rw [beq_eq_false_iff_ne]; exact fun e => h18 e.symm
   have : ($s == ([77, 83] : Bytes)) = false := by rw [beq_eq_false_iff_ne]; exact h18
   by_cases h19 : $s = ([77, 67] : Bytes)
   · subst h19; $t
   have : (([77, 67] : Bytes) == $s) = false := by rw [beq_eq_false_iff_ne]; exact fun e => h19 e.symm
   have : ($s == ([77, 67] : Bytes)) = false := by rw [beq_eq_false_iff_ne]; exact h19
   by_cases h20 : $s = ([77, 73] : Bytes)
   · subst h20; $t
   have : (([77, 73] : Bytes) == $s) = false := by rw [beq_eq_false_iff_ne]; exact fun e => h20 e.symm
   have : ($s == ([77, 73] : Bytes)) = false := by rw [beq_eq_false_iff_ne]; exact h20
   by_cases h21 : $s = ([77, 65] : Bytes)
   · subst h21; $t
   have : (([77, 65] : Bytes) == $s) = false := by rw [beq_eq_false_iff_ne]; exact fun e => h21 e.symm
   have : ($s == ([77, 65] : Bytes)) = false := by rw [beq_eq_false_iff_ne]; exact h21
   by_cases h22 : $s = ([65, 117] : Bytes)
   · subst h22; $t
   have : (([65, 117] : Bytes) == $s) = false := by rw [beq_eq_false_iff_ne]; exact fun e => h22 e.symm
   have : ($s == ([65, 117] : Bytes)) = false := by rw [beq_eq_false_iff_ne]; exact h22
   by_cases h23 : $s = ([67, 68, 80] : Bytes)
   · subst h23; $t
   have : (([67, 68, 80] : Bytes) == $s) = false := by rw [beq_eq_false_iff_ne]; exact fun e => h23 e.symm
   have : ($s == ([67, 68, 80] : Bytes)) = false := by rw [beq_eq_false_iff_ne]; exact h23
   by_cases h24 : $s = ([84, 68] : Bytes)
   · subst h24; $t
   have : (([84, 68] : Bytes) == $s) = false := by rw [beq_eq_false_iff_ne]; exact fun e => h24 e.symm
   have : ($s == ([84, 68] : Bytes)) = false := by rw [beq_eq_false_iff_ne]; exact h24
   $t))

section v3
open CvssVerif.V3

theorem Base_GetError_3 (o : Obj3) : Gen.D3.Base_GetError o = some (o, getErrorBase o) := by
  unfold Gen.D3.Base_GetError getErrorBase
  simp only [AttackVector_IsUnknown_3, AttackComplexity_IsUnknown_3, PrivilegesRequired_IsUnknown_3, UserInteraction_IsUnknown_3,
    Scope_IsUnknown_3, ConfidentialityImpact_IsUnknown_3, IntegrityImpact_IsUnknown_3, AvailabilityImpact_IsUnknown_3]
  simp only [baseMs, List.any, Bool.or_false]
  split <;> split <;> first | (simp_all; done) | grind

theorem Temporal_GetError_3 (o : Obj3) : Gen.D3.Temporal_GetError o = some (o, getErrorTemporal o) := by
  unfold Gen.D3.Temporal_GetError getErrorTemporal
  simp only [Base_GetError_3, Exploitability_IsValid_3, RemediationLevel_IsValid_3, ReportConfidence_IsValid_3]
  simp only [tempMs, List.any, Bool.or_false]
  cases getErrorBase o <;> simp
  split <;> first | (simp_all; done) | grind


theorem Environmental_GetError_3 (o : Obj3) : Gen.D3.Environmental_GetError o = some (o, getErrorEnv o) := by
  unfold Gen.D3.Environmental_GetError getErrorEnv
  simp only [Temporal_GetError_3, ConfidentialityRequirement_IsValid_3, IntegrityRequirement_IsValid_3, AvailabilityRequirement_IsValid_3,
    ModifiedAttackVector_IsValid_3, ModifiedAttackComplexity_IsValid_3, ModifiedPrivilegesRequired_IsValid_3,
    ModifiedUserInteraction_IsValid_3, ModifiedScope_IsValid_3, ModifiedConfidentialityImpact_IsValid_3,
    ModifiedIntegrityImpact_IsValid_3, ModifiedAvailabilityImpact_IsValid_3]
  simp only [envMs, List.any, Bool.or_false]
  cases getErrorTemporal o <;> simp
  split <;> first | (simp_all; done) | grind

theorem fm_cons {α β : Type} (p : α → Bool) (f : α → β) (a : α) (l : List α) :
    ((a :: l).filter p).map f = (if p a then [f a] else []) ++ (l.filter p).map f := by
  by_cases h : p a <;> simp [List.filter_cons, h]
theorem ite_snoc {α : Type} (c : Bool) (r : List α) (x : α) : (if c then r ++ [x] else r) = r ++ (if c then [x] else []) := by
  cases c <;> simp

theorem Base_Encode_3 (o : Obj3) : Gen.D3.Base_Encode o = some (o, encode .base o) := by
  unfold Gen.D3.Base_Encode encode encodeBaseStr
  simp only [Base_GetError_3, ite_snoc, baseMs, fm_cons, tokOf, M3.spec,
    AttackVector_String_3, AttackComplexity_String_3, PrivilegesRequired_String_3, UserInteraction_String_3, Scope_String_3,
    ConfidentialityImpact_String_3, IntegrityImpact_String_3, AvailabilityImpact_String_3, Version_String_3]
  simp [colon, slash]

theorem Temporal_Encode_3 (o : Obj3) : Gen.D3.Temporal_Encode o = some (o, encode .temporal o) := by
  unfold Gen.D3.Temporal_Encode
  simp only [Base_Encode_3, Temporal_GetError_3, encode, encodeTemporalStr, tempMs, tokOf, M3.spec,
    Exploitability_String_3, RemediationLevel_String_3, ReportConfidence_String_3]
  simp [colon, slash]

theorem Environmental_Encode_3 (o : Obj3) : Gen.D3.Environmental_Encode o = some (o, encode .environmental o) := by
  unfold Gen.D3.Environmental_Encode
  simp only [Temporal_Encode_3, Environmental_GetError_3, encode, encodeEnvStr, encodeTemporalStr, envMs, tempMs, tokOf, M3.spec,
    ConfidentialityRequirement_String_3, IntegrityRequirement_String_3, AvailabilityRequirement_String_3,
    ModifiedAttackVector_String_3, ModifiedAttackComplexity_String_3, ModifiedPrivilegesRequired_String_3,
    ModifiedUserInteraction_String_3, ModifiedScope_String_3, ModifiedConfidentialityImpact_String_3,
    ModifiedIntegrityImpact_String_3, ModifiedAvailabilityImpact_String_3]
  cases getErrorEnv o <;> simp [colon, slash]

theorem String_3 (o : Obj3) :
    Gen.D3.Base_String o = some (o, (encode .base o).1) ∧ Gen.D3.Temporal_String o = some (o, (encode .temporal o).1) ∧
    Gen.D3.Environmental_String o = some (o, (encode .environmental o).1) := by
  unfold Gen.D3.Base_String Gen.D3.Temporal_String Gen.D3.Environmental_String
  simp only [Base_Encode_3, Temporal_Encode_3, Environmental_Encode_3]
  simp

theorem GetVersion_3 (s : Bytes) :
    Gen.D3.GetVersion s = some (match getVersion s with | .ok v => (v, none) | .error e => (0, some e)) := by
  unfold Gen.D3.GetVersion getVersion colon
  simp only [get_3]
  generalize split 58 s = l
  rcases l with _ | ⟨a, _ | ⟨b, _ | ⟨c, l⟩⟩⟩ <;> simp <;> split <;> simp_all

theorem constructors_3 :
    Gen.D3.NewEnvironmental.ver = Obj3.new.ver ∧ (∀ m, Gen.D3.NewEnvironmental.field m = Obj3.new.field m) ∧
    (∀ m, Gen.D3.NewEnvironmental.named m = Obj3.new.named m) ∧
    Gen.D3.NewTemporal.ver = 0 ∧ (∀ m ∈ baseMs ++ tempMs, Gen.D3.NewTemporal.field m = Obj3.new.field m) ∧ (∀ m, Gen.D3.NewTemporal.named m = false) ∧
    Gen.D3.NewBase.ver = 0 ∧ (∀ m ∈ baseMs, Gen.D3.NewBase.field m = Obj3.new.field m) ∧ (∀ m, Gen.D3.NewBase.named m = false) := by
  refine ⟨rfl, ?_, ?_, rfl, ?_, ?_, rfl, ?_, ?_⟩
  · intro m; cases m <;> rfl
  · intro m; rfl
  · decide
  · intro m; rfl
  · decide
  · intro m; rfl

theorem set_field_same3 (o : Obj3) (m : M3) (x : Int) : (o.set m x).field m = x := by simp [Obj3.set]

theorem Base_decodeOne_3 (o : Obj3) (tok : Bytes) : Gen.D3.Base_decodeOne o tok = some (decodeOneBase o tok) := by
  unfold Gen.D3.Base_decodeOne decodeOneBase decodeOwn colon
  simp only [GetAttackVector_3, GetAttackComplexity_3, GetPrivilegesRequired_3, GetUserInteraction_3, GetScope_3,
    GetConfidentialityImpact_3, GetIntegrityImpact_3, GetAvailabilityImpact_3]
  generalize split 58 tok = l
  rcases l with _ | ⟨n, _ | ⟨v, _ | ⟨w, l⟩⟩⟩
  · simp
  · simp
  · by_cases hn : n = []
    · simp [hn]
    · by_cases hv : v = []
      · simp [hn, hv]
      · simp only [namesGet, lvlMs, baseMs]
        name_cases n with (simp [*, List.find?, M3.spec, set_field_same3] <;> (repeat' split) <;> simp_all)
  · simp

/-- the tactic that proves "own part of decodeOne = decodeOwn ms", after the delegation has been resolved -/
macro "own_tie" : tactic => `(tactic|
  (generalize split 58 _ = l
   rcases l with _ | ⟨n, _ | ⟨v, _ | ⟨w, l⟩⟩⟩
   · simp
   · simp
   · by_cases hn : n = []
     · simp [hn]
     · by_cases hv : v = []
       · simp [hn, hv]
       · simp only [namesGet, lvlMs, baseMs, tempMs, envMs]
         name_cases n with (simp [*, List.find?, M3.spec, set_field_same3] <;> (repeat' split) <;> simp_all)
   · simp))

/-- when a level answers "not supported metric" the token has the shape `name:value` with both parts non-empty and the object is
    unchanged (so a higher level need not test the shape again) -/
theorem decodeOwn_nsm3 {own : List M3} {o o' : Obj3} {tok : Bytes} (h : decodeOwn own o tok = (o', some Err.notSupportMetric)) :
    ∃ n v, split 58 tok = [n, v] ∧ n ≠ [] ∧ v ≠ [] ∧ o' = o := by
  unfold decodeOwn colon at h
  split at h
  · rename_i n v hs
    by_cases hnv : n = [] ∨ v = []
    · simp [hnv] at h
    · simp only [hnv, if_false] at h
      cases hf : own.find? (fun m => m.spec.name == n) with
      | none =>
        simp only [hf] at h
        exact ⟨n, v, hs, fun e => hnv (Or.inl e), fun e => hnv (Or.inr e), (Prod.mk.inj h).1.symm⟩
      | some m =>
        simp only [hf] at h
        by_cases hb : o.named m
        · simp [hb] at h
        · simp only [hb] at h
          by_cases hz : m.spec.get v = 0 <;> simp [hz] at h
  · simp at h

/-- the own part of a higher level's `decodeOne` once the lower level has answered "not supported metric": the token shape is known,
    whether the source tests it again or not -/
macro "deleg_tie3" hr:term : tactic => `(tactic|
  (obtain ⟨n, v, hs, hn, hv, ho⟩ := $hr
   subst ho
   simp only [orElse]
   unfold decodeOwn colon
   simp only [hs]
   simp only [namesGet, lvlMs, baseMs, tempMs, envMs]
   name_cases n with (simp [*, List.find?, M3.spec, set_field_same3] <;> (repeat' split) <;> simp_all)))

theorem Temporal_decodeOne_3 (o : Obj3) (tok : Bytes) : Gen.D3.Temporal_decodeOne o tok = some (decodeOneTemporal o tok) := by
  unfold Gen.D3.Temporal_decodeOne decodeOneTemporal
  simp only [Base_decodeOne_3, GetExploitability_3, GetRemediationLevel_3, GetReportConfidence_3]
  rcases hr : decodeOneBase o tok with ⟨o', e⟩
  rcases e with _ | e
  · simp [orElse]
  · by_cases he : e = Err.notSupportMetric
    · subst he
      deleg_tie3 (decodeOwn_nsm3 hr)
    · cases e <;> simp_all [orElse]

theorem decodeOneTemporal_nsm3 {o o' : Obj3} {tok : Bytes} (h : decodeOneTemporal o tok = (o', some Err.notSupportMetric)) :
    ∃ n v, split 58 tok = [n, v] ∧ n ≠ [] ∧ v ≠ [] ∧ o' = o := by
  unfold decodeOneTemporal orElse at h
  rcases hb : decodeOneBase o tok with ⟨o1, e1⟩
  rw [hb] at h
  rcases e1 with _ | e1
  · simp at h
  · by_cases he : e1 = Err.notSupportMetric
    · subst he
      simp only at h
      obtain ⟨n, v, hs, hn, hv, ho⟩ := decodeOwn_nsm3 h
      obtain ⟨_, _, _, _, _, ho1⟩ := decodeOwn_nsm3 hb
      exact ⟨n, v, hs, hn, hv, by rw [ho, ho1]⟩
    · cases e1 <;> simp_all

theorem Environmental_decodeOne_3 (o : Obj3) (tok : Bytes) : Gen.D3.Environmental_decodeOne o tok = some (decodeOneEnv o tok) := by
  unfold Gen.D3.Environmental_decodeOne decodeOneEnv
  simp only [Temporal_decodeOne_3, GetConfidentialityRequirement_3, GetIntegrityRequirement_3, GetAvailabilityRequirement_3,
    GetModifiedAttackVector_3, GetModifiedAttackComplexity_3, GetModifiedPrivilegesRequired_3, GetModifiedUserInteraction_3,
    GetModifiedScope_3, GetModifiedConfidentialityImpact_3, GetModifiedIntegrityImpact_3, GetModifiedAvailabilityImpact_3]
  rcases hr : decodeOneTemporal o tok with ⟨o', e⟩
  rcases e with _ | e
  · simp [orElse]
  · by_cases he : e = Err.notSupportMetric
    · subst he
      deleg_tie3 (decodeOneTemporal_nsm3 hr)
    · cases e <;> simp_all [orElse]

/-- the body of the loop of `Decode`, in the form the generated lambda takes once `decodeOne` has been rewritten -/
def loopBody {ρ : Type} (dec : Obj3 → Bytes → Obj3 × Option Err) (mk : Obj3 → Option Err → ρ) :
    Obj3 × Option Err → Bytes → Option (Step (Obj3 × Option Err) ρ) :=
  fun x value =>
    if (dec x.1 value).2.isSome then
      (if (!((dec x.1 value).2 == some Err.notSupportMetric)) then some (Step.ret (mk (dec x.1 value).1 (dec x.1 value).2))
       else some (Step.next ((dec x.1 value).1, (dec x.1 value).2)))
    else some (Step.next ((dec x.1 value).1, x.2))

/-- the generated loop is the model's `decodeLoop` (the remembered error is none or not-supported-metric) -/
theorem loop_tie {ρ : Type} (L : Level) (mk : Obj3 → Option Err → ρ) (toks : List Bytes) (o : Obj3) (last : Option Err)
    (hl : last = none ∨ last = some Err.notSupportMetric) :
    forEach toks (o, last) (loopBody (decodeOne L) mk) =
      some (match decodeLoop L o last toks with
            | (o', some e) => if e = Err.notSupportMetric then Step.next (o', some e) else Step.ret (mk o' (some e))
            | (o', none) => Step.next (o', none)) := by
  induction toks generalizing o last with
  | nil =>
    rcases hl with rfl | rfl <;> simp [forEach, decodeLoop]
  | cons t ts ih =>
    rw [forEach, decodeLoop]
    rcases hd : decodeOne L o t with ⟨o', e⟩
    rcases e with _ | e
    · have hb : loopBody (decodeOne L) mk (o, last) t = some (Step.next (o', last)) := by simp [loopBody, hd]
      rw [hb]; exact ih o' last hl
    · by_cases he : e = Err.notSupportMetric
      · subst he
        have hb : loopBody (decodeOne L) mk (o, last) t = some (Step.next (o', some Err.notSupportMetric)) := by simp [loopBody, hd]
        rw [hb]; exact ih o' _ (Or.inr rfl)
      · have hb : loopBody (decodeOne L) mk (o, last) t = some (Step.ret (mk o' (some e))) := by simp [loopBody, hd, he]
        rw [hb]
        cases e <;> simp_all

theorem Base_Decode_3 (o : Obj3) (v : Bytes) :
    Gen.D3.Base_Decode o v = some ((decode .base o v).1, ((decode .base o v).2.isNone, (decode .base o v).2)) := by
  unfold Gen.D3.Base_Decode decode slash
  simp only [GetVersion_3, Base_decodeOne_3, Base_GetError_3]
  rcases hs : split 47 v with _ | ⟨hd, rest⟩
  · exact absurd hs (List.splitOn_ne_nil 47 v)
  · simp only [List.length_cons, List.getD_cons_zero, List.drop_succ_cons, List.drop_zero]
    have hde : ∀ o t, decodeOneBase o t = decodeOne .base o t := fun o t => decodeOneLit_eq .base o t
    simp only [hde]
    rcases hv : getVersion hd with e | ver
    · simp
    · by_cases h0 : ver = 0
      · simp [h0]
      · have hb : (fun (x : Obj3 × Option Err) (value_ : Bytes) =>
              if (decodeOne .base x.fst value_).snd.isSome = true then
                if (!(decodeOne .base x.fst value_).snd == some Err.notSupportMetric) = true then
                  some (Step.ret ((decodeOne .base x.fst value_).fst, false, (decodeOne .base x.fst value_).snd))
                else some (Step.next ((decodeOne .base x.fst value_).fst, (decodeOne .base x.fst value_).snd))
              else some (Step.next ((decodeOne .base x.fst value_).fst, x.snd)))
            = loopBody (decodeOne .base) (fun o e => (o, false, e)) := by
          funext x value_; simp [loopBody]
        simp only [h0, hb, loop_tie .base _ rest _ none (Or.inl rfl)]
        rcases decodeLoop Level.base { ver := ver, field := o.field, named := o.named } none rest with ⟨o', e⟩
        rcases e with _ | e
        · simp [getError, h0]; cases getErrorBase o' <;> simp
        · cases e <;> simp [h0]
theorem Temporal_Decode_3 (o : Obj3) (v : Bytes) :
    Gen.D3.Temporal_Decode o v = some ((decode .temporal o v).1, ((decode .temporal o v).2.isNone, (decode .temporal o v).2)) := by
  unfold Gen.D3.Temporal_Decode decode slash
  simp only [GetVersion_3, Temporal_decodeOne_3, Temporal_GetError_3]
  rcases hs : split 47 v with _ | ⟨hd, rest⟩
  · exact absurd hs (List.splitOn_ne_nil 47 v)
  · simp only [List.length_cons, List.getD_cons_zero, List.drop_succ_cons, List.drop_zero]
    have hde : ∀ o t, decodeOneTemporal o t = decodeOne .temporal o t := fun o t => decodeOneLit_eq .temporal o t
    simp only [hde]
    rcases hv : getVersion hd with e | ver
    · simp
    · by_cases h0 : ver = 0
      · simp [h0]
      · have hb : (fun (x : Obj3 × Option Err) (value_ : Bytes) =>
              if (decodeOne .temporal x.fst value_).snd.isSome = true then
                if (!(decodeOne .temporal x.fst value_).snd == some Err.notSupportMetric) = true then
                  some (Step.ret ((decodeOne .temporal x.fst value_).fst, false, (decodeOne .temporal x.fst value_).snd))
                else some (Step.next ((decodeOne .temporal x.fst value_).fst, (decodeOne .temporal x.fst value_).snd))
              else some (Step.next ((decodeOne .temporal x.fst value_).fst, x.snd)))
            = loopBody (decodeOne .temporal) (fun o e => (o, false, e)) := by
          funext x value_; simp [loopBody]
        simp only [h0, hb, loop_tie .temporal _ rest _ none (Or.inl rfl)]
        rcases decodeLoop Level.temporal { ver := ver, field := o.field, named := o.named } none rest with ⟨o', e⟩
        rcases e with _ | e
        · simp [getError, h0]; cases getErrorTemporal o' <;> simp
        · cases e <;> simp [h0]
theorem Environmental_Decode_3 (o : Obj3) (v : Bytes) :
    Gen.D3.Environmental_Decode o v = some ((decode .environmental o v).1, ((decode .environmental o v).2.isNone, (decode .environmental o v).2)) := by
  unfold Gen.D3.Environmental_Decode decode slash
  simp only [GetVersion_3, Environmental_decodeOne_3, Environmental_GetError_3]
  rcases hs : split 47 v with _ | ⟨hd, rest⟩
  · exact absurd hs (List.splitOn_ne_nil 47 v)
  · simp only [List.length_cons, List.getD_cons_zero, List.drop_succ_cons, List.drop_zero]
    have hde : ∀ o t, decodeOneEnv o t = decodeOne .environmental o t := fun o t => decodeOneLit_eq .environmental o t
    simp only [hde]
    rcases hv : getVersion hd with e | ver
    · simp
    · by_cases h0 : ver = 0
      · simp [h0]
      · have hb : (fun (x : Obj3 × Option Err) (value_ : Bytes) =>
              if (decodeOne .environmental x.fst value_).snd.isSome = true then
                if (!(decodeOne .environmental x.fst value_).snd == some Err.notSupportMetric) = true then
                  some (Step.ret ((decodeOne .environmental x.fst value_).fst, false, (decodeOne .environmental x.fst value_).snd))
                else some (Step.next ((decodeOne .environmental x.fst value_).fst, (decodeOne .environmental x.fst value_).snd))
              else some (Step.next ((decodeOne .environmental x.fst value_).fst, x.snd)))
            = loopBody (decodeOne .environmental) (fun o e => (o, false, e)) := by
          funext x value_; simp [loopBody]
        simp only [h0, hb, loop_tie .environmental _ rest _ none (Or.inl rfl)]
        rcases decodeLoop Level.environmental { ver := ver, field := o.field, named := o.named } none rest with ⟨o', e⟩
        rcases e with _ | e
        · simp [getError, h0]; cases getErrorEnv o' <;> simp
        · cases e <;> simp [h0]

/-! nil receivers: `GetError`, `Encode` and `String` report through their nil guards; `Decode` on a nil receiver decodes into
    the object its constructor builds -/
theorem nil_receivers_3 :
    Gen.D3.Base_GetError_nil = some (none, getErrorN .base none) ∧ Gen.D3.Temporal_GetError_nil = some (none, getErrorN .temporal none) ∧
    Gen.D3.Environmental_GetError_nil = some (none, getErrorN .environmental none) ∧
    Gen.D3.Base_Encode_nil = some (none, encodeN .base none) ∧ Gen.D3.Temporal_Encode_nil = some (none, encodeN .temporal none) ∧
    Gen.D3.Environmental_Encode_nil = some (none, encodeN .environmental none) ∧
    Gen.D3.Base_String_nil = some (none, []) ∧ Gen.D3.Temporal_String_nil = some (none, []) ∧ Gen.D3.Environmental_String_nil = some (none, []) :=
  ⟨rfl, rfl, rfl, rfl, rfl, rfl, rfl, rfl, rfl⟩

theorem Base_Decode_nil_3 (v : Bytes) :
    Gen.D3.Base_Decode_nil v = some (some (decode .base Gen.D3.NewBase v).1, ((decode .base Gen.D3.NewBase v).2.isNone, (decode .base Gen.D3.NewBase v).2)) := by
  unfold Gen.D3.Base_Decode_nil decode slash
  generalize Gen.D3.NewBase = o
  simp only [GetVersion_3, Base_decodeOne_3, Base_GetError_3]
  rcases hs : split 47 v with _ | ⟨hd, rest⟩
  · exact absurd hs (List.splitOn_ne_nil 47 v)
  · simp only [List.length_cons, List.getD_cons_zero, List.drop_succ_cons, List.drop_zero]
    have hde : ∀ o t, decodeOneBase o t = decodeOne .base o t := fun o t => decodeOneLit_eq .base o t
    simp only [hde]
    rcases hv : getVersion hd with e | ver
    · simp
    · by_cases h0 : ver = 0
      · simp [h0]
      · have hb : (fun (x : Obj3 × Option Err) (value_ : Bytes) =>
              if (decodeOne .base x.fst value_).snd.isSome = true then
                if (!(decodeOne .base x.fst value_).snd == some Err.notSupportMetric) = true then
                  some (Step.ret (some (decodeOne .base x.fst value_).fst, false, (decodeOne .base x.fst value_).snd))
                else some (Step.next ((decodeOne .base x.fst value_).fst, (decodeOne .base x.fst value_).snd))
              else some (Step.next ((decodeOne .base x.fst value_).fst, x.snd)))
            = loopBody (decodeOne .base) (fun o e => (some o, false, e)) := by
          funext x value_; simp [loopBody]
        simp only [h0, hb, loop_tie .base _ rest _ none (Or.inl rfl)]
        rcases decodeLoop Level.base { ver := ver, field := o.field, named := o.named } none rest with ⟨o', e⟩
        rcases e with _ | e
        · simp [getError, h0]; cases getErrorBase o' <;> simp
        · cases e <;> simp [h0]
theorem Temporal_Decode_nil_3 (v : Bytes) :
    Gen.D3.Temporal_Decode_nil v = some (some (decode .temporal Gen.D3.NewTemporal v).1, ((decode .temporal Gen.D3.NewTemporal v).2.isNone, (decode .temporal Gen.D3.NewTemporal v).2)) := by
  unfold Gen.D3.Temporal_Decode_nil decode slash
  generalize Gen.D3.NewTemporal = o
  simp only [GetVersion_3, Temporal_decodeOne_3, Temporal_GetError_3]
  rcases hs : split 47 v with _ | ⟨hd, rest⟩
  · exact absurd hs (List.splitOn_ne_nil 47 v)
  · simp only [List.length_cons, List.getD_cons_zero, List.drop_succ_cons, List.drop_zero]
    have hde : ∀ o t, decodeOneTemporal o t = decodeOne .temporal o t := fun o t => decodeOneLit_eq .temporal o t
    simp only [hde]
    rcases hv : getVersion hd with e | ver
    · simp
    · by_cases h0 : ver = 0
      · simp [h0]
      · have hb : (fun (x : Obj3 × Option Err) (value_ : Bytes) =>
              if (decodeOne .temporal x.fst value_).snd.isSome = true then
                if (!(decodeOne .temporal x.fst value_).snd == some Err.notSupportMetric) = true then
                  some (Step.ret (some (decodeOne .temporal x.fst value_).fst, false, (decodeOne .temporal x.fst value_).snd))
                else some (Step.next ((decodeOne .temporal x.fst value_).fst, (decodeOne .temporal x.fst value_).snd))
              else some (Step.next ((decodeOne .temporal x.fst value_).fst, x.snd)))
            = loopBody (decodeOne .temporal) (fun o e => (some o, false, e)) := by
          funext x value_; simp [loopBody]
        simp only [h0, hb, loop_tie .temporal _ rest _ none (Or.inl rfl)]
        rcases decodeLoop Level.temporal { ver := ver, field := o.field, named := o.named } none rest with ⟨o', e⟩
        rcases e with _ | e
        · simp [getError, h0]; cases getErrorTemporal o' <;> simp
        · cases e <;> simp [h0]
theorem Environmental_Decode_nil_3 (v : Bytes) :
    Gen.D3.Environmental_Decode_nil v = some (some (decode .environmental Gen.D3.NewEnvironmental v).1, ((decode .environmental Gen.D3.NewEnvironmental v).2.isNone, (decode .environmental Gen.D3.NewEnvironmental v).2)) := by
  unfold Gen.D3.Environmental_Decode_nil decode slash
  generalize Gen.D3.NewEnvironmental = o
  simp only [GetVersion_3, Environmental_decodeOne_3, Environmental_GetError_3]
  rcases hs : split 47 v with _ | ⟨hd, rest⟩
  · exact absurd hs (List.splitOn_ne_nil 47 v)
  · simp only [List.length_cons, List.getD_cons_zero, List.drop_succ_cons, List.drop_zero]
    have hde : ∀ o t, decodeOneEnv o t = decodeOne .environmental o t := fun o t => decodeOneLit_eq .environmental o t
    simp only [hde]
    rcases hv : getVersion hd with e | ver
    · simp
    · by_cases h0 : ver = 0
      · simp [h0]
      · have hb : (fun (x : Obj3 × Option Err) (value_ : Bytes) =>
              if (decodeOne .environmental x.fst value_).snd.isSome = true then
                if (!(decodeOne .environmental x.fst value_).snd == some Err.notSupportMetric) = true then
                  some (Step.ret (some (decodeOne .environmental x.fst value_).fst, false, (decodeOne .environmental x.fst value_).snd))
                else some (Step.next ((decodeOne .environmental x.fst value_).fst, (decodeOne .environmental x.fst value_).snd))
              else some (Step.next ((decodeOne .environmental x.fst value_).fst, x.snd)))
            = loopBody (decodeOne .environmental) (fun o e => (some o, false, e)) := by
          funext x value_; simp [loopBody]
        simp only [h0, hb, loop_tie .environmental _ rest _ none (Or.inl rfl)]
        rcases decodeLoop Level.environmental { ver := ver, field := o.field, named := o.named } none rest with ⟨o', e⟩
        rcases e with _ | e
        · simp [getError, h0]; cases getErrorEnv o' <;> simp
        · cases e <;> simp [h0]

/-- the accessors: a non-nil receiver hands out (a view of) itself, the nil receiver answers nil without dereferencing -/
theorem accessors_3 (o : Obj3) :
    Gen.D3.Base_BaseMetrics o = some (o, true) ∧ Gen.D3.Temporal_BaseMetrics o = some (o, true) ∧
    Gen.D3.Environmental_BaseMetrics o = some (o, true) ∧ Gen.D3.Environmental_TemporalMetrics o = some (o, true) ∧
    Gen.D3.Base_BaseMetrics_nil = some (none, false) ∧ Gen.D3.Temporal_BaseMetrics_nil = some (none, false) ∧
    Gen.D3.Environmental_BaseMetrics_nil = some (none, false) ∧ Gen.D3.Environmental_TemporalMetrics_nil = some (none, false) :=
  ⟨rfl, rfl, rfl, rfl, rfl, rfl, rfl, rfl⟩
end v3

section v2
open CvssVerif.V2

theorem Base_GetError_2 (o : Obj2) : Gen.D2.Base_GetError o = some (o, getErrorBase o) := by
  unfold Gen.D2.Base_GetError getErrorBase
  simp only [AccessVector_IsUnknown_2, AccessComplexity_IsUnknown_2, Authentication_IsUnknown_2, ConfidentialityImpact_IsUnknown_2,
    IntegrityImpact_IsUnknown_2, AvailabilityImpact_IsUnknown_2]
  simp only [baseMs, List.any, Bool.or_false]
  split <;> split <;> first | (simp_all; done) | grind

theorem IsEmpty_2 (o : Obj2) :
    Gen.D2.Temporal_IsEmpty o = some (o, tempEmpty o) ∧ Gen.D2.Environmental_IsEmpty o = some (o, envEmpty o) := by
  unfold Gen.D2.Temporal_IsEmpty Gen.D2.Environmental_IsEmpty tempEmpty envEmpty
  simp [tempMs, envMs, List.any, Bool.and_assoc]

theorem Temporal_GetError_2 (o : Obj2) : Gen.D2.Temporal_GetError o = some (o, getErrorTemporal o) := by
  unfold Gen.D2.Temporal_GetError getErrorTemporal
  simp only [Base_GetError_2, (IsEmpty_2 _).1, Exploitability_IsValid_2, RemediationLevel_IsValid_2, ReportConfidence_IsValid_2]
  simp only [tempMs, List.any, Bool.or_false]
  cases getErrorBase o <;> simp
  cases tempEmpty o <;> simp
  split <;> first | (simp_all; done) | grind

theorem Environmental_GetError_2 (o : Obj2) : Gen.D2.Environmental_GetError o = some (o, getErrorEnv o) := by
  unfold Gen.D2.Environmental_GetError getErrorEnv
  simp only [Temporal_GetError_2, (IsEmpty_2 _).2, CollateralDamagePotential_IsValid_2, TargetDistribution_IsValid_2,
    ConfidentialityRequirement_IsValid_2, IntegrityRequirement_IsValid_2, AvailabilityRequirement_IsValid_2]
  simp only [envMs, List.any, Bool.or_false]
  cases getErrorTemporal o <;> simp
  cases envEmpty o <;> simp
  split <;> first | (simp_all; done) | grind

theorem ite_app {α : Type} (c : Bool) (r x : List α) : (if c then r ++ x else r) = r ++ (if c then x else []) := by
  cases c <;> simp

theorem fmf_cons {α β : Type} (p : α → Bool) (f : α → List β) (a : α) (l : List α) :
    (((a :: l).filter p).map f).flatten = (if p a then f a else []) ++ ((l.filter p).map f).flatten := by
  by_cases h : p a <;> simp [h]

theorem Base_Encode_2 (o : Obj2) : Gen.D2.Base_Encode o = some (o, encode .base o) := by
  unfold Gen.D2.Base_Encode encode encodeStr encodeBaseStr
  simp only [Base_GetError_2, ite_snoc, baseMs, fm_cons, tokOf, M2.spec, getError,
    AccessVector_String_2, AccessComplexity_String_2, Authentication_String_2,
    ConfidentialityImpact_String_2, IntegrityImpact_String_2, AvailabilityImpact_String_2]
  simp [colon, slash]

theorem Base_String_2 (o : Obj2) : Gen.D2.Base_String o = some (o, encodeBaseStr o) := by
  unfold Gen.D2.Base_String
  simp [Base_Encode_2, encode, encodeStr]

theorem Temporal_Encode_2 (o : Obj2) : Gen.D2.Temporal_Encode o = some (o, encode .temporal o) := by
  unfold Gen.D2.Temporal_Encode
  simp only [Base_String_2, Temporal_GetError_2, encode, encodeStr, encodeTemporalStr, tempMs, tokOf, M2.spec, getError, ite_app, fmf_cons,
    Exploitability_String_2, RemediationLevel_String_2, ReportConfidence_String_2]
  simp [colon, slash]

theorem Temporal_String_2 (o : Obj2) : Gen.D2.Temporal_String o = some (o, encodeTemporalStr o) := by
  unfold Gen.D2.Temporal_String
  simp [Temporal_Encode_2, encode, encodeStr]

theorem Environmental_Encode_2 (o : Obj2) : Gen.D2.Environmental_Encode o = some (o, encode .environmental o) := by
  unfold Gen.D2.Environmental_Encode
  simp only [Temporal_String_2, Environmental_GetError_2, encode, encodeStr, encodeEnvStr, envMs, tokOf, M2.spec, getError, ite_app, fmf_cons,
    CollateralDamagePotential_String_2, TargetDistribution_String_2, ConfidentialityRequirement_String_2,
    IntegrityRequirement_String_2, AvailabilityRequirement_String_2]
  simp [colon, slash]

theorem Environmental_String_2 (o : Obj2) : Gen.D2.Environmental_String o = some (o, encodeEnvStr o) := by
  unfold Gen.D2.Environmental_String
  simp [Environmental_Encode_2, encode, encodeStr]

theorem constructors_2 :
    (∀ m, Gen.D2.NewEnvironmental.field m = Obj2.new.field m) ∧ (∀ m, Gen.D2.NewEnvironmental.named m = Obj2.new.named m) ∧
    (∀ m, Gen.D2.NewTemporal.field m = Obj2.new.field m) ∧ (∀ m, Gen.D2.NewTemporal.named m = false) ∧
    (∀ m, Gen.D2.NewBase.field m = Obj2.new.field m) ∧ (∀ m, Gen.D2.NewBase.named m = false) := by
  refine ⟨?_, ?_, ?_, ?_, ?_, ?_⟩ <;> intro m <;> cases m <;> rfl

theorem set_field_same2 (o : Obj2) (m : M2) (x : Int) : (o.set m x).field m = x := by simp [Obj2.set]

macro "own_tie2" : tactic => `(tactic|
  (generalize split 58 _ = l
   rcases l with _ | ⟨n, _ | ⟨v, _ | ⟨w, l⟩⟩⟩
   · simp
   · simp
   · by_cases hn : n = []
     · simp [hn]
     · by_cases hv : v = []
       · simp [hn, hv]
       · simp only [namesGet, lvlMs, baseMs, tempMs, envMs]
         name_cases n with (simp [*, List.find?, M2.spec, set_field_same2] <;> (repeat' split) <;> simp_all)
   · simp))

theorem Base_decodeOne_2 (o : Obj2) (tok : Bytes) : Gen.D2.Base_decodeOne o tok = some (decodeOneBase o tok) := by
  unfold Gen.D2.Base_decodeOne decodeOneBase decodeOwn colon
  simp only [GetAccessVector_2, GetAccessComplexity_2, GetAuthentication_2, GetConfidentialityImpact_2, GetIntegrityImpact_2,
    GetAvailabilityImpact_2]
  own_tie2

/-- when a level answers "not supported metric" the token has the shape `name:value` with both parts non-empty, the object is unchanged
    and the name is none of that level's (so a higher level need not test the shape again) -/
theorem decodeOwn_nsm2 {own : List M2} {o o' : Obj2} {tok : Bytes} (h : decodeOwn own o tok = (o', some Err.notSupportMetric)) :
    ∃ n v, split 58 tok = [n, v] ∧ n ≠ [] ∧ v ≠ [] ∧ o' = o := by
  unfold decodeOwn colon at h
  split at h
  · rename_i n v hs
    by_cases hnv : n = [] ∨ v = []
    · simp [hnv] at h
    · simp only [hnv, if_false] at h
      cases hf : own.find? (fun m => m.spec.name == n) with
      | none =>
        simp only [hf] at h
        exact ⟨n, v, hs, fun e => hnv (Or.inl e), fun e => hnv (Or.inr e), (Prod.mk.inj h).1.symm⟩
      | some m =>
        simp only [hf] at h
        by_cases hb : o.named m
        · simp [hb] at h
        · simp only [hb] at h
          by_cases hz : m.spec.get v = 0 <;> simp [hz] at h
  · simp at h

/-- the own part of a higher level's `decodeOne` once the lower level has answered "not supported metric": the token shape is known,
    whether the source tests it again or not -/
macro "deleg_tie2" hr:term : tactic => `(tactic|
  (obtain ⟨n, v, hs, hn, hv, ho⟩ := $hr
   subst ho
   simp only [orElse]
   unfold decodeOwn colon
   simp only [hs]
   simp only [namesGet, lvlMs, baseMs, tempMs, envMs]
   name_cases n with (simp [*, List.find?, M2.spec, set_field_same2] <;> (repeat' split) <;> simp_all)))

theorem Temporal_decodeOne_2 (o : Obj2) (tok : Bytes) : Gen.D2.Temporal_decodeOne o tok = some (decodeOneTemporal o tok) := by
  unfold Gen.D2.Temporal_decodeOne decodeOneTemporal
  simp only [Base_decodeOne_2, GetExploitability_2, GetRemediationLevel_2, GetReportConfidence_2]
  rcases hr : decodeOneBase o tok with ⟨o', e⟩
  rcases e with _ | e
  · simp [orElse]
  · by_cases he : e = Err.notSupportMetric
    · subst he
      deleg_tie2 (decodeOwn_nsm2 hr)
    · cases e <;> simp_all [orElse]

theorem decodeOneTemporal_nsm2 {o o' : Obj2} {tok : Bytes} (h : decodeOneTemporal o tok = (o', some Err.notSupportMetric)) :
    ∃ n v, split 58 tok = [n, v] ∧ n ≠ [] ∧ v ≠ [] ∧ o' = o := by
  unfold decodeOneTemporal orElse at h
  rcases hb : decodeOneBase o tok with ⟨o1, e1⟩
  rw [hb] at h
  rcases e1 with _ | e1
  · simp at h
  · by_cases he : e1 = Err.notSupportMetric
    · subst he
      simp only at h
      obtain ⟨n, v, hs, hn, hv, ho⟩ := decodeOwn_nsm2 h
      obtain ⟨_, _, _, _, _, ho1⟩ := decodeOwn_nsm2 hb
      exact ⟨n, v, hs, hn, hv, by rw [ho, ho1]⟩
    · cases e1 <;> simp_all

theorem Environmental_decodeOne_2 (o : Obj2) (tok : Bytes) : Gen.D2.Environmental_decodeOne o tok = some (decodeOneEnv o tok) := by
  unfold Gen.D2.Environmental_decodeOne decodeOneEnv
  simp only [Temporal_decodeOne_2, GetCollateralDamagePotential_2, GetTargetDistribution_2, GetConfidentialityRequirement_2,
    GetIntegrityRequirement_2, GetAvailabilityRequirement_2]
  rcases hr : decodeOneTemporal o tok with ⟨o', e⟩
  rcases e with _ | e
  · simp [orElse]
  · by_cases he : e = Err.notSupportMetric
    · subst he
      deleg_tie2 (decodeOneTemporal_nsm2 hr)
    · cases e <;> simp_all [orElse]

def loopBody2 {ρ : Type} (dec : Obj2 → Bytes → Obj2 × Option Err) (mk : Obj2 → Option Err → ρ) :
    Obj2 × Option Err → Bytes → Option (Step (Obj2 × Option Err) ρ) :=
  fun x value =>
    if (dec x.1 value).2.isSome then
      (if (!((dec x.1 value).2 == some Err.notSupportMetric)) then some (Step.ret (mk (dec x.1 value).1 (dec x.1 value).2))
       else some (Step.next ((dec x.1 value).1, (dec x.1 value).2)))
    else some (Step.next ((dec x.1 value).1, x.2))

theorem loop_tie2 {ρ : Type} (L : Level) (mk : Obj2 → Option Err → ρ) (toks : List Bytes) (o : Obj2) (last : Option Err)
    (hl : last = none ∨ last = some Err.notSupportMetric) :
    forEach toks (o, last) (loopBody2 (decodeOne L) mk) =
      some (match decodeLoop L o last toks with
            | (o', some e) => if e = Err.notSupportMetric then Step.next (o', some e) else Step.ret (mk o' (some e))
            | (o', none) => Step.next (o', none)) := by
  induction toks generalizing o last with
  | nil =>
    rcases hl with rfl | rfl <;> simp [forEach, decodeLoop]
  | cons t ts ih =>
    rw [forEach, decodeLoop]
    rcases hd : decodeOne L o t with ⟨o', e⟩
    rcases e with _ | e
    · have hb : loopBody2 (decodeOne L) mk (o, last) t = some (Step.next (o', last)) := by simp [loopBody2, hd]
      rw [hb]; exact ih o' last hl
    · by_cases he : e = Err.notSupportMetric
      · subst he
        have hb : loopBody2 (decodeOne L) mk (o, last) t = some (Step.next (o', some Err.notSupportMetric)) := by simp [loopBody2, hd]
        rw [hb]; exact ih o' _ (Or.inr rfl)
      · have hb : loopBody2 (decodeOne L) mk (o, last) t = some (Step.ret (mk o' (some e))) := by simp [loopBody2, hd, he]
        rw [hb]
        cases e <;> simp_all

theorem Base_Decode_2 (o : Obj2) (v : Bytes) :
    Gen.D2.Base_Decode o v = some ((decode .base o v).1, ((decode .base o v).2.isNone, (decode .base o v).2)) := by
  unfold Gen.D2.Base_Decode decode slash
  simp only [Base_decodeOne_2, Base_Encode_2]
  have hde : ∀ o t, decodeOneBase o t = decodeOne .base o t := fun o t => decodeOneLit_eq .base o t
  simp only [hde]
  have hb : (fun (x : Obj2 × Option Err) (value_ : Bytes) =>
        if (decodeOne .base x.fst value_).snd.isSome = true then
          if (!(decodeOne .base x.fst value_).snd == some Err.notSupportMetric) = true then
            some (Step.ret ((decodeOne .base x.fst value_).fst, false, (decodeOne .base x.fst value_).snd))
          else some (Step.next ((decodeOne .base x.fst value_).fst, (decodeOne .base x.fst value_).snd))
        else some (Step.next ((decodeOne .base x.fst value_).fst, x.snd)))
      = loopBody2 (decodeOne .base) (fun o e => (o, false, e)) := by
    funext x value_; simp [loopBody2]
  simp only [hb, loop_tie2 .base _ _ _ none (Or.inl rfl)]
  rcases decodeLoop Level.base o none (split 47 v) with ⟨o', e⟩
  rcases e with _ | e
  · simp only []
    rcases henc : encode Level.base o' with ⟨enc, ee⟩
    rcases ee with _ | ee
    · by_cases hv : v = enc <;> simp [hv]
    · simp
  · cases e <;> simp
theorem Temporal_Decode_2 (o : Obj2) (v : Bytes) :
    Gen.D2.Temporal_Decode o v = some ((decode .temporal o v).1, ((decode .temporal o v).2.isNone, (decode .temporal o v).2)) := by
  unfold Gen.D2.Temporal_Decode decode slash
  simp only [Temporal_decodeOne_2, Temporal_Encode_2]
  have hde : ∀ o t, decodeOneTemporal o t = decodeOne .temporal o t := fun o t => decodeOneLit_eq .temporal o t
  simp only [hde]
  have hb : (fun (x : Obj2 × Option Err) (value_ : Bytes) =>
        if (decodeOne .temporal x.fst value_).snd.isSome = true then
          if (!(decodeOne .temporal x.fst value_).snd == some Err.notSupportMetric) = true then
            some (Step.ret ((decodeOne .temporal x.fst value_).fst, false, (decodeOne .temporal x.fst value_).snd))
          else some (Step.next ((decodeOne .temporal x.fst value_).fst, (decodeOne .temporal x.fst value_).snd))
        else some (Step.next ((decodeOne .temporal x.fst value_).fst, x.snd)))
      = loopBody2 (decodeOne .temporal) (fun o e => (o, false, e)) := by
    funext x value_; simp [loopBody2]
  simp only [hb, loop_tie2 .temporal _ _ _ none (Or.inl rfl)]
  rcases decodeLoop Level.temporal o none (split 47 v) with ⟨o', e⟩
  rcases e with _ | e
  · simp only []
    rcases henc : encode Level.temporal o' with ⟨enc, ee⟩
    rcases ee with _ | ee
    · by_cases hv : v = enc <;> simp [hv]
    · simp
  · cases e <;> simp
theorem Environmental_Decode_2 (o : Obj2) (v : Bytes) :
    Gen.D2.Environmental_Decode o v = some ((decode .environmental o v).1, ((decode .environmental o v).2.isNone, (decode .environmental o v).2)) := by
  unfold Gen.D2.Environmental_Decode decode slash
  simp only [Environmental_decodeOne_2, Environmental_Encode_2]
  have hde : ∀ o t, decodeOneEnv o t = decodeOne .environmental o t := fun o t => decodeOneLit_eq .environmental o t
  simp only [hde]
  have hb : (fun (x : Obj2 × Option Err) (value_ : Bytes) =>
        if (decodeOne .environmental x.fst value_).snd.isSome = true then
          if (!(decodeOne .environmental x.fst value_).snd == some Err.notSupportMetric) = true then
            some (Step.ret ((decodeOne .environmental x.fst value_).fst, false, (decodeOne .environmental x.fst value_).snd))
          else some (Step.next ((decodeOne .environmental x.fst value_).fst, (decodeOne .environmental x.fst value_).snd))
        else some (Step.next ((decodeOne .environmental x.fst value_).fst, x.snd)))
      = loopBody2 (decodeOne .environmental) (fun o e => (o, false, e)) := by
    funext x value_; simp [loopBody2]
  simp only [hb, loop_tie2 .environmental _ _ _ none (Or.inl rfl)]
  rcases decodeLoop Level.environmental o none (split 47 v) with ⟨o', e⟩
  rcases e with _ | e
  · simp only []
    rcases henc : encode Level.environmental o' with ⟨enc, ee⟩
    rcases ee with _ | ee
    · by_cases hv : v = enc <;> simp [hv]
    · simp
  · cases e <;> simp
theorem Base_Decode_nil_2 (v : Bytes) :
    Gen.D2.Base_Decode_nil v = some (some (decode .base Gen.D2.NewBase v).1, ((decode .base Gen.D2.NewBase v).2.isNone, (decode .base Gen.D2.NewBase v).2)) := by
  unfold Gen.D2.Base_Decode_nil decode slash
  generalize Gen.D2.NewBase = o
  simp only [Base_decodeOne_2, Base_Encode_2]
  have hde : ∀ o t, decodeOneBase o t = decodeOne .base o t := fun o t => decodeOneLit_eq .base o t
  simp only [hde]
  have hb : (fun (x : Obj2 × Option Err) (value_ : Bytes) =>
        if (decodeOne .base x.fst value_).snd.isSome = true then
          if (!(decodeOne .base x.fst value_).snd == some Err.notSupportMetric) = true then
            some (Step.ret (some (decodeOne .base x.fst value_).fst, false, (decodeOne .base x.fst value_).snd))
          else some (Step.next ((decodeOne .base x.fst value_).fst, (decodeOne .base x.fst value_).snd))
        else some (Step.next ((decodeOne .base x.fst value_).fst, x.snd)))
      = loopBody2 (decodeOne .base) (fun o e => (some o, false, e)) := by
    funext x value_; simp [loopBody2]
  simp only [hb, loop_tie2 .base _ _ _ none (Or.inl rfl)]
  rcases decodeLoop Level.base o none (split 47 v) with ⟨o', e⟩
  rcases e with _ | e
  · simp only []
    rcases henc : encode Level.base o' with ⟨enc, ee⟩
    rcases ee with _ | ee
    · by_cases hv : v = enc <;> simp [hv]
    · simp
  · cases e <;> simp
theorem Temporal_Decode_nil_2 (v : Bytes) :
    Gen.D2.Temporal_Decode_nil v = some (some (decode .temporal Gen.D2.NewTemporal v).1, ((decode .temporal Gen.D2.NewTemporal v).2.isNone, (decode .temporal Gen.D2.NewTemporal v).2)) := by
  unfold Gen.D2.Temporal_Decode_nil decode slash
  generalize Gen.D2.NewTemporal = o
  simp only [Temporal_decodeOne_2, Temporal_Encode_2]
  have hde : ∀ o t, decodeOneTemporal o t = decodeOne .temporal o t := fun o t => decodeOneLit_eq .temporal o t
  simp only [hde]
  have hb : (fun (x : Obj2 × Option Err) (value_ : Bytes) =>
        if (decodeOne .temporal x.fst value_).snd.isSome = true then
          if (!(decodeOne .temporal x.fst value_).snd == some Err.notSupportMetric) = true then
            some (Step.ret (some (decodeOne .temporal x.fst value_).fst, false, (decodeOne .temporal x.fst value_).snd))
          else some (Step.next ((decodeOne .temporal x.fst value_).fst, (decodeOne .temporal x.fst value_).snd))
        else some (Step.next ((decodeOne .temporal x.fst value_).fst, x.snd)))
      = loopBody2 (decodeOne .temporal) (fun o e => (some o, false, e)) := by
    funext x value_; simp [loopBody2]
  simp only [hb, loop_tie2 .temporal _ _ _ none (Or.inl rfl)]
  rcases decodeLoop Level.temporal o none (split 47 v) with ⟨o', e⟩
  rcases e with _ | e
  · simp only []
    rcases henc : encode Level.temporal o' with ⟨enc, ee⟩
    rcases ee with _ | ee
    · by_cases hv : v = enc <;> simp [hv]
    · simp
  · cases e <;> simp
theorem Environmental_Decode_nil_2 (v : Bytes) :
    Gen.D2.Environmental_Decode_nil v = some (some (decode .environmental Gen.D2.NewEnvironmental v).1, ((decode .environmental Gen.D2.NewEnvironmental v).2.isNone, (decode .environmental Gen.D2.NewEnvironmental v).2)) := by
  unfold Gen.D2.Environmental_Decode_nil decode slash
  generalize Gen.D2.NewEnvironmental = o
  simp only [Environmental_decodeOne_2, Environmental_Encode_2]
  have hde : ∀ o t, decodeOneEnv o t = decodeOne .environmental o t := fun o t => decodeOneLit_eq .environmental o t
  simp only [hde]
  have hb : (fun (x : Obj2 × Option Err) (value_ : Bytes) =>
        if (decodeOne .environmental x.fst value_).snd.isSome = true then
          if (!(decodeOne .environmental x.fst value_).snd == some Err.notSupportMetric) = true then
            some (Step.ret (some (decodeOne .environmental x.fst value_).fst, false, (decodeOne .environmental x.fst value_).snd))
          else some (Step.next ((decodeOne .environmental x.fst value_).fst, (decodeOne .environmental x.fst value_).snd))
        else some (Step.next ((decodeOne .environmental x.fst value_).fst, x.snd)))
      = loopBody2 (decodeOne .environmental) (fun o e => (some o, false, e)) := by
    funext x value_; simp [loopBody2]
  simp only [hb, loop_tie2 .environmental _ _ _ none (Or.inl rfl)]
  rcases decodeLoop Level.environmental o none (split 47 v) with ⟨o', e⟩
  rcases e with _ | e
  · simp only []
    rcases henc : encode Level.environmental o' with ⟨enc, ee⟩
    rcases ee with _ | ee
    · by_cases hv : v = enc <;> simp [hv]
    · simp
  · cases e <;> simp

/-! nil receivers (v2): `GetError` reports the level's sentinel, `Encode` reports "no Base metrics" at every level (sic),
    `String` is empty; `IsEmpty` dereferences the nil receiver (a panic; it is not among the operations C12 lists) -/
theorem nil_receivers_2 :
    Gen.D2.Base_GetError_nil = some (none, getErrorN .base none) ∧ Gen.D2.Temporal_GetError_nil = some (none, getErrorN .temporal none) ∧
    Gen.D2.Environmental_GetError_nil = some (none, getErrorN .environmental none) ∧
    Gen.D2.Base_Encode_nil = some (none, encodeN .base none) ∧ Gen.D2.Temporal_Encode_nil = some (none, encodeN .temporal none) ∧
    Gen.D2.Environmental_Encode_nil = some (none, encodeN .environmental none) ∧
    Gen.D2.Base_String_nil = some (none, []) ∧ Gen.D2.Temporal_String_nil = some (none, []) ∧ Gen.D2.Environmental_String_nil = some (none, []) ∧
    Gen.D2.Temporal_IsEmpty_nil = none ∧ Gen.D2.Environmental_IsEmpty_nil = none :=
  ⟨rfl, rfl, rfl, rfl, rfl, rfl, rfl, rfl, rfl, rfl, rfl⟩


theorem accessors_2 (o : Obj2) :
    Gen.D2.Temporal_BaseMetrics o = some (o, true) ∧ Gen.D2.Environmental_BaseMetrics o = some (o, true) ∧
    Gen.D2.Environmental_TemporalMetrics o = some (o, true) ∧
    Gen.D2.Temporal_BaseMetrics_nil = some (none, false) ∧ Gen.D2.Environmental_BaseMetrics_nil = some (none, false) ∧
    Gen.D2.Environmental_TemporalMetrics_nil = some (none, false) :=
  ⟨rfl, rfl, rfl, rfl, rfl, rfl⟩
end v2

/-- the obligation of the `names` abstraction: every `x.names[k] = true` of the source writes, into the map of the struct of
    level L, the name of a metric that the model places at level L — so the three string-keyed Go maps are exactly the
    model's one metric-keyed `named` -/
theorem markSites_ok :
    (∀ p ∈ Gen.D3.markSites, ((V3.lvlMs p.1).find? (fun m => m.spec.name == p.2)).isSome = true) ∧
    (∀ p ∈ Gen.D2.markSites, ((V2.lvlMs p.1).find? (fun m => m.spec.name == p.2)).isSome = true) := by
  constructor <;> decide

end CvssVerif.DecoderTie
