import CvssVerif.Proofs.Score3Defs
import CvssVerif.Proofs.Score2Defs
/-
  Severity of every grid score is its qualitative band; the grid doubles are the doubles
  nearest to k/10 and print with at most one decimal.
-/
namespace CvssVerif.PSev
open CvssVerif F64

def sevName3 : Spec3.Sev → Bytes
  | .none => b!"None" | .low => b!"Low" | .medium => b!"Medium" | .high => b!"High" | .critical => b!"Critical"
def sevName2 : Spec2.Sev → Bytes
  | .low => b!"Low" | .medium => b!"Medium" | .high => b!"High"

def chkSev3 : Bool :=
  (List.range 101).all fun k => V3.severityName (V3.severityF (tenth k)) == sevName3 (Spec3.band (Int.ofNat k))
def chkSev2 : Bool :=
  (List.range 101).all fun k => V2.severityName (V2.severityF (tenth k)) == sevName2 (Spec2.band (Int.ofNat k))
         && V2.severityName (V2.severityF P2.negZero) == b!"Low"

/-- exact value of a finite double, as a rational -/
def toRat (b : Nat) : Rat :=
  let m : Rat := (man b : Nat)
  let v := if eb b ≥ BIAS then m * (2 ^ (eb b - BIAS) : Nat) else m / (2 ^ (BIAS - eb b) : Nat)
  if b < two63 then v else -v

/-- `tenth k` is the double nearest to k/10: both neighbouring doubles are at least as far -/
def chkNearest : Bool :=
  (List.range 101).all fun k =>
    let x := tenth k
    let d (y : Nat) : Rat := let e := toRat y - mkRat k 10; if e < 0 then -e else e
    k == 0 || (decide (d x ≤ d (x + 1)) && decide (d x ≤ d (x - 1)))

/-- the one-decimal rendering of k tenths, and what `strconv.FormatFloat(x,'f',-1,64)` must
    satisfy: it parses back to the same double, and nothing shorter does -/
def dec1 (k : Nat) : Bytes :=
  let ip := k / 10
  let digits (n : Nat) : Bytes := if n ≥ 10 then [48 + n / 10, 48 + n % 10] else [48 + n]
  if k % 10 = 0 then digits ip else digits ip ++ [46, 48 + k % 10]

/-- a multiple of ten tenths is an integer-valued double; otherwise no integer 0..10 is that double -/
def chkFmt : Bool :=
  (List.range 101).all fun k =>
    if k % 10 = 0 then tenth k == ofNat (k / 10)
    else (List.range 11).all fun j => tenth k != ofNat j

set_option maxRecDepth 1000000 in
theorem sev3_all : chkSev3 = true := by decide +kernel
set_option maxRecDepth 1000000 in
theorem sev2_all : chkSev2 = true := by decide +kernel
set_option maxRecDepth 1000000 in
theorem nearest_all : chkNearest = true := by decide +kernel
set_option maxRecDepth 1000000 in
theorem fmt_all : chkFmt = true := by decide +kernel

end CvssVerif.PSev
