import CvssVerif.Proofs.Gen.Temp3
import CvssVerif.Proofs.C01Glue
namespace CvssVerif.P3
open CvssVerif Spec3 V3 F64

/-- what the temporal stage check gives for one grid point and one temporal combination -/
theorem temp_of_chk {k : Nat} (h : chkTemp k = true) (t : TempVec) :
    temporalF (tenth k) (fE t.e) (fRL t.rl) (fRC t.rc) = tenth (temporalOfTenths (Int.ofNat k) t).toNat ∧
    0 ≤ temporalOfTenths (Int.ofNat k) t ∧ temporalOfTenths (Int.ofNat k) t ≤ Int.ofNat k ∧
    ((t.e = .X ∧ t.rl = .X ∧ t.rc = .X) → temporalOfTenths (Int.ofNat k) t = Int.ofNat k) ∧
    (k ≠ 0 → 1 ≤ temporalOfTenths (Int.ofNat k) t) := by
  unfold chkTemp at h
  rw [cbv_eq] at h
  simp only [List.all_eq_true] at h
  have h' := h (t.e, t.rl, t.rc) (Enum.complete _)
  obtain ⟨e, rl, rc⟩ := t
  simp only [Bool.and_eq_true, Bool.or_eq_true, beq_iff_eq, decide_eq_true_eq, Bool.not_eq_true',
    Bool.and_eq_false_iff] at h'
  obtain ⟨⟨⟨⟨h1, h2⟩, h3⟩, h4⟩, h5⟩ := h'
  refine ⟨h1, h2, h3, ?_, ?_⟩
  · rintro ⟨rfl, rfl, rfl⟩
    rcases h4 with h4 | h4
    · simp at h4
    · exact h4
  · intro hk
    rcases h5 with h5 | h5
    · exact absurd h5 hk
    · exact h5

theorem iE_valid (x : Spec3.E) : isValid .E (iE x) = true := by cases x <;> decide
theorem iRL_valid (x : Spec3.RL) : isValid .RL (iRL x) = true := by cases x <;> decide
theorem iRC_valid (x : Spec3.RC) : isValid .RC (iRC x) = true := by cases x <;> decide

end CvssVerif.P3
