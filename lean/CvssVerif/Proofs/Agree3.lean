import CvssVerif.Proofs.Deleg
/- What a v3 decoder of level L answers depends only on the part of the receiver that level reads: used to carry the
   acceptance theorem from the model's fresh object to the objects the source's constructors build (which differ from it in
   fields of higher levels only). -/
namespace CvssVerif.V3
open CvssVerif

/-- two objects agree on everything a decoder of level `L` reads or writes -/
def AgreeOn (L : Level) (a b : Obj3) : Prop :=
  a.ver = b.ver ∧ ∀ m ∈ msOf L, a.field m = b.field m ∧ a.named m = b.named m

theorem agree_set {L : Level} {a b : Obj3} (h : AgreeOn L a b) (m : M3) (x : Int) : AgreeOn L (a.set m x) (b.set m x) := by
  refine ⟨h.1, fun m' hm' => ?_⟩
  have := h.2 m' hm'
  simp only [Obj3.set]
  by_cases e : m' = m
  · subst e; simp [this]
  · simp [e, this]

theorem agree_mark {L : Level} {a b : Obj3} (h : AgreeOn L a b) (m : M3) : AgreeOn L (a.mark m) (b.mark m) := by
  refine ⟨h.1, fun m' hm' => ?_⟩
  have := h.2 m' hm'
  simp only [Obj3.mark]
  by_cases e : m' = m
  · subst e; simp [this]
  · simp [e, this]

theorem decodeOne_agree {L : Level} {a b : Obj3} (h : AgreeOn L a b) (t : Bytes) :
    (decodeOne L a t).2 = (decodeOne L b t).2 ∧ AgreeOn L (decodeOne L a t).1 (decodeOne L b t).1 := by
  unfold decodeOne
  split
  · rename_i n v _
    by_cases hnv : n = [] ∨ v = []
    · simp [hnv, h]
    · simp only [hnv, if_false]
      cases hf : findMetric L n with
      | none => simp [h]
      | some m =>
        have hm : m ∈ msOf L := List.mem_of_find?_eq_some hf
        have hn : a.named m = b.named m := (h.2 m hm).2
        simp only [hn]
        by_cases hb : b.named m
        · simp [hb, h]
        · simp only [hb]
          by_cases hz : m.spec.get v = 0
          · simp [hz, agree_set h]
          · simp [hz, agree_mark (agree_set h m _)]
  · simp [h]

theorem decodeLoop_agree {L : Level} (toks : List Bytes) {a b : Obj3} (h : AgreeOn L a b) (last : Option Err) :
    (decodeLoop L a last toks).2 = (decodeLoop L b last toks).2 ∧ AgreeOn L (decodeLoop L a last toks).1 (decodeLoop L b last toks).1 := by
  induction toks generalizing a b last with
  | nil => simp [decodeLoop, h]
  | cons t ts ih =>
    have h1 := decodeOne_agree h t
    unfold decodeLoop
    rcases ha : decodeOne L a t with ⟨a', ea⟩
    rcases hb : decodeOne L b t with ⟨b', eb⟩
    rw [ha, hb] at h1
    simp only at h1
    obtain ⟨he, hab⟩ := h1
    subst he
    rcases ea with _ | e
    · simpa using ih hab last
    · cases e <;> first | (simpa using ih hab (some Err.notSupportMetric)) | simp [hab]

theorem getError_agree {L : Level} {a b : Obj3} (h : AgreeOn L a b) : getError L a = getError L b := by
  have hf : ∀ m ∈ msOf L, a.field m = b.field m := fun m hm => (h.2 m hm).1
  cases L
  · have : ∀ m ∈ baseMs, a.field m = b.field m := fun m hm => hf m (by rw [msOf_base]; exact hm)
    simp only [getError, getErrorBase, h.1, baseMs, List.any, Bool.or_false] at *
    simp [this]
  · have : ∀ m ∈ baseMs ++ tempMs, a.field m = b.field m := fun m hm => hf m (by rw [msOf_temporal]; exact hm)
    simp only [getError, getErrorTemporal, getErrorBase, h.1, baseMs, tempMs, List.any, Bool.or_false, List.cons_append, List.nil_append] at *
    simp [this]
  · have : ∀ m ∈ (baseMs ++ tempMs) ++ envMs, a.field m = b.field m := fun m hm => hf m (by rw [msOf_env]; exact hm)
    simp only [getError, getErrorEnv, getErrorTemporal, getErrorBase, h.1, baseMs, tempMs, envMs, List.any, Bool.or_false, List.cons_append, List.nil_append] at *
    simp [this]

/-- what a decoder of level `L` answers depends only on the part of the receiver it reads -/
theorem decode_agree {L : Level} {a b : Obj3} (h : AgreeOn L a b) (s : Bytes) : (decode L a s).2 = (decode L b s).2 := by
  unfold decode
  split
  · rfl
  · rename_i hd rest _
    cases getVersion hd with
    | error e => rfl
    | ok ver =>
      by_cases h0 : ver = 0
      · simp [h0]
      · simp only [h0, if_false]
        have hv : AgreeOn L { a with ver := ver } { b with ver := ver } := ⟨rfl, h.2⟩
        have hl := decodeLoop_agree rest hv none
        rcases hA : decodeLoop L { a with ver := ver } none rest with ⟨a', ea⟩
        rcases hB : decodeLoop L { b with ver := ver } none rest with ⟨b', eb⟩
        rw [hA, hB] at hl
        simp only at hl
        obtain ⟨he, hab⟩ := hl
        subst he
        cases ea with
        | none => simp [getError_agree hab]
        | some e => rfl
end CvssVerif.V3
