import CvssVerif.Props.C14
/-
  C14 stated on the *input's own tokens*: the lower-level part of an accepted vector — its prefix
  and those of its tokens whose metric belongs to level `l`, in the order in which they were
  written — is accepted by an independent level-`l` decoder, and score, severity and encoding
  obtained through the level-`l` view of the decoded object equal that decoder's.  (`view3` says
  the same about the canonical spelling of that part; this is the form the correspondence check
  uses for its `pw` flag.)
-/
namespace CvssVerif.Props.C14
open CvssVerif

/-- the level-`l` part of a vector, built from its text -/
def part3 (l : Level) (s : Bytes) : Bytes :=
  match split slash s with
  | [] => []
  | hd :: toks => join slash (hd :: toks.filter fun t =>
      (V3.msOf l).any fun m => m.spec.name == ((split colon t).head?.getD []))

theorem keep_tok {L : Level} (l : Level) {e : V3.Ent} (he : e ∈ V3.vocab L) :
    ((V3.msOf l).any fun m => m.spec.name == ((split colon e.tok).head?.getD [])) = decide (e.m ∈ V3.msOf l) := by
  obtain ⟨_, hp⟩ := V3.mem_vocab.mp he
  have hc := (V3.code_facts e.m _ hp).2.2.1
  have hs : split colon e.tok = [e.m.spec.name, e.c] := V3.split_pair (V3.colon_not_mem_name e.m) hc
  rw [hs]
  simp only [List.head?_cons, Option.getD_some]
  by_cases hm : e.m ∈ V3.msOf l
  · simp only [hm, decide_true]
    exact List.any_eq_true.mpr ⟨e.m, hm, by simp⟩
  · simp only [hm, decide_false]
    apply Bool.eq_false_iff.mpr
    intro h
    obtain ⟨m, hml, hname⟩ := List.any_eq_true.mp h
    have : m = e.m := V3.names_inj (by simpa using hname)
    exact hm (this ▸ hml)

theorem filter_toks {L : Level} (l : Level) (es : List V3.Ent) (hes : ∀ e ∈ es, e ∈ V3.vocab L) :
    ((es.map V3.Ent.tok).filter fun t => (V3.msOf l).any fun m => m.spec.name == ((split colon t).head?.getD []))
      = (es.filter fun e => decide (e.m ∈ V3.msOf l)).map V3.Ent.tok := by
  induction es with
  | nil => rfl
  | cons e es ih =>
    have he := hes e List.mem_cons_self
    have ih' := ih (fun x hx => hes x (List.mem_cons_of_mem _ hx))
    simp only [List.map_cons, List.filter_cons, keep_tok l he]
    by_cases hm : e.m ∈ V3.msOf l
    · simp only [hm, decide_true, if_true, List.map_cons, ih']
    · simp only [hm, decide_false, Bool.false_eq_true, if_false, ih']

theorem view3_tokens {l L : Level} {s : Bytes} {o : V3.Obj3} (hl : l.le L = true)
    (h : V3.decode L V3.Obj3.new s = (o, none)) :
    ∃ ol, V3.decode l V3.Obj3.new (part3 l s) = (ol, none) ∧
      V3.score l ol = V3.score l o ∧ V3.severity l ol = V3.severity l o ∧ V3.encode l ol = V3.encode l o := by
  obtain ⟨hd, es, hsplit, hpre, hes, hnd, hbase, ho⟩ := (V3.decode_ok_iff L s o).mp h
  let es' := es.filter fun e => decide (e.m ∈ V3.msOf l)
  have hpart : part3 l s = join slash (hd :: es'.map V3.Ent.tok) := by
    unfold part3
    rw [hsplit]
    simp only
    rw [filter_toks l es hes]
  have hes' : ∀ e ∈ es', e ∈ V3.vocab l := by
    intro e he
    obtain ⟨he1, he2⟩ := List.mem_filter.mp he
    obtain ⟨_, hp⟩ := V3.mem_vocab.mp (hes e he1)
    exact V3.mem_vocab.mpr ⟨by simpa using he2, hp⟩
  have hslash_hd : slash ∉ hd := by
    unfold Spec3.prefixOK at hpre
    simp only [Bool.or_eq_true, beq_iff_eq] at hpre
    rcases hpre with rfl | rfl <;> decide
  have hsp : split slash (part3 l s) = hd :: es'.map V3.Ent.tok := by
    rw [hpart]
    unfold split join
    apply List.splitOn_intercalate
    · intro x hx
      rcases List.mem_cons.mp hx with rfl | hx
      · exact hslash_hd
      · obtain ⟨e, he, rfl⟩ := List.mem_map.mp hx
        exact V3.slash_not_mem_tok (hes' e he)
    · simp
  have hnd' : (es'.map (·.m)).Nodup :=
    List.Nodup.sublist (List.Sublist.map _ List.filter_sublist) hnd
  have hbase' : ∀ m ∈ V3.baseMs, ∃ e ∈ es', e.m = m := by
    intro m hm
    obtain ⟨e, he, rfl⟩ := hbase m hm
    exact ⟨e, List.mem_filter.mpr ⟨he, by simpa using V3.baseMs_sub l e.m hm⟩, rfl⟩
  have hdec := (V3.decode_ok_iff l (part3 l s) _).mpr ⟨hd, es', hsp, hpre, hes', hnd', hbase', rfl⟩
  refine ⟨_, hdec, ?_⟩
  have hv : (V3.runEnts (V3.start hd) es').ver = o.ver := by rw [ho, V3.run_ver, V3.run_ver]
  have hf : ∀ m ∈ V3.msOf l, (V3.runEnts (V3.start hd) es').field m = o.field m := by
    intro m hm
    rw [ho, V3.run_field _ _ hnd', V3.run_field _ _ hnd]
    have : es'.find? (fun e => decide (e.m = m)) = es.find? (fun e => decide (e.m = m)) := by
      show (es.filter _).find? _ = _
      rw [List.find?_filter]
      congr 1
      funext e
      by_cases hem : e.m = m
      · subst hem; simp [hm]
      · simp [hem]
    rw [this]
  obtain ⟨q1, q2, _⟩ := queries_congr3 l _ o hv hf
  refine ⟨q1, q2, ?_⟩
  rw [view3_encode hl h, V3.encode_canonical hdec]
  congr 1
  have hf3 := V3.decode_fields hdec
  have hfields := V3.decode_fields h
  apply canon3_congr
  · have h1 := hf3.1
    rw [hv, hfields.1] at h1
    exact h1.symm
  · intro ms hms
    rw [V3.metricsOf_eq] at hms
    obtain ⟨m, hm, rfl⟩ := List.mem_map.mp hms
    have a := hf3.2 m hm
    have b := hfields.2 m (msOf_mono3 hl m hm)
    rw [hf m hm] at a
    have := V3.nodup_map_inj (V3.values_nodup m) a b rfl
    exact congrArg Prod.snd this

end CvssVerif.Props.C14

/-! ### v2: the view's encoding *is* the input's own tokens of the level -/

namespace CvssVerif.Props.C14
open CvssVerif

/-- the level-`l` part of a v2 vector, built from its text -/
def part2 (l : Level) (s : Bytes) : Bytes :=
  join slash ((split slash s).filter fun t =>
    (V2.msOf l).any fun m => m.spec.name == ((split colon t).head?.getD []))

theorem keep_tok2 (l : Level) {x : V2.Ent} (hp : (x.x, x.c) ∈ x.m.spec.codes) :
    ((V2.msOf l).any fun m => m.spec.name == ((split colon x.tok).head?.getD [])) = decide (x.m ∈ V2.msOf l) := by
  have hc := (V2.code_facts x.m _ hp).2.2.1
  have hs : split colon x.tok = [x.m.spec.name, x.c] := V2.split_pair (V2.colon_not_mem_name x.m) hc
  rw [hs]
  simp only [List.head?_cons, Option.getD_some]
  by_cases hm : x.m ∈ V2.msOf l
  · simp only [hm, decide_true]
    exact List.any_eq_true.mpr ⟨x.m, hm, by simp⟩
  · simp only [hm, decide_false]
    apply Bool.eq_false_iff.mpr
    intro h
    obtain ⟨m, hml, hname⟩ := List.any_eq_true.mp h
    have : m = x.m := V2.names_inj (by simpa using hname)
    exact hm (this ▸ hml)

theorem filter_toks2 (l : Level) (es : List V2.Ent) (hes : ∀ x ∈ es, (x.x, x.c) ∈ x.m.spec.codes) :
    ((es.map V2.Ent.tok).filter fun t => (V2.msOf l).any fun m => m.spec.name == ((split colon t).head?.getD []))
      = (es.filter fun x => decide (x.m ∈ V2.msOf l)).map V2.Ent.tok := by
  induction es with
  | nil => rfl
  | cons e es ih =>
    have he := hes e List.mem_cons_self
    have ih' := ih (fun x hx => hes x (List.mem_cons_of_mem _ hx))
    simp only [List.map_cons, List.filter_cons, keep_tok2 l he]
    by_cases hm : e.m ∈ V2.msOf l
    · simp only [hm, decide_true, if_true, List.map_cons, ih']
    · simp only [hm, decide_false, Bool.false_eq_true, if_false, ih']

/-- **C14 (v2), on the input's own tokens.** For an accepted vector, the encoding obtained through
    the level-`l` view is exactly the input's tokens of the metrics of level ≤ `l`, in the order
    written; by `view2`, an independent level-`l` decoder accepts that string and gives the view's
    score, validity and encoding. -/
theorem view2_tokens {l L : Level} {s : Bytes} {o : V2.Obj2} (hl : l.le L = true)
    (h : V2.decode L V2.Obj2.new s = (o, none)) : V2.encodeStr l o = part2 l s := by
  obtain ⟨t, e, es, ht, he, hm, hcodes, hsplit, rfl⟩ := (V2.decode_ok_iff L s o).mp h
  -- the pattern visible at level l
  let t' : Bool := t && Level.temporal.le l
  let e' : Bool := e && Level.environmental.le l
  let es' : List V2.Ent := es.filter fun x => decide (x.m ∈ V2.groups t' e')
  have hes : ∀ x ∈ es, x ∈ V2.vocab L := by
    intro x hx
    refine V2.mem_vocab.mpr ⟨V2.groups_sub L t e ht he _ ?_, hcodes x hx⟩
    rw [← hm]; exact List.mem_map.mpr ⟨x, hx, rfl⟩
  have hnd : (es.map (·.m)).Nodup := by rw [hm]; exact V2.groups_nodup t e
  have hm' : es'.map (·.m) = V2.groups t' e' := by
    have : es'.map (·.m) = (es.map (·.m)).filter (fun m => decide (m ∈ V2.groups t' e')) := by
      simp only [es', List.filter_map, Function.comp_def]
    rw [this, hm]
    cases t <;> cases e <;> cases l <;> decide
  have ht' : t' = true → Level.temporal.le l = true := by
    intro h1; simp only [t', Bool.and_eq_true] at h1; exact h1.2
  have he' : e' = true → Level.environmental.le l = true := by
    intro h1; simp only [e', Bool.and_eq_true] at h1; exact h1.2
  have hcodes' : ∀ x ∈ es', (x.x, x.c) ∈ x.m.spec.codes := fun x hx => hcodes x (List.mem_filter.mp hx).1
  have hes' : ∀ x ∈ es', x ∈ V2.vocab l := by
    intro x hx
    refine V2.mem_vocab.mpr ⟨V2.groups_sub l t' e' ht' he' _ ?_, hcodes' x hx⟩
    rw [← hm']; exact List.mem_map.mpr ⟨x, hx, rfl⟩
  have hnd' : (es'.map (·.m)).Nodup := by rw [hm']; exact V2.groups_nodup t' e'
  -- the two objects agree on the metrics of level ≤ l
  have hagree : ∀ m ∈ V2.msOf l, (V2.runEnts V2.Obj2.new es').field m = (V2.runEnts V2.Obj2.new es).field m ∧
      (V2.runEnts V2.Obj2.new es').named m = (V2.runEnts V2.Obj2.new es).named m := by
    intro m hml
    have hmem : m ∈ es'.map (·.m) ↔ m ∈ es.map (·.m) := by
      rw [hm', hm]
      revert hml
      cases t <;> cases e <;> cases l <;> cases m <;> decide
    constructor
    · by_cases hin : m ∈ es.map (·.m)
      · obtain ⟨x, hx, rfl⟩ := List.mem_map.mp hin
        have hx' : x ∈ es' := by
          obtain ⟨y, hy, hym⟩ := List.mem_map.mp (hmem.mpr hin)
          have : y = x := V2.nodup_map_inj hnd (List.mem_filter.mp hy).1 hx hym
          rw [← this]; exact hy
        rw [(V2.run_new_field es' hes' hnd' x.m).2 x hx' rfl, (V2.run_new_field es hes hnd x.m).2 x hx rfl]
      · have h1 : (V2.runEnts V2.Obj2.new es).field m = 0 := by
          cases hz : decide ((V2.runEnts V2.Obj2.new es).field m = 0)
          · exact absurd ((V2.run_new_field es hes hnd m).1.mp (of_decide_eq_false hz)) hin
          · exact of_decide_eq_true hz
        have h2 : (V2.runEnts V2.Obj2.new es').field m = 0 := by
          cases hz : decide ((V2.runEnts V2.Obj2.new es').field m = 0)
          · exact absurd (hmem.mp ((V2.run_new_field es' hes' hnd' m).1.mp (of_decide_eq_false hz))) hin
          · exact of_decide_eq_true hz
        rw [h1, h2]
    · rw [V2.run_new_named, V2.run_new_named]
      exact decide_eq_decide.mpr hmem
  obtain ⟨q1, q2, q3⟩ := queries_congr2 l _ _ hagree
  -- the view's encoding is the token list of es'
  have hpat' := V2.hasPattern_run es' t' e' hm'
  have hstr : V2.encodeStr l (V2.runEnts V2.Obj2.new es) = join slash (es'.map V2.Ent.tok) := by
    rw [← q3, V2.encodeStr_pattern hpat' ht' he', ← hm', List.map_map]
    congr 1
    apply List.map_congr_left
    intro x hx
    exact V2.tokOf_run es' hes' hnd' x hx
  rw [hstr]
  unfold part2
  rw [hsplit, filter_toks2 l es hcodes]
  congr 2
  apply List.filter_congr
  intro x hx
  have hxm : x.m ∈ V2.groups t e := by rw [← hm]; exact List.mem_map.mpr ⟨x, hx, rfl⟩
  revert hxm
  show x.m ∈ V2.groups t e → decide (x.m ∈ V2.groups (t && Level.temporal.le l) (e && Level.environmental.le l)) = decide (x.m ∈ V2.msOf l)
  have ht2 := ht; have he2 := he
  revert hl ht2 he2
  cases t <;> cases e <;> cases l <;> cases L <;> cases x.m <;> decide

end CvssVerif.Props.C14
