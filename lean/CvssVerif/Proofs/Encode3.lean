import CvssVerif.Proofs.Fields3
/-
  v3: the encoder on accepted objects (C10).
-/
namespace CvssVerif.V3
open CvssVerif

theorem msOf_base : msOf .base = baseMs := by decide
theorem msOf_temporal : msOf .temporal = baseMs ++ tempMs := by decide
theorem msOf_env : msOf .environmental = baseMs ++ tempMs ++ envMs := by decide
theorem msOf_nodup (L : Level) : (msOf L).Nodup := by cases L <;> decide

theorem intercalate_cons_eq (sep a : Bytes) (l : List Bytes) :
    sep.intercalate (a :: l) = a ++ (l.map fun y => sep ++ y).flatten := by
  induction l generalizing a with
  | nil => simp [List.intercalate]
  | cons b bs ih =>
    rw [List.intercalate_cons_cons, ih b]
    simp [List.append_assoc]

theorem join_append_flatten (x : Bytes) (xs ys : List Bytes) :
    join slash (x :: xs) ++ (ys.map fun y => [slash] ++ y).flatten = join slash (x :: (xs ++ ys)) := by
  unfold join
  rw [intercalate_cons_eq, intercalate_cons_eq, List.map_append, List.flatten_append, List.append_assoc]

theorem decode_getError {L : Level} {s : Bytes} {o : Obj3} (h : decode L Obj3.new s = (o, none)) :
    getError L o = none := by
  obtain ⟨hd, es, hsplit, hpre, hes, hnd, hbase, rfl⟩ := (decode_ok_iff L s o).mp h
  have := (decode_ok_iff L s (runEnts (start hd) es)).mpr ⟨hd, es, hsplit, hpre, hes, hnd, hbase, rfl⟩
  unfold decode at this
  rw [hsplit] at this
  obtain ⟨hgl, hv0, _⟩ := getVersion_label hpre
  simp only [hgl, hv0, if_false] at this
  split at this
  · cases this
  · rename_i o1 hl
    have h1 := congrArg Prod.fst this
    have h2 := congrArg Prod.snd this
    simp only at h1 h2
    rw [← h1]; exact h2

/-- the token the encoder writes for a metric is the canonical one -/
theorem tokOf_canon {L : Level} {s : Bytes} {o : Obj3} (h : decode L Obj3.new s = (o, none))
    {m : M3} (hm : m ∈ msOf L) :
    tokOf m o = (specOf m).name ++ [colon] ++ Spec3.expectedCode (specOf m) s := by
  unfold tokOf
  rw [specOf_name, str_value ((decode_fields h).2 m hm)]

theorem base_named {L : Level} {s : Bytes} {o : Obj3} (h : decode L Obj3.new s = (o, none)) :
    ∀ m ∈ baseMs, o.named m = true := by
  obtain ⟨hd, es, _, _, _, _, hbase, rfl⟩ := (decode_ok_iff L s o).mp h
  intro m hm
  obtain ⟨e, he, hem⟩ := hbase m hm
  rw [run_named]
  simp only [Bool.or_eq_true, List.any_eq_true, decide_eq_true_eq]
  exact Or.inr ⟨e, he, hem.symm⟩

theorem ver_ne_zero {L : Level} {s : Bytes} {o : Obj3} (h : decode L Obj3.new s = (o, none)) : o.ver ≠ 0 := by
  have := getError_none_base (decode_getError h)
  exact ((getErrorBase_none_iff o).mp this).1

theorem encodeBaseStr_eq {L : Level} {s : Bytes} {o : Obj3} (h : decode L Obj3.new s = (o, none)) :
    encodeBaseStr o = join slash ((b!"CVSS:" ++ verStr o.ver) :: baseMs.map fun m => tokOf m o) := by
  unfold encodeBaseStr
  have hf : baseMs.filter o.named = baseMs := by
    rw [List.filter_eq_self]
    exact base_named h
  simp only [ver_ne_zero h, ne_eq, not_false_eq_true, if_true, hf, List.singleton_append]

/-- the encoding string at level `L` (error aside) is the canonical vector -/
theorem encode_str_canon {L : Level} {s : Bytes} {o : Obj3} (h : decode L Obj3.new s = (o, none)) :
    join slash ((b!"CVSS:" ++ verStr o.ver) :: (msOf L).map fun m => tokOf m o) = Spec3.canon3 L s := by
  unfold Spec3.canon3
  rw [metricsOf_eq, (decode_fields h).1, List.map_map]
  congr 2
  apply List.map_congr_left
  intro m hm
  exact tokOf_canon h hm

/-- **C10 (v3), first half.** Encoding the object of an accepted decode succeeds and yields the
    canonical vector: prefix, then every metric of the object's level in specification order,
    X spelled out. -/
theorem encode_canonical {L : Level} {s : Bytes} {o : Obj3} (h : decode L Obj3.new s = (o, none)) :
    encode L o = (Spec3.canon3 L s, none) := by
  have hge := decode_getError h
  have hb := encodeBaseStr_eq h
  rw [← encode_str_canon h]
  cases L
  · unfold encode
    simp only
    rw [show getErrorBase o = none from hge, hb, msOf_base]
  · unfold encode
    simp only
    rw [show getErrorTemporal o = none from hge]
    unfold encodeTemporalStr
    rw [hb, msOf_temporal, List.map_append, ← join_append_flatten]
    simp only [List.map_map, Function.comp_def]
  · unfold encode
    simp only
    rw [show getErrorEnv o = none from hge]
    simp only
    unfold encodeEnvStr encodeTemporalStr
    rw [hb, msOf_env, List.map_append, List.map_append, ← join_append_flatten, ← join_append_flatten]
    simp only [List.map_map, Function.comp_def, List.append_assoc]

end CvssVerif.V3

namespace CvssVerif.V3
open CvssVerif

theorem verGet_verStr (v : Int) (h : v = 1 ∨ v = 2) : verGet (verStr v) = v := by
  rcases h with rfl | rfl <;> decide

theorem start_ver_cases (hd : Bytes) (h : Spec3.prefixOK hd = true) :
    verGet (hd.drop 5) = 1 ∨ verGet (hd.drop 5) = 2 := by
  unfold Spec3.prefixOK at h
  simp only [Bool.or_eq_true, beq_iff_eq] at h
  rcases h with rfl | rfl
  · left; decide
  · right; decide

theorem prefix_of_ver (v : Int) (h : v = 1 ∨ v = 2) :
    Spec3.prefixOK (b!"CVSS:" ++ verStr v) = true ∧ slash ∉ (b!"CVSS:" ++ verStr v) ∧
      (b!"CVSS:" ++ verStr v).drop 5 = verStr v := by
  rcases h with rfl | rfl <;> decide

/-- the entries of the canonical vector of an accepted object -/
def canonEnts (L : Level) (o : Obj3) : List Ent :=
  (msOf L).map fun m => ⟨m, o.field m, m.spec.str (o.field m)⟩

theorem slash_not_mem_tok {L : Level} {e : Ent} (he : e ∈ vocab L) : slash ∉ e.tok := by
  obtain ⟨_, hp⟩ := mem_vocab.mp he
  have hc := (code_facts e.m _ hp).2.2.2.1
  unfold Ent.tok
  intro h
  rcases List.mem_append.mp h with h | h
  · exact slash_not_mem_name e.m h
  · rcases List.mem_cons.mp h with h | h
    · exact absurd h (by decide)
    · exact hc h

/-- **C10 (v3), second half.** Decoding the encoding of an accepted object with a fresh decoder
    of the same level is accepted and yields an object with the same version and fields (hence
    the same scores) and the same encoding. -/
theorem decode_encode_decode {L : Level} {s : Bytes} {o : Obj3} (h : decode L Obj3.new s = (o, none)) :
    ∃ o2, decode L Obj3.new (encode L o).1 = (o2, none) ∧ o2.ver = o.ver ∧
      (∀ m ∈ msOf L, o2.field m = o.field m) ∧ encode L o2 = encode L o := by
  have hcanon := encode_canonical h
  have hfields := decode_fields h
  obtain ⟨hd, es, hsplit, hpre, hes, hnd, hbase, ho⟩ := (decode_ok_iff L s o).mp h
  have hver : o.ver = 1 ∨ o.ver = 2 := by
    rw [ho, run_ver]; exact start_ver_cases hd hpre
  obtain ⟨hp1, hp2, hp3⟩ := prefix_of_ver o.ver hver
  -- the canonical string splits into the prefix and the canonical entries
  have hce : ∀ e ∈ canonEnts L o, e ∈ vocab L := by
    intro e he
    obtain ⟨m, hm, rfl⟩ := List.mem_map.mp he
    refine mem_vocab.mpr ⟨hm, ?_⟩
    have := hfields.2 m hm
    simp only
    rw [str_value this]; exact this
  have hstr : (encode L o).1 = join slash ((b!"CVSS:" ++ verStr o.ver) :: (canonEnts L o).map Ent.tok) := by
    rw [hcanon, ← encode_str_canon h]
    simp only [canonEnts, List.map_map]
    congr 2
    apply List.map_congr_left
    intro m _
    simp [tokOf, Ent.tok]
  have hsp : split slash (encode L o).1 = (b!"CVSS:" ++ verStr o.ver) :: (canonEnts L o).map Ent.tok := by
    rw [hstr]
    unfold split join
    apply List.splitOn_intercalate
    · intro l hl
      rcases List.mem_cons.mp hl with rfl | hl
      · exact hp2
      · obtain ⟨e, he, rfl⟩ := List.mem_map.mp hl
        exact slash_not_mem_tok (hce e he)
    · simp
  have hnd2 : ((canonEnts L o).map (·.m)).Nodup := by
    simp only [canonEnts, List.map_map, Function.comp_def, List.map_id']
    exact msOf_nodup L
  have hbase2 : ∀ m ∈ baseMs, ∃ e ∈ canonEnts L o, e.m = m := by
    intro m hm
    exact ⟨⟨m, o.field m, m.spec.str (o.field m)⟩, List.mem_map.mpr ⟨m, baseMs_sub L m hm, rfl⟩, rfl⟩
  have hdec := (decode_ok_iff L (encode L o).1 _).mpr ⟨_, canonEnts L o, hsp, hp1, hce, hnd2, hbase2, rfl⟩
  refine ⟨_, hdec, ?_, ?_, ?_⟩
  · rw [run_ver]; unfold start; simp only [hp3]; exact verGet_verStr _ hver
  · intro m hm
    rw [run_field _ _ hnd2]
    have : (canonEnts L o).find? (fun e => decide (e.m = m)) = some ⟨m, o.field m, m.spec.str (o.field m)⟩ := by
      apply find?_unique (List.mem_map.mpr ⟨m, hm, rfl⟩) (by simp)
      intro x hx hxm
      obtain ⟨m', _, rfl⟩ := List.mem_map.mp hx
      have : m' = m := by simpa using hxm
      subst this; rfl
    rw [this]
  · -- both encodings are the canonical vector, and the two canonical vectors coincide
    have hcc : Spec3.canon3 L (encode L o).1 = Spec3.canon3 L s := by
      have hf2 := decode_fields hdec
      unfold Spec3.canon3
      have hl : Spec3.label (encode L o).1 = Spec3.label s := by
        rw [← hf2.1, ← hfields.1, run_ver]
        unfold start; simp only [hp3]
        rw [verGet_verStr _ hver]
      rw [hl]
      congr 2
      rw [metricsOf_eq]
      apply List.map_congr_left
      intro ms hms
      obtain ⟨m, hm, rfl⟩ := List.mem_map.mp hms
      congr 1
      have h1 := hf2.2 m hm
      have h2 := hfields.2 m hm
      have hfm : (runEnts (start (b!"CVSS:" ++ verStr o.ver)) (canonEnts L o)).field m = o.field m := by
        rw [run_field _ _ hnd2]
        have : (canonEnts L o).find? (fun e => decide (e.m = m)) = some ⟨m, o.field m, m.spec.str (o.field m)⟩ := by
          apply find?_unique (List.mem_map.mpr ⟨m, hm, rfl⟩) (by simp)
          intro x hx hxm
          obtain ⟨m', _, rfl⟩ := List.mem_map.mp hx
          have : m' = m := by simpa using hxm
          subst this; rfl
        rw [this]
      rw [hfm] at h1
      have := nodup_map_inj (values_nodup m) h1 h2 rfl
      exact congrArg Prod.snd this
    rw [encode_canonical hdec, hcc, hcanon]

end CvssVerif.V3
