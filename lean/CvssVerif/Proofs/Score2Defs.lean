import CvssVerif.Proofs.Basics
import CvssVerif.Model.V2
import CvssVerif.Spec.V2
import CvssVerif.Proofs.Gen.Known2
/-
  Definitions shared by the v2 score proofs (same scheme as `Score3Defs`).
-/
namespace CvssVerif.P2
open CvssVerif Spec2 V2 F64

instance : Enum Spec2.AV := ⟨[.L, .A, .N], by intro a; cases a <;> simp⟩
instance : Enum Spec2.AC := ⟨[.H, .M, .L], by intro a; cases a <;> simp⟩
instance : Enum Spec2.Au := ⟨[.M, .S, .N], by intro a; cases a <;> simp⟩
instance : Enum Spec2.CIA := ⟨[.N, .P, .C], by intro a; cases a <;> simp⟩
instance : Enum Spec2.E := ⟨[.U, .POC, .F, .H, .ND], by intro a; cases a <;> simp⟩
instance : Enum Spec2.RL := ⟨[.OF, .TF, .W, .U, .ND], by intro a; cases a <;> simp⟩
instance : Enum Spec2.RC := ⟨[.UC, .UR, .C, .ND], by intro a; cases a <;> simp⟩
instance : Enum Spec2.CDP := ⟨[.N, .L, .LM, .MH, .H, .ND], by intro a; cases a <;> simp⟩
instance : Enum Spec2.TD := ⟨[.N, .L, .M, .H, .ND], by intro a; cases a <;> simp⟩
instance : Enum Spec2.Req := ⟨[.L, .M, .H, .ND], by intro a; cases a <;> simp⟩

def iAV (x : Spec2.AV) : Int := M2.AV.spec.get x.code
def iAC (x : Spec2.AC) : Int := M2.AC.spec.get x.code
def iAu (x : Spec2.Au) : Int := M2.Au.spec.get x.code
def iCIA (m : M2) (x : Spec2.CIA) : Int := m.spec.get x.code
def iE (x : Spec2.E) : Int := M2.E.spec.get x.code
def iRL (x : Spec2.RL) : Int := M2.RL.spec.get x.code
def iRC (x : Spec2.RC) : Int := M2.RC.spec.get x.code
def iCDP (x : Spec2.CDP) : Int := M2.CDP.spec.get x.code
def iTD (x : Spec2.TD) : Int := M2.TD.spec.get x.code
def iReq (m : M2) (x : Spec2.Req) : Int := m.spec.get x.code

def negZero : Nat := two63

/-- the double for a signed number of tenths (v2 environmental scores may be negative) -/
def tenthI (k : Int) : Nat := if k < 0 then neg (tenth k.natAbs) else tenth k.toNat

/-- `f` is the double for `k` tenths; `-0` also stands for 0 (Go computes `negative × 0`) -/
def isTenth (f : Nat) (k : Int) : Bool := f == tenthI k || (k == 0 && f == negZero)

/-- the tenths a double stands for, if it is on the grid: `int(round(f·10))`, checked -/
def tenthsOf (f : Nat) : Option Int :=
  cbv f fun f =>
  let k := toInt (round (mul f ten))
  if isTenth f k then some k else none

/-- round half away from zero to an integer (`math.Round` on exact values) -/
def roundQ (x : Rat) : Int := if x < 0 then -((-x + mkRat 1 2).floor) else (x + mkRat 1 2).floor
/-- `roundTo2Decimal` on exact values -/
def r2Q (x : Rat) : Rat := (roundQ (x * 100) : Rat) / 100

/-- what the code feeds into the base equation, in exact arithmetic: Impact and Exploitability
    rounded to two decimals (the FIRST guide uses them unrounded) -/
def codeBaseRaw (imp2 ex : Rat) : Rat := baseEq imp2 (r2Q ex)

abbrev ExKey := Spec2.AV × Spec2.AC × Spec2.Au
abbrev TempKey := Spec2.E × Spec2.RL × Spec2.RC

def modelBase (v : BaseVec) : Nat :=
  scoreOfImpact (impactF (iCIA .C v.c) (iCIA .I v.i) (iCIA .A v.a)) (iAV v.av) (iAC v.ac) (iAu v.au)

def modelAdjBase (v : BaseVec) (n : EnvVec) : Nat :=
  scoreOfImpact (adjImpactF (iCIA .C v.c) (iCIA .I v.i) (iCIA .A v.a) (iReq .CR n.cr) (iReq .IR n.ir) (iReq .AR n.ar))
    (iAV v.av) (iAC v.ac) (iAu v.au)

end CvssVerif.P2

namespace CvssVerif.P2
open CvssVerif Spec2 V2 F64

/-- Stage check for one (C, I, A): for all 27 exploitability combinations the model's base
    score is a tenth in 0..100 that is a rounding of what the code feeds into the base equation
    (sub-scores rounded to two decimals), and — except on the listed known-finding vectors — a
    rounding of the specification's equation on the unrounded sub-scores. -/
def chkBase2 (c i a : Spec2.CIA) : Bool :=
  cbv (impactF (iCIA .C c) (iCIA .I i) (iCIA .A a)) fun imp =>
  cbvRat (r2Q (impact c i a)) fun imp2 =>
  (Enum.all (α := ExKey)).all fun k =>
    let v : BaseVec := ⟨k.1, k.2.1, k.2.2, c, i, a⟩
    match tenthsOf (scoreOfImpact imp (iAV k.1) (iAC k.2.1) (iAu k.2.2)) with
    | none => false
    | some t =>
      isRound1 (codeBaseRaw imp2 (exploitability k.1 k.2.1 k.2.2)) t && decide (0 ≤ t) && decide (t ≤ 100)
        && (okBase v t || knownBase2.contains v)
        && (okBase v t != knownBase2.contains v)

/-- the adjusted-base stage for one (C, I, A, CR, IR, AR) -/
def chkAdj2 (c i a : Spec2.CIA) (cr ir ar : Spec2.Req) : Bool :=
  cbv (adjImpactF (iCIA .C c) (iCIA .I i) (iCIA .A a) (iReq .CR cr) (iReq .IR ir) (iReq .AR ar)) fun imp =>
  let n : EnvVec := ⟨.ND, .ND, cr, ir, ar⟩
  cbvRat (min 10 (r2Q (q 1041 100 * (1 - (1 - wCIA c * wReq cr) * (1 - wCIA i * wReq ir) * (1 - wCIA a * wReq ar))))) fun imp2 =>
  (Enum.all (α := ExKey)).all fun k =>
    let v : BaseVec := ⟨k.1, k.2.1, k.2.2, c, i, a⟩
    match tenthsOf (scoreOfImpact imp (iAV k.1) (iAC k.2.1) (iAu k.2.2)) with
    | none => false
    | some t =>
      isRound1 (codeBaseRaw imp2 (exploitability k.1 k.2.1 k.2.2)) t && decide (-20 ≤ t) && decide (t ≤ 100)
        && (okAdjBase v n t || (knownAdj2 c i a cr ir ar).contains k)
        && (okAdjBase v n t != (knownAdj2 c i a cr ir ar).contains k)
        && (decide (0 ≤ t) || decide (adjustedBaseRaw v n < 0))

/-- input of the later stages: the double for `j - 20` tenths (j = 0..120), or `-0` for j = 121 -/
def gridIn (j : Nat) : Nat := if j = 121 then negZero else tenthI (Int.ofNat j - 20)
def gridK (j : Nat) : Int := if j = 121 then 0 else Int.ofNat j - 20

/-- temporal stage for one grid point: for all 100 temporal combinations the model's
    `roundTo1Decimal(score × E × RL × RC)` is a tenth that is a rounding of the exact product,
    never exceeds a non-negative input, and equals the input when all three are Not Defined -/
def chkTemp2 (j : Nat) : Bool :=
  cbv (gridIn j) fun x =>
  (Enum.all (α := TempKey)).all fun t =>
    match tenthsOf (temporalOf x (iE t.1) (iRL t.2.1) (iRC t.2.2)) with
    | none => false
    | some r =>
      isRound1 (temporalRaw (gridK j) ⟨t.1, t.2.1, t.2.2⟩) r && decide (-20 ≤ r) && decide (r ≤ 100)
        && (decide (gridK j < 0) || (decide (r ≤ gridK j) && decide (0 ≤ r)))
        && (!(t.1 == .ND && t.2.1 == .ND && t.2.2 == .ND) || decide (r = gridK j))

abbrev EnvKey := Spec2.CDP × Spec2.TD

/-- environmental stage for one grid point: for all 30 (CDP, TD) combinations -/
def chkEnv2 (j : Nat) : Bool :=
  cbv (gridIn j) fun x =>
  (Enum.all (α := EnvKey)).all fun e =>
    let f := roundTo1 (mul (add x (mul (sub ten x) (value .CDP (iCDP e.1)))) (value .TD (iTD e.2)))
    match tenthsOf f with
    | none => false
    | some r =>
      isRound1 (envRaw (gridK j) ⟨e.1, e.2, .ND, .ND, .ND⟩) r && decide (-20 ≤ r) && decide (r ≤ 100)
        && (!(e.2 == .N) || decide (r = 0))
        && (decide (gridK j < 0) || decide (0 ≤ r))

/-- severity of every grid score is its band (C06) -/
def chkSev2 : Bool :=
  (List.range 101).all fun k =>
    severityName (severityF (tenth k)) == (match band (Int.ofNat k) with
      | .low => b!"Low" | .medium => b!"Medium" | .high => b!"High")

end CvssVerif.P2

namespace CvssVerif.P2
open CvssVerif Spec2 V2 F64

/-! Single-vector versions of the base and adjusted-base stage checks.  (With impact 0 the kernel
    evaluates the 27-element loop pathologically slowly although each element takes well under
    a second; those few chunks are therefore assembled from single-vector checks.) -/

def chkBase2K (k : ExKey) (c i a : Spec2.CIA) : Bool :=
  let v : BaseVec := ⟨k.1, k.2.1, k.2.2, c, i, a⟩
  match tenthsOf (scoreOfImpact (impactF (iCIA .C c) (iCIA .I i) (iCIA .A a)) (iAV k.1) (iAC k.2.1) (iAu k.2.2)) with
  | none => false
  | some t =>
    isRound1 (codeBaseRaw (r2Q (impact c i a)) (exploitability k.1 k.2.1 k.2.2)) t && decide (0 ≤ t) && decide (t ≤ 100)
      && (okBase v t || knownBase2.contains v)
      && (okBase v t != knownBase2.contains v)

theorem chkBase2_of_K (c i a : Spec2.CIA) (h : ∀ k : ExKey, chkBase2K k c i a = true) :
    chkBase2 c i a = true := by
  unfold chkBase2
  rw [cbv_eq, cbvRat_eq]
  simp only [List.all_eq_true]
  intro k _
  exact h k

def chkAdj2K (k : ExKey) (c i a : Spec2.CIA) (cr ir ar : Spec2.Req) : Bool :=
  let n : EnvVec := ⟨.ND, .ND, cr, ir, ar⟩
  let v : BaseVec := ⟨k.1, k.2.1, k.2.2, c, i, a⟩
  match tenthsOf (scoreOfImpact
      (adjImpactF (iCIA .C c) (iCIA .I i) (iCIA .A a) (iReq .CR cr) (iReq .IR ir) (iReq .AR ar))
      (iAV k.1) (iAC k.2.1) (iAu k.2.2)) with
  | none => false
  | some t =>
    isRound1 (codeBaseRaw (min 10 (r2Q (q 1041 100 * (1 - (1 - wCIA c * wReq cr) * (1 - wCIA i * wReq ir) * (1 - wCIA a * wReq ar)))))
        (exploitability k.1 k.2.1 k.2.2)) t && decide (-20 ≤ t) && decide (t ≤ 100)
      && (okAdjBase v n t || (knownAdj2 c i a cr ir ar).contains k)
      && (okAdjBase v n t != (knownAdj2 c i a cr ir ar).contains k)
      && (decide (0 ≤ t) || decide (adjustedBaseRaw v n < 0))

theorem chkAdj2_of_K (c i a : Spec2.CIA) (cr ir ar : Spec2.Req)
    (h : ∀ k : ExKey, chkAdj2K k c i a cr ir ar = true) : chkAdj2 c i a cr ir ar = true := by
  unfold chkAdj2
  rw [cbv_eq]
  simp only [cbvRat_eq, List.all_eq_true]
  intro k _
  exact h k

end CvssVerif.P2
