import CvssVerif.Proofs.F64Round
/-
  GENERATED ONCE by the script in this comment's history (tools/gen_roundproofs.py); committed.

  `round` (`Basic/F64.lean`) is Go's `math.Round` — round half away from zero to an integer — transcribed from its bit manipulation
  (add half a unit at the binary point, clear the fraction bits, let a carry run into the exponent).  For every positive normal
  double with unbiased exponent k in 0..51 (values in [1, 2^52); beyond that every double is an integer and `round` returns it
  unchanged), written as the pattern (1023+k)·2^52 + f, the result is the double whose value is N = ⌊(2^52+f)/2^(52−k) + 1/2⌋:
  significand N·2^(52−k) at the same exponent, or — when rounding carries to 2^(k+1) — significand 2^52 at the next exponent.
  One lemma per exponent (literal shifts and masks, `omega`), collected in `round_pos`.
-/
namespace CvssVerif.F64

theorem round_case_0 (b f : Nat) (hf : f < 4503599627370496) (hbv : b = 1023 * 4503599627370496 + f) :
    ((4503599627370496 + f + 2 ^ 51) / 2 ^ 52 < 2 ^ 1 →
      man (round b) = (4503599627370496 + f + 2 ^ 51) / 2 ^ 52 * 2 ^ 52 ∧ eb (round b) = 3948 ∧ sgn (round b) = 0) ∧
    ((4503599627370496 + f + 2 ^ 51) / 2 ^ 52 = 2 ^ 1 → man (round b) = 4503599627370496 ∧ eb (round b) = 3949 ∧ sgn (round b) = 0) := by
  have hb : bexp b = 1023 ∧ frac b = f ∧ sgn b = 0 := by
    have := fields_of_sum 0 1023 f (by omega) (by omega) (by unfold two52; omega)
    have e : b = (0 <<< 63) + (1023 <<< 52) + f := by simp only [Nat.shiftLeft_eq]; omega
    rw [e]; exact ⟨this.2.1, this.2.2, this.1⟩
  have hr : round b = b + 2 ^ 51 - (b + 2 ^ 51) % 2 ^ 52 := by
    unfold round
    simp only [cbv_eq', hb.1]
    have hm : (4503599627370495 >>> (1023 - 1023) : Nat) = 2 ^ 52 - 1 := by decide
    have hh : ((1 <<< 51) >>> (1023 - 1023) : Nat) = 2 ^ 51 := by decide
    simp only [hm, hh, Nat.and_two_pow_sub_one_eq_mod]
    simp
  rw [hr]
  constructor
  · intro hN
    have hF : (f + 2 ^ 51) / 2 ^ 52 * 2 ^ 52 < two52 := by unfold two52; omega
    have hres : b + 2 ^ 51 - (b + 2 ^ 51) % 2 ^ 52 = (0 <<< 63) + (1023 <<< 52) + (f + 2 ^ 51) / 2 ^ 52 * 2 ^ 52 := by
      simp only [Nat.shiftLeft_eq]; omega
    rw [hres]
    obtain ⟨h1, h2, h3⟩ := fields_of_sum 0 1023 ((f + 2 ^ 51) / 2 ^ 52 * 2 ^ 52) (by omega) (by omega) hF
    unfold man eb
    simp only [cbv_eq', h1, h2, h3]
    refine ⟨?_, by decide, trivial⟩
    unfold two52; simp; omega
  · intro hN
    have hres : b + 2 ^ 51 - (b + 2 ^ 51) % 2 ^ 52 = (0 <<< 63) + (1024 <<< 52) + 0 := by
      simp only [Nat.shiftLeft_eq]; omega
    rw [hres]
    obtain ⟨h1, h2, h3⟩ := fields_of_sum 0 1024 0 (by omega) (by omega) (by unfold two52; omega)
    unfold man eb
    simp only [cbv_eq', h1, h2, h3]
    exact ⟨by decide, by decide, trivial⟩

theorem round_case_1 (b f : Nat) (hf : f < 4503599627370496) (hbv : b = 1024 * 4503599627370496 + f) :
    ((4503599627370496 + f + 2 ^ 50) / 2 ^ 51 < 2 ^ 2 →
      man (round b) = (4503599627370496 + f + 2 ^ 50) / 2 ^ 51 * 2 ^ 51 ∧ eb (round b) = 3949 ∧ sgn (round b) = 0) ∧
    ((4503599627370496 + f + 2 ^ 50) / 2 ^ 51 = 2 ^ 2 → man (round b) = 4503599627370496 ∧ eb (round b) = 3950 ∧ sgn (round b) = 0) := by
  have hb : bexp b = 1024 ∧ frac b = f ∧ sgn b = 0 := by
    have := fields_of_sum 0 1024 f (by omega) (by omega) (by unfold two52; omega)
    have e : b = (0 <<< 63) + (1024 <<< 52) + f := by simp only [Nat.shiftLeft_eq]; omega
    rw [e]; exact ⟨this.2.1, this.2.2, this.1⟩
  have hr : round b = b + 2 ^ 50 - (b + 2 ^ 50) % 2 ^ 51 := by
    unfold round
    simp only [cbv_eq', hb.1]
    have hm : (4503599627370495 >>> (1024 - 1023) : Nat) = 2 ^ 51 - 1 := by decide
    have hh : ((1 <<< 51) >>> (1024 - 1023) : Nat) = 2 ^ 50 := by decide
    simp only [hm, hh, Nat.and_two_pow_sub_one_eq_mod]
    simp
  rw [hr]
  constructor
  · intro hN
    have hF : (f + 2 ^ 50) / 2 ^ 51 * 2 ^ 51 < two52 := by unfold two52; omega
    have hres : b + 2 ^ 50 - (b + 2 ^ 50) % 2 ^ 51 = (0 <<< 63) + (1024 <<< 52) + (f + 2 ^ 50) / 2 ^ 51 * 2 ^ 51 := by
      simp only [Nat.shiftLeft_eq]; omega
    rw [hres]
    obtain ⟨h1, h2, h3⟩ := fields_of_sum 0 1024 ((f + 2 ^ 50) / 2 ^ 51 * 2 ^ 51) (by omega) (by omega) hF
    unfold man eb
    simp only [cbv_eq', h1, h2, h3]
    refine ⟨?_, by decide, trivial⟩
    unfold two52; simp; omega
  · intro hN
    have hres : b + 2 ^ 50 - (b + 2 ^ 50) % 2 ^ 51 = (0 <<< 63) + (1025 <<< 52) + 0 := by
      simp only [Nat.shiftLeft_eq]; omega
    rw [hres]
    obtain ⟨h1, h2, h3⟩ := fields_of_sum 0 1025 0 (by omega) (by omega) (by unfold two52; omega)
    unfold man eb
    simp only [cbv_eq', h1, h2, h3]
    exact ⟨by decide, by decide, trivial⟩

theorem round_case_2 (b f : Nat) (hf : f < 4503599627370496) (hbv : b = 1025 * 4503599627370496 + f) :
    ((4503599627370496 + f + 2 ^ 49) / 2 ^ 50 < 2 ^ 3 →
      man (round b) = (4503599627370496 + f + 2 ^ 49) / 2 ^ 50 * 2 ^ 50 ∧ eb (round b) = 3950 ∧ sgn (round b) = 0) ∧
    ((4503599627370496 + f + 2 ^ 49) / 2 ^ 50 = 2 ^ 3 → man (round b) = 4503599627370496 ∧ eb (round b) = 3951 ∧ sgn (round b) = 0) := by
  have hb : bexp b = 1025 ∧ frac b = f ∧ sgn b = 0 := by
    have := fields_of_sum 0 1025 f (by omega) (by omega) (by unfold two52; omega)
    have e : b = (0 <<< 63) + (1025 <<< 52) + f := by simp only [Nat.shiftLeft_eq]; omega
    rw [e]; exact ⟨this.2.1, this.2.2, this.1⟩
  have hr : round b = b + 2 ^ 49 - (b + 2 ^ 49) % 2 ^ 50 := by
    unfold round
    simp only [cbv_eq', hb.1]
    have hm : (4503599627370495 >>> (1025 - 1023) : Nat) = 2 ^ 50 - 1 := by decide
    have hh : ((1 <<< 51) >>> (1025 - 1023) : Nat) = 2 ^ 49 := by decide
    simp only [hm, hh, Nat.and_two_pow_sub_one_eq_mod]
    simp
  rw [hr]
  constructor
  · intro hN
    have hF : (f + 2 ^ 49) / 2 ^ 50 * 2 ^ 50 < two52 := by unfold two52; omega
    have hres : b + 2 ^ 49 - (b + 2 ^ 49) % 2 ^ 50 = (0 <<< 63) + (1025 <<< 52) + (f + 2 ^ 49) / 2 ^ 50 * 2 ^ 50 := by
      simp only [Nat.shiftLeft_eq]; omega
    rw [hres]
    obtain ⟨h1, h2, h3⟩ := fields_of_sum 0 1025 ((f + 2 ^ 49) / 2 ^ 50 * 2 ^ 50) (by omega) (by omega) hF
    unfold man eb
    simp only [cbv_eq', h1, h2, h3]
    refine ⟨?_, by decide, trivial⟩
    unfold two52; simp; omega
  · intro hN
    have hres : b + 2 ^ 49 - (b + 2 ^ 49) % 2 ^ 50 = (0 <<< 63) + (1026 <<< 52) + 0 := by
      simp only [Nat.shiftLeft_eq]; omega
    rw [hres]
    obtain ⟨h1, h2, h3⟩ := fields_of_sum 0 1026 0 (by omega) (by omega) (by unfold two52; omega)
    unfold man eb
    simp only [cbv_eq', h1, h2, h3]
    exact ⟨by decide, by decide, trivial⟩

theorem round_case_3 (b f : Nat) (hf : f < 4503599627370496) (hbv : b = 1026 * 4503599627370496 + f) :
    ((4503599627370496 + f + 2 ^ 48) / 2 ^ 49 < 2 ^ 4 →
      man (round b) = (4503599627370496 + f + 2 ^ 48) / 2 ^ 49 * 2 ^ 49 ∧ eb (round b) = 3951 ∧ sgn (round b) = 0) ∧
    ((4503599627370496 + f + 2 ^ 48) / 2 ^ 49 = 2 ^ 4 → man (round b) = 4503599627370496 ∧ eb (round b) = 3952 ∧ sgn (round b) = 0) := by
  have hb : bexp b = 1026 ∧ frac b = f ∧ sgn b = 0 := by
    have := fields_of_sum 0 1026 f (by omega) (by omega) (by unfold two52; omega)
    have e : b = (0 <<< 63) + (1026 <<< 52) + f := by simp only [Nat.shiftLeft_eq]; omega
    rw [e]; exact ⟨this.2.1, this.2.2, this.1⟩
  have hr : round b = b + 2 ^ 48 - (b + 2 ^ 48) % 2 ^ 49 := by
    unfold round
    simp only [cbv_eq', hb.1]
    have hm : (4503599627370495 >>> (1026 - 1023) : Nat) = 2 ^ 49 - 1 := by decide
    have hh : ((1 <<< 51) >>> (1026 - 1023) : Nat) = 2 ^ 48 := by decide
    simp only [hm, hh, Nat.and_two_pow_sub_one_eq_mod]
    simp
  rw [hr]
  constructor
  · intro hN
    have hF : (f + 2 ^ 48) / 2 ^ 49 * 2 ^ 49 < two52 := by unfold two52; omega
    have hres : b + 2 ^ 48 - (b + 2 ^ 48) % 2 ^ 49 = (0 <<< 63) + (1026 <<< 52) + (f + 2 ^ 48) / 2 ^ 49 * 2 ^ 49 := by
      simp only [Nat.shiftLeft_eq]; omega
    rw [hres]
    obtain ⟨h1, h2, h3⟩ := fields_of_sum 0 1026 ((f + 2 ^ 48) / 2 ^ 49 * 2 ^ 49) (by omega) (by omega) hF
    unfold man eb
    simp only [cbv_eq', h1, h2, h3]
    refine ⟨?_, by decide, trivial⟩
    unfold two52; simp; omega
  · intro hN
    have hres : b + 2 ^ 48 - (b + 2 ^ 48) % 2 ^ 49 = (0 <<< 63) + (1027 <<< 52) + 0 := by
      simp only [Nat.shiftLeft_eq]; omega
    rw [hres]
    obtain ⟨h1, h2, h3⟩ := fields_of_sum 0 1027 0 (by omega) (by omega) (by unfold two52; omega)
    unfold man eb
    simp only [cbv_eq', h1, h2, h3]
    exact ⟨by decide, by decide, trivial⟩

theorem round_case_4 (b f : Nat) (hf : f < 4503599627370496) (hbv : b = 1027 * 4503599627370496 + f) :
    ((4503599627370496 + f + 2 ^ 47) / 2 ^ 48 < 2 ^ 5 →
      man (round b) = (4503599627370496 + f + 2 ^ 47) / 2 ^ 48 * 2 ^ 48 ∧ eb (round b) = 3952 ∧ sgn (round b) = 0) ∧
    ((4503599627370496 + f + 2 ^ 47) / 2 ^ 48 = 2 ^ 5 → man (round b) = 4503599627370496 ∧ eb (round b) = 3953 ∧ sgn (round b) = 0) := by
  have hb : bexp b = 1027 ∧ frac b = f ∧ sgn b = 0 := by
    have := fields_of_sum 0 1027 f (by omega) (by omega) (by unfold two52; omega)
    have e : b = (0 <<< 63) + (1027 <<< 52) + f := by simp only [Nat.shiftLeft_eq]; omega
    rw [e]; exact ⟨this.2.1, this.2.2, this.1⟩
  have hr : round b = b + 2 ^ 47 - (b + 2 ^ 47) % 2 ^ 48 := by
    unfold round
    simp only [cbv_eq', hb.1]
    have hm : (4503599627370495 >>> (1027 - 1023) : Nat) = 2 ^ 48 - 1 := by decide
    have hh : ((1 <<< 51) >>> (1027 - 1023) : Nat) = 2 ^ 47 := by decide
    simp only [hm, hh, Nat.and_two_pow_sub_one_eq_mod]
    simp
  rw [hr]
  constructor
  · intro hN
    have hF : (f + 2 ^ 47) / 2 ^ 48 * 2 ^ 48 < two52 := by unfold two52; omega
    have hres : b + 2 ^ 47 - (b + 2 ^ 47) % 2 ^ 48 = (0 <<< 63) + (1027 <<< 52) + (f + 2 ^ 47) / 2 ^ 48 * 2 ^ 48 := by
      simp only [Nat.shiftLeft_eq]; omega
    rw [hres]
    obtain ⟨h1, h2, h3⟩ := fields_of_sum 0 1027 ((f + 2 ^ 47) / 2 ^ 48 * 2 ^ 48) (by omega) (by omega) hF
    unfold man eb
    simp only [cbv_eq', h1, h2, h3]
    refine ⟨?_, by decide, trivial⟩
    unfold two52; simp; omega
  · intro hN
    have hres : b + 2 ^ 47 - (b + 2 ^ 47) % 2 ^ 48 = (0 <<< 63) + (1028 <<< 52) + 0 := by
      simp only [Nat.shiftLeft_eq]; omega
    rw [hres]
    obtain ⟨h1, h2, h3⟩ := fields_of_sum 0 1028 0 (by omega) (by omega) (by unfold two52; omega)
    unfold man eb
    simp only [cbv_eq', h1, h2, h3]
    exact ⟨by decide, by decide, trivial⟩

theorem round_case_5 (b f : Nat) (hf : f < 4503599627370496) (hbv : b = 1028 * 4503599627370496 + f) :
    ((4503599627370496 + f + 2 ^ 46) / 2 ^ 47 < 2 ^ 6 →
      man (round b) = (4503599627370496 + f + 2 ^ 46) / 2 ^ 47 * 2 ^ 47 ∧ eb (round b) = 3953 ∧ sgn (round b) = 0) ∧
    ((4503599627370496 + f + 2 ^ 46) / 2 ^ 47 = 2 ^ 6 → man (round b) = 4503599627370496 ∧ eb (round b) = 3954 ∧ sgn (round b) = 0) := by
  have hb : bexp b = 1028 ∧ frac b = f ∧ sgn b = 0 := by
    have := fields_of_sum 0 1028 f (by omega) (by omega) (by unfold two52; omega)
    have e : b = (0 <<< 63) + (1028 <<< 52) + f := by simp only [Nat.shiftLeft_eq]; omega
    rw [e]; exact ⟨this.2.1, this.2.2, this.1⟩
  have hr : round b = b + 2 ^ 46 - (b + 2 ^ 46) % 2 ^ 47 := by
    unfold round
    simp only [cbv_eq', hb.1]
    have hm : (4503599627370495 >>> (1028 - 1023) : Nat) = 2 ^ 47 - 1 := by decide
    have hh : ((1 <<< 51) >>> (1028 - 1023) : Nat) = 2 ^ 46 := by decide
    simp only [hm, hh, Nat.and_two_pow_sub_one_eq_mod]
    simp
  rw [hr]
  constructor
  · intro hN
    have hF : (f + 2 ^ 46) / 2 ^ 47 * 2 ^ 47 < two52 := by unfold two52; omega
    have hres : b + 2 ^ 46 - (b + 2 ^ 46) % 2 ^ 47 = (0 <<< 63) + (1028 <<< 52) + (f + 2 ^ 46) / 2 ^ 47 * 2 ^ 47 := by
      simp only [Nat.shiftLeft_eq]; omega
    rw [hres]
    obtain ⟨h1, h2, h3⟩ := fields_of_sum 0 1028 ((f + 2 ^ 46) / 2 ^ 47 * 2 ^ 47) (by omega) (by omega) hF
    unfold man eb
    simp only [cbv_eq', h1, h2, h3]
    refine ⟨?_, by decide, trivial⟩
    unfold two52; simp; omega
  · intro hN
    have hres : b + 2 ^ 46 - (b + 2 ^ 46) % 2 ^ 47 = (0 <<< 63) + (1029 <<< 52) + 0 := by
      simp only [Nat.shiftLeft_eq]; omega
    rw [hres]
    obtain ⟨h1, h2, h3⟩ := fields_of_sum 0 1029 0 (by omega) (by omega) (by unfold two52; omega)
    unfold man eb
    simp only [cbv_eq', h1, h2, h3]
    exact ⟨by decide, by decide, trivial⟩

theorem round_case_6 (b f : Nat) (hf : f < 4503599627370496) (hbv : b = 1029 * 4503599627370496 + f) :
    ((4503599627370496 + f + 2 ^ 45) / 2 ^ 46 < 2 ^ 7 →
      man (round b) = (4503599627370496 + f + 2 ^ 45) / 2 ^ 46 * 2 ^ 46 ∧ eb (round b) = 3954 ∧ sgn (round b) = 0) ∧
    ((4503599627370496 + f + 2 ^ 45) / 2 ^ 46 = 2 ^ 7 → man (round b) = 4503599627370496 ∧ eb (round b) = 3955 ∧ sgn (round b) = 0) := by
  have hb : bexp b = 1029 ∧ frac b = f ∧ sgn b = 0 := by
    have := fields_of_sum 0 1029 f (by omega) (by omega) (by unfold two52; omega)
    have e : b = (0 <<< 63) + (1029 <<< 52) + f := by simp only [Nat.shiftLeft_eq]; omega
    rw [e]; exact ⟨this.2.1, this.2.2, this.1⟩
  have hr : round b = b + 2 ^ 45 - (b + 2 ^ 45) % 2 ^ 46 := by
    unfold round
    simp only [cbv_eq', hb.1]
    have hm : (4503599627370495 >>> (1029 - 1023) : Nat) = 2 ^ 46 - 1 := by decide
    have hh : ((1 <<< 51) >>> (1029 - 1023) : Nat) = 2 ^ 45 := by decide
    simp only [hm, hh, Nat.and_two_pow_sub_one_eq_mod]
    simp
  rw [hr]
  constructor
  · intro hN
    have hF : (f + 2 ^ 45) / 2 ^ 46 * 2 ^ 46 < two52 := by unfold two52; omega
    have hres : b + 2 ^ 45 - (b + 2 ^ 45) % 2 ^ 46 = (0 <<< 63) + (1029 <<< 52) + (f + 2 ^ 45) / 2 ^ 46 * 2 ^ 46 := by
      simp only [Nat.shiftLeft_eq]; omega
    rw [hres]
    obtain ⟨h1, h2, h3⟩ := fields_of_sum 0 1029 ((f + 2 ^ 45) / 2 ^ 46 * 2 ^ 46) (by omega) (by omega) hF
    unfold man eb
    simp only [cbv_eq', h1, h2, h3]
    refine ⟨?_, by decide, trivial⟩
    unfold two52; simp; omega
  · intro hN
    have hres : b + 2 ^ 45 - (b + 2 ^ 45) % 2 ^ 46 = (0 <<< 63) + (1030 <<< 52) + 0 := by
      simp only [Nat.shiftLeft_eq]; omega
    rw [hres]
    obtain ⟨h1, h2, h3⟩ := fields_of_sum 0 1030 0 (by omega) (by omega) (by unfold two52; omega)
    unfold man eb
    simp only [cbv_eq', h1, h2, h3]
    exact ⟨by decide, by decide, trivial⟩

theorem round_case_7 (b f : Nat) (hf : f < 4503599627370496) (hbv : b = 1030 * 4503599627370496 + f) :
    ((4503599627370496 + f + 2 ^ 44) / 2 ^ 45 < 2 ^ 8 →
      man (round b) = (4503599627370496 + f + 2 ^ 44) / 2 ^ 45 * 2 ^ 45 ∧ eb (round b) = 3955 ∧ sgn (round b) = 0) ∧
    ((4503599627370496 + f + 2 ^ 44) / 2 ^ 45 = 2 ^ 8 → man (round b) = 4503599627370496 ∧ eb (round b) = 3956 ∧ sgn (round b) = 0) := by
  have hb : bexp b = 1030 ∧ frac b = f ∧ sgn b = 0 := by
    have := fields_of_sum 0 1030 f (by omega) (by omega) (by unfold two52; omega)
    have e : b = (0 <<< 63) + (1030 <<< 52) + f := by simp only [Nat.shiftLeft_eq]; omega
    rw [e]; exact ⟨this.2.1, this.2.2, this.1⟩
  have hr : round b = b + 2 ^ 44 - (b + 2 ^ 44) % 2 ^ 45 := by
    unfold round
    simp only [cbv_eq', hb.1]
    have hm : (4503599627370495 >>> (1030 - 1023) : Nat) = 2 ^ 45 - 1 := by decide
    have hh : ((1 <<< 51) >>> (1030 - 1023) : Nat) = 2 ^ 44 := by decide
    simp only [hm, hh, Nat.and_two_pow_sub_one_eq_mod]
    simp
  rw [hr]
  constructor
  · intro hN
    have hF : (f + 2 ^ 44) / 2 ^ 45 * 2 ^ 45 < two52 := by unfold two52; omega
    have hres : b + 2 ^ 44 - (b + 2 ^ 44) % 2 ^ 45 = (0 <<< 63) + (1030 <<< 52) + (f + 2 ^ 44) / 2 ^ 45 * 2 ^ 45 := by
      simp only [Nat.shiftLeft_eq]; omega
    rw [hres]
    obtain ⟨h1, h2, h3⟩ := fields_of_sum 0 1030 ((f + 2 ^ 44) / 2 ^ 45 * 2 ^ 45) (by omega) (by omega) hF
    unfold man eb
    simp only [cbv_eq', h1, h2, h3]
    refine ⟨?_, by decide, trivial⟩
    unfold two52; simp; omega
  · intro hN
    have hres : b + 2 ^ 44 - (b + 2 ^ 44) % 2 ^ 45 = (0 <<< 63) + (1031 <<< 52) + 0 := by
      simp only [Nat.shiftLeft_eq]; omega
    rw [hres]
    obtain ⟨h1, h2, h3⟩ := fields_of_sum 0 1031 0 (by omega) (by omega) (by unfold two52; omega)
    unfold man eb
    simp only [cbv_eq', h1, h2, h3]
    exact ⟨by decide, by decide, trivial⟩

theorem round_case_8 (b f : Nat) (hf : f < 4503599627370496) (hbv : b = 1031 * 4503599627370496 + f) :
    ((4503599627370496 + f + 2 ^ 43) / 2 ^ 44 < 2 ^ 9 →
      man (round b) = (4503599627370496 + f + 2 ^ 43) / 2 ^ 44 * 2 ^ 44 ∧ eb (round b) = 3956 ∧ sgn (round b) = 0) ∧
    ((4503599627370496 + f + 2 ^ 43) / 2 ^ 44 = 2 ^ 9 → man (round b) = 4503599627370496 ∧ eb (round b) = 3957 ∧ sgn (round b) = 0) := by
  have hb : bexp b = 1031 ∧ frac b = f ∧ sgn b = 0 := by
    have := fields_of_sum 0 1031 f (by omega) (by omega) (by unfold two52; omega)
    have e : b = (0 <<< 63) + (1031 <<< 52) + f := by simp only [Nat.shiftLeft_eq]; omega
    rw [e]; exact ⟨this.2.1, this.2.2, this.1⟩
  have hr : round b = b + 2 ^ 43 - (b + 2 ^ 43) % 2 ^ 44 := by
    unfold round
    simp only [cbv_eq', hb.1]
    have hm : (4503599627370495 >>> (1031 - 1023) : Nat) = 2 ^ 44 - 1 := by decide
    have hh : ((1 <<< 51) >>> (1031 - 1023) : Nat) = 2 ^ 43 := by decide
    simp only [hm, hh, Nat.and_two_pow_sub_one_eq_mod]
    simp
  rw [hr]
  constructor
  · intro hN
    have hF : (f + 2 ^ 43) / 2 ^ 44 * 2 ^ 44 < two52 := by unfold two52; omega
    have hres : b + 2 ^ 43 - (b + 2 ^ 43) % 2 ^ 44 = (0 <<< 63) + (1031 <<< 52) + (f + 2 ^ 43) / 2 ^ 44 * 2 ^ 44 := by
      simp only [Nat.shiftLeft_eq]; omega
    rw [hres]
    obtain ⟨h1, h2, h3⟩ := fields_of_sum 0 1031 ((f + 2 ^ 43) / 2 ^ 44 * 2 ^ 44) (by omega) (by omega) hF
    unfold man eb
    simp only [cbv_eq', h1, h2, h3]
    refine ⟨?_, by decide, trivial⟩
    unfold two52; simp; omega
  · intro hN
    have hres : b + 2 ^ 43 - (b + 2 ^ 43) % 2 ^ 44 = (0 <<< 63) + (1032 <<< 52) + 0 := by
      simp only [Nat.shiftLeft_eq]; omega
    rw [hres]
    obtain ⟨h1, h2, h3⟩ := fields_of_sum 0 1032 0 (by omega) (by omega) (by unfold two52; omega)
    unfold man eb
    simp only [cbv_eq', h1, h2, h3]
    exact ⟨by decide, by decide, trivial⟩

theorem round_case_9 (b f : Nat) (hf : f < 4503599627370496) (hbv : b = 1032 * 4503599627370496 + f) :
    ((4503599627370496 + f + 2 ^ 42) / 2 ^ 43 < 2 ^ 10 →
      man (round b) = (4503599627370496 + f + 2 ^ 42) / 2 ^ 43 * 2 ^ 43 ∧ eb (round b) = 3957 ∧ sgn (round b) = 0) ∧
    ((4503599627370496 + f + 2 ^ 42) / 2 ^ 43 = 2 ^ 10 → man (round b) = 4503599627370496 ∧ eb (round b) = 3958 ∧ sgn (round b) = 0) := by
  have hb : bexp b = 1032 ∧ frac b = f ∧ sgn b = 0 := by
    have := fields_of_sum 0 1032 f (by omega) (by omega) (by unfold two52; omega)
    have e : b = (0 <<< 63) + (1032 <<< 52) + f := by simp only [Nat.shiftLeft_eq]; omega
    rw [e]; exact ⟨this.2.1, this.2.2, this.1⟩
  have hr : round b = b + 2 ^ 42 - (b + 2 ^ 42) % 2 ^ 43 := by
    unfold round
    simp only [cbv_eq', hb.1]
    have hm : (4503599627370495 >>> (1032 - 1023) : Nat) = 2 ^ 43 - 1 := by decide
    have hh : ((1 <<< 51) >>> (1032 - 1023) : Nat) = 2 ^ 42 := by decide
    simp only [hm, hh, Nat.and_two_pow_sub_one_eq_mod]
    simp
  rw [hr]
  constructor
  · intro hN
    have hF : (f + 2 ^ 42) / 2 ^ 43 * 2 ^ 43 < two52 := by unfold two52; omega
    have hres : b + 2 ^ 42 - (b + 2 ^ 42) % 2 ^ 43 = (0 <<< 63) + (1032 <<< 52) + (f + 2 ^ 42) / 2 ^ 43 * 2 ^ 43 := by
      simp only [Nat.shiftLeft_eq]; omega
    rw [hres]
    obtain ⟨h1, h2, h3⟩ := fields_of_sum 0 1032 ((f + 2 ^ 42) / 2 ^ 43 * 2 ^ 43) (by omega) (by omega) hF
    unfold man eb
    simp only [cbv_eq', h1, h2, h3]
    refine ⟨?_, by decide, trivial⟩
    unfold two52; simp; omega
  · intro hN
    have hres : b + 2 ^ 42 - (b + 2 ^ 42) % 2 ^ 43 = (0 <<< 63) + (1033 <<< 52) + 0 := by
      simp only [Nat.shiftLeft_eq]; omega
    rw [hres]
    obtain ⟨h1, h2, h3⟩ := fields_of_sum 0 1033 0 (by omega) (by omega) (by unfold two52; omega)
    unfold man eb
    simp only [cbv_eq', h1, h2, h3]
    exact ⟨by decide, by decide, trivial⟩

theorem round_case_10 (b f : Nat) (hf : f < 4503599627370496) (hbv : b = 1033 * 4503599627370496 + f) :
    ((4503599627370496 + f + 2 ^ 41) / 2 ^ 42 < 2 ^ 11 →
      man (round b) = (4503599627370496 + f + 2 ^ 41) / 2 ^ 42 * 2 ^ 42 ∧ eb (round b) = 3958 ∧ sgn (round b) = 0) ∧
    ((4503599627370496 + f + 2 ^ 41) / 2 ^ 42 = 2 ^ 11 → man (round b) = 4503599627370496 ∧ eb (round b) = 3959 ∧ sgn (round b) = 0) := by
  have hb : bexp b = 1033 ∧ frac b = f ∧ sgn b = 0 := by
    have := fields_of_sum 0 1033 f (by omega) (by omega) (by unfold two52; omega)
    have e : b = (0 <<< 63) + (1033 <<< 52) + f := by simp only [Nat.shiftLeft_eq]; omega
    rw [e]; exact ⟨this.2.1, this.2.2, this.1⟩
  have hr : round b = b + 2 ^ 41 - (b + 2 ^ 41) % 2 ^ 42 := by
    unfold round
    simp only [cbv_eq', hb.1]
    have hm : (4503599627370495 >>> (1033 - 1023) : Nat) = 2 ^ 42 - 1 := by decide
    have hh : ((1 <<< 51) >>> (1033 - 1023) : Nat) = 2 ^ 41 := by decide
    simp only [hm, hh, Nat.and_two_pow_sub_one_eq_mod]
    simp
  rw [hr]
  constructor
  · intro hN
    have hF : (f + 2 ^ 41) / 2 ^ 42 * 2 ^ 42 < two52 := by unfold two52; omega
    have hres : b + 2 ^ 41 - (b + 2 ^ 41) % 2 ^ 42 = (0 <<< 63) + (1033 <<< 52) + (f + 2 ^ 41) / 2 ^ 42 * 2 ^ 42 := by
      simp only [Nat.shiftLeft_eq]; omega
    rw [hres]
    obtain ⟨h1, h2, h3⟩ := fields_of_sum 0 1033 ((f + 2 ^ 41) / 2 ^ 42 * 2 ^ 42) (by omega) (by omega) hF
    unfold man eb
    simp only [cbv_eq', h1, h2, h3]
    refine ⟨?_, by decide, trivial⟩
    unfold two52; simp; omega
  · intro hN
    have hres : b + 2 ^ 41 - (b + 2 ^ 41) % 2 ^ 42 = (0 <<< 63) + (1034 <<< 52) + 0 := by
      simp only [Nat.shiftLeft_eq]; omega
    rw [hres]
    obtain ⟨h1, h2, h3⟩ := fields_of_sum 0 1034 0 (by omega) (by omega) (by unfold two52; omega)
    unfold man eb
    simp only [cbv_eq', h1, h2, h3]
    exact ⟨by decide, by decide, trivial⟩

theorem round_case_11 (b f : Nat) (hf : f < 4503599627370496) (hbv : b = 1034 * 4503599627370496 + f) :
    ((4503599627370496 + f + 2 ^ 40) / 2 ^ 41 < 2 ^ 12 →
      man (round b) = (4503599627370496 + f + 2 ^ 40) / 2 ^ 41 * 2 ^ 41 ∧ eb (round b) = 3959 ∧ sgn (round b) = 0) ∧
    ((4503599627370496 + f + 2 ^ 40) / 2 ^ 41 = 2 ^ 12 → man (round b) = 4503599627370496 ∧ eb (round b) = 3960 ∧ sgn (round b) = 0) := by
  have hb : bexp b = 1034 ∧ frac b = f ∧ sgn b = 0 := by
    have := fields_of_sum 0 1034 f (by omega) (by omega) (by unfold two52; omega)
    have e : b = (0 <<< 63) + (1034 <<< 52) + f := by simp only [Nat.shiftLeft_eq]; omega
    rw [e]; exact ⟨this.2.1, this.2.2, this.1⟩
  have hr : round b = b + 2 ^ 40 - (b + 2 ^ 40) % 2 ^ 41 := by
    unfold round
    simp only [cbv_eq', hb.1]
    have hm : (4503599627370495 >>> (1034 - 1023) : Nat) = 2 ^ 41 - 1 := by decide
    have hh : ((1 <<< 51) >>> (1034 - 1023) : Nat) = 2 ^ 40 := by decide
    simp only [hm, hh, Nat.and_two_pow_sub_one_eq_mod]
    simp
  rw [hr]
  constructor
  · intro hN
    have hF : (f + 2 ^ 40) / 2 ^ 41 * 2 ^ 41 < two52 := by unfold two52; omega
    have hres : b + 2 ^ 40 - (b + 2 ^ 40) % 2 ^ 41 = (0 <<< 63) + (1034 <<< 52) + (f + 2 ^ 40) / 2 ^ 41 * 2 ^ 41 := by
      simp only [Nat.shiftLeft_eq]; omega
    rw [hres]
    obtain ⟨h1, h2, h3⟩ := fields_of_sum 0 1034 ((f + 2 ^ 40) / 2 ^ 41 * 2 ^ 41) (by omega) (by omega) hF
    unfold man eb
    simp only [cbv_eq', h1, h2, h3]
    refine ⟨?_, by decide, trivial⟩
    unfold two52; simp; omega
  · intro hN
    have hres : b + 2 ^ 40 - (b + 2 ^ 40) % 2 ^ 41 = (0 <<< 63) + (1035 <<< 52) + 0 := by
      simp only [Nat.shiftLeft_eq]; omega
    rw [hres]
    obtain ⟨h1, h2, h3⟩ := fields_of_sum 0 1035 0 (by omega) (by omega) (by unfold two52; omega)
    unfold man eb
    simp only [cbv_eq', h1, h2, h3]
    exact ⟨by decide, by decide, trivial⟩

theorem round_case_12 (b f : Nat) (hf : f < 4503599627370496) (hbv : b = 1035 * 4503599627370496 + f) :
    ((4503599627370496 + f + 2 ^ 39) / 2 ^ 40 < 2 ^ 13 →
      man (round b) = (4503599627370496 + f + 2 ^ 39) / 2 ^ 40 * 2 ^ 40 ∧ eb (round b) = 3960 ∧ sgn (round b) = 0) ∧
    ((4503599627370496 + f + 2 ^ 39) / 2 ^ 40 = 2 ^ 13 → man (round b) = 4503599627370496 ∧ eb (round b) = 3961 ∧ sgn (round b) = 0) := by
  have hb : bexp b = 1035 ∧ frac b = f ∧ sgn b = 0 := by
    have := fields_of_sum 0 1035 f (by omega) (by omega) (by unfold two52; omega)
    have e : b = (0 <<< 63) + (1035 <<< 52) + f := by simp only [Nat.shiftLeft_eq]; omega
    rw [e]; exact ⟨this.2.1, this.2.2, this.1⟩
  have hr : round b = b + 2 ^ 39 - (b + 2 ^ 39) % 2 ^ 40 := by
    unfold round
    simp only [cbv_eq', hb.1]
    have hm : (4503599627370495 >>> (1035 - 1023) : Nat) = 2 ^ 40 - 1 := by decide
    have hh : ((1 <<< 51) >>> (1035 - 1023) : Nat) = 2 ^ 39 := by decide
    simp only [hm, hh, Nat.and_two_pow_sub_one_eq_mod]
    simp
  rw [hr]
  constructor
  · intro hN
    have hF : (f + 2 ^ 39) / 2 ^ 40 * 2 ^ 40 < two52 := by unfold two52; omega
    have hres : b + 2 ^ 39 - (b + 2 ^ 39) % 2 ^ 40 = (0 <<< 63) + (1035 <<< 52) + (f + 2 ^ 39) / 2 ^ 40 * 2 ^ 40 := by
      simp only [Nat.shiftLeft_eq]; omega
    rw [hres]
    obtain ⟨h1, h2, h3⟩ := fields_of_sum 0 1035 ((f + 2 ^ 39) / 2 ^ 40 * 2 ^ 40) (by omega) (by omega) hF
    unfold man eb
    simp only [cbv_eq', h1, h2, h3]
    refine ⟨?_, by decide, trivial⟩
    unfold two52; simp; omega
  · intro hN
    have hres : b + 2 ^ 39 - (b + 2 ^ 39) % 2 ^ 40 = (0 <<< 63) + (1036 <<< 52) + 0 := by
      simp only [Nat.shiftLeft_eq]; omega
    rw [hres]
    obtain ⟨h1, h2, h3⟩ := fields_of_sum 0 1036 0 (by omega) (by omega) (by unfold two52; omega)
    unfold man eb
    simp only [cbv_eq', h1, h2, h3]
    exact ⟨by decide, by decide, trivial⟩

theorem round_case_13 (b f : Nat) (hf : f < 4503599627370496) (hbv : b = 1036 * 4503599627370496 + f) :
    ((4503599627370496 + f + 2 ^ 38) / 2 ^ 39 < 2 ^ 14 →
      man (round b) = (4503599627370496 + f + 2 ^ 38) / 2 ^ 39 * 2 ^ 39 ∧ eb (round b) = 3961 ∧ sgn (round b) = 0) ∧
    ((4503599627370496 + f + 2 ^ 38) / 2 ^ 39 = 2 ^ 14 → man (round b) = 4503599627370496 ∧ eb (round b) = 3962 ∧ sgn (round b) = 0) := by
  have hb : bexp b = 1036 ∧ frac b = f ∧ sgn b = 0 := by
    have := fields_of_sum 0 1036 f (by omega) (by omega) (by unfold two52; omega)
    have e : b = (0 <<< 63) + (1036 <<< 52) + f := by simp only [Nat.shiftLeft_eq]; omega
    rw [e]; exact ⟨this.2.1, this.2.2, this.1⟩
  have hr : round b = b + 2 ^ 38 - (b + 2 ^ 38) % 2 ^ 39 := by
    unfold round
    simp only [cbv_eq', hb.1]
    have hm : (4503599627370495 >>> (1036 - 1023) : Nat) = 2 ^ 39 - 1 := by decide
    have hh : ((1 <<< 51) >>> (1036 - 1023) : Nat) = 2 ^ 38 := by decide
    simp only [hm, hh, Nat.and_two_pow_sub_one_eq_mod]
    simp
  rw [hr]
  constructor
  · intro hN
    have hF : (f + 2 ^ 38) / 2 ^ 39 * 2 ^ 39 < two52 := by unfold two52; omega
    have hres : b + 2 ^ 38 - (b + 2 ^ 38) % 2 ^ 39 = (0 <<< 63) + (1036 <<< 52) + (f + 2 ^ 38) / 2 ^ 39 * 2 ^ 39 := by
      simp only [Nat.shiftLeft_eq]; omega
    rw [hres]
    obtain ⟨h1, h2, h3⟩ := fields_of_sum 0 1036 ((f + 2 ^ 38) / 2 ^ 39 * 2 ^ 39) (by omega) (by omega) hF
    unfold man eb
    simp only [cbv_eq', h1, h2, h3]
    refine ⟨?_, by decide, trivial⟩
    unfold two52; simp; omega
  · intro hN
    have hres : b + 2 ^ 38 - (b + 2 ^ 38) % 2 ^ 39 = (0 <<< 63) + (1037 <<< 52) + 0 := by
      simp only [Nat.shiftLeft_eq]; omega
    rw [hres]
    obtain ⟨h1, h2, h3⟩ := fields_of_sum 0 1037 0 (by omega) (by omega) (by unfold two52; omega)
    unfold man eb
    simp only [cbv_eq', h1, h2, h3]
    exact ⟨by decide, by decide, trivial⟩

theorem round_case_14 (b f : Nat) (hf : f < 4503599627370496) (hbv : b = 1037 * 4503599627370496 + f) :
    ((4503599627370496 + f + 2 ^ 37) / 2 ^ 38 < 2 ^ 15 →
      man (round b) = (4503599627370496 + f + 2 ^ 37) / 2 ^ 38 * 2 ^ 38 ∧ eb (round b) = 3962 ∧ sgn (round b) = 0) ∧
    ((4503599627370496 + f + 2 ^ 37) / 2 ^ 38 = 2 ^ 15 → man (round b) = 4503599627370496 ∧ eb (round b) = 3963 ∧ sgn (round b) = 0) := by
  have hb : bexp b = 1037 ∧ frac b = f ∧ sgn b = 0 := by
    have := fields_of_sum 0 1037 f (by omega) (by omega) (by unfold two52; omega)
    have e : b = (0 <<< 63) + (1037 <<< 52) + f := by simp only [Nat.shiftLeft_eq]; omega
    rw [e]; exact ⟨this.2.1, this.2.2, this.1⟩
  have hr : round b = b + 2 ^ 37 - (b + 2 ^ 37) % 2 ^ 38 := by
    unfold round
    simp only [cbv_eq', hb.1]
    have hm : (4503599627370495 >>> (1037 - 1023) : Nat) = 2 ^ 38 - 1 := by decide
    have hh : ((1 <<< 51) >>> (1037 - 1023) : Nat) = 2 ^ 37 := by decide
    simp only [hm, hh, Nat.and_two_pow_sub_one_eq_mod]
    simp
  rw [hr]
  constructor
  · intro hN
    have hF : (f + 2 ^ 37) / 2 ^ 38 * 2 ^ 38 < two52 := by unfold two52; omega
    have hres : b + 2 ^ 37 - (b + 2 ^ 37) % 2 ^ 38 = (0 <<< 63) + (1037 <<< 52) + (f + 2 ^ 37) / 2 ^ 38 * 2 ^ 38 := by
      simp only [Nat.shiftLeft_eq]; omega
    rw [hres]
    obtain ⟨h1, h2, h3⟩ := fields_of_sum 0 1037 ((f + 2 ^ 37) / 2 ^ 38 * 2 ^ 38) (by omega) (by omega) hF
    unfold man eb
    simp only [cbv_eq', h1, h2, h3]
    refine ⟨?_, by decide, trivial⟩
    unfold two52; simp; omega
  · intro hN
    have hres : b + 2 ^ 37 - (b + 2 ^ 37) % 2 ^ 38 = (0 <<< 63) + (1038 <<< 52) + 0 := by
      simp only [Nat.shiftLeft_eq]; omega
    rw [hres]
    obtain ⟨h1, h2, h3⟩ := fields_of_sum 0 1038 0 (by omega) (by omega) (by unfold two52; omega)
    unfold man eb
    simp only [cbv_eq', h1, h2, h3]
    exact ⟨by decide, by decide, trivial⟩

theorem round_case_15 (b f : Nat) (hf : f < 4503599627370496) (hbv : b = 1038 * 4503599627370496 + f) :
    ((4503599627370496 + f + 2 ^ 36) / 2 ^ 37 < 2 ^ 16 →
      man (round b) = (4503599627370496 + f + 2 ^ 36) / 2 ^ 37 * 2 ^ 37 ∧ eb (round b) = 3963 ∧ sgn (round b) = 0) ∧
    ((4503599627370496 + f + 2 ^ 36) / 2 ^ 37 = 2 ^ 16 → man (round b) = 4503599627370496 ∧ eb (round b) = 3964 ∧ sgn (round b) = 0) := by
  have hb : bexp b = 1038 ∧ frac b = f ∧ sgn b = 0 := by
    have := fields_of_sum 0 1038 f (by omega) (by omega) (by unfold two52; omega)
    have e : b = (0 <<< 63) + (1038 <<< 52) + f := by simp only [Nat.shiftLeft_eq]; omega
    rw [e]; exact ⟨this.2.1, this.2.2, this.1⟩
  have hr : round b = b + 2 ^ 36 - (b + 2 ^ 36) % 2 ^ 37 := by
    unfold round
    simp only [cbv_eq', hb.1]
    have hm : (4503599627370495 >>> (1038 - 1023) : Nat) = 2 ^ 37 - 1 := by decide
    have hh : ((1 <<< 51) >>> (1038 - 1023) : Nat) = 2 ^ 36 := by decide
    simp only [hm, hh, Nat.and_two_pow_sub_one_eq_mod]
    simp
  rw [hr]
  constructor
  · intro hN
    have hF : (f + 2 ^ 36) / 2 ^ 37 * 2 ^ 37 < two52 := by unfold two52; omega
    have hres : b + 2 ^ 36 - (b + 2 ^ 36) % 2 ^ 37 = (0 <<< 63) + (1038 <<< 52) + (f + 2 ^ 36) / 2 ^ 37 * 2 ^ 37 := by
      simp only [Nat.shiftLeft_eq]; omega
    rw [hres]
    obtain ⟨h1, h2, h3⟩ := fields_of_sum 0 1038 ((f + 2 ^ 36) / 2 ^ 37 * 2 ^ 37) (by omega) (by omega) hF
    unfold man eb
    simp only [cbv_eq', h1, h2, h3]
    refine ⟨?_, by decide, trivial⟩
    unfold two52; simp; omega
  · intro hN
    have hres : b + 2 ^ 36 - (b + 2 ^ 36) % 2 ^ 37 = (0 <<< 63) + (1039 <<< 52) + 0 := by
      simp only [Nat.shiftLeft_eq]; omega
    rw [hres]
    obtain ⟨h1, h2, h3⟩ := fields_of_sum 0 1039 0 (by omega) (by omega) (by unfold two52; omega)
    unfold man eb
    simp only [cbv_eq', h1, h2, h3]
    exact ⟨by decide, by decide, trivial⟩

theorem round_case_16 (b f : Nat) (hf : f < 4503599627370496) (hbv : b = 1039 * 4503599627370496 + f) :
    ((4503599627370496 + f + 2 ^ 35) / 2 ^ 36 < 2 ^ 17 →
      man (round b) = (4503599627370496 + f + 2 ^ 35) / 2 ^ 36 * 2 ^ 36 ∧ eb (round b) = 3964 ∧ sgn (round b) = 0) ∧
    ((4503599627370496 + f + 2 ^ 35) / 2 ^ 36 = 2 ^ 17 → man (round b) = 4503599627370496 ∧ eb (round b) = 3965 ∧ sgn (round b) = 0) := by
  have hb : bexp b = 1039 ∧ frac b = f ∧ sgn b = 0 := by
    have := fields_of_sum 0 1039 f (by omega) (by omega) (by unfold two52; omega)
    have e : b = (0 <<< 63) + (1039 <<< 52) + f := by simp only [Nat.shiftLeft_eq]; omega
    rw [e]; exact ⟨this.2.1, this.2.2, this.1⟩
  have hr : round b = b + 2 ^ 35 - (b + 2 ^ 35) % 2 ^ 36 := by
    unfold round
    simp only [cbv_eq', hb.1]
    have hm : (4503599627370495 >>> (1039 - 1023) : Nat) = 2 ^ 36 - 1 := by decide
    have hh : ((1 <<< 51) >>> (1039 - 1023) : Nat) = 2 ^ 35 := by decide
    simp only [hm, hh, Nat.and_two_pow_sub_one_eq_mod]
    simp
  rw [hr]
  constructor
  · intro hN
    have hF : (f + 2 ^ 35) / 2 ^ 36 * 2 ^ 36 < two52 := by unfold two52; omega
    have hres : b + 2 ^ 35 - (b + 2 ^ 35) % 2 ^ 36 = (0 <<< 63) + (1039 <<< 52) + (f + 2 ^ 35) / 2 ^ 36 * 2 ^ 36 := by
      simp only [Nat.shiftLeft_eq]; omega
    rw [hres]
    obtain ⟨h1, h2, h3⟩ := fields_of_sum 0 1039 ((f + 2 ^ 35) / 2 ^ 36 * 2 ^ 36) (by omega) (by omega) hF
    unfold man eb
    simp only [cbv_eq', h1, h2, h3]
    refine ⟨?_, by decide, trivial⟩
    unfold two52; simp; omega
  · intro hN
    have hres : b + 2 ^ 35 - (b + 2 ^ 35) % 2 ^ 36 = (0 <<< 63) + (1040 <<< 52) + 0 := by
      simp only [Nat.shiftLeft_eq]; omega
    rw [hres]
    obtain ⟨h1, h2, h3⟩ := fields_of_sum 0 1040 0 (by omega) (by omega) (by unfold two52; omega)
    unfold man eb
    simp only [cbv_eq', h1, h2, h3]
    exact ⟨by decide, by decide, trivial⟩

theorem round_case_17 (b f : Nat) (hf : f < 4503599627370496) (hbv : b = 1040 * 4503599627370496 + f) :
    ((4503599627370496 + f + 2 ^ 34) / 2 ^ 35 < 2 ^ 18 →
      man (round b) = (4503599627370496 + f + 2 ^ 34) / 2 ^ 35 * 2 ^ 35 ∧ eb (round b) = 3965 ∧ sgn (round b) = 0) ∧
    ((4503599627370496 + f + 2 ^ 34) / 2 ^ 35 = 2 ^ 18 → man (round b) = 4503599627370496 ∧ eb (round b) = 3966 ∧ sgn (round b) = 0) := by
  have hb : bexp b = 1040 ∧ frac b = f ∧ sgn b = 0 := by
    have := fields_of_sum 0 1040 f (by omega) (by omega) (by unfold two52; omega)
    have e : b = (0 <<< 63) + (1040 <<< 52) + f := by simp only [Nat.shiftLeft_eq]; omega
    rw [e]; exact ⟨this.2.1, this.2.2, this.1⟩
  have hr : round b = b + 2 ^ 34 - (b + 2 ^ 34) % 2 ^ 35 := by
    unfold round
    simp only [cbv_eq', hb.1]
    have hm : (4503599627370495 >>> (1040 - 1023) : Nat) = 2 ^ 35 - 1 := by decide
    have hh : ((1 <<< 51) >>> (1040 - 1023) : Nat) = 2 ^ 34 := by decide
    simp only [hm, hh, Nat.and_two_pow_sub_one_eq_mod]
    simp
  rw [hr]
  constructor
  · intro hN
    have hF : (f + 2 ^ 34) / 2 ^ 35 * 2 ^ 35 < two52 := by unfold two52; omega
    have hres : b + 2 ^ 34 - (b + 2 ^ 34) % 2 ^ 35 = (0 <<< 63) + (1040 <<< 52) + (f + 2 ^ 34) / 2 ^ 35 * 2 ^ 35 := by
      simp only [Nat.shiftLeft_eq]; omega
    rw [hres]
    obtain ⟨h1, h2, h3⟩ := fields_of_sum 0 1040 ((f + 2 ^ 34) / 2 ^ 35 * 2 ^ 35) (by omega) (by omega) hF
    unfold man eb
    simp only [cbv_eq', h1, h2, h3]
    refine ⟨?_, by decide, trivial⟩
    unfold two52; simp; omega
  · intro hN
    have hres : b + 2 ^ 34 - (b + 2 ^ 34) % 2 ^ 35 = (0 <<< 63) + (1041 <<< 52) + 0 := by
      simp only [Nat.shiftLeft_eq]; omega
    rw [hres]
    obtain ⟨h1, h2, h3⟩ := fields_of_sum 0 1041 0 (by omega) (by omega) (by unfold two52; omega)
    unfold man eb
    simp only [cbv_eq', h1, h2, h3]
    exact ⟨by decide, by decide, trivial⟩

theorem round_case_18 (b f : Nat) (hf : f < 4503599627370496) (hbv : b = 1041 * 4503599627370496 + f) :
    ((4503599627370496 + f + 2 ^ 33) / 2 ^ 34 < 2 ^ 19 →
      man (round b) = (4503599627370496 + f + 2 ^ 33) / 2 ^ 34 * 2 ^ 34 ∧ eb (round b) = 3966 ∧ sgn (round b) = 0) ∧
    ((4503599627370496 + f + 2 ^ 33) / 2 ^ 34 = 2 ^ 19 → man (round b) = 4503599627370496 ∧ eb (round b) = 3967 ∧ sgn (round b) = 0) := by
  have hb : bexp b = 1041 ∧ frac b = f ∧ sgn b = 0 := by
    have := fields_of_sum 0 1041 f (by omega) (by omega) (by unfold two52; omega)
    have e : b = (0 <<< 63) + (1041 <<< 52) + f := by simp only [Nat.shiftLeft_eq]; omega
    rw [e]; exact ⟨this.2.1, this.2.2, this.1⟩
  have hr : round b = b + 2 ^ 33 - (b + 2 ^ 33) % 2 ^ 34 := by
    unfold round
    simp only [cbv_eq', hb.1]
    have hm : (4503599627370495 >>> (1041 - 1023) : Nat) = 2 ^ 34 - 1 := by decide
    have hh : ((1 <<< 51) >>> (1041 - 1023) : Nat) = 2 ^ 33 := by decide
    simp only [hm, hh, Nat.and_two_pow_sub_one_eq_mod]
    simp
  rw [hr]
  constructor
  · intro hN
    have hF : (f + 2 ^ 33) / 2 ^ 34 * 2 ^ 34 < two52 := by unfold two52; omega
    have hres : b + 2 ^ 33 - (b + 2 ^ 33) % 2 ^ 34 = (0 <<< 63) + (1041 <<< 52) + (f + 2 ^ 33) / 2 ^ 34 * 2 ^ 34 := by
      simp only [Nat.shiftLeft_eq]; omega
    rw [hres]
    obtain ⟨h1, h2, h3⟩ := fields_of_sum 0 1041 ((f + 2 ^ 33) / 2 ^ 34 * 2 ^ 34) (by omega) (by omega) hF
    unfold man eb
    simp only [cbv_eq', h1, h2, h3]
    refine ⟨?_, by decide, trivial⟩
    unfold two52; simp; omega
  · intro hN
    have hres : b + 2 ^ 33 - (b + 2 ^ 33) % 2 ^ 34 = (0 <<< 63) + (1042 <<< 52) + 0 := by
      simp only [Nat.shiftLeft_eq]; omega
    rw [hres]
    obtain ⟨h1, h2, h3⟩ := fields_of_sum 0 1042 0 (by omega) (by omega) (by unfold two52; omega)
    unfold man eb
    simp only [cbv_eq', h1, h2, h3]
    exact ⟨by decide, by decide, trivial⟩

theorem round_case_19 (b f : Nat) (hf : f < 4503599627370496) (hbv : b = 1042 * 4503599627370496 + f) :
    ((4503599627370496 + f + 2 ^ 32) / 2 ^ 33 < 2 ^ 20 →
      man (round b) = (4503599627370496 + f + 2 ^ 32) / 2 ^ 33 * 2 ^ 33 ∧ eb (round b) = 3967 ∧ sgn (round b) = 0) ∧
    ((4503599627370496 + f + 2 ^ 32) / 2 ^ 33 = 2 ^ 20 → man (round b) = 4503599627370496 ∧ eb (round b) = 3968 ∧ sgn (round b) = 0) := by
  have hb : bexp b = 1042 ∧ frac b = f ∧ sgn b = 0 := by
    have := fields_of_sum 0 1042 f (by omega) (by omega) (by unfold two52; omega)
    have e : b = (0 <<< 63) + (1042 <<< 52) + f := by simp only [Nat.shiftLeft_eq]; omega
    rw [e]; exact ⟨this.2.1, this.2.2, this.1⟩
  have hr : round b = b + 2 ^ 32 - (b + 2 ^ 32) % 2 ^ 33 := by
    unfold round
    simp only [cbv_eq', hb.1]
    have hm : (4503599627370495 >>> (1042 - 1023) : Nat) = 2 ^ 33 - 1 := by decide
    have hh : ((1 <<< 51) >>> (1042 - 1023) : Nat) = 2 ^ 32 := by decide
    simp only [hm, hh, Nat.and_two_pow_sub_one_eq_mod]
    simp
  rw [hr]
  constructor
  · intro hN
    have hF : (f + 2 ^ 32) / 2 ^ 33 * 2 ^ 33 < two52 := by unfold two52; omega
    have hres : b + 2 ^ 32 - (b + 2 ^ 32) % 2 ^ 33 = (0 <<< 63) + (1042 <<< 52) + (f + 2 ^ 32) / 2 ^ 33 * 2 ^ 33 := by
      simp only [Nat.shiftLeft_eq]; omega
    rw [hres]
    obtain ⟨h1, h2, h3⟩ := fields_of_sum 0 1042 ((f + 2 ^ 32) / 2 ^ 33 * 2 ^ 33) (by omega) (by omega) hF
    unfold man eb
    simp only [cbv_eq', h1, h2, h3]
    refine ⟨?_, by decide, trivial⟩
    unfold two52; simp; omega
  · intro hN
    have hres : b + 2 ^ 32 - (b + 2 ^ 32) % 2 ^ 33 = (0 <<< 63) + (1043 <<< 52) + 0 := by
      simp only [Nat.shiftLeft_eq]; omega
    rw [hres]
    obtain ⟨h1, h2, h3⟩ := fields_of_sum 0 1043 0 (by omega) (by omega) (by unfold two52; omega)
    unfold man eb
    simp only [cbv_eq', h1, h2, h3]
    exact ⟨by decide, by decide, trivial⟩

theorem round_case_20 (b f : Nat) (hf : f < 4503599627370496) (hbv : b = 1043 * 4503599627370496 + f) :
    ((4503599627370496 + f + 2 ^ 31) / 2 ^ 32 < 2 ^ 21 →
      man (round b) = (4503599627370496 + f + 2 ^ 31) / 2 ^ 32 * 2 ^ 32 ∧ eb (round b) = 3968 ∧ sgn (round b) = 0) ∧
    ((4503599627370496 + f + 2 ^ 31) / 2 ^ 32 = 2 ^ 21 → man (round b) = 4503599627370496 ∧ eb (round b) = 3969 ∧ sgn (round b) = 0) := by
  have hb : bexp b = 1043 ∧ frac b = f ∧ sgn b = 0 := by
    have := fields_of_sum 0 1043 f (by omega) (by omega) (by unfold two52; omega)
    have e : b = (0 <<< 63) + (1043 <<< 52) + f := by simp only [Nat.shiftLeft_eq]; omega
    rw [e]; exact ⟨this.2.1, this.2.2, this.1⟩
  have hr : round b = b + 2 ^ 31 - (b + 2 ^ 31) % 2 ^ 32 := by
    unfold round
    simp only [cbv_eq', hb.1]
    have hm : (4503599627370495 >>> (1043 - 1023) : Nat) = 2 ^ 32 - 1 := by decide
    have hh : ((1 <<< 51) >>> (1043 - 1023) : Nat) = 2 ^ 31 := by decide
    simp only [hm, hh, Nat.and_two_pow_sub_one_eq_mod]
    simp
  rw [hr]
  constructor
  · intro hN
    have hF : (f + 2 ^ 31) / 2 ^ 32 * 2 ^ 32 < two52 := by unfold two52; omega
    have hres : b + 2 ^ 31 - (b + 2 ^ 31) % 2 ^ 32 = (0 <<< 63) + (1043 <<< 52) + (f + 2 ^ 31) / 2 ^ 32 * 2 ^ 32 := by
      simp only [Nat.shiftLeft_eq]; omega
    rw [hres]
    obtain ⟨h1, h2, h3⟩ := fields_of_sum 0 1043 ((f + 2 ^ 31) / 2 ^ 32 * 2 ^ 32) (by omega) (by omega) hF
    unfold man eb
    simp only [cbv_eq', h1, h2, h3]
    refine ⟨?_, by decide, trivial⟩
    unfold two52; simp; omega
  · intro hN
    have hres : b + 2 ^ 31 - (b + 2 ^ 31) % 2 ^ 32 = (0 <<< 63) + (1044 <<< 52) + 0 := by
      simp only [Nat.shiftLeft_eq]; omega
    rw [hres]
    obtain ⟨h1, h2, h3⟩ := fields_of_sum 0 1044 0 (by omega) (by omega) (by unfold two52; omega)
    unfold man eb
    simp only [cbv_eq', h1, h2, h3]
    exact ⟨by decide, by decide, trivial⟩

theorem round_case_21 (b f : Nat) (hf : f < 4503599627370496) (hbv : b = 1044 * 4503599627370496 + f) :
    ((4503599627370496 + f + 2 ^ 30) / 2 ^ 31 < 2 ^ 22 →
      man (round b) = (4503599627370496 + f + 2 ^ 30) / 2 ^ 31 * 2 ^ 31 ∧ eb (round b) = 3969 ∧ sgn (round b) = 0) ∧
    ((4503599627370496 + f + 2 ^ 30) / 2 ^ 31 = 2 ^ 22 → man (round b) = 4503599627370496 ∧ eb (round b) = 3970 ∧ sgn (round b) = 0) := by
  have hb : bexp b = 1044 ∧ frac b = f ∧ sgn b = 0 := by
    have := fields_of_sum 0 1044 f (by omega) (by omega) (by unfold two52; omega)
    have e : b = (0 <<< 63) + (1044 <<< 52) + f := by simp only [Nat.shiftLeft_eq]; omega
    rw [e]; exact ⟨this.2.1, this.2.2, this.1⟩
  have hr : round b = b + 2 ^ 30 - (b + 2 ^ 30) % 2 ^ 31 := by
    unfold round
    simp only [cbv_eq', hb.1]
    have hm : (4503599627370495 >>> (1044 - 1023) : Nat) = 2 ^ 31 - 1 := by decide
    have hh : ((1 <<< 51) >>> (1044 - 1023) : Nat) = 2 ^ 30 := by decide
    simp only [hm, hh, Nat.and_two_pow_sub_one_eq_mod]
    simp
  rw [hr]
  constructor
  · intro hN
    have hF : (f + 2 ^ 30) / 2 ^ 31 * 2 ^ 31 < two52 := by unfold two52; omega
    have hres : b + 2 ^ 30 - (b + 2 ^ 30) % 2 ^ 31 = (0 <<< 63) + (1044 <<< 52) + (f + 2 ^ 30) / 2 ^ 31 * 2 ^ 31 := by
      simp only [Nat.shiftLeft_eq]; omega
    rw [hres]
    obtain ⟨h1, h2, h3⟩ := fields_of_sum 0 1044 ((f + 2 ^ 30) / 2 ^ 31 * 2 ^ 31) (by omega) (by omega) hF
    unfold man eb
    simp only [cbv_eq', h1, h2, h3]
    refine ⟨?_, by decide, trivial⟩
    unfold two52; simp; omega
  · intro hN
    have hres : b + 2 ^ 30 - (b + 2 ^ 30) % 2 ^ 31 = (0 <<< 63) + (1045 <<< 52) + 0 := by
      simp only [Nat.shiftLeft_eq]; omega
    rw [hres]
    obtain ⟨h1, h2, h3⟩ := fields_of_sum 0 1045 0 (by omega) (by omega) (by unfold two52; omega)
    unfold man eb
    simp only [cbv_eq', h1, h2, h3]
    exact ⟨by decide, by decide, trivial⟩

theorem round_case_22 (b f : Nat) (hf : f < 4503599627370496) (hbv : b = 1045 * 4503599627370496 + f) :
    ((4503599627370496 + f + 2 ^ 29) / 2 ^ 30 < 2 ^ 23 →
      man (round b) = (4503599627370496 + f + 2 ^ 29) / 2 ^ 30 * 2 ^ 30 ∧ eb (round b) = 3970 ∧ sgn (round b) = 0) ∧
    ((4503599627370496 + f + 2 ^ 29) / 2 ^ 30 = 2 ^ 23 → man (round b) = 4503599627370496 ∧ eb (round b) = 3971 ∧ sgn (round b) = 0) := by
  have hb : bexp b = 1045 ∧ frac b = f ∧ sgn b = 0 := by
    have := fields_of_sum 0 1045 f (by omega) (by omega) (by unfold two52; omega)
    have e : b = (0 <<< 63) + (1045 <<< 52) + f := by simp only [Nat.shiftLeft_eq]; omega
    rw [e]; exact ⟨this.2.1, this.2.2, this.1⟩
  have hr : round b = b + 2 ^ 29 - (b + 2 ^ 29) % 2 ^ 30 := by
    unfold round
    simp only [cbv_eq', hb.1]
    have hm : (4503599627370495 >>> (1045 - 1023) : Nat) = 2 ^ 30 - 1 := by decide
    have hh : ((1 <<< 51) >>> (1045 - 1023) : Nat) = 2 ^ 29 := by decide
    simp only [hm, hh, Nat.and_two_pow_sub_one_eq_mod]
    simp
  rw [hr]
  constructor
  · intro hN
    have hF : (f + 2 ^ 29) / 2 ^ 30 * 2 ^ 30 < two52 := by unfold two52; omega
    have hres : b + 2 ^ 29 - (b + 2 ^ 29) % 2 ^ 30 = (0 <<< 63) + (1045 <<< 52) + (f + 2 ^ 29) / 2 ^ 30 * 2 ^ 30 := by
      simp only [Nat.shiftLeft_eq]; omega
    rw [hres]
    obtain ⟨h1, h2, h3⟩ := fields_of_sum 0 1045 ((f + 2 ^ 29) / 2 ^ 30 * 2 ^ 30) (by omega) (by omega) hF
    unfold man eb
    simp only [cbv_eq', h1, h2, h3]
    refine ⟨?_, by decide, trivial⟩
    unfold two52; simp; omega
  · intro hN
    have hres : b + 2 ^ 29 - (b + 2 ^ 29) % 2 ^ 30 = (0 <<< 63) + (1046 <<< 52) + 0 := by
      simp only [Nat.shiftLeft_eq]; omega
    rw [hres]
    obtain ⟨h1, h2, h3⟩ := fields_of_sum 0 1046 0 (by omega) (by omega) (by unfold two52; omega)
    unfold man eb
    simp only [cbv_eq', h1, h2, h3]
    exact ⟨by decide, by decide, trivial⟩

theorem round_case_23 (b f : Nat) (hf : f < 4503599627370496) (hbv : b = 1046 * 4503599627370496 + f) :
    ((4503599627370496 + f + 2 ^ 28) / 2 ^ 29 < 2 ^ 24 →
      man (round b) = (4503599627370496 + f + 2 ^ 28) / 2 ^ 29 * 2 ^ 29 ∧ eb (round b) = 3971 ∧ sgn (round b) = 0) ∧
    ((4503599627370496 + f + 2 ^ 28) / 2 ^ 29 = 2 ^ 24 → man (round b) = 4503599627370496 ∧ eb (round b) = 3972 ∧ sgn (round b) = 0) := by
  have hb : bexp b = 1046 ∧ frac b = f ∧ sgn b = 0 := by
    have := fields_of_sum 0 1046 f (by omega) (by omega) (by unfold two52; omega)
    have e : b = (0 <<< 63) + (1046 <<< 52) + f := by simp only [Nat.shiftLeft_eq]; omega
    rw [e]; exact ⟨this.2.1, this.2.2, this.1⟩
  have hr : round b = b + 2 ^ 28 - (b + 2 ^ 28) % 2 ^ 29 := by
    unfold round
    simp only [cbv_eq', hb.1]
    have hm : (4503599627370495 >>> (1046 - 1023) : Nat) = 2 ^ 29 - 1 := by decide
    have hh : ((1 <<< 51) >>> (1046 - 1023) : Nat) = 2 ^ 28 := by decide
    simp only [hm, hh, Nat.and_two_pow_sub_one_eq_mod]
    simp
  rw [hr]
  constructor
  · intro hN
    have hF : (f + 2 ^ 28) / 2 ^ 29 * 2 ^ 29 < two52 := by unfold two52; omega
    have hres : b + 2 ^ 28 - (b + 2 ^ 28) % 2 ^ 29 = (0 <<< 63) + (1046 <<< 52) + (f + 2 ^ 28) / 2 ^ 29 * 2 ^ 29 := by
      simp only [Nat.shiftLeft_eq]; omega
    rw [hres]
    obtain ⟨h1, h2, h3⟩ := fields_of_sum 0 1046 ((f + 2 ^ 28) / 2 ^ 29 * 2 ^ 29) (by omega) (by omega) hF
    unfold man eb
    simp only [cbv_eq', h1, h2, h3]
    refine ⟨?_, by decide, trivial⟩
    unfold two52; simp; omega
  · intro hN
    have hres : b + 2 ^ 28 - (b + 2 ^ 28) % 2 ^ 29 = (0 <<< 63) + (1047 <<< 52) + 0 := by
      simp only [Nat.shiftLeft_eq]; omega
    rw [hres]
    obtain ⟨h1, h2, h3⟩ := fields_of_sum 0 1047 0 (by omega) (by omega) (by unfold two52; omega)
    unfold man eb
    simp only [cbv_eq', h1, h2, h3]
    exact ⟨by decide, by decide, trivial⟩

theorem round_case_24 (b f : Nat) (hf : f < 4503599627370496) (hbv : b = 1047 * 4503599627370496 + f) :
    ((4503599627370496 + f + 2 ^ 27) / 2 ^ 28 < 2 ^ 25 →
      man (round b) = (4503599627370496 + f + 2 ^ 27) / 2 ^ 28 * 2 ^ 28 ∧ eb (round b) = 3972 ∧ sgn (round b) = 0) ∧
    ((4503599627370496 + f + 2 ^ 27) / 2 ^ 28 = 2 ^ 25 → man (round b) = 4503599627370496 ∧ eb (round b) = 3973 ∧ sgn (round b) = 0) := by
  have hb : bexp b = 1047 ∧ frac b = f ∧ sgn b = 0 := by
    have := fields_of_sum 0 1047 f (by omega) (by omega) (by unfold two52; omega)
    have e : b = (0 <<< 63) + (1047 <<< 52) + f := by simp only [Nat.shiftLeft_eq]; omega
    rw [e]; exact ⟨this.2.1, this.2.2, this.1⟩
  have hr : round b = b + 2 ^ 27 - (b + 2 ^ 27) % 2 ^ 28 := by
    unfold round
    simp only [cbv_eq', hb.1]
    have hm : (4503599627370495 >>> (1047 - 1023) : Nat) = 2 ^ 28 - 1 := by decide
    have hh : ((1 <<< 51) >>> (1047 - 1023) : Nat) = 2 ^ 27 := by decide
    simp only [hm, hh, Nat.and_two_pow_sub_one_eq_mod]
    simp
  rw [hr]
  constructor
  · intro hN
    have hF : (f + 2 ^ 27) / 2 ^ 28 * 2 ^ 28 < two52 := by unfold two52; omega
    have hres : b + 2 ^ 27 - (b + 2 ^ 27) % 2 ^ 28 = (0 <<< 63) + (1047 <<< 52) + (f + 2 ^ 27) / 2 ^ 28 * 2 ^ 28 := by
      simp only [Nat.shiftLeft_eq]; omega
    rw [hres]
    obtain ⟨h1, h2, h3⟩ := fields_of_sum 0 1047 ((f + 2 ^ 27) / 2 ^ 28 * 2 ^ 28) (by omega) (by omega) hF
    unfold man eb
    simp only [cbv_eq', h1, h2, h3]
    refine ⟨?_, by decide, trivial⟩
    unfold two52; simp; omega
  · intro hN
    have hres : b + 2 ^ 27 - (b + 2 ^ 27) % 2 ^ 28 = (0 <<< 63) + (1048 <<< 52) + 0 := by
      simp only [Nat.shiftLeft_eq]; omega
    rw [hres]
    obtain ⟨h1, h2, h3⟩ := fields_of_sum 0 1048 0 (by omega) (by omega) (by unfold two52; omega)
    unfold man eb
    simp only [cbv_eq', h1, h2, h3]
    exact ⟨by decide, by decide, trivial⟩

theorem round_case_25 (b f : Nat) (hf : f < 4503599627370496) (hbv : b = 1048 * 4503599627370496 + f) :
    ((4503599627370496 + f + 2 ^ 26) / 2 ^ 27 < 2 ^ 26 →
      man (round b) = (4503599627370496 + f + 2 ^ 26) / 2 ^ 27 * 2 ^ 27 ∧ eb (round b) = 3973 ∧ sgn (round b) = 0) ∧
    ((4503599627370496 + f + 2 ^ 26) / 2 ^ 27 = 2 ^ 26 → man (round b) = 4503599627370496 ∧ eb (round b) = 3974 ∧ sgn (round b) = 0) := by
  have hb : bexp b = 1048 ∧ frac b = f ∧ sgn b = 0 := by
    have := fields_of_sum 0 1048 f (by omega) (by omega) (by unfold two52; omega)
    have e : b = (0 <<< 63) + (1048 <<< 52) + f := by simp only [Nat.shiftLeft_eq]; omega
    rw [e]; exact ⟨this.2.1, this.2.2, this.1⟩
  have hr : round b = b + 2 ^ 26 - (b + 2 ^ 26) % 2 ^ 27 := by
    unfold round
    simp only [cbv_eq', hb.1]
    have hm : (4503599627370495 >>> (1048 - 1023) : Nat) = 2 ^ 27 - 1 := by decide
    have hh : ((1 <<< 51) >>> (1048 - 1023) : Nat) = 2 ^ 26 := by decide
    simp only [hm, hh, Nat.and_two_pow_sub_one_eq_mod]
    simp
  rw [hr]
  constructor
  · intro hN
    have hF : (f + 2 ^ 26) / 2 ^ 27 * 2 ^ 27 < two52 := by unfold two52; omega
    have hres : b + 2 ^ 26 - (b + 2 ^ 26) % 2 ^ 27 = (0 <<< 63) + (1048 <<< 52) + (f + 2 ^ 26) / 2 ^ 27 * 2 ^ 27 := by
      simp only [Nat.shiftLeft_eq]; omega
    rw [hres]
    obtain ⟨h1, h2, h3⟩ := fields_of_sum 0 1048 ((f + 2 ^ 26) / 2 ^ 27 * 2 ^ 27) (by omega) (by omega) hF
    unfold man eb
    simp only [cbv_eq', h1, h2, h3]
    refine ⟨?_, by decide, trivial⟩
    unfold two52; simp; omega
  · intro hN
    have hres : b + 2 ^ 26 - (b + 2 ^ 26) % 2 ^ 27 = (0 <<< 63) + (1049 <<< 52) + 0 := by
      simp only [Nat.shiftLeft_eq]; omega
    rw [hres]
    obtain ⟨h1, h2, h3⟩ := fields_of_sum 0 1049 0 (by omega) (by omega) (by unfold two52; omega)
    unfold man eb
    simp only [cbv_eq', h1, h2, h3]
    exact ⟨by decide, by decide, trivial⟩

theorem round_case_26 (b f : Nat) (hf : f < 4503599627370496) (hbv : b = 1049 * 4503599627370496 + f) :
    ((4503599627370496 + f + 2 ^ 25) / 2 ^ 26 < 2 ^ 27 →
      man (round b) = (4503599627370496 + f + 2 ^ 25) / 2 ^ 26 * 2 ^ 26 ∧ eb (round b) = 3974 ∧ sgn (round b) = 0) ∧
    ((4503599627370496 + f + 2 ^ 25) / 2 ^ 26 = 2 ^ 27 → man (round b) = 4503599627370496 ∧ eb (round b) = 3975 ∧ sgn (round b) = 0) := by
  have hb : bexp b = 1049 ∧ frac b = f ∧ sgn b = 0 := by
    have := fields_of_sum 0 1049 f (by omega) (by omega) (by unfold two52; omega)
    have e : b = (0 <<< 63) + (1049 <<< 52) + f := by simp only [Nat.shiftLeft_eq]; omega
    rw [e]; exact ⟨this.2.1, this.2.2, this.1⟩
  have hr : round b = b + 2 ^ 25 - (b + 2 ^ 25) % 2 ^ 26 := by
    unfold round
    simp only [cbv_eq', hb.1]
    have hm : (4503599627370495 >>> (1049 - 1023) : Nat) = 2 ^ 26 - 1 := by decide
    have hh : ((1 <<< 51) >>> (1049 - 1023) : Nat) = 2 ^ 25 := by decide
    simp only [hm, hh, Nat.and_two_pow_sub_one_eq_mod]
    simp
  rw [hr]
  constructor
  · intro hN
    have hF : (f + 2 ^ 25) / 2 ^ 26 * 2 ^ 26 < two52 := by unfold two52; omega
    have hres : b + 2 ^ 25 - (b + 2 ^ 25) % 2 ^ 26 = (0 <<< 63) + (1049 <<< 52) + (f + 2 ^ 25) / 2 ^ 26 * 2 ^ 26 := by
      simp only [Nat.shiftLeft_eq]; omega
    rw [hres]
    obtain ⟨h1, h2, h3⟩ := fields_of_sum 0 1049 ((f + 2 ^ 25) / 2 ^ 26 * 2 ^ 26) (by omega) (by omega) hF
    unfold man eb
    simp only [cbv_eq', h1, h2, h3]
    refine ⟨?_, by decide, trivial⟩
    unfold two52; simp; omega
  · intro hN
    have hres : b + 2 ^ 25 - (b + 2 ^ 25) % 2 ^ 26 = (0 <<< 63) + (1050 <<< 52) + 0 := by
      simp only [Nat.shiftLeft_eq]; omega
    rw [hres]
    obtain ⟨h1, h2, h3⟩ := fields_of_sum 0 1050 0 (by omega) (by omega) (by unfold two52; omega)
    unfold man eb
    simp only [cbv_eq', h1, h2, h3]
    exact ⟨by decide, by decide, trivial⟩

theorem round_case_27 (b f : Nat) (hf : f < 4503599627370496) (hbv : b = 1050 * 4503599627370496 + f) :
    ((4503599627370496 + f + 2 ^ 24) / 2 ^ 25 < 2 ^ 28 →
      man (round b) = (4503599627370496 + f + 2 ^ 24) / 2 ^ 25 * 2 ^ 25 ∧ eb (round b) = 3975 ∧ sgn (round b) = 0) ∧
    ((4503599627370496 + f + 2 ^ 24) / 2 ^ 25 = 2 ^ 28 → man (round b) = 4503599627370496 ∧ eb (round b) = 3976 ∧ sgn (round b) = 0) := by
  have hb : bexp b = 1050 ∧ frac b = f ∧ sgn b = 0 := by
    have := fields_of_sum 0 1050 f (by omega) (by omega) (by unfold two52; omega)
    have e : b = (0 <<< 63) + (1050 <<< 52) + f := by simp only [Nat.shiftLeft_eq]; omega
    rw [e]; exact ⟨this.2.1, this.2.2, this.1⟩
  have hr : round b = b + 2 ^ 24 - (b + 2 ^ 24) % 2 ^ 25 := by
    unfold round
    simp only [cbv_eq', hb.1]
    have hm : (4503599627370495 >>> (1050 - 1023) : Nat) = 2 ^ 25 - 1 := by decide
    have hh : ((1 <<< 51) >>> (1050 - 1023) : Nat) = 2 ^ 24 := by decide
    simp only [hm, hh, Nat.and_two_pow_sub_one_eq_mod]
    simp
  rw [hr]
  constructor
  · intro hN
    have hF : (f + 2 ^ 24) / 2 ^ 25 * 2 ^ 25 < two52 := by unfold two52; omega
    have hres : b + 2 ^ 24 - (b + 2 ^ 24) % 2 ^ 25 = (0 <<< 63) + (1050 <<< 52) + (f + 2 ^ 24) / 2 ^ 25 * 2 ^ 25 := by
      simp only [Nat.shiftLeft_eq]; omega
    rw [hres]
    obtain ⟨h1, h2, h3⟩ := fields_of_sum 0 1050 ((f + 2 ^ 24) / 2 ^ 25 * 2 ^ 25) (by omega) (by omega) hF
    unfold man eb
    simp only [cbv_eq', h1, h2, h3]
    refine ⟨?_, by decide, trivial⟩
    unfold two52; simp; omega
  · intro hN
    have hres : b + 2 ^ 24 - (b + 2 ^ 24) % 2 ^ 25 = (0 <<< 63) + (1051 <<< 52) + 0 := by
      simp only [Nat.shiftLeft_eq]; omega
    rw [hres]
    obtain ⟨h1, h2, h3⟩ := fields_of_sum 0 1051 0 (by omega) (by omega) (by unfold two52; omega)
    unfold man eb
    simp only [cbv_eq', h1, h2, h3]
    exact ⟨by decide, by decide, trivial⟩

theorem round_case_28 (b f : Nat) (hf : f < 4503599627370496) (hbv : b = 1051 * 4503599627370496 + f) :
    ((4503599627370496 + f + 2 ^ 23) / 2 ^ 24 < 2 ^ 29 →
      man (round b) = (4503599627370496 + f + 2 ^ 23) / 2 ^ 24 * 2 ^ 24 ∧ eb (round b) = 3976 ∧ sgn (round b) = 0) ∧
    ((4503599627370496 + f + 2 ^ 23) / 2 ^ 24 = 2 ^ 29 → man (round b) = 4503599627370496 ∧ eb (round b) = 3977 ∧ sgn (round b) = 0) := by
  have hb : bexp b = 1051 ∧ frac b = f ∧ sgn b = 0 := by
    have := fields_of_sum 0 1051 f (by omega) (by omega) (by unfold two52; omega)
    have e : b = (0 <<< 63) + (1051 <<< 52) + f := by simp only [Nat.shiftLeft_eq]; omega
    rw [e]; exact ⟨this.2.1, this.2.2, this.1⟩
  have hr : round b = b + 2 ^ 23 - (b + 2 ^ 23) % 2 ^ 24 := by
    unfold round
    simp only [cbv_eq', hb.1]
    have hm : (4503599627370495 >>> (1051 - 1023) : Nat) = 2 ^ 24 - 1 := by decide
    have hh : ((1 <<< 51) >>> (1051 - 1023) : Nat) = 2 ^ 23 := by decide
    simp only [hm, hh, Nat.and_two_pow_sub_one_eq_mod]
    simp
  rw [hr]
  constructor
  · intro hN
    have hF : (f + 2 ^ 23) / 2 ^ 24 * 2 ^ 24 < two52 := by unfold two52; omega
    have hres : b + 2 ^ 23 - (b + 2 ^ 23) % 2 ^ 24 = (0 <<< 63) + (1051 <<< 52) + (f + 2 ^ 23) / 2 ^ 24 * 2 ^ 24 := by
      simp only [Nat.shiftLeft_eq]; omega
    rw [hres]
    obtain ⟨h1, h2, h3⟩ := fields_of_sum 0 1051 ((f + 2 ^ 23) / 2 ^ 24 * 2 ^ 24) (by omega) (by omega) hF
    unfold man eb
    simp only [cbv_eq', h1, h2, h3]
    refine ⟨?_, by decide, trivial⟩
    unfold two52; simp; omega
  · intro hN
    have hres : b + 2 ^ 23 - (b + 2 ^ 23) % 2 ^ 24 = (0 <<< 63) + (1052 <<< 52) + 0 := by
      simp only [Nat.shiftLeft_eq]; omega
    rw [hres]
    obtain ⟨h1, h2, h3⟩ := fields_of_sum 0 1052 0 (by omega) (by omega) (by unfold two52; omega)
    unfold man eb
    simp only [cbv_eq', h1, h2, h3]
    exact ⟨by decide, by decide, trivial⟩

theorem round_case_29 (b f : Nat) (hf : f < 4503599627370496) (hbv : b = 1052 * 4503599627370496 + f) :
    ((4503599627370496 + f + 2 ^ 22) / 2 ^ 23 < 2 ^ 30 →
      man (round b) = (4503599627370496 + f + 2 ^ 22) / 2 ^ 23 * 2 ^ 23 ∧ eb (round b) = 3977 ∧ sgn (round b) = 0) ∧
    ((4503599627370496 + f + 2 ^ 22) / 2 ^ 23 = 2 ^ 30 → man (round b) = 4503599627370496 ∧ eb (round b) = 3978 ∧ sgn (round b) = 0) := by
  have hb : bexp b = 1052 ∧ frac b = f ∧ sgn b = 0 := by
    have := fields_of_sum 0 1052 f (by omega) (by omega) (by unfold two52; omega)
    have e : b = (0 <<< 63) + (1052 <<< 52) + f := by simp only [Nat.shiftLeft_eq]; omega
    rw [e]; exact ⟨this.2.1, this.2.2, this.1⟩
  have hr : round b = b + 2 ^ 22 - (b + 2 ^ 22) % 2 ^ 23 := by
    unfold round
    simp only [cbv_eq', hb.1]
    have hm : (4503599627370495 >>> (1052 - 1023) : Nat) = 2 ^ 23 - 1 := by decide
    have hh : ((1 <<< 51) >>> (1052 - 1023) : Nat) = 2 ^ 22 := by decide
    simp only [hm, hh, Nat.and_two_pow_sub_one_eq_mod]
    simp
  rw [hr]
  constructor
  · intro hN
    have hF : (f + 2 ^ 22) / 2 ^ 23 * 2 ^ 23 < two52 := by unfold two52; omega
    have hres : b + 2 ^ 22 - (b + 2 ^ 22) % 2 ^ 23 = (0 <<< 63) + (1052 <<< 52) + (f + 2 ^ 22) / 2 ^ 23 * 2 ^ 23 := by
      simp only [Nat.shiftLeft_eq]; omega
    rw [hres]
    obtain ⟨h1, h2, h3⟩ := fields_of_sum 0 1052 ((f + 2 ^ 22) / 2 ^ 23 * 2 ^ 23) (by omega) (by omega) hF
    unfold man eb
    simp only [cbv_eq', h1, h2, h3]
    refine ⟨?_, by decide, trivial⟩
    unfold two52; simp; omega
  · intro hN
    have hres : b + 2 ^ 22 - (b + 2 ^ 22) % 2 ^ 23 = (0 <<< 63) + (1053 <<< 52) + 0 := by
      simp only [Nat.shiftLeft_eq]; omega
    rw [hres]
    obtain ⟨h1, h2, h3⟩ := fields_of_sum 0 1053 0 (by omega) (by omega) (by unfold two52; omega)
    unfold man eb
    simp only [cbv_eq', h1, h2, h3]
    exact ⟨by decide, by decide, trivial⟩

theorem round_case_30 (b f : Nat) (hf : f < 4503599627370496) (hbv : b = 1053 * 4503599627370496 + f) :
    ((4503599627370496 + f + 2 ^ 21) / 2 ^ 22 < 2 ^ 31 →
      man (round b) = (4503599627370496 + f + 2 ^ 21) / 2 ^ 22 * 2 ^ 22 ∧ eb (round b) = 3978 ∧ sgn (round b) = 0) ∧
    ((4503599627370496 + f + 2 ^ 21) / 2 ^ 22 = 2 ^ 31 → man (round b) = 4503599627370496 ∧ eb (round b) = 3979 ∧ sgn (round b) = 0) := by
  have hb : bexp b = 1053 ∧ frac b = f ∧ sgn b = 0 := by
    have := fields_of_sum 0 1053 f (by omega) (by omega) (by unfold two52; omega)
    have e : b = (0 <<< 63) + (1053 <<< 52) + f := by simp only [Nat.shiftLeft_eq]; omega
    rw [e]; exact ⟨this.2.1, this.2.2, this.1⟩
  have hr : round b = b + 2 ^ 21 - (b + 2 ^ 21) % 2 ^ 22 := by
    unfold round
    simp only [cbv_eq', hb.1]
    have hm : (4503599627370495 >>> (1053 - 1023) : Nat) = 2 ^ 22 - 1 := by decide
    have hh : ((1 <<< 51) >>> (1053 - 1023) : Nat) = 2 ^ 21 := by decide
    simp only [hm, hh, Nat.and_two_pow_sub_one_eq_mod]
    simp
  rw [hr]
  constructor
  · intro hN
    have hF : (f + 2 ^ 21) / 2 ^ 22 * 2 ^ 22 < two52 := by unfold two52; omega
    have hres : b + 2 ^ 21 - (b + 2 ^ 21) % 2 ^ 22 = (0 <<< 63) + (1053 <<< 52) + (f + 2 ^ 21) / 2 ^ 22 * 2 ^ 22 := by
      simp only [Nat.shiftLeft_eq]; omega
    rw [hres]
    obtain ⟨h1, h2, h3⟩ := fields_of_sum 0 1053 ((f + 2 ^ 21) / 2 ^ 22 * 2 ^ 22) (by omega) (by omega) hF
    unfold man eb
    simp only [cbv_eq', h1, h2, h3]
    refine ⟨?_, by decide, trivial⟩
    unfold two52; simp; omega
  · intro hN
    have hres : b + 2 ^ 21 - (b + 2 ^ 21) % 2 ^ 22 = (0 <<< 63) + (1054 <<< 52) + 0 := by
      simp only [Nat.shiftLeft_eq]; omega
    rw [hres]
    obtain ⟨h1, h2, h3⟩ := fields_of_sum 0 1054 0 (by omega) (by omega) (by unfold two52; omega)
    unfold man eb
    simp only [cbv_eq', h1, h2, h3]
    exact ⟨by decide, by decide, trivial⟩

theorem round_case_31 (b f : Nat) (hf : f < 4503599627370496) (hbv : b = 1054 * 4503599627370496 + f) :
    ((4503599627370496 + f + 2 ^ 20) / 2 ^ 21 < 2 ^ 32 →
      man (round b) = (4503599627370496 + f + 2 ^ 20) / 2 ^ 21 * 2 ^ 21 ∧ eb (round b) = 3979 ∧ sgn (round b) = 0) ∧
    ((4503599627370496 + f + 2 ^ 20) / 2 ^ 21 = 2 ^ 32 → man (round b) = 4503599627370496 ∧ eb (round b) = 3980 ∧ sgn (round b) = 0) := by
  have hb : bexp b = 1054 ∧ frac b = f ∧ sgn b = 0 := by
    have := fields_of_sum 0 1054 f (by omega) (by omega) (by unfold two52; omega)
    have e : b = (0 <<< 63) + (1054 <<< 52) + f := by simp only [Nat.shiftLeft_eq]; omega
    rw [e]; exact ⟨this.2.1, this.2.2, this.1⟩
  have hr : round b = b + 2 ^ 20 - (b + 2 ^ 20) % 2 ^ 21 := by
    unfold round
    simp only [cbv_eq', hb.1]
    have hm : (4503599627370495 >>> (1054 - 1023) : Nat) = 2 ^ 21 - 1 := by decide
    have hh : ((1 <<< 51) >>> (1054 - 1023) : Nat) = 2 ^ 20 := by decide
    simp only [hm, hh, Nat.and_two_pow_sub_one_eq_mod]
    simp
  rw [hr]
  constructor
  · intro hN
    have hF : (f + 2 ^ 20) / 2 ^ 21 * 2 ^ 21 < two52 := by unfold two52; omega
    have hres : b + 2 ^ 20 - (b + 2 ^ 20) % 2 ^ 21 = (0 <<< 63) + (1054 <<< 52) + (f + 2 ^ 20) / 2 ^ 21 * 2 ^ 21 := by
      simp only [Nat.shiftLeft_eq]; omega
    rw [hres]
    obtain ⟨h1, h2, h3⟩ := fields_of_sum 0 1054 ((f + 2 ^ 20) / 2 ^ 21 * 2 ^ 21) (by omega) (by omega) hF
    unfold man eb
    simp only [cbv_eq', h1, h2, h3]
    refine ⟨?_, by decide, trivial⟩
    unfold two52; simp; omega
  · intro hN
    have hres : b + 2 ^ 20 - (b + 2 ^ 20) % 2 ^ 21 = (0 <<< 63) + (1055 <<< 52) + 0 := by
      simp only [Nat.shiftLeft_eq]; omega
    rw [hres]
    obtain ⟨h1, h2, h3⟩ := fields_of_sum 0 1055 0 (by omega) (by omega) (by unfold two52; omega)
    unfold man eb
    simp only [cbv_eq', h1, h2, h3]
    exact ⟨by decide, by decide, trivial⟩

theorem round_case_32 (b f : Nat) (hf : f < 4503599627370496) (hbv : b = 1055 * 4503599627370496 + f) :
    ((4503599627370496 + f + 2 ^ 19) / 2 ^ 20 < 2 ^ 33 →
      man (round b) = (4503599627370496 + f + 2 ^ 19) / 2 ^ 20 * 2 ^ 20 ∧ eb (round b) = 3980 ∧ sgn (round b) = 0) ∧
    ((4503599627370496 + f + 2 ^ 19) / 2 ^ 20 = 2 ^ 33 → man (round b) = 4503599627370496 ∧ eb (round b) = 3981 ∧ sgn (round b) = 0) := by
  have hb : bexp b = 1055 ∧ frac b = f ∧ sgn b = 0 := by
    have := fields_of_sum 0 1055 f (by omega) (by omega) (by unfold two52; omega)
    have e : b = (0 <<< 63) + (1055 <<< 52) + f := by simp only [Nat.shiftLeft_eq]; omega
    rw [e]; exact ⟨this.2.1, this.2.2, this.1⟩
  have hr : round b = b + 2 ^ 19 - (b + 2 ^ 19) % 2 ^ 20 := by
    unfold round
    simp only [cbv_eq', hb.1]
    have hm : (4503599627370495 >>> (1055 - 1023) : Nat) = 2 ^ 20 - 1 := by decide
    have hh : ((1 <<< 51) >>> (1055 - 1023) : Nat) = 2 ^ 19 := by decide
    simp only [hm, hh, Nat.and_two_pow_sub_one_eq_mod]
    simp
  rw [hr]
  constructor
  · intro hN
    have hF : (f + 2 ^ 19) / 2 ^ 20 * 2 ^ 20 < two52 := by unfold two52; omega
    have hres : b + 2 ^ 19 - (b + 2 ^ 19) % 2 ^ 20 = (0 <<< 63) + (1055 <<< 52) + (f + 2 ^ 19) / 2 ^ 20 * 2 ^ 20 := by
      simp only [Nat.shiftLeft_eq]; omega
    rw [hres]
    obtain ⟨h1, h2, h3⟩ := fields_of_sum 0 1055 ((f + 2 ^ 19) / 2 ^ 20 * 2 ^ 20) (by omega) (by omega) hF
    unfold man eb
    simp only [cbv_eq', h1, h2, h3]
    refine ⟨?_, by decide, trivial⟩
    unfold two52; simp; omega
  · intro hN
    have hres : b + 2 ^ 19 - (b + 2 ^ 19) % 2 ^ 20 = (0 <<< 63) + (1056 <<< 52) + 0 := by
      simp only [Nat.shiftLeft_eq]; omega
    rw [hres]
    obtain ⟨h1, h2, h3⟩ := fields_of_sum 0 1056 0 (by omega) (by omega) (by unfold two52; omega)
    unfold man eb
    simp only [cbv_eq', h1, h2, h3]
    exact ⟨by decide, by decide, trivial⟩

theorem round_case_33 (b f : Nat) (hf : f < 4503599627370496) (hbv : b = 1056 * 4503599627370496 + f) :
    ((4503599627370496 + f + 2 ^ 18) / 2 ^ 19 < 2 ^ 34 →
      man (round b) = (4503599627370496 + f + 2 ^ 18) / 2 ^ 19 * 2 ^ 19 ∧ eb (round b) = 3981 ∧ sgn (round b) = 0) ∧
    ((4503599627370496 + f + 2 ^ 18) / 2 ^ 19 = 2 ^ 34 → man (round b) = 4503599627370496 ∧ eb (round b) = 3982 ∧ sgn (round b) = 0) := by
  have hb : bexp b = 1056 ∧ frac b = f ∧ sgn b = 0 := by
    have := fields_of_sum 0 1056 f (by omega) (by omega) (by unfold two52; omega)
    have e : b = (0 <<< 63) + (1056 <<< 52) + f := by simp only [Nat.shiftLeft_eq]; omega
    rw [e]; exact ⟨this.2.1, this.2.2, this.1⟩
  have hr : round b = b + 2 ^ 18 - (b + 2 ^ 18) % 2 ^ 19 := by
    unfold round
    simp only [cbv_eq', hb.1]
    have hm : (4503599627370495 >>> (1056 - 1023) : Nat) = 2 ^ 19 - 1 := by decide
    have hh : ((1 <<< 51) >>> (1056 - 1023) : Nat) = 2 ^ 18 := by decide
    simp only [hm, hh, Nat.and_two_pow_sub_one_eq_mod]
    simp
  rw [hr]
  constructor
  · intro hN
    have hF : (f + 2 ^ 18) / 2 ^ 19 * 2 ^ 19 < two52 := by unfold two52; omega
    have hres : b + 2 ^ 18 - (b + 2 ^ 18) % 2 ^ 19 = (0 <<< 63) + (1056 <<< 52) + (f + 2 ^ 18) / 2 ^ 19 * 2 ^ 19 := by
      simp only [Nat.shiftLeft_eq]; omega
    rw [hres]
    obtain ⟨h1, h2, h3⟩ := fields_of_sum 0 1056 ((f + 2 ^ 18) / 2 ^ 19 * 2 ^ 19) (by omega) (by omega) hF
    unfold man eb
    simp only [cbv_eq', h1, h2, h3]
    refine ⟨?_, by decide, trivial⟩
    unfold two52; simp; omega
  · intro hN
    have hres : b + 2 ^ 18 - (b + 2 ^ 18) % 2 ^ 19 = (0 <<< 63) + (1057 <<< 52) + 0 := by
      simp only [Nat.shiftLeft_eq]; omega
    rw [hres]
    obtain ⟨h1, h2, h3⟩ := fields_of_sum 0 1057 0 (by omega) (by omega) (by unfold two52; omega)
    unfold man eb
    simp only [cbv_eq', h1, h2, h3]
    exact ⟨by decide, by decide, trivial⟩

theorem round_case_34 (b f : Nat) (hf : f < 4503599627370496) (hbv : b = 1057 * 4503599627370496 + f) :
    ((4503599627370496 + f + 2 ^ 17) / 2 ^ 18 < 2 ^ 35 →
      man (round b) = (4503599627370496 + f + 2 ^ 17) / 2 ^ 18 * 2 ^ 18 ∧ eb (round b) = 3982 ∧ sgn (round b) = 0) ∧
    ((4503599627370496 + f + 2 ^ 17) / 2 ^ 18 = 2 ^ 35 → man (round b) = 4503599627370496 ∧ eb (round b) = 3983 ∧ sgn (round b) = 0) := by
  have hb : bexp b = 1057 ∧ frac b = f ∧ sgn b = 0 := by
    have := fields_of_sum 0 1057 f (by omega) (by omega) (by unfold two52; omega)
    have e : b = (0 <<< 63) + (1057 <<< 52) + f := by simp only [Nat.shiftLeft_eq]; omega
    rw [e]; exact ⟨this.2.1, this.2.2, this.1⟩
  have hr : round b = b + 2 ^ 17 - (b + 2 ^ 17) % 2 ^ 18 := by
    unfold round
    simp only [cbv_eq', hb.1]
    have hm : (4503599627370495 >>> (1057 - 1023) : Nat) = 2 ^ 18 - 1 := by decide
    have hh : ((1 <<< 51) >>> (1057 - 1023) : Nat) = 2 ^ 17 := by decide
    simp only [hm, hh, Nat.and_two_pow_sub_one_eq_mod]
    simp
  rw [hr]
  constructor
  · intro hN
    have hF : (f + 2 ^ 17) / 2 ^ 18 * 2 ^ 18 < two52 := by unfold two52; omega
    have hres : b + 2 ^ 17 - (b + 2 ^ 17) % 2 ^ 18 = (0 <<< 63) + (1057 <<< 52) + (f + 2 ^ 17) / 2 ^ 18 * 2 ^ 18 := by
      simp only [Nat.shiftLeft_eq]; omega
    rw [hres]
    obtain ⟨h1, h2, h3⟩ := fields_of_sum 0 1057 ((f + 2 ^ 17) / 2 ^ 18 * 2 ^ 18) (by omega) (by omega) hF
    unfold man eb
    simp only [cbv_eq', h1, h2, h3]
    refine ⟨?_, by decide, trivial⟩
    unfold two52; simp; omega
  · intro hN
    have hres : b + 2 ^ 17 - (b + 2 ^ 17) % 2 ^ 18 = (0 <<< 63) + (1058 <<< 52) + 0 := by
      simp only [Nat.shiftLeft_eq]; omega
    rw [hres]
    obtain ⟨h1, h2, h3⟩ := fields_of_sum 0 1058 0 (by omega) (by omega) (by unfold two52; omega)
    unfold man eb
    simp only [cbv_eq', h1, h2, h3]
    exact ⟨by decide, by decide, trivial⟩

theorem round_case_35 (b f : Nat) (hf : f < 4503599627370496) (hbv : b = 1058 * 4503599627370496 + f) :
    ((4503599627370496 + f + 2 ^ 16) / 2 ^ 17 < 2 ^ 36 →
      man (round b) = (4503599627370496 + f + 2 ^ 16) / 2 ^ 17 * 2 ^ 17 ∧ eb (round b) = 3983 ∧ sgn (round b) = 0) ∧
    ((4503599627370496 + f + 2 ^ 16) / 2 ^ 17 = 2 ^ 36 → man (round b) = 4503599627370496 ∧ eb (round b) = 3984 ∧ sgn (round b) = 0) := by
  have hb : bexp b = 1058 ∧ frac b = f ∧ sgn b = 0 := by
    have := fields_of_sum 0 1058 f (by omega) (by omega) (by unfold two52; omega)
    have e : b = (0 <<< 63) + (1058 <<< 52) + f := by simp only [Nat.shiftLeft_eq]; omega
    rw [e]; exact ⟨this.2.1, this.2.2, this.1⟩
  have hr : round b = b + 2 ^ 16 - (b + 2 ^ 16) % 2 ^ 17 := by
    unfold round
    simp only [cbv_eq', hb.1]
    have hm : (4503599627370495 >>> (1058 - 1023) : Nat) = 2 ^ 17 - 1 := by decide
    have hh : ((1 <<< 51) >>> (1058 - 1023) : Nat) = 2 ^ 16 := by decide
    simp only [hm, hh, Nat.and_two_pow_sub_one_eq_mod]
    simp
  rw [hr]
  constructor
  · intro hN
    have hF : (f + 2 ^ 16) / 2 ^ 17 * 2 ^ 17 < two52 := by unfold two52; omega
    have hres : b + 2 ^ 16 - (b + 2 ^ 16) % 2 ^ 17 = (0 <<< 63) + (1058 <<< 52) + (f + 2 ^ 16) / 2 ^ 17 * 2 ^ 17 := by
      simp only [Nat.shiftLeft_eq]; omega
    rw [hres]
    obtain ⟨h1, h2, h3⟩ := fields_of_sum 0 1058 ((f + 2 ^ 16) / 2 ^ 17 * 2 ^ 17) (by omega) (by omega) hF
    unfold man eb
    simp only [cbv_eq', h1, h2, h3]
    refine ⟨?_, by decide, trivial⟩
    unfold two52; simp; omega
  · intro hN
    have hres : b + 2 ^ 16 - (b + 2 ^ 16) % 2 ^ 17 = (0 <<< 63) + (1059 <<< 52) + 0 := by
      simp only [Nat.shiftLeft_eq]; omega
    rw [hres]
    obtain ⟨h1, h2, h3⟩ := fields_of_sum 0 1059 0 (by omega) (by omega) (by unfold two52; omega)
    unfold man eb
    simp only [cbv_eq', h1, h2, h3]
    exact ⟨by decide, by decide, trivial⟩

theorem round_case_36 (b f : Nat) (hf : f < 4503599627370496) (hbv : b = 1059 * 4503599627370496 + f) :
    ((4503599627370496 + f + 2 ^ 15) / 2 ^ 16 < 2 ^ 37 →
      man (round b) = (4503599627370496 + f + 2 ^ 15) / 2 ^ 16 * 2 ^ 16 ∧ eb (round b) = 3984 ∧ sgn (round b) = 0) ∧
    ((4503599627370496 + f + 2 ^ 15) / 2 ^ 16 = 2 ^ 37 → man (round b) = 4503599627370496 ∧ eb (round b) = 3985 ∧ sgn (round b) = 0) := by
  have hb : bexp b = 1059 ∧ frac b = f ∧ sgn b = 0 := by
    have := fields_of_sum 0 1059 f (by omega) (by omega) (by unfold two52; omega)
    have e : b = (0 <<< 63) + (1059 <<< 52) + f := by simp only [Nat.shiftLeft_eq]; omega
    rw [e]; exact ⟨this.2.1, this.2.2, this.1⟩
  have hr : round b = b + 2 ^ 15 - (b + 2 ^ 15) % 2 ^ 16 := by
    unfold round
    simp only [cbv_eq', hb.1]
    have hm : (4503599627370495 >>> (1059 - 1023) : Nat) = 2 ^ 16 - 1 := by decide
    have hh : ((1 <<< 51) >>> (1059 - 1023) : Nat) = 2 ^ 15 := by decide
    simp only [hm, hh, Nat.and_two_pow_sub_one_eq_mod]
    simp
  rw [hr]
  constructor
  · intro hN
    have hF : (f + 2 ^ 15) / 2 ^ 16 * 2 ^ 16 < two52 := by unfold two52; omega
    have hres : b + 2 ^ 15 - (b + 2 ^ 15) % 2 ^ 16 = (0 <<< 63) + (1059 <<< 52) + (f + 2 ^ 15) / 2 ^ 16 * 2 ^ 16 := by
      simp only [Nat.shiftLeft_eq]; omega
    rw [hres]
    obtain ⟨h1, h2, h3⟩ := fields_of_sum 0 1059 ((f + 2 ^ 15) / 2 ^ 16 * 2 ^ 16) (by omega) (by omega) hF
    unfold man eb
    simp only [cbv_eq', h1, h2, h3]
    refine ⟨?_, by decide, trivial⟩
    unfold two52; simp; omega
  · intro hN
    have hres : b + 2 ^ 15 - (b + 2 ^ 15) % 2 ^ 16 = (0 <<< 63) + (1060 <<< 52) + 0 := by
      simp only [Nat.shiftLeft_eq]; omega
    rw [hres]
    obtain ⟨h1, h2, h3⟩ := fields_of_sum 0 1060 0 (by omega) (by omega) (by unfold two52; omega)
    unfold man eb
    simp only [cbv_eq', h1, h2, h3]
    exact ⟨by decide, by decide, trivial⟩

theorem round_case_37 (b f : Nat) (hf : f < 4503599627370496) (hbv : b = 1060 * 4503599627370496 + f) :
    ((4503599627370496 + f + 2 ^ 14) / 2 ^ 15 < 2 ^ 38 →
      man (round b) = (4503599627370496 + f + 2 ^ 14) / 2 ^ 15 * 2 ^ 15 ∧ eb (round b) = 3985 ∧ sgn (round b) = 0) ∧
    ((4503599627370496 + f + 2 ^ 14) / 2 ^ 15 = 2 ^ 38 → man (round b) = 4503599627370496 ∧ eb (round b) = 3986 ∧ sgn (round b) = 0) := by
  have hb : bexp b = 1060 ∧ frac b = f ∧ sgn b = 0 := by
    have := fields_of_sum 0 1060 f (by omega) (by omega) (by unfold two52; omega)
    have e : b = (0 <<< 63) + (1060 <<< 52) + f := by simp only [Nat.shiftLeft_eq]; omega
    rw [e]; exact ⟨this.2.1, this.2.2, this.1⟩
  have hr : round b = b + 2 ^ 14 - (b + 2 ^ 14) % 2 ^ 15 := by
    unfold round
    simp only [cbv_eq', hb.1]
    have hm : (4503599627370495 >>> (1060 - 1023) : Nat) = 2 ^ 15 - 1 := by decide
    have hh : ((1 <<< 51) >>> (1060 - 1023) : Nat) = 2 ^ 14 := by decide
    simp only [hm, hh, Nat.and_two_pow_sub_one_eq_mod]
    simp
  rw [hr]
  constructor
  · intro hN
    have hF : (f + 2 ^ 14) / 2 ^ 15 * 2 ^ 15 < two52 := by unfold two52; omega
    have hres : b + 2 ^ 14 - (b + 2 ^ 14) % 2 ^ 15 = (0 <<< 63) + (1060 <<< 52) + (f + 2 ^ 14) / 2 ^ 15 * 2 ^ 15 := by
      simp only [Nat.shiftLeft_eq]; omega
    rw [hres]
    obtain ⟨h1, h2, h3⟩ := fields_of_sum 0 1060 ((f + 2 ^ 14) / 2 ^ 15 * 2 ^ 15) (by omega) (by omega) hF
    unfold man eb
    simp only [cbv_eq', h1, h2, h3]
    refine ⟨?_, by decide, trivial⟩
    unfold two52; simp; omega
  · intro hN
    have hres : b + 2 ^ 14 - (b + 2 ^ 14) % 2 ^ 15 = (0 <<< 63) + (1061 <<< 52) + 0 := by
      simp only [Nat.shiftLeft_eq]; omega
    rw [hres]
    obtain ⟨h1, h2, h3⟩ := fields_of_sum 0 1061 0 (by omega) (by omega) (by unfold two52; omega)
    unfold man eb
    simp only [cbv_eq', h1, h2, h3]
    exact ⟨by decide, by decide, trivial⟩

theorem round_case_38 (b f : Nat) (hf : f < 4503599627370496) (hbv : b = 1061 * 4503599627370496 + f) :
    ((4503599627370496 + f + 2 ^ 13) / 2 ^ 14 < 2 ^ 39 →
      man (round b) = (4503599627370496 + f + 2 ^ 13) / 2 ^ 14 * 2 ^ 14 ∧ eb (round b) = 3986 ∧ sgn (round b) = 0) ∧
    ((4503599627370496 + f + 2 ^ 13) / 2 ^ 14 = 2 ^ 39 → man (round b) = 4503599627370496 ∧ eb (round b) = 3987 ∧ sgn (round b) = 0) := by
  have hb : bexp b = 1061 ∧ frac b = f ∧ sgn b = 0 := by
    have := fields_of_sum 0 1061 f (by omega) (by omega) (by unfold two52; omega)
    have e : b = (0 <<< 63) + (1061 <<< 52) + f := by simp only [Nat.shiftLeft_eq]; omega
    rw [e]; exact ⟨this.2.1, this.2.2, this.1⟩
  have hr : round b = b + 2 ^ 13 - (b + 2 ^ 13) % 2 ^ 14 := by
    unfold round
    simp only [cbv_eq', hb.1]
    have hm : (4503599627370495 >>> (1061 - 1023) : Nat) = 2 ^ 14 - 1 := by decide
    have hh : ((1 <<< 51) >>> (1061 - 1023) : Nat) = 2 ^ 13 := by decide
    simp only [hm, hh, Nat.and_two_pow_sub_one_eq_mod]
    simp
  rw [hr]
  constructor
  · intro hN
    have hF : (f + 2 ^ 13) / 2 ^ 14 * 2 ^ 14 < two52 := by unfold two52; omega
    have hres : b + 2 ^ 13 - (b + 2 ^ 13) % 2 ^ 14 = (0 <<< 63) + (1061 <<< 52) + (f + 2 ^ 13) / 2 ^ 14 * 2 ^ 14 := by
      simp only [Nat.shiftLeft_eq]; omega
    rw [hres]
    obtain ⟨h1, h2, h3⟩ := fields_of_sum 0 1061 ((f + 2 ^ 13) / 2 ^ 14 * 2 ^ 14) (by omega) (by omega) hF
    unfold man eb
    simp only [cbv_eq', h1, h2, h3]
    refine ⟨?_, by decide, trivial⟩
    unfold two52; simp; omega
  · intro hN
    have hres : b + 2 ^ 13 - (b + 2 ^ 13) % 2 ^ 14 = (0 <<< 63) + (1062 <<< 52) + 0 := by
      simp only [Nat.shiftLeft_eq]; omega
    rw [hres]
    obtain ⟨h1, h2, h3⟩ := fields_of_sum 0 1062 0 (by omega) (by omega) (by unfold two52; omega)
    unfold man eb
    simp only [cbv_eq', h1, h2, h3]
    exact ⟨by decide, by decide, trivial⟩

theorem round_case_39 (b f : Nat) (hf : f < 4503599627370496) (hbv : b = 1062 * 4503599627370496 + f) :
    ((4503599627370496 + f + 2 ^ 12) / 2 ^ 13 < 2 ^ 40 →
      man (round b) = (4503599627370496 + f + 2 ^ 12) / 2 ^ 13 * 2 ^ 13 ∧ eb (round b) = 3987 ∧ sgn (round b) = 0) ∧
    ((4503599627370496 + f + 2 ^ 12) / 2 ^ 13 = 2 ^ 40 → man (round b) = 4503599627370496 ∧ eb (round b) = 3988 ∧ sgn (round b) = 0) := by
  have hb : bexp b = 1062 ∧ frac b = f ∧ sgn b = 0 := by
    have := fields_of_sum 0 1062 f (by omega) (by omega) (by unfold two52; omega)
    have e : b = (0 <<< 63) + (1062 <<< 52) + f := by simp only [Nat.shiftLeft_eq]; omega
    rw [e]; exact ⟨this.2.1, this.2.2, this.1⟩
  have hr : round b = b + 2 ^ 12 - (b + 2 ^ 12) % 2 ^ 13 := by
    unfold round
    simp only [cbv_eq', hb.1]
    have hm : (4503599627370495 >>> (1062 - 1023) : Nat) = 2 ^ 13 - 1 := by decide
    have hh : ((1 <<< 51) >>> (1062 - 1023) : Nat) = 2 ^ 12 := by decide
    simp only [hm, hh, Nat.and_two_pow_sub_one_eq_mod]
    simp
  rw [hr]
  constructor
  · intro hN
    have hF : (f + 2 ^ 12) / 2 ^ 13 * 2 ^ 13 < two52 := by unfold two52; omega
    have hres : b + 2 ^ 12 - (b + 2 ^ 12) % 2 ^ 13 = (0 <<< 63) + (1062 <<< 52) + (f + 2 ^ 12) / 2 ^ 13 * 2 ^ 13 := by
      simp only [Nat.shiftLeft_eq]; omega
    rw [hres]
    obtain ⟨h1, h2, h3⟩ := fields_of_sum 0 1062 ((f + 2 ^ 12) / 2 ^ 13 * 2 ^ 13) (by omega) (by omega) hF
    unfold man eb
    simp only [cbv_eq', h1, h2, h3]
    refine ⟨?_, by decide, trivial⟩
    unfold two52; simp; omega
  · intro hN
    have hres : b + 2 ^ 12 - (b + 2 ^ 12) % 2 ^ 13 = (0 <<< 63) + (1063 <<< 52) + 0 := by
      simp only [Nat.shiftLeft_eq]; omega
    rw [hres]
    obtain ⟨h1, h2, h3⟩ := fields_of_sum 0 1063 0 (by omega) (by omega) (by unfold two52; omega)
    unfold man eb
    simp only [cbv_eq', h1, h2, h3]
    exact ⟨by decide, by decide, trivial⟩

theorem round_case_40 (b f : Nat) (hf : f < 4503599627370496) (hbv : b = 1063 * 4503599627370496 + f) :
    ((4503599627370496 + f + 2 ^ 11) / 2 ^ 12 < 2 ^ 41 →
      man (round b) = (4503599627370496 + f + 2 ^ 11) / 2 ^ 12 * 2 ^ 12 ∧ eb (round b) = 3988 ∧ sgn (round b) = 0) ∧
    ((4503599627370496 + f + 2 ^ 11) / 2 ^ 12 = 2 ^ 41 → man (round b) = 4503599627370496 ∧ eb (round b) = 3989 ∧ sgn (round b) = 0) := by
  have hb : bexp b = 1063 ∧ frac b = f ∧ sgn b = 0 := by
    have := fields_of_sum 0 1063 f (by omega) (by omega) (by unfold two52; omega)
    have e : b = (0 <<< 63) + (1063 <<< 52) + f := by simp only [Nat.shiftLeft_eq]; omega
    rw [e]; exact ⟨this.2.1, this.2.2, this.1⟩
  have hr : round b = b + 2 ^ 11 - (b + 2 ^ 11) % 2 ^ 12 := by
    unfold round
    simp only [cbv_eq', hb.1]
    have hm : (4503599627370495 >>> (1063 - 1023) : Nat) = 2 ^ 12 - 1 := by decide
    have hh : ((1 <<< 51) >>> (1063 - 1023) : Nat) = 2 ^ 11 := by decide
    simp only [hm, hh, Nat.and_two_pow_sub_one_eq_mod]
    simp
  rw [hr]
  constructor
  · intro hN
    have hF : (f + 2 ^ 11) / 2 ^ 12 * 2 ^ 12 < two52 := by unfold two52; omega
    have hres : b + 2 ^ 11 - (b + 2 ^ 11) % 2 ^ 12 = (0 <<< 63) + (1063 <<< 52) + (f + 2 ^ 11) / 2 ^ 12 * 2 ^ 12 := by
      simp only [Nat.shiftLeft_eq]; omega
    rw [hres]
    obtain ⟨h1, h2, h3⟩ := fields_of_sum 0 1063 ((f + 2 ^ 11) / 2 ^ 12 * 2 ^ 12) (by omega) (by omega) hF
    unfold man eb
    simp only [cbv_eq', h1, h2, h3]
    refine ⟨?_, by decide, trivial⟩
    unfold two52; simp; omega
  · intro hN
    have hres : b + 2 ^ 11 - (b + 2 ^ 11) % 2 ^ 12 = (0 <<< 63) + (1064 <<< 52) + 0 := by
      simp only [Nat.shiftLeft_eq]; omega
    rw [hres]
    obtain ⟨h1, h2, h3⟩ := fields_of_sum 0 1064 0 (by omega) (by omega) (by unfold two52; omega)
    unfold man eb
    simp only [cbv_eq', h1, h2, h3]
    exact ⟨by decide, by decide, trivial⟩

theorem round_case_41 (b f : Nat) (hf : f < 4503599627370496) (hbv : b = 1064 * 4503599627370496 + f) :
    ((4503599627370496 + f + 2 ^ 10) / 2 ^ 11 < 2 ^ 42 →
      man (round b) = (4503599627370496 + f + 2 ^ 10) / 2 ^ 11 * 2 ^ 11 ∧ eb (round b) = 3989 ∧ sgn (round b) = 0) ∧
    ((4503599627370496 + f + 2 ^ 10) / 2 ^ 11 = 2 ^ 42 → man (round b) = 4503599627370496 ∧ eb (round b) = 3990 ∧ sgn (round b) = 0) := by
  have hb : bexp b = 1064 ∧ frac b = f ∧ sgn b = 0 := by
    have := fields_of_sum 0 1064 f (by omega) (by omega) (by unfold two52; omega)
    have e : b = (0 <<< 63) + (1064 <<< 52) + f := by simp only [Nat.shiftLeft_eq]; omega
    rw [e]; exact ⟨this.2.1, this.2.2, this.1⟩
  have hr : round b = b + 2 ^ 10 - (b + 2 ^ 10) % 2 ^ 11 := by
    unfold round
    simp only [cbv_eq', hb.1]
    have hm : (4503599627370495 >>> (1064 - 1023) : Nat) = 2 ^ 11 - 1 := by decide
    have hh : ((1 <<< 51) >>> (1064 - 1023) : Nat) = 2 ^ 10 := by decide
    simp only [hm, hh, Nat.and_two_pow_sub_one_eq_mod]
    simp
  rw [hr]
  constructor
  · intro hN
    have hF : (f + 2 ^ 10) / 2 ^ 11 * 2 ^ 11 < two52 := by unfold two52; omega
    have hres : b + 2 ^ 10 - (b + 2 ^ 10) % 2 ^ 11 = (0 <<< 63) + (1064 <<< 52) + (f + 2 ^ 10) / 2 ^ 11 * 2 ^ 11 := by
      simp only [Nat.shiftLeft_eq]; omega
    rw [hres]
    obtain ⟨h1, h2, h3⟩ := fields_of_sum 0 1064 ((f + 2 ^ 10) / 2 ^ 11 * 2 ^ 11) (by omega) (by omega) hF
    unfold man eb
    simp only [cbv_eq', h1, h2, h3]
    refine ⟨?_, by decide, trivial⟩
    unfold two52; simp; omega
  · intro hN
    have hres : b + 2 ^ 10 - (b + 2 ^ 10) % 2 ^ 11 = (0 <<< 63) + (1065 <<< 52) + 0 := by
      simp only [Nat.shiftLeft_eq]; omega
    rw [hres]
    obtain ⟨h1, h2, h3⟩ := fields_of_sum 0 1065 0 (by omega) (by omega) (by unfold two52; omega)
    unfold man eb
    simp only [cbv_eq', h1, h2, h3]
    exact ⟨by decide, by decide, trivial⟩

theorem round_case_42 (b f : Nat) (hf : f < 4503599627370496) (hbv : b = 1065 * 4503599627370496 + f) :
    ((4503599627370496 + f + 2 ^ 9) / 2 ^ 10 < 2 ^ 43 →
      man (round b) = (4503599627370496 + f + 2 ^ 9) / 2 ^ 10 * 2 ^ 10 ∧ eb (round b) = 3990 ∧ sgn (round b) = 0) ∧
    ((4503599627370496 + f + 2 ^ 9) / 2 ^ 10 = 2 ^ 43 → man (round b) = 4503599627370496 ∧ eb (round b) = 3991 ∧ sgn (round b) = 0) := by
  have hb : bexp b = 1065 ∧ frac b = f ∧ sgn b = 0 := by
    have := fields_of_sum 0 1065 f (by omega) (by omega) (by unfold two52; omega)
    have e : b = (0 <<< 63) + (1065 <<< 52) + f := by simp only [Nat.shiftLeft_eq]; omega
    rw [e]; exact ⟨this.2.1, this.2.2, this.1⟩
  have hr : round b = b + 2 ^ 9 - (b + 2 ^ 9) % 2 ^ 10 := by
    unfold round
    simp only [cbv_eq', hb.1]
    have hm : (4503599627370495 >>> (1065 - 1023) : Nat) = 2 ^ 10 - 1 := by decide
    have hh : ((1 <<< 51) >>> (1065 - 1023) : Nat) = 2 ^ 9 := by decide
    simp only [hm, hh, Nat.and_two_pow_sub_one_eq_mod]
    simp
  rw [hr]
  constructor
  · intro hN
    have hF : (f + 2 ^ 9) / 2 ^ 10 * 2 ^ 10 < two52 := by unfold two52; omega
    have hres : b + 2 ^ 9 - (b + 2 ^ 9) % 2 ^ 10 = (0 <<< 63) + (1065 <<< 52) + (f + 2 ^ 9) / 2 ^ 10 * 2 ^ 10 := by
      simp only [Nat.shiftLeft_eq]; omega
    rw [hres]
    obtain ⟨h1, h2, h3⟩ := fields_of_sum 0 1065 ((f + 2 ^ 9) / 2 ^ 10 * 2 ^ 10) (by omega) (by omega) hF
    unfold man eb
    simp only [cbv_eq', h1, h2, h3]
    refine ⟨?_, by decide, trivial⟩
    unfold two52; simp; omega
  · intro hN
    have hres : b + 2 ^ 9 - (b + 2 ^ 9) % 2 ^ 10 = (0 <<< 63) + (1066 <<< 52) + 0 := by
      simp only [Nat.shiftLeft_eq]; omega
    rw [hres]
    obtain ⟨h1, h2, h3⟩ := fields_of_sum 0 1066 0 (by omega) (by omega) (by unfold two52; omega)
    unfold man eb
    simp only [cbv_eq', h1, h2, h3]
    exact ⟨by decide, by decide, trivial⟩

theorem round_case_43 (b f : Nat) (hf : f < 4503599627370496) (hbv : b = 1066 * 4503599627370496 + f) :
    ((4503599627370496 + f + 2 ^ 8) / 2 ^ 9 < 2 ^ 44 →
      man (round b) = (4503599627370496 + f + 2 ^ 8) / 2 ^ 9 * 2 ^ 9 ∧ eb (round b) = 3991 ∧ sgn (round b) = 0) ∧
    ((4503599627370496 + f + 2 ^ 8) / 2 ^ 9 = 2 ^ 44 → man (round b) = 4503599627370496 ∧ eb (round b) = 3992 ∧ sgn (round b) = 0) := by
  have hb : bexp b = 1066 ∧ frac b = f ∧ sgn b = 0 := by
    have := fields_of_sum 0 1066 f (by omega) (by omega) (by unfold two52; omega)
    have e : b = (0 <<< 63) + (1066 <<< 52) + f := by simp only [Nat.shiftLeft_eq]; omega
    rw [e]; exact ⟨this.2.1, this.2.2, this.1⟩
  have hr : round b = b + 2 ^ 8 - (b + 2 ^ 8) % 2 ^ 9 := by
    unfold round
    simp only [cbv_eq', hb.1]
    have hm : (4503599627370495 >>> (1066 - 1023) : Nat) = 2 ^ 9 - 1 := by decide
    have hh : ((1 <<< 51) >>> (1066 - 1023) : Nat) = 2 ^ 8 := by decide
    simp only [hm, hh, Nat.and_two_pow_sub_one_eq_mod]
    simp
  rw [hr]
  constructor
  · intro hN
    have hF : (f + 2 ^ 8) / 2 ^ 9 * 2 ^ 9 < two52 := by unfold two52; omega
    have hres : b + 2 ^ 8 - (b + 2 ^ 8) % 2 ^ 9 = (0 <<< 63) + (1066 <<< 52) + (f + 2 ^ 8) / 2 ^ 9 * 2 ^ 9 := by
      simp only [Nat.shiftLeft_eq]; omega
    rw [hres]
    obtain ⟨h1, h2, h3⟩ := fields_of_sum 0 1066 ((f + 2 ^ 8) / 2 ^ 9 * 2 ^ 9) (by omega) (by omega) hF
    unfold man eb
    simp only [cbv_eq', h1, h2, h3]
    refine ⟨?_, by decide, trivial⟩
    unfold two52; simp; omega
  · intro hN
    have hres : b + 2 ^ 8 - (b + 2 ^ 8) % 2 ^ 9 = (0 <<< 63) + (1067 <<< 52) + 0 := by
      simp only [Nat.shiftLeft_eq]; omega
    rw [hres]
    obtain ⟨h1, h2, h3⟩ := fields_of_sum 0 1067 0 (by omega) (by omega) (by unfold two52; omega)
    unfold man eb
    simp only [cbv_eq', h1, h2, h3]
    exact ⟨by decide, by decide, trivial⟩

theorem round_case_44 (b f : Nat) (hf : f < 4503599627370496) (hbv : b = 1067 * 4503599627370496 + f) :
    ((4503599627370496 + f + 2 ^ 7) / 2 ^ 8 < 2 ^ 45 →
      man (round b) = (4503599627370496 + f + 2 ^ 7) / 2 ^ 8 * 2 ^ 8 ∧ eb (round b) = 3992 ∧ sgn (round b) = 0) ∧
    ((4503599627370496 + f + 2 ^ 7) / 2 ^ 8 = 2 ^ 45 → man (round b) = 4503599627370496 ∧ eb (round b) = 3993 ∧ sgn (round b) = 0) := by
  have hb : bexp b = 1067 ∧ frac b = f ∧ sgn b = 0 := by
    have := fields_of_sum 0 1067 f (by omega) (by omega) (by unfold two52; omega)
    have e : b = (0 <<< 63) + (1067 <<< 52) + f := by simp only [Nat.shiftLeft_eq]; omega
    rw [e]; exact ⟨this.2.1, this.2.2, this.1⟩
  have hr : round b = b + 2 ^ 7 - (b + 2 ^ 7) % 2 ^ 8 := by
    unfold round
    simp only [cbv_eq', hb.1]
    have hm : (4503599627370495 >>> (1067 - 1023) : Nat) = 2 ^ 8 - 1 := by decide
    have hh : ((1 <<< 51) >>> (1067 - 1023) : Nat) = 2 ^ 7 := by decide
    simp only [hm, hh, Nat.and_two_pow_sub_one_eq_mod]
    simp
  rw [hr]
  constructor
  · intro hN
    have hF : (f + 2 ^ 7) / 2 ^ 8 * 2 ^ 8 < two52 := by unfold two52; omega
    have hres : b + 2 ^ 7 - (b + 2 ^ 7) % 2 ^ 8 = (0 <<< 63) + (1067 <<< 52) + (f + 2 ^ 7) / 2 ^ 8 * 2 ^ 8 := by
      simp only [Nat.shiftLeft_eq]; omega
    rw [hres]
    obtain ⟨h1, h2, h3⟩ := fields_of_sum 0 1067 ((f + 2 ^ 7) / 2 ^ 8 * 2 ^ 8) (by omega) (by omega) hF
    unfold man eb
    simp only [cbv_eq', h1, h2, h3]
    refine ⟨?_, by decide, trivial⟩
    unfold two52; simp; omega
  · intro hN
    have hres : b + 2 ^ 7 - (b + 2 ^ 7) % 2 ^ 8 = (0 <<< 63) + (1068 <<< 52) + 0 := by
      simp only [Nat.shiftLeft_eq]; omega
    rw [hres]
    obtain ⟨h1, h2, h3⟩ := fields_of_sum 0 1068 0 (by omega) (by omega) (by unfold two52; omega)
    unfold man eb
    simp only [cbv_eq', h1, h2, h3]
    exact ⟨by decide, by decide, trivial⟩

theorem round_case_45 (b f : Nat) (hf : f < 4503599627370496) (hbv : b = 1068 * 4503599627370496 + f) :
    ((4503599627370496 + f + 2 ^ 6) / 2 ^ 7 < 2 ^ 46 →
      man (round b) = (4503599627370496 + f + 2 ^ 6) / 2 ^ 7 * 2 ^ 7 ∧ eb (round b) = 3993 ∧ sgn (round b) = 0) ∧
    ((4503599627370496 + f + 2 ^ 6) / 2 ^ 7 = 2 ^ 46 → man (round b) = 4503599627370496 ∧ eb (round b) = 3994 ∧ sgn (round b) = 0) := by
  have hb : bexp b = 1068 ∧ frac b = f ∧ sgn b = 0 := by
    have := fields_of_sum 0 1068 f (by omega) (by omega) (by unfold two52; omega)
    have e : b = (0 <<< 63) + (1068 <<< 52) + f := by simp only [Nat.shiftLeft_eq]; omega
    rw [e]; exact ⟨this.2.1, this.2.2, this.1⟩
  have hr : round b = b + 2 ^ 6 - (b + 2 ^ 6) % 2 ^ 7 := by
    unfold round
    simp only [cbv_eq', hb.1]
    have hm : (4503599627370495 >>> (1068 - 1023) : Nat) = 2 ^ 7 - 1 := by decide
    have hh : ((1 <<< 51) >>> (1068 - 1023) : Nat) = 2 ^ 6 := by decide
    simp only [hm, hh, Nat.and_two_pow_sub_one_eq_mod]
    simp
  rw [hr]
  constructor
  · intro hN
    have hF : (f + 2 ^ 6) / 2 ^ 7 * 2 ^ 7 < two52 := by unfold two52; omega
    have hres : b + 2 ^ 6 - (b + 2 ^ 6) % 2 ^ 7 = (0 <<< 63) + (1068 <<< 52) + (f + 2 ^ 6) / 2 ^ 7 * 2 ^ 7 := by
      simp only [Nat.shiftLeft_eq]; omega
    rw [hres]
    obtain ⟨h1, h2, h3⟩ := fields_of_sum 0 1068 ((f + 2 ^ 6) / 2 ^ 7 * 2 ^ 7) (by omega) (by omega) hF
    unfold man eb
    simp only [cbv_eq', h1, h2, h3]
    refine ⟨?_, by decide, trivial⟩
    unfold two52; simp; omega
  · intro hN
    have hres : b + 2 ^ 6 - (b + 2 ^ 6) % 2 ^ 7 = (0 <<< 63) + (1069 <<< 52) + 0 := by
      simp only [Nat.shiftLeft_eq]; omega
    rw [hres]
    obtain ⟨h1, h2, h3⟩ := fields_of_sum 0 1069 0 (by omega) (by omega) (by unfold two52; omega)
    unfold man eb
    simp only [cbv_eq', h1, h2, h3]
    exact ⟨by decide, by decide, trivial⟩

theorem round_case_46 (b f : Nat) (hf : f < 4503599627370496) (hbv : b = 1069 * 4503599627370496 + f) :
    ((4503599627370496 + f + 2 ^ 5) / 2 ^ 6 < 2 ^ 47 →
      man (round b) = (4503599627370496 + f + 2 ^ 5) / 2 ^ 6 * 2 ^ 6 ∧ eb (round b) = 3994 ∧ sgn (round b) = 0) ∧
    ((4503599627370496 + f + 2 ^ 5) / 2 ^ 6 = 2 ^ 47 → man (round b) = 4503599627370496 ∧ eb (round b) = 3995 ∧ sgn (round b) = 0) := by
  have hb : bexp b = 1069 ∧ frac b = f ∧ sgn b = 0 := by
    have := fields_of_sum 0 1069 f (by omega) (by omega) (by unfold two52; omega)
    have e : b = (0 <<< 63) + (1069 <<< 52) + f := by simp only [Nat.shiftLeft_eq]; omega
    rw [e]; exact ⟨this.2.1, this.2.2, this.1⟩
  have hr : round b = b + 2 ^ 5 - (b + 2 ^ 5) % 2 ^ 6 := by
    unfold round
    simp only [cbv_eq', hb.1]
    have hm : (4503599627370495 >>> (1069 - 1023) : Nat) = 2 ^ 6 - 1 := by decide
    have hh : ((1 <<< 51) >>> (1069 - 1023) : Nat) = 2 ^ 5 := by decide
    simp only [hm, hh, Nat.and_two_pow_sub_one_eq_mod]
    simp
  rw [hr]
  constructor
  · intro hN
    have hF : (f + 2 ^ 5) / 2 ^ 6 * 2 ^ 6 < two52 := by unfold two52; omega
    have hres : b + 2 ^ 5 - (b + 2 ^ 5) % 2 ^ 6 = (0 <<< 63) + (1069 <<< 52) + (f + 2 ^ 5) / 2 ^ 6 * 2 ^ 6 := by
      simp only [Nat.shiftLeft_eq]; omega
    rw [hres]
    obtain ⟨h1, h2, h3⟩ := fields_of_sum 0 1069 ((f + 2 ^ 5) / 2 ^ 6 * 2 ^ 6) (by omega) (by omega) hF
    unfold man eb
    simp only [cbv_eq', h1, h2, h3]
    refine ⟨?_, by decide, trivial⟩
    unfold two52; simp; omega
  · intro hN
    have hres : b + 2 ^ 5 - (b + 2 ^ 5) % 2 ^ 6 = (0 <<< 63) + (1070 <<< 52) + 0 := by
      simp only [Nat.shiftLeft_eq]; omega
    rw [hres]
    obtain ⟨h1, h2, h3⟩ := fields_of_sum 0 1070 0 (by omega) (by omega) (by unfold two52; omega)
    unfold man eb
    simp only [cbv_eq', h1, h2, h3]
    exact ⟨by decide, by decide, trivial⟩

theorem round_case_47 (b f : Nat) (hf : f < 4503599627370496) (hbv : b = 1070 * 4503599627370496 + f) :
    ((4503599627370496 + f + 2 ^ 4) / 2 ^ 5 < 2 ^ 48 →
      man (round b) = (4503599627370496 + f + 2 ^ 4) / 2 ^ 5 * 2 ^ 5 ∧ eb (round b) = 3995 ∧ sgn (round b) = 0) ∧
    ((4503599627370496 + f + 2 ^ 4) / 2 ^ 5 = 2 ^ 48 → man (round b) = 4503599627370496 ∧ eb (round b) = 3996 ∧ sgn (round b) = 0) := by
  have hb : bexp b = 1070 ∧ frac b = f ∧ sgn b = 0 := by
    have := fields_of_sum 0 1070 f (by omega) (by omega) (by unfold two52; omega)
    have e : b = (0 <<< 63) + (1070 <<< 52) + f := by simp only [Nat.shiftLeft_eq]; omega
    rw [e]; exact ⟨this.2.1, this.2.2, this.1⟩
  have hr : round b = b + 2 ^ 4 - (b + 2 ^ 4) % 2 ^ 5 := by
    unfold round
    simp only [cbv_eq', hb.1]
    have hm : (4503599627370495 >>> (1070 - 1023) : Nat) = 2 ^ 5 - 1 := by decide
    have hh : ((1 <<< 51) >>> (1070 - 1023) : Nat) = 2 ^ 4 := by decide
    simp only [hm, hh, Nat.and_two_pow_sub_one_eq_mod]
    simp
  rw [hr]
  constructor
  · intro hN
    have hF : (f + 2 ^ 4) / 2 ^ 5 * 2 ^ 5 < two52 := by unfold two52; omega
    have hres : b + 2 ^ 4 - (b + 2 ^ 4) % 2 ^ 5 = (0 <<< 63) + (1070 <<< 52) + (f + 2 ^ 4) / 2 ^ 5 * 2 ^ 5 := by
      simp only [Nat.shiftLeft_eq]; omega
    rw [hres]
    obtain ⟨h1, h2, h3⟩ := fields_of_sum 0 1070 ((f + 2 ^ 4) / 2 ^ 5 * 2 ^ 5) (by omega) (by omega) hF
    unfold man eb
    simp only [cbv_eq', h1, h2, h3]
    refine ⟨?_, by decide, trivial⟩
    unfold two52; simp; omega
  · intro hN
    have hres : b + 2 ^ 4 - (b + 2 ^ 4) % 2 ^ 5 = (0 <<< 63) + (1071 <<< 52) + 0 := by
      simp only [Nat.shiftLeft_eq]; omega
    rw [hres]
    obtain ⟨h1, h2, h3⟩ := fields_of_sum 0 1071 0 (by omega) (by omega) (by unfold two52; omega)
    unfold man eb
    simp only [cbv_eq', h1, h2, h3]
    exact ⟨by decide, by decide, trivial⟩

theorem round_case_48 (b f : Nat) (hf : f < 4503599627370496) (hbv : b = 1071 * 4503599627370496 + f) :
    ((4503599627370496 + f + 2 ^ 3) / 2 ^ 4 < 2 ^ 49 →
      man (round b) = (4503599627370496 + f + 2 ^ 3) / 2 ^ 4 * 2 ^ 4 ∧ eb (round b) = 3996 ∧ sgn (round b) = 0) ∧
    ((4503599627370496 + f + 2 ^ 3) / 2 ^ 4 = 2 ^ 49 → man (round b) = 4503599627370496 ∧ eb (round b) = 3997 ∧ sgn (round b) = 0) := by
  have hb : bexp b = 1071 ∧ frac b = f ∧ sgn b = 0 := by
    have := fields_of_sum 0 1071 f (by omega) (by omega) (by unfold two52; omega)
    have e : b = (0 <<< 63) + (1071 <<< 52) + f := by simp only [Nat.shiftLeft_eq]; omega
    rw [e]; exact ⟨this.2.1, this.2.2, this.1⟩
  have hr : round b = b + 2 ^ 3 - (b + 2 ^ 3) % 2 ^ 4 := by
    unfold round
    simp only [cbv_eq', hb.1]
    have hm : (4503599627370495 >>> (1071 - 1023) : Nat) = 2 ^ 4 - 1 := by decide
    have hh : ((1 <<< 51) >>> (1071 - 1023) : Nat) = 2 ^ 3 := by decide
    simp only [hm, hh, Nat.and_two_pow_sub_one_eq_mod]
    simp
  rw [hr]
  constructor
  · intro hN
    have hF : (f + 2 ^ 3) / 2 ^ 4 * 2 ^ 4 < two52 := by unfold two52; omega
    have hres : b + 2 ^ 3 - (b + 2 ^ 3) % 2 ^ 4 = (0 <<< 63) + (1071 <<< 52) + (f + 2 ^ 3) / 2 ^ 4 * 2 ^ 4 := by
      simp only [Nat.shiftLeft_eq]; omega
    rw [hres]
    obtain ⟨h1, h2, h3⟩ := fields_of_sum 0 1071 ((f + 2 ^ 3) / 2 ^ 4 * 2 ^ 4) (by omega) (by omega) hF
    unfold man eb
    simp only [cbv_eq', h1, h2, h3]
    refine ⟨?_, by decide, trivial⟩
    unfold two52; simp; omega
  · intro hN
    have hres : b + 2 ^ 3 - (b + 2 ^ 3) % 2 ^ 4 = (0 <<< 63) + (1072 <<< 52) + 0 := by
      simp only [Nat.shiftLeft_eq]; omega
    rw [hres]
    obtain ⟨h1, h2, h3⟩ := fields_of_sum 0 1072 0 (by omega) (by omega) (by unfold two52; omega)
    unfold man eb
    simp only [cbv_eq', h1, h2, h3]
    exact ⟨by decide, by decide, trivial⟩

theorem round_case_49 (b f : Nat) (hf : f < 4503599627370496) (hbv : b = 1072 * 4503599627370496 + f) :
    ((4503599627370496 + f + 2 ^ 2) / 2 ^ 3 < 2 ^ 50 →
      man (round b) = (4503599627370496 + f + 2 ^ 2) / 2 ^ 3 * 2 ^ 3 ∧ eb (round b) = 3997 ∧ sgn (round b) = 0) ∧
    ((4503599627370496 + f + 2 ^ 2) / 2 ^ 3 = 2 ^ 50 → man (round b) = 4503599627370496 ∧ eb (round b) = 3998 ∧ sgn (round b) = 0) := by
  have hb : bexp b = 1072 ∧ frac b = f ∧ sgn b = 0 := by
    have := fields_of_sum 0 1072 f (by omega) (by omega) (by unfold two52; omega)
    have e : b = (0 <<< 63) + (1072 <<< 52) + f := by simp only [Nat.shiftLeft_eq]; omega
    rw [e]; exact ⟨this.2.1, this.2.2, this.1⟩
  have hr : round b = b + 2 ^ 2 - (b + 2 ^ 2) % 2 ^ 3 := by
    unfold round
    simp only [cbv_eq', hb.1]
    have hm : (4503599627370495 >>> (1072 - 1023) : Nat) = 2 ^ 3 - 1 := by decide
    have hh : ((1 <<< 51) >>> (1072 - 1023) : Nat) = 2 ^ 2 := by decide
    simp only [hm, hh, Nat.and_two_pow_sub_one_eq_mod]
    simp
  rw [hr]
  constructor
  · intro hN
    have hF : (f + 2 ^ 2) / 2 ^ 3 * 2 ^ 3 < two52 := by unfold two52; omega
    have hres : b + 2 ^ 2 - (b + 2 ^ 2) % 2 ^ 3 = (0 <<< 63) + (1072 <<< 52) + (f + 2 ^ 2) / 2 ^ 3 * 2 ^ 3 := by
      simp only [Nat.shiftLeft_eq]; omega
    rw [hres]
    obtain ⟨h1, h2, h3⟩ := fields_of_sum 0 1072 ((f + 2 ^ 2) / 2 ^ 3 * 2 ^ 3) (by omega) (by omega) hF
    unfold man eb
    simp only [cbv_eq', h1, h2, h3]
    refine ⟨?_, by decide, trivial⟩
    unfold two52; simp; omega
  · intro hN
    have hres : b + 2 ^ 2 - (b + 2 ^ 2) % 2 ^ 3 = (0 <<< 63) + (1073 <<< 52) + 0 := by
      simp only [Nat.shiftLeft_eq]; omega
    rw [hres]
    obtain ⟨h1, h2, h3⟩ := fields_of_sum 0 1073 0 (by omega) (by omega) (by unfold two52; omega)
    unfold man eb
    simp only [cbv_eq', h1, h2, h3]
    exact ⟨by decide, by decide, trivial⟩

theorem round_case_50 (b f : Nat) (hf : f < 4503599627370496) (hbv : b = 1073 * 4503599627370496 + f) :
    ((4503599627370496 + f + 2 ^ 1) / 2 ^ 2 < 2 ^ 51 →
      man (round b) = (4503599627370496 + f + 2 ^ 1) / 2 ^ 2 * 2 ^ 2 ∧ eb (round b) = 3998 ∧ sgn (round b) = 0) ∧
    ((4503599627370496 + f + 2 ^ 1) / 2 ^ 2 = 2 ^ 51 → man (round b) = 4503599627370496 ∧ eb (round b) = 3999 ∧ sgn (round b) = 0) := by
  have hb : bexp b = 1073 ∧ frac b = f ∧ sgn b = 0 := by
    have := fields_of_sum 0 1073 f (by omega) (by omega) (by unfold two52; omega)
    have e : b = (0 <<< 63) + (1073 <<< 52) + f := by simp only [Nat.shiftLeft_eq]; omega
    rw [e]; exact ⟨this.2.1, this.2.2, this.1⟩
  have hr : round b = b + 2 ^ 1 - (b + 2 ^ 1) % 2 ^ 2 := by
    unfold round
    simp only [cbv_eq', hb.1]
    have hm : (4503599627370495 >>> (1073 - 1023) : Nat) = 2 ^ 2 - 1 := by decide
    have hh : ((1 <<< 51) >>> (1073 - 1023) : Nat) = 2 ^ 1 := by decide
    simp only [hm, hh, Nat.and_two_pow_sub_one_eq_mod]
    simp
  rw [hr]
  constructor
  · intro hN
    have hF : (f + 2 ^ 1) / 2 ^ 2 * 2 ^ 2 < two52 := by unfold two52; omega
    have hres : b + 2 ^ 1 - (b + 2 ^ 1) % 2 ^ 2 = (0 <<< 63) + (1073 <<< 52) + (f + 2 ^ 1) / 2 ^ 2 * 2 ^ 2 := by
      simp only [Nat.shiftLeft_eq]; omega
    rw [hres]
    obtain ⟨h1, h2, h3⟩ := fields_of_sum 0 1073 ((f + 2 ^ 1) / 2 ^ 2 * 2 ^ 2) (by omega) (by omega) hF
    unfold man eb
    simp only [cbv_eq', h1, h2, h3]
    refine ⟨?_, by decide, trivial⟩
    unfold two52; simp; omega
  · intro hN
    have hres : b + 2 ^ 1 - (b + 2 ^ 1) % 2 ^ 2 = (0 <<< 63) + (1074 <<< 52) + 0 := by
      simp only [Nat.shiftLeft_eq]; omega
    rw [hres]
    obtain ⟨h1, h2, h3⟩ := fields_of_sum 0 1074 0 (by omega) (by omega) (by unfold two52; omega)
    unfold man eb
    simp only [cbv_eq', h1, h2, h3]
    exact ⟨by decide, by decide, trivial⟩

theorem round_case_51 (b f : Nat) (hf : f < 4503599627370496) (hbv : b = 1074 * 4503599627370496 + f) :
    ((4503599627370496 + f + 2 ^ 0) / 2 ^ 1 < 2 ^ 52 →
      man (round b) = (4503599627370496 + f + 2 ^ 0) / 2 ^ 1 * 2 ^ 1 ∧ eb (round b) = 3999 ∧ sgn (round b) = 0) ∧
    ((4503599627370496 + f + 2 ^ 0) / 2 ^ 1 = 2 ^ 52 → man (round b) = 4503599627370496 ∧ eb (round b) = 4000 ∧ sgn (round b) = 0) := by
  have hb : bexp b = 1074 ∧ frac b = f ∧ sgn b = 0 := by
    have := fields_of_sum 0 1074 f (by omega) (by omega) (by unfold two52; omega)
    have e : b = (0 <<< 63) + (1074 <<< 52) + f := by simp only [Nat.shiftLeft_eq]; omega
    rw [e]; exact ⟨this.2.1, this.2.2, this.1⟩
  have hr : round b = b + 2 ^ 0 - (b + 2 ^ 0) % 2 ^ 1 := by
    unfold round
    simp only [cbv_eq', hb.1]
    have hm : (4503599627370495 >>> (1074 - 1023) : Nat) = 2 ^ 1 - 1 := by decide
    have hh : ((1 <<< 51) >>> (1074 - 1023) : Nat) = 2 ^ 0 := by decide
    simp only [hm, hh, Nat.and_two_pow_sub_one_eq_mod]
    simp
  rw [hr]
  constructor
  · intro hN
    have hF : (f + 2 ^ 0) / 2 ^ 1 * 2 ^ 1 < two52 := by unfold two52; omega
    have hres : b + 2 ^ 0 - (b + 2 ^ 0) % 2 ^ 1 = (0 <<< 63) + (1074 <<< 52) + (f + 2 ^ 0) / 2 ^ 1 * 2 ^ 1 := by
      simp only [Nat.shiftLeft_eq]; omega
    rw [hres]
    obtain ⟨h1, h2, h3⟩ := fields_of_sum 0 1074 ((f + 2 ^ 0) / 2 ^ 1 * 2 ^ 1) (by omega) (by omega) hF
    unfold man eb
    simp only [cbv_eq', h1, h2, h3]
    refine ⟨?_, by decide, trivial⟩
    unfold two52; simp; omega
  · intro hN
    have hres : b + 2 ^ 0 - (b + 2 ^ 0) % 2 ^ 1 = (0 <<< 63) + (1075 <<< 52) + 0 := by
      simp only [Nat.shiftLeft_eq]; omega
    rw [hres]
    obtain ⟨h1, h2, h3⟩ := fields_of_sum 0 1075 0 (by omega) (by omega) (by unfold two52; omega)
    unfold man eb
    simp only [cbv_eq', h1, h2, h3]
    exact ⟨by decide, by decide, trivial⟩

/-- **`round` is `math.Round` on [1, 2^52).**  For every unbiased exponent k < 52 and fraction f < 2^52, on the pattern
    b = (1023+k)·2^52 + f (the positive double (2^52+f)·2^(k−52)), with N = ⌊(2^52+f)/2^(52−k) + 1/2⌋ the value rounded half away from
    zero: `round b` has significand N·2^(52−k) at the same unit exponent (value N), or — when N = 2^(k+1) — significand 2^52 one exponent
    up (value 2^(k+1)); the sign stays positive. -/
theorem round_pos (k : Nat) (hk : k < 52) (b f : Nat) (hf : f < 4503599627370496) (hbv : b = (1023 + k) * 4503599627370496 + f) :
    ((4503599627370496 + f + 2 ^ (52 - k - 1)) / 2 ^ (52 - k) < 2 ^ (k + 1) →
      man (round b) = (4503599627370496 + f + 2 ^ (52 - k - 1)) / 2 ^ (52 - k) * 2 ^ (52 - k) ∧ eb (round b) = 3948 + k ∧ sgn (round b) = 0) ∧
    ((4503599627370496 + f + 2 ^ (52 - k - 1)) / 2 ^ (52 - k) = 2 ^ (k + 1) →
      man (round b) = 4503599627370496 ∧ eb (round b) = 3949 + k ∧ sgn (round b) = 0) := by
  have hcases : k = 0 ∨ k = 1 ∨ k = 2 ∨ k = 3 ∨ k = 4 ∨ k = 5 ∨ k = 6 ∨ k = 7 ∨ k = 8 ∨ k = 9 ∨ k = 10 ∨ k = 11 ∨ k = 12 ∨ k = 13 ∨ k = 14 ∨ k = 15 ∨ k = 16 ∨ k = 17 ∨ k = 18 ∨ k = 19 ∨ k = 20 ∨ k = 21 ∨ k = 22 ∨ k = 23 ∨ k = 24 ∨ k = 25 ∨ k = 26 ∨ k = 27 ∨ k = 28 ∨ k = 29 ∨ k = 30 ∨ k = 31 ∨ k = 32 ∨ k = 33 ∨ k = 34 ∨ k = 35 ∨ k = 36 ∨ k = 37 ∨ k = 38 ∨ k = 39 ∨ k = 40 ∨ k = 41 ∨ k = 42 ∨ k = 43 ∨ k = 44 ∨ k = 45 ∨ k = 46 ∨ k = 47 ∨ k = 48 ∨ k = 49 ∨ k = 50 ∨ k = 51 := by omega
  rcases hcases with rfl | rfl | rfl | rfl | rfl | rfl | rfl | rfl | rfl | rfl | rfl | rfl | rfl | rfl | rfl | rfl | rfl | rfl | rfl | rfl | rfl | rfl | rfl | rfl | rfl | rfl | rfl | rfl | rfl | rfl | rfl | rfl | rfl | rfl | rfl | rfl | rfl | rfl | rfl | rfl | rfl | rfl | rfl | rfl | rfl | rfl | rfl | rfl | rfl | rfl | rfl | rfl
  · exact round_case_0 b f hf hbv
  · exact round_case_1 b f hf hbv
  · exact round_case_2 b f hf hbv
  · exact round_case_3 b f hf hbv
  · exact round_case_4 b f hf hbv
  · exact round_case_5 b f hf hbv
  · exact round_case_6 b f hf hbv
  · exact round_case_7 b f hf hbv
  · exact round_case_8 b f hf hbv
  · exact round_case_9 b f hf hbv
  · exact round_case_10 b f hf hbv
  · exact round_case_11 b f hf hbv
  · exact round_case_12 b f hf hbv
  · exact round_case_13 b f hf hbv
  · exact round_case_14 b f hf hbv
  · exact round_case_15 b f hf hbv
  · exact round_case_16 b f hf hbv
  · exact round_case_17 b f hf hbv
  · exact round_case_18 b f hf hbv
  · exact round_case_19 b f hf hbv
  · exact round_case_20 b f hf hbv
  · exact round_case_21 b f hf hbv
  · exact round_case_22 b f hf hbv
  · exact round_case_23 b f hf hbv
  · exact round_case_24 b f hf hbv
  · exact round_case_25 b f hf hbv
  · exact round_case_26 b f hf hbv
  · exact round_case_27 b f hf hbv
  · exact round_case_28 b f hf hbv
  · exact round_case_29 b f hf hbv
  · exact round_case_30 b f hf hbv
  · exact round_case_31 b f hf hbv
  · exact round_case_32 b f hf hbv
  · exact round_case_33 b f hf hbv
  · exact round_case_34 b f hf hbv
  · exact round_case_35 b f hf hbv
  · exact round_case_36 b f hf hbv
  · exact round_case_37 b f hf hbv
  · exact round_case_38 b f hf hbv
  · exact round_case_39 b f hf hbv
  · exact round_case_40 b f hf hbv
  · exact round_case_41 b f hf hbv
  · exact round_case_42 b f hf hbv
  · exact round_case_43 b f hf hbv
  · exact round_case_44 b f hf hbv
  · exact round_case_45 b f hf hbv
  · exact round_case_46 b f hf hbv
  · exact round_case_47 b f hf hbv
  · exact round_case_48 b f hf hbv
  · exact round_case_49 b f hf hbv
  · exact round_case_50 b f hf hbv
  · exact round_case_51 b f hf hbv

/-- below one half `round` gives (signed) zero, from one half up to one it gives (signed) one, and from 2^52 on — where every double is an
    integer — it returns its argument -/
theorem round_small_and_large (b : Nat) :
    (bexp b < 1022 → round b = sgn b <<< 63) ∧ (bexp b = 1022 → round b = (sgn b <<< 63) + one) ∧ (1075 ≤ bexp b → round b = b) := by
  refine ⟨fun h => ?_, fun h => ?_, fun h => ?_⟩
  · unfold round; simp only [cbv_eq']
    have h1 : bexp b < 1023 := by omega
    have h2 : ¬ bexp b = 1022 := by omega
    simp [h1, h2]
  · unfold round; simp only [cbv_eq']; simp [h]
  · unfold round; simp only [cbv_eq']
    have h1 : ¬ bexp b < 1023 := by omega
    have h2 : ¬ bexp b < 1075 := by omega
    simp [h1, h2]

end CvssVerif.F64
