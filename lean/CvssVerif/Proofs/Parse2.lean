import CvssVerif.Model.V2
import CvssVerif.Spec.Grammar2
/-
  The v2 decoder, token by token: the vocabulary of valid tokens, the exact behaviour of
  `decodeOne` on and off the vocabulary, and the fold invariant of the token loop.
  Core Lean only.
-/
namespace CvssVerif.V2
open CvssVerif

/-! ### list facts -/

theorem split_pair {a b : Bytes} (ha : colon ∉ a) (hb : colon ∉ b) :
    split colon (a ++ colon :: b) = [a, b] := by
  unfold split
  rw [List.splitOn_append_cons_self_of_not_mem ha, List.splitOn_eq_singleton hb]

theorem tok_of_split {t n v : Bytes} (h : split colon t = [n, v]) : t = n ++ colon :: v := by
  have := List.intercalate_splitOn (xs := t) colon
  unfold split at h
  rw [h] at this
  simpa [List.intercalate] using this.symm

/-! ### the vocabulary -/

/-- a valid token of the grammar: metric, enumeration value, code -/
structure Ent where
  m : M2
  x : Int
  c : Bytes
  deriving DecidableEq

def Ent.tok (e : Ent) : Bytes := e.m.spec.name ++ colon :: e.c

/-- every (metric, value, code) a decoder of level `L` accepts -/
def vocab (L : Level) : List Ent :=
  (msOf L).flatMap fun m => m.spec.codes.map fun p => ⟨m, p.1, p.2⟩

theorem mem_vocab {L : Level} {e : Ent} :
    e ∈ vocab L ↔ e.m ∈ msOf L ∧ (e.x, e.c) ∈ e.m.spec.codes := by
  unfold vocab
  simp only [List.mem_flatMap, List.mem_map]
  constructor
  · rintro ⟨m, hm, p, hp, rfl⟩; exact ⟨hm, hp⟩
  · rintro ⟨hm, hp⟩; exact ⟨e.m, hm, (e.x, e.c), hp, rfl⟩

theorem mem_all (m : M2) : m ∈ M2.all := by cases m <;> decide

theorem msOf_sub {L : Level} {m : M2} (h : m ∈ msOf L) : m.spec.level.le L = true := by
  unfold msOf at h
  exact (List.mem_filter.mp h).2

theorem mem_msOf {L : Level} {m : M2} (h : m.spec.level.le L = true) : m ∈ msOf L := by
  unfold msOf
  exact List.mem_filter.mpr ⟨mem_all m, h⟩

/-! table side conditions (each decided on the 14 tables): names and codes are non-empty and
    free of ':' and '/', values are not the unknown value 0, codes and values are unambiguous
    per metric, table values pass the validity predicate, names are unambiguous -/
theorem name_ne_nil (m : M2) : m.spec.name ≠ [] := by cases m <;> decide
theorem colon_not_mem_name (m : M2) : colon ∉ m.spec.name := by cases m <;> decide
theorem slash_not_mem_name (m : M2) : slash ∉ m.spec.name := by cases m <;> decide
theorem codes_nodup (m : M2) : (m.spec.codes.map (·.2)).Nodup := by cases m <;> decide
theorem values_nodup (m : M2) : (m.spec.codes.map (·.1)).Nodup := by cases m <;> decide
theorem code_facts (m : M2) : ∀ p ∈ m.spec.codes,
    p.1 ≠ 0 ∧ p.2 ≠ [] ∧ colon ∉ p.2 ∧ slash ∉ p.2 := by
  cases m <;> decide
theorem names_inj {m m' : M2} (h : m.spec.name = m'.spec.name) : m = m' := by
  cases m <;> cases m' <;> first | rfl | exact absurd h (by decide)

/-! ### `find?` helpers -/

theorem find?_unique {α : Type} {p : α → Bool} {l : List α} {a : α} (ha : a ∈ l) (hp : p a = true)
    (hu : ∀ x ∈ l, p x = true → x = a) : l.find? p = some a := by
  induction l with
  | nil => cases ha
  | cons y ys ih =>
    rw [List.find?_cons]
    cases hy : p y
    · simp only
      rcases List.mem_cons.mp ha with rfl | ha'
      · rw [hp] at hy; cases hy
      · exact ih ha' (fun x hx => hu x (List.mem_cons_of_mem _ hx))
    · simp only
      rw [hu y (List.mem_cons_self) hy]

theorem nodup_map_inj {α β : Type} {f : α → β} {l : List α} (h : (l.map f).Nodup) {a b : α}
    (ha : a ∈ l) (hb : b ∈ l) (hab : f a = f b) : a = b := by
  induction l with
  | nil => cases ha
  | cons y ys ih =>
    rw [List.map_cons, List.nodup_cons] at h
    rcases List.mem_cons.mp ha with rfl | ha' <;> rcases List.mem_cons.mp hb with rfl | hb'
    · rfl
    · exact absurd (List.mem_map.mpr ⟨b, hb', hab.symm⟩) h.1
    · exact absurd (List.mem_map.mpr ⟨a, ha', hab⟩) h.1
    · exact ih h.2 ha' hb'

theorem findMetric_name {L : Level} {m : M2} (hm : m ∈ msOf L) : findMetric L m.spec.name = some m := by
  unfold findMetric
  apply find?_unique hm (by simp)
  intro x _ hx
  exact names_inj (by simpa using hx)

theorem findMetric_some {L : Level} {n : Bytes} {m : M2} (h : findMetric L n = some m) :
    m ∈ msOf L ∧ m.spec.name = n := by
  unfold findMetric at h
  exact ⟨List.mem_of_find?_eq_some h, by simpa using List.find?_some h⟩

theorem get_code {m : M2} {x : Int} {c : Bytes} (h : (x, c) ∈ m.spec.codes) : m.spec.get c = x := by
  unfold Metric.get
  have : m.spec.codes.find? (fun p => p.2 == c) = some (x, c) := by
    apply find?_unique h (by simp)
    intro q hq hqc
    exact nodup_map_inj (codes_nodup m) hq h (by simpa using hqc)
  rw [this]

theorem get_ne_zero {m : M2} {v : Bytes} (h : m.spec.get v ≠ 0) : (m.spec.get v, v) ∈ m.spec.codes := by
  unfold Metric.get at h ⊢
  cases hf : m.spec.codes.find? (fun p => p.2 == v) with
  | none => rw [hf] at h; exact absurd rfl h
  | some p =>
    have hm := List.mem_of_find?_eq_some hf
    have hv : p.2 = v := by simpa using List.find?_some hf
    rw [← hv]; exact hm

theorem str_value {m : M2} {x : Int} {c : Bytes} (h : (x, c) ∈ m.spec.codes) : m.spec.str x = c := by
  unfold Metric.str
  have : m.spec.codes.find? (fun p => p.1 == x) = some (x, c) := by
    apply find?_unique h (by simp)
    intro q hq hqc
    exact nodup_map_inj (values_nodup m) hq h (by simpa using hqc)
  rw [this]

/-! ### `decodeOne` on and off the vocabulary -/

/-- what applying a valid token does to the object -/
def Obj2.apply (o : Obj2) (e : Ent) : Obj2 := (o.set e.m e.x).mark e.m

/-- on a valid token: same-metric if the metric was already named, otherwise the field is set
    and the name recorded -/
theorem decodeOne_vocab {L : Level} {e : Ent} (he : e ∈ vocab L) (o : Obj2) :
    decodeOne L o e.tok = if o.named e.m then (o, some .sameMetric) else (o.apply e, none) := by
  obtain ⟨hm, hp⟩ := mem_vocab.mp he
  obtain ⟨hx, hc, hcc, _⟩ := code_facts e.m _ hp
  unfold decodeOne Ent.tok
  rw [split_pair (colon_not_mem_name e.m) hcc]
  simp only [name_ne_nil e.m, hc, or_self, if_false, findMetric_name hm, get_code hp]
  have hx' : e.x ≠ 0 := hx
  split
  · rfl
  · rfl

/-- a token `decodeOne` accepts is a vocabulary token whose metric was not yet named -/
theorem decodeOne_ok {L : Level} {o o' : Obj2} {t : Bytes} (h : decodeOne L o t = (o', none)) :
    ∃ e ∈ vocab L, t = e.tok ∧ o.named e.m = false ∧ o' = o.apply e := by
  unfold decodeOne at h
  split at h
  · rename_i n v hs
    split at h
    · cases h
    · split at h
      · cases h
      · rename_i m hm
        obtain ⟨hmem, hname⟩ := findMetric_some hm
        split at h
        · cases h
        · rename_i hnamed
          simp only at h
          split at h
          · cases h
          · rename_i hx
            refine ⟨⟨m, m.spec.get v, v⟩, mem_vocab.mpr ⟨hmem, get_ne_zero hx⟩, ?_, by simpa using hnamed, ?_⟩
            · unfold Ent.tok; simp only [hname]; exact tok_of_split hs
            · exact (Prod.mk.inj h).1.symm
  · cases h

/-! ### the token loop -/

def runEnts (o : Obj2) (es : List Ent) : Obj2 := es.foldl Obj2.apply o

/-- the metrics of `es` are pairwise different and not yet named in `o` -/
def FreshSeq (o : Obj2) (es : List Ent) : Prop :=
  (es.map (·.m)).Nodup ∧ ∀ e ∈ es, o.named e.m = false

theorem apply_named (o : Obj2) (e : Ent) (m : M2) :
    (o.apply e).named m = (decide (m = e.m) || o.named m) := by
  unfold Obj2.apply Obj2.mark Obj2.set
  by_cases h : m = e.m <;> simp [h]

theorem apply_field (o : Obj2) (e : Ent) (m : M2) :
    (o.apply e).field m = if m = e.m then e.x else o.field m := by
  unfold Obj2.apply Obj2.mark Obj2.set
  rfl

theorem loop_last_some (L : Level) (x : Err) (ts : List Bytes) (o : Obj2) :
    (decodeLoop L o (some x) ts).2 ≠ none := by
  induction ts generalizing o x with
  | nil => simp [decodeLoop]
  | cons t ts ih =>
    unfold decodeLoop
    split
    · exact ih _ _
    · exact ih _ _
    · simp

/-- the loop accepts exactly the sequences of valid tokens with fresh, pairwise different
    metrics, and then the receiver is the fold of their assignments -/
theorem loop_ok_iff (L : Level) (toks : List Bytes) (o o' : Obj2) :
    decodeLoop L o none toks = (o', none) ↔
      ∃ es : List Ent, (∀ e ∈ es, e ∈ vocab L) ∧ toks = es.map Ent.tok ∧ FreshSeq o es ∧ o' = runEnts o es := by
  induction toks generalizing o with
  | nil =>
    constructor
    · intro h
      simp only [decodeLoop, Prod.mk.injEq, and_true] at h
      exact ⟨[], by simp, rfl, ⟨by simp, by simp⟩, h.symm⟩
    · rintro ⟨es, _, hts, _, ho⟩
      have : es = [] := by simpa using hts.symm
      subst this
      simp [decodeLoop, ho, runEnts]
  | cons t ts ih =>
    constructor
    · intro h
      unfold decodeLoop at h
      split at h
      · rename_i o1 h1
        obtain ⟨e, he, rfl, hn, rfl⟩ := decodeOne_ok h1
        obtain ⟨es, hes, rfl, ⟨hnd, hfr⟩, rfl⟩ := (ih _).mp h
        refine ⟨e :: es, ?_, rfl, ⟨?_, ?_⟩, rfl⟩
        · intro e' he'
          rcases List.mem_cons.mp he' with rfl | h'
          · exact he
          · exact hes _ h'
        · rw [List.map_cons, List.nodup_cons]
          refine ⟨?_, hnd⟩
          intro hmem
          obtain ⟨e', he', hm'⟩ := List.mem_map.mp hmem
          have := hfr e' he'
          rw [apply_named] at this
          simp [hm'] at this
        · intro e' he'
          rcases List.mem_cons.mp he' with rfl | h'
          · exact hn
          · have := hfr e' h'
            rw [apply_named] at this
            simp only [Bool.or_eq_false_iff] at this
            exact this.2
      · exact absurd (congrArg Prod.snd h) (loop_last_some L _ ts _)
      · cases h
    · rintro ⟨es, hes, hts, ⟨hnd, hfr⟩, rfl⟩
      cases es with
      | nil => cases hts
      | cons e es =>
        simp only [List.map_cons, List.cons.injEq] at hts
        obtain ⟨rfl, rfl⟩ := hts
        unfold decodeLoop
        rw [decodeOne_vocab (hes e List.mem_cons_self), hfr e List.mem_cons_self]
        simp only [Bool.false_eq_true, if_false]
        apply (ih _).mpr
        rw [List.map_cons, List.nodup_cons] at hnd
        refine ⟨es, fun e' h' => hes e' (List.mem_cons_of_mem _ h'), rfl, ⟨hnd.2, ?_⟩, rfl⟩
        intro e' he'
        rw [apply_named]
        have h1 := hfr e' (List.mem_cons_of_mem _ he')
        have h2 : e'.m ≠ e.m := fun heq => hnd.1 (List.mem_map.mpr ⟨e', he', heq⟩)
        simp [h1, h2]

theorem run_named (o : Obj2) (es : List Ent) (m : M2) :
    (runEnts o es).named m = (o.named m || es.any (fun e => decide (m = e.m))) := by
  induction es generalizing o with
  | nil => simp [runEnts]
  | cons e es ih =>
    unfold runEnts
    rw [List.foldl_cons]
    have := ih (o.apply e)
    unfold runEnts at this
    rw [this, apply_named, List.any_cons]
    cases o.named m <;> cases decide (m = e.m) <;> simp

/-- the field of a metric after the run: the value of the (only) entry for it, else unchanged -/
theorem run_field (o : Obj2) (es : List Ent) (hnd : (es.map (·.m)).Nodup) (m : M2) :
    (runEnts o es).field m = match es.find? (fun e => decide (e.m = m)) with
      | some e => e.x
      | none => o.field m := by
  induction es generalizing o with
  | nil => simp [runEnts]
  | cons e es ih =>
    rw [List.map_cons, List.nodup_cons] at hnd
    unfold runEnts; rw [List.foldl_cons]
    have := ih (o.apply e) hnd.2; unfold runEnts at this
    rw [this, List.find?_cons]
    by_cases hm : e.m = m
    · simp only [hm, decide_true]
      have hnone : es.find? (fun e' => decide (e'.m = m)) = none := by
        rw [List.find?_eq_none]
        intro e' he' hdec
        have : e'.m = m := by simpa using hdec
        exact hnd.1 (List.mem_map.mpr ⟨e', he', this.trans hm.symm⟩)
      rw [hnone, apply_field]; simp [hm]
    · simp only [hm, decide_false]
      cases hf : es.find? (fun e' => decide (e'.m = m)) with
      | some e' => rfl
      | none => simp only; rw [apply_field]; simp [Ne.symm hm]

end CvssVerif.V2
