import CvssVerif.Generated.Effects
import CvssVerif.Model.Heap
/-
  The write-set facts extracted from the library's source (go/effects, SSA-based, re-run on every
  check) against what the object-pool model assumes: an operation writes its receiver iff it is
  `Decode`; nothing else writes through any parameter (`ExportWith` may consume the reader it is
  given); no exported function writes — or hands out
  the address of — a package-level variable.  If the code changes so that a query starts writing
  (its receiver, an alias of it, a lazily filled table, a cache), the regenerated table changes
  and these theorems stop checking.
-/
namespace CvssVerif.Effects
open CvssVerif Gen.Effects

/-- the table row agrees with the model's `ObjOp.writes`: only `Decode` writes, and only its receiver -/
def rowOk (r : Bytes × Bytes × List Nat × List Bytes) : Bool :=
  (if r.2.1 == b!"Decode" then r.2.2.1 == [0]
   else if r.2.1 == b!"ExportWith" then r.2.2.1 == [] || r.2.2.1 == [1]   -- reading the template consumes the caller's io.Reader
   else r.2.2.1 == [])
  && r.2.2.2.isEmpty

/-- the exported operations the model has as query / report / export operations -/
def objTypes : List Bytes := [b!"Base", b!"Temporal", b!"Environmental"]
def queryMethods : List Bytes := [b!"GetError", b!"Encode", b!"String", b!"Score", b!"Severity"]
def method (pkg ty m : Bytes) : Bytes := b!"(*" ++ pkg ++ b!"." ++ ty ++ b!")." ++ m

def modelled : List Bytes :=
  ([b!"v2/metric", b!"v3/metric"].flatMap fun pkg => objTypes.flatMap fun ty =>
      (b!"Decode" :: queryMethods).map fun m => method pkg ty m)
  ++ [method b!"v3/metric" b!"Base" b!"BaseMetrics",
      method b!"v3/metric" b!"Temporal" b!"BaseMetrics", method b!"v3/metric" b!"Environmental" b!"BaseMetrics",
      method b!"v3/metric" b!"Environmental" b!"TemporalMetrics",
      method b!"v2/metric" b!"Temporal" b!"BaseMetrics", method b!"v2/metric" b!"Environmental" b!"BaseMetrics",
      method b!"v2/metric" b!"Environmental" b!"TemporalMetrics",
      method b!"v2/metric" b!"Temporal" b!"IsEmpty", method b!"v2/metric" b!"Environmental" b!"IsEmpty",
      b!"v3/report.NewBase", b!"v3/report.NewTemporal", b!"v3/report.NewEnvironmental", b!"v3/report.WithOptionsLanguage"]
  ++ ([b!"BaseReport", b!"TemporalReport", b!"EnvironmentalReport"].flatMap fun ty =>
      [method b!"v3/report" ty b!"ExportWith", method b!"v3/report" ty b!"ExportWithString"])

def isPrefix (p s : Bytes) : Bool := s.take p.length == p

theorem all_rows_ok : exported.all rowOk = true := by decide +kernel

theorem modelled_present : modelled.all (fun n => exported.any fun r => r.1 == n) = true := by decide +kernel

/-- all 52 functions of the names package are in the table (and, by `all_rows_ok`, write nothing) -/
theorem names_functions_present : (exported.filter fun r => isPrefix b!"v3/report/names." r.1).length = 52 := by
  decide +kernel

end CvssVerif.Effects
