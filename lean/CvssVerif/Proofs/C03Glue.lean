import CvssVerif.Proofs.Gen.Env3
import CvssVerif.Proofs.Env3Cls
import CvssVerif.Proofs.C02Glue
/-
  C03: reduction of the environmental score of an arbitrary vector to its effective key, and
  from the kernel-evaluated stage checks to every effective key.
-/
namespace CvssVerif.P3
open CvssVerif Spec3 V3 F64

/-! ### Go enumeration values of environmental metrics -/
def iMAV (x : Option Spec3.AV) : Int := M3.MAV.spec.get (mcode AV.code x)
def iMAC (x : Option Spec3.AC) : Int := M3.MAC.spec.get (mcode AC.code x)
def iMPR (x : Option Spec3.PR) : Int := M3.MPR.spec.get (mcode PR.code x)
def iMUI (x : Option Spec3.UI) : Int := M3.MUI.spec.get (mcode UI.code x)
def iMS (x : Option Spec3.Sc) : Int := M3.MS.spec.get (mcode Sc.code x)
def iMCIA (m : M3) (x : Option Spec3.CIA) : Int := m.spec.get (mcode CIA.code x)

/-- the exported fields of an object holding the specification vectors -/
def fieldsOf (v : BaseVec) (t : TempVec) (n : EnvVec) : M3 → Int
  | .AV => iAV v.av | .AC => iAC v.ac | .PR => iPR v.pr | .UI => iUI v.ui | .S => iS v.s
  | .C => iCIA .C v.c | .I => iCIA .I v.i | .A => iCIA .A v.a
  | .E => iE t.e | .RL => iRL t.rl | .RC => iRC t.rc
  | .CR => iReq .CR n.cr | .IR => iReq .IR n.ir | .AR => iReq .AR n.ar
  | .MAV => iMAV n.mav | .MAC => iMAC n.mac | .MPR => iMPR n.mpr | .MUI => iMUI n.mui
  | .MS => iMS n.ms | .MC => iMCIA .MC n.mc | .MI => iMCIA .MI n.mi | .MA => iMCIA .MA n.ma

/-- the model's environmental arithmetic on specification vectors -/
def modelEnv (v : BaseVec) (t : TempVec) (n : EnvVec) : Nat :=
  envScoreF (iVer v.ver) (fieldsOf v t n)

/-! ### a Modified metric that is Not Defined takes the base value (model side) -/
theorem valueMAV_eff (m : Option Spec3.AV) (b : Spec3.AV) :
    valueMAV (iMAV m) (iAV b) = fAV (eff m b) := by
  cases m with
  | none => cases b <;> decide +kernel
  | some x => cases x <;> cases b <;> decide +kernel
theorem valueMAC_eff (m : Option Spec3.AC) (b : Spec3.AC) :
    valueMAC (iMAC m) (iAC b) = fAC (eff m b) := by
  cases m with
  | none => cases b <;> decide +kernel
  | some x => cases x <;> cases b <;> decide +kernel
theorem valueMUI_eff (m : Option Spec3.UI) (b : Spec3.UI) :
    valueMUI (iMUI m) (iUI b) = fUI (eff m b) := by
  cases m with
  | none => cases b <;> decide +kernel
  | some x => cases x <;> cases b <;> decide +kernel
theorem msIsChanged_eff (m : Option Spec3.Sc) (b : Spec3.Sc) :
    msIsChanged (iMS m) (iS b) = changedOf (eff m b) := by
  cases m with
  | none => cases b <;> decide +kernel
  | some x => cases x <;> cases b <;> decide +kernel
theorem valueMPR_eff (m : Option Spec3.PR) (ms : Option Spec3.Sc) (s : Spec3.Sc) (b : Spec3.PR) :
    valueMPR (iMPR m) (iMS ms) (iS s) (iPR b) = fPR (eff ms s) (eff m b) := by
  cases m with
  | none => cases ms with
    | none => cases s <;> cases b <;> decide +kernel
    | some y => cases y <;> cases s <;> cases b <;> decide +kernel
  | some x => cases ms with
    | none => cases x <;> cases s <;> cases b <;> decide +kernel
    | some y => cases x <;> cases y <;> cases s <;> cases b <;> decide +kernel
theorem valueMC_eff (m : Option Spec3.CIA) (b : Spec3.CIA) :
    valueMCIA .MC (iMCIA .MC m) (iCIA .C b) = fCIA (eff m b) := by
  cases m with
  | none => cases b <;> decide +kernel
  | some x => cases x <;> cases b <;> decide +kernel
theorem valueMI_eff (m : Option Spec3.CIA) (b : Spec3.CIA) :
    valueMCIA .MI (iMCIA .MI m) (iCIA .I b) = fCIA (eff m b) := by
  cases m with
  | none => cases b <;> decide +kernel
  | some x => cases x <;> cases b <;> decide +kernel
theorem valueMA_eff (m : Option Spec3.CIA) (b : Spec3.CIA) :
    valueMCIA .MA (iMCIA .MA m) (iCIA .A b) = fCIA (eff m b) := by
  cases m with
  | none => cases b <;> decide +kernel
  | some x => cases x <;> cases b <;> decide +kernel
theorem valueCR (x : Spec3.Req) : value0 .CR (iReq .CR x) = fReq x := by cases x <;> decide +kernel
theorem valueIR (x : Spec3.Req) : value0 .IR (iReq .IR x) = fReq x := by cases x <;> decide +kernel
theorem valueAR (x : Spec3.Req) : value0 .AR (iReq .AR x) = fReq x := by cases x <;> decide +kernel

/-- the model's environmental score depends on the vector only through its effective values -/
theorem modelEnv_eff (v : BaseVec) (t : TempVec) (n : EnvVec) :
    modelEnv v t n = envCore (changedOf (eff n.ms v.s)) (iVer v.ver)
      (mul (fReq n.cr) (fCIA (eff n.mc v.c))) (mul (fReq n.ir) (fCIA (eff n.mi v.i)))
      (mul (fReq n.ar) (fCIA (eff n.ma v.a)))
      (fAV (eff n.mav v.av)) (fAC (eff n.mac v.ac)) (fPR (eff n.ms v.s) (eff n.mpr v.pr))
      (fUI (eff n.mui v.ui)) (fE t.e) (fRL t.rl) (fRC t.rc) := by
  unfold modelEnv envScoreF
  simp only [fieldsOf]
  rw [msIsChanged_eff, valueMAV_eff, valueMAC_eff, valueMUI_eff, valueMPR_eff, valueMC_eff,
    valueMI_eff, valueMA_eff, valueCR, valueIR, valueAR]
  unfold fE fRL fRC
  rfl

/-! ### the seven product classes -/
theorem p7F_cls (r : Spec3.Req) (c : Spec3.CIA) : mul (fReq r) (fCIA c) = p7F (cls r c) := by
  cases r <;> cases c <;> decide +kernel
theorem p7Q_cls (r : Spec3.Req) (c : Spec3.CIA) : wReq r * wCIA c = p7Q (cls r c) := by
  cases r <;> cases c <;> decide +kernel

/-- the specification's environmental score in terms of the effective values -/
def envEffTenths (ver : Spec3.Ver) (sc : Spec3.Sc) (a b c : P7)
    (av : Spec3.AV) (ac : Spec3.AC) (pr : Spec3.PR) (ui : Spec3.UI) (t : TempVec) : Int :=
  let mi := modifiedImpact ver sc (missQ a b c)
  if mi ≤ 0 then 0 else temporalOfTenths (combineQ sc mi (exploitability av ac pr sc ui)) t

theorem envTenths_eff (v : BaseVec) (t : TempVec) (n : EnvVec) :
    envTenths v t n = envEffTenths v.ver (eff n.ms v.s)
      (cls n.cr (eff n.mc v.c)) (cls n.ir (eff n.mi v.i)) (cls n.ar (eff n.ma v.a))
      (eff n.mav v.av) (eff n.mac v.ac) (eff n.mpr v.pr) (eff n.mui v.ui) t := by
  unfold envTenths envEffTenths miss missQ
  simp only [p7Q_cls]

/-- what one stage check gives for each of its 48 × 100 effective vectors -/
theorem env_of_chk {ver : Spec3.Ver} {sc : Spec3.Sc} {a b c : P7} (h : chkEnv ver sc a b c = true)
    (av : Spec3.AV) (ac : Spec3.AC) (pr : Spec3.PR) (ui : Spec3.UI) (t : TempVec) :
    envCore (changedOf sc) (iVer ver) (p7F a) (p7F b) (p7F c)
        (fAV av) (fAC ac) (fPR sc pr) (fUI ui) (fE t.e) (fRL t.rl) (fRC t.rc)
      = tenth (envEffTenths ver sc a b c av ac pr ui t).toNat ∧
    0 ≤ envEffTenths ver sc a b c av ac pr ui t ∧
    envEffTenths ver sc a b c av ac pr ui t ≤ 100 := by
  unfold chkEnv at h
  rw [cbv_eq, cbvRat_eq] at h
  simp only [Bool.and_eq_true, Bool.or_eq_true, beq_iff_eq, decide_eq_true_eq, List.all_eq_true] at h
  obtain ⟨h1, h3⟩ := h
  unfold envCore envEffTenths
  rw [cbv_eq]
  by_cases hz : le (modImpactF (changedOf sc) (iVer ver) (missF (p7F a) (p7F b) (p7F c))) 0 = true
  · have hq : modifiedImpact ver sc (missQ a b c) ≤ 0 := by
      have := h1; rw [hz] at this; exact of_decide_eq_true this.symm
    simp only [hz, if_true, hq, Int.toNat_zero, tenth_zero, Int.le_refl, true_and]
    decide
  · have hz' : le (modImpactF (changedOf sc) (iVer ver) (missF (p7F a) (p7F b) (p7F c))) 0 = false := by
      simpa using hz
    have hq : ¬ modifiedImpact ver sc (missQ a b c) ≤ 0 := by
      have := h1; rw [hz'] at this
      intro hc; simp [hc] at this
    have h3' := h3.resolve_left hz (av, ac, pr, ui) (Enum.complete _)
    dsimp only at h3'
    obtain ⟨⟨e1, e2⟩, e3⟩ := h3'
    simp only [hz', hq, if_false, Bool.false_eq_true]
    rw [e1]
    generalize combineQ sc (modifiedImpact ver sc (missQ a b c))
      (exploitability av ac pr sc ui) = k at e2 e3 ⊢
    have hk : k = Int.ofNat k.toNat := by simp only [Int.ofNat_eq_natCast]; omega
    have g := temp_of_chk (Gen.Temp3.all k.toNat (by omega)) t
    rw [← hk] at g
    exact ⟨g.1, g.2.1, by omega⟩

/-- every (version, scope, product triple): through its class representative -/
theorem chkEnv_result (ver : Spec3.Ver) (sc : Spec3.Sc) (a b c : P7)
    (av : Spec3.AV) (ac : Spec3.AC) (pr : Spec3.PR) (ui : Spec3.UI) (t : TempVec) :
    envCore (changedOf sc) (iVer ver) (p7F a) (p7F b) (p7F c)
        (fAV av) (fAC ac) (fPR sc pr) (fUI ui) (fE t.e) (fRL t.rl) (fRC t.rc)
      = tenth (envEffTenths ver sc a b c av ac pr ui t).toNat ∧
    0 ≤ envEffTenths ver sc a b c av ac pr ui t ∧
    envEffTenths ver sc a b c av ac pr ui t ≤ 100 := by
  obtain ⟨hlt, hF, hQ⟩ := missCls_ok a b c
  have h := env_of_chk (Gen.Env3.all ver sc (missCls a b c) hlt) av ac pr ui t
  have e1 : envCore (changedOf sc) (iVer ver) (p7F a) (p7F b) (p7F c)
        (fAV av) (fAC ac) (fPR sc pr) (fUI ui) (fE t.e) (fRL t.rl) (fRC t.rc)
      = envCore (changedOf sc) (iVer ver) (p7F (missRep (missCls a b c)).1)
        (p7F (missRep (missCls a b c)).2.1) (p7F (missRep (missCls a b c)).2.2)
        (fAV av) (fAC ac) (fPR sc pr) (fUI ui) (fE t.e) (fRL t.rl) (fRC t.rc) := by
    unfold envCore; rw [hF]
  have e2 : envEffTenths ver sc a b c av ac pr ui t
      = envEffTenths ver sc (missRep (missCls a b c)).1 (missRep (missCls a b c)).2.1
          (missRep (missCls a b c)).2.2 av ac pr ui t := by
    unfold envEffTenths; rw [hQ]
  rw [e1, e2]
  exact h

end CvssVerif.P3
