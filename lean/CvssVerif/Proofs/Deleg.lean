import CvssVerif.Model.V3
import CvssVerif.Model.V2
/-
  The decoders of the three levels are three Go types, each with its own `decodeOne` and its own
  `names` map; the temporal `decodeOne` first offers the token to the base `decodeOne` and handles
  it itself only when that answers "not supported metric", and the environmental one does the same
  with the temporal one.  `Model/V3.lean` and `Model/V2.lean` state `decodeOne` with this
  delegation flattened (one lookup in the metrics of all levels up to `L`).  Here the delegation
  is written out literally and proved equal to the flattened form, for both CVSS versions.
-/
namespace CvssVerif

namespace V3

/-- `decodeOne` of one Go type on its own: shape test, own `names` map, own `switch` -/
def decodeOwn (own : List M3) (o : Obj3) (tok : Bytes) : Obj3 × Option Err :=
  match split colon tok with
  | [n, v] =>
    if n = [] ∨ v = [] then (o, some .invalidVector) else
    match own.find? (fun m => m.spec.name == n) with
    | none => (o, some .notSupportMetric)
    | some m =>
      if o.named m then (o, some .sameMetric) else
      let x := m.spec.get v
      let o1 := o.set m x
      if x = 0 then (o1, some .invalidValue) else (o1.mark m, none)
  | _ => (o, some .invalidVector)

/-- "offer the token to the lower level first; handle it here only if that says not-supported" -/
def orElse (r : Obj3 × Option Err) (next : Obj3 → Obj3 × Option Err) : Obj3 × Option Err :=
  match r with
  | (o', some .notSupportMetric) => next o'
  | r => r

/-- `(*Base).decodeOne` -/
def decodeOneBase (o : Obj3) (tok : Bytes) := decodeOwn baseMs o tok
/-- `(*Temporal).decodeOne`: `tm.Base.decodeOne(str)` first -/
def decodeOneTemporal (o : Obj3) (tok : Bytes) := orElse (decodeOneBase o tok) fun o' => decodeOwn tempMs o' tok
/-- `(*Environmental).decodeOne`: `em.Temporal.decodeOne(str)` first -/
def decodeOneEnv (o : Obj3) (tok : Bytes) := orElse (decodeOneTemporal o tok) fun o' => decodeOwn envMs o' tok

/-- the literal three-level delegation -/
def decodeOneLit : Level → Obj3 → Bytes → Obj3 × Option Err
  | .base => decodeOneBase
  | .temporal => decodeOneTemporal
  | .environmental => decodeOneEnv

theorem decodeOwn_append (xs ys : List M3) (o : Obj3) (tok : Bytes) :
    decodeOwn (xs ++ ys) o tok = orElse (decodeOwn xs o tok) fun o' => decodeOwn ys o' tok := by
  unfold decodeOwn
  split
  · rename_i n v _
    by_cases hnv : n = [] ∨ v = []
    · simp [hnv, orElse]
    · simp only [hnv, if_false, List.find?_append]
      cases hx : xs.find? (fun m => m.spec.name == n) with
      | none =>
        simp only [Option.none_or, orElse]
      | some m =>
        simp only [Option.some_or, orElse]
        by_cases hn : o.named m
        · simp [hn]
        · simp only [hn]
          by_cases hz : m.spec.get v = 0
          · simp [hz]
          · simp [hz]
  · simp [orElse]

theorem msOf_temporal : msOf .temporal = baseMs ++ tempMs := by decide
theorem msOf_env : msOf .environmental = (baseMs ++ tempMs) ++ envMs := by decide
theorem msOf_base : msOf .base = baseMs := by decide

theorem decodeOne_eq_own (L : Level) (o : Obj3) (tok : Bytes) : decodeOne L o tok = decodeOwn (msOf L) o tok := rfl

/-- **The flattened `decodeOne` of the model is the literal delegation of the three Go types.** -/
theorem decodeOneLit_eq (L : Level) (o : Obj3) (tok : Bytes) : decodeOneLit L o tok = decodeOne L o tok := by
  cases L with
  | base => rw [decodeOne_eq_own, msOf_base]; rfl
  | temporal => rw [decodeOne_eq_own, msOf_temporal, decodeOwn_append]; rfl
  | environmental =>
    rw [decodeOne_eq_own, msOf_env, decodeOwn_append, decodeOwn_append]; rfl

end V3

namespace V2

/-- `decodeOne` of one Go type on its own: shape test, own `names` map, own `switch` -/
def decodeOwn (own : List M2) (o : Obj2) (tok : Bytes) : Obj2 × Option Err :=
  match split colon tok with
  | [n, v] =>
    if n = [] ∨ v = [] then (o, some .invalidVector) else
    match own.find? (fun m => m.spec.name == n) with
    | none => (o, some .notSupportMetric)
    | some m =>
      if o.named m then (o, some .sameMetric) else
      let x := m.spec.get v
      let o1 := o.set m x
      if x = 0 then (o1, some .invalidValue) else (o1.mark m, none)
  | _ => (o, some .invalidVector)

/-- "offer the token to the lower level first; handle it here only if that says not-supported" -/
def orElse (r : Obj2 × Option Err) (next : Obj2 → Obj2 × Option Err) : Obj2 × Option Err :=
  match r with
  | (o', some .notSupportMetric) => next o'
  | r => r

/-- `(*Base).decodeOne` -/
def decodeOneBase (o : Obj2) (tok : Bytes) := decodeOwn baseMs o tok
/-- `(*Temporal).decodeOne`: `tm.Base.decodeOne(str)` first -/
def decodeOneTemporal (o : Obj2) (tok : Bytes) := orElse (decodeOneBase o tok) fun o' => decodeOwn tempMs o' tok
/-- `(*Environmental).decodeOne`: `em.Temporal.decodeOne(str)` first -/
def decodeOneEnv (o : Obj2) (tok : Bytes) := orElse (decodeOneTemporal o tok) fun o' => decodeOwn envMs o' tok

/-- the literal three-level delegation -/
def decodeOneLit : Level → Obj2 → Bytes → Obj2 × Option Err
  | .base => decodeOneBase
  | .temporal => decodeOneTemporal
  | .environmental => decodeOneEnv

theorem decodeOwn_append (xs ys : List M2) (o : Obj2) (tok : Bytes) :
    decodeOwn (xs ++ ys) o tok = orElse (decodeOwn xs o tok) fun o' => decodeOwn ys o' tok := by
  unfold decodeOwn
  split
  · rename_i n v _
    by_cases hnv : n = [] ∨ v = []
    · simp [hnv, orElse]
    · simp only [hnv, if_false, List.find?_append]
      cases hx : xs.find? (fun m => m.spec.name == n) with
      | none =>
        simp only [Option.none_or, orElse]
      | some m =>
        simp only [Option.some_or, orElse]
        by_cases hn : o.named m
        · simp [hn]
        · simp only [hn]
          by_cases hz : m.spec.get v = 0
          · simp [hz]
          · simp [hz]
  · simp [orElse]

theorem msOf_temporal : msOf .temporal = baseMs ++ tempMs := by decide
theorem msOf_env : msOf .environmental = (baseMs ++ tempMs) ++ envMs := by decide
theorem msOf_base : msOf .base = baseMs := by decide

theorem decodeOne_eq_own (L : Level) (o : Obj2) (tok : Bytes) : decodeOne L o tok = decodeOwn (msOf L) o tok := rfl

/-- **The flattened `decodeOne` of the model is the literal delegation of the three Go types.** -/
theorem decodeOneLit_eq (L : Level) (o : Obj2) (tok : Bytes) : decodeOneLit L o tok = decodeOne L o tok := by
  cases L with
  | base => rw [decodeOne_eq_own, msOf_base]; rfl
  | temporal => rw [decodeOne_eq_own, msOf_temporal, decodeOwn_append]; rfl
  | environmental =>
    rw [decodeOne_eq_own, msOf_env, decodeOwn_append, decodeOwn_append]; rfl

end V2
end CvssVerif
