import CvssVerif.Proofs.Gen.Base3
/-
  From the kernel-evaluated stage checks to the statement about every base vector.
-/
namespace CvssVerif.P3
open CvssVerif Spec3 V3 F64

theorem tenth_zero : tenth 0 = 0 := by decide +kernel

theorem value0_I (x : Spec3.CIA) : value0 .I (iCIA .I x) = fCIA x := by cases x <;> rfl
theorem value0_A (x : Spec3.CIA) : value0 .A (iCIA .A x) = fCIA x := by cases x <;> rfl

theorem modelBase_eq (v : BaseVec) :
    modelBase v = baseCore (changedOf v.s) (fCIA v.c) (fCIA v.i) (fCIA v.a)
      (fAV v.av) (fAC v.ac) (fPR v.s v.pr) (fUI v.ui) := by
  unfold modelBase baseScoreF
  rw [value0_I, value0_A]
  rfl

/-- what one stage check gives for each of its 48 vectors -/
theorem base_of_chk {s : Spec3.Sc} {c i a : Spec3.CIA} (h : chkBase s c i a = true)
    (ver : Spec3.Ver) (av : Spec3.AV) (ac : Spec3.AC) (pr : Spec3.PR) (ui : Spec3.UI) :
    let v : BaseVec := ⟨ver, av, ac, pr, ui, s, c, i, a⟩
    modelBase v = tenth (baseTenths v).toNat ∧ 0 ≤ baseTenths v ∧ baseTenths v ≤ 100 ∧
      (baseTenths v = 0 ↔ (c = .N ∧ i = .N ∧ a = .N)) := by
  intro v
  rw [modelBase_eq]
  unfold chkBase at h
  rw [cbv_eq, cbvRat_eq] at h
  simp only [Bool.and_eq_true, Bool.or_eq_true, beq_iff_eq, decide_eq_true_eq, List.all_eq_true] at h
  obtain ⟨⟨h1, h2⟩, h3⟩ := h
  unfold baseCore baseTenths
  rw [cbv_eq]
  simp only [v]
  by_cases hz : le (impactBaseF (changedOf s) (issF (fCIA c) (fCIA i) (fCIA a))) 0 = true
  · have hq : impactBase s (iss c i a) ≤ 0 := by
      have := h1; rw [hz] at this; exact of_decide_eq_true this.symm
    simp only [hz, if_true, hq, Int.toNat_zero, tenth_zero, Int.le_refl, true_and]
    refine ⟨by decide, ?_⟩
    have := h2; simp only [hq, decide_true] at this
    simp only [true_iff]
    simpa [Bool.and_eq_true, beq_iff_eq, and_assoc] using this.symm
  · have hz' : le (impactBaseF (changedOf s) (issF (fCIA c) (fCIA i) (fCIA a))) 0 = false := by
      simpa using hz
    have hq : ¬ impactBase s (iss c i a) ≤ 0 := by
      have := h1; rw [hz'] at this
      intro hc; simp [hc] at this
    have h3' := h3.resolve_left hz (av, ac, pr, ui) (Enum.complete _)
    dsimp only at h3'
    obtain ⟨⟨e1, e2⟩, e3⟩ := h3'
    simp only [hz', hq, if_false, Bool.false_eq_true]
    refine ⟨e1, by omega, e3, ?_⟩
    constructor
    · intro h0; omega
    · intro hN
      have := h2; simp only [hq, decide_false] at this
      obtain ⟨rfl, rfl, rfl⟩ := hN
      simp at this

theorem iVer_ne (x : Spec3.Ver) : iVer x ≠ 0 := by cases x <;> decide
theorem iAV_ne (x : Spec3.AV) : iAV x ≠ 0 := by cases x <;> decide
theorem iAC_ne (x : Spec3.AC) : iAC x ≠ 0 := by cases x <;> decide
theorem iPR_ne (x : Spec3.PR) : iPR x ≠ 0 := by cases x <;> decide
theorem iUI_ne (x : Spec3.UI) : iUI x ≠ 0 := by cases x <;> decide
theorem iS_ne (x : Spec3.Sc) : iS x ≠ 0 := by cases x <;> decide
theorem iC_ne (x : Spec3.CIA) : iCIA .C x ≠ 0 := by cases x <;> decide
theorem iI_ne (x : Spec3.CIA) : iCIA .I x ≠ 0 := by cases x <;> decide
theorem iA_ne (x : Spec3.CIA) : iCIA .A x ≠ 0 := by cases x <;> decide

end CvssVerif.P3
