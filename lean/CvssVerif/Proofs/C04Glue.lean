import CvssVerif.Proofs.Gen.Base2
import CvssVerif.Proofs.Gen.Temp2
import CvssVerif.Proofs.Gen.Env2
import CvssVerif.Proofs.Gen.Adj2
/-
  v2: from the kernel-evaluated stage checks to statements about every vector.
-/
namespace CvssVerif.P2
open CvssVerif Spec2 V2 F64

theorem tenthsOf_some {f : Nat} {k : Int} (h : tenthsOf f = some k) : isTenth f k = true := by
  unfold tenthsOf at h
  rw [cbv_eq] at h
  simp only at h
  split at h
  · rename_i hk; cases h; exact hk
  · cases h

/-- a double on the grid −2.0 … 10.0 (or −0) is one of the 122 stage inputs -/
theorem grid_of_isTenth {f : Nat} {k : Int} (h : isTenth f k = true) (h1 : -20 ≤ k) (h2 : k ≤ 100) :
    ∃ j, j < 122 ∧ gridIn j = f ∧ gridK j = k := by
  unfold isTenth at h
  simp only [Bool.or_eq_true, Bool.and_eq_true, beq_iff_eq] at h
  rcases h with h | ⟨hk, hf⟩
  · refine ⟨(k + 20).toNat, by omega, ?_, ?_⟩
    · unfold gridIn
      have : (k + 20).toNat ≠ 121 := by omega
      simp only [this, if_false, Int.ofNat_eq_natCast]
      rw [h]; congr 1; omega
    · unfold gridK
      have : (k + 20).toNat ≠ 121 := by omega
      simp only [this, if_false, Int.ofNat_eq_natCast]; omega
  · exact ⟨121, by omega, by simp [gridIn, hf], by simp [gridK, hk]⟩

/-- what the base stage check gives for each of its 27 vectors -/
theorem base_of_chk2 {c i a : Spec2.CIA} (h : chkBase2 c i a = true)
    (av : Spec2.AV) (ac : Spec2.AC) (au : Spec2.Au) :
    ∃ t : Int, isTenth (modelBase ⟨av, ac, au, c, i, a⟩) t = true ∧
      isRound1 (codeBaseRaw (r2Q (impact c i a)) (exploitability av ac au)) t = true ∧
      0 ≤ t ∧ t ≤ 100 ∧
      (okBase ⟨av, ac, au, c, i, a⟩ t = true ↔ (⟨av, ac, au, c, i, a⟩ : BaseVec) ∉ knownBase2) := by
  unfold chkBase2 at h
  rw [cbv_eq, cbvRat_eq] at h
  simp only [List.all_eq_true] at h
  have h' := h (av, ac, au) (Enum.complete _)
  dsimp only at h'
  unfold modelBase
  split at h'
  · cases h'
  · rename_i t ht
    simp only [Bool.and_eq_true, Bool.or_eq_true, decide_eq_true_eq, bne_iff_ne, ne_eq] at h'
    obtain ⟨⟨⟨⟨r1, r2⟩, r3⟩, r4⟩, r5⟩ := h'
    refine ⟨t, tenthsOf_some ht, r1, r2, r3, ?_⟩
    constructor
    · intro hok hk
      apply r5
      rw [hok]; simp [hk]
    · intro hk
      rcases r4 with r4 | r4
      · exact r4
      · exact absurd (by simpa using r4) hk

/-- what the temporal stage check gives for one grid point -/
theorem temp_of_chk2 {j : Nat} (h : chkTemp2 j = true) (t : TempVec) :
    ∃ r : Int, isTenth (temporalOf (gridIn j) (iE t.e) (iRL t.rl) (iRC t.rc)) r = true ∧
      isRound1 (temporalRaw (gridK j) t) r = true ∧ -20 ≤ r ∧ r ≤ 100 ∧
      (0 ≤ gridK j → r ≤ gridK j ∧ 0 ≤ r) ∧
      ((t.e = .ND ∧ t.rl = .ND ∧ t.rc = .ND) → r = gridK j) := by
  unfold chkTemp2 at h
  rw [cbv_eq] at h
  simp only [List.all_eq_true] at h
  have h' := h (t.e, t.rl, t.rc) (Enum.complete _)
  obtain ⟨e, rl, rc⟩ := t
  dsimp only at h'
  split at h'
  · cases h'
  · rename_i r hr
    simp only [Bool.and_eq_true, Bool.or_eq_true, decide_eq_true_eq, Bool.not_eq_true',
      Bool.and_eq_false_iff, beq_iff_eq, beq_eq_false_iff_ne, ne_eq] at h'
    obtain ⟨⟨⟨⟨r1, r2⟩, r3⟩, r4⟩, r5⟩ := h'
    refine ⟨r, tenthsOf_some hr, r1, r2, r3, ?_, ?_⟩
    · intro h0
      rcases r4 with r4 | r4
      · omega
      · exact r4
    · rintro ⟨rfl, rfl, rfl⟩
      rcases r5 with r5 | r5
      · simp at r5
      · exact r5

/-- what the environmental stage check gives for one grid point; the requirement metrics do
    not enter this stage -/
theorem env_of_chk2 {j : Nat} (h : chkEnv2 j = true) (n : EnvVec) :
    ∃ r : Int, isTenth (roundTo1 (mul (add (gridIn j) (mul (sub ten (gridIn j)) (value .CDP (iCDP n.cdp))))
        (value .TD (iTD n.td)))) r = true ∧
      isRound1 (envRaw (gridK j) n) r = true ∧ -20 ≤ r ∧ r ≤ 100 ∧ (n.td = .N → r = 0) ∧
      (0 ≤ gridK j → 0 ≤ r) := by
  unfold chkEnv2 at h
  rw [cbv_eq] at h
  simp only [List.all_eq_true] at h
  have h' := h (n.cdp, n.td) (Enum.complete _)
  obtain ⟨cdp, td, cr, ir, ar⟩ := n
  dsimp only at h'
  split at h'
  · cases h'
  · rename_i r hr
    simp only [Bool.and_eq_true, Bool.or_eq_true, decide_eq_true_eq, Bool.not_eq_true',
      beq_eq_false_iff_ne, ne_eq] at h'
    obtain ⟨⟨⟨⟨r1, r2⟩, r3⟩, r4⟩, r6⟩ := h'
    refine ⟨r, tenthsOf_some hr, ?_, r2, r3, ?_, ?_⟩
    · simpa [envRaw] using r1
    · intro htd
      rcases r4 with r4 | r4
      · exact absurd htd r4
      · exact r4
    · intro h0
      rcases r6 with r6 | r6
      · omega
      · exact r6

/-- Medium and Not Defined requirements have the same weight on both sides -/
def normReq : Spec2.Req → Spec2.Req | .ND => .M | x => x

theorem normReq_ne (x : Spec2.Req) : normReq x ≠ .ND := by cases x <;> simp [normReq]
theorem value_normReq (m : M2) (hm : m = .CR ∨ m = .IR ∨ m = .AR) (x : Spec2.Req) :
    value m (iReq m (normReq x)) = value m (iReq m x) := by
  rcases hm with rfl | rfl | rfl <;> cases x <;> rfl
theorem wReq_normReq (x : Spec2.Req) : wReq (normReq x) = wReq x := by cases x <;> rfl
theorem knownAdj2_norm (c i a : Spec2.CIA) (cr ir ar : Spec2.Req) :
    knownAdj2 c i a (normReq cr) (normReq ir) (normReq ar) = knownAdj2 c i a cr ir ar := by
  cases c <;> cases i <;> cases a <;> cases cr <;> cases ir <;> cases ar <;> rfl

end CvssVerif.P2

namespace CvssVerif.P2
open CvssVerif Spec2 V2 F64

/-- what the adjusted-base stage check gives for each of its 27 vectors (Medium/Not Defined
    requirements normalised) -/
theorem adj_of_chk2 (c i a : Spec2.CIA) (cr ir ar : Spec2.Req)
    (av : Spec2.AV) (ac : Spec2.AC) (au : Spec2.Au) :
    let v : BaseVec := ⟨av, ac, au, c, i, a⟩
    ∀ n : EnvVec, n.cr = cr → n.ir = ir → n.ar = ar →
    ∃ t : Int, isTenth (modelAdjBase v n) t = true ∧ -20 ≤ t ∧ t ≤ 100 ∧
      (okAdjBase v n t = true ↔ (av, ac, au) ∉ knownAdj2 c i a cr ir ar) ∧
      (t < 0 → adjustedBaseRaw v n < 0) := by
  intro v n hcr hir har
  have h := Gen.Adj2.all c i a (normReq cr) (normReq ir) (normReq ar)
    (normReq_ne cr) (normReq_ne ir) (normReq_ne ar)
  unfold chkAdj2 at h
  rw [cbv_eq] at h
  simp only [cbvRat_eq, List.all_eq_true] at h
  have h' := h (av, ac, au) (Enum.complete _)
  dsimp only at h'
  have e1 : modelAdjBase v n = scoreOfImpact
      (adjImpactF (iCIA .C c) (iCIA .I i) (iCIA .A a) (iReq .CR (normReq cr)) (iReq .IR (normReq ir))
        (iReq .AR (normReq ar))) (iAV av) (iAC ac) (iAu au) := by
    unfold modelAdjBase adjImpactF
    rw [hcr, hir, har, value_normReq .CR (Or.inl rfl), value_normReq .IR (Or.inr (Or.inl rfl)),
      value_normReq .AR (Or.inr (Or.inr rfl))]
  have e2 : ∀ t, okAdjBase v n t = okAdjBase v ⟨.ND, .ND, normReq cr, normReq ir, normReq ar⟩ t := by
    intro t
    unfold okAdjBase adjustedBaseRaw adjustedImpact
    simp only [hcr, hir, har, wReq_normReq, v]
  rw [knownAdj2_norm] at h'
  rw [e1]
  split at h'
  · cases h'
  · rename_i t ht
    simp only [Bool.and_eq_true, Bool.or_eq_true, decide_eq_true_eq, bne_iff_ne, ne_eq] at h'
    obtain ⟨⟨⟨⟨⟨_, r2⟩, r3⟩, r4⟩, r5⟩, r6⟩ := h'
    have e3 : adjustedBaseRaw v n = adjustedBaseRaw v ⟨.ND, .ND, normReq cr, normReq ir, normReq ar⟩ := by
      unfold adjustedBaseRaw adjustedImpact
      simp only [hcr, hir, har, wReq_normReq, v]
    refine ⟨t, tenthsOf_some ht, r2, r3, ?_, ?_⟩
    · rw [e2 t]
      constructor
      · intro hok hk
        apply r5
        rw [hok]; simp [hk]
      · intro hk
        rcases r4 with r4 | r4
        · exact r4
        · exact absurd (by simpa using r4) hk
    · intro hneg
      rw [e3]
      rcases r6 with r6 | r6
      · omega
      · exact r6

end CvssVerif.P2
