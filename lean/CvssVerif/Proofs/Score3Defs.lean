import CvssVerif.Proofs.Basics
import CvssVerif.Model.V3
import CvssVerif.Spec.V3
/-
  Definitions shared by the v3 score proofs: the model's weights indexed by the
  specification's enumerations (through the value *codes*, i.e. through the model's own
  `Get…` and `Value()`), and the Boolean stage checks the kernel evaluates.
-/
namespace CvssVerif.P3
open CvssVerif Spec3 V3 F64

instance : Enum Spec3.Ver := ⟨[.v30, .v31], by intro a; cases a <;> simp⟩
instance : Enum Spec3.AV := ⟨[.N, .A, .L, .P], by intro a; cases a <;> simp⟩
instance : Enum Spec3.AC := ⟨[.L, .H], by intro a; cases a <;> simp⟩
instance : Enum Spec3.PR := ⟨[.N, .L, .H], by intro a; cases a <;> simp⟩
instance : Enum Spec3.UI := ⟨[.N, .R], by intro a; cases a <;> simp⟩
instance : Enum Spec3.Sc := ⟨[.U, .C], by intro a; cases a <;> simp⟩
instance : Enum Spec3.CIA := ⟨[.H, .L, .N], by intro a; cases a <;> simp⟩
instance : Enum Spec3.E := ⟨[.X, .H, .F, .P, .U], by intro a; cases a <;> simp⟩
instance : Enum Spec3.RL := ⟨[.X, .U, .W, .T, .O], by intro a; cases a <;> simp⟩
instance : Enum Spec3.RC := ⟨[.X, .C, .R, .U], by intro a; cases a <;> simp⟩
instance : Enum Spec3.Req := ⟨[.X, .H, .M, .L], by intro a; cases a <;> simp⟩

/-! Go enumeration values of the specification's values: whatever the model's `Get…` returns
    for the value's code. -/
def iAV (x : Spec3.AV) : Int := M3.AV.spec.get x.code
def iAC (x : Spec3.AC) : Int := M3.AC.spec.get x.code
def iPR (x : Spec3.PR) : Int := M3.PR.spec.get x.code
def iUI (x : Spec3.UI) : Int := M3.UI.spec.get x.code
def iS (x : Spec3.Sc) : Int := M3.S.spec.get x.code
def iCIA (m : M3) (x : Spec3.CIA) : Int := m.spec.get x.code
def iE (x : Spec3.E) : Int := M3.E.spec.get x.code
def iRL (x : Spec3.RL) : Int := M3.RL.spec.get x.code
def iRC (x : Spec3.RC) : Int := M3.RC.spec.get x.code
def iReq (m : M3) (x : Spec3.Req) : Int := m.spec.get x.code
def iVer (v : Spec3.Ver) : Int := verGet v.label

/-! the model's weights of those values -/
def fAV (x : Spec3.AV) : Nat := value0 .AV (iAV x)
def fAC (x : Spec3.AC) : Nat := value0 .AC (iAC x)
def fPR (s : Spec3.Sc) (x : Spec3.PR) : Nat := valuePR (iPR x) (iS s)
def fUI (x : Spec3.UI) : Nat := value0 .UI (iUI x)
def fCIA (x : Spec3.CIA) : Nat := value0 .C (iCIA .C x)
def fE (x : Spec3.E) : Nat := value0 .E (iE x)
def fRL (x : Spec3.RL) : Nat := value0 .RL (iRL x)
def fRC (x : Spec3.RC) : Nat := value0 .RC (iRC x)
def changedOf (s : Spec3.Sc) : Bool := iS s == 2

/-- the model's base score arithmetic on a specification vector -/
def modelBase (v : BaseVec) : Nat :=
  baseScoreF (iAV v.av) (iAC v.ac) (iPR v.pr) (iUI v.ui) (iS v.s) (iCIA .C v.c) (iCIA .I v.i) (iCIA .A v.a)

abbrev EaseKey := Spec3.AV × Spec3.AC × Spec3.PR × Spec3.UI

/-- Stage check for one (scope, C, I, A): the impact is evaluated once on each side; for all
    48 exploitability combinations the model's rounded result is the double nearest to the
    specification's tenth, which lies in 1..100. -/
def chkBase (s : Spec3.Sc) (c i a : Spec3.CIA) : Bool :=
  cbv (impactBaseF (changedOf s) (issF (fCIA c) (fCIA i) (fCIA a))) fun imp =>
  cbvRat (impactBase s (iss c i a)) fun impq =>
  (le imp 0 == decide (impq ≤ 0)) &&
  (decide (impq ≤ 0) == (c == .N && i == .N && a == .N)) &&
  (le imp 0 || (Enum.all (α := EaseKey)).all fun k =>
    let t := combineQ s impq (exploitability k.1 k.2.1 k.2.2.1 s k.2.2.2)
    combine (changedOf s) imp (easeF (fAV k.1) (fAC k.2.1) (fPR s k.2.2.1) (fUI k.2.2.2)) == tenth t.toNat
      && decide (1 ≤ t) && decide (t ≤ 100))

abbrev TempKey := Spec3.E × Spec3.RL × Spec3.RC

/-- Stage check for one base (or inner environmental) score `k/10`: for all 100 temporal
    combinations the model's `roundUp(score × E × RL × RC)` is the double nearest to the
    specification's tenth, which lies in 0..k and equals k when all three are Not Defined. -/
def chkTemp (k : Nat) : Bool :=
  cbv (tenth k) fun x =>
  (Enum.all (α := TempKey)).all fun t =>
    let q := temporalOfTenths (Int.ofNat k) ⟨t.1, t.2.1, t.2.2⟩
    temporalF x (fE t.1) (fRL t.2.1) (fRC t.2.2) == tenth q.toNat
      && decide (0 ≤ q) && decide (q ≤ Int.ofNat k)
      && (!(t.1 == .X && t.2.1 == .X && t.2.2 == .X) || decide (q = Int.ofNat k))
      && (k == 0 || decide (1 ≤ q))

def fReq (x : Spec3.Req) : Nat := value0 .CR (iReq .CR x)

/-- the seven distinct products requirement × impact weight: 0, 0.22·{½,1,1½}, 0.56·{½,1,1½} -/
inductive P7 | z | l5 | l | l15 | h5 | h | h15
  deriving DecidableEq, Repr

instance : Enum P7 := ⟨[.z, .l5, .l, .l15, .h5, .h, .h15], by intro a; cases a <;> simp⟩

def cls : Spec3.Req → Spec3.CIA → P7
  | _, .N => .z
  | .L, .L => .l5 | .X, .L => .l | .M, .L => .l | .H, .L => .l15
  | .L, .H => .h5 | .X, .H => .h | .M, .H => .h | .H, .H => .h15

/-- the model's product for a class (one representative) -/
def p7F : P7 → Nat
  | .z => mul (fReq .X) (fCIA .N)
  | .l5 => mul (fReq .L) (fCIA .L) | .l => mul (fReq .X) (fCIA .L) | .l15 => mul (fReq .H) (fCIA .L)
  | .h5 => mul (fReq .L) (fCIA .H) | .h => mul (fReq .X) (fCIA .H) | .h15 => mul (fReq .H) (fCIA .H)

/-- the specification's product for a class -/
def p7Q : P7 → Rat
  | .z => wReq .X * wCIA .N
  | .l5 => wReq .L * wCIA .L | .l => wReq .X * wCIA .L | .l15 => wReq .H * wCIA .L
  | .h5 => wReq .L * wCIA .H | .h => wReq .X * wCIA .H | .h15 => wReq .H * wCIA .H

def missQ (a b c : P7) : Rat := min (1 - (1 - p7Q a) * (1 - p7Q b) * (1 - p7Q c)) (q 915 1000)

/-- Stage check for one (version, effective scope) and one triple of product classes: the
    modified impact is evaluated once on each side; its sign agrees; for all 48
    modified-exploitability combinations the model's inner round-up is the double nearest to
    the specification's tenth, which lies in 1..100. -/
def chkEnv (ver : Spec3.Ver) (sc : Spec3.Sc) (a b c : P7) : Bool :=
  cbv (modImpactF (changedOf sc) (iVer ver) (missF (p7F a) (p7F b) (p7F c))) fun mi =>
  cbvRat (modifiedImpact ver sc (missQ a b c)) fun miq =>
  (le mi 0 == decide (miq ≤ 0)) &&
  (le mi 0 || (Enum.all (α := EaseKey)).all fun k =>
    let t := combineQ sc miq (exploitability k.1 k.2.1 k.2.2.1 sc k.2.2.2)
    combine (changedOf sc) mi (easeF (fAV k.1) (fAC k.2.1) (fPR sc k.2.2.1) (fUI k.2.2.2)) == tenth t.toNat
      && decide (1 ≤ t) && decide (t ≤ 100))

end CvssVerif.P3
