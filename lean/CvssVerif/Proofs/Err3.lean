import CvssVerif.Proofs.Encode3
/-
  v3: every error the decoder reports names a defect the input has (C11).
-/
namespace CvssVerif.V3
open CvssVerif

/-- `decodeOne` failing: which error, and why -/
theorem decodeOne_err {L : Level} {o o1 : Obj3} {t : Bytes} {e : Err} (h : decodeOne L o t = (o1, some e)) :
    (e = .invalidVector ∧ Spec3.shaped t = false) ∨
    (e = .notSupportMetric ∧ Spec3.shaped t = true ∧ findMetric L (Spec3.tokName t) = none ∧ o1 = o) ∨
    (e = .sameMetric ∧ Spec3.shaped t = true ∧ ∃ m, findMetric L (Spec3.tokName t) = some m ∧ o.named m = true) ∨
    (e = .invalidValue ∧ Spec3.shaped t = true ∧
      ∃ m, findMetric L (Spec3.tokName t) = some m ∧ m.spec.get (Spec3.tokValue t) = 0) := by
  unfold decodeOne at h
  unfold Spec3.shaped Spec3.tokName Spec3.tokValue
  split at h
  · rename_i n v hs
    rw [show split colon t = [n, v] from hs]
    simp only [List.headD_cons, List.tail_cons]
    split at h
    · rename_i hnv
      cases h
      left
      refine ⟨rfl, ?_⟩
      rcases hnv with rfl | rfl <;> simp
    · rename_i hnv
      have hn : n ≠ [] := fun hh => hnv (Or.inl hh)
      have hv : v ≠ [] := fun hh => hnv (Or.inr hh)
      have hsh : (n != [] && v != []) = true := by simp [hn, hv]
      split at h
      · rename_i hf
        have h1 := congrArg Prod.fst h; have h2 := congrArg Prod.snd h
        simp only at h1 h2
        right; left
        exact ⟨(Option.some.inj h2).symm, hsh, hf, h1.symm⟩
      · rename_i m hf
        split at h
        · rename_i hnamed
          have h2 := congrArg Prod.snd h
          simp only at h2
          right; right; left
          exact ⟨(Option.some.inj h2).symm, hsh, m, hf, hnamed⟩
        · simp only at h
          split at h
          · rename_i hx
            have h2 := congrArg Prod.snd h
            simp only at h2
            right; right; right
            exact ⟨(Option.some.inj h2).symm, hsh, m, hf, hx⟩
          · cases h
  · rename_i hns
    cases h
    left
    refine ⟨rfl, ?_⟩
    split
    · rename_i n v hs; exact absurd hs (hns n v)
    · rfl

/-- the defect a token-level error names, over the list of all tokens -/
def DefTok (L : Level) (e : Err) (all : List Bytes) : Prop :=
  match e with
  | .invalidVector => ∃ t ∈ all, Spec3.shaped t = false
  | .notSupportMetric => ∃ t ∈ all, Spec3.shaped t = true ∧ findMetric L (Spec3.tokName t) = none
  | .sameMetric => ∃ m ∈ msOf L,
      2 ≤ (all.filter fun t => Spec3.shaped t && Spec3.tokName t == m.spec.name).length
  | .invalidValue => ∃ t ∈ all, ∃ m ∈ msOf L, Spec3.shaped t = true ∧ Spec3.tokName t = m.spec.name ∧
      m.spec.get (Spec3.tokValue t) = 0
  | _ => False

theorem shaped_tok (e : Ent) {L : Level} (he : e ∈ vocab L) :
    Spec3.shaped e.tok = true ∧ Spec3.tokName e.tok = e.m.spec.name ∧ Spec3.tokValue e.tok = e.c := by
  obtain ⟨_, hp⟩ := mem_vocab.mp he
  obtain ⟨_, hc, hcc, _, _⟩ := code_facts e.m _ hp
  unfold Spec3.shaped Spec3.tokName Spec3.tokValue Ent.tok
  rw [split_pair (colon_not_mem_name e.m) hcc]
  simp [name_ne_nil e.m, hc]

theorem two_le_filter {α : Type} (p : α → Bool) (l1 l2 : List α) {a b : α} (ha : a ∈ l1) (hb : b ∈ l2)
    (pa : p a = true) (pb : p b = true) : 2 ≤ ((l1 ++ l2).filter p).length := by
  rw [List.filter_append, List.length_append]
  have h1 : 0 < (l1.filter p).length := List.length_pos_of_mem (List.mem_filter.mpr ⟨ha, pa⟩)
  have h2 : 0 < (l2.filter p).length := List.length_pos_of_mem (List.mem_filter.mpr ⟨hb, pb⟩)
  omega

/-- the loop's error is a defect of the tokens seen (`pre` already processed, `toks` to come) -/
theorem loop_err (L : Level) (toks : List Bytes) :
    ∀ (o : Obj3) (last : Option Err) (pre : List Bytes) (o' : Obj3) (e : Err),
      (∀ m ∈ msOf L, o.named m = true → ∃ t' ∈ pre, Spec3.shaped t' = true ∧ Spec3.tokName t' = m.spec.name) →
      (last = none ∨ (last = some .notSupportMetric ∧
          ∃ t ∈ pre, Spec3.shaped t = true ∧ findMetric L (Spec3.tokName t) = none)) →
      decodeLoop L o last toks = (o', some e) → DefTok L e (pre ++ toks) := by
  induction toks with
  | nil =>
    intro o last pre o' e _ hlast h
    simp only [decodeLoop, Prod.mk.injEq] at h
    rcases hlast with hl | ⟨hl, t, ht, h1, h2⟩
    · rw [hl] at h; cases h.2
    · rw [hl] at h
      have := Option.some.inj h.2
      subst this
      exact ⟨t, by simpa using ht, h1, h2⟩
  | cons t ts ih =>
    intro o last pre o' e hinv hlast h
    unfold decodeLoop at h
    have happ : pre ++ t :: ts = (pre ++ [t]) ++ ts := by simp
    split at h
    · rename_i o1 h1
      obtain ⟨x, hx, rfl, _, rfl⟩ := decodeOne_ok h1
      rw [happ]
      apply ih _ _ _ _ _ ?_ ?_ h
      · intro m hm hn
        rw [apply_named] at hn
        by_cases hme : m = x.m
        · subst hme
          obtain ⟨s1, s2, _⟩ := shaped_tok x hx
          exact ⟨x.tok, by simp, s1, s2⟩
        · simp only [hme, decide_false, Bool.false_or] at hn
          obtain ⟨t', ht', r⟩ := hinv m hm hn
          exact ⟨t', by simp [ht'], r⟩
      · rcases hlast with hl | ⟨hl, t', ht', r⟩
        · exact Or.inl hl
        · exact Or.inr ⟨hl, t', by simp [ht'], r⟩
    · rename_i o1 h1
      rcases decodeOne_err h1 with ⟨h0, _⟩ | ⟨_, hs, hf, rfl⟩ | ⟨h0, _⟩ | ⟨h0, _⟩
      · cases h0
      · rw [happ]
        apply ih _ _ _ _ _ ?_ ?_ h
        · intro m hm hn
          obtain ⟨t', ht', r⟩ := hinv m hm hn
          exact ⟨t', by simp [ht'], r⟩
        · exact Or.inr ⟨rfl, t, by simp, hs, hf⟩
      · cases h0
      · cases h0
    · rename_i o1 e1 hne h1
      have he : e1 = e := by have := congrArg Prod.snd h; simpa using this
      subst he
      rcases decodeOne_err h1 with ⟨rfl, hs⟩ | ⟨rfl, _⟩ | ⟨rfl, hs, m, hf, hn⟩ | ⟨rfl, hs, m, hf, hg⟩
      · exact ⟨t, by simp, hs⟩
      · exact absurd rfl hne
      · obtain ⟨hm, hname⟩ := findMetric_some hf
        obtain ⟨t', ht', s1, s2⟩ := hinv m hm hn
        refine ⟨m, hm, ?_⟩
        apply two_le_filter _ pre (t :: ts) ht' List.mem_cons_self
        · simp [s1, s2]
        · simp [hs, hname]
      · obtain ⟨hm, hname⟩ := findMetric_some hf
        exact ⟨t, by simp, m, hm, hs, hname.symm, hg⟩

end CvssVerif.V3

namespace CvssVerif.V3
open CvssVerif

theorem findMetric_none {L : Level} {n : Bytes} (h : findMetric L n = none) :
    ∀ m ∈ msOf L, m.spec.name ≠ n := by
  unfold findMetric at h
  intro m hm hn
  have := List.find?_eq_none.mp h m hm
  simp [hn] at this

theorem defTok_defect {L : Level} {e : Err} {s : Bytes} (h : DefTok L e (split slash s).tail) :
    Spec3.defect3 L e s = true := by
  cases e with
  | invalidVector =>
    obtain ⟨t, ht, hs⟩ := h
    unfold Spec3.defect3
    simp only [Bool.or_eq_true, List.any_eq_true]
    exact Or.inr ⟨t, ht, by simp [hs]⟩
  | notSupportMetric =>
    obtain ⟨t, ht, hs, hf⟩ := h
    unfold Spec3.defect3
    simp only
    rw [List.any_eq_true]
    refine ⟨t, ht, ?_⟩
    simp only [hs, Bool.true_and, Bool.not_eq_true']
    rw [List.any_eq_false, metricsOf_eq]
    intro ms hms
    obtain ⟨m, hm, rfl⟩ := List.mem_map.mp hms
    rw [specOf_name]
    have := findMetric_none hf m hm
    simp only [beq_iff_eq]
    exact fun hh => this hh.symm
  | sameMetric =>
    obtain ⟨m, hm, hc⟩ := h
    unfold Spec3.defect3
    simp only
    rw [List.any_eq_true, metricsOf_eq]
    refine ⟨specOf m, List.mem_map.mpr ⟨m, hm, rfl⟩, ?_⟩
    rw [specOf_name]
    exact decide_eq_true hc
  | invalidValue =>
    obtain ⟨t, ht, m, hm, hs, hn, hg⟩ := h
    unfold Spec3.defect3
    simp only
    rw [List.any_eq_true]
    refine ⟨t, ht, ?_⟩
    simp only [hs, Bool.true_and]
    rw [List.any_eq_true, metricsOf_eq]
    refine ⟨specOf m, List.mem_map.mpr ⟨m, hm, rfl⟩, ?_⟩
    rw [specOf_name]
    simp only [hn, beq_self_eq_true, Bool.true_and, Bool.not_eq_true']
    cases hcont : (specOf m).codes.contains (Spec3.tokValue t)
    · rfl
    · exfalso
      have hmem : Spec3.tokValue t ∈ (specOf m).codes := by simpa using hcont
      obtain ⟨p, hp, hpv⟩ := List.mem_map.mp ((specOf_codes m _).mp hmem)
      have hgc : m.spec.get (Spec3.tokValue t) = p.1 := by
        rw [← hpv]; exact get_code (show (p.1, p.2) ∈ m.spec.codes from hp)
      rw [hg] at hgc
      exact (code_facts m p hp).1 hgc.symm
  | nullPointer => exact absurd h id
  | notSupportVer => exact absurd h id
  | invalidTemplate => exact absurd h id
  | noBaseMetrics => exact absurd h id
  | noTemporalMetrics => exact absurd h id
  | noEnvironmentalMetrics => exact absurd h id
  | misordered => exact absurd h id

/-- **C11 (v3).** Whenever a fresh level-`L` decoder rejects a string, the sentinel it reports
    names a defect the string really has (`Spec3.defect3`). -/
theorem err_sound {L : Level} {s : Bytes} {o : Obj3} {e : Err} (h : decode L Obj3.new s = (o, some e)) :
    Spec3.defect3 L e s = true := by
  unfold decode at h
  split at h
  · rename_i hs
    exact absurd hs (List.splitOn_ne_nil slash s)
  · rename_i hd rest hsplit
    split at h
    · rename_i e' hver
      have he : e' = e := by have := congrArg Prod.snd h; simpa using this
      subst he
      -- getVersion fails only with invalid vector, when the prefix is not `CVSS:<label>`
      unfold getVersion at hver
      unfold Spec3.defect3
      rw [hsplit]
      simp only [List.headD_cons]
      split at hver
      · rename_i n v hsp
        split at hver
        · cases hver
        · rename_i hn
          cases hver
          simp only [Bool.or_eq_true, Bool.not_eq_true']
          left
          unfold Spec3.prefixShape
          rw [show split colon hd = [n, v] from hsp]
          simpa using hn
      · rename_i hns
        cases hver
        simp only [Bool.or_eq_true, Bool.not_eq_true']
        left
        unfold Spec3.prefixShape
        split
        · rename_i n v hsp; exact absurd hsp (hns n v)
        · rfl
    · rename_i ver hver
      split at h
      · rename_i hv0
        have he : Err.notSupportVer = e := by have := congrArg Prod.snd h; simpa using this
        subst he
        unfold Spec3.defect3
        rw [hsplit]
        simp only [List.headD_cons, Bool.and_eq_true, Bool.not_eq_true']
        constructor
        · unfold getVersion at hver
          unfold Spec3.prefixShape
          split at hver
          · rename_i n v hsp
            rw [show split colon hd = [n, v] from hsp]
            split at hver
            · rename_i hn; exact hn
            · cases hver
          · cases hver
        · cases hp : Spec3.prefixOK hd
          · rfl
          · obtain ⟨hgl, hne, _⟩ := getVersion_label hp
            rw [hver] at hgl
            exact absurd (hv0 ▸ Except.ok.inj hgl).symm hne
      · rename_i hv0
        split at h
        · rename_i o1 e1 hloop
          have he : e1 = e := by have := congrArg Prod.snd h; simpa using this
          subst he
          apply defTok_defect
          rw [hsplit, List.tail_cons]
          have := loop_err L rest _ none [] o1 e1 (by intro m _ hn; cases hn) (Or.inl rfl) hloop
          simpa using this
        · rename_i o1 hloop
          have hge : getError L o1 = some e := by have := congrArg Prod.snd h; simpa using this
          obtain ⟨es, hes, hts, ⟨hnd, _⟩, hrun⟩ := (loop_ok_iff L rest _ o1).mp hloop
          -- fields are valid, so the only possible error is a missing base metric
          have hvalid : ∀ m : M3, m.spec.level ≠ .base → isValid m (o1.field m) = true := by
            intro m hm
            rw [hrun, run_field _ _ hnd]
            cases hfind : es.find? (fun e => decide (e.m = m)) with
            | some e' =>
              have hmem := List.mem_of_find?_eq_some hfind
              have hem : e'.m = m := by simpa using List.find?_some hfind
              obtain ⟨_, hp⟩ := mem_vocab.mp (hes e' hmem)
              have := (code_facts e'.m _ hp).2.2.2.2
              rw [hem] at this; exact this
            | none => exact init_valid m hm
          have hb : getErrorBase o1 ≠ none := by
            intro hb
            rw [getError_none_of hb hvalid] at hge
            cases hge
          have hv : o1.ver ≠ 0 := by
            rw [hrun, run_ver]
            exact hv0
          have hbe : getErrorBase o1 = some .noBaseMetrics ∧ ∃ m ∈ baseMs, o1.field m = 0 := by
            unfold getErrorBase at hb ⊢
            simp only [hv, if_false] at hb ⊢
            by_cases hany : baseMs.any (fun m => o1.field m == 0) = true
            · simp only [hany, if_true, true_and]
              obtain ⟨m, hm, h0⟩ := List.any_eq_true.mp hany
              exact ⟨m, hm, by simpa using h0⟩
            · simp [hany] at hb
          have hee : e = .noBaseMetrics := by
            have : getError L o1 = some .noBaseMetrics := by
              cases L
              · exact hbe.1
              · show getErrorTemporal o1 = _
                unfold getErrorTemporal; rw [hbe.1]
              · show getErrorEnv o1 = _
                unfold getErrorEnv getErrorTemporal; rw [hbe.1]
            rw [this] at hge
            exact (Option.some.inj hge).symm
          subst hee
          obtain ⟨m, hm, hf0⟩ := hbe.2
          unfold Spec3.defect3
          rw [hsplit, baseMetrics_eq]
          simp only [List.tail_cons, List.any_map, List.any_eq_true, Function.comp]
          refine ⟨m, hm, ?_⟩
          simp only [Bool.not_eq_true']
          rw [List.any_eq_false]
          intro t ht
          rw [hts] at ht
          obtain ⟨x, hx, rfl⟩ := List.mem_map.mp ht
          obtain ⟨s1, s2, _⟩ := shaped_tok x (hes x hx)
          simp only [s1, s2, specOf_name, Bool.true_and, beq_iff_eq]
          intro hname
          have hxm : x.m = m := names_inj hname
          rw [hrun, run_field _ _ hnd] at hf0
          have : es.find? (fun e => decide (e.m = m)) = some x := by
            apply find?_unique hx (by simp [hxm])
            intro y hy hym
            exact nodup_map_inj hnd hy hx (by simpa [hxm] using hym)
          rw [this] at hf0
          obtain ⟨_, hp⟩ := mem_vocab.mp (hes x hx)
          exact (code_facts x.m _ hp).1 hf0

end CvssVerif.V3
