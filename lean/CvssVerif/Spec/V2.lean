import CvssVerif.Basic.Bytes
import CvssVerif.Basic.Vocab
/-
  Specification side for CVSS v2 (FIRST "A Complete Guide to the CVSS Version 2.0", section 3.2
  equations, section 3.2.1-3.2.3 weights), exact rationals, scores in tenths.

  The guide rounds to one decimal without fixing the direction at an exact half, and the
  properties allow either neighbour there: rounding is a *relation* `isRound1 x k`.
-/
namespace CvssVerif.Spec2

inductive AV | L | A | N deriving DecidableEq, Repr
inductive AC | H | M | L deriving DecidableEq, Repr
inductive Au | M | S | N deriving DecidableEq, Repr
inductive CIA | N | P | C deriving DecidableEq, Repr
inductive E | U | POC | F | H | ND deriving DecidableEq, Repr
inductive RL | OF | TF | W | U | ND deriving DecidableEq, Repr
inductive RC | UC | UR | C | ND deriving DecidableEq, Repr
inductive CDP | N | L | LM | MH | H | ND deriving DecidableEq, Repr
inductive TD | N | L | M | H | ND deriving DecidableEq, Repr
inductive Req | L | M | H | ND deriving DecidableEq, Repr

def AV.code : AV → Bytes | .L => b!"L" | .A => b!"A" | .N => b!"N"
def AC.code : AC → Bytes | .H => b!"H" | .M => b!"M" | .L => b!"L"
def Au.code : Au → Bytes | .M => b!"M" | .S => b!"S" | .N => b!"N"
def CIA.code : CIA → Bytes | .N => b!"N" | .P => b!"P" | .C => b!"C"
def E.code : E → Bytes | .U => b!"U" | .POC => b!"POC" | .F => b!"F" | .H => b!"H" | .ND => b!"ND"
def RL.code : RL → Bytes | .OF => b!"OF" | .TF => b!"TF" | .W => b!"W" | .U => b!"U" | .ND => b!"ND"
def RC.code : RC → Bytes | .UC => b!"UC" | .UR => b!"UR" | .C => b!"C" | .ND => b!"ND"
def CDP.code : CDP → Bytes
  | .N => b!"N" | .L => b!"L" | .LM => b!"LM" | .MH => b!"MH" | .H => b!"H" | .ND => b!"ND"
def TD.code : TD → Bytes | .N => b!"N" | .L => b!"L" | .M => b!"M" | .H => b!"H" | .ND => b!"ND"
def Req.code : Req → Bytes | .L => b!"L" | .M => b!"M" | .H => b!"H" | .ND => b!"ND"

def q (n d : Nat) : Rat := mkRat n d

def wAV : AV → Rat | .L => q 395 1000 | .A => q 646 1000 | .N => 1
def wAC : AC → Rat | .H => q 35 100 | .M => q 61 100 | .L => q 71 100
def wAu : Au → Rat | .M => q 45 100 | .S => q 56 100 | .N => q 704 1000
def wCIA : CIA → Rat | .N => 0 | .P => q 275 1000 | .C => q 660 1000
def wE : E → Rat | .U => q 85 100 | .POC => q 9 10 | .F => q 95 100 | .H => 1 | .ND => 1
def wRL : RL → Rat | .OF => q 87 100 | .TF => q 9 10 | .W => q 95 100 | .U => 1 | .ND => 1
def wRC : RC → Rat | .UC => q 9 10 | .UR => q 95 100 | .C => 1 | .ND => 1
def wCDP : CDP → Rat | .N => 0 | .L => q 1 10 | .LM => q 3 10 | .MH => q 4 10 | .H => q 5 10 | .ND => 0
def wTD : TD → Rat | .N => 0 | .L => q 25 100 | .M => q 75 100 | .H => 1 | .ND => 1
def wReq : Req → Rat | .L => q 5 10 | .M => 1 | .H => q 151 100 | .ND => 1

/-- `k` tenths is `x` rounded to one decimal; at an exact half either neighbour qualifies -/
def isRound1 (x : Rat) (k : Int) : Bool :=
  decide (x * 10 - k ≤ q 1 2) && decide ((k : Rat) - x * 10 ≤ q 1 2)

structure BaseVec where
  av : AV
  ac : AC
  au : Au
  c : CIA
  i : CIA
  a : CIA
  deriving DecidableEq, Repr

structure TempVec where
  e : E
  rl : RL
  rc : RC
  deriving DecidableEq, Repr

structure EnvVec where
  cdp : CDP
  td : TD
  cr : Req
  ir : Req
  ar : Req
  deriving DecidableEq, Repr

def impact (c i a : CIA) : Rat := q 1041 100 * (1 - (1 - wCIA c) * (1 - wCIA i) * (1 - wCIA a))
def exploitability (av : AV) (ac : AC) (au : Au) : Rat := 20 * wAV av * wAC ac * wAu au
def fImpact (imp : Rat) : Rat := if imp = 0 then 0 else q 1176 1000

/-- the base equation before rounding, for a given impact sub-score -/
def baseEq (imp ex : Rat) : Rat := (q 6 10 * imp + q 4 10 * ex - q 15 10) * fImpact imp

def baseRaw (v : BaseVec) : Rat := baseEq (impact v.c v.i v.a) (exploitability v.av v.ac v.au)

/-- the temporal equation before rounding, on a base score given in tenths -/
def temporalRaw (bs : Int) (t : TempVec) : Rat := (bs : Rat) / 10 * wE t.e * wRL t.rl * wRC t.rc

def adjustedImpact (v : BaseVec) (n : EnvVec) : Rat :=
  min 10 (q 1041 100 * (1 - (1 - wCIA v.c * wReq n.cr) * (1 - wCIA v.i * wReq n.ir) * (1 - wCIA v.a * wReq n.ar)))

/-- the base equation with Impact replaced by AdjustedImpact, before rounding -/
def adjustedBaseRaw (v : BaseVec) (n : EnvVec) : Rat :=
  baseEq (adjustedImpact v n) (exploitability v.av v.ac v.au)

/-- the environmental equation before rounding, on an adjusted temporal score in tenths -/
def envRaw (at' : Int) (n : EnvVec) : Rat :=
  ((at' : Rat) / 10 + (10 - (at' : Rat) / 10) * wCDP n.cdp) * wTD n.td

/-- **C04** base: the reported tenths `k` are the base equation rounded to one decimal -/
def okBase (v : BaseVec) (k : Int) : Bool := isRound1 (baseRaw v) k

/-- **C04** temporal: on the reported base score `bs`; the base score itself without the group -/
def okTemporal (bs : Int) (t : Option TempVec) (k : Int) : Bool :=
  match t with
  | none => k == bs
  | some t => isRound1 (temporalRaw bs t) k

/-- **C05**: `k` is an admissible environmental score: there are admissible roundings of the
    adjusted base score and adjusted temporal score leading to it.  Where the adjusted base
    equation is negative, that negative tenth or 0 may stand for it. -/
def okAdjBase (v : BaseVec) (n : EnvVec) (kb : Int) : Bool :=
  isRound1 (adjustedBaseRaw v n) kb || (decide (adjustedBaseRaw v n < 0) && kb == 0)

/-- qualitative bands used by NVD for v2 (score in tenths) -/
inductive Sev | low | medium | high deriving DecidableEq, Repr
def band (k : Int) : Sev := if k ≤ 39 then .low else if k ≤ 69 then .medium else .high

end CvssVerif.Spec2
