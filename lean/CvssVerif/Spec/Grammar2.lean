import CvssVerif.Spec.V2
/-
  The canonical vector-string language of CVSS v2 as properties C08-C11 state it: executable
  Boolean predicates over byte strings, independent of the model's decoder.
-/
namespace CvssVerif.Spec2

structure MSpec where
  name  : Bytes
  level : Level
  codes : List Bytes
  deriving DecidableEq

def baseG : List MSpec := [
  ⟨b!"AV", .base, [b!"L", b!"A", b!"N"]⟩, ⟨b!"AC", .base, [b!"H", b!"M", b!"L"]⟩,
  ⟨b!"Au", .base, [b!"M", b!"S", b!"N"]⟩, ⟨b!"C", .base, [b!"N", b!"P", b!"C"]⟩,
  ⟨b!"I", .base, [b!"N", b!"P", b!"C"]⟩, ⟨b!"A", .base, [b!"N", b!"P", b!"C"]⟩]
def tempG : List MSpec := [
  ⟨b!"E", .temporal, [b!"U", b!"POC", b!"F", b!"H", b!"ND"]⟩,
  ⟨b!"RL", .temporal, [b!"OF", b!"TF", b!"W", b!"U", b!"ND"]⟩,
  ⟨b!"RC", .temporal, [b!"UC", b!"UR", b!"C", b!"ND"]⟩]
def envG : List MSpec := [
  ⟨b!"CDP", .environmental, [b!"N", b!"L", b!"LM", b!"MH", b!"H", b!"ND"]⟩,
  ⟨b!"TD", .environmental, [b!"N", b!"L", b!"M", b!"H", b!"ND"]⟩,
  ⟨b!"CR", .environmental, [b!"L", b!"M", b!"H", b!"ND"]⟩,
  ⟨b!"IR", .environmental, [b!"L", b!"M", b!"H", b!"ND"]⟩,
  ⟨b!"AR", .environmental, [b!"L", b!"M", b!"H", b!"ND"]⟩]
def metrics : List MSpec := baseG ++ tempG ++ envG
def metricsOf (L : Level) : List MSpec := metrics.filter fun m => m.level.le L

def tokIs (m : MSpec) (t : Bytes) : Bool := m.codes.any fun c => t == m.name ++ [colon] ++ c

/-- the tokens are exactly the metrics `ms`, in order, each with one of its codes -/
def shapeIs : List MSpec → List Bytes → Bool
  | [], [] => true
  | m :: ms, t :: ts => tokIs m t && shapeIs ms ts
  | _, _ => false

/-- **C08**: the canonical vectors of level `L`: the six base metrics in order, optionally the
    complete temporal group, optionally the complete environmental group, each group only at a
    decoder whose level includes it -/
def canon2 (L : Level) (s : Bytes) : Bool :=
  let toks := split slash s
  shapeIs baseG toks
  || (Level.temporal.le L && shapeIs (baseG ++ tempG) toks)
  || (Level.environmental.le L && shapeIs (baseG ++ envG) toks)
  || (Level.environmental.le L && shapeIs (baseG ++ tempG ++ envG) toks)

def named (m : MSpec) (t : Bytes) : Bool := (m.name ++ [colon]).isPrefixOf t
/-- the code written for metric `m` in a canonical vector, if any -/
def written (m : MSpec) (s : Bytes) : Option Bytes :=
  match (split slash s).find? (named m) with
  | some t => some (t.drop (m.name.length + 1))
  | none => none
def hasGroup (g : List MSpec) (s : Bytes) : Bool := g.any fun m => (written m s).isSome

/-! ### defect classes (C11) -/
def shaped (t : Bytes) : Bool :=
  match split colon t with
  | [n, v] => n != [] && v != []
  | _ => false
def tokName (t : Bytes) : Bytes := (split colon t).headD []
def tokValue (t : Bytes) : Bytes := ((split colon t).tail).headD []

def groupPartial (g : List MSpec) (toks : List Bytes) : Bool :=
  let present := fun (m : MSpec) => toks.any fun t => shaped t && tokName t == m.name
  g.any present && !g.all present

def defect2 (L : Level) (e : Err) (s : Bytes) : Bool :=
  let toks := split slash s
  let known := metricsOf L
  let valid := fun (t : Bytes) => known.any fun m => tokIs m t
  match e with
  | .invalidVector => toks.any fun t => !shaped t
  | .sameMetric => known.any fun m => (toks.filter fun t => shaped t && tokName t == m.name).length ≥ 2
  | .invalidValue => toks.any fun t => shaped t && known.any fun m => tokName t == m.name && !m.codes.contains (tokValue t)
  | .notSupportMetric => toks.any fun t => shaped t && !known.any fun m => tokName t == m.name
  | .noBaseMetrics => baseG.any fun m => !toks.any fun t => shaped t && tokName t == m.name
  | .noTemporalMetrics => Level.temporal.le L && groupPartial tempG toks
  | .noEnvironmentalMetrics => Level.environmental.le L && groupPartial envG toks
  | .misordered => toks.all valid && !canon2 L s
  | _ => false

/-! ### from codes to enumerations -/
def AV.ofCode (b : Bytes) : Option AV := [AV.L, .A, .N].find? (·.code == b)
def AC.ofCode (b : Bytes) : Option AC := [AC.H, .M, .L].find? (·.code == b)
def Au.ofCode (b : Bytes) : Option Au := [Au.M, .S, .N].find? (·.code == b)
def CIA.ofCode (b : Bytes) : Option CIA := [CIA.N, .P, .C].find? (·.code == b)
def E.ofCode (b : Bytes) : Option E := [E.U, .POC, .F, .H, .ND].find? (·.code == b)
def RL.ofCode (b : Bytes) : Option RL := [RL.OF, .TF, .W, .U, .ND].find? (·.code == b)
def RC.ofCode (b : Bytes) : Option RC := [RC.UC, .UR, .C, .ND].find? (·.code == b)
def CDP.ofCode (b : Bytes) : Option CDP := [CDP.N, .L, .LM, .MH, .H, .ND].find? (·.code == b)
def TD.ofCode (b : Bytes) : Option TD := [TD.N, .L, .M, .H, .ND].find? (·.code == b)
def Req.ofCode (b : Bytes) : Option Req := [Req.L, .M, .H, .ND].find? (·.code == b)

def mspec (n : Bytes) : MSpec := (metrics.find? (·.name == n)).getD ⟨n, .base, []⟩

def baseOf (s : Bytes) : Option BaseVec := do
  let w := fun n => (written (mspec n) s).getD []
  let av ← AV.ofCode (w b!"AV"); let ac ← AC.ofCode (w b!"AC"); let au ← Au.ofCode (w b!"Au")
  let c ← CIA.ofCode (w b!"C"); let i ← CIA.ofCode (w b!"I"); let a ← CIA.ofCode (w b!"A")
  pure ⟨av, ac, au, c, i, a⟩
def tempOf (s : Bytes) : Option TempVec := do
  let w := fun n => (written (mspec n) s).getD []
  let e ← E.ofCode (w b!"E"); let rl ← RL.ofCode (w b!"RL"); let rc ← RC.ofCode (w b!"RC")
  pure ⟨e, rl, rc⟩
def envOf (s : Bytes) : Option EnvVec := do
  let w := fun n => (written (mspec n) s).getD []
  let cdp ← CDP.ofCode (w b!"CDP"); let td ← TD.ofCode (w b!"TD")
  let cr ← Req.ofCode (w b!"CR"); let ir ← Req.ofCode (w b!"IR"); let ar ← Req.ofCode (w b!"AR")
  pure ⟨cdp, td, cr, ir, ar⟩

end CvssVerif.Spec2
