import CvssVerif.Basic.Bytes
/-
  Specification side for CVSS v3.0 / v3.1, written from the FIRST specification documents
  (section 7 "CVSS v3.x Equations", section 7.4 "Metric Values") and independent of the model:
  exact rational arithmetic, enumerations named by the specification's value codes.
  Scores are returned in *tenths* (an `Int`), so "7.3" is `73`.
-/
namespace CvssVerif.Spec3

inductive Ver | v30 | v31 deriving DecidableEq, Repr
inductive AV | N | A | L | P deriving DecidableEq, Repr
inductive AC | L | H deriving DecidableEq, Repr
inductive PR | N | L | H deriving DecidableEq, Repr
inductive UI | N | R deriving DecidableEq, Repr
inductive Sc | U | C deriving DecidableEq, Repr
inductive CIA | H | L | N deriving DecidableEq, Repr
inductive E | X | H | F | P | U deriving DecidableEq, Repr
inductive RL | X | U | W | T | O deriving DecidableEq, Repr
inductive RC | X | C | R | U deriving DecidableEq, Repr
inductive Req | X | H | M | L deriving DecidableEq, Repr

/-! value codes as written in vector strings -/
def Ver.label : Ver → Bytes | .v30 => b!"3.0" | .v31 => b!"3.1"
def AV.code : AV → Bytes | .N => b!"N" | .A => b!"A" | .L => b!"L" | .P => b!"P"
def AC.code : AC → Bytes | .L => b!"L" | .H => b!"H"
def PR.code : PR → Bytes | .N => b!"N" | .L => b!"L" | .H => b!"H"
def UI.code : UI → Bytes | .N => b!"N" | .R => b!"R"
def Sc.code : Sc → Bytes | .U => b!"U" | .C => b!"C"
def CIA.code : CIA → Bytes | .H => b!"H" | .L => b!"L" | .N => b!"N"
def E.code : E → Bytes | .X => b!"X" | .H => b!"H" | .F => b!"F" | .P => b!"P" | .U => b!"U"
def RL.code : RL → Bytes | .X => b!"X" | .U => b!"U" | .W => b!"W" | .T => b!"T" | .O => b!"O"
def RC.code : RC → Bytes | .X => b!"X" | .C => b!"C" | .R => b!"R" | .U => b!"U"
def Req.code : Req → Bytes | .X => b!"X" | .H => b!"H" | .M => b!"M" | .L => b!"L"
/-- a Modified metric: `none` is Not Defined (X) -/
def mcode {α} (code : α → Bytes) : Option α → Bytes | none => b!"X" | some a => code a

/-! ### metric weights (specification table) -/
def q (n d : Nat) : Rat := mkRat n d

def wAV : AV → Rat | .N => q 85 100 | .A => q 62 100 | .L => q 55 100 | .P => q 2 10
def wAC : AC → Rat | .L => q 77 100 | .H => q 44 100
/-- Privileges Required depends on (modified) scope -/
def wPR : Sc → PR → Rat
  | _, .N => q 85 100
  | .U, .L => q 62 100 | .C, .L => q 68 100
  | .U, .H => q 27 100 | .C, .H => q 5 10
def wUI : UI → Rat | .N => q 85 100 | .R => q 62 100
def wCIA : CIA → Rat | .H => q 56 100 | .L => q 22 100 | .N => 0
def wE : E → Rat | .X => 1 | .H => 1 | .F => q 97 100 | .P => q 94 100 | .U => q 91 100
def wRL : RL → Rat | .X => 1 | .U => 1 | .W => q 97 100 | .T => q 96 100 | .O => q 95 100
def wRC : RC → Rat | .X => 1 | .C => 1 | .R => q 96 100 | .U => q 92 100
def wReq : Req → Rat | .X => 1 | .H => q 15 10 | .M => 1 | .L => q 5 10

/-! ### Roundup -/
/-- "the smallest number, specified to one decimal place, that is equal to or higher than its
    input", in tenths -/
def roundup (x : Rat) : Int := (x * 10).ceil

/-- v3.1 Appendix A's integer formulation, on exact input (in tenths) -/
def roundup31 (x : Rat) : Int :=
  let i := (x * 100000 + q 1 2).floor
  if i % 10000 = 0 then i / 10000 else i / 10000 + 1

/-! ### base -/
structure BaseVec where
  ver : Ver
  av : AV
  ac : AC
  pr : PR
  ui : UI
  s : Sc
  c : CIA
  i : CIA
  a : CIA
  deriving DecidableEq, Repr

def iss (c i a : CIA) : Rat := 1 - (1 - wCIA c) * (1 - wCIA i) * (1 - wCIA a)

def impactBase (s : Sc) (x : Rat) : Rat :=
  match s with
  | .U => q 642 100 * x
  | .C => q 752 100 * (x - q 29 1000) - q 325 100 * (x - q 2 100) ^ 15

def exploitability (av : AV) (ac : AC) (pr : PR) (s : Sc) (ui : UI) : Rat :=
  q 822 100 * wAV av * wAC ac * wPR s pr * wUI ui

/-- `Roundup(min(Impact + Exploitability, 10))`, with the factor 1.08 when scope is changed; tenths -/
def combineQ (s : Sc) (imp ex : Rat) : Int :=
  match s with
  | .U => roundup (min (imp + ex) 10)
  | .C => roundup (min (q 108 100 * (imp + ex)) 10)

/-- base score in tenths -/
def baseTenths (v : BaseVec) : Int :=
  let imp := impactBase v.s (iss v.c v.i v.a)
  if imp ≤ 0 then 0 else combineQ v.s imp (exploitability v.av v.ac v.pr v.s v.ui)

/-! ### temporal -/
structure TempVec where
  e : E
  rl : RL
  rc : RC
  deriving DecidableEq, Repr

/-- `Roundup(BaseScore × E × RL × RC)` on a base score given in tenths -/
def temporalOfTenths (k : Int) (t : TempVec) : Int :=
  roundup ((k : Rat) / 10 * wE t.e * wRL t.rl * wRC t.rc)

def temporalTenths (v : BaseVec) (t : TempVec) : Int := temporalOfTenths (baseTenths v) t

/-! ### environmental -/
structure EnvVec where
  cr : Req
  ir : Req
  ar : Req
  mav : Option AV
  mac : Option AC
  mpr : Option PR
  mui : Option UI
  ms : Option Sc
  mc : Option CIA
  mi : Option CIA
  ma : Option CIA
  deriving DecidableEq, Repr

/-- a Modified metric that is Not Defined takes the value of its base metric -/
def eff {α} (m : Option α) (b : α) : α := m.getD b

def miss (v : BaseVec) (n : EnvVec) : Rat :=
  min (1 - (1 - wReq n.cr * wCIA (eff n.mc v.c)) * (1 - wReq n.ir * wCIA (eff n.mi v.i))
         * (1 - wReq n.ar * wCIA (eff n.ma v.a))) (q 915 1000)

def modifiedImpact (ver : Ver) (s : Sc) (x : Rat) : Rat :=
  match s, ver with
  | .U, _ => q 642 100 * x
  | .C, .v30 => q 752 100 * (x - q 29 1000) - q 325 100 * (x - q 2 100) ^ 15
  | .C, .v31 => q 752 100 * (x - q 29 1000) - q 325 100 * (x * q 9731 10000 - q 2 100) ^ 13

def envTenths (v : BaseVec) (t : TempVec) (n : EnvVec) : Int :=
  let sc := eff n.ms v.s
  let mi := modifiedImpact v.ver sc (miss v n)
  if mi ≤ 0 then 0 else
  let me := exploitability (eff n.mav v.av) (eff n.mac v.ac) (eff n.mpr v.pr) sc (eff n.mui v.ui)
  temporalOfTenths (combineQ sc mi me) t

/-! ### qualitative severity rating scale (section 5), score in tenths -/
inductive Sev | none | low | medium | high | critical deriving DecidableEq, Repr
def band (k : Int) : Sev :=
  if k ≤ 0 then .none else if k ≤ 39 then .low else if k ≤ 69 then .medium
  else if k ≤ 89 then .high else .critical

end CvssVerif.Spec3
