import CvssVerif.Basic.Bytes
import CvssVerif.Basic.Vocab
import CvssVerif.Spec.V3
/-
  The vector-string language of CVSS v3.0 / v3.1 as the properties C07, C09, C10, C11 state
  it, written as executable Boolean predicates over byte strings and independent of the
  model's decoder.
-/
namespace CvssVerif.Spec3

/-- a metric of the vector grammar: name, level and the specification's value codes -/
structure MSpec where
  name  : Bytes
  level : Level
  codes : List Bytes
  deriving DecidableEq

/-- all 22 metrics in specification order -/
def metrics : List MSpec := [
  ⟨b!"AV", .base, [b!"N", b!"A", b!"L", b!"P"]⟩,
  ⟨b!"AC", .base, [b!"L", b!"H"]⟩,
  ⟨b!"PR", .base, [b!"N", b!"L", b!"H"]⟩,
  ⟨b!"UI", .base, [b!"N", b!"R"]⟩,
  ⟨b!"S", .base, [b!"U", b!"C"]⟩,
  ⟨b!"C", .base, [b!"H", b!"L", b!"N"]⟩,
  ⟨b!"I", .base, [b!"H", b!"L", b!"N"]⟩,
  ⟨b!"A", .base, [b!"H", b!"L", b!"N"]⟩,
  ⟨b!"E", .temporal, [b!"X", b!"H", b!"F", b!"P", b!"U"]⟩,
  ⟨b!"RL", .temporal, [b!"X", b!"U", b!"W", b!"T", b!"O"]⟩,
  ⟨b!"RC", .temporal, [b!"X", b!"C", b!"R", b!"U"]⟩,
  ⟨b!"CR", .environmental, [b!"X", b!"H", b!"M", b!"L"]⟩,
  ⟨b!"IR", .environmental, [b!"X", b!"H", b!"M", b!"L"]⟩,
  ⟨b!"AR", .environmental, [b!"X", b!"H", b!"M", b!"L"]⟩,
  ⟨b!"MAV", .environmental, [b!"X", b!"N", b!"A", b!"L", b!"P"]⟩,
  ⟨b!"MAC", .environmental, [b!"X", b!"L", b!"H"]⟩,
  ⟨b!"MPR", .environmental, [b!"X", b!"N", b!"L", b!"H"]⟩,
  ⟨b!"MUI", .environmental, [b!"X", b!"N", b!"R"]⟩,
  ⟨b!"MS", .environmental, [b!"X", b!"U", b!"C"]⟩,
  ⟨b!"MC", .environmental, [b!"X", b!"H", b!"L", b!"N"]⟩,
  ⟨b!"MI", .environmental, [b!"X", b!"H", b!"L", b!"N"]⟩,
  ⟨b!"MA", .environmental, [b!"X", b!"H", b!"L", b!"N"]⟩]

/-- the metrics a decoder of level `L` knows -/
def metricsOf (L : Level) : List MSpec := metrics.filter fun m => m.level.le L
def baseMetrics : List MSpec := metricsOf .base

/-- `t` is `Name:Value` for metric `m` with one of its codes -/
def tokIs (m : MSpec) (t : Bytes) : Bool := m.codes.any fun c => t == m.name ++ [colon] ++ c

def tokOK (L : Level) (t : Bytes) : Bool := (metricsOf L).any fun m => tokIs m t

/-- the token `t` names metric `m` (whatever its value) -/
def named (m : MSpec) (t : Bytes) : Bool := (m.name ++ [colon]).isPrefixOf t

/-- the name part of a token: everything before its first colon -/
def nameOf (t : Bytes) : Bytes := t.takeWhile (· != colon)

/-- no two equal elements -/
def nodupB : List Bytes → Bool
  | [] => true
  | x :: xs => !xs.contains x && nodupB xs

def prefixOK (hd : Bytes) : Bool := hd == b!"CVSS:3.0" || hd == b!"CVSS:3.1"

/-- **C07**: the well-formed vectors of level `L`: the prefix `CVSS:3.0` or `CVSS:3.1` followed
    by '/'-separated `Name:Value` tokens, every name a metric of the level with one of its
    codes, no metric twice, all eight base metrics present. -/
def wf3 (L : Level) (s : Bytes) : Bool :=
  match split slash s with
  | [] => false
  | hd :: toks =>
    prefixOK hd && toks.all (tokOK L) && nodupB (toks.map nameOf) &&
    baseMetrics.all (fun m => toks.any (tokIs m))

/-- the code written for metric `m` in a well-formed vector, if any -/
def written (m : MSpec) (s : Bytes) : Option Bytes :=
  match (split slash s).tail.find? (named m) with
  | some t => some (t.drop (m.name.length + 1))
  | none => none

/-- the version label of a well-formed vector -/
def label (s : Bytes) : Bytes := ((split slash s).headD []).drop 5

/-- **C09**: the value of metric `m` that the decoded object must hold, as a code: the written
    one, Not Defined (X) for an unwritten optional metric -/
def expectedCode (m : MSpec) (s : Bytes) : Bytes := (written m s).getD b!"X"

/-- **C10**: the canonical encoding at level `L`: prefix, then every metric of the level in
    specification order, X spelled out -/
def canon3 (L : Level) (s : Bytes) : Bytes :=
  join slash ((b!"CVSS:" ++ label s) :: (metricsOf L).map fun m => m.name ++ [colon] ++ expectedCode m s)

/-! ### from codes to the enumerations of `Spec/V3.lean` -/
def Ver.ofLabel (b : Bytes) : Option Ver := [Ver.v30, .v31].find? (·.label == b)
def AV.ofCode (b : Bytes) : Option AV := [AV.N, .A, .L, .P].find? (·.code == b)
def AC.ofCode (b : Bytes) : Option AC := [AC.L, .H].find? (·.code == b)
def PR.ofCode (b : Bytes) : Option PR := [PR.N, .L, .H].find? (·.code == b)
def UI.ofCode (b : Bytes) : Option UI := [UI.N, .R].find? (·.code == b)
def Sc.ofCode (b : Bytes) : Option Sc := [Sc.U, .C].find? (·.code == b)
def CIA.ofCode (b : Bytes) : Option CIA := [CIA.H, .L, .N].find? (·.code == b)
def E.ofCode (b : Bytes) : Option E := [E.X, .H, .F, .P, .U].find? (·.code == b)
def RL.ofCode (b : Bytes) : Option RL := [RL.X, .U, .W, .T, .O].find? (·.code == b)
def RC.ofCode (b : Bytes) : Option RC := [RC.X, .C, .R, .U].find? (·.code == b)
def Req.ofCode (b : Bytes) : Option Req := [Req.X, .H, .M, .L].find? (·.code == b)

def mspec (n : Bytes) : MSpec := (metrics.find? (·.name == n)).getD ⟨n, .base, []⟩

/-- a Modified metric's code: X is Not Defined -/
def modOf {α : Type} (f : Bytes → Option α) (c : Bytes) : Option (Option α) :=
  if c == b!"X" then some none else (f c).map some

/-- the specification vectors denoted by a well-formed string (`none` if it is not one) -/
def vecOf (s : Bytes) : Option (BaseVec × TempVec × EnvVec) := do
  let w := fun n => expectedCode (mspec n) s
  let ver ← Ver.ofLabel (label s)
  let av ← AV.ofCode (w b!"AV"); let ac ← AC.ofCode (w b!"AC"); let pr ← PR.ofCode (w b!"PR")
  let ui ← UI.ofCode (w b!"UI"); let sc ← Sc.ofCode (w b!"S")
  let c ← CIA.ofCode (w b!"C"); let i ← CIA.ofCode (w b!"I"); let a ← CIA.ofCode (w b!"A")
  let e ← E.ofCode (w b!"E"); let rl ← RL.ofCode (w b!"RL"); let rc ← RC.ofCode (w b!"RC")
  let cr ← Req.ofCode (w b!"CR"); let ir ← Req.ofCode (w b!"IR"); let ar ← Req.ofCode (w b!"AR")
  let mav ← modOf AV.ofCode (w b!"MAV"); let mac ← modOf AC.ofCode (w b!"MAC")
  let mpr ← modOf PR.ofCode (w b!"MPR"); let mui ← modOf UI.ofCode (w b!"MUI")
  let ms ← modOf Sc.ofCode (w b!"MS"); let mc ← modOf CIA.ofCode (w b!"MC")
  let mi ← modOf CIA.ofCode (w b!"MI"); let ma ← modOf CIA.ofCode (w b!"MA")
  pure (⟨ver, av, ac, pr, ui, sc, c, i, a⟩, ⟨e, rl, rc⟩, ⟨cr, ir, ar, mav, mac, mpr, mui, ms, mc, mi, ma⟩)

/-! ### C11: defect classes of a rejected string -/

/-- `Name:Value` shape: exactly one colon, both sides non-empty -/
def shaped (t : Bytes) : Bool :=
  match split colon t with
  | [n, v] => n != [] && v != []
  | _ => false
def tokName (t : Bytes) : Bytes := (split colon t).headD []
def tokValue (t : Bytes) : Bytes := ((split colon t).tail).headD []

/-- `CVSS:<label>` shape -/
def prefixShape (hd : Bytes) : Bool :=
  match split colon hd with
  | [n, _] => n == b!"CVSS"
  | _ => false

/-- does the string exhibit the defect that sentinel `e` names (at a decoder of level `L`)? -/
def defect3 (L : Level) (e : Err) (s : Bytes) : Bool :=
  let pieces := split slash s
  let hd := pieces.headD []
  let toks := pieces.tail
  match e with
  | .invalidVector => !prefixShape hd || toks.any (fun t => !shaped t)
  | .notSupportVer => prefixShape hd && !prefixOK hd
  | .sameMetric => (metricsOf L).any fun m => ((toks.filter fun t => shaped t && tokName t == m.name).length ≥ 2)
  | .invalidValue => toks.any fun t => shaped t && (metricsOf L).any fun m => tokName t == m.name && !m.codes.contains (tokValue t)
  | .notSupportMetric => toks.any fun t => shaped t && !(metricsOf L).any fun m => tokName t == m.name
  | .noBaseMetrics => baseMetrics.any fun m => !toks.any fun t => shaped t && tokName t == m.name
  | _ => false

end CvssVerif.Spec3
