import CvssVerif.Model.V3
import CvssVerif.Model.V2
/-
  Canonical result lines of decode operations (same format as go/harness).
-/
open CvssVerif

namespace Drv

def hex16 (n : Nat) : String :=
  let ds := (List.range 16).reverse.map fun i => hexDigit ((n >>> (4 * i)) % 16)
  String.ofList ds

def errTag : Option Err → String
  | none => "-"
  | some e => e.tag

def commaJoin (xs : List String) : String := ",".intercalate xs

def levelOf (s : String) : Option Level :=
  if s == "B" then some .base else if s == "T" then some .temporal
  else if s == "E" then some .environmental else none

def levelsUpTo (L : Level) : List Level := Level.all.filter fun l => l.le L

def dump3 (L : Level) (o : V3.Obj3) : String :=
  let ms := V3.msOf L
  let ls := levelsUpTo L
  let f := commaJoin (ms.map fun m => toString (o.field m))
  let n := String.ofList (ms.map fun m => if o.named m then '1' else '0')
  let s := commaJoin (ls.map fun l => hex16 (V3.score l o))
  let sv := commaJoin (ls.map fun l => toString (V3.severity l o))
  let enc := commaJoin (ls.map fun l => let p := V3.encode l o; toHex p.1 ++ "|" ++ errTag p.2)
  let ge := commaJoin (ls.map fun l => errTag (V3.getError l o))
  let fc := commaJoin (ms.map fun m => bytesToStr (m.spec.str (o.field m)))
  let svn := commaJoin (ls.map fun l => bytesToStr (V3.severityName (V3.severity l o)))
  let se := String.ofList (ls.map fun _ => '1')
  s!"v={o.ver} vl={bytesToStr (V3.verStr o.ver)} f={f} fc={fc} n={n} s={s} sv={sv} svn={svn} enc={enc} ge={ge} se={se}"

def dropKey (d key : String) : String :=
  " ".intercalate ((d.splitOn " ").filter fun tok => !(tok.startsWith (key ++ "=")))

def nthCsv (csv : String) (i : Nat) : String := ((csv.splitOn ",")[i]?).getD "?"

/-- the prefix and those tokens of the input whose name is a metric of level ≤ l -/
def part3 (l : Level) (vec : Bytes) : Bytes :=
  match split slash vec with
  | [] => []
  | hd :: toks => join slash (hd :: toks.filter fun t =>
      (V3.msOf l).any fun m => m.spec.name == ((split colon t).head?.getD []))

def part2 (l : Level) (vec : Bytes) : Bytes :=
  join slash ((split slash vec).filter fun t =>
      (V2.msOf l).any fun m => m.spec.name == ((split colon t).head?.getD []))

/-- `rt`: decoding the object's own encoding again gives the same observable state;
    `pv`: each lower-level view equals a fresh lower-level decode of the view's encoding;
    `pw`: … of the input's own tokens of that level -/
def flags3 (L : Level) (o : V3.Obj3) (vec : Bytes) : String :=
  let d := dump3 L o
  let (o2, e2) := V3.decode L V3.Obj3.new (V3.encode L o).1
  let rt := if e2.isNone && dropKey (dump3 L o2) "n" == dropKey d "n" then "1" else "0"
  let lows := (levelsUpTo L).filter (· != L)
  let pv := String.ofList (lows.map fun l =>
    let (ol, el) := V3.decode l V3.Obj3.new (V3.encode l o).1
    if el.isNone && V3.score l ol == V3.score l o && V3.severity l ol == V3.severity l o
       && V3.encode l ol == V3.encode l o then '1' else '0')
  let pw := String.ofList (lows.map fun l =>
    let (ol, el) := V3.decode l V3.Obj3.new (part3 l vec)
    if el.isNone && V3.score l ol == V3.score l o && V3.severity l ol == V3.severity l o
       && V3.encode l ol == V3.encode l o then '1' else '0')
  s!" rt={rt} pv={if pv == "" then "-" else pv} pw={if pw == "" then "-" else pw}"

def opD3 (L : Level) (vec : Bytes) (nilRecv : Bool) : String :=
  let (o, e) := V3.decode L V3.Obj3.new vec
  let head := s!"r={if e.isNone then "1" else "0"} e={errTag e}"
  if nilRecv && e.isSome then head
  else head ++ " " ++ dump3 L o ++ (if dump3 L o == dump3 L o then " q2=1" else " q2=0")
    ++ " vq=" ++ (if L == .base then "-" else String.ofList ((levelsUpTo L).filter (· != L) |>.map fun _ => '1'))
    ++ " fq=1"
    ++ (if e.isNone then flags3 L o vec else "")

/-- `RD3`: the constructor result has been used for an earlier `Decode(pre)` (outcome ignored) -/
def opRD3 (L : Level) (pre vec : Bytes) : String :=
  let o0 := (V3.decode L V3.Obj3.new pre).1
  let (o, e) := V3.decode L o0 vec
  let head := s!"r={if e.isNone then "1" else "0"} e={errTag e}"
  head ++ " " ++ dump3 L o ++ " q2=1"
    ++ " vq=" ++ (if L == .base then "-" else String.ofList ((levelsUpTo L).filter (· != L) |>.map fun _ => '1'))
    ++ " fq=1"
    ++ (if e.isNone then flags3 L o vec else "")

def dump2 (L : Level) (o : V2.Obj2) : String :=
  let ms := V2.msOf L
  let ls := levelsUpTo L
  let f := commaJoin (ms.map fun m => toString (o.field m))
  let n := String.ofList (ms.map fun m => if o.named m then '1' else '0')
  let s := commaJoin (ls.map fun l => hex16 (V2.score l o))
  let sv := commaJoin (ls.map fun l => toString (V2.severity l o))
  let enc := commaJoin (ls.map fun l => let p := V2.encode l o; toHex p.1 ++ "|" ++ errTag p.2)
  let ge := commaJoin (ls.map fun l => errTag (V2.getError l o))
  let fc := commaJoin (ms.map fun m => bytesToStr (m.spec.str (o.field m)))
  let svn := commaJoin (ls.map fun l => bytesToStr (V2.severityName (V2.severity l o)))
  let se := String.ofList (ls.map fun _ => '1')
  let emp := commaJoin ((ls.filter (· != .base)).map fun l =>
    toString (if l == .temporal then V2.tempEmpty o else V2.envEmpty o))
  s!"f={f} fc={fc} n={n} s={s} sv={sv} svn={svn} enc={enc} ge={ge} se={se} emp={emp}"

def flags2 (L : Level) (o : V2.Obj2) (vec : Bytes) : String :=
  let d := dump2 L o
  let (o2, e2) := V2.decode L V2.Obj2.new (V2.encode L o).1
  let rt := if e2.isNone && dropKey (dump2 L o2) "n" == dropKey d "n" then "1" else "0"
  let lows := (levelsUpTo L).filter (· != L)
  let pv := String.ofList (lows.map fun l =>
    let (ol, el) := V2.decode l V2.Obj2.new (V2.encode l o).1
    if el.isNone && V2.score l ol == V2.score l o && V2.severity l ol == V2.severity l o
       && V2.encode l ol == V2.encode l o then '1' else '0')
  let pw := String.ofList (lows.map fun l =>
    let (ol, el) := V2.decode l V2.Obj2.new (part2 l vec)
    if el.isNone && V2.score l ol == V2.score l o && V2.severity l ol == V2.severity l o
       && V2.encode l ol == V2.encode l o then '1' else '0')
  s!" rt={rt} pv={if pv == "" then "-" else pv} pw={if pw == "" then "-" else pw}"

def opD2 (L : Level) (vec : Bytes) (nilRecv : Bool) : String :=
  let (o, e) := V2.decode L V2.Obj2.new vec
  let head := s!"r={if e.isNone then "1" else "0"} e={errTag e}"
  if nilRecv && e.isSome then head
  else head ++ " " ++ dump2 L o ++ (if dump2 L o == dump2 L o then " q2=1" else " q2=0")
    ++ " vq=" ++ (if L == .base then "-" else String.ofList ((levelsUpTo L).filter (· != L) |>.map fun _ => '1'))
    ++ " fq=1"
    ++ (if e.isNone then flags2 L o vec else "")


def opRD2 (L : Level) (pre vec : Bytes) : String :=
  let o0 := (V2.decode L V2.Obj2.new pre).1
  let (o, e) := V2.decode L o0 vec
  let head := s!"r={if e.isNone then "1" else "0"} e={errTag e}"
  head ++ " " ++ dump2 L o ++ " q2=1"
    ++ " vq=" ++ (if L == .base then "-" else String.ofList ((levelsUpTo L).filter (· != L) |>.map fun _ => '1'))
    ++ " fq=1"
    ++ (if e.isNone then flags2 L o vec else "")

end Drv
