import CvssVerif.Model.V3
import CvssVerif.Model.V2
import CvssVerif.Spec.Grammar3
import CvssVerif.Spec.Grammar2
import CvssVerif.Driver.Dump
import CvssVerif.Model.Report
import CvssVerif.Model.Heap
/-
  Extension operations of the driver.
  `SPEC3` / `SPEC2`: the *specification's* verdict on a string (model-independent oracle used
  by check.py to decide whether a disagreement is a violation of the property).
-/
namespace Drv
open CvssVerif

def levelOf' (s : String) : Option Level :=
  if s == "B" then some .base else if s == "T" then some .temporal
  else if s == "E" then some .environmental else none

def lvlsUpTo (L : Level) : List Level := Level.all.filter fun l => l.le L
def cj (xs : List String) : String := ",".intercalate xs

def sev3Name : Spec3.Sev → String
  | .none => "None" | .low => "Low" | .medium => "Medium" | .high => "High" | .critical => "Critical"
def sev2Name : Spec2.Sev → String
  | .low => "Low" | .medium => "Medium" | .high => "High"

def spec3 (L : Level) (s : Bytes) : String :=
  if Spec3.wf3 L s then
    let ms := Spec3.metricsOf L
    let fc := cj (ms.map fun m => bytesToStr (Spec3.expectedCode m s))
    match Spec3.vecOf s with
    | none => "acc=1 vec=NONE"
    | some (b, t, n) =>
      let kb := Spec3.baseTenths b
      let kt := Spec3.temporalTenths b t
      let ke := Spec3.envTenths b t n
      let ks := [kb, kt, ke].take (L.toNat + 1)
      let canon := cj ((lvlsUpTo L).map fun l => toHex (Spec3.canon3 l s))
      s!"acc=1 vl={bytesToStr (Spec3.label s)} fc={fc} k={cj (ks.map toString)} svn={cj (ks.map fun k => sev3Name (Spec3.band k))} canon={canon}"
  else
    let ds := Err.all.filter fun e => Spec3.defect3 L e s
    s!"acc=0 allowed={"+".intercalate (ds.map Err.tag)}"

def compactSpec (line : String) : String :=
  let keep := ["acc", "k", "svn", "okb", "okt", "oke", "neg", "g", "allowed"]
  " ".intercalate ((line.splitOn " ").filter fun tok =>
    match tok.splitOn "=" with
    | k :: _ :: _ => keep.contains k
    | _ => false)

def okStr (b : Bool) : String := if b then "1" else "0"

/-- admissible adjusted-temporal scores given the (unobservable) adjusted base score -/
def envChainOK (b : Spec2.BaseVec) (t : Option Spec2.TempVec) (n : Spec2.EnvVec) (ke : Int) : Bool :=
  let cands : List Int := (List.range 141).map fun i => Int.ofNat i - 40     -- -4.0 … 10.0
  cands.any fun kb => Spec2.okAdjBase b n kb &&
    cands.any fun kt => Spec2.okTemporal kb t kt && Spec2.isRound1 (Spec2.envRaw kt n) ke

/-- the rest of the chain given an assumed adjusted base score (used to recognise known finding F2) -/
def envChainFrom (kadj : Int) (t : Option Spec2.TempVec) (n : Spec2.EnvVec) (ke : Int) : Bool :=
  let cands : List Int := (List.range 141).map fun i => Int.ofNat i - 40
  cands.any fun kt => Spec2.okTemporal kadj t kt && Spec2.isRound1 (Spec2.envRaw kt n) ke

def spec2 (L : Level) (s : Bytes) (kb kt ke : Option Int) (kadj : Option Int := none) : String :=
  if Spec2.canon2 L s then
    let ms := Spec2.metricsOf L
    let fc := cj (ms.map fun m => bytesToStr ((Spec2.written m s).getD []))
    let canon := toHex s
    match Spec2.baseOf s with
    | none => "acc=1 vec=NONE"
    | some b =>
      let t := if Spec2.hasGroup Spec2.tempG s then Spec2.tempOf s else none
      let n := if Spec2.hasGroup Spec2.envG s then Spec2.envOf s else none
      let okb := match kb with | some k => okStr (Spec2.okBase b k) | none => "x"
      let okt := match kb, kt with
        | some k, some k' => okStr (Spec2.okTemporal k t k') | _, _ => "x"
      let oke := match kt, ke, n with
        | some k', some k'', none => okStr (k'' == k')
        | _, some k'', some n => okStr (envChainOK b t n k'')
        | _, _, _ => "x"
      let neg := match n with
        | some n => okStr (decide (Spec2.adjustedBaseRaw b n < 0))
        | none => "0"
      let g := okStr t.isSome ++ okStr n.isSome
      let okc := match kadj, ke, n with
        | some ka, some k'', some n => okStr (envChainFrom ka t n k'')
        | _, _, _ => "x"
      s!"acc=1 fc={fc} g={g} okb={okb} okt={okt} oke={oke} okc={okc} neg={neg} canon={canon}"
  else
    let ds := Err.all.filter fun e => Spec2.defect2 L e s
    s!"acc=0 allowed={"+".intercalate (ds.map Err.tag)}"

def optInt (s : String) : Option Int := s.toInt?

/-! ### table operations (C20) -/
def hex16' (n : Nat) : String :=
  String.ofList ((List.range 16).reverse.map fun i => hexDigit ((n >>> (4 * i)) % 16))

def m3OfName (s : String) : Option V3.M3 := V3.M3.all.find? fun m => bytesToStr m.spec.name == s
def m2OfName (s : String) : Option V2.M2 := V2.M2.all.find? fun m => bytesToStr m.spec.name == s

def b2f (b : Bool) : Nat := if b then F64.one else 0

/-- `Value()` for every argument combination the Go method takes (same order as the harness) -/
def vals3 (m : V3.M3) (v : Int) : List Nat :=
  let r (n : Nat) : List Int := (List.range n).map Int.ofNat
  match m with
  | .PR => (r 3).map fun s => V3.valuePR v s
  | .S => [b2f (v == 2)]
  | .MAV => (r 6).map fun b => V3.valueMAV v b
  | .MAC => (r 6).map fun b => V3.valueMAC v b
  | .MUI => (r 6).map fun b => V3.valueMUI v b
  | .MPR => (r 5).flatMap fun ms => (r 4).flatMap fun s => (r 5).map fun pr => V3.valueMPR v ms s pr
  | .MS => (r 4).map fun b => b2f (V3.msIsChanged v b)
  | .MC => (r 6).map fun b => V3.valueMCIA .MC v b
  | .MI => (r 6).map fun b => V3.valueMCIA .MI v b
  | .MA => (r 6).map fun b => V3.valueMCIA .MA v b
  | m => [V3.value0 m v]

/-- v2: `IsUnknown()` of base metrics is (sic) `!= Unknown`, `IsValid()` is `!= Invalid` -/
def tab3 (m : V3.M3) (op arg : String) : Option String :=
  if op == "get" then do
    let s ← ofHex arg; pure s!"get={m.spec.get s}"
  else if op == "val" then do
    let v ← arg.toInt?
    pure s!"str={toHex (m.spec.str v)} valid={if V3.isValid m v then "1" else "0"} val={cj ((vals3 m v).map hex16')}"
  else none

def tab2 (m : V2.M2) (op arg : String) : Option String :=
  if op == "get" then do
    let s ← ofHex arg; pure s!"get={m.spec.get s}"
  else if op == "val" then do
    let v ← arg.toInt?
    pure s!"str={toHex (m.spec.str v)} valid={if v != 0 then "1" else "0"} val={hex16' (V2.value m v)}"
  else none

def tabVer (op arg : String) : Option String :=
  if op == "get" then do
    let s ← ofHex arg
    let gv := match V3.getVersion s with
      | .ok v => s!"{v}|-"
      | .error e => s!"0|{e.tag}"
    pure s!"gv={gv} num={V3.verGet s}"
  else if op == "str" then do
    let v ← arg.toInt?
    pure s!"vstr={toHex (V3.verStr v)} nstr={toHex (V3.verStr v)}"
  else none

/-! ### specification tables (C20 oracle) -/
def ratStr (x : Rat) : String := if x.den == 1 then toString x.num else s!"{x.num}/{x.den}"
def codesStr (cs : List Bytes) : String := cj (cs.map bytesToStr)

def spect3 (name : String) : Option String :=
  let w {α : Type} (all : List α) (code : α → Bytes) (wt : α → Rat) (extra : String := "") : String :=
    s!"codes={codesStr (all.map code)} w={cj (all.map fun a => ratStr (wt a))}{extra}"
  let wm {α : Type} (all : List α) (code : α → Bytes) (wt : α → Rat) (base : String) : String :=
    s!"codes=X,{codesStr (all.map code)} w=0,{cj (all.map fun a => ratStr (wt a))} base={base}"
  open Spec3 in
  match name with
  | "AV" => some (w [AV.N, .A, .L, .P] AV.code wAV)
  | "AC" => some (w [AC.L, .H] AC.code wAC)
  | "PR" => some s!"codes=N,L,H wU={cj ([PR.N, .L, .H].map fun a => ratStr (wPR .U a))} wC={cj ([PR.N, .L, .H].map fun a => ratStr (wPR .C a))}"
  | "UI" => some (w [UI.N, .R] UI.code wUI)
  | "S" => some "codes=U,C"
  | "C" | "I" | "A" => some (w [CIA.H, .L, .N] CIA.code wCIA)
  | "E" => some (w [E.X, .H, .F, .P, .U] E.code wE)
  | "RL" => some (w [RL.X, .U, .W, .T, .O] RL.code wRL)
  | "RC" => some (w [RC.X, .C, .R, .U] RC.code wRC)
  | "CR" | "IR" | "AR" => some (w [Req.X, .H, .M, .L] Req.code wReq)
  | "MAV" => some (wm [AV.N, .A, .L, .P] AV.code wAV "AV")
  | "MAC" => some (wm [AC.L, .H] AC.code wAC "AC")
  | "MPR" => some "codes=X,N,L,H"
  | "MUI" => some (wm [UI.N, .R] UI.code wUI "UI")
  | "MS" => some "codes=X,U,C"
  | "MC" => some (wm [CIA.H, .L, .N] CIA.code wCIA "C")
  | "MI" => some (wm [CIA.H, .L, .N] CIA.code wCIA "I")
  | "MA" => some (wm [CIA.H, .L, .N] CIA.code wCIA "A")
  | _ => none

def spect2 (name : String) : Option String :=
  let w {α : Type} (all : List α) (code : α → Bytes) (wt : α → Rat) : String :=
    s!"codes={codesStr (all.map code)} w={cj (all.map fun a => ratStr (wt a))}"
  open Spec2 in
  match name with
  | "AV" => some (w [AV.L, .A, .N] AV.code wAV)
  | "AC" => some (w [AC.H, .M, .L] AC.code wAC)
  | "Au" => some (w [Au.M, .S, .N] Au.code wAu)
  | "C" | "I" | "A" => some (w [CIA.N, .P, .C] CIA.code wCIA)
  | "E" => some (w [E.U, .POC, .F, .H, .ND] E.code wE)
  | "RL" => some (w [RL.OF, .TF, .W, .U, .ND] RL.code wRL)
  | "RC" => some (w [RC.UC, .UR, .C, .ND] RC.code wRC)
  | "CDP" => some (w [CDP.N, .L, .LM, .MH, .H, .ND] CDP.code wCDP)
  | "TD" => some (w [TD.N, .L, .M, .H, .ND] TD.code wTD)
  | "CR" | "IR" | "AR" => some (w [Req.L, .M, .H, .ND] Req.code wReq)
  | _ => none

/-! ### observers on nil / fresh receivers, field resets, huge inputs (C12) -/

def nilOk (isNil : Bool) : String := if isNil then "nil" else "ok"

def obs3 (L : Level) (o : Option V3.Obj3) : String :=
  let s := hex16 (V3.scoreN L o)
  let sv := V3.severityF (V3.scoreN L o)
  let enc := V3.encodeN L o
  let base := s!"s={s} sv={sv} ge={errTag (V3.getErrorN L o)} enc={toHex enc.1}|{errTag enc.2} str={toHex enc.1}"
  match L with
  | .base => base ++ s!" bm={nilOk o.isNone}"
  | .temporal => base ++ s!" bm={nilOk o.isNone}"
  | .environmental => base ++ s!" bm={nilOk o.isNone} tm={nilOk o.isNone}"

def obs2 (L : Level) (o : Option V2.Obj2) : String :=
  let s := hex16 (V2.scoreN L o)
  let sv := V2.severityF (V2.scoreN L o)
  let enc := V2.encodeN L o
  let base := s!"s={s} sv={sv} ge={errTag (V2.getErrorN L o)} enc={toHex enc.1}|{errTag enc.2} str={toHex enc.1}"
  match L with
  | .base => base
  | .temporal => base ++ s!" bm={nilOk o.isNone}"
  | .environmental => base ++ s!" bm={nilOk o.isNone} tm={nilOk o.isNone}"

def kindObj3 (k : String) : Option (Option V3.Obj3) :=
  if k == "nil" then some none else if k == "fresh" then some (some V3.Obj3.new) else none
def kindObj2 (k : String) : Option (Option V2.Obj2) :=
  if k == "nil" then some none else if k == "fresh" then some (some V2.Obj2.new) else none

def opF3 (L : Level) (vec : Bytes) (name : String) (v : Int) : String :=
  let (o, _) := V3.decode L V3.Obj3.new vec
  if name == "Ver" then dump3 L { o with ver := v }
  else match (V3.msOf L).find? (fun m => bytesToStr m.spec.name == name) with
    | some m => dump3 L (o.set m v)
    | none => "nofield"

def opF2 (L : Level) (vec : Bytes) (name : String) (v : Int) : String :=
  let (o, _) := V2.decode L V2.Obj2.new vec
  match (V2.msOf L).find? (fun m => bytesToStr m.spec.name == name) with
  | some m => dump2 L (o.set m v)
  | none => "nofield"

def opBig (ver : String) (L : Level) (head unit : Bytes) (n : Nat) : String :=
  let s := head ++ (List.replicate n unit).flatten
  if ver == "3" then
    let (_, e) := V3.decode L V3.Obj3.new s
    s!"r={if e.isNone then "1" else "0"} e={errTag e}"
  else
    let (_, e) := V2.decode L V2.Obj2.new s
    s!"r={if e.isNone then "1" else "0"} e={errTag e}"

/-! ### names, reports, export (C17-C19) -/

def opNM (fn : String) (v : Int) (tag : String) : Option String :=
  (Names.call fn v (Names.langOf tag)).map fun b => s!"name={toHex b}"

def insertSorted (x : String) : List String → List String
  | [] => [x]
  | y :: ys => if x ≤ y then x :: y :: ys else y :: insertSorted x ys

def opR3 (L : Level) (tag : String) (vec : Bytes) : String :=
  let (o, e) := V3.decode L V3.Obj3.new vec
  let fields := (Report.mkReport L o (Names.langOf tag)).map fun p => s!"{p.1}={toHex p.2}"
  let sorted := fields.foldl (fun acc x => insertSorted x acc) []
  s!"e={errTag e} " ++ " ".intercalate sorted

/-- the report schema evaluated on the decoded object with the scores (bit patterns, hex) and
    severities the implementation itself reported for that object -/
def opR3W (L : Level) (tag : String) (vec : Bytes) (ss svs rs : String) : Option String := do
  let (o, e) := V3.decode L V3.Obj3.new vec
  let sc ← (ss.splitOn ",").mapM fun h => (ofHex h).map fun bs => bs.foldl (fun a b => a * 256 + b) 0
  let sv ← (svs.splitOn ",").mapM String.toInt?
  let rend ← (rs.splitOn ",").mapM ofHex
  let idx (l : Level) : Nat := match l with | .base => 0 | .temporal => 1 | .environmental => 2
  -- a score on the tenth grid is rendered by the model's `fmtScore`; for any other double the rendering is the
  -- one `strconv.FormatFloat(score, 'f', -1, 64)` gives in the harness (strconv is not modelled off the grid)
  let scR (l : Level) : Bytes :=
    let b := sc.getD (idx l) 0
    match Report.tenthsOfBits b with
    | some _ => Report.fmtScore b
    | none => rend.getD (idx l) []
  let fields := (Report.mkReportWith scR (fun l => sv.getD (idx l) 0) L o (Names.langOf tag)).map
    fun p => s!"{p.1}={toHex p.2}"
  let sorted := fields.foldl (fun acc x => insertSorted x acc) []
  pure (s!"e={errTag e} " ++ " ".intercalate sorted)

/-- expected library result of an export, given the reference engine's result on the template -/
def opXM (mode ref : String) : Option String :=
  let engine : Bytes → Option Bytes := fun _ =>
    if ref.startsWith "out:" then ofHex (ref.drop 4).toString else none
  let show' (r : Option Bytes × Option Err) : String :=
    (match r.1 with | some b => "out:" ++ toHex b | none => "noout") ++ "|" ++ errTag r.2
  let nilrep := mode.startsWith "nilreport+"
  let mode := if nilrep then (mode.drop 10).toString else mode
  if nilrep then
    (if mode == "string" || mode == "held" then some (show' (Report.exportWithString engine true []))
     else if mode == "reader" || mode == "chunked" || mode == "heldreader" || mode.startsWith "pre:" then some (show' (Report.exportWith engine true (.content [])))
     else if mode == "nilreader" then some (show' (Report.exportWith engine true .nil))
     else if mode.startsWith "fail:" then some (show' (Report.exportWith engine true .fails))
     else none)
  else
  if mode == "string" || mode == "held" then some (show' (Report.exportWithString engine false []))
  else if mode == "heldreader" then some (show' (Report.exportWith engine false (.content [])))
  else if mode == "nilreport" then some (show' (Report.exportWithString engine true []))
  else if mode == "reader" || mode == "chunked" || mode.startsWith "pre:" then some (show' (Report.exportWith engine false (.content [])))
  else if mode == "nilreader" then some (show' (Report.exportWith engine false .nil))
  else if mode.startsWith "fail:" then some (show' (Report.exportWith engine false .fails))
  else none

def runOpExt (f : List String) : Option String :=
  match f with
  | ["SPEC3", l, h] => do
      let L ← levelOf' l; let s ← ofHex h; pure (spec3 L s)
  | ["SPECS3", l, h] => do
      let L ← levelOf' l; let s ← ofHex h; pure (compactSpec (spec3 L s))
  | ["SPECS2", l, h, kb, kt, ke] => do
      let L ← levelOf' l; let s ← ofHex h; pure (compactSpec (spec2 L s (optInt kb) (optInt kt) (optInt ke)))
  | ["SPEC2", l, h, kb, kt, ke] => do
      let L ← levelOf' l; let s ← ofHex h; pure (spec2 L s (optInt kb) (optInt kt) (optInt ke))
  | ["SPEC2", l, h, kb, kt, ke, kadj] => do
      let L ← levelOf' l; let s ← ofHex h; pure (spec2 L s (optInt kb) (optInt kt) (optInt ke) (optInt kadj))
  | ["SPEC2", l, h] => do
      let L ← levelOf' l; let s ← ofHex h; pure (spec2 L s none none none)
  | ["T3", m, op, arg] => do let m ← m3OfName m; tab3 m op arg
  | ["T2", m, op, arg] => do let m ← m2OfName m; tab2 m op arg
  | ["TV", op, arg] => tabVer op arg
  | ["Q3", l, k] => do let L ← levelOf' l; let o ← kindObj3 k; pure (obs3 L o)
  | ["Q2", l, k] => do let L ← levelOf' l; let o ← kindObj2 k; pure (obs2 L o)
  | ["F3", l, h, name, v] => do
      let L ← levelOf' l; let s ← ofHex h; let v ← v.toInt?; pure (opF3 L s name v)
  | ["F2", l, h, name, v] => do
      let L ← levelOf' l; let s ← ofHex h; let v ← v.toInt?; pure (opF2 L s name v)
  -- G: the same after a full round of queries (queries change nothing in the model: `queries_are_pure`)
  | ["G3", l, h, name, v] => do
      let L ← levelOf' l; let s ← ofHex h; let v ← v.toInt?; pure (opF3 L s name v)
  | ["G2", l, h, name, v] => do
      let L ← levelOf' l; let s ← ofHex h; let v ← v.toInt?; pure (opF2 L s name v)
  | ["BIG", ver, l, hd, unit, n] => do
      let L ← levelOf' l; let hd ← ofHex hd; let u ← ofHex unit; let n ← n.toNat?; pure (opBig ver L hd u n)
  | ["NM", fn, v, tag] => do let v ← v.toInt?; opNM fn v tag
  | ["R3", l, tag, h] => do let L ← levelOf' l; let s ← ofHex h; pure (opR3 L tag s)
  | ["R3W", l, tag, h, ss, svs, rs] => do let L ← levelOf' l; let s ← ofHex h; opR3W L tag s ss svs rs
  | ["XM", mode, ref] => opXM mode ref
  | ["H", h] => some (Heap.runHistory h)
  | ["SPECT3", m] => spect3 m
  | ["SPECT2", m] => spect2 m
  | _ => none

end Drv
