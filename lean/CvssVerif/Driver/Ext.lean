import CvssVerif.Model.V3
import CvssVerif.Model.V2
/- extension operations of the driver (tables, field-set scoring, histories, reports) -/
namespace Drv
open CvssVerif

def runOpExt (_f : List String) : Option String := none

end Drv
