import CvssVerif.Model.V3
import CvssVerif.Model.V2
import CvssVerif.Driver.Dump
import CvssVerif.Driver.Ext
/-
  `cvssmodel`: reads operation lines on stdin, executes them on the Lean model, prints one
  canonical result line per operation (same format as go/harness).
-/
open CvssVerif

namespace Drv

def compact (line : String) : String :=
  let keep := ["r", "e", "s", "sv", "svn"]
  " ".intercalate ((line.splitOn " ").filter fun tok =>
    match tok.splitOn "=" with
    | k :: _ :: _ => keep.contains k
    | _ => false)

def runOp (line : String) : String :=
  let f := (line.splitOn " ").filter (· ≠ "")
  match f with
  | [op, l, h] =>
    match levelOf l, ofHex h with
    | some L, some vec =>
      if op == "D3" then opD3 L vec false
      else if op == "S3" then compact (opD3 L vec false)
      else if op == "S2" then compact (opD2 L vec false)
      else if op == "N3" then opD3 L vec true
      else if op == "D2" then opD2 L vec false
      else if op == "N2" then opD2 L vec true
      else (runOpExt f).getD "bad-op"
    | _, _ => (runOpExt f).getD "bad-op"
  | [op, l, h1, h2] =>
    match levelOf l, ofHex h1, ofHex h2 with
    | some L, some pre, some vec =>
      if op == "RD3" then opRD3 L pre vec
      else if op == "RD2" then opRD2 L pre vec
      else (runOpExt f).getD "bad-op"
    | _, _, _ => (runOpExt f).getD "bad-op"
  | _ => (runOpExt f).getD "bad-op"

partial def loop (hin : IO.FS.Stream) (hout : IO.FS.Stream) : IO Unit := do
  let line ← hin.getLine
  if line.isEmpty then return ()
  let l := String.ofList (line.toList.filter fun c => c != '\n' && c != '\r')
  if l ≠ "" then
    hout.putStrLn (runOp l)
  loop hin hout

end Drv

def main : IO Unit := do
  let hin ← IO.getStdin
  let hout ← IO.getStdout
  Drv.loop hin hout
  hout.flush
