module verif/wiring

go 1.22
