// wiring: regenerates lean/CvssVerif/Generated/Wiring.lean from the *source text* of the three report constructors of
// /repo/v3/report (go/parser only): for every field of the composite literal each constructor returns, what it shows —
//   x.Ver.String()                                   the version label
//   vec  (where `vec, _ := x.Encode()`)              the encoding at the level of the constructor's parameter
//   names.F(opts.lang)                               a title / header function of the names package
//   names.FValueOf(x.M, opts.lang)                   the localised name of the object's value of metric M
//   strconv.FormatFloat(x.Score(), 'f', -1, 64)      the decimal rendering of that level's score
//   names.SeverityValueOf(x.Severity(), opts.lang)   the localised name of that level's severity
//   Embedded: NewLower(x.LowerMetrics(), os...)      the embedded report of the lower level, with the same options
// and the options glue (`newOptions` starts from language.English, `WithOptionsLanguage` stores its argument).
// Anything else makes the constructor "not understood": the reference text is kept and nothing is claimed about it.
//
// usage: wiring <repo> <out.lean> [reference.lean]
package main

import (
	"fmt"
	"go/ast"
	"go/build"
	"go/parser"
	"go/token"
	"os"
	"path/filepath"
	"regexp"
	"sort"
	"strings"
)

type notUnderstood struct{ msg string }

// buildOK: the file is part of the package as the compiler sees it here (no test file; its build constraints — //go:build lines and
// _GOOS / _GOARCH suffixes — are satisfied without extra tags, so verif_hooks.go is left out)
func buildOK(dir string) func(os.FileInfo) bool {
	return func(fi os.FileInfo) bool {
		if strings.HasSuffix(fi.Name(), "_test.go") {
			return false
		}
		ok, err := build.Default.MatchFile(dir, fi.Name())
		return err == nil && ok
	}
}

func fail(f string, a ...interface{}) { panic(notUnderstood{fmt.Sprintf(f, a...)}) }

func namedOf(e ast.Expr) string {
	if id, ok := e.(*ast.Ident); ok {
		return id.Name
	}
	return ""
}

var levelOf = map[string]string{"Base": "base", "Temporal": "temporal", "Environmental": "environmental"}
var metrics = map[string]bool{}

func init() {
	for _, m := range strings.Fields("AV AC PR UI S C I A E RL RC CR IR AR MAV MAC MPR MUI MS MC MI MA") {
		metrics[m] = true
	}
}

func sel(e ast.Expr) (string, string, bool) { // X.Sel with X an identifier
	s, ok := e.(*ast.SelectorExpr)
	if !ok {
		return "", "", false
	}
	x := namedOf(s.X)
	return x, s.Sel.Name, x != ""
}

func isOptsLang(e ast.Expr) bool {
	x, s, ok := sel(e)
	return ok && x == "opts" && s == "lang"
}

func constructor(fd *ast.FuncDecl) (string, []string) {
	// parameter: x *metric.<Level>, os ...ReportOptionsFunc
	ps := fd.Type.Params.List
	if len(ps) != 2 || len(ps[0].Names) != 1 || len(ps[1].Names) != 1 {
		fail("parameters")
	}
	st, ok := ps[0].Type.(*ast.StarExpr)
	if !ok {
		fail("parameter type")
	}
	pk, lt, ok := sel(st.X)
	if !ok || pk != "metric" || levelOf[lt] == "" {
		fail("parameter type")
	}
	if _, ok := ps[1].Type.(*ast.Ellipsis); !ok {
		fail("options parameter")
	}
	x, osn := ps[0].Names[0].Name, ps[1].Names[0].Name
	lvl := levelOf[lt]
	body := fd.Body.List
	if len(body) != 3 {
		fail("body has %d statements", len(body))
	}
	// opts := newOptions(os...)
	a0, ok := body[0].(*ast.AssignStmt)
	if !ok || a0.Tok != token.DEFINE || len(a0.Lhs) != 1 || namedOf(a0.Lhs[0]) != "opts" || len(a0.Rhs) != 1 {
		fail("first statement")
	}
	c0, ok := a0.Rhs[0].(*ast.CallExpr)
	if !ok || namedOf(c0.Fun) != "newOptions" || len(c0.Args) != 1 || namedOf(c0.Args[0]) != osn || c0.Ellipsis == token.NoPos {
		fail("options are not newOptions(os...)")
	}
	// vec, _ := x.Encode()
	a1, ok := body[1].(*ast.AssignStmt)
	if !ok || a1.Tok != token.DEFINE || len(a1.Lhs) != 2 || namedOf(a1.Lhs[1]) != "_" || len(a1.Rhs) != 1 {
		fail("second statement")
	}
	vecName := namedOf(a1.Lhs[0])
	c1, ok := a1.Rhs[0].(*ast.CallExpr)
	if !ok || len(c1.Args) != 0 {
		fail("second statement")
	}
	if rx, rs, ok := sel(c1.Fun); !ok || rx != x || rs != "Encode" {
		fail("vector is not x.Encode()")
	}
	rs, ok := body[2].(*ast.ReturnStmt)
	if !ok || len(rs.Results) != 1 {
		fail("third statement")
	}
	ue, ok := rs.Results[0].(*ast.UnaryExpr)
	if !ok || ue.Op != token.AND {
		fail("return value")
	}
	cl, ok := ue.X.(*ast.CompositeLit)
	if !ok || namedOf(cl.Type) != lt+"Report" {
		fail("return value")
	}
	var fields []string
	embed := ""
	for _, el := range cl.Elts {
		kv, ok := el.(*ast.KeyValueExpr)
		if !ok {
			fail("positional literal")
		}
		k := namedOf(kv.Key)
		switch v := kv.Value.(type) {
		case *ast.Ident:
			if v.Name != vecName {
				fail("field %s: identifier %s", k, v.Name)
			}
			fields = append(fields, fmt.Sprintf("(\"%s\", .vector .%s)", k, lvl))
		case *ast.CallExpr:
			// embedded report
			if fn := namedOf(v.Fun); strings.HasPrefix(fn, "New") && strings.HasSuffix(k, "Report") {
				if len(v.Args) != 2 || namedOf(v.Args[1]) != osn || v.Ellipsis == token.NoPos {
					fail("embedded report %s: options not passed on", k)
				}
				ac, ok := v.Args[0].(*ast.CallExpr)
				acc := ""
				if ok && len(ac.Args) == 0 {
					if rx, rs, ok := sel(ac.Fun); ok && rx == x {
						acc = rs
					}
				} else if rx, rs, ok := sel(v.Args[0]); ok && rx == x {
					acc = rs // x.Base / x.Temporal: the embedded object itself
					if levelOf[acc] != "" {
						acc = acc + "Metrics"
					}
				}
				if acc == "" {
					fail("embedded report %s: argument", k)
				}
				if embed != "" {
					fail("two embedded reports")
				}
				embed = fmt.Sprintf("(\"%s\", \"%s\", \"%s\", \"%s\")", fd.Name.Name, k, fn, acc)
				continue
			}
			pk, fn, isSel := sel(v.Fun)
			switch {
			case isSel && pk == "names" && len(v.Args) == 1 && isOptsLang(v.Args[0]):
				fields = append(fields, fmt.Sprintf("(\"%s\", .names0 \"%s\")", k, fn))
			case isSel && pk == "names" && len(v.Args) == 2 && isOptsLang(v.Args[1]):
				if rx, m, ok := sel(v.Args[0]); ok && rx == x && metrics[m] {
					fields = append(fields, fmt.Sprintf("(\"%s\", .names1 \"%s\" .%s)", k, fn, m))
				} else if c, ok := v.Args[0].(*ast.CallExpr); ok && len(c.Args) == 0 {
					if rx, rs, ok := sel(c.Fun); ok && rx == x && rs == "Severity" && fn == "SeverityValueOf" {
						fields = append(fields, fmt.Sprintf("(\"%s\", .sevValue .%s)", k, lvl))
					} else {
						fail("field %s: argument", k)
					}
				} else {
					fail("field %s: argument", k)
				}
			case isSel && pk == "strconv" && fn == "FormatFloat" && len(v.Args) == 4:
				c, ok := v.Args[0].(*ast.CallExpr)
				if !ok || len(c.Args) != 0 {
					fail("field %s: FormatFloat argument", k)
				}
				if rx, rs, ok := sel(c.Fun); !ok || rx != x || rs != "Score" {
					fail("field %s: FormatFloat argument", k)
				}
				b1, ok1 := v.Args[1].(*ast.BasicLit)
				u2, ok2 := v.Args[2].(*ast.UnaryExpr)
				b3, ok3 := v.Args[3].(*ast.BasicLit)
				if !ok1 || !ok2 || !ok3 || b1.Value != "'f'" || u2.Op != token.SUB || b3.Value != "64" {
					fail("field %s: FormatFloat format", k)
				}
				if b2, ok := u2.X.(*ast.BasicLit); !ok || b2.Value != "1" {
					fail("field %s: FormatFloat precision", k)
				}
				fields = append(fields, fmt.Sprintf("(\"%s\", .score .%s)", k, lvl))
			default:
				// x.Ver.String()
				if s1, ok := v.Fun.(*ast.SelectorExpr); ok && s1.Sel.Name == "String" && len(v.Args) == 0 {
					if rx, f, ok := sel(s1.X); ok && rx == x && f == "Ver" {
						fields = append(fields, fmt.Sprintf("(\"%s\", .version)", k))
						continue
					}
				}
				fail("field %s: call", k)
			}
		default:
			fail("field %s: expression", k)
		}
	}
	sort.Strings(fields)
	return fmt.Sprintf("def %s : List (String × GSrc) := [\n  %s]\n", fd.Name.Name, strings.Join(fields, ",\n  ")), []string{embed}
}

func options(funcs map[string]*ast.FuncDecl) string {
	// newOptions: opts := &options{lang: language.English}; for _, o := range os { o(opts) }; return opts
	fd := funcs["newOptions"]
	if fd == nil || len(fd.Body.List) != 3 {
		fail("newOptions shape")
	}
	a0, ok := fd.Body.List[0].(*ast.AssignStmt)
	if !ok || len(a0.Rhs) != 1 {
		fail("newOptions first statement")
	}
	ue, ok := a0.Rhs[0].(*ast.UnaryExpr)
	if !ok {
		fail("newOptions first statement")
	}
	cl, ok := ue.X.(*ast.CompositeLit)
	if !ok || namedOf(cl.Type) != "options" || len(cl.Elts) != 1 {
		fail("newOptions literal")
	}
	kv, ok := cl.Elts[0].(*ast.KeyValueExpr)
	if !ok || namedOf(kv.Key) != "lang" {
		fail("newOptions literal")
	}
	pk, dflt, ok := sel(kv.Value)
	if !ok || pk != "language" {
		fail("default language")
	}
	rg, ok := fd.Body.List[1].(*ast.RangeStmt)
	if !ok || len(rg.Body.List) != 1 {
		fail("newOptions loop")
	}
	es, ok := rg.Body.List[0].(*ast.ExprStmt)
	if !ok {
		fail("newOptions loop body")
	}
	if c, ok := es.X.(*ast.CallExpr); !ok || namedOf(c.Fun) != namedOf(rg.Value) || len(c.Args) != 1 || namedOf(c.Args[0]) != namedOf(a0.Lhs[0]) {
		fail("newOptions loop body")
	}
	if r, ok := fd.Body.List[2].(*ast.ReturnStmt); !ok || len(r.Results) != 1 || namedOf(r.Results[0]) != namedOf(a0.Lhs[0]) {
		fail("newOptions return")
	}
	// WithOptionsLanguage(lang) = func(opts *options) { opts.lang = lang }
	wl := funcs["WithOptionsLanguage"]
	if wl == nil || len(wl.Body.List) != 1 || len(wl.Type.Params.List) != 1 || len(wl.Type.Params.List[0].Names) != 1 {
		fail("WithOptionsLanguage shape")
	}
	arg := wl.Type.Params.List[0].Names[0].Name
	r, ok := wl.Body.List[0].(*ast.ReturnStmt)
	if !ok || len(r.Results) != 1 {
		fail("WithOptionsLanguage shape")
	}
	fl, ok := r.Results[0].(*ast.FuncLit)
	if !ok || len(fl.Body.List) != 1 || len(fl.Type.Params.List) != 1 || len(fl.Type.Params.List[0].Names) != 1 {
		fail("WithOptionsLanguage closure")
	}
	on := fl.Type.Params.List[0].Names[0].Name
	as, ok := fl.Body.List[0].(*ast.AssignStmt)
	if !ok || as.Tok != token.ASSIGN || len(as.Lhs) != 1 || len(as.Rhs) != 1 || namedOf(as.Rhs[0]) != arg {
		fail("WithOptionsLanguage closure body")
	}
	if rx, f, ok := sel(as.Lhs[0]); !ok || rx != on || f != "lang" {
		fail("WithOptionsLanguage closure body")
	}
	return fmt.Sprintf("def optionsGlue : String × String := (\"%s\", \"lang := argument\")\n", dflt)
}

var blockRe = regexp.MustCompile(`(?m)^-- @def (\S+)\n`)

func refBlocks(path string) map[string]string {
	res := map[string]string{}
	b, err := os.ReadFile(path)
	if err != nil {
		return res
	}
	sec := string(b)
	locs := blockRe.FindAllStringSubmatchIndex(sec, -1)
	for i, l := range locs {
		name := sec[l[2]:l[3]]
		stop := len(sec)
		if i+1 < len(locs) {
			stop = locs[i+1][0]
		}
		txt := sec[l[1]:stop]
		if j := strings.Index(txt, "\nend CvssVerif.Gen.Wiring"); j >= 0 {
			txt = txt[:j+1]
		}
		res[name] = strings.TrimRight(txt, "\n") + "\n"
	}
	return res
}

func main() {
	if len(os.Args) != 3 && len(os.Args) != 4 {
		fmt.Fprintln(os.Stderr, "usage: wiring <repo> <out.lean> [reference.lean]")
		os.Exit(2)
	}
	repo, out := os.Args[1], os.Args[2]
	ref := map[string]string{}
	if len(os.Args) == 4 {
		ref = refBlocks(os.Args[3])
	}
	fset := token.NewFileSet()
	pkgs, err := parser.ParseDir(fset, filepath.Join(repo, "v3/report"), buildOK(filepath.Join(repo, "v3/report")), 0)
	if err != nil {
		fmt.Fprintln(os.Stderr, "wiring:", err)
		os.Exit(1)
	}
	funcs := map[string]*ast.FuncDecl{}
	for _, pk := range pkgs {
		for _, f := range pk.Files {
			for _, d := range f.Decls {
				if fd, ok := d.(*ast.FuncDecl); ok && fd.Recv == nil {
					funcs[fd.Name.Name] = fd
				}
			}
		}
	}
	blocks := map[string]string{}
	var problems, nu []string
	var embeds []string
	try := func(name string, f func() string) {
		defer func() {
			if r := recover(); r != nil {
				if n, ok := r.(notUnderstood); ok {
					problems = append(problems, name+": "+n.msg)
					nu = append(nu, name)
					if txt, ok := ref[name]; ok {
						blocks[name] = txt
					}
					return
				}
				panic(r)
			}
		}()
		blocks[name] = f()
	}
	for _, n := range []string{"NewBase", "NewTemporal", "NewEnvironmental"} {
		n := n
		try(n, func() string {
			fd := funcs[n]
			if fd == nil {
				fail("no such function")
			}
			txt, em := constructor(fd)
			for _, e := range em {
				if e != "" {
					embeds = append(embeds, e)
				}
			}
			return txt
		})
	}
	try("optionsGlue", func() string { return options(funcs) })
	if len(nu) == 0 {
		blocks["embeds"] = fmt.Sprintf("def embeds : List (String × String × String × String) := [%s]\n", strings.Join(embeds, ", "))
	} else if txt, ok := ref["embeds"]; ok {
		blocks["embeds"] = txt
	}
	var b strings.Builder
	b.WriteString("/- GENERATED on every run by go/wiring from the source text of the report constructors of /repo/v3/report — do not edit. -/\n" +
		"import CvssVerif.Model.ReportSrc\n\nnamespace CvssVerif.Gen.Wiring\nopen CvssVerif CvssVerif.Report CvssVerif.Report.GSrc CvssVerif.V3\n\n")
	fatal := false
	for _, n := range []string{"NewBase", "NewTemporal", "NewEnvironmental", "embeds", "optionsGlue"} {
		if blocks[n] == "" {
			fatal = true
			continue
		}
		fmt.Fprintf(&b, "-- @def %s\n%s\n", n, blocks[n])
	}
	b.WriteString("end CvssVerif.Gen.Wiring\n")
	if !fatal {
		if err := os.WriteFile(out, []byte(b.String()), 0o644); err != nil {
			fmt.Fprintln(os.Stderr, err)
			os.Exit(1)
		}
	}
	sort.Strings(problems)
	for _, p := range problems {
		fmt.Println("problem:", p)
	}
	sort.Strings(nu)
	fmt.Printf("not-understood: %s\n", strings.Join(nu, " "))
	fmt.Printf("wiring: problems=%d written=%v\n", len(problems), !fatal)
}
