// extract: regenerates lean/CvssVerif/Generated/Names.lean from the source of
// /repo/v3/report/names and /repo/v3/metric on every run (go/parser only, no type checking):
//   - the enumeration constants of v3/metric (iota blocks) with their integer values,
//   - every langNameMap literal (title tables) and every map[metric.T]langNameMap literal (value tables),
//   - every exported function of the names package with the table(s) it reads.
// The Lean theorems of C18 are re-checked against this file; the harness compares the functions'
// behaviour with the model built on it.
package main

import (
	"bytes"
	"fmt"
	"go/ast"
	"go/build"
	"go/parser"
	"go/printer"
	"go/token"
	"os"
	"path/filepath"
	"sort"
	"strconv"
	"strings"
)

// buildOK: the file is part of the package as the compiler sees it here (no test file; its build constraints — //go:build lines and
// _GOOS / _GOARCH suffixes — are satisfied without extra tags, so verif_hooks.go is left out)
func buildOK(dir string) func(os.FileInfo) bool {
	return func(fi os.FileInfo) bool {
		if strings.HasSuffix(fi.Name(), "_test.go") {
			return false
		}
		ok, err := build.Default.MatchFile(dir, fi.Name())
		return err == nil && ok
	}
}

func must(err error) {
	if err != nil {
		fmt.Fprintln(os.Stderr, "extract:", err)
		os.Exit(1)
	}
}

func bytesLit(s string) string {
	b := []byte(s)
	parts := make([]string, len(b))
	for i, c := range b {
		parts[i] = strconv.Itoa(int(c))
	}
	return "[" + strings.Join(parts, ", ") + "]"
}

// enumeration constants: name -> value, from `const ( A T = iota; B; C )` blocks
func enumConsts(dir string) map[string]int {
	fset := token.NewFileSet()
	pkgs, err := parser.ParseDir(fset, dir, buildOK(dir), 0)
	must(err)
	res := map[string]int{}
	for _, p := range pkgs {
		for _, f := range p.Files {
			for _, d := range f.Decls {
				gd, ok := d.(*ast.GenDecl)
				if !ok || gd.Tok != token.CONST {
					continue
				}
				isIota := false
				for i, sp := range gd.Specs {
					vs := sp.(*ast.ValueSpec)
					if i == 0 {
						if len(vs.Values) == 1 {
							if id, ok := vs.Values[0].(*ast.Ident); ok && id.Name == "iota" {
								isIota = true
							}
						}
					}
					if !isIota {
						break
					}
					if i > 0 && len(vs.Values) != 0 {
						isIota = false
						break
					}
					for _, n := range vs.Names {
						res[n.Name] = i
					}
				}
			}
		}
	}
	return res
}

type langMap map[string]string // "en"/"ja"/other selector name -> text

func langKey(e ast.Expr) string {
	if se, ok := e.(*ast.SelectorExpr); ok {
		switch se.Sel.Name {
		case "English":
			return "en"
		case "Japanese":
			return "ja"
		default:
			return "?" + se.Sel.Name
		}
	}
	return "?"
}

func strValue(e ast.Expr, consts map[string]int, sevNames map[int]string) (string, bool) {
	switch v := e.(type) {
	case *ast.BasicLit:
		s, err := strconv.Unquote(v.Value)
		if err != nil {
			return "", false
		}
		return s, true
	case *ast.CallExpr: // metric.SeverityNone.String()
		if se, ok := v.Fun.(*ast.SelectorExpr); ok && se.Sel.Name == "String" {
			if inner, ok := se.X.(*ast.SelectorExpr); ok {
				if n, ok := consts[inner.Sel.Name]; ok {
					if s, ok := sevNames[n]; ok {
						return s, true
					}
				}
			}
		}
	}
	return "", false
}

func parseLangMap(cl *ast.CompositeLit, consts map[string]int, sev map[int]string) (langMap, bool) {
	m := langMap{}
	for _, el := range cl.Elts {
		kv, ok := el.(*ast.KeyValueExpr)
		if !ok {
			return nil, false
		}
		s, ok := strValue(kv.Value, consts, sev)
		if !ok {
			return nil, false
		}
		m[langKey(kv.Key)] = s
	}
	return m, true
}

// squash: the source text of a node with all white space removed (bodies are compared with the one shape understood)
func squash(n ast.Node) string {
	var b bytes.Buffer
	if err := printer.Fprint(&b, token.NewFileSet(), n); err != nil {
		return "?"
	}
	return strings.Join(strings.Fields(b.String()), " ")
}

func firstIf(b *ast.BlockStmt) (*ast.IfStmt, bool) {
	if b == nil || len(b.List) == 0 {
		return nil, false
	}
	s, ok := b.List[0].(*ast.IfStmt)
	return s, ok && s.Init != nil
}

func main() {
	repo := "/repo"
	out := "/verif/lean/CvssVerif/Generated/Names.lean"
	if len(os.Args) > 1 {
		repo = os.Args[1]
	}
	if len(os.Args) > 2 {
		out = os.Args[2]
	}
	consts := enumConsts(filepath.Join(repo, "v3", "metric"))
	// severity String() table of v3/metric (used inside the names tables)
	sev := map[int]string{}
	{
		fset := token.NewFileSet()
		f, err := parser.ParseFile(fset, filepath.Join(repo, "v3", "metric", "severity.go"), nil, 0)
		must(err)
		ast.Inspect(f, func(n ast.Node) bool {
			vs, ok := n.(*ast.ValueSpec)
			if !ok || len(vs.Names) != 1 || vs.Names[0].Name != "severityMap" || len(vs.Values) != 1 {
				return true
			}
			if cl, ok := vs.Values[0].(*ast.CompositeLit); ok {
				for _, el := range cl.Elts {
					kv := el.(*ast.KeyValueExpr)
					if id, ok := kv.Key.(*ast.Ident); ok {
						if s, ok := strValue(kv.Value, consts, nil); ok {
							sev[consts[id.Name]] = s
						}
					}
				}
			}
			return true
		})
	}
	fset := token.NewFileSet()
	pkgs, err := parser.ParseDir(fset, filepath.Join(repo, "v3", "report", "names"), buildOK(filepath.Join(repo, "v3", "report", "names")), 0)
	must(err)
	titles := map[string]langMap{}
	values := map[string]map[int]langMap{}
	type fn struct {
		name, kind, tab, fallback string
	}
	funcs := []fn{}
	problems := []string{}
	sawLookup := false
	for _, p := range pkgs {
		for _, f := range p.Files {
			for _, d := range f.Decls {
				switch gd := d.(type) {
				case *ast.GenDecl:
					if gd.Tok != token.VAR {
						continue
					}
					for _, sp := range gd.Specs {
						vs := sp.(*ast.ValueSpec)
						for i, n := range vs.Names {
							if i >= len(vs.Values) {
								continue
							}
							cl, ok := vs.Values[i].(*ast.CompositeLit)
							if !ok {
								continue
							}
							if id, ok := cl.Type.(*ast.Ident); ok && id.Name == "langNameMap" {
								m, ok := parseLangMap(cl, consts, sev)
								if !ok {
									problems = append(problems, "unreadable title table "+n.Name)
									continue
								}
								titles[n.Name] = m
							} else if _, ok := cl.Type.(*ast.MapType); ok {
								vm := map[int]langMap{}
								good := true
								for _, el := range cl.Elts {
									kv, ok := el.(*ast.KeyValueExpr)
									if !ok {
										good = false
										break
									}
									key := -1
									if se, ok := kv.Key.(*ast.SelectorExpr); ok {
										if v, ok := consts[se.Sel.Name]; ok {
											key = v
										}
									}
									inner, ok := kv.Value.(*ast.CompositeLit)
									if key < 0 || !ok {
										good = false
										break
									}
									m, ok := parseLangMap(inner, consts, sev)
									if !ok {
										good = false
										break
									}
									if _, dup := vm[key]; dup {
										problems = append(problems, fmt.Sprintf("duplicate key %d in %s", key, n.Name))
									}
									vm[key] = m
								}
								if !good {
									problems = append(problems, "unreadable value table "+n.Name)
									continue
								}
								values[n.Name] = vm
							}
						}
					}
				case *ast.FuncDecl:
					if gd.Recv != nil && gd.Name.Name == "getNameInLang" {
						// the one lookup every function goes through: exact tag, else English, else ""
						sawLookup = true
						rn, ln := "", ""
						if len(gd.Recv.List) == 1 && len(gd.Recv.List[0].Names) == 1 {
							rn = gd.Recv.List[0].Names[0].Name
						}
						if len(gd.Type.Params.List) == 1 && len(gd.Type.Params.List[0].Names) == 1 {
							ln = gd.Type.Params.List[0].Names[0].Name
						}
						want := fmt.Sprintf("{ if s, ok := %s[%s]; ok { return s } if s, ok := %s[language.English]; ok { return s } return \"\" }", rn, ln, rn)
						if got := squash(gd.Body); got != want || rn == "" || ln == "" || rn == "s" || rn == "ok" || ln == "s" || ln == "ok" || squash(gd.Recv.List[0].Type) != "langNameMap" {
							problems = append(problems, "getNameInLang: body is not the exact-tag / English / empty lookup ("+got+")")
						}
						continue
					}
					if gd.Recv != nil || !gd.Name.IsExported() {
						continue
					}
					// which tables does the body mention, in order
					tabs := []string{}
					ast.Inspect(gd.Body, func(n ast.Node) bool {
						if id, ok := n.(*ast.Ident); ok && (strings.HasSuffix(id.Name, "Map")) {
							tabs = append(tabs, id.Name)
						}
						return true
					})
					nparams := 0
					for _, fl := range gd.Type.Params.List {
						nparams += len(fl.Names)
					}
					pn := []string{}
					for _, fl := range gd.Type.Params.List {
						for _, n := range fl.Names {
							pn = append(pn, n.Name)
						}
					}
					got := squash(gd.Body)
					switch {
					case nparams == 1 && len(tabs) == 1:
						// the body is exactly: return <table>.getNameInLang(<lang>)
						if want := fmt.Sprintf("{ return %s.getNameInLang(%s) }", tabs[0], pn[0]); got != want {
							problems = append(problems, fmt.Sprintf("function %s: body is not the title lookup (%s)", gd.Name.Name, got))
							continue
						}
						funcs = append(funcs, fn{gd.Name.Name, "title", tabs[0], ""})
					case nparams == 2 && len(tabs) == 2:
						// the body is exactly: if m, ok := <table>[<value>]; ok { return m.getNameInLang(<lang>) }; return <fallback>.getNameInLang(<lang>)
						ok := false
						if ifs, isIf := firstIf(gd.Body); isIf {
							if as, isAs := ifs.Init.(*ast.AssignStmt); isAs && len(as.Lhs) == 2 {
								m, k := squash(as.Lhs[0]), squash(as.Lhs[1])
								want := fmt.Sprintf("{ if %s, %s := %s[%s]; %s { return %s.getNameInLang(%s) } return %s.getNameInLang(%s) }",
									m, k, tabs[0], pn[0], k, m, pn[1], tabs[1], pn[1])
								ok = got == want && m != "_" && k != "_" && m != k && m != pn[1] && k != pn[1]
							}
						}
						if !ok {
							problems = append(problems, fmt.Sprintf("function %s: body is not the value lookup with fall-back (%s)", gd.Name.Name, got))
							continue
						}
						funcs = append(funcs, fn{gd.Name.Name, "value", tabs[0], tabs[1]})
					default:
						problems = append(problems, fmt.Sprintf("function %s: unexpected shape (%d params, tables %v)", gd.Name.Name, nparams, tabs))
					}
				}
			}
		}
	}
	if !sawLookup {
		problems = append(problems, "no getNameInLang method found")
	}
	sort.Slice(funcs, func(i, j int) bool { return funcs[i].name < funcs[j].name })
	var sb strings.Builder
	sb.WriteString("/- GENERATED on every run by go/extract from /repo/v3/report/names and /repo/v3/metric — do not edit. -/\n")
	sb.WriteString("import CvssVerif.Basic.Bytes\nnamespace CvssVerif.Gen.Names\nopen CvssVerif\n\n")
	sb.WriteString("/-- language of a table entry: 0 = language.English, 1 = language.Japanese -/\nabbrev LangTab := List (Nat × Bytes)\n\n")
	lm := func(m langMap) string {
		parts := []string{}
		if s, ok := m["en"]; ok {
			parts = append(parts, "(0, "+bytesLit(s)+")")
		}
		if s, ok := m["ja"]; ok {
			parts = append(parts, "(1, "+bytesLit(s)+")")
		}
		keys := []string{}
		for k := range m {
			if k != "en" && k != "ja" {
				keys = append(keys, k)
			}
		}
		sort.Strings(keys)
		for i, k := range keys {
			parts = append(parts, fmt.Sprintf("(%d, %s)", 2+i, bytesLit(m[k])))
		}
		return "[" + strings.Join(parts, ", ") + "]"
	}
	tnames := []string{}
	for k := range titles {
		tnames = append(tnames, k)
	}
	sort.Strings(tnames)
	sb.WriteString("/-- the `langNameMap` literals -/\ndef titleTabs : List (String × LangTab) := [\n")
	for i, k := range tnames {
		c := ","
		if i == len(tnames)-1 {
			c = ""
		}
		fmt.Fprintf(&sb, "  (%q, %s)%s  -- %s\n", k, lm(titles[k]), c, strings.ReplaceAll(titles[k]["en"], "\n", " "))
	}
	sb.WriteString("]\n\n")
	vnames := []string{}
	for k := range values {
		vnames = append(vnames, k)
	}
	sort.Strings(vnames)
	sb.WriteString("/-- the `map[metric.T]langNameMap` literals: enumeration value ↦ names -/\ndef valueTabs : List (String × List (Int × LangTab)) := [\n")
	for i, k := range vnames {
		keys := []int{}
		for v := range values[k] {
			keys = append(keys, v)
		}
		sort.Ints(keys)
		ent := []string{}
		for _, v := range keys {
			ent = append(ent, fmt.Sprintf("(%d, %s)", v, lm(values[k][v])))
		}
		c := ","
		if i == len(vnames)-1 {
			c = ""
		}
		fmt.Fprintf(&sb, "  (%q, [\n    %s])%s\n", k, strings.Join(ent, ",\n    "), c)
	}
	sb.WriteString("]\n\n")
	sb.WriteString("/-- exported functions: name ↦ (isValueFunction, table read, fall-back table) -/\ndef funcs : List (String × Bool × String × String) := [\n")
	for i, f := range funcs {
		c := ","
		if i == len(funcs)-1 {
			c = ""
		}
		fmt.Fprintf(&sb, "  (%q, %v, %q, %q)%s\n", f.name, f.kind == "value", f.tab, f.fallback, c)
	}
	sb.WriteString("]\n\n")
	sb.WriteString("/-- anything the extractor could not read (must be empty) -/\ndef problems : List String := [")
	for i, p := range problems {
		if i > 0 {
			sb.WriteString(", ")
		}
		fmt.Fprintf(&sb, "%q", p)
	}
	sb.WriteString("]\n\nend CvssVerif.Gen.Names\n")
	must(os.MkdirAll(filepath.Dir(out), 0o755))
	// rewrite only when the content changed, so that an unchanged tree does not trigger a rebuild
	old, _ := os.ReadFile(out)
	if string(old) != sb.String() {
		must(os.WriteFile(out, []byte(sb.String()), 0o644))
	}
	fmt.Printf("titles=%d valueTables=%d functions=%d problems=%d\n", len(titles), len(values), len(funcs), len(problems))
}
