// effects: a write-set extractor for goark/go-cvss (C15, C16).
//
//	effects <repo-dir> <out.lean>
//
// Builds the SSA form of the library's four packages and computes, for every function, through
// which of its parameters (receiver = parameter 0) it may write memory, and which package-level
// variables it may write (or hand out the address of). The facts about the *exported* functions
// and methods are written as a Lean table; Props/C15 proves by evaluation that the table says what
// the model assumes: only Decode writes (its receiver), nothing writes package-level state.
//
// The analysis is a flow-insensitive may-analysis on pointer provenance:
//   - a value's origins are the parameters / globals / local allocations it may point into
//     (loads, field and index addressing, slicing, conversions, phis, map look-ups and the results
//     of calls inherit the origins of their operands);
//   - Store / MapUpdate through a pointer writes all its origins; calls propagate the callee's
//     summary to the actual arguments (fixpoint over the call graph of the analysed packages);
//   - a call whose callee is not known statically (function value, interface method) or lies
//     outside the analysed packages is assumed not to write through parameter-derived pointers
//     (text/template, fmt, strings, errs only read their arguments) — EXCEPT that a pointer
//     derived from a package-level variable reaching such a call counts as a write of that
//     variable (sync.Map, sync.Once, mutexes, option closures applied to a shared default …).
package main

import (
	"fmt"
	"go/token"
	"go/types"
	"os"
	"sort"
	"strings"

	"golang.org/x/tools/go/packages"
	"golang.org/x/tools/go/ssa"
	"golang.org/x/tools/go/ssa/ssautil"
)

var dbg = os.Getenv("EFFECTS_DEBUG") != ""
var osStderr = os.Stderr

var pkgPaths = []string{
	"github.com/goark/go-cvss/v2/metric",
	"github.com/goark/go-cvss/v3/metric",
	"github.com/goark/go-cvss/v3/report",
	"github.com/goark/go-cvss/v3/report/names",
	"github.com/goark/go-cvss/v3/version",
}

type origin struct {
	kind string // "param", "global", "local"
	idx  int    // parameter index
	name string // global name
}

type summary struct {
	params  map[int]bool    // parameters written through
	globals map[string]bool // package-level variables written / escaping
	retFrom map[origin]bool // what the results may point into (params/globals), for callers
}

func main() {
	if len(os.Args) != 3 {
		fmt.Fprintln(os.Stderr, "usage: effects <repo-dir> <out.lean>")
		os.Exit(2)
	}
	cfg := &packages.Config{Mode: packages.LoadAllSyntax, Dir: os.Args[1], Env: append(os.Environ(), "GOFLAGS=-mod=mod")}
	pkgs, err := packages.Load(cfg, "./...")
	if err != nil {
		fmt.Fprintln(os.Stderr, "load:", err)
		os.Exit(1)
	}
	if packages.PrintErrors(pkgs) > 0 {
		os.Exit(1)
	}
	prog, spkgs := ssautil.AllPackages(pkgs, ssa.InstantiateGenerics)
	prog.Build()
	// every package of the library's module is analysed (a change may add an internal package); its test-only and
	// sample packages are left out
	mine := map[*ssa.Package]bool{}
	for _, p := range prog.AllPackages() {
		path := p.Pkg.Path()
		if strings.HasPrefix(path, "github.com/goark/go-cvss") && !strings.HasSuffix(path, "/sample") {
			mine[p] = true
		}
	}
	_ = spkgs
	// all functions of the analysed packages (methods, closures included)
	funcs := []*ssa.Function{}
	for f := range ssautil.AllFunctions(prog) {
		pk := f.Pkg
		if pk == nil && f.Origin() != nil {
			pk = f.Origin().Pkg // an instantiation of a generic function of the library
		}
		if pk != nil && mine[pk] && len(f.Blocks) > 0 {
			funcs = append(funcs, f)
		}
	}
	sort.Slice(funcs, func(i, j int) bool { return funcs[i].String() < funcs[j].String() })
	sums := map[*ssa.Function]*summary{}
	for _, f := range funcs {
		sums[f] = &summary{params: map[int]bool{}, globals: map[string]bool{}, retFrom: map[origin]bool{}}
	}
	for changed := true; changed; {
		changed = false
		for _, f := range funcs {
			if analyse(f, sums, mine) {
				changed = true
			}
		}
	}
	if os.Getenv("EFFECTS_DEBUG") != "" {
		for _, f := range funcs {
			if len(sums[f].params)+len(sums[f].globals) > 0 {
				fmt.Fprintln(os.Stderr, "DEBUG", f.String(), sums[f].params, sums[f].globals)
			}
		}
	}
	// facts about exported functions and methods (package initialisers excluded: they run before any call)
	type row struct {
		name    string
		params  []int
		globals []string
	}
	rows := []row{}
	for _, f := range funcs {
		if f.Synthetic != "" || f.Parent() != nil || f.Name() == "init" || !token.IsExported(f.Name()) {
			continue
		}
		if recv := f.Signature.Recv(); recv != nil {
			t := recv.Type()
			if p, ok := t.(*types.Pointer); ok {
				t = p.Elem()
			}
			if n, ok := t.(*types.Named); ok && !n.Obj().Exported() {
				continue
			}
		}
		s := sums[f]
		r := row{name: shortName(f)}
		for i := range s.params {
			r.params = append(r.params, i)
		}
		sort.Ints(r.params)
		for g := range s.globals {
			r.globals = append(r.globals, g)
		}
		sort.Strings(r.globals)
		rows = append(rows, r)
	}
	sort.Slice(rows, func(i, j int) bool { return rows[i].name < rows[j].name })
	var sb strings.Builder
	sb.WriteString("/- GENERATED by go/effects from the library source on every run. Do not edit. -/\n")
	sb.WriteString("import CvssVerif.Basic.Bytes\nnamespace CvssVerif.Gen.Effects\nopen CvssVerif\n\n")
	sb.WriteString("/-- exported function or method (full name, bare name) ↦ parameters it may write through (receiver = 0),\n    package-level variables it may write -/\n")
	sb.WriteString("def exported : List (Bytes × Bytes × List Nat × List Bytes) := [\n")
	for i, r := range rows {
		ps := []string{}
		for _, p := range r.params {
			ps = append(ps, fmt.Sprint(p))
		}
		gs := []string{}
		for _, g := range r.globals {
			gs = append(gs, fmt.Sprintf("b!%q", g))
		}
		sep := ","
		if i == len(rows)-1 {
			sep = ""
		}
		bare := r.name[strings.LastIndex(r.name, ".")+1:]
		fmt.Fprintf(&sb, "  (b!%q, b!%q, [%s], [%s])%s\n", r.name, bare, strings.Join(ps, ", "), strings.Join(gs, ", "), sep)
	}
	sb.WriteString("]\n\nend CvssVerif.Gen.Effects\n")
	if err := os.WriteFile(os.Args[2], []byte(sb.String()), 0o644); err != nil {
		fmt.Fprintln(os.Stderr, err)
		os.Exit(1)
	}
	fmt.Printf("effects: %d functions analysed, %d exported rows\n", len(funcs), len(rows))
}

func shortName(f *ssa.Function) string {
	s := f.String()
	s = strings.ReplaceAll(s, "github.com/goark/go-cvss/", "")
	return s
}

// analyse recomputes f's summary; reports whether it grew.
func analyse(f *ssa.Function, sums map[*ssa.Function]*summary, mine map[*ssa.Package]bool) bool {
	s := sums[f]
	before := len(s.params) + len(s.globals) + len(s.retFrom)
	orig := map[ssa.Value]map[origin]bool{}
	// what has been stored into each local variable (flow-insensitive): a load from the variable yields it
	stored := map[*ssa.Alloc][]ssa.Value{}
	rootAlloc := func(v ssa.Value) *ssa.Alloc {
		for i := 0; i < 50; i++ {
			switch x := v.(type) {
			case *ssa.Alloc:
				return x
			case *ssa.FieldAddr:
				v = x.X
			case *ssa.IndexAddr:
				v = x.X
			default:
				return nil
			}
		}
		return nil
	}
	for _, b := range f.Blocks {
		for _, ins := range b.Instrs {
			if st, ok := ins.(*ssa.Store); ok {
				if a := rootAlloc(st.Addr); a != nil {
					stored[a] = append(stored[a], st.Val)
				}
			}
		}
	}
	var originsOf func(v ssa.Value, depth int) map[origin]bool
	add := func(dst map[origin]bool, src map[origin]bool) {
		for o := range src {
			dst[o] = true
		}
	}
	originsOf = func(v ssa.Value, depth int) map[origin]bool {
		if m, ok := orig[v]; ok {
			return m
		}
		m := map[origin]bool{}
		orig[v] = m // cycles (phis) see the partial set; the outer fixpoint below completes it
		if depth > 200 {
			return m
		}
		switch x := v.(type) {
		case *ssa.Parameter:
			for i, p := range f.Params {
				if p == x {
					m[origin{kind: "param", idx: i}] = true
				}
			}
		case *ssa.FreeVar:
			m[origin{kind: "param", idx: 1000}] = true // captured variable: treated like a parameter of the closure
		case *ssa.Global:
			m[origin{kind: "global", name: x.Name()}] = true
		case *ssa.Alloc, *ssa.MakeMap, *ssa.MakeSlice, *ssa.MakeChan, *ssa.Const, *ssa.Function, *ssa.Builtin:
			// fresh or immutable
		case *ssa.MakeClosure:
			for _, b := range x.Bindings {
				add(m, originsOf(b, depth+1))
				if a := rootAlloc(b); a != nil { // a captured local variable: what it holds is reachable from the closure
					for _, v := range stored[a] {
						add(m, originsOf(v, depth+1))
					}
				}
			}
		case *ssa.FieldAddr:
			add(m, originsOf(x.X, depth+1))
		case *ssa.Field:
			add(m, originsOf(x.X, depth+1))
		case *ssa.IndexAddr:
			add(m, originsOf(x.X, depth+1))
		case *ssa.Index:
			add(m, originsOf(x.X, depth+1))
		case *ssa.Slice:
			add(m, originsOf(x.X, depth+1))
		case *ssa.Lookup:
			add(m, originsOf(x.X, depth+1))
		case *ssa.UnOp:
			add(m, originsOf(x.X, depth+1))
			if x.Op == token.MUL {
				if a := rootAlloc(x.X); a != nil {
					for _, v := range stored[a] {
						add(m, originsOf(v, depth+1))
					}
				}
			}
		case *ssa.ChangeType:
			add(m, originsOf(x.X, depth+1))
		case *ssa.Convert:
			add(m, originsOf(x.X, depth+1))
		case *ssa.ChangeInterface:
			add(m, originsOf(x.X, depth+1))
		case *ssa.MakeInterface:
			add(m, originsOf(x.X, depth+1))
		case *ssa.TypeAssert:
			add(m, originsOf(x.X, depth+1))
		case *ssa.Extract:
			add(m, originsOf(x.Tuple, depth+1))
		case *ssa.Phi:
			for _, e := range x.Edges {
				add(m, originsOf(e, depth+1))
			}
		case *ssa.Range, *ssa.Next:
			for _, op := range x.(ssa.Instruction).Operands(nil) {
				if *op != nil {
					add(m, originsOf(*op, depth+1))
				}
			}
		case *ssa.Call:
			callee := x.Call.StaticCallee()
			args := x.Call.Args
			if callee != nil && sums[callee] != nil {
				for o := range sums[callee].retFrom {
					switch o.kind {
					case "global":
						m[o] = true
					case "param":
						if o.idx < len(args) {
							add(m, originsOf(args[o.idx], depth+1))
						}
					}
				}
			} else if x.Call.IsInvoke() {
				add(m, originsOf(x.Call.Value, depth+1))
			}
			// results of other calls are treated as fresh
		}
		return m
	}
	pointerLike := func(t types.Type) bool {
		switch t.Underlying().(type) {
		case *types.Pointer, *types.Map, *types.Slice, *types.Interface, *types.Chan, *types.Signature:
			return true
		}
		return false
	}
	var cur ssa.Instruction
	write := func(os map[origin]bool) {
		if len(os) > 0 && dbg {
			fmt.Fprintln(osStderr, "DEBUG-WRITE", f.String(), cur, os)
		}
		for o := range os {
			switch o.kind {
			case "param":
				s.params[o.idx] = true
			case "global":
				s.globals[o.name] = true
			}
		}
	}
	// two passes so that phi cycles settle
	for pass := 0; pass < 2; pass++ {
		orig = map[ssa.Value]map[origin]bool{}
		for _, b := range f.Blocks {
			for _, ins := range b.Instrs {
				cur = ins
				switch x := ins.(type) {
				case *ssa.Store:
					write(originsOf(x.Addr, 0))
				case *ssa.MapUpdate:
					write(originsOf(x.Map, 0))
				case *ssa.Send:
					write(originsOf(x.Chan, 0))
				case *ssa.Return:
					for _, r := range x.Results {
						if pointerLike(r.Type()) {
							for o := range originsOf(r, 0) {
								if o.kind != "local" {
									s.retFrom[o] = true
								}
							}
						}
					}
				case ssa.CallInstruction:
					c := x.Common()
					callee := c.StaticCallee()
					args := c.Args
					if callee != nil && sums[callee] != nil {
						cs := sums[callee]
						for i := range cs.params {
							if i == 1000 {
								// the callee is a closure writing a captured variable: attribute to its bindings
								if mc, ok := c.Value.(*ssa.MakeClosure); ok {
									for _, bnd := range mc.Bindings {
										write(originsOf(bnd, 0))
									}
								}
								continue
							}
							if i < len(args) {
								write(originsOf(args[i], 0))
							}
						}
						for g := range cs.globals {
							s.globals[g] = true
						}
						continue
					}
					if bi, ok := c.Value.(*ssa.Builtin); ok {
						// copy, delete and clear write their first argument; the other builtins (len, cap, append
						// into a fresh or reassigned slice, ...) do not write memory the caller can still see
						switch bi.Name() {
						case "copy", "delete", "clear":
							if len(args) > 0 {
								write(originsOf(args[0], 0))
							}
						}
						continue
					}
					// a call through an interface value: every method of the library with that name whose receiver type
					// implements the interface may be the callee (class-hierarchy resolution); the union of their
					// summaries applies, the receiver being the interface value
					if c.IsInvoke() {
						if it, ok := c.Value.Type().Underlying().(*types.Interface); ok {
							cands := []*ssa.Function{}
							for g := range sums {
								recv := g.Signature.Recv()
								if recv == nil || g.Name() != c.Method.Name() {
									continue
								}
								if types.Implements(recv.Type(), it) {
									cands = append(cands, g)
								}
							}
							for _, g := range cands {
								cs := sums[g]
								for i := range cs.params {
									switch {
									case i == 0:
										write(originsOf(c.Value, 0))
									case i == 1000:
									case i-1 < len(args):
										write(originsOf(args[i-1], 0))
									}
								}
								for gl := range cs.globals {
									s.globals[gl] = true
								}
							}
						}
					}
					// unknown or external callee
					vals := append([]ssa.Value{}, args...)
					if c.IsInvoke() {
						vals = append(vals, c.Value)
					}
					if callee == nil || mayMutateArgs(callee) {
						for _, a := range vals {
							if !pointerLike(a.Type()) {
								continue
							}
							for o := range originsOf(a, 0) {
								if o.kind == "global" && escapesAddress(a) {
									s.globals[o.name] = true
								}
								if o.kind == "param" && callee != nil {
									s.params[o.idx] = true // a known mutator (sync.Once.Do, Mutex.Lock, sort.Sort, ...) applied to memory of a parameter
								}
							}
						}
					}
					// a closure of the library handed to code outside it (sync.Once.Do, sort.Slice, ...) is assumed to be called
					for _, a := range vals {
						if mc, ok := a.(*ssa.MakeClosure); ok {
							if fn, ok := mc.Fn.(*ssa.Function); ok && sums[fn] != nil {
								if sums[fn].params[1000] {
									write(originsOf(mc, 0))
								}
								for g := range sums[fn].globals {
									s.globals[g] = true
								}
							}
						}
					}
					// a call of a function *value* (option closures, callbacks) may write through what it is given
					if callee == nil && !c.IsInvoke() {
						for _, a := range args {
							if pointerLike(a.Type()) {
								write(originsOf(a, 0))
							}
						}
					}
				}
			}
		}
	}
	return len(s.params)+len(s.globals)+len(s.retFrom) != before
}

// mayMutateArgs: functions outside the library that are known to write through their arguments or receiver, or to
// synchronise on them (which presupposes shared mutable state).  Everything else outside the library (strings, strconv,
// fmt, slices.Index / Contains / BinarySearch, sort.Search, errors, unicode, math, text/template reading its data, ...)
// is taken to only read what it is given.
func mayMutateArgs(f *ssa.Function) bool {
	pkg := ""
	if f.Pkg != nil {
		pkg = f.Pkg.Pkg.Path()
	} else if f.Origin() != nil && f.Origin().Pkg != nil {
		pkg = f.Origin().Pkg.Pkg.Path()
	}
	switch pkg {
	case "sync", "sync/atomic", "container/list", "container/heap", "container/ring", "math/rand", "math/rand/v2":
		return true
	}
	name := f.Name()
	for _, pre := range []string{"Sort", "Stable", "Reverse", "Insert", "Delete", "Compact", "Clip", "Grow", "Copy", "Clear", "Store", "Swap",
		"Add", "CompareAndSwap", "Put", "Lock", "Unlock", "RLock", "RUnlock", "LoadOrStore", "LoadAndDelete", "Write", "Reset",
		"Truncate", "ReadFrom", "Set", "Push", "Pop", "Shuffle", "Fill"} {
		if strings.HasPrefix(name, pre) {
			return true
		}
	}
	return false
}

// escapesAddress: does the value denote memory of a package-level variable itself (its address, a
// pointer stored in it), as opposed to an immutable value read from it (an error value, a string)?
func escapesAddress(v ssa.Value) bool {
	switch t := v.Type().Underlying().(type) {
	case *types.Pointer, *types.Map, *types.Slice, *types.Chan:
		return true
	case *types.Interface:
		// an interface holding a pointer to mutable state
		if mi, ok := v.(*ssa.MakeInterface); ok {
			switch mi.X.Type().Underlying().(type) {
			case *types.Pointer, *types.Map, *types.Slice, *types.Chan:
				// sentinel errors are pointers to immutable error structs read from globals: a load from a
				// global of interface type is not an escape of the variable
				_, isLoad := mi.X.(*ssa.UnOp)
				return !isLoad
			}
			return false
		}
		return false
	default:
		_ = t
	}
	return false
}
