//go:build !verif_notabs

package main

import (
	m2 "github.com/goark/go-cvss/v2/metric"
	m3 "github.com/goark/go-cvss/v3/metric"
)

// The direct calls of the per-metric types' exported functions (T3 / T2 operations).  They live in a file of their own
// so that a library whose per-metric API no longer has the pinned signatures still gets a harness (built with
// -tags verif_notabs: tabs_stub.go): the T3 / T2 operations then answer "api=changed", everything else is unaffected.
const tabsOn = true

var sc3 = []m3.Scope{0, 1, 2}

var tabs3 = map[string]tab{
	"AV": {func(s string) int { return int(m3.GetAttackVector(s)) }, func(v int) string { return m3.AttackVector(v).String() },
		func(v int) bool { return !m3.AttackVector(v).IsUnknown() }, func(v int) []float64 { return []float64{m3.AttackVector(v).Value()} }},
	"AC": {func(s string) int { return int(m3.GetAttackComplexity(s)) }, func(v int) string { return m3.AttackComplexity(v).String() },
		func(v int) bool { return !m3.AttackComplexity(v).IsUnknown() }, func(v int) []float64 { return []float64{m3.AttackComplexity(v).Value()} }},
	"PR": {func(s string) int { return int(m3.GetPrivilegesRequired(s)) }, func(v int) string { return m3.PrivilegesRequired(v).String() },
		func(v int) bool { return !m3.PrivilegesRequired(v).IsUnknown() }, func(v int) []float64 {
			r := []float64{}
			for _, s := range sc3 {
				r = append(r, m3.PrivilegesRequired(v).Value(s))
			}
			return r
		}},
	"UI": {func(s string) int { return int(m3.GetUserInteraction(s)) }, func(v int) string { return m3.UserInteraction(v).String() },
		func(v int) bool { return !m3.UserInteraction(v).IsUnknown() }, func(v int) []float64 { return []float64{m3.UserInteraction(v).Value()} }},
	"S": {func(s string) int { return int(m3.GetScope(s)) }, func(v int) string { return m3.Scope(v).String() },
		func(v int) bool { return !m3.Scope(v).IsUnknown() }, func(v int) []float64 {
			if m3.Scope(v).IsChanged() {
				return []float64{1}
			}
			return []float64{0}
		}},
	"C": {func(s string) int { return int(m3.GetConfidentialityImpact(s)) }, func(v int) string { return m3.ConfidentialityImpact(v).String() },
		func(v int) bool { return !m3.ConfidentialityImpact(v).IsUnknown() }, func(v int) []float64 { return []float64{m3.ConfidentialityImpact(v).Value()} }},
	"I": {func(s string) int { return int(m3.GetIntegrityImpact(s)) }, func(v int) string { return m3.IntegrityImpact(v).String() },
		func(v int) bool { return !m3.IntegrityImpact(v).IsUnknown() }, func(v int) []float64 { return []float64{m3.IntegrityImpact(v).Value()} }},
	"A": {func(s string) int { return int(m3.GetAvailabilityImpact(s)) }, func(v int) string { return m3.AvailabilityImpact(v).String() },
		func(v int) bool { return !m3.AvailabilityImpact(v).IsUnknown() }, func(v int) []float64 { return []float64{m3.AvailabilityImpact(v).Value()} }},
	"E": {func(s string) int { return int(m3.GetExploitability(s)) }, func(v int) string { return m3.Exploitability(v).String() },
		func(v int) bool { return m3.Exploitability(v).IsValid() }, func(v int) []float64 { return []float64{m3.Exploitability(v).Value()} }},
	"RL": {func(s string) int { return int(m3.GetRemediationLevel(s)) }, func(v int) string { return m3.RemediationLevel(v).String() },
		func(v int) bool { return m3.RemediationLevel(v).IsValid() }, func(v int) []float64 { return []float64{m3.RemediationLevel(v).Value()} }},
	"RC": {func(s string) int { return int(m3.GetReportConfidence(s)) }, func(v int) string { return m3.ReportConfidence(v).String() },
		func(v int) bool { return m3.ReportConfidence(v).IsValid() }, func(v int) []float64 { return []float64{m3.ReportConfidence(v).Value()} }},
	"CR": {func(s string) int { return int(m3.GetConfidentialityRequirement(s)) }, func(v int) string { return m3.ConfidentialityRequirement(v).String() },
		func(v int) bool { return m3.ConfidentialityRequirement(v).IsValid() }, func(v int) []float64 { return []float64{m3.ConfidentialityRequirement(v).Value()} }},
	"IR": {func(s string) int { return int(m3.GetIntegrityRequirement(s)) }, func(v int) string { return m3.IntegrityRequirement(v).String() },
		func(v int) bool { return m3.IntegrityRequirement(v).IsValid() }, func(v int) []float64 { return []float64{m3.IntegrityRequirement(v).Value()} }},
	"AR": {func(s string) int { return int(m3.GetAvailabilityRequirement(s)) }, func(v int) string { return m3.AvailabilityRequirement(v).String() },
		func(v int) bool { return m3.AvailabilityRequirement(v).IsValid() }, func(v int) []float64 { return []float64{m3.AvailabilityRequirement(v).Value()} }},
	"MAV": {func(s string) int { return int(m3.GetModifiedAttackVector(s)) }, func(v int) string { return m3.ModifiedAttackVector(v).String() },
		func(v int) bool { return m3.ModifiedAttackVector(v).IsValid() }, func(v int) []float64 {
			r := []float64{}
			for b := 0; b <= 5; b++ {
				r = append(r, m3.ModifiedAttackVector(v).Value(m3.AttackVector(b)))
			}
			return r
		}},
	"MAC": {func(s string) int { return int(m3.GetModifiedAttackComplexity(s)) }, func(v int) string { return m3.ModifiedAttackComplexity(v).String() },
		func(v int) bool { return m3.ModifiedAttackComplexity(v).IsValid() }, func(v int) []float64 {
			r := []float64{}
			for b := 0; b <= 5; b++ {
				r = append(r, m3.ModifiedAttackComplexity(v).Value(m3.AttackComplexity(b)))
			}
			return r
		}},
	"MPR": {func(s string) int { return int(m3.GetModifiedPrivilegesRequired(s)) }, func(v int) string { return m3.ModifiedPrivilegesRequired(v).String() },
		func(v int) bool { return m3.ModifiedPrivilegesRequired(v).IsValid() }, func(v int) []float64 {
			r := []float64{}
			for ms := 0; ms <= 4; ms++ {
				for s := 0; s <= 3; s++ {
					for pr := 0; pr <= 4; pr++ {
						r = append(r, m3.ModifiedPrivilegesRequired(v).Value(m3.ModifiedScope(ms), m3.Scope(s), m3.PrivilegesRequired(pr)))
					}
				}
			}
			return r
		}},
	"MUI": {func(s string) int { return int(m3.GetModifiedUserInteraction(s)) }, func(v int) string { return m3.ModifiedUserInteraction(v).String() },
		func(v int) bool { return m3.ModifiedUserInteraction(v).IsValid() }, func(v int) []float64 {
			r := []float64{}
			for b := 0; b <= 5; b++ {
				r = append(r, m3.ModifiedUserInteraction(v).Value(m3.UserInteraction(b)))
			}
			return r
		}},
	"MS": {func(s string) int { return int(m3.GetModifiedScope(s)) }, func(v int) string { return m3.ModifiedScope(v).String() },
		func(v int) bool { return m3.ModifiedScope(v).IsValid() }, func(v int) []float64 {
			r := []float64{}
			for b := 0; b <= 3; b++ {
				if m3.ModifiedScope(v).IsChanged(m3.Scope(b)) {
					r = append(r, 1)
				} else {
					r = append(r, 0)
				}
			}
			return r
		}},
	"MC": {func(s string) int { return int(m3.GetModifiedConfidentialityImpact(s)) }, func(v int) string { return m3.ModifiedConfidentialityImpact(v).String() },
		func(v int) bool { return m3.ModifiedConfidentialityImpact(v).IsValid() }, func(v int) []float64 {
			r := []float64{}
			for b := 0; b <= 5; b++ {
				r = append(r, m3.ModifiedConfidentialityImpact(v).Value(m3.ConfidentialityImpact(b)))
			}
			return r
		}},
	"MI": {func(s string) int { return int(m3.GetModifiedIntegrityImpact(s)) }, func(v int) string { return m3.ModifiedIntegrityImpact(v).String() },
		func(v int) bool { return m3.ModifiedIntegrityImpact(v).IsValid() }, func(v int) []float64 {
			r := []float64{}
			for b := 0; b <= 5; b++ {
				r = append(r, m3.ModifiedIntegrityImpact(v).Value(m3.IntegrityImpact(b)))
			}
			return r
		}},
	"MA": {func(s string) int { return int(m3.GetModifiedAvailabilityImpact(s)) }, func(v int) string { return m3.ModifiedAvailabilityImpact(v).String() },
		func(v int) bool { return m3.ModifiedAvailabilityImpact(v).IsValid() }, func(v int) []float64 {
			r := []float64{}
			for b := 0; b <= 5; b++ {
				r = append(r, m3.ModifiedAvailabilityImpact(v).Value(m3.AvailabilityImpact(b)))
			}
			return r
		}},
}

var tabs2 = map[string]tab{
	"AV": {func(s string) int { return int(m2.GetAccessVector(s)) }, func(v int) string { return m2.AccessVector(v).String() },
		func(v int) bool { return m2.AccessVector(v).IsUnknown() }, func(v int) []float64 { return []float64{m2.AccessVector(v).Value()} }},
	"AC": {func(s string) int { return int(m2.GetAccessComplexity(s)) }, func(v int) string { return m2.AccessComplexity(v).String() },
		func(v int) bool { return m2.AccessComplexity(v).IsUnknown() }, func(v int) []float64 { return []float64{m2.AccessComplexity(v).Value()} }},
	"Au": {func(s string) int { return int(m2.GetAuthentication(s)) }, func(v int) string { return m2.Authentication(v).String() },
		func(v int) bool { return m2.Authentication(v).IsUnknown() }, func(v int) []float64 { return []float64{m2.Authentication(v).Value()} }},
	"C": {func(s string) int { return int(m2.GetConfidentialityImpact(s)) }, func(v int) string { return m2.ConfidentialityImpact(v).String() },
		func(v int) bool { return m2.ConfidentialityImpact(v).IsUnknown() }, func(v int) []float64 { return []float64{m2.ConfidentialityImpact(v).Value()} }},
	"I": {func(s string) int { return int(m2.GetIntegrityImpact(s)) }, func(v int) string { return m2.IntegrityImpact(v).String() },
		func(v int) bool { return m2.IntegrityImpact(v).IsUnknown() }, func(v int) []float64 { return []float64{m2.IntegrityImpact(v).Value()} }},
	"A": {func(s string) int { return int(m2.GetAvailabilityImpact(s)) }, func(v int) string { return m2.AvailabilityImpact(v).String() },
		func(v int) bool { return m2.AvailabilityImpact(v).IsUnknown() }, func(v int) []float64 { return []float64{m2.AvailabilityImpact(v).Value()} }},
	"E": {func(s string) int { return int(m2.GetExploitability(s)) }, func(v int) string { return m2.Exploitability(v).String() },
		func(v int) bool { return m2.Exploitability(v).IsValid() }, func(v int) []float64 { return []float64{m2.Exploitability(v).Value()} }},
	"RL": {func(s string) int { return int(m2.GetRemediationLevel(s)) }, func(v int) string { return m2.RemediationLevel(v).String() },
		func(v int) bool { return m2.RemediationLevel(v).IsValid() }, func(v int) []float64 { return []float64{m2.RemediationLevel(v).Value()} }},
	"RC": {func(s string) int { return int(m2.GetReportConfidence(s)) }, func(v int) string { return m2.ReportConfidence(v).String() },
		func(v int) bool { return m2.ReportConfidence(v).IsValid() }, func(v int) []float64 { return []float64{m2.ReportConfidence(v).Value()} }},
	"CDP": {func(s string) int { return int(m2.GetCollateralDamagePotential(s)) }, func(v int) string { return m2.CollateralDamagePotential(v).String() },
		func(v int) bool { return m2.CollateralDamagePotential(v).IsValid() }, func(v int) []float64 { return []float64{m2.CollateralDamagePotential(v).Value()} }},
	"TD": {func(s string) int { return int(m2.GetTargetDistribution(s)) }, func(v int) string { return m2.TargetDistribution(v).String() },
		func(v int) bool { return m2.TargetDistribution(v).IsValid() }, func(v int) []float64 { return []float64{m2.TargetDistribution(v).Value()} }},
	"CR": {func(s string) int { return int(m2.GetConfidentialityRequirement(s)) }, func(v int) string { return m2.ConfidentialityRequirement(v).String() },
		func(v int) bool { return m2.ConfidentialityRequirement(v).IsValid() }, func(v int) []float64 { return []float64{m2.ConfidentialityRequirement(v).Value()} }},
	"IR": {func(s string) int { return int(m2.GetIntegrityRequirement(s)) }, func(v int) string { return m2.IntegrityRequirement(v).String() },
		func(v int) bool { return m2.IntegrityRequirement(v).IsValid() }, func(v int) []float64 { return []float64{m2.IntegrityRequirement(v).Value()} }},
	"AR": {func(s string) int { return int(m2.GetAvailabilityRequirement(s)) }, func(v int) string { return m2.AvailabilityRequirement(v).String() },
		func(v int) bool { return m2.AvailabilityRequirement(v).IsValid() }, func(v int) []float64 { return []float64{m2.AvailabilityRequirement(v).Value()} }},
}
