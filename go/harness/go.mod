module verif/harness

go 1.22

require (
	github.com/goark/errs v1.3.2
	github.com/goark/go-cvss v0.0.0
	golang.org/x/text v0.14.0
)

replace github.com/goark/go-cvss => /repo
