//go:build verif_notabs

package main

// Fallback when tabs_direct.go does not compile against the library (an exported per-metric signature changed):
// the T3 / T2 operations answer "api=changed"; see core.build_harness.
const tabsOn = false

var tabs3 = map[string]tab{}
var tabs2 = map[string]tab{}
