//go:build !verif

package main

// Fallback when the library does not compile with its `verif` hooks (a change to the internals the
// hooks touch): everything else is observed through the exported API only, names sets are unknown.
const hooksOn = false

func hookNames(x interface{}) []string { return nil }
