//go:build verif

package main

// The library is built with its `verif` hooks: the names sets recorded by decodeOne are visible.
const hooksOn = true

type namer interface{ VerifNames() []string }

func hookNames(x namer) []string { return x.VerifNames() }
