// Harness: executes operation lines against the real go-cvss library (built from /repo's
// working tree with -tags verif) and prints one canonical result line per operation.
// The Lean driver (lean/Driver.lean) executes the same lines on the model; check.py diffs.
package main

import (
	"bufio"
	"encoding/hex"
	"errors"
	"fmt"
	"math"
	"os"
	"strconv"
	"strings"

	"github.com/goark/go-cvss/cvsserr"
	m2 "github.com/goark/go-cvss/v2/metric"
	m3 "github.com/goark/go-cvss/v3/metric"
)

var sentinels = []struct {
	name string
	err  error
}{
	{"NullPointer", cvsserr.ErrNullPointer},
	{"InvalidVector", cvsserr.ErrInvalidVector},
	{"NotSupportVer", cvsserr.ErrNotSupportVer},
	{"NotSupportMetric", cvsserr.ErrNotSupportMetric},
	{"InvalidTemplate", cvsserr.ErrInvalidTemplate},
	{"SameMetric", cvsserr.ErrSameMetric},
	{"InvalidValue", cvsserr.ErrInvalidValue},
	{"NoBaseMetrics", cvsserr.ErrNoBaseMetrics},
	{"NoTemporalMetrics", cvsserr.ErrNoTemporalMetrics},
	{"NoEnvironmentalMetrics", cvsserr.ErrNoEnvironmentalMetrics},
	{"Misordered", cvsserr.ErrMisordered},
}

// errTag: "-" for nil, else the '+'-joined names of every sentinel matching under errors.Is
// ("OTHER" if none matches).
func errTag(err error) string {
	if err == nil {
		return "-"
	}
	r := []string{}
	for _, s := range sentinels {
		if errors.Is(err, s.err) {
			r = append(r, s.name)
		}
	}
	if len(r) == 0 {
		return "OTHER"
	}
	return strings.Join(r, "+")
}

func fbits(x float64) string { return fmt.Sprintf("%016x", math.Float64bits(x)) }
func hx(s string) string {
	if s == "" {
		return "-"
	}
	return hex.EncodeToString([]byte(s))
}
func unhx(s string) string {
	if s == "-" {
		return ""
	}
	b, err := hex.DecodeString(s)
	if err != nil {
		panic("bad hex in op: " + s)
	}
	return string(b)
}
func ints(xs ...int) string {
	r := make([]string, len(xs))
	for i, x := range xs {
		r[i] = strconv.Itoa(x)
	}
	return strings.Join(r, ",")
}
func mask(names []string, all []string) string {
	if !hooksOn {
		return "?"
	}
	set := map[string]bool{}
	for _, n := range names {
		set[n] = true
	}
	b := make([]byte, len(all))
	for i, n := range all {
		if set[n] {
			b[i] = '1'
		} else {
			b[i] = '0'
		}
	}
	// names outside `all` would be a model/code mismatch worth seeing
	extra := ""
	for _, n := range names {
		found := false
		for _, a := range all {
			if a == n {
				found = true
			}
		}
		if !found {
			extra += "!" + n
		}
	}
	return string(b) + extra
}
func encPair(s string, err error) string { return hx(s) + "|" + errTag(err) }

type encoder interface{ Encode() (string, error) }

// strEq: "1" if String() returned the same text as Encode()
func strEq(str string, e encoder) string {
	enc, _ := e.Encode()
	if str == enc {
		return "1"
	}
	return "0"
}

var names3 = []string{"AV", "AC", "PR", "UI", "S", "C", "I", "A", "E", "RL", "RC", "CR", "IR", "AR", "MAV", "MAC", "MPR", "MUI", "MS", "MC", "MI", "MA"}
var names2 = []string{"AV", "AC", "Au", "C", "I", "A", "E", "RL", "RC", "CDP", "TD", "CR", "IR", "AR"}

func b3fields(b *m3.Base) []int {
	return []int{int(b.AV), int(b.AC), int(b.PR), int(b.UI), int(b.S), int(b.C), int(b.I), int(b.A)}
}
func t3fields(t *m3.Temporal) []int { return []int{int(t.E), int(t.RL), int(t.RC)} }
func e3fields(e *m3.Environmental) []int {
	return []int{int(e.CR), int(e.IR), int(e.AR), int(e.MAV), int(e.MAC), int(e.MPR), int(e.MUI), int(e.MS), int(e.MC), int(e.MI), int(e.MA)}
}

// dump3 prints the observable state of a v3 object of the given level (views through the
// accessors included): version, fields, names, scores, severities, encodings, validity.
func dump3(level string, b *m3.Base, t *m3.Temporal, e *m3.Environmental) string {
	var sb strings.Builder
	// an accessor may hand out nil where the object of a higher level exists (a view is missing): its fields are
	// printed as zeros, its queries go to the (nil-safe) methods of the typed nil pointer; the lists stay aligned
	if b == nil {
		f := make([]int, 8)
		_ = f
		return dump3nilBase(level, t, e)
	}
	f := b3fields(b)
	fc := []string{b.AV.String(), b.AC.String(), b.PR.String(), b.UI.String(), b.S.String(), b.C.String(), b.I.String(), b.A.String()}
	nm := append([]string{}, hookNames(b)...)
	scores := []string{fbits(b.Score())}
	sevs := []string{strconv.Itoa(int(b.Severity()))}
	svn := []string{b.Severity().String()}
	encs := []string{encPair(b.Encode())}
	ges := []string{errTag(b.GetError())}
	strs := []string{strEq(b.String(), b)}
	if t == nil && e != nil {
		// the temporal view of an environmental object is missing
		fc = append(fc, "", "", "")
		f = append(f, 0, 0, 0)
		svn = append(svn, t.Severity().String())
		scores = append(scores, fbits(t.Score()))
		sevs = append(sevs, strconv.Itoa(int(t.Severity())))
		encs = append(encs, encPair(t.Encode()))
		ges = append(ges, errTag(t.GetError()))
		strs = append(strs, "1")
	}
	if t != nil {
		fc = append(fc, t.E.String(), t.RL.String(), t.RC.String())
		svn = append(svn, t.Severity().String())
		f = append(f, t3fields(t)...)
		nm = append(nm, hookNames(t)...)
		scores = append(scores, fbits(t.Score()))
		sevs = append(sevs, strconv.Itoa(int(t.Severity())))
		encs = append(encs, encPair(t.Encode()))
		ges = append(ges, errTag(t.GetError()))
		strs = append(strs, strEq(t.String(), t))
	}
	if e != nil {
		fc = append(fc, e.CR.String(), e.IR.String(), e.AR.String(), e.MAV.String(), e.MAC.String(), e.MPR.String(), e.MUI.String(), e.MS.String(), e.MC.String(), e.MI.String(), e.MA.String())
		svn = append(svn, e.Severity().String())
		f = append(f, e3fields(e)...)
		nm = append(nm, hookNames(e)...)
		scores = append(scores, fbits(e.Score()))
		sevs = append(sevs, strconv.Itoa(int(e.Severity())))
		encs = append(encs, encPair(e.Encode()))
		ges = append(ges, errTag(e.GetError()))
		strs = append(strs, strEq(e.String(), e))
	}
	fmt.Fprintf(&sb, "v=%d vl=%s f=%s fc=%s n=%s s=%s sv=%s svn=%s enc=%s ge=%s se=%s", int(b.Ver), b.Ver.String(), ints(f...), strings.Join(fc, ","), mask(nm, names3[:len(f)]),
		strings.Join(scores, ","), strings.Join(sevs, ","), strings.Join(svn, ","), strings.Join(encs, ","), strings.Join(ges, ","), strings.Join(strs, ""))
	_ = level
	return sb.String()
}

func dump3nilBase(level string, t *m3.Temporal, e *m3.Environmental) string { return "nilview" }

func b2fields(b *m2.Base) []int {
	return []int{int(b.AV), int(b.AC), int(b.Au), int(b.C), int(b.I), int(b.A)}
}
func t2fields(t *m2.Temporal) []int { return []int{int(t.E), int(t.RL), int(t.RC)} }
func e2fields(e *m2.Environmental) []int {
	return []int{int(e.CDP), int(e.TD), int(e.CR), int(e.IR), int(e.AR)}
}

func dump2(b *m2.Base, t *m2.Temporal, e *m2.Environmental) string {
	var sb strings.Builder
	if b == nil {
		return "nilview"
	}
	f := b2fields(b)
	fc := []string{b.AV.String(), b.AC.String(), b.Au.String(), b.C.String(), b.I.String(), b.A.String()}
	nm := append([]string{}, hookNames(b)...)
	scores := []string{fbits(b.Score())}
	sevs := []string{strconv.Itoa(int(b.Severity()))}
	svn := []string{b.Severity().String()}
	encs := []string{encPair(b.Encode())}
	ges := []string{errTag(b.GetError())}
	strs := []string{strEq(b.String(), b)}
	empt := []string{}
	if t == nil && e != nil {
		// the temporal view of an environmental object is missing
		fc = append(fc, "", "", "")
		f = append(f, 0, 0, 0)
		svn = append(svn, t.Severity().String())
		scores = append(scores, fbits(t.Score()))
		sevs = append(sevs, strconv.Itoa(int(t.Severity())))
		encs = append(encs, encPair(t.Encode()))
		ges = append(ges, errTag(t.GetError()))
		strs = append(strs, "1")
		empt = append(empt, "nil")
	}
	if t != nil {
		fc = append(fc, t.E.String(), t.RL.String(), t.RC.String())
		svn = append(svn, t.Severity().String())
		f = append(f, t2fields(t)...)
		nm = append(nm, hookNames(t)...)
		scores = append(scores, fbits(t.Score()))
		sevs = append(sevs, strconv.Itoa(int(t.Severity())))
		encs = append(encs, encPair(t.Encode()))
		ges = append(ges, errTag(t.GetError()))
		strs = append(strs, strEq(t.String(), t))
		empt = append(empt, strconv.FormatBool(t.IsEmpty()))
	}
	if e != nil {
		fc = append(fc, e.CDP.String(), e.TD.String(), e.CR.String(), e.IR.String(), e.AR.String())
		svn = append(svn, e.Severity().String())
		f = append(f, e2fields(e)...)
		nm = append(nm, hookNames(e)...)
		scores = append(scores, fbits(e.Score()))
		sevs = append(sevs, strconv.Itoa(int(e.Severity())))
		encs = append(encs, encPair(e.Encode()))
		ges = append(ges, errTag(e.GetError()))
		strs = append(strs, strEq(e.String(), e))
		empt = append(empt, strconv.FormatBool(e.IsEmpty()))
	}
	fmt.Fprintf(&sb, "f=%s fc=%s n=%s s=%s sv=%s svn=%s enc=%s ge=%s se=%s emp=%s", ints(f...), strings.Join(fc, ","), mask(nm, names2[:len(f)]),
		strings.Join(scores, ","), strings.Join(sevs, ","), strings.Join(svn, ","), strings.Join(encs, ","), strings.Join(ges, ","), strings.Join(strs, ""), strings.Join(empt, ","))
	return sb.String()
}

func retTag(isNil bool, err error) string {
	// r=1: object and no error; r=0: no object and an error; anything else is a C12 violation
	switch {
	case !isNil && err == nil:
		return "1"
	case isNil && err != nil:
		return "0"
	case isNil && err == nil:
		return "NEITHER"
	default:
		return "BOTH"
	}
}

// opD3: decode into a fresh constructor result; dump the receiver afterwards (also on failure).
func opD3(level, vec string, nilRecv bool) string { return opD3x(level, vec, nilRecv, true) }

// preVec, when set, is decoded into the constructor result before the operation proper (RD3 / RD2:
// re-use of a decoder object; whatever the first Decode returned is ignored)
var preVec *string

func withPre(pre string, f func() string) string {
	preVec = &pre
	defer func() { preVec = nil }()
	return f()
}

func opD3x(level, vec string, nilRecv bool, withFlags bool) string {
	switch level {
	case "B":
		recv := m3.NewBase()
		if preVec != nil {
			pre := *preVec
			preVec = nil         // (the flags below decode with fresh objects)
			recv.Decode(pre) // RD ops: the receiver has been used for an earlier Decode
		}
		var r *m3.Base
		var err error
		if nilRecv {
			r, err = (*m3.Base)(nil).Decode(vec)
			recv = r
		} else {
			r, err = recv.Decode(vec)
			if r != nil && r != recv {
				return "r=ALIAS"
			}
		}
		out := "r=" + retTag(r == nil, err) + " e=" + errTag(err)
		if recv != nil {
			d := dump3(level, recv, nil, nil)
			out += " " + d
			// C15: the same queries again, in reverse order of levels first, must see the same object
			d2 := dump3(level, recv, nil, nil)
			if d2 == d {
				out += " q2=1"
			} else {
				out += " q2=0"
			}
			out += " vq=" + viewsSame(level, d, d2, probeSev3(recv)) + " fq=" + fieldsSame(d, d2)
			if withFlags && r != nil && err == nil {
				out += flags3(level, d, vec)
			}
		}
		return out
	case "T":
		recv := m3.NewTemporal()
		vb0 := recv.BaseMetrics() // the view as a caller holds it who asked before anything was decoded
		if preVec != nil {
			pre := *preVec
			preVec = nil         // (the flags below decode with fresh objects)
			recv.Decode(pre) // RD ops: the receiver has been used for an earlier Decode
		}
		var r *m3.Temporal
		var err error
		if nilRecv {
			r, err = (*m3.Temporal)(nil).Decode(vec)
			recv = r
		} else {
			r, err = recv.Decode(vec)
			if r != nil && r != recv {
				return "r=ALIAS"
			}
		}
		out := "r=" + retTag(r == nil, err) + " e=" + errTag(err)
		if recv != nil {
			d := dump3(level, recv.BaseMetrics(), recv, nil)
			out += " " + d
			// C15: the same queries again, in reverse order of levels first, must see the same object
			d2 := dump3(level, recv.BaseMetrics(), recv, nil)
			if d2 == d {
				out += " q2=1"
			} else {
				out += " q2=0"
			}
			out += " vq=" + andBits(viewsSame(level, d, d2, probeSev3(recv)), sameObj(!nilRecv, vb0 == recv.BaseMetrics())) + " fq=" + fieldsSame(d, d2)
			if withFlags && r != nil && err == nil {
				out += flags3(level, d, vec)
			}
		}
		return out
	case "E":
		recv := m3.NewEnvironmental()
		vb0, vt0 := recv.BaseMetrics(), recv.TemporalMetrics() // the views as a caller holds them who asked before anything was decoded
		if preVec != nil {
			pre := *preVec
			preVec = nil         // (the flags below decode with fresh objects)
			recv.Decode(pre) // RD ops: the receiver has been used for an earlier Decode
		}
		var r *m3.Environmental
		var err error
		if nilRecv {
			r, err = (*m3.Environmental)(nil).Decode(vec)
			recv = r
		} else {
			r, err = recv.Decode(vec)
			if r != nil && r != recv {
				return "r=ALIAS"
			}
		}
		out := "r=" + retTag(r == nil, err) + " e=" + errTag(err)
		if recv != nil {
			d := dump3(level, recv.BaseMetrics(), recv.TemporalMetrics(), recv)
			out += " " + d
			// C15: the same queries again, in reverse order of levels first, must see the same object
			d2 := dump3(level, recv.BaseMetrics(), recv.TemporalMetrics(), recv)
			if d2 == d {
				out += " q2=1"
			} else {
				out += " q2=0"
			}
			out += " vq=" + andBits(viewsSame(level, d, d2, probeSev3(recv)), sameObj(!nilRecv, vb0 == recv.BaseMetrics(), vt0 == recv.TemporalMetrics())) + " fq=" + fieldsSame(d, d2)
			if withFlags && r != nil && err == nil {
				out += flags3(level, d, vec)
			}
		}
		return out
	}
	panic("bad level " + level)
}

func opD2(level, vec string, nilRecv bool) string { return opD2x(level, vec, nilRecv, true) }

func opD2x(level, vec string, nilRecv bool, withFlags bool) string {
	switch level {
	case "B":
		recv := m2.NewBase()
		if preVec != nil {
			pre := *preVec
			preVec = nil         // (the flags below decode with fresh objects)
			recv.Decode(pre) // RD ops: the receiver has been used for an earlier Decode
		}
		var r *m2.Base
		var err error
		if nilRecv {
			r, err = (*m2.Base)(nil).Decode(vec)
			recv = r
		} else {
			r, err = recv.Decode(vec)
			if r != nil && r != recv {
				return "r=ALIAS"
			}
		}
		out := "r=" + retTag(r == nil, err) + " e=" + errTag(err)
		if recv != nil {
			d := dump2(recv, nil, nil)
			out += " " + d
			// C15: the same queries again, in reverse order of levels first, must see the same object
			d2 := dump2(recv, nil, nil)
			if d2 == d {
				out += " q2=1"
			} else {
				out += " q2=0"
			}
			out += " vq=" + viewsSame(level, d, d2, probeSev2(recv)) + " fq=" + fieldsSame(d, d2)
			if withFlags && r != nil && err == nil {
				out += flags2(level, d, vec)
			}
		}
		return out
	case "T":
		recv := m2.NewTemporal()
		vb0 := recv.BaseMetrics() // the view as a caller holds it who asked before anything was decoded
		if preVec != nil {
			pre := *preVec
			preVec = nil         // (the flags below decode with fresh objects)
			recv.Decode(pre) // RD ops: the receiver has been used for an earlier Decode
		}
		var r *m2.Temporal
		var err error
		if nilRecv {
			r, err = (*m2.Temporal)(nil).Decode(vec)
			recv = r
		} else {
			r, err = recv.Decode(vec)
			if r != nil && r != recv {
				return "r=ALIAS"
			}
		}
		out := "r=" + retTag(r == nil, err) + " e=" + errTag(err)
		if recv != nil {
			d := dump2(recv.BaseMetrics(), recv, nil)
			out += " " + d
			// C15: the same queries again, in reverse order of levels first, must see the same object
			d2 := dump2(recv.BaseMetrics(), recv, nil)
			if d2 == d {
				out += " q2=1"
			} else {
				out += " q2=0"
			}
			out += " vq=" + andBits(viewsSame(level, d, d2, probeSev2(recv)), sameObj(!nilRecv, vb0 == recv.BaseMetrics())) + " fq=" + fieldsSame(d, d2)
			if withFlags && r != nil && err == nil {
				out += flags2(level, d, vec)
			}
		}
		return out
	case "E":
		recv := m2.NewEnvironmental()
		vb0, vt0 := recv.BaseMetrics(), recv.TemporalMetrics() // the views as a caller holds them who asked before anything was decoded
		if preVec != nil {
			pre := *preVec
			preVec = nil         // (the flags below decode with fresh objects)
			recv.Decode(pre) // RD ops: the receiver has been used for an earlier Decode
		}
		var r *m2.Environmental
		var err error
		if nilRecv {
			r, err = (*m2.Environmental)(nil).Decode(vec)
			recv = r
		} else {
			r, err = recv.Decode(vec)
			if r != nil && r != recv {
				return "r=ALIAS"
			}
		}
		out := "r=" + retTag(r == nil, err) + " e=" + errTag(err)
		if recv != nil {
			d := dump2(recv.BaseMetrics(), recv.TemporalMetrics(), recv)
			out += " " + d
			// C15: the same queries again, in reverse order of levels first, must see the same object
			d2 := dump2(recv.BaseMetrics(), recv.TemporalMetrics(), recv)
			if d2 == d {
				out += " q2=1"
			} else {
				out += " q2=0"
			}
			out += " vq=" + andBits(viewsSame(level, d, d2, probeSev2(recv)), sameObj(!nilRecv, vb0 == recv.BaseMetrics(), vt0 == recv.TemporalMetrics())) + " fq=" + fieldsSame(d, d2)
			if withFlags && r != nil && err == nil {
				out += flags2(level, d, vec)
			}
		}
		return out
	}
	panic("bad level " + level)
}

// compact keeps only the keys the score streams need
func compact(line string) string {
	keep := map[string]bool{"r": true, "e": true, "s": true, "sv": true, "svn": true}
	out := []string{}
	for _, tok := range strings.Split(line, " ") {
		if i := strings.IndexByte(tok, '='); i > 0 && keep[tok[:i]] {
			out = append(out, tok)
		}
	}
	return strings.Join(out, " ")
}

func kvOf(d string) map[string]string {
	m := map[string]string{}
	for _, tok := range strings.Split(d, " ") {
		if i := strings.IndexByte(tok, '='); i > 0 {
			m[tok[:i]] = tok[i+1:]
		}
	}
	return m
}

// dropKey removes the token key=… (the names sets are not part of what C10 compares)
func dropKey(d, key string) string {
	out := []string{}
	for _, tok := range strings.Split(d, " ") {
		if !strings.HasPrefix(tok, key+"=") {
			out = append(out, tok)
		}
	}
	return strings.Join(out, " ")
}

func nth(csv string, i int) string {
	p := strings.Split(csv, ",")
	if i < len(p) {
		return p[i]
	}
	return "?"
}

// viewsSame: after every query of the object (the first dump), do the lower-level views still give
// the same score, severity and encoding (C14: the views must not depend on what was queried before)
// fieldsSame: are the metric fields (integers and printed codes) and the version read after all queries have run
// the ones read before any of them (C09: the fields are those written in the vector, whatever was asked meanwhile)
func fieldsSame(d, d2 string) string {
	a, b := kvOf(d), kvOf(d2)
	if a["f"] == b["f"] && a["fc"] == b["fc"] && a["v"] == b["v"] {
		return "1"
	}
	return "0"
}

// probeSev3 / probeSev2: the severity of each lower-level view read right after the higher level has been scored, with no
// query of the view in between (a view whose severity is remembered from its last score must not be disturbed by the
// higher level's equations, which run the lower levels' arithmetic on adjusted values)
func probeSev3(recv interface{}) []string {
	switch o := recv.(type) {
	case *m3.Temporal:
		if o == nil {
			return nil
		}
		o.Score()
		return []string{strconv.Itoa(int(o.BaseMetrics().Severity()))}
	case *m3.Environmental:
		if o == nil {
			return nil
		}
		o.Score()
		sb := strconv.Itoa(int(o.BaseMetrics().Severity()))
		o.Score()
		return []string{sb, strconv.Itoa(int(o.TemporalMetrics().Severity()))}
	}
	return nil
}

func probeSev2(recv interface{}) []string {
	switch o := recv.(type) {
	case *m2.Temporal:
		if o == nil {
			return nil
		}
		o.Score()
		return []string{strconv.Itoa(int(o.BaseMetrics().Severity()))}
	case *m2.Environmental:
		if o == nil {
			return nil
		}
		o.Score()
		sb := strconv.Itoa(int(o.BaseMetrics().Severity()))
		o.Score()
		return []string{sb, strconv.Itoa(int(o.TemporalMetrics().Severity()))}
	}
	return nil
}

func viewsSame(level, d, d2 string, probe []string) string {
	a, b := kvOf(d), kvOf(d2)
	L := lvlIdx(level)
	if L == 0 {
		return "-"
	}
	r := ""
	for l := 0; l < L; l++ {
		if l < len(probe) && probe[l] != nth(a["sv"], l) {
			r += "0"
			continue
		}
		if nth(a["s"], l) == nth(b["s"], l) && nth(a["sv"], l) == nth(b["sv"], l) && nth(a["enc"], l) == nth(b["enc"], l) {
			r += "1"
		} else {
			r += "0"
		}
	}
	return r
}

// sameObj: one bit per lower level: the view handed out before Decode is still the object the higher level works with
// (a caller who took BaseMetrics() / TemporalMetrics() first and decoded afterwards reads the decoded vector through it)
func sameObj(applies bool, same ...bool) string {
	r := ""
	for _, b := range same {
		if b || !applies {
			r += "1"
		} else {
			r += "0"
		}
	}
	return r
}

func andBits(a, b string) string {
	if len(a) != len(b) {
		return a
	}
	r := []byte(a)
	for i := range r {
		if b[i] == '0' {
			r[i] = '0'
		}
	}
	return string(r)
}

var lvls = []string{"B", "T", "E"}

func lvlIdx(level string) int {
	for i, l := range lvls {
		if l == level {
			return i
		}
	}
	panic("bad level")
}

// flagsN: rt = re-decoding the object's own encoding at the same level gives an object with the
// same observable state; pv = for each lower level, decoding the view's encoding with a fresh
// lower-level decoder gives the view's score, severity and encoding.
func flagsGeneric(level, d, vec string, dec func(level, vec string, nilRecv bool) string, part func(l int, vec string) string) string {
	m := kvOf(d)
	L := lvlIdx(level)
	if _, ok := m["enc"]; !ok || strings.Contains(m["enc"], "?") || len(strings.Split(m["enc"], ",")) <= L {
		return " rt=0 pv=" + strings.Repeat("0", L) + " pw=" + strings.Repeat("0", L) // a view is missing altogether
	}
	encL := strings.SplitN(nth(m["enc"], L), "|", 2)[0]
	rt := "0"
	re := dec(level, unhx(encL), false)
	if strings.HasPrefix(re, "r=1 e=- ") && dropKey(dropKey(dropKey(dropKey(strings.TrimPrefix(re, "r=1 e=- "), "n"), "q2"), "vq"), "fq") == dropKey(d, "n") {
		rt = "1"
	}
	pv := ""
	for l := 0; l < L; l++ {
		encl := strings.SplitN(nth(m["enc"], l), "|", 2)[0]
		low := kvOf(dec(lvls[l], unhx(encl), false))
		ok := low["r"] == "1" && nth(low["s"], l) == nth(m["s"], l) && nth(low["sv"], l) == nth(m["sv"], l) &&
			nth(low["enc"], l) == nth(m["enc"], l)
		if ok {
			pv += "1"
		} else {
			pv += "0"
		}
	}
	// pw: the same comparison against a decoder of the lower level applied to the *input's* own
	// tokens of that level (built from the input text, not from anything the library returned)
	pw := ""
	for l := 0; l < L; l++ {
		low := kvOf(dec(lvls[l], part(l, vec), false))
		ok := low["r"] == "1" && nth(low["s"], l) == nth(m["s"], l) && nth(low["sv"], l) == nth(m["sv"], l) &&
			nth(low["enc"], l) == nth(m["enc"], l)
		if ok {
			pw += "1"
		} else {
			pw += "0"
		}
	}
	if pv == "" {
		pv, pw = "-", "-"
	}
	return " rt=" + rt + " pv=" + pv + " pw=" + pw
}

var nLevel3 = []int{8, 11, 22}
var nLevel2 = []int{6, 9, 14}

// part3: the prefix and those tokens of the input whose name is a metric of a level <= l
func part3(l int, vec string) string {
	toks := strings.Split(vec, "/")
	out := []string{toks[0]}
	for _, t := range toks[1:] {
		name := strings.SplitN(t, ":", 2)[0]
		for _, n := range names3[:nLevel3[l]] {
			if n == name {
				out = append(out, t)
				break
			}
		}
	}
	return strings.Join(out, "/")
}

// part2: the tokens of the input whose name is a metric of a level <= l
func part2(l int, vec string) string {
	out := []string{}
	for _, t := range strings.Split(vec, "/") {
		name := strings.SplitN(t, ":", 2)[0]
		for _, n := range names2[:nLevel2[l]] {
			if n == name {
				out = append(out, t)
				break
			}
		}
	}
	return strings.Join(out, "/")
}

func flags3(level, d, vec string) string { return flagsGeneric(level, d, vec, opD3plain, part3) }
func flags2(level, d, vec string) string { return flagsGeneric(level, d, vec, opD2plain, part2) }

// decode + dump without the rt/pv flags (used by the flags themselves)
func opD3plain(level, vec string, nilRecv bool) string { return opD3x(level, vec, nilRecv, false) }
func opD2plain(level, vec string, nilRecv bool) string { return opD2x(level, vec, nilRecv, false) }

func runOp(line string) (out string) {
	defer func() {
		if r := recover(); r != nil {
			out = fmt.Sprintf("PANIC %v", r)
		}
	}()
	f := strings.Fields(line)
	if len(f) == 0 {
		return "bad-op"
	}
	arg := func(i int) string {
		if i < len(f) {
			return f[i]
		}
		return ""
	}
	switch f[0] {
	case "S3":
		return compact(opD3(arg(1), unhx(arg(2)), false))
	case "S2":
		return compact(opD2(arg(1), unhx(arg(2)), false))
	case "D3":
		return opD3(arg(1), unhx(arg(2)), false)
	case "N3":
		return opD3(arg(1), unhx(arg(2)), true)
	case "D2":
		return opD2(arg(1), unhx(arg(2)), false)
	case "N2":
		return opD2(arg(1), unhx(arg(2)), true)
	case "RD3":
		return withPre(unhx(arg(2)), func() string { return opD3x(arg(1), unhx(arg(3)), false, true) })
	case "RD2":
		return withPre(unhx(arg(2)), func() string { return opD2x(arg(1), unhx(arg(3)), false, true) })
	}
	if r, ok := runOpExt(f); ok {
		return r
	}
	return "bad-op"
}

func main() {
	if len(os.Args) > 1 {
		if extMain(os.Args[1:]) {
			return
		}
	}
	in := bufio.NewReaderSize(os.Stdin, 1<<20)
	out := bufio.NewWriterSize(os.Stdout, 1<<20)
	defer out.Flush()
	for {
		line, err := in.ReadString('\n')
		if len(line) > 0 {
			line = strings.TrimRight(line, "\r\n")
			if line != "" {
				out.WriteString(runOp(line))
				out.WriteByte('\n')
			}
		}
		if err != nil {
			break
		}
	}
}
