// Harness: executes operation lines against the real go-cvss library (built from /repo's
// working tree with -tags verif) and prints one canonical result line per operation.
// The Lean driver (lean/Driver.lean) executes the same lines on the model; check.py diffs.
package main

import (
	"bufio"
	"encoding/hex"
	"errors"
	"fmt"
	"math"
	"os"
	"strconv"
	"strings"

	"github.com/goark/go-cvss/cvsserr"
	m2 "github.com/goark/go-cvss/v2/metric"
	m3 "github.com/goark/go-cvss/v3/metric"
)

var sentinels = []struct {
	name string
	err  error
}{
	{"NullPointer", cvsserr.ErrNullPointer},
	{"InvalidVector", cvsserr.ErrInvalidVector},
	{"NotSupportVer", cvsserr.ErrNotSupportVer},
	{"NotSupportMetric", cvsserr.ErrNotSupportMetric},
	{"InvalidTemplate", cvsserr.ErrInvalidTemplate},
	{"SameMetric", cvsserr.ErrSameMetric},
	{"InvalidValue", cvsserr.ErrInvalidValue},
	{"NoBaseMetrics", cvsserr.ErrNoBaseMetrics},
	{"NoTemporalMetrics", cvsserr.ErrNoTemporalMetrics},
	{"NoEnvironmentalMetrics", cvsserr.ErrNoEnvironmentalMetrics},
	{"Misordered", cvsserr.ErrMisordered},
}

// errTag: "-" for nil, else the '+'-joined names of every sentinel matching under errors.Is
// ("OTHER" if none matches).
func errTag(err error) string {
	if err == nil {
		return "-"
	}
	r := []string{}
	for _, s := range sentinels {
		if errors.Is(err, s.err) {
			r = append(r, s.name)
		}
	}
	if len(r) == 0 {
		return "OTHER"
	}
	return strings.Join(r, "+")
}

func fbits(x float64) string { return fmt.Sprintf("%016x", math.Float64bits(x)) }
func hx(s string) string     { return hex.EncodeToString([]byte(s)) }
func unhx(s string) string {
	b, err := hex.DecodeString(s)
	if err != nil {
		panic("bad hex in op: " + s)
	}
	return string(b)
}
func ints(xs ...int) string {
	r := make([]string, len(xs))
	for i, x := range xs {
		r[i] = strconv.Itoa(x)
	}
	return strings.Join(r, ",")
}
func mask(names []string, all []string) string {
	set := map[string]bool{}
	for _, n := range names {
		set[n] = true
	}
	b := make([]byte, len(all))
	for i, n := range all {
		if set[n] {
			b[i] = '1'
		} else {
			b[i] = '0'
		}
	}
	// names outside `all` would be a model/code mismatch worth seeing
	extra := ""
	for _, n := range names {
		found := false
		for _, a := range all {
			if a == n {
				found = true
			}
		}
		if !found {
			extra += "!" + n
		}
	}
	return string(b) + extra
}
func encPair(s string, err error) string { return hx(s) + "|" + errTag(err) }

var names3 = []string{"AV", "AC", "PR", "UI", "S", "C", "I", "A", "E", "RL", "RC", "CR", "IR", "AR", "MAV", "MAC", "MPR", "MUI", "MS", "MC", "MI", "MA"}
var names2 = []string{"AV", "AC", "Au", "C", "I", "A", "E", "RL", "RC", "CDP", "TD", "CR", "IR", "AR"}

func b3fields(b *m3.Base) []int {
	return []int{int(b.AV), int(b.AC), int(b.PR), int(b.UI), int(b.S), int(b.C), int(b.I), int(b.A)}
}
func t3fields(t *m3.Temporal) []int { return []int{int(t.E), int(t.RL), int(t.RC)} }
func e3fields(e *m3.Environmental) []int {
	return []int{int(e.CR), int(e.IR), int(e.AR), int(e.MAV), int(e.MAC), int(e.MPR), int(e.MUI), int(e.MS), int(e.MC), int(e.MI), int(e.MA)}
}

// dump3 prints the observable state of a v3 object of the given level (views through the
// accessors included): version, fields, names, scores, severities, encodings, validity.
func dump3(level string, b *m3.Base, t *m3.Temporal, e *m3.Environmental) string {
	var sb strings.Builder
	f := b3fields(b)
	nm := append([]string{}, b.VerifNames()...)
	scores := []string{fbits(b.Score())}
	sevs := []string{strconv.Itoa(int(b.Severity()))}
	encs := []string{encPair(b.Encode())}
	ges := []string{errTag(b.GetError())}
	strs := []string{hx(b.String())}
	if t != nil {
		f = append(f, t3fields(t)...)
		nm = append(nm, t.VerifNames()...)
		scores = append(scores, fbits(t.Score()))
		sevs = append(sevs, strconv.Itoa(int(t.Severity())))
		encs = append(encs, encPair(t.Encode()))
		ges = append(ges, errTag(t.GetError()))
		strs = append(strs, hx(t.String()))
	}
	if e != nil {
		f = append(f, e3fields(e)...)
		nm = append(nm, e.VerifNames()...)
		scores = append(scores, fbits(e.Score()))
		sevs = append(sevs, strconv.Itoa(int(e.Severity())))
		encs = append(encs, encPair(e.Encode()))
		ges = append(ges, errTag(e.GetError()))
		strs = append(strs, hx(e.String()))
	}
	fmt.Fprintf(&sb, "v=%d f=%s n=%s s=%s sv=%s enc=%s ge=%s str=%s", int(b.Ver), ints(f...), mask(nm, names3[:len(f)]),
		strings.Join(scores, ","), strings.Join(sevs, ","), strings.Join(encs, ","), strings.Join(ges, ","), strings.Join(strs, ","))
	_ = level
	return sb.String()
}

func b2fields(b *m2.Base) []int {
	return []int{int(b.AV), int(b.AC), int(b.Au), int(b.C), int(b.I), int(b.A)}
}
func t2fields(t *m2.Temporal) []int { return []int{int(t.E), int(t.RL), int(t.RC)} }
func e2fields(e *m2.Environmental) []int {
	return []int{int(e.CDP), int(e.TD), int(e.CR), int(e.IR), int(e.AR)}
}

func dump2(b *m2.Base, t *m2.Temporal, e *m2.Environmental) string {
	var sb strings.Builder
	f := b2fields(b)
	nm := append([]string{}, b.VerifNames()...)
	scores := []string{fbits(b.Score())}
	sevs := []string{strconv.Itoa(int(b.Severity()))}
	encs := []string{encPair(b.Encode())}
	ges := []string{errTag(b.GetError())}
	strs := []string{hx(b.String())}
	empt := []string{}
	if t != nil {
		f = append(f, t2fields(t)...)
		nm = append(nm, t.VerifNames()...)
		scores = append(scores, fbits(t.Score()))
		sevs = append(sevs, strconv.Itoa(int(t.Severity())))
		encs = append(encs, encPair(t.Encode()))
		ges = append(ges, errTag(t.GetError()))
		strs = append(strs, hx(t.String()))
		empt = append(empt, strconv.FormatBool(t.IsEmpty()))
	}
	if e != nil {
		f = append(f, e2fields(e)...)
		nm = append(nm, e.VerifNames()...)
		scores = append(scores, fbits(e.Score()))
		sevs = append(sevs, strconv.Itoa(int(e.Severity())))
		encs = append(encs, encPair(e.Encode()))
		ges = append(ges, errTag(e.GetError()))
		strs = append(strs, hx(e.String()))
		empt = append(empt, strconv.FormatBool(e.IsEmpty()))
	}
	fmt.Fprintf(&sb, "f=%s n=%s s=%s sv=%s enc=%s ge=%s str=%s emp=%s", ints(f...), mask(nm, names2[:len(f)]),
		strings.Join(scores, ","), strings.Join(sevs, ","), strings.Join(encs, ","), strings.Join(ges, ","), strings.Join(strs, ","), strings.Join(empt, ","))
	return sb.String()
}

func retTag(isNil bool, err error) string {
	// r=1: object and no error; r=0: no object and an error; anything else is a C12 violation
	switch {
	case !isNil && err == nil:
		return "1"
	case isNil && err != nil:
		return "0"
	case isNil && err == nil:
		return "NEITHER"
	default:
		return "BOTH"
	}
}

// opD3: decode into a fresh constructor result; dump the receiver afterwards (also on failure).
func opD3(level, vec string, nilRecv bool) string {
	switch level {
	case "B":
		recv := m3.NewBase()
		var r *m3.Base
		var err error
		if nilRecv {
			r, err = (*m3.Base)(nil).Decode(vec)
			recv = r
		} else {
			r, err = recv.Decode(vec)
			if r != nil && r != recv {
				return "r=ALIAS"
			}
		}
		out := "r=" + retTag(r == nil, err) + " e=" + errTag(err)
		if recv != nil {
			out += " " + dump3(level, recv, nil, nil)
		}
		return out
	case "T":
		recv := m3.NewTemporal()
		var r *m3.Temporal
		var err error
		if nilRecv {
			r, err = (*m3.Temporal)(nil).Decode(vec)
			recv = r
		} else {
			r, err = recv.Decode(vec)
			if r != nil && r != recv {
				return "r=ALIAS"
			}
		}
		out := "r=" + retTag(r == nil, err) + " e=" + errTag(err)
		if recv != nil {
			out += " " + dump3(level, recv.BaseMetrics(), recv, nil)
		}
		return out
	case "E":
		recv := m3.NewEnvironmental()
		var r *m3.Environmental
		var err error
		if nilRecv {
			r, err = (*m3.Environmental)(nil).Decode(vec)
			recv = r
		} else {
			r, err = recv.Decode(vec)
			if r != nil && r != recv {
				return "r=ALIAS"
			}
		}
		out := "r=" + retTag(r == nil, err) + " e=" + errTag(err)
		if recv != nil {
			out += " " + dump3(level, recv.BaseMetrics(), recv.TemporalMetrics(), recv)
		}
		return out
	}
	panic("bad level " + level)
}

func opD2(level, vec string, nilRecv bool) string {
	switch level {
	case "B":
		recv := m2.NewBase()
		var r *m2.Base
		var err error
		if nilRecv {
			r, err = (*m2.Base)(nil).Decode(vec)
			recv = r
		} else {
			r, err = recv.Decode(vec)
			if r != nil && r != recv {
				return "r=ALIAS"
			}
		}
		out := "r=" + retTag(r == nil, err) + " e=" + errTag(err)
		if recv != nil {
			out += " " + dump2(recv, nil, nil)
		}
		return out
	case "T":
		recv := m2.NewTemporal()
		var r *m2.Temporal
		var err error
		if nilRecv {
			r, err = (*m2.Temporal)(nil).Decode(vec)
			recv = r
		} else {
			r, err = recv.Decode(vec)
			if r != nil && r != recv {
				return "r=ALIAS"
			}
		}
		out := "r=" + retTag(r == nil, err) + " e=" + errTag(err)
		if recv != nil {
			out += " " + dump2(recv.BaseMetrics(), recv, nil)
		}
		return out
	case "E":
		recv := m2.NewEnvironmental()
		var r *m2.Environmental
		var err error
		if nilRecv {
			r, err = (*m2.Environmental)(nil).Decode(vec)
			recv = r
		} else {
			r, err = recv.Decode(vec)
			if r != nil && r != recv {
				return "r=ALIAS"
			}
		}
		out := "r=" + retTag(r == nil, err) + " e=" + errTag(err)
		if recv != nil {
			out += " " + dump2(recv.BaseMetrics(), recv.TemporalMetrics(), recv)
		}
		return out
	}
	panic("bad level " + level)
}

func runOp(line string) (out string) {
	defer func() {
		if r := recover(); r != nil {
			out = fmt.Sprintf("PANIC %v", r)
		}
	}()
	f := strings.Fields(line)
	if len(f) == 0 {
		return "bad-op"
	}
	arg := func(i int) string {
		if i < len(f) {
			return f[i]
		}
		return ""
	}
	switch f[0] {
	case "D3":
		return opD3(arg(1), unhx(arg(2)), false)
	case "N3":
		return opD3(arg(1), unhx(arg(2)), true)
	case "D2":
		return opD2(arg(1), unhx(arg(2)), false)
	case "N2":
		return opD2(arg(1), unhx(arg(2)), true)
	}
	if r, ok := runOpExt(f); ok {
		return r
	}
	return "bad-op"
}

func main() {
	if len(os.Args) > 1 {
		if extMain(os.Args[1:]) {
			return
		}
	}
	in := bufio.NewReaderSize(os.Stdin, 1<<20)
	out := bufio.NewWriterSize(os.Stdout, 1<<20)
	defer out.Flush()
	for {
		line, err := in.ReadString('\n')
		if len(line) > 0 {
			line = strings.TrimRight(line, "\r\n")
			if line != "" {
				out.WriteString(runOp(line))
				out.WriteByte('\n')
			}
		}
		if err != nil {
			break
		}
	}
}
