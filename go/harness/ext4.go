package main

import (
	"io"
	"reflect"
	"sort"
	"strconv"
	"strings"

	m2 "github.com/goark/go-cvss/v2/metric"
	m3 "github.com/goark/go-cvss/v3/metric"
	"github.com/goark/go-cvss/v3/report"
)

// ---- histories (C15): sequences of operations on a pool of objects inside one process.
//
//	N3B / N2E …      new object from the constructor (version, level); result "ok"
//	D<i>,<hex>       Decode(<hex>) into slot i (any outcome); result r=.. e=..
//	Q<i>             all queries on slot i (dump)
//	V<i>,<l>         slot for the level-l view of slot i (BaseMetrics / TemporalMetrics); result nil|ok|same
//	R<i>,<tag>       build the report of slot i (v3) in the language; result: its fields
//	X<i>             export the report of slot i with a fixed template
type slot struct {
	ver   int
	level string
	b3    *m3.Base
	t3    *m3.Temporal
	e3    *m3.Environmental
	b2    *m2.Base
	t2    *m2.Temporal
	e2    *m2.Environmental
}

func (s *slot) dump() string {
	if s.ver == 3 {
		switch s.level {
		case "B":
			return dump3("B", s.b3, nil, nil)
		case "T":
			return dump3("T", s.t3.BaseMetrics(), s.t3, nil)
		default:
			return dump3("E", s.e3.BaseMetrics(), s.e3.TemporalMetrics(), s.e3)
		}
	}
	switch s.level {
	case "B":
		return dump2(s.b2, nil, nil)
	case "T":
		return dump2(s.t2.BaseMetrics(), s.t2, nil)
	default:
		return dump2(s.e2.BaseMetrics(), s.e2.TemporalMetrics(), s.e2)
	}
}

func newSlot(ver int, level string) *slot {
	s := &slot{ver: ver, level: level}
	if ver == 3 {
		switch level {
		case "B":
			s.b3 = m3.NewBase()
		case "T":
			s.t3 = m3.NewTemporal()
		default:
			s.e3 = m3.NewEnvironmental()
		}
	} else {
		switch level {
		case "B":
			s.b2 = m2.NewBase()
		case "T":
			s.t2 = m2.NewTemporal()
		default:
			s.e2 = m2.NewEnvironmental()
		}
	}
	return s
}

func (s *slot) decode(vec string) string {
	var isNil bool
	var err error
	if s.ver == 3 {
		switch s.level {
		case "B":
			r, e := s.b3.Decode(vec)
			isNil, err = r == nil, e
		case "T":
			r, e := s.t3.Decode(vec)
			isNil, err = r == nil, e
		default:
			r, e := s.e3.Decode(vec)
			isNil, err = r == nil, e
		}
	} else {
		switch s.level {
		case "B":
			r, e := s.b2.Decode(vec)
			isNil, err = r == nil, e
		case "T":
			r, e := s.t2.Decode(vec)
			isNil, err = r == nil, e
		default:
			r, e := s.e2.Decode(vec)
			isNil, err = r == nil, e
		}
	}
	return "r=" + retTag(isNil, err) + " e=" + errTag(err)
}

func (s *slot) view(l string) (*slot, string) {
	v := &slot{ver: s.ver, level: l}
	if s.ver == 3 {
		switch {
		case s.level == "T" && l == "B":
			v.b3 = s.t3.BaseMetrics()
		case s.level == "E" && l == "B":
			v.b3 = s.e3.BaseMetrics()
		case s.level == "E" && l == "T":
			v.t3 = s.e3.TemporalMetrics()
		default:
			return nil, "noview"
		}
	} else {
		switch {
		case s.level == "T" && l == "B":
			v.b2 = s.t2.BaseMetrics()
		case s.level == "E" && l == "B":
			v.b2 = s.e2.BaseMetrics()
		case s.level == "E" && l == "T":
			v.t2 = s.e2.TemporalMetrics()
		default:
			return nil, "noview"
		}
	}
	return v, "ok"
}

func (s *slot) report(tag string) (interface{}, bool) {
	if s.ver != 3 {
		return nil, false
	}
	opts := []report.ReportOptionsFunc{}
	if tag != "-" { // "-": no language option at all (the documented default is English)
		opts = append(opts, report.WithOptionsLanguage(parseTag(tag)))
	}
	switch s.level {
	case "B":
		return report.NewBase(s.b3, opts...), true
	case "T":
		return report.NewTemporal(s.t3, opts...), true
	default:
		return report.NewEnvironmental(s.e3, opts...), true
	}
}

// the templates of X<i>,<k> (the Lean model holds the same list); 4 does not parse, 5 cannot be executed
var histTemplates = []string{
	"{{.Vector}}|{{.SeverityValue}}|{{.BaseScore}}",
	"B {{.BaseScore}} S {{.SeverityName}}={{.SeverityValue}}",
	"{{.Version}}:{{.AVName}}={{.AVValue}}",
	"{{.BaseMetrics}}/{{.Vector}}/{{.Version}}",
	"{{ .Version ",
	"{{.NoSuchField}}",
	// templates that define a named sub-template: the same name "cell" with a different body in each text (an export must see its own)
	"{{define \"cell\"}}<1:{{.}}>{{end}}{{template \"cell\" .SeverityValue}} {{template \"cell\" .Vector}}",
	"{{define \"cell\"}}<2:{{.}}>{{end}}{{template \"cell\" .SeverityValue}} {{template \"cell\" .Vector}}",
	"{{define \"cell\"}}[3:{{.}}]{{end}}{{template \"cell\" .Version}}-{{template \"cell\" .SeverityName}}",
	"{{define \"cell\"}}(4){{end}}{{define \"row\"}}{{template \"cell\"}}{{.}}{{end}}{{template \"row\" .Vector}}",
}

func runHistory(h string) string { return runHistoryOn(nil, h) }

// runHistoryOn runs a history on a pool that starts with the given (shared) slots.
func runHistoryOn(shared []*slot, h string) string {
	pool := append([]*slot{}, shared...)
	outs := []string{}
	for _, op := range strings.Split(h, ";") {
		if op == "" {
			continue
		}
		res := func() (res string) {
			defer func() {
				if r := recover(); r != nil {
					res = "PANIC"
				}
			}()
			get := func(s string) *slot {
				i, err := strconv.Atoi(s)
				if err != nil || i < 0 || i >= len(pool) {
					return nil
				}
				return pool[i]
			}
			switch op[0] {
			case 'N':
				if len(op) != 3 {
					return "bad"
				}
				pool = append(pool, newSlot(int(op[1]-'0'), op[2:]))
				return "ok"
			case 'D':
				a := strings.SplitN(op[1:], ",", 2)
				s := get(a[0])
				if s == nil || len(a) != 2 {
					return "bad"
				}
				return s.decode(unhx(a[1]))
			case 'Q':
				s := get(op[1:])
				if s == nil {
					return "bad"
				}
				return strings.ReplaceAll(s.dump(), " ", "&")
			case 'V':
				a := strings.SplitN(op[1:], ",", 2)
				s := get(a[0])
				if s == nil || len(a) != 2 {
					return "bad"
				}
				v, r := s.view(a[1])
				if v != nil {
					pool = append(pool, v)
				}
				return r
			case 'R':
				a := strings.SplitN(op[1:], ",", 2)
				s := get(a[0])
				if s == nil || len(a) != 2 {
					return "bad"
				}
				rep, ok := s.report(a[1])
				if !ok {
					return "noreport"
				}
				fields := []string{}
				dumpFields("", reflect.ValueOf(rep), &fields)
				sort.Strings(fields)
				return strings.Join(fields, "&")
			case 'X':
				a := strings.SplitN(op[1:], ",", 2)
				s := get(a[0])
				if s == nil {
					return "bad"
				}
				k := 0
				if len(a) == 2 {
					k, _ = strconv.Atoi(a[1])
				}
				if k < 0 || k >= len(histTemplates) {
					k = 4
				}
				tpl := histTemplates[k]
				rep, ok := s.report("en")
				if !ok {
					return "noreport"
				}
				var r io.Reader
				var err error
				switch x := rep.(type) {
				case *report.BaseReport:
					r, err = x.ExportWithString(tpl)
				case *report.TemporalReport:
					r, err = x.ExportWith(strings.NewReader(tpl))
				case *report.EnvironmentalReport:
					r, err = x.ExportWithString(tpl)
				}
				return resTag(r, err)
			}
			return "bad"
		}()
		outs = append(outs, res)
	}
	return strings.Join(outs, ";")
}

func runOpExt4(f []string) (string, bool) {
	switch f[0] {
	case "H":
		if len(f) < 2 {
			return "", false
		}
		return runHistory(f[1]), true
	}
	return runOpExt5(f)
}
