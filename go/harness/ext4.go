package main

// further extension points (histories, concurrency)
func runOpExt4(f []string) (string, bool) { return "", false }
