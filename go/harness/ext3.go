package main

// further extension points (histories, reports, concurrency)
func runOpExt3(f []string) (string, bool) { return "", false }
