package main

import (
	"bufio"
	"bytes"
	"errors"
	"fmt"
	"io"
	"io/fs"
	"math"
	"reflect"
	"sort"
	"strconv"
	"strings"
	"text/template"

	"github.com/goark/go-cvss/cvsserr"
	m3 "github.com/goark/go-cvss/v3/metric"
	"github.com/goark/go-cvss/v3/report"
	"github.com/goark/go-cvss/v3/report/names"
	"golang.org/x/text/language"
)

// ---- names (C18): every exported function of v3/report/names by name
var titleFns = map[string]func(language.Tag) string{
	"AttackComplexity":              names.AttackComplexity,
	"AttackVector":                  names.AttackVector,
	"AvailabilityImpact":            names.AvailabilityImpact,
	"AvailabilityRequirement":       names.AvailabilityRequirement,
	"BaseMetrics":                   names.BaseMetrics,
	"BaseMetricsValueOf":            names.BaseMetricsValueOf,
	"ConfidentialityImpact":         names.ConfidentialityImpact,
	"ConfidentialityRequirement":    names.ConfidentialityRequirement,
	"EnvironmentalMetrics":          names.EnvironmentalMetrics,
	"EnvironmentalMetricsValueOf":   names.EnvironmentalMetricsValueOf,
	"Exploitability":                names.Exploitability,
	"IntegrityImpact":               names.IntegrityImpact,
	"IntegrityRequirement":          names.IntegrityRequirement,
	"ModifiedAttackComplexity":      names.ModifiedAttackComplexity,
	"ModifiedAttackVector":          names.ModifiedAttackVector,
	"ModifiedAvailabilityImpact":    names.ModifiedAvailabilityImpact,
	"ModifiedConfidentialityImpact": names.ModifiedConfidentialityImpact,
	"ModifiedIntegrityImpact":       names.ModifiedIntegrityImpact,
	"ModifiedPrivilegesRequired":    names.ModifiedPrivilegesRequired,
	"ModifiedScope":                 names.ModifiedScope,
	"ModifiedUserInteraction":       names.ModifiedUserInteraction,
	"PrivilegesRequired":            names.PrivilegesRequired,
	"RemediationLevel":              names.RemediationLevel,
	"ReportConfidence":              names.ReportConfidence,
	"Scope":                         names.Scope,
	"Severity":                      names.Severity,
	"TemporalMetrics":               names.TemporalMetrics,
	"TemporalMetricsValueOf":        names.TemporalMetricsValueOf,
	"UserInteraction":               names.UserInteraction,
}

var valueFns = map[string]func(int, language.Tag) string{
	"AVValueOf":       func(v int, l language.Tag) string { return names.AVValueOf(m3.AttackVector(v), l) },
	"ACValueOf":       func(v int, l language.Tag) string { return names.ACValueOf(m3.AttackComplexity(v), l) },
	"PRValueOf":       func(v int, l language.Tag) string { return names.PRValueOf(m3.PrivilegesRequired(v), l) },
	"UIValueOf":       func(v int, l language.Tag) string { return names.UIValueOf(m3.UserInteraction(v), l) },
	"SValueOf":        func(v int, l language.Tag) string { return names.SValueOf(m3.Scope(v), l) },
	"CValueOf":        func(v int, l language.Tag) string { return names.CValueOf(m3.ConfidentialityImpact(v), l) },
	"IValueOf":        func(v int, l language.Tag) string { return names.IValueOf(m3.IntegrityImpact(v), l) },
	"AValueOf":        func(v int, l language.Tag) string { return names.AValueOf(m3.AvailabilityImpact(v), l) },
	"EValueOf":        func(v int, l language.Tag) string { return names.EValueOf(m3.Exploitability(v), l) },
	"RLValueOf":       func(v int, l language.Tag) string { return names.RLValueOf(m3.RemediationLevel(v), l) },
	"RCValueOf":       func(v int, l language.Tag) string { return names.RCValueOf(m3.ReportConfidence(v), l) },
	"CRValueOf":       func(v int, l language.Tag) string { return names.CRValueOf(m3.ConfidentialityRequirement(v), l) },
	"IRValueOf":       func(v int, l language.Tag) string { return names.IRValueOf(m3.IntegrityRequirement(v), l) },
	"ARValueOf":       func(v int, l language.Tag) string { return names.ARValueOf(m3.AvailabilityRequirement(v), l) },
	"MAVValueOf":      func(v int, l language.Tag) string { return names.MAVValueOf(m3.ModifiedAttackVector(v), l) },
	"MACValueOf":      func(v int, l language.Tag) string { return names.MACValueOf(m3.ModifiedAttackComplexity(v), l) },
	"MPRValueOf":      func(v int, l language.Tag) string { return names.MPRValueOf(m3.ModifiedPrivilegesRequired(v), l) },
	"MUIValueOf":      func(v int, l language.Tag) string { return names.MUIValueOf(m3.ModifiedUserInteraction(v), l) },
	"MSValueOf":       func(v int, l language.Tag) string { return names.MSValueOf(m3.ModifiedScope(v), l) },
	"MCValueOf":       func(v int, l language.Tag) string { return names.MCValueOf(m3.ModifiedConfidentialityImpact(v), l) },
	"MIValueOf":       func(v int, l language.Tag) string { return names.MIValueOf(m3.ModifiedIntegrityImpact(v), l) },
	"MAValueOf":       func(v int, l language.Tag) string { return names.MAValueOf(m3.ModifiedAvailabilityImpact(v), l) },
	"SeverityValueOf": func(v int, l language.Tag) string { return names.SeverityValueOf(m3.Severity(v), l) },
}

func parseTag(s string) language.Tag {
	switch s {
	case "en":
		return language.English
	case "ja":
		return language.Japanese
	}
	t, err := language.Parse(s)
	if err != nil {
		return language.Und
	}
	return t
}

// tagClass: what golang.org/x/text says about the tag (not the library): exactly English, exactly
// Japanese, another tag of those two languages (regional variants: unspecified by C18), or a tag
// of another language (must give the English names)
func tagClass(t language.Tag) string {
	if t == language.English {
		return "en"
	}
	if t == language.Japanese {
		return "ja"
	}
	// the primary language subtag of the canonical form (no likely-subtag inference: "und-JP" is undetermined)
	if bs := strings.SplitN(t.String(), "-", 2)[0]; bs == "en" || bs == "ja" {
		return "regional"
	}
	return "other"
}

func opNM(fn string, v int, tag string) (string, bool) {
	l := parseTag(tag)
	if f, ok := titleFns[fn]; ok {
		return "name=" + hx(f(l)) + " cls=" + tagClass(l), true
	}
	if f, ok := valueFns[fn]; ok {
		return "name=" + hx(f(v, l)) + " cls=" + tagClass(l), true
	}
	return "", false
}

// ---- reports (C17): all exported string fields, embedded reports included, sorted by path

func dumpFields(prefix string, v reflect.Value, out *[]string) {
	if v.Kind() == reflect.Ptr {
		if v.IsNil() {
			*out = append(*out, prefix+"=NIL")
			return
		}
		v = v.Elem()
	}
	t := v.Type()
	for i := 0; i < v.NumField(); i++ {
		f := t.Field(i)
		if !f.IsExported() {
			continue
		}
		fv := v.Field(i)
		switch fv.Kind() {
		case reflect.String:
			*out = append(*out, prefix+f.Name+"="+hx(fv.String()))
		case reflect.Ptr, reflect.Struct:
			dumpFields(prefix+f.Name+".", fv, out)
		default:
			*out = append(*out, prefix+f.Name+"=?"+fv.Kind().String())
		}
	}
}

// mkReport decodes the vector at the level (the result may be invalid: the report is still built
// from whatever object the decoder left behind) and builds the report of that level.
func mkReport(level, tag, vec string) (interface{}, string) {
	opt := []report.ReportOptionsFunc{}
	if tag != "-" {
		opt = append(opt, report.WithOptionsLanguage(parseTag(tag)))
	}
	switch level {
	case "B":
		o := m3.NewBase()
		_, err := o.Decode(vec)
		return report.NewBase(o, opt...), errTag(err)
	case "T":
		o := m3.NewTemporal()
		_, err := o.Decode(vec)
		return report.NewTemporal(o, opt...), errTag(err)
	default:
		o := m3.NewEnvironmental()
		_, err := o.Decode(vec)
		return report.NewEnvironmental(o, opt...), errTag(err)
	}
}

func opR3(level, tag, vec string) string {
	rep, e := mkReport(level, tag, vec)
	fields := []string{}
	dumpFields("", reflect.ValueOf(rep), &fields)
	sort.Strings(fields)
	return "e=" + e + " " + ownScores(level, vec) + " " + strings.Join(fields, " ")
}

// ownScores: what Score() and Severity() of an object decoded from the same vector return at each
// level up to the report's (C17 says a score field renders *that* score)
func ownScores(level, vec string) string {
	ss, sv, rs := []string{}, []string{}, []string{}
	add := func(s float64, v int) {
		ss = append(ss, fmt.Sprintf("%016x", math.Float64bits(s)))
		sv = append(sv, strconv.Itoa(v))
		rs = append(rs, hx(strconv.FormatFloat(s, 'f', -1, 64)))
	}
	switch level {
	case "B":
		o := m3.NewBase()
		o.Decode(vec)
		add(o.Score(), int(o.Severity()))
	case "T":
		o := m3.NewTemporal()
		o.Decode(vec)
		add(o.BaseMetrics().Score(), int(o.BaseMetrics().Severity()))
		add(o.Score(), int(o.Severity()))
	default:
		o := m3.NewEnvironmental()
		o.Decode(vec)
		add(o.BaseMetrics().Score(), int(o.BaseMetrics().Severity()))
		add(o.TemporalMetrics().Score(), int(o.TemporalMetrics().Severity()))
		add(o.Score(), int(o.Severity()))
	}
	return "OWN.s=" + strings.Join(ss, ",") + " OWN.sv=" + strings.Join(sv, ",") + " OWN.r=" + strings.Join(rs, ",")
}

// ---- template export (C19): the library's result next to text/template called directly on the same report

type failReader struct {
	data []byte
	n    int
	pos  int
	kind string // which error the failure is: plain, wrapeof, patheof, unexpected, closed, once (transient: the next Read goes on)
	fired bool
}

func (r *failReader) failure() error {
	switch r.kind {
	case "wrapeof":
		return fmt.Errorf("fetching template body: %w", io.EOF) // a real failure that merely wraps io.EOF
	case "patheof":
		return &fs.PathError{Op: "read", Path: "template", Err: io.EOF}
	case "unexpected":
		return io.ErrUnexpectedEOF
	case "closed":
		return io.ErrClosedPipe
	}
	return errors.New("injected read failure")
}

func (r *failReader) Read(p []byte) (int, error) {
	if r.kind == "once" {
		// a transient failure (a timeout) after n bytes: reported once, after that the rest of the data is delivered.  A caller that
		// looks at the stream twice (peeking, re-reading) may lose the error; the export must still fail
		if r.pos >= r.n && !r.fired {
			r.fired = true
			return 0, errors.New("injected transient read failure")
		}
		if r.pos >= len(r.data) {
			return 0, io.EOF
		}
		p[0] = r.data[r.pos]
		r.pos++
		return 1, nil
	}
	if r.pos >= r.n {
		return 0, r.failure()
	}
	k := copy(p, r.data[r.pos:r.n])
	if k > 1 {
		k = 1 + k/2 // short reads
	}
	r.pos += k
	return k, nil
}

type chunkReader struct {
	data []byte
	pos  int
}

func (r *chunkReader) Read(p []byte) (int, error) {
	if r.pos >= len(r.data) {
		return 0, io.EOF
	}
	k := 3
	if k > len(p) {
		k = len(p)
	}
	if r.pos+k > len(r.data) {
		k = len(r.data) - r.pos
	}
	copy(p, r.data[r.pos:r.pos+k])
	r.pos += k
	return k, nil
}

type exporter interface {
	ExportWith(io.Reader) (io.Reader, error)
	ExportWithString(string) (io.Reader, error)
}

func resTag(r io.Reader, err error) string {
	out := ""
	if r != nil && !(reflect.ValueOf(r).Kind() == reflect.Ptr && reflect.ValueOf(r).IsNil()) {
		b, rerr := io.ReadAll(r)
		if rerr != nil {
			out = "READERR"
		} else {
			out = "out:" + hx(string(b))
		}
	} else {
		out = "noout"
	}
	return out + "|" + errTag(err)
}

// opX3: mode in string | reader | chunked | fail:<n> | nilreader | nilreport | nilreport+<one of the others>: a nil report
// (typed nil pointer of the level's report type) exported through that path
func opX3(level, tag, vec, mode, tmpl string) string {
	rep, _ := mkReport(level, tag, vec)
	nilrep := false
	if strings.HasPrefix(mode, "nilreport+") {
		nilrep = true
		mode = strings.TrimPrefix(mode, "nilreport+")
	}
	var ex exporter
	switch level {
	case "B":
		r := rep.(*report.BaseReport)
		if mode == "nilreport" || nilrep {
			r = nil
		}
		ex = r
	case "T":
		r := rep.(*report.TemporalReport)
		if mode == "nilreport" || nilrep {
			r = nil
		}
		ex = r
	default:
		r := rep.(*report.EnvironmentalReport)
		if mode == "nilreport" || nilrep {
			r = nil
		}
		ex = r
	}
	var lib string
	switch {
	case mode == "string" || mode == "nilreport":
		lib = resTag(ex.ExportWithString(tmpl))
	case mode == "reader":
		lib = resTag(ex.ExportWith(strings.NewReader(tmpl)))
	case mode == "chunked":
		lib = resTag(ex.ExportWith(&chunkReader{data: []byte(tmpl)}))
	case strings.HasPrefix(mode, "pre:"):
		// a reader the caller has already read a header from: the export must see what is left, whatever fast path the
		// reader's type offers (io.ReaderAt + Size, io.WriterTo, io.Seeker); the header itself contains template syntax
		const header = "#lang: en {{ .NoSuchField\n"
		switch strings.TrimPrefix(mode, "pre:") {
		case "s":
			r := strings.NewReader(header + tmpl)
			io.CopyN(io.Discard, r, int64(len(header)))
			lib = resTag(ex.ExportWith(r))
		case "b":
			r := bytes.NewReader([]byte(header + tmpl))
			r.Seek(int64(len(header)), io.SeekStart)
			lib = resTag(ex.ExportWith(r))
		case "x":
			r := io.NewSectionReader(strings.NewReader(header+tmpl+"{{ trailer"), int64(len(header)), int64(len(tmpl)))
			lib = resTag(ex.ExportWith(r))
		case "u":
			r := bufio.NewReader(strings.NewReader(header + tmpl))
			r.Discard(len(header))
			lib = resTag(ex.ExportWith(r))
		default:
			return "bad-mode"
		}
	case mode == "held" || mode == "heldreader":
		// the caller keeps the returned reader and goes on using the library before reading it
		var r1 io.Reader
		var e1 error
		if mode == "held" {
			r1, e1 = ex.ExportWithString(tmpl)
		} else {
			r1, e1 = ex.ExportWith(strings.NewReader(tmpl))
		}
		ex.ExportWithString("{{.Version}}-{{.Vector}}")
		ex.ExportWith(strings.NewReader("x {{.SeverityValue}} y"))
		ex.ExportWithString("partial {{.Version}} then {{.NoSuchField}}")
		ex.ExportWithString("{{ unclosed")
		lib = resTag(r1, e1)
	case mode == "nilreader":
		lib = resTag(ex.ExportWith(nil))
	case strings.HasPrefix(mode, "fail:"):
		parts := strings.Split(mode, ":") // fail:<bytes delivered before the failure>[:<kind of error>]
		n, _ := strconv.Atoi(parts[1])
		if n > len(tmpl) {
			n = len(tmpl)
		}
		kind := "plain"
		if len(parts) > 2 {
			kind = parts[2]
		}
		lib = resTag(ex.ExportWith(&failReader{data: []byte(tmpl), n: n, kind: kind}))
	default:
		return "bad-mode"
	}
	// reference: text/template directly on the report value
	ref := ""
	t, err := template.New("ref").Parse(tmpl)
	if err != nil {
		ref = "parse-error"
	} else {
		buf := &bytes.Buffer{}
		func() {
			defer func() {
				if r := recover(); r != nil {
					ref = "exec-panic"
				}
			}()
			if err := t.Execute(buf, rep); err != nil {
				ref = "exec-error"
			} else {
				ref = "out:" + hx(buf.String())
			}
		}()
	}
	_ = cvsserr.ErrInvalidTemplate
	return fmt.Sprintf("lib=%s ref=%s", lib, ref)
}

func runOpExt3(f []string) (string, bool) {
	arg := func(i int) string {
		if i < len(f) {
			return f[i]
		}
		return ""
	}
	switch f[0] {
	case "NM":
		v, err := strconv.Atoi(arg(2))
		if err != nil {
			return "", false
		}
		return opNM(arg(1), v, arg(3))
	case "R3":
		return opR3(arg(1), arg(2), unhx(arg(3))), true
	case "X3":
		return opX3(arg(1), arg(2), unhx(arg(3)), arg(4), unhx(arg(5))), true
	}
	return runOpExt4(f)
}
