package main

import (
	"fmt"
	"strconv"
	"strings"

	m3 "github.com/goark/go-cvss/v3/metric"
	v3ver "github.com/goark/go-cvss/v3/version"
)

// ---- table operations (C20): every exported Get / String / Value / IsX of every metric type

type tab struct {
	get   func(s string) int
	str   func(v int) string
	valid func(v int) bool      // the metric's validity predicate (IsUnknown negated for v3 base, IsValid otherwise)
	vals  func(v int) []float64 // Value() for every argument combination the method takes
}

func b2i(b bool) string {
	if b {
		return "1"
	}
	return "0"
}


func tabOp(tabs map[string]tab, f []string) (string, bool) {
	if len(f) < 4 {
		return "", false
	}
	if !tabsOn {
		return "api=changed", true
	}
	t, ok := tabs[f[1]]
	if !ok {
		return "", false
	}
	switch f[2] {
	case "get":
		return "get=" + strconv.Itoa(t.get(unhx(f[3]))), true
	case "val":
		v, err := strconv.Atoi(f[3])
		if err != nil {
			return "", false
		}
		bits := []string{}
		for _, x := range t.vals(v) {
			bits = append(bits, fbits(x))
		}
		return fmt.Sprintf("str=%s valid=%s val=%s", hx(t.str(v)), b2i(t.valid(v)), strings.Join(bits, ",")), true
	}
	return "", false
}

func hxe(s string) string {
	if s == "" {
		return "-"
	}
	return hx(s)
}

func runOpExt(f []string) (string, bool) {
	switch f[0] {
	case "T3":
		return tabOp(tabs3, f)
	case "T2":
		return tabOp(tabs2, f)
	case "TV": // version tables: metric.Version / GetVersion and version.Num / Get
		if len(f) < 3 {
			return "", false
		}
		switch f[1] {
		case "get":
			s := unhx(f[2])
			v, err := m3.GetVersion(s)
			return fmt.Sprintf("gv=%d|%s num=%d", int(v), errTag(err), int(v3ver.Get(s))), true
		case "str":
			v, err := strconv.Atoi(f[2])
			if err != nil {
				return "", false
			}
			return fmt.Sprintf("vstr=%s nstr=%s", hx(m3.Version(v).String()), hx(v3ver.Num(v).String())), true
		}
	}
	return runOpExt2(f)
}
