package main

// extension points filled in by later files (tables, field-set scoring, histories, reports)
func runOpExt(f []string) (string, bool) { return "", false }
func extMain(args []string) bool          { return false }
