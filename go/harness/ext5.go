package main

import (
	"bufio"
	"fmt"
	"os"
	"strings"
	"sync"
)

// ---- concurrency (C16): `harness conc <file>`
// line 1 of the file: the set-up history of the shared objects (N / D operations only);
// every further line: the history of one goroutine. Slots 0..S-1 of each goroutine's pool are the
// shared objects (the same Go pointers in all goroutines: they are only queried), its own objects
// follow. All goroutines start together; afterwards the same histories run one after the other.
// Output: one line per goroutine "c=<concurrent outputs>" and "s=<sequential outputs>".
func concMain(path string) {
	f, err := os.Open(path)
	if err != nil {
		fmt.Println("conc: cannot open", path)
		os.Exit(2)
	}
	defer f.Close()
	sc := bufio.NewScanner(f)
	sc.Buffer(make([]byte, 1<<20), 1<<26)
	lines := []string{}
	for sc.Scan() {
		lines = append(lines, sc.Text())
	}
	if len(lines) < 2 {
		fmt.Println("conc: need a set-up line and at least one history")
		os.Exit(2)
	}
	setup := func() []*slot {
		pool := []*slot{}
		for _, op := range strings.Split(lines[0], ";") {
			if op == "" {
				continue
			}
			switch op[0] {
			case 'N':
				pool = append(pool, newSlot(int(op[1]-'0'), op[2:]))
			case 'D':
				a := strings.SplitN(op[1:], ",", 2)
				var i int
				fmt.Sscanf(a[0], "%d", &i)
				pool[i].decode(unhx(a[1]))
			}
		}
		return pool
	}
	hs := lines[1:]
	shared := setup()
	conc := make([]string, len(hs))
	var wg sync.WaitGroup
	start := make(chan struct{})
	for i := range hs {
		wg.Add(1)
		go func(i int) {
			defer wg.Done()
			<-start
			conc[i] = runHistoryOn(shared, hs[i])
		}(i)
	}
	close(start)
	wg.Wait()
	// sequential reference on freshly built shared objects
	shared2 := setup()
	out := bufio.NewWriter(os.Stdout)
	defer out.Flush()
	for i := range hs {
		seq := runHistoryOn(shared2, hs[i])
		fmt.Fprintf(out, "c=%s\n", conc[i])
		fmt.Fprintf(out, "s=%s\n", seq)
	}
}

func runOpExt5(f []string) (string, bool) { return "", false }

func extMainConc(args []string) bool {
	if len(args) == 2 && args[0] == "conc" {
		concMain(args[1])
		return true
	}
	return false
}
