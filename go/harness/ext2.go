package main

// further extension points (hooks, histories, reports)
func runOpExt2(f []string) (string, bool) { return "", false }
func extMain(args []string) bool          { return false }
