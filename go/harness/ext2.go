package main

import (
	"fmt"
	"strconv"
	"strings"

	m2 "github.com/goark/go-cvss/v2/metric"
	m3 "github.com/goark/go-cvss/v3/metric"
)

// ---- observers on nil receivers and fresh constructor results (C12), field resets, huge inputs

func nilness(isNil bool) string {
	if isNil {
		return "nil"
	}
	return "ok"
}

// obs3 queries every observer of the property on a possibly-nil v3 receiver of the level.
func obs3(level string, b *m3.Base, t *m3.Temporal, e *m3.Environmental) string {
	switch level {
	case "B":
		return fmt.Sprintf("s=%s sv=%d ge=%s enc=%s str=%s bm=%s", fbits(b.Score()), int(b.Severity()), errTag(b.GetError()),
			encPair(b.Encode()), hx(b.String()), nilness(b.BaseMetrics() == nil))
	case "T":
		return fmt.Sprintf("s=%s sv=%d ge=%s enc=%s str=%s bm=%s", fbits(t.Score()), int(t.Severity()), errTag(t.GetError()),
			encPair(t.Encode()), hx(t.String()), nilness(t.BaseMetrics() == nil))
	default:
		return fmt.Sprintf("s=%s sv=%d ge=%s enc=%s str=%s bm=%s tm=%s", fbits(e.Score()), int(e.Severity()), errTag(e.GetError()),
			encPair(e.Encode()), hx(e.String()), nilness(e.BaseMetrics() == nil), nilness(e.TemporalMetrics() == nil))
	}
}

func obs2(level string, b *m2.Base, t *m2.Temporal, e *m2.Environmental) string {
	switch level {
	case "B":
		return fmt.Sprintf("s=%s sv=%d ge=%s enc=%s str=%s", fbits(b.Score()), int(b.Severity()), errTag(b.GetError()),
			encPair(b.Encode()), hx(b.String()))
	case "T":
		return fmt.Sprintf("s=%s sv=%d ge=%s enc=%s str=%s bm=%s", fbits(t.Score()), int(t.Severity()), errTag(t.GetError()),
			encPair(t.Encode()), hx(t.String()), nilness(t.BaseMetrics() == nil))
	default:
		return fmt.Sprintf("s=%s sv=%d ge=%s enc=%s str=%s bm=%s tm=%s", fbits(e.Score()), int(e.Severity()), errTag(e.GetError()),
			encPair(e.Encode()), hx(e.String()), nilness(e.BaseMetrics() == nil), nilness(e.TemporalMetrics() == nil))
	}
}

func opQ3(level, kind string) string {
	var b *m3.Base
	var t *m3.Temporal
	var e *m3.Environmental
	if kind == "fresh" {
		b, t, e = m3.NewBase(), m3.NewTemporal(), m3.NewEnvironmental()
	}
	return obs3(level, b, t, e)
}

func opQ2(level, kind string) string {
	var b *m2.Base
	var t *m2.Temporal
	var e *m2.Environmental
	if kind == "fresh" {
		b, t, e = m2.NewBase(), m2.NewTemporal(), m2.NewEnvironmental()
	}
	return obs2(level, b, t, e)
}

func set3(b *m3.Base, t *m3.Temporal, e *m3.Environmental, name string, v int) bool {
	switch name {
	case "Ver":
		b.Ver = m3.Version(v)
	case "AV":
		b.AV = m3.AttackVector(v)
	case "AC":
		b.AC = m3.AttackComplexity(v)
	case "PR":
		b.PR = m3.PrivilegesRequired(v)
	case "UI":
		b.UI = m3.UserInteraction(v)
	case "S":
		b.S = m3.Scope(v)
	case "C":
		b.C = m3.ConfidentialityImpact(v)
	case "I":
		b.I = m3.IntegrityImpact(v)
	case "A":
		b.A = m3.AvailabilityImpact(v)
	default:
		if t == nil {
			return false
		}
		switch name {
		case "E":
			t.E = m3.Exploitability(v)
		case "RL":
			t.RL = m3.RemediationLevel(v)
		case "RC":
			t.RC = m3.ReportConfidence(v)
		default:
			if e == nil {
				return false
			}
			switch name {
			case "CR":
				e.CR = m3.ConfidentialityRequirement(v)
			case "IR":
				e.IR = m3.IntegrityRequirement(v)
			case "AR":
				e.AR = m3.AvailabilityRequirement(v)
			case "MAV":
				e.MAV = m3.ModifiedAttackVector(v)
			case "MAC":
				e.MAC = m3.ModifiedAttackComplexity(v)
			case "MPR":
				e.MPR = m3.ModifiedPrivilegesRequired(v)
			case "MUI":
				e.MUI = m3.ModifiedUserInteraction(v)
			case "MS":
				e.MS = m3.ModifiedScope(v)
			case "MC":
				e.MC = m3.ModifiedConfidentialityImpact(v)
			case "MI":
				e.MI = m3.ModifiedIntegrityImpact(v)
			case "MA":
				e.MA = m3.ModifiedAvailabilityImpact(v)
			default:
				return false
			}
		}
	}
	return true
}

func set2(b *m2.Base, t *m2.Temporal, e *m2.Environmental, name string, v int) bool {
	switch name {
	case "AV":
		b.AV = m2.AccessVector(v)
	case "AC":
		b.AC = m2.AccessComplexity(v)
	case "Au":
		b.Au = m2.Authentication(v)
	case "C":
		b.C = m2.ConfidentialityImpact(v)
	case "I":
		b.I = m2.IntegrityImpact(v)
	case "A":
		b.A = m2.AvailabilityImpact(v)
	default:
		if t == nil {
			return false
		}
		switch name {
		case "E":
			t.E = m2.Exploitability(v)
		case "RL":
			t.RL = m2.RemediationLevel(v)
		case "RC":
			t.RC = m2.ReportConfidence(v)
		default:
			if e == nil {
				return false
			}
			switch name {
			case "CDP":
				e.CDP = m2.CollateralDamagePotential(v)
			case "TD":
				e.TD = m2.TargetDistribution(v)
			case "CR":
				e.CR = m2.ConfidentialityRequirement(v)
			case "IR":
				e.IR = m2.IntegrityRequirement(v)
			case "AR":
				e.AR = m2.AvailabilityRequirement(v)
			default:
				return false
			}
		}
	}
	return true
}

// opF3: decode (any outcome), set one exported field, dump the receiver.
var queryFirst bool

func opF3(level, vec, name string, v int) string {
	switch level {
	case "B":
		o := m3.NewBase()
		o.Decode(vec)
		if queryFirst {
			dump3(level, o, nil, nil)
		}
		if !set3(o, nil, nil, name, v) {
			return "nofield"
		}
		return dump3(level, o, nil, nil)
	case "T":
		o := m3.NewTemporal()
		o.Decode(vec)
		if queryFirst {
			dump3(level, o.BaseMetrics(), o, nil)
		}
		if !set3(o.Base, o, nil, name, v) {
			return "nofield"
		}
		return dump3(level, o.BaseMetrics(), o, nil)
	default:
		o := m3.NewEnvironmental()
		o.Decode(vec)
		if queryFirst {
			dump3(level, o.BaseMetrics(), o.TemporalMetrics(), o)
		}
		if !set3(o.Base, o.Temporal, o, name, v) {
			return "nofield"
		}
		return dump3(level, o.BaseMetrics(), o.TemporalMetrics(), o)
	}
}

func opF2(level, vec, name string, v int) string {
	switch level {
	case "B":
		o := m2.NewBase()
		o.Decode(vec)
		if queryFirst {
			dump2(o, nil, nil)
		}
		if !set2(o, nil, nil, name, v) {
			return "nofield"
		}
		return dump2(o, nil, nil)
	case "T":
		o := m2.NewTemporal()
		o.Decode(vec)
		if queryFirst {
			dump2(o.BaseMetrics(), o, nil)
		}
		if !set2(o.Base, o, nil, name, v) {
			return "nofield"
		}
		return dump2(o.BaseMetrics(), o, nil)
	default:
		o := m2.NewEnvironmental()
		o.Decode(vec)
		if queryFirst {
			dump2(o.BaseMetrics(), o.TemporalMetrics(), o)
		}
		if !set2(o.Base, o.Temporal, o, name, v) {
			return "nofield"
		}
		return dump2(o.BaseMetrics(), o.TemporalMetrics(), o)
	}
}

// opBig: a huge input built by repetition; only the outcome is printed.
func opBig(ver, level, head, unit string, n int) string {
	s := head + strings.Repeat(unit, n)
	var out string
	if ver == "3" {
		out = opD3x(level, s, false, false)
	} else {
		out = opD2x(level, s, false, false)
	}
	f := strings.SplitN(out, " ", 3)
	if len(f) >= 2 {
		return f[0] + " " + f[1]
	}
	return out
}

func runOpExt2(f []string) (string, bool) {
	arg := func(i int) string {
		if i < len(f) {
			return f[i]
		}
		return ""
	}
	switch f[0] {
	case "Q3":
		return opQ3(arg(1), arg(2)), true
	case "Q2":
		return opQ2(arg(1), arg(2)), true
	case "F3", "F2", "G3", "G2":
		// F: decode, overwrite one exported field, query.  G: decode, query everything, overwrite the field, query again
		// (an object that has already answered must answer for its *current* fields)
		v, err := strconv.Atoi(arg(4))
		if err != nil {
			return "", false
		}
		queryFirst = f[0][0] == 'G'
		defer func() { queryFirst = false }()
		if f[0][1] == '3' {
			return opF3(arg(1), unhx(arg(2)), arg(3), v), true
		}
		return opF2(arg(1), unhx(arg(2)), arg(3), v), true
	case "BIG":
		n, err := strconv.Atoi(arg(5))
		if err != nil {
			return "", false
		}
		return opBig(arg(1), arg(2), unhx(arg(3)), unhx(arg(4)), n), true
	}
	return runOpExt3(f)
}

func extMain(args []string) bool { return extMainConc(args) }
